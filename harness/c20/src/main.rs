//! C20 — coverage obtained through external tools.
//! LLVM half: recording stand-ins for llvm-profdata / llvm-cov under --llvm-path; layouts of
//! profile files over directories / zips / plain arguments and binary-path trees with executables,
//! non-executables and failing binaries; the tools' logs and the report are compared with the
//! Lean `LlvmTools` model and with the independent aggregate of the canned lcov exports.
//! GCC half: generated C programs, gcc --coverage, 0-3 runs, grcov (through real gcov) against an
//! independent reader of `gcov -b -c` text, for several thread counts.
use corrlib::pipe::*;
use corrlib::*;
use grcov::CovResult;
use serde_json::json;
use std::collections::BTreeMap;
use std::path::Path;
use std::process::Command;
use std::time::Duration;

mod consumer;
mod llvmrun;
mod llvmtree;
mod multitu;
mod realtools;

const PROFDATA_STUB: &str = r#"#!/bin/sh
# recording stand-in for llvm-profdata: logs argv and, for every path listed on stdin, the id
# stored in the file it names
log="$STUB_LOG"
out=""
prev=""
for a in "$@"; do
  if [ "$prev" = "-o" ]; then out="$a"; fi
  prev="$a"
done
{
  printf 'PROFDATA'
  for a in "$@"; do
    if [ "$a" = "$out" ]; then printf ' <out>'; else printf ' %s' "$a"; fi
  done
  printf '\n'
  while IFS= read -r line; do
    case "$line" in
      1,*) f="${line#1,}"
           if [ -f "$f" ]; then printf 'PROFILE %s\n' "$(cat "$f")"; else printf 'PROFILE missing:%s\n' "$f"; fi;;
      *) printf 'PROFILE badline:%s\n' "$line";;
    esac
  done
  printf 'END\n'
} >> "$log.$$"
cat "$log.$$" >> "$log"; rm -f "$log.$$"
echo merged > "$out"
exit 0
"#;

const COV_STUB: &str = r#"#!/bin/sh
# recording stand-in for llvm-cov: `export <binary> --instr-profile <p> --format lcov`
log="$STUB_LOG"
bin="$2"
printf 'COV %s %s %s %s %s\n' "$1" "$(basename "$bin")" "$3" "$5" "$6" >> "$log"
if [ -f "$bin.fail" ]; then echo "stub: cannot export $bin" >&2; exit 1; fi
cat "$bin.lcov"
exit 0
"#;

fn write_exec(path: &Path, text: &str) {
    std::fs::write(path, text).unwrap();
    use std::os::unix::fs::PermissionsExt;
    std::fs::set_permissions(path, std::fs::Permissions::from_mode(0o755)).unwrap();
}

// ---------------------------------------------------------------------------------------------
fn gen_c_program(rng: &mut Rng) -> String {
    let nf = rng.range(1, 4);
    let mut s = String::from("#include <stdlib.h>\n#include \"hdr.h\"\n\n");
    for f in 0..nf {
        s.push_str(&format!("int f{}(int x)\n{{\n  int s = 0;\n", f));
        for _ in 0..rng.range(1, 4) {
            match rng.below(6) {
                0 => s.push_str(&format!("  if (x > {}) {{\n    s += x;\n  }} else {{\n    s -= 1;\n  }}\n", rng.below(4))),
                1 => s.push_str(&format!("  for (int i = 0; i < x + {}; i++) {{\n    s += i;\n  }}\n", rng.below(3))),
                2 => s.push_str(&format!("  switch (x % 3) {{\n  case 0:\n    s += 1;\n    break;\n  case 1:\n    s += 2;\n  default:\n    s += {};\n  }}\n", rng.below(5))),
                3 => s.push_str(&format!("  if (x > 1 && s > {}) s++; else s--;\n", rng.below(3))),
                4 => s.push_str("  if (x == 7) return -1;\n"),
                _ => s.push_str("  s += hdr_fn(x); s *= 2;\n"),
            }
        }
        s.push_str("  return s;\n}\n\n");
    }
    s.push_str("int unused_fn(int x)\n{\n  return x + 1;\n}\n\n");
    s.push_str("int main(int argc, char **argv)\n{\n  int n = argc > 1 ? atoi(argv[1]) : 0;\n  int r = 0;\n");
    for f in 0..nf {
        if rng.chance(2, 3) {
            s.push_str(&format!("  r += f{}(n);\n", f));
        } else {
            s.push_str(&format!("  if (n > {}) {{\n    r += f{}(n + 1);\n  }}\n", rng.below(4), f));
        }
    }
    s.push_str("  return r == 12345;\n}\n");
    s
}

/// (line -> count) and (function -> executed) read from `gcov -b -c` text
fn read_gcov_text(text: &str) -> (BTreeMap<u32, u64>, BTreeMap<String, bool>) {
    let mut lines = BTreeMap::new();
    let mut fns = BTreeMap::new();
    for l in text.lines() {
        if let Some(rest) = l.strip_prefix("function ") {
            let p: Vec<&str> = rest.split(' ').collect();
            if p.len() >= 3 && p[1] == "called" {
                fns.insert(p[0].to_string(), p[2] != "0");
            }
            continue;
        }
        let p: Vec<&str> = l.splitn(3, ':').collect();
        if p.len() < 3 {
            continue;
        }
        let cnt = p[0].trim();
        let no: u32 = match p[1].trim().parse() {
            Ok(n) => n,
            Err(_) => continue,
        };
        if no == 0 || cnt == "-" {
            continue;
        }
        let c = cnt.trim_end_matches('*');
        let v: u64 = if c == "#####" || c == "=====" { 0 } else { c.parse().unwrap_or(u64::MAX) };
        lines.insert(no, v);
    }
    (lines, fns)
}

fn gcc_half(rep: &mut Report, rng: &mut Rng) {
    let n = rep.budget(15, 8);
    for c in 0..n {
        let dir = rep.workdir.join(format!("gcc{}", c));
        let _ = std::fs::remove_dir_all(&dir);
        std::fs::create_dir_all(&dir).unwrap();
        let prog = gen_c_program(rng);
        std::fs::write(dir.join("prog.c"), &prog).unwrap();
        std::fs::write(dir.join("hdr.h"), "static inline int hdr_fn(int x)\n{\n  if (x > 2)\n    return x;\n  return 0;\n}\n").unwrap();
        let ok = Command::new("gcc").current_dir(&dir).args(["--coverage", "-O0", "-o", "prog", "prog.c"]).status().map(|s| s.success()).unwrap_or(false);
        if !ok {
            rep.notes.push("gcc failed on a generated program (generator bug)".into());
            continue;
        }
        let runs = rng.below(4);
        let mut argsv = vec![];
        for _ in 0..runs {
            let a = rng.below(9).to_string();
            let _ = Command::new("./prog").current_dir(&dir).arg(&a).status();
            argsv.push(a);
        }
        let case = json!({"op": "gcc", "program": prog, "run_args": argsv});
        rep.case(&format!("gcc {} {:?}", fnv64(prog.as_bytes()), argsv), runs > 0);
        rep.count(&format!("gcc.runs={}", runs));
        // reference: gcov text (a copy of the tree, so that grcov sees an untouched one)
        let refdir = dir.join("ref");
        std::fs::create_dir_all(&refdir).unwrap();
        for f in ["prog.c", "hdr.h", "prog-prog.gcno", "prog-prog.gcda", "prog.gcno", "prog.gcda"] {
            let _ = std::fs::copy(dir.join(f), refdir.join(f));
        }
        let gcda = if refdir.join("prog-prog.gcda").exists() { "prog-prog.gcda" } else if refdir.join("prog.gcda").exists() { "prog.gcda" } else { "" };
        let gcno = if refdir.join("prog-prog.gcno").exists() { "prog-prog.gcno" } else { "prog.gcno" };
        let target = if gcda.is_empty() { gcno } else { gcda };
        let _ = Command::new("gcov").current_dir(&refdir).args(["-b", "-c", target]).output();
        let mut want: BTreeMap<String, (BTreeMap<u32, u64>, BTreeMap<String, bool>)> = BTreeMap::new();
        for f in ["prog.c", "hdr.h"] {
            if let Ok(t) = std::fs::read_to_string(refdir.join(format!("{}.gcov", f))) {
                want.insert(f.to_string(), read_gcov_text(&t));
            }
        }
        let _ = std::fs::remove_dir_all(&refdir);
        let _ = std::fs::remove_file(dir.join("prog"));
        for threads in [1usize, 3] {
            let out = run_grcov(&RunCfg {
                dir: &dir,
                args: vec![".".into()],
                threads,
                perturb: None,
                fault: None,
                limit: Duration::from_secs(120),
                extra: vec!["-t".into(), "lcov".into(), "--no-demangle".into()],
            });
            if out.exit != Some(0) {
                rep.fail("oracle", None, format!("grcov exited with {:?} on gcc coverage data: {}", out.exit, out.stderr.lines().last().unwrap_or("")), case.clone());
                continue;
            }
            let got = match decode_lcov_report(&out.stdout) {
                Ok(m) => m,
                Err(e) => {
                    rep.fail("oracle", None, format!("invalid lcov: {}", e), case.clone());
                    continue;
                }
            };
            for (f, (wl, wf)) in &want {
                rep.count_n("gcc.lines_compared", wl.len() as u64);
                rep.count_n("gcc.functions_compared", wf.len() as u64);
                rep.count_n("gcc.lines_with_count_gt0", wl.values().filter(|v| **v > 0).count() as u64);
                let g: Option<&CovResult> = got.iter().find(|(k, _)| k.ends_with(f.as_str())).map(|x| x.1);
                let (gl, gf): (BTreeMap<u32, u64>, BTreeMap<String, bool>) = match g {
                    Some(c) => (c.lines.clone(), c.functions.iter().map(|(n, f)| (n.clone(), f.executed)).collect()),
                    None => (BTreeMap::new(), BTreeMap::new()),
                };
                // functions of a header are listed by gcov under the file that defines them
                let wf_here: BTreeMap<String, bool> = wf.iter().filter(|(n, _)| gf.contains_key(*n) || f == "prog.c").map(|(a, b)| (a.clone(), *b)).collect();
                if &gl != wl || (f == "prog.c" && gf != wf_here) {
                    rep.fail(
                        "oracle",
                        None,
                        format!("grcov's lines/functions for {} differ from what gcov -b -c prints (threads={})", f, threads),
                        json!({"case": case, "file": f, "grcov_lines": format!("{:?}", gl), "gcov_lines": format!("{:?}", wl),
                               "grcov_fns": format!("{:?}", gf), "gcov_fns": format!("{:?}", wf_here)}),
                    );
                }
            }
        }
    }
}

pub fn run(rep: &mut Report) {
    rep.rule = "LLVM (LlvmRun): 1-6 profiles of both kinds (.profraw/.profdata = up to two work items) over dir/zip/plain \
                arguments at names with commas, '#', blanks, digit-named directories; 1-5 ELF-headed binaries in a nested tree (a \
                quarter fail to export) plus decoys; stand-in tools whose output depends on their input (merged profile names the \
                merged ids, export depends on the profile content), --threads 1/2/4; GCC: generated C programs (if/else, \
                loops, switch with fall-through, &&, early return, header function, unused function) compiled with gcc \
                --coverage and run 0-3 times, grcov with 1 and 3 threads against gcov -b -c text; non-trivial = two work items \
                and >=2 threads (LLVM) or at least one run (GCC); distinct = distinct layout/program"
        .to_string();
    let mut rng = Rng::new(rep.seed ^ 0xC20);
    let t0 = std::time::Instant::now();
    llvmrun::run(rep, &mut rng);
    eprintln!("c20 llvmrun part: {} ms", t0.elapsed().as_millis());
    let t0 = std::time::Instant::now();
    gcc_half(rep, &mut rng);
    eprintln!("c20 gcc part: {} ms", t0.elapsed().as_millis());
    consumer::run(rep);
    let t0 = std::time::Instant::now();
    llvmtree::run(rep);
    eprintln!("c20 llvmtree part: {} ms", t0.elapsed().as_millis());
    let t0 = std::time::Instant::now();
    multitu::run(rep);
    eprintln!("c20 multitu part: {} ms", t0.elapsed().as_millis());
    let t0 = std::time::Instant::now();
    realtools::run(rep);
    eprintln!("c20 realtools part: {} ms", t0.elapsed().as_millis());
}

pub fn replay(rep: &mut Report, _case: &serde_json::Value) {
    if _case["op"].as_str().map(|o| o.starts_with("c20.cons.")).unwrap_or(false) {
        return consumer::replay(rep, _case);
    }
    // the new streams are replayed whole, from the recorded seed (they are deterministic in it)
    let op = _case["op"].as_str().or_else(|| _case["case"]["op"].as_str()).unwrap_or("");
    match op.split('.').nth(1).unwrap_or("") {
        "llvmrun" => return llvmrun::run(rep, &mut Rng::new(rep.seed ^ 0xC20)),
        "multitu" => return multitu::run(rep),
        "realtools" => return realtools::run(rep),
        _ => {}
    }
    rep.notes.push("replays: re-run ./check C20 with the same seed; programs/layouts are recorded in the replay file".into());
}

fn main() {
    if consumer::child_main() {
        return;
    }
    corrlib::run_main("C20", run, replay);
}
