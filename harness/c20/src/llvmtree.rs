//! C20 part `LlvmTree` — `find_binaries` on binary trees WITH symbolic links, hidden entries and
//! short files, tied to `Consumer.FindBin` (Lean), and the end-to-end clause "every executable
//! under --binary-path is exported exactly once per merged profile" through the recording stub
//! tools of `llvm_half`.
//!
//! Streams (one `Rng::new(rep.seed ^ 0xC2077)`):
//! * corpus/C20/*.json with op `c20.llvmtree.corpus` first (minimised past failures: the tree of the
//!   former finding C20-findbin-stale-sniff-buffer).
//! * `llvmtree.find` — generated trees: nested directories (some hidden), regular files (ELF / MZ
//!   headed and >= 128 bytes, text, empty, and 1-4 byte files that are a magic number or a prefix of
//!   one: `\x7f`, `M`, `\x7fELF`, `MZ`, `BC`), a `.ignore` file naming one entry in a third of the
//!   trees, links: to a file, chains (`libx.so -> libx.so.1 -> libx.so.1.0`), to a directory,
//!   dangling, out of the tree, back to an ancestor (loop); the root given directly, through a link
//!   to the directory, or as a link to a file. The REAL `grcov::find_binaries` in-process, compared
//!   exactly with `c20.llvmtree.find`; and the PROPERTY oracle: every regular executable below the
//!   tree — hidden or ignored or not — is returned exactly once, no link, nothing else. A missing
//!   executable whose path has a component starting with '.' or that the generated ignore file
//!   matches is the known finding C20-findbin-hidden-or-ignored-skipped (named matcher).
//! * `llvmtree.e2e` — the `grcov` binary on such trees with stub llvm-profdata / llvm-cov: the
//!   `llvm-cov export` invocations are the regular executables, once each per merged profile (same
//!   matcher for hidden / ignored ones), and the report equals the aggregate of the exports made
//!   (every link also has a linked `.lcov`, so a binary exported twice through a link would double
//!   its counts).
use corrlib::pipe::*;
use corrlib::*;
use serde_json::json;
use std::collections::BTreeSet;
use std::os::unix::fs::symlink;
use std::path::{Path, PathBuf};
use std::time::Duration;

#[derive(Clone, Debug)]
enum Kind {
    Dir,
    Link(String),
    File(Vec<u8>),
}

#[derive(Clone, Debug)]
struct Ent {
    path: String, // relative to the root
    kind: Kind,
    app: bool, // the generator's own knowledge: content is an application (ELF / MZ / BC magic, long enough)
    ignored: bool, // the generated `.ignore` file matches this entry or a directory above it
}

fn elf() -> Vec<u8> {
    let mut v = vec![0x7f, b'E', b'L', b'F', 2, 1, 1, 0];
    v.extend_from_slice(&[0u8; 192]);
    v
}
fn mz() -> Vec<u8> {
    let mut v = b"MZ\x90\x00".to_vec();
    v.extend_from_slice(&[3u8; 160]);
    v
}
fn text() -> Vec<u8> {
    "plain text, not an executable. ".repeat(6).into_bytes()
}

fn hidden(path: &str) -> bool {
    path.split('/').any(|c| c.starts_with('.'))
}

/// a tree description; links and files are only put into real directories of the tree
fn gen_tree(rng: &mut Rng, short: bool) -> Vec<Ent> {
    let mut ents: Vec<Ent> = vec![];
    let dir_pool = ["bin", "lib", "lib/deep", ".libs", "bin/.cache", "share"];
    let mut dirs: Vec<String> = vec!["".into()];
    for d in dir_pool {
        if rng.chance(2, 3) {
            // parents first
            let parent = d.rsplit_once('/').map(|x| x.0.to_string()).unwrap_or_default();
            if !dirs.contains(&parent) {
                continue;
            }
            dirs.push(d.to_string());
            ents.push(Ent { path: d.to_string(), kind: Kind::Dir, app: false, ignored: false });
        }
    }
    let join = |d: &str, n: &str| if d.is_empty() { n.to_string() } else { format!("{}/{}", d, n) };
    let nfiles = rng.range(2, 8);
    let mut files: Vec<String> = vec![];
    for i in 0..nfiles {
        let d = rng.pick(&dirs).clone();
        let (name, content, app) = match rng.below(if short { 11 } else { 6 }) {
            0 | 1 => (format!("app{}", i), elf(), true),
            2 => (format!("tool{}.exe", i), mz(), true),
            3 => (format!("notes{}.txt", i), text(), false),
            4 => (format!("empty{}", i), vec![], false),
            5 => (format!(".hid{}", i), elf(), true),
            6 => (format!("s{}", i), vec![0x7f], false),
            7 => (format!("m{}", i), b"M".to_vec(), false),
            8 => (format!("four{}", i), vec![0x7f, b'E', b'L', b'F'], false), // is_elf wants more than 52 bytes
            9 => (format!("mz{}", i), b"MZ".to_vec(), true),
            _ => (format!("bc{}", i), b"BC".to_vec(), true),
        };
        let p = join(&d, &name);
        files.push(p.clone());
        ents.push(Ent { path: p, kind: Kind::File(content), app, ignored: false });
    }
    // links
    for i in 0..rng.range(1, 6) {
        let d = rng.pick(&dirs).clone();
        let depth = if d.is_empty() { 0 } else { d.split('/').count() };
        let up = "../".repeat(depth);
        let (name, target) = match rng.below(6) {
            0 if !files.is_empty() => {
                // link (and a chain) to a file of the tree
                let t = rng.pick(&files).clone();
                (format!("ln{}.so", i), format!("{}{}", up, t))
            }
            1 if dirs.len() > 1 => {
                let t = rng.pick(&dirs[1..]).clone();
                (format!("dirln{}", i), format!("{}{}", up, t))
            }
            2 => (format!("dangling{}", i), "nowhere/at/all".to_string()),
            3 => (format!("outln{}", i), format!("{}../outside/ext_app", up)),
            4 => (format!("outdir{}", i), format!("{}../outside", up)),
            _ => (format!("loop{}", i), if depth == 0 { ".".to_string() } else { "..".to_string() }),
        };
        let p = join(&d, &name);
        if ents.iter().any(|e| e.path == p) {
            continue;
        }
        ents.push(Ent { path: p.clone(), kind: Kind::Link(target), app: false, ignored: false });
        if name.starts_with("ln") && rng.chance(1, 2) {
            // a second link to the first: libx.so -> libx.so.N -> file
            ents.push(Ent { path: format!("{}.chain", p), kind: Kind::Link(format!("{}", Path::new(&p).file_name().unwrap().to_str().unwrap())), app: false, ignored: false });
        }
    }
    // an ignore file at the root naming one entry (a file's or a directory's base name: it matches
    // at any depth, and everything below a matched directory)
    if rng.chance(1, 3) {
        let names: Vec<String> = ents
            .iter()
            .filter(|e| !matches!(e.kind, Kind::Link(_)))
            .map(|e| e.path.rsplit('/').next().unwrap().to_string())
            .filter(|n| !n.starts_with('.'))
            .collect();
        if !names.is_empty() {
            let pat = rng.pick(&names).clone();
            for e in ents.iter_mut() {
                if e.path.split('/').any(|c| c == pat) {
                    e.ignored = true;
                }
            }
            ents.push(Ent { path: ".ignore".into(), kind: Kind::File(format!("{}\n", pat).into_bytes()), app: false, ignored: false });
        }
    }
    ents
}

fn materialise(base: &Path, ents: &[Ent]) {
    let _ = std::fs::remove_dir_all(base);
    std::fs::create_dir_all(base.join("tree")).unwrap();
    std::fs::create_dir_all(base.join("outside")).unwrap();
    std::fs::write(base.join("outside/ext_app"), elf()).unwrap();
    for e in ents {
        let p = base.join("tree").join(&e.path);
        match &e.kind {
            Kind::Dir => std::fs::create_dir_all(&p).unwrap(),
            Kind::File(c) => std::fs::write(&p, c).unwrap(),
            Kind::Link(t) => symlink(t, &p).unwrap(),
        }
    }
}

fn model_request(ents: &[Ent]) -> String {
    let items: Vec<String> = ents
        .iter()
        .map(|e| {
            let path: Vec<String> = e.path.split('/').map(|s| hex(s.as_bytes())).collect();
            let k = match &e.kind {
                Kind::Dir => "D".to_string(),
                Kind::Link(_) => "L".to_string(),
                Kind::File(c) => format!("F{}", hex(&c[..c.len().min(128)])),
            };
            format!("{}~{}{}", path.join("/"), k, if e.ignored { "~I" } else { "" })
        })
        .collect();
    format!("c20.llvmtree.find {}", items.join(";"))
}

fn show_paths(ps: &BTreeSet<String>) -> String {
    if ps.is_empty() {
        "-".into()
    } else {
        ps.iter().map(|p| p.split('/').map(|s| hex(s.as_bytes())).collect::<Vec<_>>().join("/")).collect::<Vec<_>>().join(";")
    }
}

const FINDING_HIDDEN: &str = "C20-findbin-hidden-or-ignored-skipped";

/// named matcher of the known finding: every missing executable has a path component starting with
/// '.' or is matched by the generated ignore file — and nothing else is wrong
fn only_hidden_or_ignored_missing(ents: &[Ent], missing: &[String]) -> bool {
    !missing.is_empty()
        && missing.iter().all(|m| {
            let base = m.rsplit('/').next().unwrap_or(m);
            ents.iter().any(|e| (e.path == *m || e.path.rsplit('/').next() == Some(base)) && (hidden(&e.path) || e.ignored))
        })
}

fn describe(ents: &[Ent]) -> serde_json::Value {
    json!(ents
        .iter()
        .map(|e| json!({"path": e.path, "ignored": e.ignored, "app": e.app,
            "kind": match &e.kind { Kind::Dir => "dir".to_string(), Kind::Link(t) => format!("link:{}", t), Kind::File(c) => format!("file:{}:{}", c.len(), hex(&c[..c.len().min(4)])) }}))
        .collect::<Vec<_>>())
}

fn corpus(rep: &mut Report) {
    let mut files: Vec<PathBuf> = std::fs::read_dir("/verif/corpus/C20").map(|d| d.flatten().map(|e| e.path()).collect()).unwrap_or_default();
    files.sort();
    for (i, f) in files.iter().enumerate() {
        let v: serde_json::Value = match std::fs::read_to_string(f).ok().and_then(|t| serde_json::from_str(&t).ok()) {
            Some(v) => v,
            None => continue,
        };
        if v["op"] != "c20.llvmtree.corpus" {
            continue;
        }
        rep.count("llvmtree.corpus.case");
        let ents: Vec<Ent> = v["entries"]
            .as_array()
            .cloned()
            .unwrap_or_default()
            .iter()
            .map(|e| Ent {
                path: e["path"].as_str().unwrap().to_string(),
                kind: match e["kind"].as_str().unwrap_or("file") {
                    "dir" => Kind::Dir,
                    k if k.starts_with("link:") => Kind::Link(k[5..].to_string()),
                    _ => Kind::File(unhex(e["hex"].as_str().unwrap_or(""))),
                },
                app: false,
                ignored: false,
            })
            .collect();
        let base = rep.workdir.join(format!("lt_corpus{}", i));
        materialise(&base, &ents);
        let mut want: Vec<String> = v["expect"].as_array().cloned().unwrap_or_default().iter().map(|x| x.as_str().unwrap().to_string()).collect();
        want.sort();
        for _ in 0..v["repeat"].as_u64().unwrap_or(1) {
            let root = base.join("tree");
            let root2 = root.clone();
            let r = guarded(move || grcov::find_binaries(&root2));
            let mut got: Vec<String> = r.clone().unwrap_or_default().iter().map(|p| p.strip_prefix(&root).unwrap().to_str().unwrap().to_string()).collect();
            got.sort();
            rep.case(&format!("corpus {}", f.display()), true);
            if r.is_err() || got != want {
                rep.fail("oracle", None, format!("corpus case {}: find_binaries returned {:?}, expected {:?}", f.display(), got, want), json!({"op": "c20.llvmtree.corpus", "file": f.display().to_string()}));
                break;
            }
        }
    }
}

fn stream_find(rep: &mut Report, rng: &mut Rng) {
    let n = rep.budget(60, 5);
    let mut reqs = vec![];
    let mut got_all = vec![];
    for c in 0..n {
        let short = c % 3 == 2;
        let ents = gen_tree(rng, short);
        let base = rep.workdir.join(format!("lt{}", c));
        materialise(&base, &ents);
        let base = std::fs::canonicalize(&base).unwrap();
        // how the root is given
        let (root, mode): (PathBuf, &str) = match rng.below(4) {
            0 => {
                symlink("tree", base.join("rootlink")).unwrap();
                (base.join("rootlink"), "root_is_link_to_dir")
            }
            _ => (base.join("tree"), "root_is_dir"),
        };
        let root2 = root.clone();
        let res = guarded(move || grcov::find_binaries(&root2));
        let case = json!({"op": "c20.llvmtree.find", "mode": mode, "short": short, "entries": describe(&ents)});
        let nlinks = ents.iter().filter(|e| matches!(e.kind, Kind::Link(_))).count();
        rep.case(&format!("find {} {:?}", mode, ents.iter().map(|e| (&e.path, e.ignored, match &e.kind { Kind::Dir => "d".to_string(), Kind::Link(t) => format!("l{}", t), Kind::File(c) => format!("f{}", c.len()) })).collect::<Vec<_>>()), nlinks > 0);
        rep.count(&format!("llvmtree.find.{}", mode));
        rep.count_n("llvmtree.find.links", nlinks as u64);
        if short {
            rep.count("llvmtree.find.tree_with_short_files");
        }
        if ents.iter().any(|e| e.path == ".ignore") {
            rep.count("llvmtree.find.tree_with_ignore_file");
        }
        if c == 0 {
            rep.sample(case.clone());
        }
        let paths = match res {
            Ok(p) => p,
            Err(e) => {
                rep.fail("oracle", None, format!("find_binaries panicked on a tree with links: {}", e), case);
                continue;
            }
        };
        let mut got = BTreeSet::new();
        let mut dup = false;
        for p in &paths {
            let r = p.strip_prefix(&root).map(|x| x.to_str().unwrap().to_string()).unwrap_or_else(|_| format!("<outside>{}", p.display()));
            if !got.insert(r) {
                dup = true;
            }
        }
        // ---- the property: every regular executable below the tree exactly once, nothing else
        let all_exec: BTreeSet<String> = ents.iter().filter(|e| e.app && matches!(e.kind, Kind::File(_))).map(|e| e.path.clone()).collect();
        let missing: Vec<String> = all_exec.iter().filter(|p| !got.contains(*p)).cloned().collect();
        let extra: Vec<String> = got.iter().filter(|p| !all_exec.contains(*p)).cloned().collect();
        if dup || !extra.is_empty() {
            rep.fail("oracle", None, format!("find_binaries returned {:?}: twice or not a regular executable of the tree: {:?} (links must be neither returned nor followed)", paths, extra), case.clone());
        } else if !missing.is_empty() {
            let named = only_hidden_or_ignored_missing(&ents, &missing);
            if named {
                rep.count("llvmtree.find.hidden_or_ignored_executable_skipped");
            }
            rep.fail("oracle", if named { Some(FINDING_HIDDEN) } else { None }, format!("executables below --binary-path that find_binaries does not return: {:?}", missing), case.clone());
        }
        // ---- the model: exactly what the code does
        reqs.push(model_request(&ents));
        got_all.push((format!("{} executables={}", show_paths(&got), all_exec.len()), case));
    }
    // the root given as a link to a FILE: returned as it is
    {
        let base = rep.workdir.join("lt_filelink");
        materialise(&base, &[Ent { path: "app".into(), kind: Kind::File(elf()), app: true, ignored: false }, Ent { path: "app.so".into(), kind: Kind::Link("app".into()), app: false, ignored: false }]);
        let r = guarded(move || grcov::find_binaries(&base.join("tree/app.so")));
        rep.case("find root_is_link_to_file", true);
        rep.count("llvmtree.find.root_is_link_to_file");
        if r.as_ref().map(|v| v.len() == 1 && v[0].ends_with("tree/app.so")).unwrap_or(false) == false {
            rep.fail("oracle", None, format!("a --binary-path that is a link to a file: {:?}", r), json!({"op": "c20.llvmtree.find", "mode": "root_is_link_to_file"}));
        }
    }
    let ans = run_model(&reqs, &rep.workdir, "llvmtree_find");
    for i in 0..reqs.len() {
        if ans[i] != got_all[i].0 {
            rep.disagreements_checked += 1;
            rep.fail("disagreement", None, format!("find_binaries: impl {} model {}", got_all[i].0, ans[i]), json!({"op": "c20.llvmtree.find", "case": got_all[i].1, "request": reqs[i]}));
        }
    }
}

fn stream_e2e(rep: &mut Report, rng: &mut Rng) {
    let n = rep.budget(16, 5);
    let stubs = rep.workdir.join("lt_stubs");
    std::fs::create_dir_all(&stubs).unwrap();
    super::write_exec(&stubs.join("llvm-profdata"), super::PROFDATA_STUB);
    super::write_exec(&stubs.join("llvm-cov"), super::COV_STUB);
    for c in 0..n {
        let dir = rep.workdir.join(format!("lte{}", c));
        let _ = std::fs::remove_dir_all(&dir);
        let ents = gen_tree(rng, false);
        materialise(&dir, &ents);
        std::fs::create_dir_all(dir.join("cwd")).unwrap();
        let tree = dir.join("tree");
        // a canned export beside every regular executable (also the hidden and the outside ones),
        // and beside every link the same export through a link
        let mut exports: Vec<(String, Vec<u8>, bool)> = vec![]; // basename, lcov, expected
        let mut k = 1u64;
        for e in &ents {
            if let (Kind::File(_), true) = (&e.kind, e.app) {
                let sf = *rng.pick(&["src/a.rs", "src/b.rs"]);
                k += 1;
                let lcov = format!("SF:{}\nDA:1,{}\nDA:2,0\nend_of_record\n", sf, k).into_bytes();
                std::fs::write(tree.join(format!("{}.lcov", e.path)), &lcov).unwrap();
                exports.push((Path::new(&e.path).file_name().unwrap().to_str().unwrap().to_string(), lcov, !hidden(&e.path) && !e.ignored));
            }
        }
        std::fs::write(dir.join("outside/ext_app.lcov"), "SF:src/out.rs\nDA:1,7\nend_of_record\n").unwrap();
        for e in &ents {
            if let Kind::Link(t) = &e.kind {
                let _ = symlink(format!("{}.lcov", t), tree.join(format!("{}.lcov", e.path)));
            }
        }
        // profiles: one or two kinds => one or two merges
        std::fs::create_dir_all(dir.join("prof")).unwrap();
        std::fs::write(dir.join("prof/a.profraw"), "p1").unwrap();
        let two = rng.chance(1, 3);
        if two {
            std::fs::write(dir.join("prof/b.profdata"), "p2").unwrap();
        }
        let merges = if two { 2 } else { 1 };
        let log = dir.join("stub.log");
        std::env::set_var("STUB_LOG", &log);
        let threads = *rng.pick(&[1usize, 2, 4]);
        let out = run_grcov(&RunCfg {
            dir: &dir.join("cwd"),
            args: vec!["../prof".into()],
            threads,
            perturb: None,
            fault: None,
            limit: Duration::from_secs(60),
            extra: vec!["-t".into(), "lcov".into(), "--no-demangle".into(), "--binary-path".into(), "../tree".into(), "--llvm-path".into(), stubs.to_str().unwrap().into()],
        });
        std::env::remove_var("STUB_LOG");
        let nlinks = ents.iter().filter(|e| matches!(e.kind, Kind::Link(_))).count();
        let case = json!({"op": "c20.llvmtree.e2e", "threads": threads, "merges": merges,
            "entries": describe(&ents)});
        rep.case(&format!("e2e {} {:?}", merges, ents.iter().map(|e| &e.path).collect::<Vec<_>>()), nlinks > 0);
        rep.count(&format!("llvmtree.e2e.merges={}", merges));
        if out.exit != Some(0) {
            rep.fail("oracle", None, format!("grcov exited with {:?}: {}", out.exit, out.stderr.lines().last().unwrap_or("")), case);
            continue;
        }
        let logtext = std::fs::read_to_string(&log).unwrap_or_default();
        let nmerge = logtext.lines().filter(|l| l.starts_with("PROFDATA")).count();
        let mut exported: Vec<String> = logtext.lines().filter(|l| l.starts_with("COV export ")).map(|l| l.split(' ').nth(2).unwrap().to_string()).collect();
        exported.sort();
        // the property: EVERY regular executable below the tree once per merged profile
        let mut want: Vec<String> = vec![];
        let mut want_walked: Vec<String> = vec![];
        for _ in 0..merges {
            want.extend(exports.iter().map(|e| e.0.clone()));
            want_walked.extend(exports.iter().filter(|e| e.2).map(|e| e.0.clone()));
        }
        want.sort();
        want_walked.sort();
        if nmerge != merges {
            rep.fail("oracle", None, format!("{} merge invocation(s), expected {}", nmerge, merges), case.clone());
        }
        if exported != want {
            let missing: Vec<String> = {
                let mut m = want.clone();
                for x in &exported {
                    if let Some(i) = m.iter().position(|y| y == x) {
                        m.remove(i);
                    }
                }
                m
            };
            let named = exported == want_walked && only_hidden_or_ignored_missing(&ents, &missing);
            if named {
                rep.count("llvmtree.e2e.hidden_or_ignored_executable_not_exported");
            }
            rep.fail("oracle", if named { Some(FINDING_HIDDEN) } else { None },
                format!("llvm-cov export invocations {:?}; expected every regular executable below --binary-path once per merged profile: {:?}", exported, want), case.clone());
        }
        // report = aggregate of those exports (once per merge)
        let mut inputs: Vec<Input> = vec![];
        for _ in 0..merges {
            for e in exports.iter().filter(|e| e.2) {
                inputs.push(Input { name: e.0.clone(), format: "Info", id: String::new(), bytes: e.1.clone(), parsed: grcov::parse_lcov(e.1.clone(), false).unwrap() });
            }
        }
        let refs: Vec<&Input> = inputs.iter().collect();
        let wantrep = show_map(&aggregate(&refs));
        let got = decode_lcov_report(&out.stdout).map(|m| show_map(&m));
        if got.as_ref().ok() != Some(&wantrep) {
            rep.fail("oracle", None, "report differs from the aggregate of one export per visible regular executable and merged profile (a binary reached twice through a link doubles its counts)".into(),
                json!({"case": case, "report": got, "aggregate": wantrep}));
        }
    }
}

pub fn run(rep: &mut Report) {
    rep.rule.push_str(
        "; part LlvmTree: binary trees with links (to files, chains, to directories, dangling, out of the tree, loops), \
         hidden entries, ignore files and 1-4 byte files: find_binaries in-process against Consumer.FindBin and the independent \
         expectation, and the grcov binary with stub tools (exports = visible regular executables, once per merged \
         profile; report = aggregate); non-trivial = the tree contains a link",
    );
    let mut rng = Rng::new(rep.seed ^ 0xC2077);
    corpus(rep);
    stream_find(rep, &mut rng);
    stream_e2e(rep, &mut rng);
}
