-- driver for C09: gcov intermediate text and gcov JSON readers (see GrcovModel/Drv/C09.lean)
import GrcovModel.Drv.C09
open Grcov.Drv

partial def loop (h : IO.FS.Stream) (out : IO.FS.Stream) : IO Unit := do
  let line ← h.getLine
  if line.isEmpty then return ()
  out.putStrLn (stepC09 line)
  loop h out

def main : IO Unit := do
  let out ← IO.getStdout
  loop (← IO.getStdin) out
  out.flush
