-- driver for C15 (and, through MainC08, for C08): gcno/gcda model
import GrcovModel.Drv.C15
import GrcovModel.Drv.C08Records
open Grcov.Drv

def step (line : String) : String :=
  match (line.trimAscii.toString.splitOn " ").filter (· ≠ "") with
  | "c15.stamp" :: args => handleC15Stamp args
  | _ => stepGcno line

partial def loop (h : IO.FS.Stream) (out : IO.FS.Stream) : IO Unit := do
  let line ← h.getLine
  if line.isEmpty then return ()
  out.putStrLn (step line)
  loop h out

def main : IO Unit := do
  let out ← IO.getStdout
  loop (← IO.getStdin) out
  out.flush
