-- driver for C15 (stub)
def step (_line : String) : String := "bad-op"

partial def loop (h : IO.FS.Stream) (out : IO.FS.Stream) : IO Unit := do
  let line ← h.getLine
  if line.isEmpty then return ()
  out.putStrLn (step line)
  loop h out

def main : IO Unit := do
  let out ← IO.getStdout
  loop (← IO.getStdin) out
  out.flush
