import GrcovModel.Drv.C10
-- driver for C10: one request per line, one answer per line (see GrcovModel/Drv/C10.lean)
open Grcov.Drv

partial def loop (h : IO.FS.Stream) (out : IO.FS.Stream) : IO Unit := do
  let line ← h.getLine
  if line.isEmpty then return ()
  out.putStrLn (stepC10 line)
  loop h out

def main : IO Unit := do
  let out ← IO.getStdout
  loop (← IO.getStdin) out
  out.flush
