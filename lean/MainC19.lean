-- driver for C19 part `Extract` (Confine.Extracts over the Producer model): see
-- GrcovModel/Drv/C19Extract.lean for the protocol; the other C19 ops are served by `gmodel`
import GrcovModel.Drv.C19Extract
open Grcov.Drv.C19X

def step (line : String) : String :=
  match line.trimAscii.toString.splitOn " " with
  | "c19.extracts" :: args => handleExtracts args
  | "c19.dest" :: args => handleDest args
  | "c19.alive" :: args => handleAlive args
  | "c19.gcovdests" :: args => handleGcovDests args
  | "c19.walk" :: args => handleWalk args
  | _ => "bad-op"

partial def loop (h : IO.FS.Stream) (out : IO.FS.Stream) : IO Unit := do
  let line ← h.getLine
  if line.isEmpty then return ()
  out.putStrLn (step line)
  loop h out

def main : IO Unit := do
  let out ← IO.getStdout
  loop (← IO.getStdin) out
  out.flush
