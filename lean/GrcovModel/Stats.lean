/-
Model of the summary figures computed by the report writers:

* lcov      `output_lcov`            src/output.rs 241-314   (FNF/FNH, BRF/BRH, LF/LH)
* covdir    `output_covdir`          src/output.rs 184-239, src/covdir.rs (CDStats, CDFileStats,
                                     CDDirStats::set_stats)
* cobertura `get_coverage`, `CoverageStats::from_lines`, the `Stats` trait, rates
                                     src/cobertura.rs 37-177, 234-329, 359-372, 421-467
* html      `get_stats`, `HtmlStats::add`, `get_dirs_result`,
            `get_percentage_of_covered_lines`, `gen_badge`, `gen_coverage_json`
                                     src/html.rs 16-26, 214-297, 574-654
* markdown  `output_markdown`        src/output.rs 621-700
* ade       `output_activedata_etl`  src/output.rs 74-182

Numbers are `Nat`; every rate is an exact rational `Rate` (numerator / denominator). A `Rate` with
denominator 0 is what the Rust code computes as `0.0 / 0.0` (NaN, serialised as `null` by ade).
Rust's f32/f64 arithmetic and formatting are NOT modelled: the harness compares the printed figure
with the exact rational within the printed precision.
Maps (`BTreeMap`, `FxHashMap`) are association lists observed through `get?`, counts and sums, so
iteration order never matters.
Core Lean only: linked into the native driver `gm_c13`.
-/
import GrcovModel.Merge
namespace Grcov.Stats
open Grcov AList

/-! ## Rates -/

structure Rate where
  num : Nat
  den : Nat
deriving DecidableEq, Repr

/-- a number (not NaN / null) -/
def Rate.Finite (r : Rate) : Prop := r.den ≠ 0
/-- in [0,1] -/
def Rate.InUnit (r : Rate) : Prop := r.num ≤ r.den
/-- in [0,100] -/
def Rate.InPercent (r : Rate) : Prop := r.num ≤ 100 * r.den
/-- `r = c / t` (cross-multiplied) -/
def Rate.IsRatio (r : Rate) (c t : Nat) : Prop := r.num * t = c * r.den
/-- `r = 100 · c / t` (cross-multiplied) -/
def Rate.IsPercent (r : Rate) (c t : Nat) : Prop := r.num * t = 100 * c * r.den

instance (r : Rate) : Decidable r.Finite := inferInstanceAs (Decidable (r.den ≠ 0))
instance (r : Rate) : Decidable r.InUnit := inferInstanceAs (Decidable (r.num ≤ r.den))
instance (r : Rate) : Decidable r.InPercent := inferInstanceAs (Decidable (r.num ≤ 100 * r.den))
instance (r : Rate) (c t : Nat) : Decidable (r.IsRatio c t) :=
  inferInstanceAs (Decidable (r.num * t = c * r.den))
instance (r : Rate) (c t : Nat) : Decidable (r.IsPercent c t) :=
  inferInstanceAs (Decidable (r.num * t = 100 * c * r.den))

/-- outcome of a writer: it returns, or a checked arithmetic operation panics (debug build) -/
inductive Run (α : Type) where
  | ok (a : α)
  | panic (site : String)
deriving Repr

/-! ## Input: one `ResultTuple` -/

/-- `(abs_path, rel_path, result)`. Paths are given as their `Path::components()` (an absolute path
starts with the component `/`); `relIsRel` is `rel_path.is_relative()`, `openable` is whether
`File::open(abs_path)` succeeds (a file-system parameter; only the HTML writer asks). -/
structure FileIn where
  relIsRel : Bool
  openable : Bool
  rel : List Name
  abs : List Name
  cov : Cov
deriving Repr

/-! ## Counts of the listed parts -/

/-- lines with an execution count > 0 -/
def countPos (ls : List (Nat × Nat)) : Nat := ls.countP fun kv => decide (0 < kv.2)
/-- lines with an execution count = 0 -/
def countZero (ls : List (Nat × Nat)) : Nat := ls.countP fun kv => decide (kv.2 = 0)
def fnExecuted (fs : List (Name × Fn)) : Nat := fs.countP fun nf => nf.2.executed
def brTotal (bs : List (Nat × List Bool)) : Nat := (bs.map fun lv => lv.2.length).sum
def brTaken (bs : List (Nat × List Bool)) : Nat := (bs.map fun lv => lv.2.countP id).sum

/-- `*map.keys().last().unwrap_or(&0)`: the largest key of a BTreeMap, 0 when empty -/
def maxKey {α : Type} (ls : List (Nat × α)) : Nat := ls.foldl (fun m kv => max m kv.1) 0

/-! ## lcov (output.rs 241-314) -/

structure LcovRec where
  /-- `FN:start,name` records -/
  fnRecs : List (Nat × Name)
  /-- `FNDA:0|1,name` records -/
  fndaRecs : List (Nat × Name)
  /-- `FNF`, `FNH` – only written when the function map is not empty -/
  fn : Option (Nat × Nat)
  /-- `BRDA:line,0,n,1|-` records -/
  brda : List (Nat × Nat × Bool)
  brf : Nat
  brh : Nat
  /-- `DA:line,count` records -/
  da : List (Nat × Nat)
  lf : Nat
  lh : Nat
deriving Repr

/-- the `for (line, taken) in &result.branches` loop: `branch_count += taken.len()`, and
`branch_hit += 1` for every taken slot -/
def lcovBranchLoop (bs : List (Nat × List Bool)) : Nat × Nat :=
  bs.foldl (fun acc lv =>
    (acc.1 + lv.2.length, lv.2.foldl (fun h t => if t then h + 1 else h) acc.2)) (0, 0)

def lcovBrda (bs : List (Nat × List Bool)) : List (Nat × Nat × Bool) :=
  bs.flatMap fun lv => lv.2.zipIdx.map fun tn => (lv.1, tn.2, tn.1)

def lcovRec (c : Cov) : LcovRec :=
  let bl := lcovBranchLoop c.branches
  { fnRecs := c.functions.map fun nf => (nf.2.start, nf.1)
    fndaRecs := c.functions.map fun nf => ((if nf.2.executed then 1 else 0), nf.1)
    fn := if c.functions.isEmpty then none
          else some (c.functions.length, fnExecuted c.functions)
    brda := lcovBrda c.branches
    brf := bl.1
    brh := bl.2
    da := c.lines
    lf := c.lines.length
    lh := countPos c.lines }

def lcov (rs : List FileIn) : List LcovRec := rs.map fun r => lcovRec r.cov

/-! ## covdir (covdir.rs, output.rs 184-239) -/

@[ext] structure CDStats where
  total : Nat
  covered : Nat
  missed : Nat
deriving DecidableEq, Repr

def CDStats.zero : CDStats := ⟨0, 0, 0⟩
/-- `CDStats::add` (three `+=`) -/
def CDStats.add (a b : CDStats) : CDStats :=
  ⟨a.total + b.total, a.covered + b.covered, a.missed + b.missed⟩

/-- `CDStats::get_percent` without the float rounding: `100·x/y`, and 0 when `y = 0` -/
def cdPercent (x y : Nat) : Rate := if y ≠ 0 then ⟨100 * x, y⟩ else ⟨0, 1⟩

def CDStats.percent (s : CDStats) : Rate := cdPercent s.covered s.total

structure CDFile where
  name : Name
  stats : CDStats
  /-- the `coverage` array: entry `i` is the count of line `i+1`, `none` is printed `-1` -/
  coverage : List (Option Nat)
deriving Repr

/-- `CDFileStats::get_coverage`: `total = len`, the array has `last_line` entries, and a line
counts as covered when its slot exists (`lines.get_mut(line_num - 1)`) and its count is > 0.
(`line_num - 1` underflows for line 0: see `covdir`.) -/
def cdGetCoverage (lines : List (Nat × Nat)) : Nat × Nat × List (Option Nat) :=
  let last := maxKey lines
  let covered := lines.foldl (fun c kv =>
    if kv.1 - 1 < last then (if 0 < kv.2 then c + 1 else c) else c) 0
  (lines.length, covered, (List.range last).map fun i => get? lines (i + 1))

/-- `CDStats::new`: `missed = total - covered` -/
def cdStatsNew (total covered : Nat) : CDStats := ⟨total, covered, total - covered⟩

/-- `CDFileStats::new` -/
def cdFileNew (name : Name) (lines : List (Nat × Nat)) : CDFile :=
  let g := cdGetCoverage lines
  { name := name, stats := cdStatsNew g.1 g.2.1, coverage := g.2.2 }

/-- The directories of one level (`CDDirStats::dirs`, a `Vec`), as a first-child / next-sibling
tree: `dir name stats files sub next` is a directory with its own files, its sub-directories `sub`
and the remaining directories of the same level `next`. -/
inductive Forest where
  | nil
  | dir (name : Name) (stats : CDStats) (files : List CDFile) (sub : Forest) (next : Forest)
deriving Repr

/-- the global directory `""` -/
structure CDRoot where
  stats : CDStats
  files : List CDFile
  sub : Forest
deriving Repr

/-- the chain of `CDDirStats::new(path_tail)` created for the ancestors that are not in the map
yet, with the file pushed into the innermost one -/
def mkChain : Name → List Name → CDFile → Forest
  | d, [], f => .dir d .zero [f] .nil .nil
  | d, d' :: rest, f => .dir d .zero [] (mkChain d' rest f) .nil

/-- walk down the ancestors `d :: rest` (outermost first); an existing directory is entered, a
missing one is pushed at the end of its parent's `dirs` -/
def Forest.insert : Forest → Name → List Name → CDFile → Forest
  | .nil, d, rest, f => mkChain d rest f
  | .dir n st fs sub next, d, rest, f =>
    if n = d then
      match rest with
      | [] => .dir n st (fs ++ [f]) sub next
      | d' :: rest' => .dir n st fs (sub.insert d' rest' f) next
    else .dir n st fs sub (next.insert d rest f)

def CDRoot.insert (r : CDRoot) (dirs : List Name) (f : CDFile) : CDRoot :=
  match dirs with
  | [] => { r with files := r.files ++ [f] }
  | d :: rest => { r with sub := r.sub.insert d rest f }

/-- `for file in self.files { self.stats.add(&file.stats) }` -/
def addFiles (st : CDStats) (fs : List CDFile) : CDStats := fs.foldl (fun a f => a.add f.stats) st

/-- sum of the `stats` fields of the directories of one level -/
def Forest.levelSum : Forest → CDStats
  | .nil => .zero
  | .dir _ st _ _ next => st.add next.levelSum

/-- `CDDirStats::set_stats` applied to every directory of one level: own files first, then every
sub-directory after its own `set_stats` -/
def Forest.setStats : Forest → Forest
  | .nil => .nil
  | .dir n st fs sub next =>
    .dir n ((addFiles st fs).add sub.setStats.levelSum) fs sub.setStats next.setStats

def CDRoot.setStats (r : CDRoot) : CDRoot :=
  { r with stats := (addFiles r.stats r.files).add r.sub.setStats.levelSum, sub := r.sub.setStats }

/-- the path `output_covdir` files a result under: `rel_path` when it is relative, else `abs_path` -/
def FileIn.cdPath (r : FileIn) : List Name := if r.relIsRel then r.rel else r.abs

/-- the tree before `set_stats` -/
def covdirBuild (rs : List FileIn) : CDRoot :=
  rs.foldl (fun root r =>
    let p := r.cdPath
    root.insert p.dropLast (cdFileNew (p.getLastD []) r.cov.lines)) ⟨.zero, [], .nil⟩

def covdirTree (rs : List FileIn) : CDRoot := (covdirBuild rs).setStats

/-- `output_covdir`. `*line_num - 1` in `get_coverage` is a `u32` subtraction: line 0 panics with
overflow checks on. -/
def covdir (rs : List FileIn) : Run CDRoot :=
  if rs.any (fun r => r.cov.lines.any fun kv => kv.1 == 0) then .panic "covdir.rs:62 line_num - 1"
  else .ok (covdirTree rs)

/-! ## cobertura (cobertura.rs) -/

inductive CLine where
  | plain (number hits : Nat)
  | branch (number hits : Nat) (conds : List Bool)
deriving DecidableEq, Repr

def CLine.number : CLine → Nat
  | .plain n _ => n
  | .branch n _ _ => n

def CLine.covered : CLine → Bool
  | .plain _ h => decide (0 < h)
  | .branch _ h _ => decide (0 < h)

/-- the closure `line_from_number` -/
def lineFromNumber (c : Cov) (n : Nat) : CLine :=
  let hits := (get? c.lines n).getD 0
  match get? c.branches n with
  | some v => .branch n hits v
  | none => .plain n hits

/-- the first element of the sorted `start_indexes` that is `> s` = the least start above `s` -/
def minAbove (starts : List Nat) (s : Nat) : Option Nat :=
  starts.foldl (fun m x => if s < x then (match m with
                                          | none => some x
                                          | some y => some (min x y)) else m) none

/-- `func_end`: the next function start, else one past the last line -/
def funcEnd (c : Cov) (s : Nat) : Nat :=
  (minAbove (c.functions.map fun nf => nf.2.start) s).getD (maxKey c.lines + 1)

/-- line numbers a function owns: `x >= function.start && x < func_end` -/
def linesInFunction (c : Cov) (f : Fn) : List Nat :=
  (keys c.lines).filter fun x => decide (f.start ≤ x) && decide (x < funcEnd c f.start)

structure CMethod where
  name : Name
  lines : List CLine
deriving Repr

structure CClass where
  lines : List CLine
  methods : List CMethod
deriving Repr

def cobClass (c : Cov) : CClass :=
  { lines := (keys c.lines).map (lineFromNumber c)
    methods := c.functions.map fun nf =>
      { name := nf.1, lines := (linesInFunction c nf.2).map (lineFromNumber c) } }

/-- `FxHashMap::extend`: insert every entry, a later one replacing an earlier one -/
def extendMap {β : Type} (m : List (Nat × β)) (xs : List (Nat × β)) : List (Nat × β) :=
  xs.foldl (fun m kv => set m kv.1 kv.2) m

/-- `Vec<Line>::get_lines`: every line inserted under its number -/
def vecLines (ls : List CLine) : List (Nat × CLine) :=
  extendMap [] (ls.map fun l => (l.number, l))

/-- `Vec<Method>::get_lines` -/
def methodsLines (ms : List CMethod) : List (Nat × CLine) :=
  ms.foldl (fun m meth => extendMap m (vecLines meth.lines)) []

/-- `Class::get_lines`: the class lines, extended with the method lines (same numbers: no line is
counted twice) -/
def classLines (k : CClass) : List (Nat × CLine) :=
  extendMap (vecLines k.lines) (methodsLines k.methods)

/-- `Package::get_lines` = `Vec<Class>::get_lines` of its single class -/
def packageLines (k : CClass) : List (Nat × CLine) := extendMap [] (classLines k)

@[ext] structure CobStats where
  linesCovered : Nat
  linesValid : Nat
  branchesCovered : Nat
  branchesValid : Nat
deriving DecidableEq, Repr

def CobStats.zero : CobStats := ⟨0, 0, 0, 0⟩
def CobStats.add (a b : CobStats) : CobStats :=
  ⟨a.linesCovered + b.linesCovered, a.linesValid + b.linesValid,
   a.branchesCovered + b.branchesCovered, a.branchesValid + b.branchesValid⟩

def CLine.condsTaken : CLine → Nat
  | .plain _ _ => 0
  | .branch _ _ v => v.countP id
def CLine.condsTotal : CLine → Nat
  | .plain _ _ => 0
  | .branch _ _ v => v.length

/-- `CoverageStats::from_lines` -/
def fromLines (m : List (Nat × CLine)) : CobStats :=
  { linesCovered := m.countP fun kl => kl.2.covered
    linesValid := m.length
    branchesCovered := (m.map fun kl => kl.2.condsTaken).sum
    branchesValid := (m.map fun kl => kl.2.condsTotal).sum }

/-- `line_rate`: 0 when nothing is valid -/
def CobStats.lineRate (s : CobStats) : Rate :=
  if 0 < s.linesValid then ⟨s.linesCovered, s.linesValid⟩ else ⟨0, 1⟩
def CobStats.branchRate (s : CobStats) : Rate :=
  if 0 < s.branchesValid then ⟨s.branchesCovered, s.branchesValid⟩ else ⟨0, 1⟩

structure CobPackage where
  /-- `package.get_stats()` -/
  stats : CobStats
  /-- `class.get_stats()` -/
  classStats : CobStats
  /-- `method.get_stats()` per method -/
  methods : List (Name × CobStats)
  cls : CClass
deriving Repr

def cobPackage (c : Cov) : CobPackage :=
  let k := cobClass c
  { stats := fromLines (packageLines k)
    classStats := fromLines (classLines k)
    methods := k.methods.map fun m => (m.name, fromLines (vecLines m.lines))
    cls := k }

structure CobReport where
  /-- `coverage.get_stats()`: the packages' stats folded with `+` -/
  stats : CobStats
  packages : List CobPackage
deriving Repr

def cobReport (rs : List FileIn) : CobReport :=
  let ps := rs.map fun r => cobPackage r.cov
  { stats := ps.foldl (fun acc p => acc.add p.stats) .zero, packages := ps }

/-- `output_cobertura`. `end = last + 1` is a `u32` addition: a last line of 2^32-1 panics with
overflow checks on. -/
def cobertura (rs : List FileIn) : Run CobReport :=
  if rs.any (fun r => decide (U32MAX ≤ maxKey r.cov.lines)) then .panic "cobertura.rs:245 last + 1"
  else .ok (cobReport rs)

/-! ## html (html.rs) -/

@[ext] structure HStats where
  totalLines : Nat
  coveredLines : Nat
  totalFuns : Nat
  coveredFuns : Nat
  totalBranches : Nat
  coveredBranches : Nat
deriving DecidableEq, Repr

def HStats.zero : HStats := ⟨0, 0, 0, 0, 0, 0⟩
/-- `HtmlStats::add` -/
def HStats.add (a b : HStats) : HStats :=
  ⟨a.totalLines + b.totalLines, a.coveredLines + b.coveredLines, a.totalFuns + b.totalFuns,
   a.coveredFuns + b.coveredFuns, a.totalBranches + b.totalBranches,
   a.coveredBranches + b.coveredBranches⟩

/-- `get_stats` -/
def htmlStats (c : Cov) : HStats :=
  { totalLines := c.lines.length
    coveredLines := countPos c.lines
    totalFuns := c.functions.length
    coveredFuns := fnExecuted c.functions
    totalBranches := brTotal c.branches
    coveredBranches := brTaken c.branches }

/-- `get_percentage_of_covered_lines` without the float: `100·c/t`, and 100 when `t = 0` -/
def htmlPercent (c t : Nat) : Rate := if t ≠ 0 then ⟨100 * c, t⟩ else ⟨100, 1⟩

/-- `get_percentage_of_covered_lines(..) as usize` (truncation) -/
def htmlPercentFloor (c t : Nat) : Nat := if t ≠ 0 then 100 * c / t else 100

structure HDir where
  files : List (Name × HStats)
  stats : HStats
deriving Repr

structure HGlobal where
  dirs : List (Name × HDir)
  stats : HStats
deriving Repr

/-- `get_dirs_result`: add to the global stats, then to the entry of the parent directory (created
on first use); the file is filed under its name -/
def getDirsResult (g : HGlobal) (parent fname : Name) (s : HStats) : HGlobal :=
  { stats := g.stats.add s
    dirs := match get? g.dirs parent with
      | some ds => set g.dirs parent { files := set ds.files fname s, stats := ds.stats.add s }
      | none => set g.dirs parent { files := [(fname, s)], stats := s } }

/-- `/` between components: `rel_path.parent().to_str()` of a normalised relative path -/
def joinPath : List Name → Name
  | [] => []
  | [c] => c
  | c :: rest => c ++ 47 :: joinPath rest

/-- `gen_html` returns before counting when `rel_path` is not relative or the source cannot be
opened -/
def FileIn.shown (r : FileIn) : Bool := r.relIsRel && r.openable

def htmlGlobal (rs : List FileIn) : HGlobal :=
  rs.foldl (fun g r =>
    if r.shown then getDirsResult g (joinPath r.rel.dropLast) (r.rel.getLastD []) (htmlStats r.cov)
    else g) ⟨[], .zero⟩

/-- an index page as rendered by `index.html`: what is listed (`Directory` or `File`), the summary
figures at the top, one row per item -/
structure HPage where
  listsDirs : Bool
  stats : HStats
  rows : List (Name × HStats)
deriving Repr

/-- the page `gen_index` renders -/
def globalPage (g : HGlobal) : HPage :=
  ⟨true, g.stats, g.dirs.map fun nd => (nd.1, nd.2.stats)⟩

/-- the page `gen_dir_index` renders for one directory -/
def dirPage (d : HDir) : HPage := ⟨false, d.stats, d.files⟩

/-- What `<output>/index.html` holds after `gen_index`: the global page is written first, then
`gen_dir_index` runs for every directory and writes `<output>/<dir_name>/index.html`. For the
directory `""` (files directly under the source root) that is the same file, so the page of that
directory replaces the global page. -/
def topPage (g : HGlobal) : HPage :=
  match get? g.dirs [] with
  | some d => dirPage d
  | none => globalPage g

structure HtmlReport where
  /-- `<output>/index.html` -/
  index : HPage
  /-- `<output>/<dir>/index.html` for every directory -/
  dirPages : List (Name × HPage)
  /-- `gen_badge`: `current` -/
  badge : Nat
  /-- `gen_coverage_json`: `message` before formatting -/
  json : Rate
deriving Repr

def html (rs : List FileIn) : HtmlReport :=
  let g := htmlGlobal rs
  { index := topPage g
    dirPages := g.dirs.map fun nd => (nd.1, dirPage nd.2)
    badge := htmlPercentFloor g.stats.coveredLines g.stats.totalLines
    json := htmlPercent g.stats.coveredLines g.stats.totalLines }

/-! ## markdown (output.rs 621-700) -/

/-- the local `fn percent(covered, total)` without the float: `100·covered/total`, and 100 when
`total = 0` (nothing to cover = fully covered, as in the HTML report) -/
def mdPercent (covered total : Nat) : Rate := if total = 0 then ⟨100, 1⟩ else ⟨100 * covered, total⟩

structure MdRow where
  covered : Nat
  total : Nat
  /-- `percent(covered, result.lines.len())` -/
  rate : Rate
deriving DecidableEq, Repr

structure MdReport where
  rows : List MdRow
  totalCovered : Nat
  totalLines : Nat
  /-- `percent(total_covered, total_lines)` -/
  rate : Rate
deriving Repr

/-- `format_lines(..).0`: the lines with `hits == 0`; then `covered = len - missed` -/
def mdRow (c : Cov) : MdRow :=
  let missed := countZero c.lines
  let covered := c.lines.length - missed
  { covered := covered, total := c.lines.length, rate := mdPercent covered c.lines.length }

def markdown (rs : List FileIn) : MdReport :=
  let rows := rs.map fun r => mdRow r.cov
  let tl := rows.foldl (fun a r => a + r.total) 0
  let tc := rows.foldl (fun a r => a + r.covered) 0
  { rows := rows, totalCovered := tc, totalLines := tl, rate := mdPercent tc tl }

/-! ## ade (output.rs 74-182) -/

structure AdePart where
  covered : Nat
  uncovered : Nat
  /-- `covered as f32 / (covered + uncovered) as f32` -/
  rate : Rate
deriving DecidableEq, Repr

def adePart (c u : Nat) : AdePart := ⟨c, u, ⟨c, c + u⟩⟩

structure AdeFile where
  file : AdePart
  orphan : AdePart
  methods : List (Name × AdePart)
deriving Repr

def inFn (c : Cov) (f : Fn) (x : Nat) : Bool :=
  decide (f.start ≤ x) && decide (x < funcEnd c f.start)

def adeFile (c : Cov) : AdeFile :=
  let covered := (c.lines.filter fun kv => decide (0 < kv.2)).map (·.1)
  let uncovered := (c.lines.filter fun kv => decide (kv.2 = 0)).map (·.1)
  let owned : Nat → Bool := fun x => c.functions.any fun nf => inFn c nf.2 x
  { file := adePart covered.length uncovered.length
    orphan := adePart (covered.filter fun x => !owned x).length
                      (uncovered.filter fun x => !owned x).length
    methods := c.functions.map fun nf =>
      (nf.1, adePart (covered.filter (inFn c nf.2)).length (uncovered.filter (inFn c nf.2)).length) }

/-- `output_activedata_etl`; same `last + 1` as cobertura (output.rs 97) -/
def ade (rs : List FileIn) : Run (List AdeFile) :=
  if rs.any (fun r => decide (U32MAX ≤ maxKey r.cov.lines)) then .panic "output.rs:97 last + 1"
  else .ok (rs.map fun r => adeFile r.cov)

end Grcov.Stats
