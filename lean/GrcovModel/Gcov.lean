/-
Model of the two gcov readers of src/parser.rs.

* `Gcov.Text.parse` — `parse_gcov` (gcov's intermediate text format, gcov ≤ 7): the file is cut into
  lines the way `BufRead::read_until(b'\n')` does, every line loses its trailing CR/LF bytes
  (`remove_newline`), is decoded with `String::from_utf8_lossy` (since /repo 7f9b2b3: every maximal
  ill-formed byte sequence becomes U+FFFD, `Lcov.utf8Lossy`; before, `from_utf8_unchecked`), is cut
  at the first ':' (`splitn(2, ':')`) and dispatched on its key. File and function names are
  therefore the lossy decoding of the bytes in the file (valid UTF-8 is kept byte for byte).
  `u32::from_str` / `u64::from_str` are modelled exactly (`parseUInt`). No `unwrap` is left in
  the function (lines read without any `file:` record are `Err(InvalidRecord)`), so no program point
  of the model yields `Out.panic`; the constructor stays for the driver protocol.
* `Gcov.Json.toResults` — `parse_gcov_gz` after gzip and JSON *text* parsing (flate2 and serde_json
  are trusted, see DESIGN 4): the input is the JSON value tree that serde_json hands to the derived
  `Deserialize` impls of `GcovJson`/`GcovFile`/`GcovLine`/`GcovBr`/`GcovFunction` and to
  `deserialize_counter`. `Json.fromReader none` is "flate2 or serde_json reported an error"; every
  such error, and every schema error, is `Err(InvalidData)` (`map_err(..)?`).
  Since /repo 5a9c87e a line that the `lines` array lists several times (gcov ≥ 9 writes one entry
  per instance of a function group: template instantiations, constructor variants) gets the
  saturating SUM of its counts and the position-wise OR of its branch vectors (the longer vector
  gives the length), and functions with the same demangled name OR their executed flags (the first
  start line is kept); before, the last entry won.
  The gzip layer (trusted): `GzDecoder` reads ONE gzip member and serde_json's `from_reader` stops
  after the JSON value plus trailing white space; what follows the first member in the FILE (a
  second member, arbitrary trailing bytes) is never requested from the decoder and therefore
  silently ignored – `fromReader (some j)` with `j` the value of the first member (tie: harness
  c09, `json.gzip_trailing.*`). Trailing non-blank characters INSIDE the member are an error.

Core Lean only (linked into the native driver `gm_c09`).
-/
import GrcovModel.Merge
import GrcovModel.Lcov
namespace Grcov.Gcov
open Grcov AList

abbrev Bytes := List Nat

inductive Out where
  | ok (rs : List (Bytes × Cov))
  | err (kind : String)
  | panic (site : String)
deriving Repr, DecidableEq

/-! ## Text form -/
namespace Text

def isEol (b : Nat) : Bool := b == 10 || b == 13
def isDigit (b : Nat) : Bool := 48 ≤ b && b ≤ 57

/-- `read_until(b'\n')` repeated until it returns 0 bytes: every chunk keeps its LF; the last chunk
may lack one. -/
def splitLines : Bytes → List Bytes
  | [] => []
  | b :: bs =>
    if b = 10 then [10] :: splitLines bs
    else match splitLines bs with
      | [] => [[b]]
      | l :: ls => (b :: l) :: ls

/-- `remove_newline`: pop while the last byte is LF or CR. -/
def stripEol : Bytes → Bytes
  | [] => []
  | b :: bs =>
    match stripEol bs with
    | [] => if isEol b then [] else [b]
    | r => b :: r

/-- `s.splitn(2, sep)`: the part before the first separator, and the rest if there is one. -/
def splitOnce (sep : Nat) : Bytes → Bytes × Option Bytes
  | [] => ([], none)
  | b :: bs =>
    if b = sep then ([], some bs)
    else match splitOnce sep bs with
      | (h, t) => (b :: h, t)

/-- digit loop of `from_str_radix(_, 10)` for an unsigned type with maximum `bound`:
`checked_mul(10)` then `checked_add(d)`; any non-digit or overflow is an error. -/
def digitsVal (bound : Nat) : Nat → Bytes → Option Nat
  | acc, [] => some acc
  | acc, d :: ds =>
    if isDigit d then
      let v := acc * 10 + (d - 48)
      if v ≤ bound then digitsVal bound v ds else none
    else none

/-- `u32::from_str` / `u64::from_str`: empty ⇒ error; a lone sign ⇒ error; one leading '+' is
accepted; '-' is not (unsigned); then digits only. -/
def parseUInt (bound : Nat) (s : Bytes) : Option Nat :=
  match s with
  | [] => none
  | c :: rest =>
    if c = 43 then (if rest.isEmpty then none else digitsVal bound 0 rest)
    else digitsVal bound 0 s

def kFile : Bytes := [102, 105, 108, 101]
def kFunction : Bytes := [102, 117, 110, 99, 116, 105, 111, 110]
def kLcount : Bytes := [108, 99, 111, 117, 110, 116]
def kBranch : Bytes := [98, 114, 97, 110, 99, 104]
def tTaken : Bytes := [116, 97, 107, 101, 110]
def tZero : Bytes := [48]

structure Acc where
  results : List (Bytes × Cov) := []
  curFile : Option Bytes := none
  cur : Cov := {}
deriving Repr, DecidableEq

inductive St where
  | run (a : Acc)
  | halt (o : Out)
deriving Repr, DecidableEq

def invalidRecord : St := .halt (.err "InvalidRecord")
def parseErr : St := .halt (.err "Parse")

/-- `file:` — the section that ends here is reported iff it has a name and at least one line -/
def onFile (a : Acc) (name : Bytes) : Acc :=
  { results :=
      match a.curFile with
      | some f => if a.cur.lines.isEmpty then a.results else a.results ++ [(f, a.cur)]
      | none => a.results
    curFile := some name
    cur := {} }

def onFunction (a : Acc) (start : Nat) (executed : Bool) (name : Bytes) : Acc :=
  { a with cur := { a.cur with functions := set a.cur.functions name ⟨start, executed⟩ } }

def onLcount (a : Acc) (line count : Nat) : Acc :=
  { a with cur := { a.cur with lines := set a.cur.lines line count } }

def pushBranch (m : List (Nat × List Bool)) (line : Nat) (taken : Bool) : List (Nat × List Bool) :=
  match get? m line with
  | some v => set m line (v ++ [taken])
  | none => set m line [taken]

def onBranch (a : Acc) (line : Nat) (taken : Bool) : Acc :=
  { a with cur := { a.cur with branches := pushBranch a.cur.branches line taken } }

/-- body of the `loop` of `parse_gcov` for one line, after `remove_newline` -/
def procStripped (a : Acc) (l : Bytes) : St :=
  match splitOnce 58 l with
  | (_, none) => invalidRecord                       -- `try_next!(key_value, l)` for the value
  | (key, some value) =>
    if key = kFile then .run (onFile a value)
    else if key = kFunction then
      match splitOnce 44 value with
      | (t1, r1) =>
        match parseUInt U32MAX t1 with
        | none => parseErr
        | some start =>
          match r1 with
          | none => invalidRecord
          | some r1 =>
            match splitOnce 44 r1 with
            | (_, none) => invalidRecord
            | (t2, some name) => .run (onFunction a start (decide (t2 ≠ tZero)) name)
    else if key = kLcount then
      match splitOnce 44 value with
      | (t1, r1) =>
        match parseUInt U32MAX t1 with
        | none => parseErr
        | some line =>
          match r1 with
          | none => invalidRecord
          | some c =>
            if c = tZero ∨ c.head? = some 45 then .run (onLcount a line 0)
            else match parseUInt U64MAX c with
              | none => parseErr
              | some n => .run (onLcount a line n)
    else if key = kBranch then
      match splitOnce 44 value with
      | (t1, r1) =>
        match parseUInt U32MAX t1 with
        | none => parseErr
        | some line =>
          match r1 with
          | none => invalidRecord
          | some tok => .run (onBranch a line (decide (tok = tTaken)))
    else .run a

/-- one line as returned by `read_until`: `remove_newline`, then `String::from_utf8_lossy` -/
def procLine (a : Acc) (raw : Bytes) : St := procStripped a (Lcov.utf8Lossy (stripEol raw))

def stepLine : St → Bytes → St
  | .halt o, _ => .halt o
  | .run a, l => procLine a l

def runLines (s : St) (ls : List Bytes) : St := ls.foldl stepLine s

/-- after the loop: the last section is reported iff it has a line; lines without any `file:`
record are `Err(InvalidRecord("lcount record without a file record"))` -/
def finish : St → Out
  | .halt o => o
  | .run a =>
    if a.cur.lines.isEmpty then .ok a.results
    else match a.curFile with
      | some f => .ok (a.results ++ [(f, a.cur)])
      | none => .err "InvalidRecord"

/-- the loop from state `s` over the bytes still to be read -/
def runBytes (s : St) (bs : Bytes) : St := runLines s (splitLines bs)

def parse (bs : Bytes) : Out := finish (runBytes (.run {}) bs)

end Text

/-! ## JSON form -/

/-- serde_json's three number classes (no `arbitrary_precision`): a non-negative integer literal
that fits u64; a negative integer literal that fits i64 (`neg n` is the value −n, n ≥ 1); anything
else is an f64, here as its exact value ±m·2^e. -/
inductive JNum where
  | pos (n : Nat)
  | neg (n : Nat)
  | flt (negative : Bool) (m : Nat) (e : Int)

inductive Json where
  | null
  | bool (b : Bool)
  | num (n : JNum)
  | str (s : Bytes)
  | arr (xs : List Json)
  | obj (kvs : List (Bytes × Json))

namespace Json

/-- `f64 → u64` of `deserialize_counter` (since /repo 5cfb47a): accepted iff `0.0 <= v < 2^64`
(`value < u64::MAX as f64`, and `u64::MAX as f64` is 2^64; −0.0 included), then `as u64`: truncation
toward zero – the saturating part of the cast can no longer fire. -/
def floatCounter (negative : Bool) (m : Nat) (e : Int) : Option Nat :=
  if m = 0 then some 0
  else if negative then none
  else match e with
    | .ofNat k => if m * 2 ^ k ≤ U64MAX then some (m * 2 ^ k) else none
    | .negSucc k => if m < (U64MAX + 1) * 2 ^ (k + 1) then some (m / 2 ^ (k + 1)) else none

/-- `deserialize_counter` -/
def asCounter : Json → Option Nat
  | .num (.pos n) => if n ≤ U64MAX then some n else none
  | .num (.flt s m e) => floatCounter s m e
  | _ => none

def asU32 : Json → Option Nat
  | .num (.pos n) => if n ≤ U32MAX then some n else none
  | _ => none

def asStr : Json → Option Bytes
  | .str s => some s
  | _ => none

def asBool : Json → Option Bool
  | .bool b => some b
  | _ => none

/-- `Option<String>` -/
def asOptStr : Json → Option (Option Bytes)
  | .null => some none
  | .str s => some (some s)
  | _ => none

def mapOpt (f : α → Option β) : List α → Option (List β)
  | [] => some []
  | x :: xs =>
    match f x, mapOpt f xs with
    | some y, some ys => some (y :: ys)
    | _, _ => none

/-- `Vec<T>` -/
def asVec (f : Json → Option β) : Json → Option (List β)
  | .arr xs => mapOpt f xs
  | _ => none

def entries (kvs : List (Bytes × Json)) (k : Bytes) : List (Bytes × Json) :=
  kvs.filter fun kv => kv.1 == k

/-- a required field of a derived struct read from a JSON object: exactly one occurrence
(none ⇒ `missing field`, two ⇒ `duplicate field`) -/
def req (kvs : List (Bytes × Json)) (k : Bytes) (dec : Json → Option β) : Option β :=
  match entries kvs k with
  | [kv] => dec kv.2
  | _ => none

/-- an `Option<_>` field: absent ⇒ `None` -/
def opt (kvs : List (Bytes × Json)) (k : Bytes) (dec : Json → Option (Option β)) : Option (Option β) :=
  match entries kvs k with
  | [] => some none
  | [kv] => dec kv.2
  | _ => none

def kCount : Bytes := [99, 111, 117, 110, 116]
def kThrow : Bytes := [116, 104, 114, 111, 119]
def kFallthrough : Bytes := [102, 97, 108, 108, 116, 104, 114, 111, 117, 103, 104]
def kLineNumber : Bytes := [108, 105, 110, 101, 95, 110, 117, 109, 98, 101, 114]
def kFunctionName : Bytes := [102, 117, 110, 99, 116, 105, 111, 110, 95, 110, 97, 109, 101]
def kUnexecutedBlock : Bytes :=
  [117, 110, 101, 120, 101, 99, 117, 116, 101, 100, 95, 98, 108, 111, 99, 107]
def kBranches : Bytes := [98, 114, 97, 110, 99, 104, 101, 115]
def kName : Bytes := [110, 97, 109, 101]
def kDemangledName : Bytes := [100, 101, 109, 97, 110, 103, 108, 101, 100, 95, 110, 97, 109, 101]
def kStartLine : Bytes := [115, 116, 97, 114, 116, 95, 108, 105, 110, 101]
def kStartColumn : Bytes := [115, 116, 97, 114, 116, 95, 99, 111, 108, 117, 109, 110]
def kEndLine : Bytes := [101, 110, 100, 95, 108, 105, 110, 101]
def kEndColumn : Bytes := [101, 110, 100, 95, 99, 111, 108, 117, 109, 110]
def kBlocks : Bytes := [98, 108, 111, 99, 107, 115]
def kBlocksExecuted : Bytes :=
  [98, 108, 111, 99, 107, 115, 95, 101, 120, 101, 99, 117, 116, 101, 100]
def kExecutionCount : Bytes :=
  [101, 120, 101, 99, 117, 116, 105, 111, 110, 95, 99, 111, 117, 110, 116]
def kFile : Bytes := [102, 105, 108, 101]
def kFunctions : Bytes := [102, 117, 110, 99, 116, 105, 111, 110, 115]
def kLines : Bytes := [108, 105, 110, 101, 115]
def kFormatVersion : Bytes := [102, 111, 114, 109, 97, 116, 95, 118, 101, 114, 115, 105, 111, 110]
def kGccVersion : Bytes := [103, 99, 99, 95, 118, 101, 114, 115, 105, 111, 110]
def kCwd : Bytes :=
  [99, 117, 114, 114, 101, 110, 116, 95, 119, 111, 114, 107, 105, 110, 103, 95, 100, 105, 114, 101,
   99, 116, 111, 114, 121]
def kDataFile : Bytes := [100, 97, 116, 97, 95, 102, 105, 108, 101]
def kFiles : Bytes := [102, 105, 108, 101, 115]

/-- what the rest of `parse_gcov_gz` reads of each struct -/
structure LineJ where
  lineNumber : Nat
  count : Nat
  branches : List Nat
deriving Repr, DecidableEq

structure FnJ where
  demangled : Bytes
  startLine : Nat
  exec : Nat
deriving Repr, DecidableEq

structure FileJ where
  file : Bytes
  functions : List FnJ
  lines : List LineJ
deriving Repr, DecidableEq

/-- `GcovBr` (derived `Deserialize`: a JSON object, or a JSON array of exactly the fields in
declaration order) -/
def decBr : Json → Option Nat
  | .obj kvs =>
    match req kvs kCount asCounter, req kvs kThrow asBool, req kvs kFallthrough asBool with
    | some c, some _, some _ => some c
    | _, _, _ => none
  | .arr [c, t, f] =>
    match asCounter c, asBool t, asBool f with
    | some c, some _, some _ => some c
    | _, _, _ => none
  | _ => none

/-- `GcovLine` -/
def decLine : Json → Option LineJ
  | .obj kvs =>
    match req kvs kLineNumber asU32, opt kvs kFunctionName asOptStr, req kvs kCount asCounter,
          req kvs kUnexecutedBlock asBool, req kvs kBranches (asVec decBr) with
    | some l, some _, some c, some _, some bs => some ⟨l, c, bs⟩
    | _, _, _, _, _ => none
  | .arr [l, fnn, c, u, bs] =>
    match asU32 l, asOptStr fnn, asCounter c, asBool u, asVec decBr bs with
    | some l, some _, some c, some _, some bs => some ⟨l, c, bs⟩
    | _, _, _, _, _ => none
  | _ => none

/-- `GcovFunction` -/
def decFn : Json → Option FnJ
  | .obj kvs =>
    match req kvs kName asStr, req kvs kDemangledName asStr, req kvs kStartLine asU32,
          req kvs kStartColumn asU32, req kvs kEndLine asU32, req kvs kEndColumn asU32,
          req kvs kBlocks asU32, req kvs kBlocksExecuted asU32, req kvs kExecutionCount asCounter with
    | some _, some d, some s, some _, some _, some _, some _, some _, some x => some ⟨d, s, x⟩
    | _, _, _, _, _, _, _, _, _ => none
  | .arr [n, d, s, sc, el, ec, bl, be, x] =>
    match asStr n, asStr d, asU32 s, asU32 sc, asU32 el, asU32 ec, asU32 bl, asU32 be, asCounter x with
    | some _, some d, some s, some _, some _, some _, some _, some _, some x => some ⟨d, s, x⟩
    | _, _, _, _, _, _, _, _, _ => none
  | _ => none

/-- `GcovFile` -/
def decFile : Json → Option FileJ
  | .obj kvs =>
    match req kvs kFile asStr, req kvs kFunctions (asVec decFn), req kvs kLines (asVec decLine) with
    | some f, some fns, some ls => some ⟨f, fns, ls⟩
    | _, _, _ => none
  | .arr [f, fns, ls] =>
    match asStr f, asVec decFn fns, asVec decLine ls with
    | some f, some fns, some ls => some ⟨f, fns, ls⟩
    | _, _, _ => none
  | _ => none

/-- `GcovJson`: only `files` is used afterwards (`format_version` is compared with "1" for a log
message) -/
def decDoc : Json → Option (List FileJ)
  | .obj kvs =>
    match req kvs kFormatVersion asStr, req kvs kGccVersion asStr, opt kvs kCwd asOptStr,
          req kvs kDataFile asStr, req kvs kFiles (asVec decFile) with
    | some _, some _, some _, some _, some fs => some fs
    | _, _, _, _, _ => none
  | .arr [fv, gv, cwd, df, fs] =>
    match asStr fv, asStr gv, asOptStr cwd, asStr df, asVec decFile fs with
    | some _, some _, some _, some _, some fs => some fs
    | _, _, _, _, _ => none
  | _ => none

/-- `let count = lines.entry(line_number).or_insert(0); *count = count.saturating_add(line.count)` -/
def addCount (m : List (Nat × Nat)) (l c : Nat) : List (Nat × Nat) :=
  set m l (satAdd ((get? m l).getD 0) c)

/-- the first loop of a file, line counts: every entry adds its count to the line's (saturating) -/
def fileLines (ls : List LineJ) : List (Nat × Nat) :=
  ls.foldl (fun m ln => addCount m ln.lineNumber ln.count) []

/-- `let all = branches.entry(line_number).or_default(); for (i, t) in taken.enumerate() { if i <
all.len() { all[i] |= t } else { all.push(t) } }`: position-wise OR, the tail of the longer vector
is kept – `Grcov.zipOr` -/
def orBranches (m : List (Nat × List Bool)) (l : Nat) (taken : List Bool) : List (Nat × List Bool) :=
  set m l (zipOr ((get? m l).getD []) taken)

/-- the same loop, branches: only entries that have branches touch the map -/
def fileBranches (ls : List LineJ) : List (Nat × List Bool) :=
  ls.foldl (fun m ln =>
    if ln.branches.isEmpty then m
    else orBranches m ln.lineNumber (ln.branches.map fun c => decide (c > 0))) []

/-- `functions.entry(demangled_name).and_modify(|f| f.executed |= executed).or_insert(Function {
start, executed })` -/
def addFunction (m : List (Name × Fn)) (f : FnJ) : List (Name × Fn) :=
  match get? m f.demangled with
  | some g => set m f.demangled { g with executed := g.executed || decide (f.exec > 0) }
  | none => set m f.demangled ⟨f.startLine, decide (f.exec > 0)⟩

def fileFunctions (fs : List FnJ) : List (Name × Fn) := fs.foldl addFunction []

/-- one iteration of `for mut file in gcov.files.drain(..)`; `none` = `continue` -/
def convFile (f : FileJ) : Option (Bytes × Cov) :=
  let lines := fileLines f.lines
  if lines.isEmpty then none
  else some (f.file, { lines := lines, branches := fileBranches f.lines,
                       functions := fileFunctions f.functions })

/-- `parse_gcov_gz` from the value tree: `serde_json::from_reader(gz).map_err(InvalidData)?` then
the loop -/
def toResults (j : Json) : Out :=
  match decDoc j with
  | none => .err "InvalidData"
  | some files => .ok (files.filterMap convFile)

/-- the same with the trusted layer in front: `none` = flate2 or serde_json's text parser failed -/
def fromReader : Option Json → Out
  | none => .err "InvalidData"
  | some j => toResults j

end Json
end Grcov.Gcov
