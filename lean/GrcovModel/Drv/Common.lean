/-
Line-protocol helpers for the native driver: hex <-> bytes, decimal, list codecs, sorting.
Core Lean only.
-/
import GrcovModel.Base
namespace Grcov.Drv

def hexDigit (n : Nat) : Char :=
  if n < 10 then Char.ofNat (48 + n) else Char.ofNat (87 + n)

def hexVal (c : Char) : Option Nat :=
  let n := c.toNat
  if 48 ≤ n ∧ n ≤ 57 then some (n - 48)
  else if 97 ≤ n ∧ n ≤ 102 then some (n - 87)
  else if 65 ≤ n ∧ n ≤ 70 then some (n - 55)
  else none

def toHex (bs : List Nat) : String :=
  String.ofList (bs.flatMap fun b => [hexDigit (b / 16 % 16), hexDigit (b % 16)])

def fromHexChars : List Char → Option (List Nat)
  | [] => some []
  | [_] => none
  | a :: b :: rest => do
    let x ← hexVal a
    let y ← hexVal b
    let r ← fromHexChars rest
    pure ((x * 16 + y) :: r)

def fromHex (s : String) : Option (List Nat) := fromHexChars s.toList

/-- split on a separator; the empty string gives the empty list -/
def splitList (s : String) (sep : String) : List String :=
  if s.isEmpty then [] else s.splitOn sep

def lexLt : List Nat → List Nat → Bool
  | [], [] => false
  | [], _ :: _ => true
  | _ :: _, [] => false
  | a :: as, b :: bs => if a < b then true else if b < a then false else lexLt as bs

def sortNatKeys (m : List (Nat × α)) : List (Nat × α) :=
  m.mergeSort fun a b => a.1 ≤ b.1

def sortBytesKeys (m : List (List Nat × α)) : List (List Nat × α) :=
  m.mergeSort fun a b => !(lexLt b.1 a.1)

def bits (v : List Bool) : String := String.ofList (v.map fun b => if b then '1' else '0')

def parseBits (s : String) : Option (List Bool) :=
  s.toList.mapM fun c => if c = '1' then some true else if c = '0' then some false else none

def joinWith (sep : String) (xs : List String) : String := sep.intercalate xs

end Grcov.Drv
