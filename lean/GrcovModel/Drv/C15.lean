/-
Line-protocol driver for the gcno/gcda model (properties C15 and C08).

  compute <branch 0|1> <version> <checksum> <recs|-> <gcda>*   -> ok K<hexfile>=<cov> … | err <kind> | panic | diverge
  state   <version> <checksum> <recs|-> <gcda>*                -> ok <fn>;<fn>… (what `{:?}` of the Gcno shows after `stop`:
                                                                  per block its counter, source and destination arcs with counters, lines)
  computeb <branch 0|1> <hex gcno> <hex gcda>* ('-' = empty)                -> the same answer as `compute`, from the file bytes (Gcno/Bin.lean)
  tree    <version> <checksum> <recs|->                         -> ok <0|1 per function> (spanning-tree certificate found)

  <recs>  = records joined by ';':  F<ident>,<lsum>,<csum>,<start>,<end>,<hexname>,<hexfile>
                                     B<n>     A<src>,<dst>:<flags>,…     L<blk>,<line>|f<hexfile>,…    S (buffer ends here)   X (more blocks announced than bytes left)
  <gcda>  = D<version>:<checksum>(;f<len>,<ident>,<lsum>,<csum> | ;a<len>,<v>,… | ;o | ;s (buffer ends) | ;r (record shorter than its content))*
-/
import GrcovModel.Gcno
import GrcovModel.Gcno.Tree
import GrcovModel.Gcno.Bin
import GrcovModel.Drv.Merge
namespace Grcov.Drv
open Grcov Grcov.Gcno

def gcnoNat (s : String) : Option Nat := s.toNat?

def gcnoParseRec (s : String) : Option NRec :=
  match s.toList with
  | 'F' :: rest =>
    match (String.ofList rest).splitOn "," with
    | [id, ls, cs, st, en, nm, fl] => do
      pure (.func (← gcnoNat id) (← gcnoNat ls) (← gcnoNat cs) (← fromHex nm) (← fromHex fl)
              (← gcnoNat st) (← gcnoNat en))
    | _ => none
  | 'B' :: rest => do pure (.blocks (← gcnoNat (String.ofList rest)))
  | 'A' :: rest =>
    match (String.ofList rest).splitOn "," with
    | src :: as => do
      let as ← as.mapM fun a => match a.splitOn ":" with
        | [d, f] => do pure ((← gcnoNat d), (← gcnoNat f))
        | _ => none
      pure (.arcs (← gcnoNat src) as)
    | _ => none
  | ['S'] => some .short
  | ['X'] => some (.fail .blockCount)
  | 'L' :: rest =>
    match (String.ofList rest).splitOn "," with
    | blk :: items => do
      let items ← items.mapM fun it => match it.toList with
        | 'f' :: h => do pure (LineItem.file (← fromHexChars h))
        | _ => do pure (LineItem.line (← gcnoNat it))
      pure (.lines (← gcnoNat blk) items)
    | _ => none
  | _ => none

def gcnoParseRecs (s : String) : Option (List NRec) :=
  if s = "-" then some [] else (s.splitOn ";").mapM gcnoParseRec

def gcnoParseDRec (s : String) : Option DRec :=
  match s.toList with
  | 'f' :: rest =>
    match (String.ofList rest).splitOn "," with
    | [len, id, ls, cs] => do
      pure (.func (← gcnoNat len) (← gcnoNat id) (← gcnoNat ls) (← gcnoNat cs))
    | _ => none
  | 'a' :: rest =>
    match (String.ofList rest).splitOn "," with
    | len :: vs => do pure (.arcs (← gcnoNat len) (← vs.mapM gcnoNat))
    | _ => none
  | ['o'] => some .other
  | ['s'] => some (.fail .short)
  | ['r'] => some (.fail .recordLen)
  | _ => none

def gcnoParseGcda (s : String) : Option Gcda :=
  match s.splitOn ";" with
  | hd :: recs =>
    match hd.toList with
    | 'D' :: rest =>
      match (String.ofList rest).splitOn ":" with
      | [v, c] => do pure ⟨← gcnoNat v, ← gcnoNat c, ← recs.mapM gcnoParseDRec⟩
      | _ => none
    | _ => none
  | _ => none

def gcnoShowErr : ErrKind → String
  | .fileType => "fileType" | .version => "version" | .versionMismatch => "versionMismatch"
  | .checksumMismatch => "checksumMismatch" | .headerLen => "headerLen" | .fnIdent => "fnIdent"
  | .fnChecksum => "fnChecksum" | .edgeCount => "edgeCount" | .short => "short"
  | .blockNo => "blockNo" | .recordLen => "recordLen"
  | .blockCount => "blockCount"

def gcnoShowOutcome {α : Type} (sh : α → String) : Outcome α → String
  | .ok a => let t := sh a; if t.isEmpty then "ok" else "ok " ++ t
  | .err k => "err " ++ gcnoShowErr k
  | .crash _ => "panic"
  | .diverge => "diverge"

def gcnoShowResults (rs : List (List Nat × Cov)) : String :=
  joinWith " " ((sortBytesKeys rs).map fun (k, c) => s!"K{toHex k}={showCov c}")

/-- per function (joined by ';'), per block (joined by '|'):
`<counter>:S<src>=<cnt>,…:D[*]<dst>=<cnt>,…:L<line>,…` in the order of the block's lists -/
def gcnoShowState (fs : List (Func × Cnt)) : String :=
  joinWith ";" (fs.map fun (f, c) =>
    joinWith "|" ((indexed f.blocks 0).map fun (b, blk) =>
      toString (c.blk b) ++
      ":S" ++ joinWith "," (blk.source.map fun e =>
        s!"{(f.arcs.getD e default).src}={c.arc e}") ++
      ":D" ++ joinWith "," (blk.destination.map fun e =>
        let a := f.arcs.getD e default
        s!"{if a.onTree then "*" else ""}{a.dst}={c.arc e}") ++
      ":L" ++ joinWith "," (blk.lines.map toString)))

def handleGcno : List String → String
  | "compute" :: br :: v :: c :: recs :: ds =>
    match gcnoNat v, gcnoNat c, gcnoParseRecs recs, ds.mapM gcnoParseGcda with
    | some v, some c, some recs, some ds =>
      gcnoShowOutcome gcnoShowResults (computeRecs v c recs ds (br == "1"))
    | _, _, _, _ => "bad-op"
  | "state" :: v :: c :: recs :: ds =>
    match gcnoNat v, gcnoNat c, gcnoParseRecs recs, ds.mapM gcnoParseGcda with
    | some v, some c, some recs, some ds =>
      gcnoShowOutcome gcnoShowState
        ((build v c recs).bind fun g => (addGcdas g State.zero ds).bind fun st => stop g st)
    | _, _, _, _ => "bad-op"
  | "computeb" :: br :: gcno :: ds =>
    let unhex := fun (t : String) => if t = "-" then some [] else fromHex t
    match unhex gcno, ds.mapM unhex with
    | some gcno, some ds => gcnoShowOutcome gcnoShowResults (computeBytes gcno ds (br == "1"))
    | _, _ => "bad-op"
  | ["tree", v, c, recs] =>
    match gcnoNat v, gcnoNat c, gcnoParseRecs recs with
    | some v, some c, some recs =>
      gcnoShowOutcome
        (fun (g : Notes) => String.ofList (g.funcs.map fun f =>
          if isSpanTree (addVirtualArc g.version f) then '1' else '0'))
        (build v c recs)
    | _, _, _ => "bad-op"
  | _ => "bad-op"

def stepGcno (line : String) : String :=
  handleGcno ((line.trimAscii.toString.splitOn " ").filter (· ≠ ""))

end Grcov.Drv
