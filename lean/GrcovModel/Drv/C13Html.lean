/-
Driver ops `c13.html.*` (served by gm_c13), part Html of C13:

  c13.html.printed2 <figure> <p> <num> <den> <hex>   figure ∈ covdir | html | json | markdown
        → `<printedOK2> <printedExact> <atTie> <nearTie> <roundedTo under the figure's mode>`
  c13.html.rows <source hex> <cov>
        → `<header total>,<header covered> <rows with a count>,<rows with a count > 0> <rows>`
          (header = `htmlStats`, rows = `Writers.Docs.htmlRows` of the source bytes)
-/
import GrcovModel.Stats.Rounded
import GrcovModel.Writers.Docs
import GrcovModel.Drv.Merge
namespace Grcov.Drv.C13Html
open Grcov Grcov.Drv Grcov.Stats Grcov.Writers.Docs

def bit (b : Bool) : String := if b then "1" else "0"

/-- the tolerance entry (`Stats.tolOf`) a figure uses: coverage.json is an html figure -/
def tolName (figure : String) : String := if figure = "json" then "html" else figure

def handlePrinted2 : List String → String
  | [fig, p, n, d, s] =>
    match p.toNat?, n.toNat?, d.toNat?, fromHex s with
    | some p, some n, some d, some s =>
      match tolOf (tolName fig) p, fmtOf fig with
      | some t, some f =>
        let r : Rate := ⟨n, d⟩
        s!"{bit (printedOK2 t f p r s)} {bit (printedExact f p r s)} {bit (atTie p r)} {bit (nearTie t p r)} {roundedTo f.mode p r}"
      | _, _ => "bad-op"
    | _, _, _, _ => "bad-op"
  | _ => "bad-op"

def handleRows : List String → String
  | [src, cov] =>
    match fromHex (src.drop 1).toString, parseCov cov with
    | some src, some c =>
      let rows := htmlRows src c.lines
      let st := htmlStats c
      s!"{st.totalLines},{st.coveredLines} {rows.countP fun r => decide (0 ≤ r.count)},{rows.countP fun r => decide (0 < r.count)} {rows.length}"
    | _, _ => "bad-op"
  | _ => "bad-op"

end Grcov.Drv.C13Html
