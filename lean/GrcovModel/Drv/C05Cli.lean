/-
Driver op for `Cli.run`: `cli.run B<0|1> S P M I K E F W D X | i<hex> i<hex> …` (configuration
and file system encoded as for gm_c11's `rewrite`, see Drv/C11.lean) → `ok <hex of the report>`
or `panic`.
-/
import GrcovModel.Cli
import GrcovModel.Drv.C11
namespace Grcov.Drv
open Grcov Grcov.Rewrite Grcov.Drv.C11

def parseCliCfg : List String → Option (Bool × Cfg × FS × List Lcov.Bytes)
  | b :: s :: p :: m :: i :: k :: e :: f :: w :: d :: x :: "|" :: inputs => do
    let branch ← if b = "B1" then some true else if b = "B0" then some false else none
    let sourceDir ← optArg s
    let prefixDir ← optArg p
    let mapping ← mappingArg m
    let ignore ← (← argList i).mapM Glob.parse
    let keep ← (← argList k).mapM Glob.parse
    let ignoreNotExisting ← if e = "E1" then some true else if e = "E0" then some false else none
    let filter ← if f = "Fn" then some none else if f = "Ft" then some (some true)
                 else if f = "Ff" then some (some false) else none
    let cwd ← arg w
    let dirs ← argList d
    let files ← argList x
    let ins ← inputs.mapM arg
    pure (branch, { sourceDir, prefixDir, mapping, ignore, keep, ignoreNotExisting, filter },
          { files := files.map canonComps, dirs := dirs.map canonComps, cwd := canonComps cwd }, ins)
  | _ => none

def handleCliRun (args : List String) : String :=
  match parseCliCfg args with
  | some (branch, cfg, fs, ins) =>
    match Cli.run cfg branch fs ins with
    | .ok bytes => "ok " ++ toHex bytes
    | .panic _ => "panic"
  | none => "bad-op"

end Grcov.Drv
