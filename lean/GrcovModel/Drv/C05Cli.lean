/-
Driver op for `Cli.run`: `cli.run B<0|1> S P M I K E F W D X | i<hex> i<hex> …` (configuration
and file system encoded as for gm_c11's `rewrite`, see Drv/C11.lean) → `ok <hex of the report>`
or `panic`.
-/
import GrcovModel.Cli
import GrcovModel.Drv.C11
namespace Grcov.Drv
open Grcov Grcov.Rewrite Grcov.Drv.C11

def parseCliCfg : List String → Option (Bool × Cfg × FS × List Lcov.Bytes)
  | b :: s :: p :: m :: i :: k :: e :: f :: w :: d :: x :: "|" :: inputs => do
    let branch ← if b = "B1" then some true else if b = "B0" then some false else none
    let sourceDir ← optArg s
    let prefixDir ← optArg p
    let mapping ← mappingArg m
    let ignore ← (← argList i).mapM Glob.parse
    let keep ← (← argList k).mapM Glob.parse
    let ignoreNotExisting ← if e = "E1" then some true else if e = "E0" then some false else none
    let filter ← if f = "Fn" then some none else if f = "Ft" then some (some true)
                 else if f = "Ff" then some (some false) else none
    let cwd ← arg w
    let dirs ← argList d
    let files ← argList x
    let ins ← inputs.mapM arg
    pure (branch, { sourceDir, prefixDir, mapping, ignore, keep, ignoreNotExisting, filter },
          { files := files.map canonComps, dirs := dirs.map canonComps, cwd := canonComps cwd }, ins)
  | _ => none

/-- `cli.runj O<p…>,<p…> B S P M I K E F W D X | i<hex> …` → the report of `Cli.runJ` (`O`: the
canonical absolute paths of the entries below the source dir in walk order, as for
`c11.partial.rewrite`) -/
def handleCliRunJ : List String → String
  | o :: rest =>
    match argList o, parseCliCfg rest with
    | some ord, some (branch, cfg, fs, ins) =>
      match Cli.runJ cfg branch fs (ord.map canonComps) ins with
      | .ok bytes => "ok " ++ toHex bytes
      | .panic _ => "panic"
    | _, _ => "bad-op"
  | [] => "bad-op"

def handleCliRun (args : List String) : String :=
  match parseCliCfg args with
  | some (branch, cfg, fs, ins) =>
    match Cli.run cfg branch fs ins with
    | .ok bytes => "ok " ++ toHex bytes
    | .panic _ => "panic"
  | none => "bad-op"

/-- `c05.output_lcov K<hexpath>=<cov> …` → hex of the bytes `output_lcov` writes
(`Cli.outputLcov`: the maps of a record may come in any order, the model sorts them) -/
def handleOutputLcov (entries : List String) : String :=
  let es : Option (List (List Nat × Cov)) := entries.mapM fun e =>
    match (e.drop 1).toString.splitOn "=" with
    | [k, cov] => do pure ((← fromHex k), (← parseCov cov))
    | _ => none
  match es with
  | some es => toHex (Cli.outputLcov es)
  | none => "bad-op"

/-- `c05.output_lcov_dm T<hexmangled>=<hexdemangled>,… | K<hexpath>=<cov> …`: demangling on, the
demangler given as a finite table (identity elsewhere) -/
def handleOutputLcovDm (args : List String) : String :=
  match args with
  | t :: "|" :: entries =>
    let tab : Option (List (List Nat × List Nat)) :=
      if t.length ≤ 1 then some [] else
      (((t.drop 1).toString.splitOn ",").mapM fun e =>
        match e.splitOn "=" with
        | [a, b] => do pure ((← fromHex a), (← fromHex b))
        | _ => none)
    let es : Option (List (List Nat × Cov)) := entries.mapM fun e =>
      match (e.drop 1).toString.splitOn "=" with
      | [k, cov] => do pure ((← fromHex k), (← parseCov cov))
      | _ => none
    match tab, es with
    | some tab, some es => toHex (Cli.outputLcovDm (fun n => (AList.get? tab n).getD n) es)
    | _, _ => "bad-op"
  | _ => "bad-op"

end Grcov.Drv
