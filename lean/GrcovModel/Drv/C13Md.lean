/-
Ops of the C13 part MdBytes in the driver `gm_c13` (byte strings in hex behind a letter, so that an
empty string is still a token):

  c13.md.markdown <p> R<rel hex>=<cov> …        → ok h<bytes of the markdown report>
  c13.md.parse h<report bytes>                  → ok <rows> T<total figure hex> | none
        row = M<file hex>;<pct hex>;<covered>/<total>;<a>-<b>,…
  c13.md.badge <style> <covered> <total> <hi mant> <hi scale> <med mant> <med scale>
                                                → ok h<bytes of badges/<style>.svg>
  c13.md.badgeparse <style> h<svg bytes>        → ok <current> <colour hex | -> <width hex> | none
  c13.md.json <p> <covered> <total> <hi mant> <hi scale> <med mant> <med scale>
                                                → ok h<bytes of coverage.json>
  c13.md.jsonparse h<bytes>                     → ok <figure hex> <colour name hex> | none
  c13.md.html <p> <hi mant> <hi scale> <med mant> <med scale> <file> …   (files as in Drv/C13.lean)
                                                → ok <covered> <total> h<flat> h<flat_square>
                                                     h<for_the_badge> h<plastic> h<social> h<json>
  c13.md.fig <32|64> <p> <covered> <total>      → ok <figure hex>      (`{:.p$}` of the percentage)
  c13.md.files R<rel hex>=<cov> …               → ok h<bytes of the files report>
-/
import GrcovModel.Writers.MdBytes
import GrcovModel.Drv.C13
namespace Grcov.Drv.C13Md
open Grcov Grcov.Drv Grcov.Writers.Docs Grcov.Writers.MdBytes

def parseRes (s : String) : Option Res :=
  if s.startsWith "R" then
    match (s.drop 1).toString.splitOn "=" with
    | [rel, cov] => do
      let rel ← fromHex rel
      let cov ← parseCov cov
      pure ⟨[], rel, cov⟩
    | _ => none
  else none

def parseH (s : String) : Option (List Nat) :=
  if s.startsWith "h" then fromHex (s.drop 1).toString else none

def parseStyle : String → Option BadgeStyle
  | "flat" => some .flat
  | "flat_square" => some .flatSquare
  | "for_the_badge" => some .forTheBadge
  | "plastic" => some .plastic
  | "social" => some .social
  | _ => none

def parseLimits : List String → Option (Limit × Limit)
  | [a, b, c, d] =>
    match a.toNat?, b.toNat?, c.toNat?, d.toNat? with
    | some a, some b, some c, some d => some (⟨a, b⟩, ⟨c, d⟩)
    | _, _, _, _ => none
  | _ => none

def handleMarkdown : List String → String
  | p :: rs =>
    match p.toNat?, rs.mapM parseRes with
    | some p, some rs => "ok h" ++ toHex (markdownBytes p rs)
    | _, _ => "bad-op"
  | _ => "bad-op"

def showRanges (rs : List (Nat × Nat)) : String := joinWith "," (rs.map fun r => s!"{r.1}-{r.2}")

def handleParse : List String → String
  | [h] =>
    match parseH h with
    | some bs =>
      match parseMarkdown bs with
      | some d =>
        joinWith " " ("ok" :: (d.rows.map fun r =>
          s!"M{toHex r.file};{toHex r.pct};{r.covered}/{r.total};{showRanges r.ranges}") ++ [s!"T{toHex d.totalPct}"])
      | none => "none"
    | none => "bad-op"
  | _ => "bad-op"

def handleBadge : List String → String
  | st :: c :: t :: lim =>
    match parseStyle st, c.toNat?, t.toNat?, parseLimits lim with
    | some st, some c, some t, some (hi, med) => "ok h" ++ toHex (badgeBytes st c t hi med)
    | _, _, _, _ => "bad-op"
  | _ => "bad-op"

def handleBadgeParse : List String → String
  | [st, h] =>
    match parseStyle st, parseH h with
    | some st, some bs =>
      match parseBadge st bs with
      | some i => s!"ok {i.current} {match i.colour with | some c => toHex c | none => "-"} {toHex i.width}"
      | none => "none"
    | _, _ => "bad-op"
  | _ => "bad-op"

def handleJson : List String → String
  | p :: c :: t :: lim =>
    match p.toNat?, c.toNat?, t.toNat?, parseLimits lim with
    | some p, some c, some t, some (hi, med) => "ok h" ++ toHex (coverageJsonBytes p c t hi med)
    | _, _, _, _ => "bad-op"
  | _ => "bad-op"

def handleJsonParse : List String → String
  | [h] =>
    match parseH h with
    | some bs =>
      match parseCoverageJson bs with
      | some (f, c) => s!"ok {toHex f} {toHex c}"
      | none => "none"
    | none => "bad-op"
  | _ => "bad-op"

def handleHtml : List String → String
  | p :: a :: b :: c :: d :: files =>
    match p.toNat?, parseLimits [a, b, c, d], files.mapM Grcov.Drv.C13.parseFile with
    | some p, some (hi, med), some rs =>
      let g := (Stats.htmlGlobal rs).stats
      joinWith " " (["ok", toString g.coveredLines, toString g.totalLines] ++
        (BadgeStyle.all.map fun s => "h" ++ toHex (htmlBadge s rs hi med)) ++
        ["h" ++ toHex (htmlCoverageJson p rs hi med)])
    | _, _, _ => "bad-op"
  | _ => "bad-op"

def handleFig : List String → String
  | [k, p, c, t] =>
    match p.toNat?, c.toNat?, t.toNat? with
    | some p, some c, some t =>
      if k = "32" then "ok " ++ toHex (fmtFixed p (mdPct32 c t))
      else if k = "64" then "ok " ++ toHex (fmtFixed p (htmlPct64 c t))
      else "bad-op"
    | _, _, _ => "bad-op"
  | _ => "bad-op"

def handleFiles (rs : List String) : String :=
  match rs.mapM parseRes with
  | some rs => "ok h" ++ toHex (filesBytes rs)
  | none => "bad-op"

end Grcov.Drv.C13Md
