/-
Driver op `c11.filter.rewrite` (served by gm_c11): `rewrite_paths` WITH a `FileFilter`
(`Cli.RunAll.rewritePathsF`, the closure in the order of the code: globs, existence, exclusion
markers, covered filter).

  c11.filter.rewrite Q<excl> T<abs hex>=<text hex>,… S P M I K E F W D X Y | entries

`S … Y | entries` as for `rewrite` (Drv/C11.lean). `Q` = the six `--excl-*` regex texts in the order
of `FileFilter::new`, comma separated, `-` for an absent option, else hex; the driver's
`Regex::is_match` is "the text occurs in the line" (the harness passes literal markers only).
`T` = the files `read_to_string` succeeds on, with their text (`T-` = none); for every other
absolute path it fails and the file has no filter list.
-/
import GrcovModel.Cli.RunAll
import GrcovModel.Drv.C11
namespace Grcov.Drv.C11Filter
open Grcov Grcov.Drv Grcov.Drv.C11 Grcov.Rewrite Grcov.Cli.RunAll

def parseExcl (s : String) : Option MainGlue.FileFilterArgs :=
  let one (t : String) : Option (Option (List Nat)) :=
    if t = "-" then some none else (fromHex t).map some
  match (s.drop 1).toString.splitOn "," with
  | [a, b, c, d, e, f] => do
    pure ⟨← one a, ← one b, ← one c, ← one d, ← one e, ← one f⟩
  | _ => none

def parseTexts (s : String) : Option (List (List Nat × List Nat)) :=
  let t := (s.drop 1).toString
  if t = "-" || t = "" then some []
  else (splitList t ",").mapM fun (e : String) =>
    match e.splitOn "=" with
    | [a, b] => do pure ((← fromHex a), (← fromHex b))
    | _ => none

def handleRewrite : List String → String
  | q :: t :: rest =>
    match parseExcl q, parseTexts t, parseCfg rest with
    | some excl, some texts, some (cfg, fs, es) =>
      let flt : List Nat → List FileFilter.FT := fun abs =>
        FileFilter.createSrc excl.toOpts (rxOf (fun rx line => FileFilter.hasSub rx line) excl)
          (AList.get? texts abs)
      showRes (rewritePathsF cfg fs flt es)
    | _, _, _ => "bad-op"
  | _ => "bad-op"

end Grcov.Drv.C11Filter
