/-
Driver ops for the `Consumer` model (C20, part `Consumer`).

`c20.cons.run <env> <items>` — `env` = three digits `<guess><hasBinary><ext>` (`ext`: 0 ".gcov",
1 ".gcov.json.gz", 2 ".bad"); `items` = `-` or items joined by `;`, fields joined by `:`,
`<fmt>` ∈ G(cno) R(profraw) D(profdata) I(nfo) J(acoco):
  `P:<fmt>:<stem hex>:<gcno hex>:<ok 0|1>:<writes>`   writes = `<name hex>~<content>` joined by `,`
  `U:<fmt>:<stem hex>:<R<res>|X>`                     buffers, what `Gcno::compute` returns
  `C:<fmt>:<R<res>|X>`                                content, what the format's reader returns
  `L:<fmt>:<tool>:<profdata>`                         tool = `X` | `!` | `O` + lcovs joined by `/`
                                                      (each `R<res>` | `X`); profdata = `-` | content
content = `T<res>` (gcov text) | `Z<res>` (gcov json.gz) | `B` (garbage) | `E` (empty) | `D` (a
sub-directory); `res` = `<file hex>=<tag>` joined by `+`.
Contents are numbered in order of appearance (0, 1, …).
Answer: `<r>;…|<dir>|<type>` with r = `ok:<res sorted>` | `rejected` | `panic`,
dir = `<name hex>~<content number | D>` sorted by name and joined by `,`, type ∈ unknown single multi.

`c20.cons.version <hex>` → `none` | `<maj>.<min>.<patch> pre=<0|1> ext=<hex>`
`c20.cons.argv <branch 0|1> <gcno hex>` → hex arguments joined by `,`
`c20.cons.findbin <M|F|D> <path hex> <files>` files = `<path hex>~<head hex>~<isApp 0|1>` joined by `,`
   → `panic` | sorted hex paths joined by `,`
-/
import GrcovModel.Consumer
import GrcovModel.Drv.Common
namespace Grcov.Drv
open Grcov Grcov.Consumer

namespace Cons

inductive CSpec where
  | text (r : Results) | gz (r : Results) | bad | empty | plain (r : Option Results)
deriving Repr

def parseRes (s : String) : Option Results :=
  (splitList s "+").mapM fun rec =>
    match rec.splitOn "=" with
    | [n, k] => do pure ((← fromHex n), (← k.toNat?))
    | _ => none

/-- a content token: `some (spec)` or `none` for a sub-directory (`D`) -/
def parseContent (s : String) : Option (Option CSpec) :=
  match s.toList with
  | 'T' :: r => do pure (some (.text (← parseRes (String.ofList r))))
  | 'Z' :: r => do pure (some (.gz (← parseRes (String.ofList r))))
  | ['B'] => some (some .bad)
  | ['E'] => some (some .empty)
  | ['D'] => some none
  | _ => none

def parseOutcome (s : String) : Option (Option Results) :=
  match s.toList with
  | 'R' :: r => do pure (some (← parseRes (String.ofList r)))
  | ['X'] => some none
  | _ => none

def parseFmt : String → Option ItemFormat
  | "G" => some .gcno | "R" => some .profraw | "D" => some .profdata
  | "I" => some .info | "J" => some .jacocoXml | _ => none

structure Acc where
  table : List CSpec := []
  items : List Item := []
  gcov : List (Bytes × GcovOut) := []
  llvm : List (List Bytes × LlvmOut) := []

def addContent (a : Acc) (c : CSpec) : Acc × Nat := ({ a with table := a.table ++ [c] }, a.table.length)

def parseWrites (a : Acc) : List String → Option (Acc × Dir)
  | [] => some (a, [])
  | w :: ws =>
    match w.splitOn "~" with
    | [n, c] => do
      let n ← fromHex n
      let c ← parseContent c
      match c with
      | none =>
        let (a, rest) ← parseWrites a ws
        pure (a, (n, Entry.subdir) :: rest)
      | some spec =>
        let (a, id) := addContent a spec
        let (a, rest) ← parseWrites a ws
        pure (a, (n, Entry.file id) :: rest)
    | _ => none

def parseLcovs (a : Acc) : List String → Option (Acc × List Nat)
  | [] => some (a, [])
  | l :: ls => do
    let o ← parseOutcome l
    let (a, id) := addContent a (.plain o)
    let (a, rest) ← parseLcovs a ls
    pure (a, id :: rest)

def parseItem (a : Acc) (s : String) : Option Acc :=
  match s.splitOn ":" with
  | ["P", f, stem, gcno, ok, ws] => do
    let f ← parseFmt f
    let stem ← fromHex stem
    let gcno ← fromHex gcno
    let (a, writes) ← parseWrites a (splitList ws ",")
    pure { a with items := a.items ++ [⟨f, .path stem gcno⟩],
                  gcov := a.gcov ++ [(gcno, ⟨ok == "1", writes⟩)] }
  | ["U", f, stem, r] => do
    let f ← parseFmt f
    let stem ← fromHex stem
    let o ← parseOutcome r
    let (a, id) := addContent a (.plain o)
    pure { a with items := a.items ++ [⟨f, .buffers stem id⟩] }
  | ["C", f, r] => do
    let f ← parseFmt f
    let o ← parseOutcome r
    let (a, id) := addContent a (.plain o)
    pure { a with items := a.items ++ [⟨f, .content id⟩] }
  | ["L", f, tool, pd] => do
    let f ← parseFmt f
    let key : List Bytes := [[a.items.length]]
    let (a, res) ← (match tool.toList with
      | ['X'] => some (a, ToolRes.err)
      | ['!'] => some (a, ToolRes.panic)
      | 'O' :: r => do
        let (a, ids) ← parseLcovs a (splitList (String.ofList r) "/")
        pure (a, ToolRes.ok ids)
      | _ => none)
    let (a, pdc) ← (if pd == "-" then some (a, none) else do
      match ← parseContent pd with
      | none => none
      | some spec =>
        let (a, id) := addContent a spec
        pure (a, some id))
    pure { a with items := a.items ++ [⟨f, .paths key⟩], llvm := a.llvm ++ [(key, ⟨res, pdc⟩)] }
  | _ => none

def mkEnv (guess hasBinary : Bool) (ext : Bytes) (a : Acc) : Env where
  guess := guess
  hasBinary := hasBinary
  ext := ext
  gcovRun g := (AList.get? a.gcov g).getD ⟨false, []⟩
  parseGz i := match a.table[i]? with | some (.gz r) => some r | _ => none
  parseText i := match a.table[i]? with | some (.text r) => some r | some .empty => some [] | _ => none
  parseLcov i := match a.table[i]? with | some (.plain r) => r | _ => none
  parseJacoco i := match a.table[i]? with | some (.plain r) => r | _ => none
  compute _ i := match a.table[i]? with | some (.plain r) => r | _ => none
  llvm ps := (AList.get? a.llvm ps).getD ⟨.err, none⟩

def resLt (a b : Bytes × Nat) : Bool := lexLt a.1 b.1 || (a.1 == b.1 && a.2 < b.2)

def showRes (rs : Results) : String :=
  joinWith "+" ((rs.mergeSort fun a b => !(resLt b a)).map fun (n, k) => s!"{toHex n}={k}")

def showStep : StepResult → String
  | .results rs => "ok:" ++ showRes rs
  | .rejected => "rejected"
  | .panic => "panic"

def showDir (d : Dir) : String :=
  joinWith "," ((sortBytesKeys d).map fun (n, e) =>
    match e with
    | .file c => s!"{toHex n}~{c}"
    | .subdir => s!"{toHex n}~D")

def showType : GcovType → String
  | .unknown => "unknown" | .single => "single" | .multi => "multi"

end Cons

open Cons in
def handleConsRun : List String → String
  | [envS, itemsS] =>
    let go : Option String := do
      let (g, b, e) ← (match envS.toList with
        | [g, b, e] => some (g == '1', b == '1', e)
        | _ => none)
      let ext ← (match e with
        | '0' => some EXT_TEXT | '1' => some EXT_GZ | '2' => some [46, 98, 97, 100] | _ => none)
      let acc ← (if itemsS == "-" then some ({} : Acc) else
        (itemsS.splitOn ";").foldlM parseItem ({} : Acc))
      let env := mkEnv g b ext acc
      let (st, rs) := runItems env Consumer.init acc.items
      pure s!"{joinWith ";" (rs.map showStep)}|{showDir st.dir}|{showType st.gcovType}"
    go.getD "bad-op"
  | _ => "bad-op"

def handleConsVersion : List String → String
  | [h] =>
    match fromHex h with
    | none => "bad-op"
    | some bs =>
      match parseVersion bs with
      | none => "none"
      | some v =>
        s!"{v.major}.{v.minor}.{v.patch} pre={if v.pre then 1 else 0} ext={toHex (outputExt v)}"
  | [] => "none"
  | _ => "bad-op"

def handleConsArgv : List String → String
  | [b, g] =>
    match fromHex g with
    | none => "bad-op"
    | some g => joinWith "," ((gcovArgv (b == "1") g).map toHex)
  | _ => "bad-op"

def handleConsFindBin : List String → String
  | kind :: p :: rest =>
    let go : Option String := do
      let p ← fromHex p
      let files ← (match rest with
        | [] => some []
        | [fs] => (splitList fs ",").mapM fun f =>
          match f.splitOn "~" with
          | [path, head, app] => do pure ((← fromHex path), (← fromHex head), app == "1")
          | _ => none
        | _ => none)
      let node ← (match kind with
        | "M" => some FsNode.missing
        | "F" => some FsNode.file
        | "D" => some (FsNode.dir (files.map fun f => (f.1, f.2.1)))
        | _ => none)
      let isApp : Bytes → Bool := fun h => files.any fun f => f.2.1 == h && f.2.2
      match findBinaries isApp p node with
      | none => pure "panic"
      | some bins => pure (joinWith "," ((bins.mergeSort fun a b => !(lexLt b a)).map toHex))
    go.getD "bad-op"
  | _ => "bad-op"

end Grcov.Drv
