/-
Driver ops of C03 / C18 part Html (`gmodel`), all behind the one op `c03.htmlb`:

  c03.htmlb site <conf> <prefix> <job>*       → ok <path hex>:<length>:<fnv64 hex> …  |  panic
  c03.htmlb sitefull <conf> <prefix> <job>*   → ok <path hex>=<bytes hex> …           |  panic
  c03.htmlb gindex <conf> <global>            → ok <path hex>:<length>:<fnv64 hex> …  (`gen_index`)
  c03.htmlb gindexfull <conf> <global>        → ok <path hex>=<bytes hex> …
  c03.htmlb parsefile x<page hex>             → ok <view>  |  err        (`parseFilePage`)
  c03.htmlb parseindex x<page hex>            → ok <view>  |  err        (`parseIndexPage`)
  c03.htmlb skeleton x<page hex>              → x<hex>                   (`skeleton`)
  c03.htmlb fig <covered> <total> <precision> <hi> <med>
                                               → <percent> <rounded> <severity>   (as printed)
where
  conf   = C<branch 0|1>,<precision>,<bundled 0|1>,<date x<hex>|->,<hi>:<med>:<fnhi>:<fnmed>:<brhi>:<brmed>
  prefix = x<hex> | -                                   (`--abs-link-prefix`)
  job    = R<abs hex>=<rel hex>=<cov>=<h<source hex> | x>   (x: the source cannot be opened)
  stats  = <total lines>:<covered lines>:<total funs>:<covered funs>:<total branches>:<covered branches>
  global = <prefix>/<stats>/<dir>|<dir>|…        dir  = x<name hex>;<prefix>;<stats>;<file>,<file>,…
                                                 file = x<name hex>~<prefix>~<stats>
Paths are the component names joined with `/`; listings are sorted by path bytes.
-/
import GrcovModel.Writers.HtmlBytes
import GrcovModel.Drv.Merge
namespace Grcov.Drv.C03Html
open Grcov Grcov.Drv Grcov.Writers Grcov.Writers.HtmlBytes
open Grcov.Stats (HStats)

abbrev Bytes := List Nat

/-- tail-recursive hex decoder -/
def unhexLoop : List Char → Array Nat → Option (List Nat)
  | [], acc => some acc.toList
  | [_], _ => none
  | a :: b :: rest, acc =>
    match Grcov.Drv.hexVal a, Grcov.Drv.hexVal b with
    | some x, some y => unhexLoop rest (acc.push (x * 16 + y))
    | _, _ => none

def unhex (s : String) : Option Bytes := unhexLoop s.toList #[]

def xarg (s : String) : Option Bytes := if s.startsWith "x" then unhex (s.drop 1).toString else none

/-- `x<hex>` or `-` -/
def optArg (s : String) : Option (Option Bytes) := if s = "-" then some none else (xarg s).map some

def hexChar (n : Nat) : Char := if n < 10 then Char.ofNat (48 + n) else Char.ofNat (87 + n)

def hexOf (bs : Bytes) : String :=
  bs.foldl (fun (s : String) b => (s.push (hexChar (b / 16 % 16))).push (hexChar (b % 16))) ""

def fnv64 (bs : Bytes) : UInt64 :=
  bs.foldl (fun (h : UInt64) b => (h ^^^ b.toUInt64) * 0x100000001b3) 0xcbf29ce484222325

def hex64 (h : UInt64) : String :=
  String.ofList ((List.range 16).map fun i => hexChar ((h.toNat / 16 ^ (15 - i)) % 16))

def flag (s : String) : Option Bool := if s = "1" then some true else if s = "0" then some false else none

def parseConf (s : String) : Option Conf :=
  if !s.startsWith "C" then none else
  match (s.drop 1).toString.splitOn "," with
  | [b, p, r, d, l] =>
    match l.splitOn ":" with
    | [hi, med, fhi, fmed, bhi, bmed] => do
      pure { hi := ← hi.toNat?, med := ← med.toNat?, fnHi := ← fhi.toNat?, fnMed := ← fmed.toNat?,
             brHi := ← bhi.toNat?, brMed := ← bmed.toNat?, branch := ← flag b, precision := ← p.toNat?,
             date := ← optArg d, bundled := ← flag r }
    | _ => none
  | _ => none

def parseStats (s : String) : Option HStats :=
  match s.splitOn ":" with
  | [tl, cl, tf, cf, tb, cb] => do
    pure ⟨← tl.toNat?, ← cl.toNat?, ← tf.toNat?, ← cf.toNat?, ← tb.toNat?, ← cb.toNat?⟩
  | _ => none

def parseJob (s : String) : Option (Docs.Res × Option Bytes) :=
  if !s.startsWith "R" then none else
  match (s.drop 1).toString.splitOn "=" with
  | [a, r, c, src] => do
    let src ← if src = "x" then some none
      else if src.startsWith "h" then (unhex (src.drop 1).toString).map some else none
    pure (⟨← unhex a, ← unhex r, ← parseCov c⟩, src)
  | _ => none

def parseFileStat (s : String) : Option (Bytes × FileStat) :=
  match s.splitOn "~" with
  | [n, p, st] => do pure (← xarg n, ⟨← parseStats st, ← optArg p⟩)
  | _ => none

def parseDirStat (s : String) : Option (Bytes × DirStat) :=
  match s.splitOn ";" with
  | [n, p, st, fs] => do
    let files ← (splitList fs ",").mapM parseFileStat
    pure (← xarg n, ⟨files, ← parseStats st, ← optArg p⟩)
  | _ => none

def parseGlobal (s : String) : Option Global :=
  match s.splitOn "/" with
  | [p, st, ds] => do
    let dirs ← (splitList ds "|").mapM parseDirStat
    pure ⟨dirs, ← parseStats st, ← optArg p⟩
  | _ => none

def pathOf (names : List Name) : Bytes := UPath.join names

def sortFiles (fs : List (List Name × Bytes)) : List (Bytes × Bytes) :=
  (fs.map fun f => (pathOf f.1, f.2)).mergeSort fun a b => !(HtmlBytes.lexLt b.1 a.1)

def listing (full : Bool) (fs : List (List Name × Bytes)) : String :=
  "ok" ++ String.join ((sortFiles fs).map fun f =>
    if full then " " ++ hexOf f.1 ++ "=" ++ hexOf f.2
    else " " ++ hexOf f.1 ++ ":" ++ toString f.2.length ++ ":" ++ hex64 (fnv64 f.2))

def handleSite (full : Bool) : List String → String
  | conf :: pre :: jobs =>
    match parseConf conf, optArg pre, jobs.mapM parseJob with
    | some conf, some pre, some jobs =>
      match site ⟨conf, pre⟩ jobs with
      | none => "panic"
      | some fs => listing full fs
    | _, _, _ => "bad-op"
  | _ => "bad-op"

def handleGindex (full : Bool) : List String → String
  | [conf, g] =>
    match parseConf conf, parseGlobal g with
    | some conf, some g =>
      listing full (((indexWrites conf g).map fun w => (w.1 ++ [Docs.indexHtml], w.2)).foldl (fun m w => AList.set m w.1 w.2) [])
    | _, _ => "bad-op"
  | _ => "bad-op"

def str (bs : Bytes) : String := String.ofList (bs.map Char.ofNat)

def showFigure (f : Figure) : String := s!"{str f.kind}:{str f.sev}:{f.covered}:{f.total}:{str f.printed}"

def showSummary (s : Summary) : String :=
  "C" ++ joinWith "," (s.crumbs.map fun c => hexOf c.1 ++ "=" ++ hexOf c.2) ++ ";U" ++ hexOf s.current ++
    ";F" ++ joinWith "," (s.figures.map showFigure)

def showDate : Option Bytes → String
  | none => "-"
  | some d => "x" ++ hexOf d

def showFileView (v : FileView) : String :=
  "T" ++ hexOf v.title ++ ";S" ++ hexOf v.stylesheet ++ ";" ++ showSummary v.summary ++ ";D" ++ showDate v.date ++
    ";R" ++ joinWith "," (v.rows.map fun r =>
      s!"{r.no}:{match r.count with | some c => toString c | none => "n"}:{hexOf r.text}")

def showIdxView (r : IdxView) : String :=
  hexOf r.url ++ ":" ++ hexOf r.name ++ ":" ++ str r.value ++ ":" ++
    joinWith "+" (r.cells.map fun c => s!"{str c.1}/{str c.2.1}/{c.2.2.1}/{c.2.2.2}")

def showIndexView (v : IndexView) : String :=
  "T" ++ hexOf v.title ++ ";S" ++ hexOf v.stylesheet ++ ";" ++ showSummary v.summary ++ ";D" ++ showDate v.date ++
    ";K" ++ str v.kind ++ ";B" ++ (if v.branchColumns then "1" else "0") ++
    ";R" ++ joinWith "," (v.rows.map showIdxView)

def handle : List String → String
  | "site" :: args => handleSite false args
  | "sitefull" :: args => handleSite true args
  | "gindex" :: args => handleGindex false args
  | "gindexfull" :: args => handleGindex true args
  | ["parsefile", p] =>
    match xarg p with
    | some bs => match parseFilePage bs with
      | some v => "ok " ++ showFileView v
      | none => "err"
    | none => "bad-op"
  | ["parseindex", p] =>
    match xarg p with
    | some bs => match parseIndexPage bs with
      | some v => "ok " ++ showIndexView v
      | none => "err"
    | none => "bad-op"
  | ["skeleton", p] =>
    match xarg p with
    | some bs => "x" ++ hexOf (skeleton bs)
    | none => "bad-op"
  | ["fig", c, t, p, hi, med] =>
    match c.toNat?, t.toNat?, p.toNat?, hi.toNat?, med.toNat? with
    | some c, some t, some p, some hi, some med =>
      let per := HtmlF64.percent c t
      str (HtmlF64.display per) ++ " " ++ str (rounded p per) ++ " " ++ str (severity hi med per)
    | _, _, _, _, _ => "bad-op"
  | _ => "bad-op"

end Grcov.Drv.C03Html
