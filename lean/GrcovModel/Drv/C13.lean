/-
Line protocol of the C13 driver `gm_c13`.

request : `<op> <file> <file> …`       op ∈ lcov | covdir | cobertura | html | markdown | ade
file    : `<r><o>|<rel>|<abs>|<cov>`   r = 1 iff rel_path is relative, o = 1 iff the source opens;
                                       rel/abs = hex components joined by `/`; cov as in Drv.Merge
answer  : `ok …` (figures; every rate as `num/den`, maps in key order) | `panic` | `bad-op`
-/
import GrcovModel.Stats
import GrcovModel.Stats.Listed
import GrcovModel.Stats.Printed
import GrcovModel.Drv.Merge
namespace Grcov.Drv.C13
open Grcov Grcov.Drv Grcov.Stats

def parseComps (s : String) : Option (List Name) :=
  (splitList s "/").mapM fromHex

def parseFile (s : String) : Option FileIn :=
  match s.splitOn "|" with
  | [fl, rel, abs, cov] =>
    match fl.toList with
    | [r, o] => do
      guard ((r = '0' ∨ r = '1') ∧ (o = '0' ∨ o = '1'))
      let rel ← parseComps rel
      let abs ← parseComps abs
      let cov ← parseCov cov
      pure { relIsRel := r = '1', openable := o = '1', rel, abs, cov }
    | _ => none
  | _ => none

def showRate (r : Rate) : String := s!"{r.num}/{r.den}"

def sortStrings (xs : List String) : List String := xs.mergeSort fun a b => a ≤ b

/-! lcov -/
def showLcovRec (r : LcovRec) : String :=
  (match r.fn with
   | some (f, h) => s!"{f},{h}"
   | none => "-") ++ s!"|{r.brf},{r.brh}|{r.lf},{r.lh}"

/-! covdir -/
def showCD (s : CDStats) : String := s!"{s.total},{s.covered},{s.missed},{showRate s.percent}"

def childLabel (parent name : Name) : Name := if parent.isEmpty then name else parent ++ 47 :: name

/-- the files LISTED in the `children` object of their directory (`into_json`: one map for files
and directories, a later insert replaces): see `Stats/Listed.lean` -/
def flattenFiles (parent : Name) (fs : List CDFile) (subNames : List Name) : List String :=
  (listedFiles fs subNames).map fun f => s!"f{toHex (childLabel parent f.name)}={showCD f.stats}"

def flattenForest (parent : Name) : Forest → List String
  | .nil => []
  | .dir n st fs sub next =>
    let me := childLabel parent n
    s!"d{toHex me}={showCD st}" :: (flattenFiles me fs sub.dirNames ++ flattenForest me sub ++
      flattenForest parent next)

def showCovdir (r : CDRoot) : String :=
  joinWith " " (s!"d={showCD r.stats}" ::
    sortStrings (flattenFiles [] r.files r.sub.dirNames ++ flattenForest [] r.sub))

/-! cobertura -/
def showCobRates (s : CobStats) : String := s!"{showRate s.lineRate},{showRate s.branchRate}"

def showCobPackage (p : CobPackage) : String :=
  joinWith "|" (s!"P{showCobRates p.stats}" :: s!"C{showCobRates p.classStats}" ::
    (sortBytesKeys p.methods).map fun (n, s) => s!"M{toHex n}:{showCobRates s}")

def showCobertura (r : CobReport) : String :=
  let g := s!"G={r.stats.linesCovered},{r.stats.linesValid},{showRate r.stats.lineRate}," ++
      s!"{r.stats.branchesCovered},{r.stats.branchesValid},{showRate r.stats.branchRate}"
  joinWith " " (g :: r.packages.map showCobPackage)

/-! html -/
def showH (s : HStats) : String :=
  s!"{s.totalLines},{s.coveredLines},{showRate (htmlPercent s.coveredLines s.totalLines)}," ++
  s!"{s.totalFuns},{s.coveredFuns},{showRate (htmlPercent s.coveredFuns s.totalFuns)}," ++
  s!"{s.totalBranches},{s.coveredBranches},{showRate (htmlPercent s.coveredBranches s.totalBranches)}"

def showHtml (r : HtmlReport) : String :=
  joinWith " " (s!"K={if r.index.listsDirs then "D" else "F"}" :: s!"G={showH r.index.stats}" ::
    s!"B={r.badge}" :: s!"J={showRate r.json}" ::
    sortStrings ((r.index.rows.map fun (n, s) => s!"R{toHex n}={showH s}") ++
      r.dirPages.flatMap fun (d, pg) =>
        s!"D{toHex d}={showH pg.stats}" ::
          pg.rows.map fun (n, s) => s!"F{toHex d}/{toHex n}={showH s}"))

/-! markdown -/
def showMarkdown (r : MdReport) : String :=
  joinWith " " (r.rows.map (fun x => s!"{x.covered},{x.total},{showRate x.rate}") ++
    [s!"T={showRate r.rate}"])

/-! ade -/
def showAdePart (p : AdePart) : String := s!"{p.covered},{p.uncovered},{showRate p.rate}"

def showAdeFile (f : AdeFile) : String :=
  joinWith "|" (s!"F{showAdePart f.file}" :: s!"O{showAdePart f.orphan}" ::
    (sortBytesKeys f.methods).map fun (n, p) => s!"M{toHex n}:{showAdePart p}")

def okLine (parts : List String) : String := joinWith " " ("ok" :: parts)

def handle (op : String) (args : List String) : String :=
  match args.mapM parseFile with
  | none => "bad-op"
  | some rs =>
    match op with
    | "lcov" => okLine ((lcov rs).map showLcovRec)
    | "covdir" => match covdir rs with
      | .ok t => okLine [showCovdir t]
      | .panic _ => "panic"
    | "cobertura" => match cobertura rs with
      | .ok r => okLine [showCobertura r]
      | .panic _ => "panic"
    | "html" => okLine [showHtml (html rs)]
    | "markdown" => okLine [showMarkdown (markdown rs)]
    | "ade" => match ade rs with
      | .ok fs => okLine (fs.map showAdeFile)
      | .panic _ => "panic"
    | _ => "bad-op"

/-- `printed <writer> <precision> <num> <den> <figure hex>` → is the printed figure admissible for the
exact rate num/den (`Stats/Printed.lean`) -/
def handlePrinted : List String → String
  | [w, p, n, d, s] =>
    match p.toNat?, n.toNat?, d.toNat?, fromHex s with
    | some p, some n, some d, some s =>
      match tolOf w p with
      | some t => if printedOK t ⟨n, d⟩ s then "1" else "0"
      | none => "bad-op"
    | _, _, _, _ => "bad-op"
  | _ => "bad-op"

def step (line : String) : String :=
  match (line.trimAscii.toString.splitOn " ").filter (· ≠ "") with
  | "printed" :: args => handlePrinted args
  | op :: args => handle op args
  | [] => "bad-op"

end Grcov.Drv.C13
