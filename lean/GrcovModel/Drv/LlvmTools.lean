import GrcovModel.LlvmTools
import GrcovModel.Drv.Lcov
namespace Grcov.Drv
open Grcov Grcov.LlvmTools

/-- `llvm.model <hexprofile,…> <hexname:hexlcov|-,…>` → `profiles=<n> exports=<m> report=<map>` -/
def handleLlvmModel : List String → String
  | [ps, bs] =>
    let go : Option String := do
      let profiles ← (splitList ps ",").mapM fromHex
      let bins ← (splitList bs ",").mapM fun e =>
        match e.splitOn ":" with
        | [n, l] => do
          let n ← fromHex n
          if l == "-" then pure (⟨n, none⟩ : Binary) else pure ⟨n, some (← fromHex l)⟩
        | _ => none
      let rep := report true bins
      let shown := joinWith " " ((sortBytesKeys rep).map fun (k, cov) => s!"K{toHex k}={showCov cov}")
      pure s!"profiles={(lines (mergeStdin profiles)).length} exports={(exports bins).length} report={shown}"
    go.getD "bad-op"
  | _ => "bad-op"

end Grcov.Drv
