import GrcovModel.LlvmTools
import GrcovModel.Drv.Lcov
namespace Grcov.Drv
open Grcov Grcov.LlvmTools

def showList (l : List (Nat × Bytes)) : String :=
  if l.isEmpty then "-" else joinWith "," (l.map fun (w, f) => s!"{w}:{toHex f}")

/-- `llvm.model <hexprofile,…> <hexname:hexlcov|-,…>` → `profiles=<n|err> exports=<m> report=<map>`
(`n` = the number of weight-1 inputs llvm-profdata takes from the list grcov writes) -/
def handleLlvmModel : List String → String
  | [ps, bs] =>
    let go : Option String := do
      let profiles ← (splitList ps ",").mapM fromHex
      let bins ← (splitList bs ",").mapM fun e =>
        match e.splitOn ":" with
        | [n, l] => do
          let n ← fromHex n
          if l == "-" then pure (⟨n, none⟩ : Binary) else pure ⟨n, some (← fromHex l)⟩
        | _ => none
      let rep := report true bins
      let shown := joinWith " " ((sortBytesKeys rep).map fun (k, cov) => s!"K{toHex k}={showCov cov}")
      let n := match parseList (mergeStdin profiles) with
        | some l => if l.all (fun wf => wf.1 == 1) then toString l.length else "weights"
        | none => "err"
      pure s!"profiles={n} exports={(exports bins).length} report={shown}"
    go.getD "bad-op"
  | _ => "bad-op"

/-- `c20.llvm.list <hex of a list file>` → `err` | `-` | `<weight>:<hex name>,…`
(what llvm-profdata takes from `-f <file>`) -/
def handleLlvmList : List String → String
  | [] => "-"
  | [h] =>
    match fromHex h with
    | none => "bad-op"
    | some data =>
      match parseList data with
      | none => "err"
      | some l => showList l
  | _ => "bad-op"

/-- `c20.llvm.stdin <hexpath,…>` → hex of what grcov writes to the merge tool's stdin -/
def handleLlvmStdin : List String → String
  | [] => ""
  | [ps] =>
    match (splitList ps ",").mapM fromHex with
    | none => "bad-op"
    | some profiles => toHex (mergeStdin profiles)
  | _ => "bad-op"

structure ItemSpec where
  profiles : List Bytes
  pd : Option Bytes
  exps : List (Option Bytes)

def parseOptHex (s : String) : Option (Option Bytes) :=
  if s == "-" then some none else (fromHex s).map some

def parseItemSpec (s : String) : Option ItemSpec :=
  match s.splitOn "|" with
  | [ps, pd, es] => do
    pure ⟨← (splitList ps ",").mapM fromHex, ← parseOptHex pd, ← (splitList es ",").mapM parseOptHex⟩
  | _ => none

/-- the tools as tables: the merge of an item's names gives its recorded profile; the export of
binary `k` against that profile gives the item's `k`-th recorded export -/
def toolsOf (bins : List Bytes) (items : List ItemSpec) : Tools where
  merge l := (items.find? fun it => it.profiles == l.map (·.2)).bind (·.pd)
  export_ b pd :=
    (items.find? fun it => it.pd == some pd).bind fun it =>
      ((bins.zip it.exps).find? fun be => be.1 == b).bind (·.2)

def showCall : Bytes × Bytes → String
  | (b, pd) => s!"{toHex b}@{toHex pd}"

/-- `c20.llvm.run <branch 0|1> <hexbin,…> <item>;…` with
`<item>` = `<hexprofile,…>|<hex merged profile | ->|<hex lcov | ->,…` (one export per binary) →
`merges=<hex stdin>,…|exports=<hexbin>@<hexprofile>,…|report=<map>` (both logs in call order) -/
def handleLlvmRun : List String → String
  | [br, bs, its] =>
    let go : Option String := do
      let bins ← (splitList bs ",").mapM fromHex
      let items ← (splitList its ";").mapM parseItemSpec
      let t := toolsOf bins items
      let ps := items.map (·.profiles)
      let log := runLog t bins ps
      let rep := reportRun (br == "1") t bins ps
      let shown := joinWith " " ((sortBytesKeys rep).map fun (k, cov) => s!"K{toHex k}={showCov cov}")
      pure s!"merges={joinWith "," ((mergeLog log).map toHex)}|exports={joinWith "," ((exportLog log).map showCall)}|report={shown}"
    go.getD "bad-op"
  | _ => "bad-op"

end Grcov.Drv
