/-
Line-protocol driver for the path components (UPath, Glob, Rewrite): used by gm_c11 and gm_c12.
Every byte-string argument is hex with a one-letter tag in front (so that the empty string is a
token). Answers: see each handler.
-/
import GrcovModel.Rewrite
import GrcovModel.Drv.Merge
namespace Grcov.Drv.C11
open Grcov Grcov.Drv Grcov.UPath Grcov.Glob Grcov.Rewrite

/-- `x<hex>` → bytes -/
def arg (s : String) : Option Bytes := fromHex (s.drop 1).toString

def showOpt : Option Bytes → String
  | none => "none"
  | some b => "some:" ++ toHex b

def showComp : Comp → String
  | .root => "R"
  | .cur => "C"
  | .parent => "P"
  | .normal n => "N" ++ toHex n

def bit (b : Bool) : String := if b then "1" else "0"

/-- `T<hex>,<hex>,…` with a tag letter before each element: `Tg6162,g,g2a` -/
def argList (s : String) : Option (List Bytes) :=
  (splitList (s.drop 1).toString ",").mapM arg

def optArg (s : String) : Option (Option Bytes) :=
  let t := (s.drop 1).toString
  if t = "-" then some none
  else if t.startsWith "+" then (fromHex (t.drop 1).toString).map some
  else none

def mappingArg (s : String) : Option (Option (List (Bytes × Bytes))) :=
  let t := (s.drop 1).toString
  if t = "-" then some none
  else if t.startsWith "+" then
    ((splitList (t.drop 1).toString ",").mapM fun (e : String) =>
      match e.splitOn ":" with
      | [k, v] => do pure ((← fromHex k), (← fromHex v))
      | _ => none).map some
  else none

def canonComps (p : Bytes) : List Bytes := (split p).filter fun s => s ≠ []

def parseEntries (es : List String) : Option (List (Bytes × Cov)) :=
  es.mapM fun e =>
    match (e.drop 1).toString.splitOn "=" with
    | [k, cov] => do pure ((← fromHex k), (← parseCov cov))
    | _ => none

def showRecs (rs : List Rec) : String :=
  let lines := rs.map fun r => s!"A{toHex r.abs}:R{toHex r.rel}={showCov r.cov}"
  joinWith " " ("ok" :: lines.mergeSort fun a b => !(decide (b < a)))

def showRes : Res (List Rec) → String
  | .panic _ => "panic"
  | .ok rs => showRecs rs

/-- `Yl<hex link path>:<hex target>,…`: the symbolic links of the tree -/
def linksArg (s : String) : Option (List (List Bytes × Bytes)) :=
  let t := (s.drop 1).toString
  if t = "" then some []
  else (splitList t ",").mapM fun (e : String) =>
    match (e.drop 1).toString.splitOn ":" with
    | [p, tgt] => do pure (canonComps (← fromHex p), (← fromHex tgt))
    | _ => none

def parseCfgL (s p m i k e f w d x : String) (links : List (List Bytes × Bytes)) (entries : List String) :
    Option (Cfg × FS × List (Bytes × Cov)) := do
  let sourceDir ← optArg s
  let prefixDir ← optArg p
  let mapping ← mappingArg m
  let ignore ← (← argList i).mapM Glob.parse
  let keep ← (← argList k).mapM Glob.parse
  let ignoreNotExisting ← if e = "E1" then some true else if e = "E0" then some false else none
  let filter ← if f = "Fn" then some none else if f = "Ft" then some (some true)
               else if f = "Ff" then some (some false) else none
  let cwd ← arg w
  let dirs ← argList d
  let files ← argList x
  let es ← parseEntries entries
  pure ({ sourceDir, prefixDir, mapping, ignore, keep, ignoreNotExisting, filter },
        { files := files.map canonComps, dirs := dirs.map canonComps, cwd := canonComps cwd, links }, es)

/-- `S P M I K E F W D X [Y] | entries` (`Y`: the link table, absent = no links) -/
def parseCfg : List String → Option (Cfg × FS × List (Bytes × Cov))
  | s :: p :: m :: i :: k :: e :: f :: w :: d :: x :: "|" :: entries =>
    parseCfgL s p m i k e f w d x [] entries
  | s :: p :: m :: i :: k :: e :: f :: w :: d :: x :: y :: "|" :: entries => do
    parseCfgL s p m i k e f w d x (← linksArg y) entries
  | _ => none

def handle : List String → String
  | ["comps", p] => match arg p with
    | some p => let cs := components p
                if cs = [] then "-" else joinWith "," (cs.map showComp)
    | none => "bad-op"
  | ["parent", p] => match arg p with
    | some p => showOpt (parent p)
    | none => "bad-op"
  | ["ancestors", p] => match arg p with
    | some p => joinWith "," ((ancestors p).map fun a => "a" ++ toHex a)
    | none => "bad-op"
  | ["strip", p, b] => match arg p, arg b with
    | some p, some b => showOpt (stripPrefix p b)
    | _, _ => "bad-op"
  | ["push", a, b] => match arg a, arg b with
    | some a, some b => "p" ++ toHex (push a b)
    | _, _ => "bad-op"
  | ["ends", p, c] => match arg p, arg c with
    | some p, some c => bit (endsWith p c)
    | _, _ => "bad-op"
  | ["norm", p] => match arg p with
    | some p => showOpt (normalizePath p)
    | none => "bad-op"
  | ["glob", g, p] => match arg g, arg p with
    | some g, some p => match globMatch g p with
      | some b => bit b
      | none => "unsupported"
    | _, _ => "bad-op"
  | ["covered", c] => match parseCov c with
    | some c => bit (isCovered c)
    | none => "bad-op"
  | "rewrite" :: rest => match parseCfg rest with
    | some (cfg, fs, es) => showRes (rewritePaths cfg fs es)
    | none => "bad-op"
  | "addrewrite" :: rest => match parseCfg rest with
    | some (cfg, fs, es) => showRes (addThenRewrite cfg fs es)
    | none => "bad-op"
  | "covdir" :: rest => match parseCfg rest with
    -- global totals of the report: summed over records / over the listed files
    | some (cfg, fs, es) => match addThenRewrite cfg fs es with
      | .panic _ => "panic"
      | .ok rs => s!"{dirTotal (fun _ => true) rs} {listedTotal (fun _ => true) rs}"
    | none => "bad-op"
  | _ => "bad-op"

def step (line : String) : String := handle (line.trimAscii.toString.splitOn " ")

end Grcov.Drv.C11
