/- C08 uses the same model component and the same line protocol as C15 (see Drv/C15.lean). -/
import GrcovModel.Drv.C15
namespace Grcov.Drv
def stepC08 (line : String) : String := stepGcno line
end Grcov.Drv
