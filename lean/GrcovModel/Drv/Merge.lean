import GrcovModel.Merge
import GrcovModel.Drv.Common
namespace Grcov.Drv
open Grcov

/-- `L1:5,2:7;B1:10;F6162:3:1` -/
def parseCov (s : String) : Option Cov := do
  match s.splitOn ";" with
  | [ls, bs, fs] =>
    guard (ls.startsWith "L" ∧ bs.startsWith "B" ∧ fs.startsWith "F")
    let lines ← (splitList (ls.drop 1).toString ",").mapM fun e =>
      match e.splitOn ":" with
      | [l, c] => do pure ((← l.toNat?), (← c.toNat?))
      | _ => none
    let branches ← (splitList (bs.drop 1).toString ",").mapM fun e =>
      match e.splitOn ":" with
      | [l, v] => do pure ((← l.toNat?), (← parseBits v))
      | _ => none
    let functions ← (splitList (fs.drop 1).toString ",").mapM fun e =>
      match e.splitOn ":" with
      | [n, st, ex] => do
        let ex ← if ex = "1" then some true else if ex = "0" then some false else none
        pure ((← fromHex n), (⟨← st.toNat?, ex⟩ : Fn))
      | _ => none
    pure { lines, branches, functions }
  | _ => none

def showCov (c : Cov) : String :=
  "L" ++ joinWith "," ((sortNatKeys c.lines).map fun (l, n) => s!"{l}:{n}") ++
  ";B" ++ joinWith "," ((sortNatKeys c.branches).map fun (l, v) => s!"{l}:{bits v}") ++
  ";F" ++ joinWith "," ((sortBytesKeys c.functions).map fun (n, f) =>
      s!"{toHex n}:{f.start}:{if f.executed then 1 else 0}")

def handleMerge : List String → String
  | [a, b] =>
    match parseCov a, parseCov b with
    | some a, some b => s!"{showCov (merge a b)} {if mergeOverflow a b then 1 else 0}"
    | _, _ => "bad-op"
  | _ => "bad-op"

/-- `addresults C<hex>=<hex>,… K<hex>=<cov> …` -/
def handleAddResults : List String → String
  | c :: entries =>
    let canonTab : Option (List (List Nat × List Nat)) :=
      (splitList (c.drop 1).toString ",").mapM fun e =>
        match e.splitOn "=" with
        | [a, b] => do pure ((← fromHex a), (← fromHex b))
        | _ => none
    let es : Option (List (Key × Cov)) := entries.mapM fun e =>
      match (e.drop 1).toString.splitOn "=" with
      | [k, cov] => do pure ((← fromHex k), (← parseCov cov))
      | _ => none
    match canonTab, es with
    | some tab, some es =>
      let canon : Key → Key := fun k => (AList.get? tab k).getD k
      let m := addResults canon [] es
      joinWith " " ((sortBytesKeys m).map fun (k, cov) => s!"K{toHex k}={showCov cov}")
    | _, _ => "bad-op"
  | _ => "bad-op"

end Grcov.Drv
