/-
Driver op for `Consumer.WorkDirs` (C20):
`c20.wd.layout <hex tmp path> <worker index> <hex relative name>` →
`<hex worker directory>|<hex extraction destination>` (paths as '/'-separated strings).
-/
import GrcovModel.Consumer.WorkDirs
import GrcovModel.Drv.Common
namespace Grcov.Drv
open Grcov Grcov.Consumer.WorkDirs

def joinSlash (root : Bool) (cs : List (List Nat)) : List Nat :=
  (if root then [47] else []) ++ (cs.intersperse [47]).flatten

def handleWdLayout : List String → String
  | [tmpH, iS, relH] =>
    let go : Option String := do
      let tmp ← fromHex tmpH
      let i ← iS.toNat?
      let rel ← fromHex relH
      let tmpC := splitComps tmp
      let relC := splitComps rel
      let l := layoutNew tmpC relC
      pure s!"{toHex (joinSlash true (workerDir tmpC i))}|{toHex (joinSlash true (l.1 ++ l.2))}"
    go.getD "bad-op"
  | _ => "bad-op"
where
  splitComps (p : List Nat) : List (List Nat) :=
    let rec go : List Nat → List Nat → List (List Nat)
      | cur, [] => if cur.isEmpty then [] else [cur]
      | cur, b :: bs => if b = 47 then (if cur.isEmpty then go [] bs else cur :: go [] bs) else go (cur ++ [b]) bs
    go [] p

end Grcov.Drv
