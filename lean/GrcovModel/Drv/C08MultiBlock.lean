/-
Driver op of the C08 MultiBlock package (served by gm_c08):

  c08.mb <version> <checksum> <recs|-> <gcda>*
      -> ok <fn>;<fn>…      one entry per function, in notes order; `-` for a function that was
                            not entered; otherwise its multi-block lines (block-occurrence list of
                            length ≠ 1) in increasing line order, joined by '|':
         <line>:<b.b.…>:<class>:<entry>:<int>:<blk>:<enp>:<loop>:<min>:<count>
            b.b.…  the block occurrences (`lines_to_block[line]`)
            class  0 = no circuit (certificate `acyclicCert` found), 1 = exactly one simple loop
                   (certificate `loopCert` found), 2 = anything else            (Gcno/MultiBlock.lean)
            entry  `entryPart`, int `intSum`, blk = sum of the block counters of the occurrences
            enp    1 = the block numbered 0 has no predecessor on the line (`entryNoPredB`)
            loop   class 1: the loop's arcs `src>dst` joined by '.', from its smallest block; else `-`
            min    class 1: the smallest counter on the loop; else `-`
            count  what `getLineCount` returns on the function's counters (`panic`/`diverge` otherwise)
      | err <kind> | panic | diverge        (from reading / `stop`, as for `state`)
-/
import GrcovModel.Gcno.MultiBlock
import GrcovModel.Drv.C15
namespace Grcov.Drv
open Grcov Grcov.Gcno

def mbShowLine (f : Func) (c : Cnt) (l : Nat) (bs : List Nat) : String :=
  let cls := lineClass f bs
  let loopTxt := if cls.1 = 1 then
      joinWith "." (cls.2.map fun e => s!"{arcSrc f e}>{arcDst f e}") else "-"
  let minTxt := if cls.1 = 1 then toString (minOn c.arc cls.2) else "-"
  let cnt := match getLineCount f c.arc bs (fun _ => 0) with
    | .ok (_, n) => toString n
    | .err _ => "err"
    | .crash _ => "panic"
    | .diverge => "diverge"
  joinWith ":" [toString l, joinWith "." (bs.map toString), toString cls.1,
    toString (entryPart f c.arc bs), toString (intSum f c.arc bs), toString (blkSum c.blk bs),
    (if entryNoPredB f bs then "1" else "0"), loopTxt, minTxt, cnt]

def mbShowFn (fc : Func × Cnt) : String :=
  let (f, c) := fc
  if entered f c then
    let ls := (sortNatKeys (linesToBlock f)).filter fun p => p.2.length != 1
    let t := joinWith "|" (ls.map fun p => mbShowLine f c p.1 p.2)
    if t.isEmpty then "+" else t
  else "-"

def handleC08MultiBlock : List String → String
  | v :: c :: recs :: ds =>
    match gcnoNat v, gcnoNat c, gcnoParseRecs recs, ds.mapM gcnoParseGcda with
    | some v, some c, some recs, some ds =>
      gcnoShowOutcome (fun fs => joinWith ";" (fs.map mbShowFn))
        ((build v c recs).bind fun g => (addGcdas g State.zero ds).bind fun st => stop g st)
    | _, _, _, _ => "bad-op"
  | _ => "bad-op"

end Grcov.Drv
