/-
Driver ops of C14, part TextCost (served by `gmodel`). Every answer is the outcome class followed by
`key=value` fields (sizes of the result, then the cost counters of the cost view):

  c14.text.lcov <branch 0|1> <hex bytes>
      -> ok files=… entries=… slots=… names=… maxcount=… maxvec=… <cost> | err <Kind> <cost>
         <cost> = next=… mapops=… keybytes=… copied=… grown=… eols=… ops=… maxno=…
         (`ops` = operations in the trace, `maxno` = largest committed branch number, `-` if none)
  c14.text.gcov <hex bytes>
      -> ok files=… entries=… slots=… names=… maxcount=… maxvec=… <cost> | err <Kind> <cost>
         <cost> = reads=… lines=… mapops=… copied=… pushed=… lfs=…
  c14.text.gcovjson <tree>        (tree syntax of the C09 driver; `!` = reader error)
      -> ok files=… entries=… slots=… names=… maxcount=… maxvec=… size=… convops=… | err InvalidData size=…
  c14.text.jacoco <cap> <ev>*     (event syntax of the C10 driver)
      -> ok files=… entries=… slots=… names=… maxvec=… <cost> | err <Kind> <cost> | alloc <cost> | diverge <cost>
         <cost> = reads=… attrs=… mapops=… alloc=… events=… attrcount=… bytes=…
The lcov and JaCoCo models build the branch vectors for real: the harness keeps branch numbers and
cb/mb of the cases it sends here small (the allocation findings are replayed on the real code only).
-/
import GrcovModel.Lcov.Cost
import GrcovModel.Gcov.Cost
import GrcovModel.Jacoco.Cost
import GrcovModel.Drv.Common
namespace Grcov.Drv.C14Text
open Grcov Grcov.Drv Grcov.Size

def sizes (rs : List (List Nat × Cov)) : String :=
  s!"files={rs.length} entries={resEntries rs} slots={resSlots rs} names={resNameBytes rs} " ++
  s!"maxcount={resMaxCount rs} maxvec={resMaxVec rs}"

/-! ### lcov -/

def lcovCost (branch : Bool) (bs : List Nat) : String :=
  let c := Lcov.cost branch bs
  let t := Lcov.trace branch {} bs
  let calls := Lcov.branchCalls t
  let maxno := match calls with
    | [] => "-"
    | _ => toString (calls.foldl (fun (m : Nat) (c : Nat × Nat) => max m c.2) 0)
  s!"next={c.next} mapops={c.mapOps} keybytes={c.keyBytes} copied={c.copied} grown={c.grown} " ++
  s!"eols={Lcov.eols bs} ops={t.length} maxno={maxno}"

def handleLcov : List String → String
  | [b, h] =>
    match fromHex h with
    | some bs =>
      let branch := b == "1"
      match Lcov.parse branch bs with
      | .ok rs => s!"ok {sizes rs} {lcovCost branch bs}"
      | .err k => s!"err {k} {lcovCost branch bs}"
      | .panic _ => "panic"
    | none => "bad-op"
  | [b] => s!"ok {sizes []} {lcovCost (b == "1") []}"
  | _ => "bad-op"

/-! ### gcov text -/

def gcovCost (bs : List Nat) : String :=
  let c := Gcov.Text.cost bs
  s!"reads={c.reads} lines={c.lines} mapops={c.mapOps} copied={c.copied} pushed={c.pushed} lfs={Gcov.Text.lfs bs}"

def handleGcov : List String → String
  | [h] =>
    match fromHex h with
    | some bs =>
      match Gcov.Text.parse bs with
      | .ok rs => s!"ok {sizes rs} {gcovCost bs}"
      | .err k => s!"err {k} {gcovCost bs}"
      | .panic _ => "panic"
    | none => "bad-op"
  | [] => s!"ok {sizes []} {gcovCost []}"
  | _ => "bad-op"

/-! ### gcov JSON (the tree syntax of Drv/C09.lean) -/

def takeUntil (stop : Char) : List Char → Option (List Char × List Char)
  | [] => none
  | c :: cs =>
    if c = stop then some ([], cs)
    else match takeUntil stop cs with
      | some (h, t) => some (c :: h, t)
      | none => none

def natOf (cs : List Char) : Option Nat :=
  if cs.isEmpty then none else (String.ofList cs).toNat?

def signOf : Char → Option Bool
  | '+' => some false
  | '-' => some true
  | _ => none

mutual
def parseTree : Nat → List Char → Option (Gcov.Json × List Char)
  | 0, _ => none
  | _ + 1, [] => none
  | fuel + 1, c :: cs =>
    match c with
    | 'n' => some (.null, cs)
    | 't' => some (.bool true, cs)
    | 'f' => some (.bool false, cs)
    | 'i' => do
      let (d, rest) ← takeUntil ';' cs
      pure (.num (.pos (← natOf d)), rest)
    | 'm' => do
      let (d, rest) ← takeUntil ';' cs
      pure (.num (.neg (← natOf d)), rest)
    | 'd' =>
      match cs with
      | sg :: cs1 => do
        let neg ← signOf sg
        let (md, r1) ← takeUntil 'p' cs1
        match r1 with
        | esg :: r2 => do
          let eneg ← signOf esg
          let (ed, r3) ← takeUntil ';' r2
          let m ← natOf md
          let e ← natOf ed
          pure (.num (.flt neg m (if eneg then -(Int.ofNat e) else Int.ofNat e)), r3)
        | [] => none
      | [] => none
    | 's' => do
      let (h, rest) ← takeUntil ';' cs
      pure (.str (← fromHexChars h), rest)
    | '[' => do
      let (xs, rest) ← parseItems fuel cs
      pure (.arr xs, rest)
    | '{' => do
      let (kvs, rest) ← parseMembers fuel cs
      pure (.obj kvs, rest)
    | _ => none

def parseItems : Nat → List Char → Option (List Gcov.Json × List Char)
  | 0, _ => none
  | _ + 1, [] => none
  | fuel + 1, c :: cs =>
    if c = ']' then some ([], cs)
    else do
      let (x, r1) ← parseTree fuel (c :: cs)
      let (xs, r2) ← parseItems fuel r1
      pure (x :: xs, r2)

def parseMembers : Nat → List Char → Option (List (List Nat × Gcov.Json) × List Char)
  | 0, _ => none
  | _ + 1, [] => none
  | fuel + 1, c :: cs =>
    if c = '}' then some ([], cs)
    else if c = 's' then do
      let (h, r0) ← takeUntil ';' cs
      let k ← fromHexChars h
      let (v, r1) ← parseTree fuel r0
      let (kvs, r2) ← parseMembers fuel r1
      pure ((k, v) :: kvs, r2)
    else none
end

def parseJsonTree (s : String) : Option Gcov.Json :=
  let cs := s.toList
  match parseTree (cs.length + 1) cs with
  | some (j, []) => some j
  | _ => none

def handleGcovJson : List String → String
  | ["!"] => "err InvalidData size=0"
  | [t] =>
    match parseJsonTree t with
    | some j =>
      match Gcov.Json.toResults j with
      | .ok rs =>
        let ops := match Gcov.Json.decDoc j with
          | some fs => Gcov.Json.convOps fs
          | none => 0
        s!"ok {sizes rs} size={Gcov.Json.size j} convops={ops}"
      | .err k => s!"err {k} size={Gcov.Json.size j}"
      | .panic _ => "panic"
    | none => "bad-op"
  | _ => "bad-op"

/-! ### JaCoCo (the event syntax of Drv/C10.lean) -/

def parseAttr (s : String) : Option Jacoco.Attr :=
  match s.splitOn "=" with
  | [k, v] => do pure ((← fromHex k), (← fromHex v))
  | _ => none

def parseEvent (s : String) : Option Jacoco.XmlEvent :=
  match s.splitOn "," with
  | ["t"] => some .text
  | ["o"] => some .other
  | ["x"] => some .bad
  | ["c", n] => do pure (.end_ (← fromHex n))
  | "s" :: n :: attrs => do pure (.start (← fromHex n) (← attrs.mapM parseAttr))
  | "e" :: n :: attrs => do pure (.empty (← fromHex n) (← attrs.mapM parseAttr))
  | _ => none

def jacocoCost (c : Jacoco.Cost) (evs : List Jacoco.XmlEvent) : String :=
  s!"reads={c.reads} attrs={c.attrs} mapops={c.mapOps} alloc={c.alloc} " ++
  s!"events={evs.length} attrcount={Jacoco.attrCount evs} bytes={Jacoco.evsBytes evs}"

def handleJacoco : List String → String
  | c :: args =>
    match c.toNat?, (args.filter (· ≠ "")).mapM parseEvent with
    | some cap, some evs =>
      let p := Jacoco.parseCapC cap evs (Jacoco.enoughFuel evs)
      let k := jacocoCost p.2 evs
      match p.1 with
      | .ok rs => s!"ok files={rs.length} entries={resEntries rs} slots={resSlots rs} names={resNameBytes rs} maxvec={resMaxVec rs} {k}"
      | .err .parse => s!"err Parse {k}"
      | .err .invalidRecord => s!"err InvalidRecord {k}"
      | .alloc => s!"alloc {k}"
      | .diverge => s!"diverge {k}"
    | _, _ => "bad-op"
  | [] => "bad-op"

end Grcov.Drv.C14Text
