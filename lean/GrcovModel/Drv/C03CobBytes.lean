/-
Driver ops of C03/C18 part CobBytes (served by `gmodel`, lean/Main.lean):

  c03.cobbytes.ser <src> V<fill> [D<dm>] K<hex>=<cov> …
      src as in c03.cob.tree; fill = comma-separated `<path>/<attr>=<hex>` (path = child indices
      from the root joined by `.`, attr = line-rate | branch-rate | timestamp): the bytes the
      implementation printed for the float attributes; the function tables may come in any order:
      the model lists them by name (`Writers.FnOrder.coberturaBytes`); `D…` see Drv/C03FnOrder
      -> `ok <hex of the report bytes>` | `panic`
  c03.cobbytes.parse <0|1> <hex>      (1 = skip indentation between tags)
      -> `ok <tree>` | `none`   tree as in c03.cob.tree (every value `x<hex>`, document order)
-/
import GrcovModel.Writers.CobBytes
import GrcovModel.Drv.C03CobAde
namespace Grcov.Drv.CobBytes
open Grcov Grcov.Drv Grcov.Stats Grcov.Writers.CobAde Grcov.Writers.CobBytes

def bytesStr (bs : List Nat) : String := String.ofList (bs.map Char.ofNat)

def showBAttrs (as : List (List Nat × List Nat)) : String :=
  String.join (as.map fun (k, v) => " " ++ bytesStr k ++ "=x" ++ toHex v)

mutual
def showB : BXml → String
  | .elem t as cs => "(" ++ bytesStr t ++ showBAttrs as ++ showBs cs ++ ")"
  | .text v => "\"" ++ toHex v
def showBs : List BXml → String
  | [] => ""
  | x :: xs => " " ++ showB x ++ showBs xs
end

def parseEntriesOrdered (entries : List String) : Option (List (Name × Cov)) :=
  entries.mapM fun e =>
    if e.startsWith "K" then
      match (e.drop 1).toString.splitOn "=" with
      | [k, cov] => do pure ((← fromHex k), (← parseCov cov))
      | _ => none
    else none

def parsePath (s : String) : Option (List Nat) := (splitList s ".").mapM (·.toNat?)

def parseFill (s : String) : Option (List ((List Nat × String) × List Nat)) :=
  if s.startsWith "V" then
    (splitList (s.drop 1).toString ",").mapM fun e =>
      match e.splitOn "=" with
      | [pk, v] =>
        match pk.splitOn "/" with
        | [p, k] => do pure (((← parsePath p), k), (← fromHex v))
        | _ => none
      | _ => none
  else none

def fillOf (tab : List ((List Nat × String) × List Nat)) : Fill := fun p k =>
  match tab.find? fun e => e.1.1 == p && e.1.2 == k with
  | some e => e.2
  | none => []

def handleSer : List String → String
  | src :: fill :: args =>
    match Grcov.Drv.FnOrder.takeDm args with
    | some (dm, entries) =>
      match Grcov.Drv.CobAde.parseSrc src, parseFill fill, parseEntriesOrdered entries with
      | some src, some tab, some rs =>
        match Grcov.Writers.FnOrder.coberturaBytes dm (fillOf tab) src rs with
        | .ok b => "ok " ++ toHex b
        | .panic _ => "panic"
      | _, _, _ => "bad-op"
    | none => "bad-op"
  | _ => "bad-op"

def handleParse : List String → String
  | [ws, h] =>
    match (if ws = "0" then some false else if ws = "1" then some true else none), fromHex h with
    | some ws, some bs =>
      match xmlParseWith ws bs with
      | some t => "ok " ++ showB t
      | none => "none"
    | _, _ => "bad-op"
  | _ => "bad-op"

end Grcov.Drv.CobBytes
