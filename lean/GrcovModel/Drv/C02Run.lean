/-
Driver op for `Cli.RunAll.run` (GrcovModel/Cli/RunAll.lean), served by `gmodel` and `gm_c16`:

  run.all T<type> U<sorted types, comma separated, or -> B<0|1> S P M I K E F W D X Q<excl> | item…

`S … X` as for `cli.run` / gm_c11's `rewrite` (Drv/C11.lean). `Q` = the six `--excl-*` regex texts
in the order of `FileFilter::new`, comma separated, `-` for an absent option, else hex (the driver's
`Regex::is_match` is "the text occurs in the line": the harness only passes literal markers).
Items, in any order:
  l<hex> / j<hex>          an lcov / JaCoCo input (in argument order)
  y<abs hex>=<text hex>    `read_to_string(abs)` succeeds with that text (any other path: fails)
  h<rel hex>               the order of the file records in the real report
  n<rel hex>=<fn hex>,…    accepted and IGNORED (before fix 73c9152 the order of the function records
                           of a file had to be read off the real report; the model now sorts them by name)
  p<path hex>=<tok hex>    covdir `coveragePercent` of the node at names joined by `/` (root = "")
  g<hex>                   coveralls `source_digest`s in document order
  c<hex>                   the coveralls `git` object as printed (read by `jsonParse`)
  t<hex> | tn              ActiveData `percentage_covered` tokens in document order (tn = null)
  v<fill>                  cobertura float attributes / timestamp (as `c03.cobbytes.ser`'s V)
  k<stem hex>=<gcno hex>=<gcda hex>,…   an LLVM-mode gcno item with its gcda buffers (possibly none)
  r<abs hex>=<bytes hex>   `File::open(abs)` + `read_to_end` succeed with these bytes (html pages)
  oprecision=<n> | odate=<hex> | obundled=<0|1> | oprefix=<hex>
                           `--precision`, the html date as printed (absent: `--no-date`),
                           `--html-resources bundled`, `--abs-link-prefix`
Answer: `ok <hex of the report>` | `panic`.

  run.html  <same header> | item…   → ok <path hex>=<bytes hex> …  (sorted by path) | panic
  run.multi <same header, T<kind>,<kind>,…> | item…
                                    → ok <path hex>=<bytes hex> …  (files of the output directory,
                                      a later write replacing an earlier one; sorted) | panic
-/
import GrcovModel.Cli.RunAll
import GrcovModel.Drv.C11
import GrcovModel.Drv.C05Cli
import GrcovModel.Drv.C03JsonBytes
import GrcovModel.Drv.C03CobBytes
namespace Grcov.Drv.RunAll
open Grcov Grcov.Drv Grcov.Drv.C11 Grcov.Rewrite Grcov.Cli.RunAll Grcov.Writers.JsonBytes

def parseType (s : String) : Option OutType :=
  match s with
  | "Tlcov" => some .lcov
  | "Tcovdir" => some .covdir
  | "Tcoveralls" => some .coveralls
  | "Tcoveralls+" => some .coverallsPlus
  | "Tcobertura" => some .cobertura
  | "Tade" => some .ade
  | "Tfiles" => some .files
  | "Tmarkdown" => some .markdown
  | _ => none

def parseKinds (s : String) : Option (List OutKind) :=
  (splitList (s.drop 1).toString ",").mapM fun n =>
    if n = "html" then some OutKind.html else (parseType ("T" ++ n)).map OutKind.stream

def parseSortTypes (s : String) : Option (List MainGlue.OutputType) :=
  let t := (s.drop 1).toString
  if t = "-" then some []
  else (splitList t ",").mapM fun n =>
    MainGlue.OutputType.ofCliName (n.toList.map Char.toNat)

def parseExcl (s : String) : Option MainGlue.FileFilterArgs :=
  let one (t : String) : Option (Option (List Nat)) :=
    if t = "-" then some none else (fromHex t).map some
  match (s.drop 1).toString.splitOn "," with
  | [a, b, c, d, e, f] => do
    pure ⟨← one a, ← one b, ← one c, ← one d, ← one e, ← one f⟩
  | _ => none

structure Items where
  inputs : List Input := []
  texts : List (List Nat × List Nat) := []
  recOrder : List (List Nat) := []
  fnOrder : List (List Nat × List (List Nat)) := []
  cdFills : List (List Nat × List Nat) := []
  digests : List (List Nat) := []
  git : Option Json := none
  pcts : List Json := []
  cobFill : List ((List Nat × String) × List Nat) := []
  raws : List (List Nat × List Nat) := []
  precision : Nat := 2
  date : Option (List Nat) := none
  bundled : Bool := false
  absPrefix : Option (List Nat) := none

def pair (s : String) : Option (List Nat × List Nat) :=
  match s.splitOn "=" with
  | [a, b] => do pure ((← fromHex a), (← fromHex b))
  | _ => none

def addItem (it : Items) (s : String) : Option Items :=
  let body := (s.drop 1).toString
  if s.startsWith "l" then (fromHex body).map fun b => { it with inputs := it.inputs ++ [.lcov b] }
  else if s.startsWith "j" then (fromHex body).map fun b => { it with inputs := it.inputs ++ [.jacoco b] }
  else if s.startsWith "y" then (pair body).map fun p => { it with texts := it.texts ++ [p] }
  else if s.startsWith "h" then (fromHex body).map fun b => { it with recOrder := it.recOrder ++ [b] }
  else if s.startsWith "n" then
    match body.splitOn "=" with
    | [a, b] => do
      let k ← fromHex a
      let fs ← (splitList b ",").mapM fromHex
      pure { it with fnOrder := it.fnOrder ++ [(k, fs)] }
    | _ => none
  else if s.startsWith "p" then (pair body).map fun p => { it with cdFills := it.cdFills ++ [p] }
  else if s.startsWith "g" then (fromHex body).map fun b => { it with digests := it.digests ++ [b] }
  else if s.startsWith "c" then
    (fromHex body).bind fun b => (jsonParse b).map fun j => { it with git := some j }
  else if s = "tn" then some { it with pcts := it.pcts ++ [.null] }
  else if s.startsWith "t" then (fromHex body).map fun b => { it with pcts := it.pcts ++ [.tok b] }
  else if s.startsWith "v" then
    (CobBytes.parseFill ("V" ++ body)).map fun tab => { it with cobFill := tab }
  else if s.startsWith "k" then
    match body.splitOn "=" with
    | [a, b, c] => do
      let stem ← fromHex a
      let g ← fromHex b
      let ds ← (splitList c ",").mapM fromHex
      pure { it with inputs := it.inputs ++ [.gcno stem g ds] }
    | _ => none
  else if s.startsWith "r" then (pair body).map fun p => { it with raws := it.raws ++ [p] }
  else if s.startsWith "oprecision=" then (s.drop 11).toString.toNat?.map fun n => { it with precision := n }
  else if s.startsWith "odate=" then (fromHex (s.drop 6).toString).map fun b => { it with date := some b }
  else if s.startsWith "obundled=" then some { it with bundled := (s.drop 9).toString = "1" }
  else if s.startsWith "oprefix=" then (fromHex (s.drop 8).toString).map fun b => { it with absPrefix := some b }
  else none

def parseItems (ss : List String) : Option Items := ss.foldlM addItem {}

/-- the driver's `Regex::is_match`: the regex is a literal, it matches iff it occurs in the line -/
def literalMatch (rx : List Nat) (line : List Nat) : Bool := FileFilter.hasSub rx line

def parseRunWith (parseT : String → Option OutType) : List String → Option (Opts × World × List Input)
  | t :: u :: b :: s :: p :: m :: i :: k :: e :: f :: w :: d :: x :: q :: "|" :: items => do
    let out ← parseT t
    let sortTypes ← parseSortTypes u
    let excl ← parseExcl q
    let (branch, cfg, fs, _) ← parseCliCfg (b :: s :: p :: m :: i :: k :: e :: f :: w :: d :: x :: ["|"])
    let it ← parseItems items
    let pr : Printed :=
      { cdFill := fun path => (AList.get? it.cdFills (UPath.join path)).getD [48, 46, 48]
        cvTop := { harnessTop with git := it.git.getD .null }
        cvDigests := it.digests
        adePcts := it.pcts
        cobFill := CobBytes.fillOf it.cobFill }
    let o : Opts :=
      { cfg, branch, excl, isMatch := literalMatch, out, sortTypes
        hash := HashOrder.ofListing it.recOrder, pr
        precision := it.precision, htmlDate := it.date, htmlBundled := it.bundled, absPrefix := it.absPrefix }
    pure (o, { fs, text := fun abs => AList.get? it.texts abs, raw := fun abs => AList.get? it.raws abs }, it.inputs)
  | _ => none

def parseRun : List String → Option (Opts × World × List Input) := parseRunWith parseType

def handleRunAll (args : List String) : String :=
  match parseRun args with
  | some (o, w, ins) =>
    match run o w ins with
    | .ok bytes => "ok " ++ toHex bytes
    | .panic _ => "panic"
  | none => "bad-op"

/-- `set` semantics of a directory: a later write replaces an earlier one; printed sorted by path -/
def showFiles (fs : List (List Nat × List Nat)) : String :=
  let m := fs.foldl (fun m f => AList.set m f.1 f.2) ([] : List (List Nat × List Nat))
  let arr := (m.map fun f => (toHex f.1, f.2)).toArray.qsort (fun a b => a.1 < b.1)
  " ".intercalate (arr.toList.map fun f => f.1 ++ "=" ++ toHex f.2)

def joinNames (ns : List (List Nat)) : List Nat := UPath.join ns

def handleRunHtml (args : List String) : String :=
  match parseRunWith (fun _ => some .lcov) args with
  | some (o, w, ins) =>
    match runHtml o w ins with
    | .ok files => "ok " ++ showFiles (files.map fun f => (joinNames f.1, f.2))
    | .panic _ => "panic"
  | none => "bad-op"

def flatten : List Artifact → List (List Nat × List Nat)
  | [] => []
  | .file n b :: rest => (n, b) :: flatten rest
  | .dir n fs :: rest => (fs.map fun f => (joinNames (n :: f.1), f.2)) ++ flatten rest

def handleRunMulti (args : List String) : String :=
  match args with
  | t :: _ =>
    match parseKinds t, parseRunWith (fun _ => some .lcov) args with
    | some kinds, some (o, w, ins) =>
      match runMulti o w ins kinds with
      | .ok arts => "ok " ++ showFiles (flatten arts)
      | .panic _ => "panic"
    | _, _ => "bad-op"
  | [] => "bad-op"

end Grcov.Drv.RunAll
