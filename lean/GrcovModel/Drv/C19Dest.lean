/-
Driver ops of C19 part `Dest` (served by `gmodel`):
  confine.dest.ext  <hex path>                       -> hex of `addHtmlExt path`
  confine.dest.html <out comps> <hex rel>            -> `skip` (absolute) | `panic` (no parent / no file
                                                        name) | `file=<segs> dir=<segs>` (resolved)
  confine.dest.run  <out comps> <0|1 bundled> <hex rel>:<0|1 readable>;…
                                                     -> resolved createFile destinations below `out`,
                                                        sorted, distinct, `;`-separated, then ` dups=<n>`
  confine.dest.outfile <out comps> <0|1 is_dir> <hex fixed name> -> resolved path of the report file
  confine.dest.profdata <tmp comps> <worker>         -> resolved path of `<tmp>/<worker>/grcov.profdata`
  confine.dest.gcov <hex gcno path|-> <hex ext|->    -> hex of the one component under the working dir | `panic`
A resolved path is its hex-encoded names joined by `,` (`-` for the root itself).
-/
import GrcovModel.Confine.Dest
import GrcovModel.Drv.Confine
namespace Grcov.Drv
open Grcov.Confine

def showSegs (segs : List (List Nat)) : String :=
  if segs.isEmpty then "-" else joinWith "," (segs.map toHex)

def handleDestExt : List String → String
  | [] => toHex (addHtmlExt [])
  | [h] => match fromHex h with
    | some p => toHex (addHtmlExt p)
    | none => "bad-op"
  | _ => "bad-op"

def relArg : List String → Option (List Nat)
  | [] => some []
  | [h] => fromHex h
  | _ => none

def handleDestHtml : List String → String
  | o :: rest => match parseComps o, relArg rest with
    | some out, some rel =>
      if !UPath.isRelative rel then "skip"
      else match htmlDirIndexDest out rel, fileName rel with
        | some d, some _ =>
          "file=" ++ showSegs (resolve (htmlFileDest out rel)) ++ " dir=" ++ showSegs (resolve d)
        | _, _ => "panic"
    | _, _ => "bad-op"
  | _ => "bad-op"

def parseReport (s : String) : Option (List (List Nat × Bool)) :=
  (splitList s ";").mapM fun item =>
    match item.splitOn ":" with
    | [h, r] => (fromHex h).map fun b => (b, r == "1")
    | _ => none

def dedupSorted : List (List (List Nat)) → List (List (List Nat))
  | a :: b :: rest => if a = b then dedupSorted (b :: rest) else a :: dedupSorted (b :: rest)
  | l => l

def segsLe (a b : List (List Nat)) : Bool :=
  match a, b with
  | [], _ => true
  | _ :: _, [] => false
  | x :: xs, y :: ys => if lexLt x y then true else if lexLt y x then false else segsLe xs ys

def handleDestRun : List String → String
  | o :: b :: rest => match parseComps o, parseReport (joinWith " " rest) with
    | some out, some rep =>
      let ri : RunInput := { tmp := [], out := out, outKind := .html (b == "1"), report := rep }
      let files := ((outDests ri).filter fun d => d.kind = .createFile).map fun d => resolve d.path
      let sorted := files.mergeSort segsLe
      let ded := dedupSorted sorted
      joinWith ";" (ded.map showSegs) ++ " dups=" ++ toString (sorted.length - ded.length)
    | _, _ => "bad-op"
  | _ => "bad-op"

/-- an argument that may be empty is sent as `-` -/
def hexOrDash (s : String) : Option (List Nat) := if s == "-" then some [] else fromHex s

def handleDestGcov : List String → String
  | [g, e] => match hexOrDash g, hexOrDash e with
    | some g, some e => match gcovOutPath [] g e with
      | some [.normal n] => toHex n
      | some _ => "not-one-component"
      | none => "panic"
    | _, _ => "bad-op"
  | _ => "bad-op"

/-- `confine.dest.outfile <out comps> <0|1 is_dir> <hex fixed name>` -> resolved path of the one file written -/
def handleDestOutFile : List String → String
  | [o, d, n] => match parseComps o, fromHex n with
    | some out, some name => showSegs (resolve (outFileDest out (d == "1") name))
    | _, _ => "bad-op"
  | _ => "bad-op"

/-- `confine.dest.profdata <tmp comps> <worker>` -> resolved `-o` path of the profile merge, which is
also the path removed afterwards -/
def handleDestProfdata : List String → String
  | [t, w] => match parseComps t, w.toNat? with
    | some tmp, some i => showSegs (resolve (profdataPath (workerDir tmp i)))
    | _, _ => "bad-op"
  | _ => "bad-op"

end Grcov.Drv
