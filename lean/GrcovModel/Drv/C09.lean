/-
Line protocol of the driver `gm_c09`:

  gcov.text <hex bytes of the .gcov file>     -> ok K<hex>=<cov> … | err <Kind> | panic
  gcov.json <tree>                            -> the same; `!` as the tree = reader error

  gcovjsontree <hex bytes of the JSON text> {<hex token>=<+|-><m>p<+|-><e>}
        -> the value tree `JsonBytes.readTree` reads (tree syntax below, objects as serde_json's
           `Value` holds them: last duplicate wins, keys ascending) | `!` (reader error);
           the trailing arguments give the f64 value ±m·2^±e of each number token that is not a
           u64 / i64 integer literal (serde_json's float reader is a parameter of the model)
  gcovjsonbytes <hex bytes> {<hex token>=…}   -> `JsonBytes.parseGcovJsonBytes`, answers as gcov.json

Tree syntax (no blanks): `n` null, `t`/`f` booleans, `i<dec>;` non-negative integer, `m<dec>;`
negative integer −<dec>, `d<+|-><m>p<+|-><e>;` the float ±m·2^±e, `s<hex>;` string,
`[`…`]` array, `{` (`s<hex>;` value)* `}` object.
-/
import GrcovModel.Gcov
import GrcovModel.Gcov.JsonBytes
import GrcovModel.Drv.Merge
namespace Grcov.Drv
open Grcov Grcov.Gcov

def showGcovResults (rs : List (List Nat × Cov)) : String :=
  joinWith " " (rs.map fun (k, c) => s!"K{toHex k}={showCov c}")

def showGcovOut : Gcov.Out → String
  | .ok [] => "ok"
  | .ok rs => "ok " ++ showGcovResults rs
  | .err k => "err " ++ k
  | .panic _ => "panic"

def takeUntil (stop : Char) : List Char → Option (List Char × List Char)
  | [] => none
  | c :: cs =>
    if c = stop then some ([], cs)
    else match takeUntil stop cs with
      | some (h, t) => some (c :: h, t)
      | none => none

def natOf (cs : List Char) : Option Nat :=
  if cs.isEmpty then none else (String.ofList cs).toNat?

def signOf : Char → Option Bool
  | '+' => some false
  | '-' => some true
  | _ => none

mutual
/-- one value; fuel bounds the nesting/length -/
def parseTree : Nat → List Char → Option (Json × List Char)
  | 0, _ => none
  | _ + 1, [] => none
  | fuel + 1, c :: cs =>
    match c with
    | 'n' => some (.null, cs)
    | 't' => some (.bool true, cs)
    | 'f' => some (.bool false, cs)
    | 'i' => do
      let (d, rest) ← takeUntil ';' cs
      pure (.num (.pos (← natOf d)), rest)
    | 'm' => do
      let (d, rest) ← takeUntil ';' cs
      pure (.num (.neg (← natOf d)), rest)
    | 'd' =>
      match cs with
      | sg :: cs1 => do
        let neg ← signOf sg
        let (md, r1) ← takeUntil 'p' cs1
        match r1 with
        | esg :: r2 => do
          let eneg ← signOf esg
          let (ed, r3) ← takeUntil ';' r2
          let m ← natOf md
          let e ← natOf ed
          pure (.num (.flt neg m (if eneg then -(Int.ofNat e) else Int.ofNat e)), r3)
        | [] => none
      | [] => none
    | 's' => do
      let (h, rest) ← takeUntil ';' cs
      pure (.str (← fromHexChars h), rest)
    | '[' => do
      let (xs, rest) ← parseItems fuel cs
      pure (.arr xs, rest)
    | '{' => do
      let (kvs, rest) ← parseMembers fuel cs
      pure (.obj kvs, rest)
    | _ => none

def parseItems : Nat → List Char → Option (List Json × List Char)
  | 0, _ => none
  | _ + 1, [] => none
  | fuel + 1, c :: cs =>
    if c = ']' then some ([], cs)
    else do
      let (x, r1) ← parseTree fuel (c :: cs)
      let (xs, r2) ← parseItems fuel r1
      pure (x :: xs, r2)

def parseMembers : Nat → List Char → Option (List (List Nat × Json) × List Char)
  | 0, _ => none
  | _ + 1, [] => none
  | fuel + 1, c :: cs =>
    if c = '}' then some ([], cs)
    else if c = 's' then do
      let (h, r0) ← takeUntil ';' cs
      let k ← fromHexChars h
      let (v, r1) ← parseTree fuel r0
      let (kvs, r2) ← parseMembers fuel r1
      pure ((k, v) :: kvs, r2)
    else none
end

def parseJsonTree (s : String) : Option Json :=
  let cs := s.toList
  match parseTree (cs.length + 1) cs with
  | some (j, []) => some j
  | _ => none

def handleGcovText : List String → String
  | [h] => match fromHex h with
    | some bs => showGcovOut (Text.parse bs)
    | none => "bad-op"
  | [] => showGcovOut (Text.parse [])
  | _ => "bad-op"

def handleGcovJson : List String → String
  | ["!"] => showGcovOut (Json.fromReader none)
  | [t] => match parseJsonTree t with
    | some j => showGcovOut (Json.fromReader (some j))
    | none => "bad-op"
  | _ => "bad-op"

/-- `<hex token>=<+|-><m>p<+|-><e>` -/
def parseFltArg (s : String) : Option (List Nat × JNum) :=
  match s.splitOn "=" with
  | [h, v] => do
    let tok ← fromHex h
    match v.toList with
    | sg :: cs1 => do
      let neg ← signOf sg
      let (md, r1) ← takeUntil 'p' cs1
      match r1 with
      | esg :: r2 => do
        let eneg ← signOf esg
        let m ← natOf md
        let e ← natOf r2
        pure (tok, .flt neg m (if eneg then -(Int.ofNat e) else Int.ofNat e))
      | [] => none
    | [] => none
  | _ => none

def fltOracle (tab : List (List Nat × JNum)) (t : List Nat) : Option JNum :=
  (tab.find? fun p => p.1 == t).map (·.2)

def showJNum : JNum → String
  | .pos n => s!"i{n};"
  | .neg n => s!"m{n};"
  | .flt neg m e => s!"d{if neg then "-" else "+"}{m}p{if e < 0 then "-" else "+"}{e.natAbs};"

def lastWins (kvs : List (List Nat × String)) : List (List Nat × String) :=
  kvs.foldl (fun m kv => AList.set m kv.1 kv.2) []

mutual
def showTree : Json → String
  | .null => "n"
  | .bool true => "t"
  | .bool false => "f"
  | .num n => showJNum n
  | .str s => s!"s{toHex s};"
  | .arr xs => "[" ++ showTrees xs ++ "]"
  | .obj kvs =>
    let items := (lastWins (showMembers kvs)).map fun (k, v) => (toHex k, v)
    let sorted := items.mergeSort fun a b => !(b.1 < a.1)
    "{" ++ String.join (sorted.map fun (k, v) => s!"s{k};{v}") ++ "}"
def showTrees : List Json → String
  | [] => ""
  | x :: xs => showTree x ++ showTrees xs
def showMembers : List (List Nat × Json) → List (List Nat × String)
  | [] => []
  | (k, v) :: r => (k, showTree v) :: showMembers r
end

def withBytesArgs (args : List String) (k : (List Nat → Option JNum) → List Nat → String) : String :=
  match args.filter (· ≠ "") with
  | [] => k (fun _ => none) []
  | h :: rest =>
    let (h, rest) := if h.contains '=' then ("", h :: rest) else (h, rest)
    match fromHex h, rest.mapM parseFltArg with
    | some bs, some tab => k (fltOracle tab) bs
    | _, _ => "bad-op"

def handleGcovJsonTree (args : List String) : String :=
  withBytesArgs args fun flt bs =>
    match Gcov.JsonBytes.readTree flt bs with
    | some j => showTree j
    | none => "!"

def handleGcovJsonBytes (args : List String) : String :=
  withBytesArgs args fun flt bs => showGcovOut (Gcov.JsonBytes.parseGcovJsonBytes flt bs)

def stepC09 (line : String) : String :=
  match line.trimAscii.toString.splitOn " " with
  | "gcov.text" :: args => handleGcovText args
  | "gcov.json" :: args => handleGcovJson args
  | "gcovjsontree" :: args => handleGcovJsonTree args
  | "gcovjsonbytes" :: args => handleGcovJsonBytes args
  | _ => "bad-op"

end Grcov.Drv
