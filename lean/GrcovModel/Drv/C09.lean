/-
Line protocol of the driver `gm_c09`:

  gcov.text <hex bytes of the .gcov file>     -> ok K<hex>=<cov> … | err <Kind> | panic
  gcov.json <tree>                            -> the same; `!` as the tree = reader error

Tree syntax (no blanks): `n` null, `t`/`f` booleans, `i<dec>;` non-negative integer, `m<dec>;`
negative integer −<dec>, `d<+|-><m>p<+|-><e>;` the float ±m·2^±e, `s<hex>;` string,
`[`…`]` array, `{` (`s<hex>;` value)* `}` object.
-/
import GrcovModel.Gcov
import GrcovModel.Drv.Merge
namespace Grcov.Drv
open Grcov Grcov.Gcov

def showGcovResults (rs : List (List Nat × Cov)) : String :=
  joinWith " " (rs.map fun (k, c) => s!"K{toHex k}={showCov c}")

def showGcovOut : Gcov.Out → String
  | .ok [] => "ok"
  | .ok rs => "ok " ++ showGcovResults rs
  | .err k => "err " ++ k
  | .panic _ => "panic"

def takeUntil (stop : Char) : List Char → Option (List Char × List Char)
  | [] => none
  | c :: cs =>
    if c = stop then some ([], cs)
    else match takeUntil stop cs with
      | some (h, t) => some (c :: h, t)
      | none => none

def natOf (cs : List Char) : Option Nat :=
  if cs.isEmpty then none else (String.ofList cs).toNat?

def signOf : Char → Option Bool
  | '+' => some false
  | '-' => some true
  | _ => none

mutual
/-- one value; fuel bounds the nesting/length -/
def parseTree : Nat → List Char → Option (Json × List Char)
  | 0, _ => none
  | _ + 1, [] => none
  | fuel + 1, c :: cs =>
    match c with
    | 'n' => some (.null, cs)
    | 't' => some (.bool true, cs)
    | 'f' => some (.bool false, cs)
    | 'i' => do
      let (d, rest) ← takeUntil ';' cs
      pure (.num (.pos (← natOf d)), rest)
    | 'm' => do
      let (d, rest) ← takeUntil ';' cs
      pure (.num (.neg (← natOf d)), rest)
    | 'd' =>
      match cs with
      | sg :: cs1 => do
        let neg ← signOf sg
        let (md, r1) ← takeUntil 'p' cs1
        match r1 with
        | esg :: r2 => do
          let eneg ← signOf esg
          let (ed, r3) ← takeUntil ';' r2
          let m ← natOf md
          let e ← natOf ed
          pure (.num (.flt neg m (if eneg then -(Int.ofNat e) else Int.ofNat e)), r3)
        | [] => none
      | [] => none
    | 's' => do
      let (h, rest) ← takeUntil ';' cs
      pure (.str (← fromHexChars h), rest)
    | '[' => do
      let (xs, rest) ← parseItems fuel cs
      pure (.arr xs, rest)
    | '{' => do
      let (kvs, rest) ← parseMembers fuel cs
      pure (.obj kvs, rest)
    | _ => none

def parseItems : Nat → List Char → Option (List Json × List Char)
  | 0, _ => none
  | _ + 1, [] => none
  | fuel + 1, c :: cs =>
    if c = ']' then some ([], cs)
    else do
      let (x, r1) ← parseTree fuel (c :: cs)
      let (xs, r2) ← parseItems fuel r1
      pure (x :: xs, r2)

def parseMembers : Nat → List Char → Option (List (List Nat × Json) × List Char)
  | 0, _ => none
  | _ + 1, [] => none
  | fuel + 1, c :: cs =>
    if c = '}' then some ([], cs)
    else if c = 's' then do
      let (h, r0) ← takeUntil ';' cs
      let k ← fromHexChars h
      let (v, r1) ← parseTree fuel r0
      let (kvs, r2) ← parseMembers fuel r1
      pure ((k, v) :: kvs, r2)
    else none
end

def parseJsonTree (s : String) : Option Json :=
  let cs := s.toList
  match parseTree (cs.length + 1) cs with
  | some (j, []) => some j
  | _ => none

def handleGcovText : List String → String
  | [h] => match fromHex h with
    | some bs => showGcovOut (Text.parse bs)
    | none => "bad-op"
  | [] => showGcovOut (Text.parse [])
  | _ => "bad-op"

def handleGcovJson : List String → String
  | ["!"] => showGcovOut (Json.fromReader none)
  | [t] => match parseJsonTree t with
    | some j => showGcovOut (Json.fromReader (some j))
    | none => "bad-op"
  | _ => "bad-op"

def stepC09 (line : String) : String :=
  match line.trimAscii.toString.splitOn " " with
  | "gcov.text" :: args => handleGcovText args
  | "gcov.json" :: args => handleGcovJson args
  | _ => "bad-op"

end Grcov.Drv
