/-
Driver ops of C19 part `Extract` (served by `gm_c19`):

  c19.extracts <ignoreOrphan 0|1> <isLlvm 0|1> <tmp comps> ARG*
      -> what the producer makes below the temp dir for this layout (`extractDests` of every
         extraction of `Confine.extractsOf`, resolved): sorted, `;`-separated items
           L:<segs>  a link into a directory input (symlink, or `hard_link` of one)
           F:<segs>  a file written by `File::create` (zip entry)
           H:<segs>  a second name of such a file (`hard_link`)
           D:<segs>  a directory created for one of them (`create_dir_all(parent)`), every
                     directory between `tmp/inputs` and the file
         then ` ok=<0|1>` (every stem well-formed and every (stem, n, ext) owned by one archive kind:
         the decidable content of `C19_extracts_ok`) and ` apart=<0|1>` (no item at or below a worker
         directory `tmp/<i>`, i < 64)
  c19.dest <tmp comps> <stem hex> <n> <ext hex>  -> resolved `extractDest`
  c19.alive <tmp comps> <threads> ARG*           -> number of paths at or below tmp that are left after
                                                    `dests` of that run were carried out (always 0)
  c19.gcovdests <tmp comps> <worker> <gcno path hex> <ext hex|->
      -> `gcovDests`: `W:<segs>` (the directory gcov is told to write into) and, unless
         `file_name().unwrap()` panics, `R:<segs>` (the output grcov reads and removes), `;`-separated
  c19.walk <tmp comps> <worker> <name hex>,<name hex>,…  -> resolved `walkEntry (workerDir tmp worker) names`
  ARG as in Drv/C17.lean: d<label>:FILE,… | Z<label>:RAWFILE,… | p:FILE ; <segs> as in Drv/C19Dest.lean
-/
import GrcovModel.Confine.Extracts
import GrcovModel.Drv.C17
import GrcovModel.Drv.C19Dest
namespace Grcov.Drv.C19X
open Grcov Grcov.Drv Grcov.Confine
open Grcov.Producer (RArg Opts RawEntry)

def parseRArg (s : String) : Option RArg :=
  match s.splitOn ":" with
  | [hd, body] =>
    if hd = "p" then (C17.parseFile body).map RArg.plain
    else if hd.startsWith "d" then do pure (RArg.dir (← (hd.drop 1).toString.toNat?) (← C17.parseFiles body))
    else if hd.startsWith "Z" then do
      let fs ← C17.parseFiles body
      pure (RArg.zip (← (hd.drop 1).toString.toNat?) (fs.map fun f => ⟨f.path, f.head, f.cid⟩))
    else none
  | _ => none

def parseRArgs (ws : List String) : Option (List RArg) := (ws.filter (· ≠ "")).mapM parseRArg

/-- every directory strictly between `base` and the resolved file -/
def dirsBetween (base file : List (List Nat)) : List (List (List Nat)) :=
  ((List.range file.length).filter fun k => base.length < k).map fun k => file.take k

def itemsOf (tmp : Path) (es : List Extract) : List String :=
  let base := resolve (extractDir tmp)
  es.flatMap fun e =>
    let d := resolve (extractDest tmp e.stem e.n e.ext)
    ((dirsBetween base d).map fun p => "D:" ++ showSegs p)
      ++ [(if e.fromZip then "F:" else "L:") ++ showSegs d]
      ++ e.hardlinks.map fun k =>
          (if e.fromZip then "H:" else "L:") ++ showSegs (resolve (extractDest tmp e.stem k e.ext))

def dedupStrings : List String → List String
  | a :: b :: rest => if a = b then dedupStrings (b :: rest) else a :: dedupStrings (b :: rest)
  | l => l

/-- decidable content of `StemOK`: the segments of the stem, all but the last real, the last
non-empty -/
def stemOkB (stem : List Nat) : Bool :=
  let segs := UPath.split stem
  (segs.dropLast.all fun s => s != [] && !s.contains 47 && s != [46] && s != [46, 46]) && (segs.getLast?.getD [] != [])

def ownerOkB (es : List Extract) : Bool :=
  es.all fun e => es.all fun e' =>
    (e.n :: e.hardlinks).all fun k => (e'.n :: e'.hardlinks).all fun k' =>
      !(e.stem == e'.stem && k == k' && e.ext == e'.ext) || e.fromZip == e'.fromZip

def apartB (tmp : Path) (es : List Extract) : Bool :=
  es.all fun e => (e.n :: e.hardlinks).all fun k =>
    (List.range 64).all fun i =>
      let w := resolve (workerDir tmp i)
      let d := resolve (extractDest tmp e.stem k e.ext)
      !w.isPrefixOf d && !d.isPrefixOf w

def handleExtracts (ws : List String) : String :=
  match ws with
  | i :: l :: t :: rest =>
    match C17.parseBool i, C17.parseBool l, parseComps t, parseRArgs rest with
    | some i, some l, some tmp, some rargs =>
      let es := extractsOf ⟨i, l⟩ rargs
      let items := dedupStrings (C17.sortStrings (itemsOf tmp es))
      let ok := es.all (fun e => stemOkB e.stem && !e.ext.contains 47 && !e.ext.contains 46) && ownerOkB es
      joinWith ";" items ++ " ok=" ++ (if ok then "1" else "0")
        ++ " apart=" ++ (if apartB tmp es then "1" else "0")
    | _, _, _, _ => "bad-op"
  | _ => "bad-op"

def handleDest (ws : List String) : String :=
  match ws with
  | [t, s, n, e] =>
    match parseComps t, hexOrDash s, n.toNat?, hexOrDash e with
    | some tmp, some stem, some n, some ext => showSegs (resolve (extractDest tmp stem n ext))
    | _, _, _, _ => "bad-op"
  | _ => "bad-op"

def handleGcovDests (ws : List String) : String :=
  match ws with
  | [t, w, g, e] =>
    match parseComps t, w.toNat?, hexOrDash g, hexOrDash e with
    | some tmp, some w, some g, some e =>
      joinWith ";" ((gcovDests tmp (w, g, e)).map fun d =>
        (if d.kind = .toolWrite then "W:" else "R:") ++ showSegs (resolve d.path))
    | _, _, _, _ => "bad-op"
  | _ => "bad-op"

def handleWalk (ws : List String) : String :=
  match ws with
  | [t, w, ns] =>
    match parseComps t, w.toNat?, (splitList ns ",").mapM fromHex with
    | some tmp, some w, some names => showSegs (resolve (walkEntry (workerDir tmp w) names))
    | _, _, _ => "bad-op"
  | _ => "bad-op"

def handleAlive (ws : List String) : String :=
  match ws with
  | t :: n :: rest =>
    match parseComps t, n.toNat?, parseRArgs rest with
    | some tmp, some threads, some rargs =>
      let ri : RunInput := { tmp := tmp, out := [.normal [111]], threads := threads,
                             extracts := extractsOf ⟨false, false⟩ rargs }
      let left := (alive (dests ri)).filter fun p => (resolve tmp).isPrefixOf p
      toString left.length ++ " of " ++ toString (dests ri).length
    | _, _, _ => "bad-op"
  | _ => "bad-op"

end Grcov.Drv.C19X
