import GrcovModel.Confine
import GrcovModel.Drv.Common
namespace Grcov.Drv
open Grcov.Confine

def parseComps (s : String) : Option Path :=
  (splitList s ",").mapM fun t =>
    if t == "R" then some .root else if t == "C" then some .cur else if t == "P" then some .parent
    else match t.toList with
      | 'N' :: h => (fromHexChars h).map .normal
      | _ => none

/-- `confine.enclosed R,Nxx,P,…` -/
def handleEnclosed : List String → String
  | [p] => match parseComps p with
    | some p => toString (enclosed p)
    | none => "bad-op"
  | [] => toString (enclosed [])
  | _ => "bad-op"

/-- `confine.plain R,Nxx,…` -/
def handlePlain : List String → String
  | [p] => match parseComps p with
    | some p => toString (plain p)
    | none => "bad-op"
  | [] => toString (plain [])
  | _ => "bad-op"

end Grcov.Drv
