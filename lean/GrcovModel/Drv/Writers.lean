import GrcovModel.Writers
import GrcovModel.Drv.Merge
namespace Grcov.Drv
open Grcov Grcov.Writers

def showInts (xs : List Int) : String := joinWith "," (xs.map toString)

/-- `c03.covdir <cov>` → the coverage array -/
def handleCovdirArray : List String → String
  | [c] => match parseCov c with
    | some c => showInts (covdirArray c.lines)
    | none => "bad-op"
  | _ => "bad-op"

/-- `c03.html <nSrc> <cov>` → per-row counts -/
def handleHtmlCounts : List String → String
  | [n, c] => match n.toNat?, parseCov c with
    | some n, some c => showInts (htmlCounts c.lines n)
    | _, _ => "bad-op"
  | _ => "bad-op"

end Grcov.Drv
