/-
Line-protocol handlers for C10 (driver `gm_c10`).

  jacoco <ev> <ev> …      -> ok K<hexpath>=<cov> … (entries sorted as text) | err Parse |
                             err InvalidRecord | panic | diverge
                             (`Jacoco.parse` = `parseCap allocMax`: `panic` is the outcome `alloc`,
                             the "capacity overflow" panic of `vec![true; cb]` / `extend`)
  jacococap <cap> <ev> …  -> the same with `parseCap cap`; `alloc` is printed as `alloc`
                             (panic or allocation abort, depending on the machine)
      <ev> ::= s,<hexname>{,<hexkey>=<hexvalue>}   Start
             | e,<hexname>{,<hexkey>=<hexvalue>}   Empty
             | c,<hexname>                         End
             | t                                   Text
             | o                                   Decl / DocType / Comment / CData / PI
             | x                                   tokenizer error
      the model runs with `enoughFuel` (2·events+1)
  jacocotok <hexbytes>    -> the events `Jacoco.Bytes.events` reads from the bytes, in the <ev> encoding
                             above, blank-separated (`-` for none); an attribute syntax error is the
                             marker `=` (one attribute with empty key and value)
  jacocobytes <hexbytes>  -> `Jacoco.Bytes.parseBytes` in the answer format of `jacoco`
  unescape <hex>          -> some <hex> | none
  parsenum <32|64> <hex>  -> some <n> | none
  isjacoco <hex>          -> 1 | 0   (marker within the first min(256, len) bytes)
-/
import GrcovModel.Jacoco
import GrcovModel.Jacoco.Bytes
import GrcovModel.Drv.Merge
namespace Grcov.Drv
open Grcov Grcov.Jacoco

def parseAttr (s : String) : Option Attr :=
  match s.splitOn "=" with
  | [k, v] => do pure ((← fromHex k), (← fromHex v))
  | _ => none

def parseEvent (s : String) : Option XmlEvent :=
  match s.splitOn "," with
  | ["t"] => some .text
  | ["o"] => some .other
  | ["x"] => some .bad
  | ["c", n] => do pure (.end_ (← fromHex n))
  | "s" :: n :: attrs => do pure (.start (← fromHex n) (← attrs.mapM parseAttr))
  | "e" :: n :: attrs => do pure (.empty (← fromHex n) (← attrs.mapM parseAttr))
  | _ => none

def strLe (a b : String) : Bool := !(b < a)

def showJacoco : Outcome (List (Name × Cov)) → String
  | .ok [] => "ok"
  | .ok rs =>
    let items := rs.map fun (k, c) => s!"K{toHex k}={showCov c}"
    "ok " ++ joinWith " " (items.mergeSort strLe)
  | .err .parse => "err Parse"
  | .err .invalidRecord => "err InvalidRecord"
  | .alloc => "panic"
  | .diverge => "diverge"

def handleJacoco (args : List String) : String :=
  match (args.filter (· ≠ "")).mapM parseEvent with
  | some evs => showJacoco (Jacoco.parse evs (enoughFuel evs))
  | none => "bad-op"

def handleJacocoCap : List String → String
  | c :: args =>
    match c.toNat?, (args.filter (· ≠ "")).mapM parseEvent with
    | some cap, some evs =>
      (match Jacoco.parseCap cap evs (enoughFuel evs) with
       | .alloc => "alloc"
       | o => showJacoco o)
    | _, _ => "bad-op"
  | [] => "bad-op"

def showAttrs (as : List Attr) : String :=
  String.join (as.map fun (k, v) => s!",{toHex k}={toHex v}")

def showEvent : XmlEvent → String
  | .start n a => s!"s,{toHex n}{showAttrs a}"
  | .empty n a => s!"e,{toHex n}{showAttrs a}"
  | .end_ n => s!"c,{toHex n}"
  | .text => "t"
  | .other => "o"
  | .bad => "x"

def optHexArg : List String → Option (List Nat)
  | [] => some []
  | [h] => fromHex h
  | _ => none

def handleUnescape (args : List String) : String :=
  match optHexArg args with
  | some bs => match Jacoco.unescape bs with
    | some r => ("some " ++ toHex r).trimAsciiEnd.toString
    | none => "none"
  | none => "bad-op"

def handleParseNum : List String → String
  | w :: rest =>
    match optHexArg rest with
    | some bs =>
      let bound := if w = "32" then some U32MAX else if w = "64" then some U64MAX else none
      match bound with
      | some b => match Jacoco.parseUnsigned b bs with
        | some n => s!"some {n}"
        | none => "none"
      | none => "bad-op"
    | none => "bad-op"
  | _ => "bad-op"

def handleIsJacoco (args : List String) : String :=
  match optHexArg args with
  | some bs => if Jacoco.isJacoco bs then "1" else "0"
  | none => "bad-op"

def handleJacocoTok (args : List String) : String :=
  match optHexArg args with
  | some bs =>
    match Jacoco.Bytes.events bs with
    | [] => "-"
    | evs => joinWith " " (evs.map showEvent)
  | none => "bad-op"

def handleJacocoBytes (args : List String) : String :=
  match optHexArg args with
  | some bs => showJacoco (Jacoco.Bytes.parseBytes bs)
  | none => "bad-op"

def stepC10 (line : String) : String :=
  match line.trimAscii.toString.splitOn " " with
  | "jacoco" :: args => handleJacoco args
  | "jacococap" :: args => handleJacocoCap args
  | "jacocotok" :: args => handleJacocoTok args
  | "jacocobytes" :: args => handleJacocoBytes args
  | "unescape" :: args => handleUnescape args
  | "parsenum" :: args => handleParseNum args
  | "isjacoco" :: args => handleIsJacoco args
  | _ => "bad-op"

end Grcov.Drv
