/-
Driver ops of C03/C18 part Links (served by `gm_c18`):
  links.serve <L<seg hex>,<seg hex>,…> x<href hex>
      the index page lies in the directory with these names below the output directory (`L` alone:
      the output directory itself); the `href` is the link as an HTML parser hands it over
      -> x<path of the file a server opens, relative to the output directory> Q<x<query>|-> F<x<fragment>|->
         (`Writers.Links.servedPath`, `splitRef`)
  links.fixed x<item hex>   -> x<the file-row link with `urlencode_strict`>  (`fileRowUrlFixed`)
-/
import GrcovModel.Writers.Links
import GrcovModel.Drv.Common
namespace Grcov.Drv.C18Links
open Grcov.Escape Grcov.Drv Grcov.Writers.Links

def unx (s : String) : Option (List Nat) :=
  if s.startsWith "x" then fromHex (s.drop 1).toString else none

def showOpt (pre : String) : Option Bytes → String
  | none => pre ++ "-"
  | some b => pre ++ "x" ++ toHex b

def handleServe : List String → String
  | [l, u] =>
    let loc : Option (List (List Nat)) :=
      if l.startsWith "L" then (splitList (l.drop 1).toString ",").mapM fromHex else none
    match loc, unx u with
    | some loc, some url =>
      let r := splitRef url
      s!"x{toHex (servedPath loc url)} {showOpt "Q" r.query} {showOpt "F" r.fragment}"
    | _, _ => "bad-op"
  | _ => "bad-op"

def handleFixed : List String → String
  | [i] => match unx i with
    | some item => "x" ++ toHex (fileRowUrlFixed item)
    | none => "bad-op"
  | _ => "bad-op"

end Grcov.Drv.C18Links
