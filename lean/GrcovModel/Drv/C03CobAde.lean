/-
Driver ops of C03 part CobAde (served by `gmodel`, lean/Main.lean):

  c03.cob.tree <src> [D<dm>] K<hex>=<cov> …   src = `-` (no source dir) | `S<hex>`; `D…` see Drv/C03FnOrder
      -> `ok <xml>` | `panic`      the element tree of `output_cobertura`, canonical text:
         elem = `(tag k=v k=v child child)`, text = `"<hex>`, v = `x<hex of the value bytes>` | `~`
         (floats and the timestamp); everything in DOCUMENT order – the methods of a class in the
         order the model lists them (`Writers.sortByName`), under their printed names
  c03.cob.stem P<hex>                 -> `<hex>`  class name of a path (`Path::file_stem`)
  c03.ade [D<dm>] K<hex>=<cov> …
      -> `ok <rec> <rec> …` | `panic`   per file one record per function (in the model's listed
         order), then the file record:
         `M<file>|<name>|c,c|u,u|tc|tu`   `F<file>|c,c|u,u|tc|tu|oc,oc|ou,ou|otc|otu`
-/
import GrcovModel.Writers.CobAde
import GrcovModel.Drv.Merge
import GrcovModel.Drv.C03FnOrder
namespace Grcov.Drv.CobAde
open Grcov Grcov.Drv Grcov.Stats Grcov.Writers.CobAde

def strBytes (s : String) : List Nat := s.toUTF8.toList.map (·.toNat)

def showAttrV : AttrV → String
  | .bytes v => "x" ++ toHex v
  | .nat n => "x" ++ toHex (strBytes (toString n))
  | .lit s => "x" ++ toHex (strBytes s)
  | .masked => "~"

def showAttrs (as : List (String × AttrV)) : String :=
  String.join (as.map fun (k, v) => " " ++ k ++ "=" ++ showAttrV v)

mutual
def showXml : Xml → String
  | .elem t as cs => "(" ++ t ++ showAttrs as ++ showXmls cs ++ ")"
  | .text v => "\"" ++ toHex v
def showXmls : List Xml → String
  | [] => ""
  | x :: xs => " " ++ showXml x ++ showXmls xs
end

def parseEntries (entries : List String) : Option (List (Name × Cov)) :=
  entries.mapM fun e =>
    if e.startsWith "K" then
      match (e.drop 1).toString.splitOn "=" with
      | [k, cov] => do
        let c ← parseCov cov
        pure ((← fromHex k), c)
      | _ => none
    else none

def parseSrc (s : String) : Option (Option Name) :=
  if s = "-" then some none
  else if s.startsWith "S" then (fromHex (s.drop 1).toString).map some
  else none

def handleCobTree : List String → String
  | src :: args =>
    match Grcov.Drv.FnOrder.takeDm args with
    | some (dm, entries) =>
      match parseSrc src, parseEntries entries with
      | some src, some rs =>
        match Grcov.Writers.FnOrder.cobertura dm src rs with
        | .ok d => "ok " ++ showXml (toXml d)
        | .panic _ => "panic"
      | _, _ => "bad-op"
    | none => "bad-op"
  | _ => "bad-op"

def handleCobStem : List String → String
  | [p] => match (if p.startsWith "P" then fromHex (p.drop 1).toString else none) with
    | some p => toHex (className p)
    | none => "bad-op"
  | _ => "bad-op"

def showNats (xs : List Nat) : String := joinWith "," (xs.map toString)

def showAdeLists (l : AdeLists) : String :=
  s!"{showNats l.covered}|{showNats l.uncovered}|{l.totalCovered}|{l.totalUncovered}"

def showAdeRecord : AdeRecord → String
  | .method f n m => s!"M{toHex f}|{toHex n}|{showAdeLists m}"
  | .file f l o => s!"F{toHex f}|{showAdeLists l}|{showAdeLists o}"

def handleAde (args : List String) : String :=
  match Grcov.Drv.FnOrder.takeDm args with
  | some (dm, entries) =>
    match parseEntries entries with
    | some rs =>
      match Grcov.Writers.FnOrder.ade dm rs with
      | .ok recs => joinWith " " ("ok" :: recs.map showAdeRecord)
      | .panic _ => "panic"
    | none => "bad-op"
  | none => "bad-op"

end Grcov.Drv.CobAde
