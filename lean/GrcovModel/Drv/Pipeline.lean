/-
Trace validation for C02/C07: decide whether the per-thread event sequences logged by the hooked
grcov binary are jointly realisable by a run of the `Pipeline` model (cross-thread order in the
log is not trusted: only each thread's own program order and the FIFO queue – with one exception,
the capacity bound below, which uses the order of `send` and `recv` log lines in a sound way).

Worker events: `r<i>` recv of item i, `m<i>` merged, `x<i>` rejected, `d<i>` died holding i,
`s` stop marker, `e` exit, and – when the hooks log them – `l` (the result-map mutex acquired),
`u` (about to be released), `D` (the thread died while it held no item), `M` (the thread died INSIDE
`add_results`, after its `l`: the hook `panic_in_merge`; the mutex is poisoned from then on). A
worker that has received an item, whose parse succeeds, and that then finds the mutex poisoned dies
in `lock().unwrap()` without logging anything: the silent move `parsed · lock` of a worker whose
logged events are used up, enabled only when `s.poisoned`. Without `l`/`u` events
an `m<i>` stands for the whole sequence parsed · lock · mergeEntry* · unlock of that worker, done
in one go (the mutex is then free between any two logged events). With them, `l` = parsed · lock,
`u` = mergeEntry* · unlock, and `m<i>` must follow the `u` of item i: two workers whose
lock…unlock sections overlap, or a batch written under more than one lock/unlock pair, have no
realisation.
-/
import GrcovModel.Pipeline
import GrcovModel.Drv.Common
namespace Grcov.Drv
open Grcov.Pipeline

inductive WEv where
  | recv (i : Item) | merged (i : Item) | rejected (i : Item) | died (i : Item) | stop | exit
  | lockEv | unlockEv | diedIdle | diedMerging
deriving Repr

inductive MEv where
  | joined | stopSend | workerJoined
deriving Repr

structure RState where
  s : State
  prod : List Item
  ws : List (List WEv)
  mainEvs : List MEv
  /-- items the producer never attempted: if > 0 its last logged send must have failed, or the
  producer died for another reason (`prodDies`) -/
  unsent : Nat := 0
  /-- the producer thread panicked (not through a failed send) after its last logged send -/
  prodDies : Bool := false
  steps : Nat := 0
  /-- the process was cut short by `process::exit(1)` in main: a worker whose logged events are
  used up may have taken one more element from the queue without reaching its log call -/
  ghost : Bool := false
  ghosted : List Nat := []
  /-- (worker, item) pairs unlocked but whose `merged` event was not consumed yet -/
  unlocked : List (Nat × Item) := []
  /-- the log carries lock/unlock events: then every `merged` must be preceded by its own pair -/
  lockEvents : Bool := false

def fateOf (ws : List (List WEv)) (x : Item) : Fate :=
  if ws.any (fun evs => evs.any fun e => match e with | .rejected i => i == x | _ => false) then .reject
  else if ws.any (fun evs => evs.any fun e => match e with | .died i => i == x | _ => false) then .die
  else .ok

/-- the trace carries no batch sizes: every batch has one entry -/
def size1 : Item → Nat := fun _ => 1

/-- apply the steps in turn; `none` when one of them is not enabled -/
def applyAll (fate : Item → Fate) (s : State) : List Step → Option State
  | [] => some s
  | st :: rest => if enabled size1 s st then applyAll fate (step fate s st) rest else none

def isMergingW : W → Bool
  | .merging _ _ => true
  | _ => false

/-- every move that consumes the next logged event of some thread and is enabled in the model -/
def movesAll (fate : Item → Fate) (r : RState) : List RState :=
  let s := r.s
  let p : List RState :=
    match r.prod with
    | i :: rest =>
      if s.todo.head? == some i && enabled size1 s .prodSend
          && (!(rest.isEmpty && r.unsent > 0) || !receiversAlive s || r.prodDies) then
        [{ r with s := step fate s .prodSend, prod := rest, steps := r.steps + 1 }] else []
    | [] =>
      if r.prodDies then
        (if enabled size1 s .prodDies then [{ r with s := step fate s .prodDies, steps := r.steps + 1 }] else [])
      else if enabled size1 s .prodExit then [{ r with s := step fate s .prodExit, steps := r.steps + 1 }] else []
  let m : List RState :=
    match r.mainEvs with
    | .joined :: rest =>
      if s.mainPc == .joinProd && enabled size1 s .main then
        [{ r with s := step fate s .main, mainEvs := rest, steps := r.steps + 1 }] else []
    | .stopSend :: rest =>
      match s.mainPc with
      | .stops k => if k < s.n && enabled size1 s .main then
          [{ r with s := step fate s .main, mainEvs := rest, steps := r.steps + 1 }] else []
      | _ => []
    | .workerJoined :: rest =>
      match s.mainPc with
      | .stops k => -- the silent step `stops n → joinWorkers 0`
        if k ≥ s.n && enabled size1 s .main then [{ r with s := step fate s .main, steps := r.steps + 1 }] else []
      | .joinWorkers i =>
        if i < s.n && enabled size1 s .main && (s.workers.getD i .exited) == .exited then
          [{ r with s := step fate s .main, mainEvs := rest, steps := r.steps + 1 }] else []
      | _ => []
    | [] => []
  let rec ws (k : Nat) (pre : List (List WEv)) (post : List (List WEv)) : List RState :=
    match post with
    | [] => []
    | evs :: post' =>
      let adv (s' : State) (evs' : List WEv) (n : Nat) : RState :=
        { r with s := s', ws := pre ++ [evs'] ++ post', steps := r.steps + n }
      let next : List RState :=
        match evs with
        | .recv i :: evs' =>
          if enabled size1 s (.recv k) && s.queue.head? == some (some i) then
            [adv (step fate s (.recv k)) evs' 1] else []
        | .stop :: evs' =>
          if enabled size1 s (.recv k) && s.queue.head? == some none then
            [adv (step fate s (.recv k)) evs' 1] else []
        | .merged i :: evs' =>
          if !r.lockEvents && s.workers.getD k .exited == .holding i && fate i == .ok then
            match applyAll fate s [.parsed k, .lock k, .mergeEntry k, .unlock k] with
            | some s' => if s'.workers.getD k .exited == .idle then [adv s' evs' 4] else []
            | none => []
          else if s.workers.getD k .exited == .idle && r.unlocked.contains (k, i) then
            [{ adv s evs' 0 with unlocked := r.unlocked.erase (k, i) }]
          else []
        | .lockEv :: evs' =>
          match s.workers.getD k .exited with
          | .holding i =>
            if fate i == .ok then
              match applyAll fate s [.parsed k, .lock k] with
              | some s' => if (match s'.workers.getD k .exited with | .merging _ _ => true | _ => false)
                  then [adv s' evs' 2] else []
              | none => []
            else []
          | _ => []
        | .unlockEv :: evs' =>
          match s.workers.getD k .exited with
          | .merging i _ =>
            match applyAll fate s [.mergeEntry k, .unlock k] with
            | some s' => [{ adv s' evs' 2 with unlocked := (k, i) :: r.unlocked }]
            | none => []
          | _ => []
        | .rejected i :: evs' =>
          if enabled size1 s (.parsed k) && s.workers.getD k .exited == .holding i && fate i == .reject then
            [adv (step fate s (.parsed k)) evs' 1] else []
        | .died i :: evs' =>
          if enabled size1 s (.parsed k) && s.workers.getD k .exited == .holding i && fate i == .die then
            [adv (step fate s (.parsed k)) evs' 1] else []
        | .diedIdle :: evs' =>
          if enabled size1 s (.workerDies k) && s.workers.getD k .exited == .idle then
            [adv (step fate s (.workerDies k)) evs' 1] else []
        | .diedMerging :: evs' =>
          -- `died_in_merge` is logged after `lock`: the worker is inside `add_results`
          if enabled size1 s (.workerDies k) && isMergingW (s.workers.getD k .exited) then
            [adv (step fate s (.workerDies k)) evs' 1] else []
        | .exit :: evs' =>
          if s.workers.getD k .idle == .exited then [adv s evs' 0] else []
        | [] =>
          (if r.ghost && !r.ghosted.contains k && enabled size1 s (.recv k) then
            [{ r with s := step fate s (.recv k), ghosted := k :: r.ghosted, steps := r.steps + 1 }] else [])
          ++
          -- the mutex is poisoned: `lock().unwrap()` panics, nothing is logged
          (match s.workers.getD k .exited with
           | .holding i =>
             if s.poisoned && fate i == .ok then
               match applyAll fate s [.parsed k, .lock k] with
               | some s' => if s'.workers.getD k .exited == .dead then [adv s' [] 2] else []
               | none => []
             else []
           | _ => [])
      next ++ ws (k + 1) (pre ++ [evs]) post'
  p ++ ws 0 [] r.ws ++ m

def keyOf (r : RState) : String :=
  s!"{r.prod.length}/{r.mainEvs.length}/{r.ws.map List.length}/{repr r.s.mainPc}/{r.s.prodDead}/{r.s.prodDone}/{r.s.queue.length}/{r.ghosted}/{r.s.owner}/{r.unlocked.length}/{r.s.poisoned}/{r.s.lost.length}"

def allConsumed (r : RState) : Bool := r.prod.isEmpty && r.ws.all List.isEmpty && r.mainEvs.isEmpty

/-- silent tail once every logged event is consumed: a producer death that was announced, then
main's own steps -/
def finishMain (fate : Item → Fate) : Nat → State → State
  | 0, s => s
  | fuel + 1, s => if !terminal s && enabled size1 s .main then finishMain fate fuel (step fate s .main) else s

/-- depth-first search for a realisation of the per-thread event sequences by a model run. With
`expect = some c` (request token `E:<c>`: the exit status of the real process) a realisation counts
only if the model run ends with that status: which of two silent orders happened (the producer's
last announced send fails because the last worker has just died on the poisoned mutex, or succeeds
just before) is not in the log, the exit status decides. -/
def replayLog (fate : Item → Fate) (expect : Option Nat) : Nat → List RState → List String → String
  | 0, _, _ => "rejected fuel"
  | _, [], seen => s!"rejected no-realisation explored={seen.length}"
  | fuel + 1, r :: stack, seen =>
    let key := keyOf r
    if allConsumed r && !(r.prodDies && enabled size1 r.s .prodDies) then
      let s := finishMain fate (2 * r.s.n + 4) r.s
      let code := match s.mainPc with | .done c => s!"exit={c}" | _ => if stuck size1 s then "stuck" else "running"
      let good : Bool := match expect with
        | none => true
        | some c => s.mainPc == .done c
      if good then
        let merged := (s.merged.mergeSort (· ≤ ·)).map toString
        s!"accepted {code} merged={joinWith "," merged} steps={r.steps}"
      else if seen.contains key then replayLog fate expect fuel stack seen
      else replayLog fate expect fuel (movesAll fate r ++ stack) (key :: seen)
    else
      if seen.contains key then replayLog fate expect fuel stack seen
      else replayLog fate expect fuel (movesAll fate r ++ stack) (key :: seen)

def parseWEv (t : String) : Option WEv :=
  if t == "s" then some .stop else if t == "e" then some .exit
  else if t == "l" then some .lockEv else if t == "u" then some .unlockEv
  else if t == "D" then some .diedIdle
  else if t == "M" then some .diedMerging
  else match t.toList with
    | 'r' :: ds => (String.ofList ds).toNat?.map .recv
    | 'm' :: ds => (String.ofList ds).toNat?.map .merged
    | 'x' :: ds => (String.ofList ds).toNat?.map .rejected
    | 'd' :: ds => (String.ofList ds).toNat?.map .died
    | _ => none

def parseMEv (t : String) : Option MEv :=
  if t == "j" then some .joined else if t == "t" then some .stopSend
  else if t == "w" then some .workerJoined else none

/-- Capacity of the queue, from the order of the log lines of the producer's `send` events (written
BEFORE the send) and the workers' `recv` events (written AFTER the receive). When the k-th `send`
line is written the k-1 earlier sends have returned, so at most `cap` of those items are still in
the channel; every other one was received, and all but at most one per worker of those receives
have already been logged. Hence (k-1) - (recv lines so far) ≤ cap + n. Returns the largest value
of the left-hand side. -/
def maxBacklog (order : List Char) : Nat :=
  (order.foldl (fun (acc : Nat × Nat × Nat) c =>
    let (sends, recvs, mx) := acc
    if c == 's' then (sends + 1, recvs, max mx (sends - recvs))
    else if c == 'r' then (sends, recvs + 1, mx)
    else acc) (0, 0, 0)).2.2

/-- Mutual exclusion from the order of the `lock` / `unlock` log lines of all consumers (`X:0l,0u,1l,…`):
both lines are written while the mutex is held, so a section must be closed by its own worker
before any other opens. `none` = fine, `some k` = position of the offending event. -/
def lockOrderViolation (evs : List String) : Option Nat :=
  let rec go (i : Nat) (held : Option String) : List String → Option Nat
    | [] => none
    | e :: rest =>
      let w := String.ofList e.toList.dropLast
      if e.endsWith "l" then
        (match held with
         | none => go (i + 1) (some w) rest
         | some _ => some i)
      else
        (match held with
         | some h => if h == w then go (i + 1) none rest else some i
         | none => some i)
  go 0 none evs

/-- `pipe.replay <n> <rxMain 0|1> P:1,2,3 M:j,t,t,w,w W:r1,m1,s,e W:r2,m2,s,e [O:ssrsr…] [X:0l,0u,…] [PD] [G] [E:<status>]`;
`E:<status>`: only a realisation that ends with this exit status counts;
`O:` is the order of send/recv log lines (capacity check), `PD` says the producer thread panicked
after its last logged send (not through a failed send), a trailing `G` says the process ended
through `process::exit(1)` while workers were still running -/
def handlePipeReplay : List String → String
  | n :: rx :: p :: m :: ws =>
    let go : Option String := do
      let n ← n.toNat?
      guard (p.startsWith "P:" ∧ m.startsWith "M:")
      -- `P:1,2,3+2`: three logged send attempts, two more items the producer never got to
      let (plist, extra) ← match (p.drop 2).toString.splitOn "+" with
        | [a] => some (a, 0)
        | [a, b] => b.toNat?.map fun k => (a, k)
        | _ => none
      let prod ← (splitList plist ",").mapM String.toNat?
      let unsent := (List.range extra).map fun i => 1000000 + i
      let mevs ← (splitList (m.drop 2).toString ",").mapM parseMEv
      let ghost := ws.contains "G"
      let pd := ws.contains "PD"
      let order := ws.find? (·.startsWith "O:")
      let allToks := ws
      let ws := ws.filter fun t => t.startsWith "W:"
      let wevs ← ws.mapM fun w => (splitList (w.drop 2).toString ",").mapM parseWEv
      guard (wevs.length = n)
      let backlog := match order with | some o => maxBacklog (o.drop 2).toString.toList | none => 0
      let lockViolation := match allToks.find? (·.startsWith "X:") with
        | some x => lockOrderViolation (splitList (x.drop 2).toString ",")
        | none => none
      if backlog > 2 * n + n then
        pure s!"rejected capacity backlog={backlog} bound={2 * n + n}"
      else if let some k := lockViolation then
        pure s!"rejected mutex overlapping-lock-sections at={k}"
      else
        let fate := fateOf wevs
        let s0 := init n (rx == "1") (prod ++ unsent)
        let expect : Option Nat :=
          (allToks.find? (·.startsWith "E:")).bind (fun t => (t.drop 2).toString.toNat?)
        let r0 : RState :=
          { s := s0, prod := prod, ws := wevs, mainEvs := mevs, unsent := extra, prodDies := pd,
            ghost := ghost, lockEvents := allToks.any (·.startsWith "X:") }
        pure (replayLog fate expect 200000 [r0] [])
    go.getD "bad-op"
  | _ => "bad-op"

/-- `pipe.stuck <n> <rxMain> <items> <die-set> [F]`: exhaustive search of the model's reachable
states for a stuck non-terminal state or (with `F`: the injected faults `prodDies` and
`workerDies w` are explored too) an exit status 0 after a death (bounded instances; used for
replays/witnesses) -/
def handlePipeStuck : List String → String
  | n :: rx :: items :: dies :: opt =>
    let go : Option String := do
      let n ← n.toNat?
      let items ← (splitList items ",").mapM String.toNat?
      let dies ← (splitList dies ",").mapM String.toNat?
      let faults := opt == ["F"]
      guard (opt == [] || faults)
      let fate : Item → Fate := fun x => if dies.contains x then .die else .ok
      let faultSteps (s : State) : List Step :=
        if faults then Step.prodDies :: (List.range s.n).map Step.workerDies else []
      let bad (s : State) : Bool :=
        s.mainPc == .done 0 && (s.prodDead || s.poisoned || s.workers.any (· == .dead))
      let rec bfs (fuel : Nat) (frontier : List State) (seen : List State) : String :=
        match fuel with
        | 0 => s!"no-stuck-state-found seen={seen.length} (fuel)"
        | fuel + 1 =>
          match frontier with
          | [] => s!"no-stuck-state seen={seen.length}"
          | s :: rest =>
            if seen.contains s then bfs fuel rest seen
            else if stuck size1 s then s!"stuck todo={s.todo.length} queue={s.queue.length} seen={seen.length}"
            else if bad s then s!"exit0-after-death seen={seen.length}"
            else
              let succs := (allSteps s ++ faultSteps s).filterMap fun st =>
                if enabled size1 s st then some (step fate s st) else none
              bfs fuel (rest ++ succs) (s :: seen)
      pure (bfs 200000 [init n (rx == "1") items] [])
    go.getD "bad-op"
  | _ => "bad-op"

end Grcov.Drv
