/-
Trace validation for C02/C07: decide whether the per-thread event sequences logged by the hooked
grcov binary are jointly realisable by a run of the `Pipeline` model (cross-thread order in the
log is not trusted: only each thread's own program order and the FIFO queue).
-/
import GrcovModel.Pipeline
import GrcovModel.Drv.Common
namespace Grcov.Drv
open Grcov.Pipeline

inductive WEv where
  | recv (i : Item) | merged (i : Item) | rejected (i : Item) | died (i : Item) | stop | exit
deriving Repr

inductive MEv where
  | joined | stopSend | workerJoined
deriving Repr

structure RState where
  s : State
  prod : List Item
  ws : List (List WEv)
  mainEvs : List MEv
  /-- items the producer never attempted: if > 0 its last logged send must have failed -/
  unsent : Nat := 0
  steps : Nat := 0
  /-- the process was cut short by `process::exit(1)` in main: a worker whose logged events are
  used up may have taken one more element from the queue without reaching its log call -/
  ghost : Bool := false
  ghosted : List Nat := []

def fateOf (ws : List (List WEv)) (x : Item) : Fate :=
  if ws.any (fun evs => evs.any fun e => match e with | .rejected i => i == x | _ => false) then .reject
  else if ws.any (fun evs => evs.any fun e => match e with | .died i => i == x | _ => false) then .die
  else .ok

/-- every move that consumes the next logged event of some thread and is enabled in the model -/
def movesAll (fate : Item → Fate) (r : RState) : List RState :=
  let s := r.s
  let p : List RState :=
    match r.prod with
    | i :: rest =>
      if s.todo.head? == some i && enabled s .prodSend
          && (!(rest.isEmpty && r.unsent > 0) || !receiversAlive s) then
        [{ r with s := step fate s .prodSend, prod := rest, steps := r.steps + 1 }] else []
    | [] => if enabled s .prodExit then [{ r with s := step fate s .prodExit, steps := r.steps + 1 }] else []
  let m : List RState :=
    match r.mainEvs with
    | .joined :: rest =>
      if s.mainPc == .joinProd && enabled s .main then
        [{ r with s := step fate s .main, mainEvs := rest, steps := r.steps + 1 }] else []
    | .stopSend :: rest =>
      match s.mainPc with
      | .stops k => if k < s.n && enabled s .main then
          [{ r with s := step fate s .main, mainEvs := rest, steps := r.steps + 1 }] else []
      | _ => []
    | .workerJoined :: rest =>
      match s.mainPc with
      | .stops k => -- the silent step `stops n → joinWorkers 0`
        if k ≥ s.n && enabled s .main then [{ r with s := step fate s .main, steps := r.steps + 1 }] else []
      | .joinWorkers i =>
        if i < s.n && enabled s .main && (s.workers.getD i .exited) == .exited then
          [{ r with s := step fate s .main, mainEvs := rest, steps := r.steps + 1 }] else []
      | _ => []
    | [] => []
  let rec ws (k : Nat) (pre : List (List WEv)) (post : List (List WEv)) : List RState :=
    match post with
    | [] => []
    | evs :: post' =>
      let next : List RState :=
        match evs with
        | .recv i :: evs' =>
          if enabled s (.recv k) && s.queue.head? == some (some i) then
            [{ r with s := step fate s (.recv k), ws := pre ++ [evs'] ++ post', steps := r.steps + 1 }] else []
        | .stop :: evs' =>
          if enabled s (.recv k) && s.queue.head? == some none then
            [{ r with s := step fate s (.recv k), ws := pre ++ [evs'] ++ post', steps := r.steps + 1 }] else []
        | .merged i :: evs' =>
          if enabled s (.finish k) && s.workers.getD k .exited == .holding i && fate i == .ok then
            [{ r with s := step fate s (.finish k), ws := pre ++ [evs'] ++ post', steps := r.steps + 1 }] else []
        | .rejected i :: evs' =>
          if enabled s (.finish k) && s.workers.getD k .exited == .holding i && fate i == .reject then
            [{ r with s := step fate s (.finish k), ws := pre ++ [evs'] ++ post', steps := r.steps + 1 }] else []
        | .died i :: evs' =>
          if enabled s (.finish k) && s.workers.getD k .exited == .holding i && fate i == .die then
            [{ r with s := step fate s (.finish k), ws := pre ++ [evs'] ++ post', steps := r.steps + 1 }] else []
        | .exit :: evs' =>
          if s.workers.getD k .idle == .exited then [{ r with ws := pre ++ [evs'] ++ post' }] else []
        | [] =>
          if r.ghost && !r.ghosted.contains k && enabled s (.recv k) then
            [{ r with s := step fate s (.recv k), ghosted := k :: r.ghosted, steps := r.steps + 1 }] else []
      next ++ ws (k + 1) (pre ++ [evs]) post'
  p ++ ws 0 [] r.ws ++ m

def keyOf (r : RState) : String :=
  s!"{r.prod.length}/{r.mainEvs.length}/{r.ws.map List.length}/{repr r.s.mainPc}/{r.s.prodDead}/{r.s.prodDone}/{r.s.queue.length}/{r.ghosted}"

def allConsumed (r : RState) : Bool := r.prod.isEmpty && r.ws.all List.isEmpty && r.mainEvs.isEmpty

/-- silent tail of main once every logged event is consumed -/
def finishMain (fate : Item → Fate) : Nat → State → State
  | 0, s => s
  | fuel + 1, s => if !terminal s && enabled s .main then finishMain fate fuel (step fate s .main) else s

/-- depth-first search for a realisation of the per-thread event sequences by a model run -/
def replayLog (fate : Item → Fate) : Nat → List RState → List String → String
  | 0, _, _ => "rejected fuel"
  | _, [], seen => s!"rejected no-realisation explored={seen.length}"
  | fuel + 1, r :: stack, seen =>
    if allConsumed r then
      let s := finishMain fate (2 * r.s.n + 4) r.s
      let code := match s.mainPc with | .done c => s!"exit={c}" | _ => if stuck s then "stuck" else "running"
      let merged := (s.merged.mergeSort (· ≤ ·)).map toString
      s!"accepted {code} merged={joinWith "," merged} steps={r.steps}"
    else
      let key := keyOf r
      if seen.contains key then replayLog fate fuel stack seen
      else replayLog fate fuel (movesAll fate r ++ stack) (key :: seen)

def parseWEv (t : String) : Option WEv :=
  if t == "s" then some .stop else if t == "e" then some .exit
  else match t.toList with
    | 'r' :: ds => (String.ofList ds).toNat?.map .recv
    | 'm' :: ds => (String.ofList ds).toNat?.map .merged
    | 'x' :: ds => (String.ofList ds).toNat?.map .rejected
    | 'd' :: ds => (String.ofList ds).toNat?.map .died
    | _ => none

def parseMEv (t : String) : Option MEv :=
  if t == "j" then some .joined else if t == "t" then some .stopSend
  else if t == "w" then some .workerJoined else none

/-- `pipe.replay <n> <rxMain 0|1> P:1,2,3 M:j,t,t,w,w W:r1,m1,s,e W:r2,m2,s,e [G]`; a trailing `G`
says the process ended through `process::exit(1)` while workers were still running -/
def handlePipeReplay : List String → String
  | n :: rx :: p :: m :: ws =>
    let go : Option String := do
      let n ← n.toNat?
      guard (p.startsWith "P:" ∧ m.startsWith "M:")
      -- `P:1,2,3+2`: three logged send attempts, two more items the producer never got to
      let (plist, extra) ← match (p.drop 2).toString.splitOn "+" with
        | [a] => some (a, 0)
        | [a, b] => b.toNat?.map fun k => (a, k)
        | _ => none
      let prod ← (splitList plist ",").mapM String.toNat?
      let unsent := (List.range extra).map fun i => 1000000 + i
      let mevs ← (splitList (m.drop 2).toString ",").mapM parseMEv
      let ghost := ws.getLast? == some "G"
      let ws := if ghost then ws.dropLast else ws
      let wevs ← ws.mapM fun w => do
        guard (w.startsWith "W:")
        (splitList (w.drop 2).toString ",").mapM parseWEv
      guard (wevs.length = n)
      let fate := fateOf wevs
      let s0 := init n (rx == "1") (prod ++ unsent)
      pure (replayLog fate 200000 [{ s := s0, prod := prod, ws := wevs, mainEvs := mevs, unsent := extra, ghost := ghost }] [])
    go.getD "bad-op"
  | _ => "bad-op"

/-- `pipe.explore <n> <rxMain> <items> <die-set> <reject-set>`: exhaustive search of the model's
reachable states for a stuck non-terminal state (bounded instances; used for replays/witnesses) -/
def handlePipeStuck : List String → String
  | [n, rx, items, dies] =>
    let go : Option String := do
      let n ← n.toNat?
      let items ← (splitList items ",").mapM String.toNat?
      let dies ← (splitList dies ",").mapM String.toNat?
      let fate : Item → Fate := fun x => if dies.contains x then .die else .ok
      let rec bfs (fuel : Nat) (frontier : List State) (seen : Nat) : String :=
        match fuel with
        | 0 => s!"no-stuck-state-found seen={seen} (fuel)"
        | fuel + 1 =>
          match frontier with
          | [] => s!"no-stuck-state seen={seen}"
          | s :: rest =>
            if stuck s then s!"stuck todo={s.todo.length} queue={s.queue.length} seen={seen}"
            else
              let succs := (allSteps s).filterMap fun st => if enabled s st then some (step fate s st) else none
              bfs fuel (rest ++ succs) (seen + 1)
      pure (bfs 200000 [init n (rx == "1") items] 0)
    go.getD "bad-op"
  | _ => "bad-op"

end Grcov.Drv
