/-
Line-protocol handlers of the C18 driver `gm_c18`. Byte strings travel as `x<hex>` (so that the
empty string is a visible token).

  xmlattr|xmltext|xmlpartial|json|html x<hex>   -> x<hex>              (the encoders)
  unxml|unjson x<hex>                            -> ok x<hex> | err     (the decoders)
  scanattr|scanxmltext|scanhtmlattr|scanhtmltext|scanjson x<hex>
                                                 -> ok x<value> x<rest> | err
  scheme x<url>                                  -> x31 | x30           (hasScheme)
  dirrow|filerow <x<prefix>|-> x<item>           -> x<escaped href of an index row>
  bc <x<prefix>|-> x<parent> <depth>             -> x<top-level item> x<parent item>
                                                    (the two breadcrumb `<li>` of a file page)
  sink title|current x<name>                     -> x<fragment>  (`titleFrag`, `currentItem`)
  sink row x<url> x<name>                        -> x<fragment>  (`rowLink`)
  sink pre x<class word> x<source line>          -> x<fragment>  (`preLine`)
  sink dirrow|filerow <x<prefix>|-> x<item>      -> x<fragment>  (`rowLink` of `dirRowUrl` / `fileRowUrl`)
  dirurl|fileurl <x<prefix>|-> x<item>           -> x<unescaped link>  (`dirRowUrl`, `fileRowUrl`)
  guards x<hex>                                  -> <printable><noCtl><textSafe> x<metaOf>   (three 0/1 digits:
                                                    the guards of the reader theorems; the markup skeleton)
  entities xml|html                              -> x<entity> x<entity> …   (`xmlEntities`, `htmlEntities`)
-/
import GrcovModel.Escape
import GrcovModel.Drv.Common
import GrcovModel.Drv.C18Links
namespace Grcov.Drv.C18
open Grcov.Escape Grcov.Drv

/-- tail-recursive hex decoder (names can be very long) -/
def unhexLoop : List Char → Array Nat → Option (List Nat)
  | [], acc => some acc.toList
  | [_], _ => none
  | a :: b :: rest, acc =>
    match Grcov.Drv.hexVal a, Grcov.Drv.hexVal b with
    | some x, some y => unhexLoop rest (acc.push (x * 16 + y))
    | _, _ => none

def arg (s : String) : Option Bytes :=
  if s.startsWith "x" then unhexLoop (s.drop 1).toString.toList #[] else none

def out (bs : Bytes) : String := "x" ++ toHex bs

def enc (f : Bytes → Bytes) : List String → String
  | [a] => match arg a with
    | some s => out (f s)
    | none => "bad-op"
  | _ => "bad-op"

def dec (f : Bytes → Option Bytes) : List String → String
  | [a] => match arg a with
    | some s => match f s with
      | some v => "ok " ++ out v
      | none => "err"
    | none => "bad-op"
  | _ => "bad-op"

def scan (f : Bytes → Option (Bytes × Bytes)) : List String → String
  | [a] => match arg a with
    | some s => match f s with
      | some (v, r) => "ok " ++ out v ++ " " ++ out r
      | none => "err"
    | none => "bad-op"
  | _ => "bad-op"

/-- `top_level` -/
def topLabel : Bytes := [116, 111, 112, 95, 108, 101, 118, 101, 108]

def handleBc : List String → String
  | [p, parent, depth] =>
    let pre : Option (Option Bytes) := if p = "-" then some none else (arg p).map some
    match pre, arg parent, depth.toNat? with
    | some pre, some parent, some d =>
      out (breadcrumbItem (fileTopLink pre d) topLabel) ++ " " ++
        out (breadcrumbItem (fileParentLink pre parent) parent)
    | _, _, _ => "bad-op"
  | _ => "bad-op"

/-- `dirrow|filerow <x<prefix>|-> x<item>`: the row link as it stands in the page (escaped) -/
def handleRow (f : Option Bytes → Bytes → Bytes) : List String → String
  | [p, item] =>
    let pre : Option (Option Bytes) := if p = "-" then some none else (arg p).map some
    match pre, arg item with
    | some pre, some item => out (html (f pre item))
    | _, _ => "bad-op"
  | _ => "bad-op"

/-- the sinks of the templates -/
def handleSink : List String → String
  | ["title", n] => match arg n with
    | some n => out (titleFrag n)
    | none => "bad-op"
  | ["current", n] => match arg n with
    | some n => out (currentItem n)
    | none => "bad-op"
  | ["row", u, n] => match arg u, arg n with
    | some u, some n => out (rowLink u n)
    | _, _ => "bad-op"
  | ["pre", c, t] => match arg c, arg t with
    | some c, some t => out (preLine c t)
    | _, _ => "bad-op"
  | [kind, p, item] =>
    let pre : Option (Option Bytes) := if p = "-" then some none else (arg p).map some
    match kind, pre, arg item with
    | "dirrow", some pre, some item => out (rowLink (dirRowUrl pre item) item)
    | "filerow", some pre, some item => out (rowLink (fileRowUrl pre item) item)
    | _, _, _ => "bad-op"
  | _ => "bad-op"

/-- `dirurl|fileurl <x<prefix>|-> x<item>`: the row link before escaping -/
def handleUrl (f : Option Bytes → Bytes → Bytes) : List String → String
  | [p, item] =>
    let pre : Option (Option Bytes) := if p = "-" then some none else (arg p).map some
    match pre, arg item with
    | some pre, some item => out (f pre item)
    | _, _ => "bad-op"
  | _ => "bad-op"

/-- the guards of the reader theorems and the markup skeleton (review 2, item 33: they occur in theorem
statements, so they are tied like every other executable definition) -/
def handleGuards : List String → String
  | [a] => match arg a with
    | some s =>
      let b := fun (x : Bool) => if x then "1" else "0"
      b (printable s) ++ b (noCtl s) ++ b (textSafe s) ++ " " ++ out (metaOf s)
    | none => "bad-op"
  | _ => "bad-op"

def handleEntities : List String → String
  | ["xml"] => joinWith " " (xmlEntities.map out)
  | ["html"] => joinWith " " (htmlEntities.map out)
  | _ => "bad-op"

def step (line : String) : String :=
  match line.trimAscii.toString.splitOn " " with
  | "xmlattr" :: args => enc xmlAttr args
  | "xmltext" :: args => enc xmlText args
  | "xmlpartial" :: args => enc xmlPartial args
  | "json" :: args => enc jsonStr args
  | "html" :: args => enc html args
  | "unxml" :: args => dec unescapeEnt args
  | "unjson" :: args => dec jsonUnescape args
  | "scanattr" :: args => scan scanAttr args
  | "scanxmltext" :: args => scan scanXmlText args
  | "scanhtmlattr" :: args => scan scanHtmlAttr args
  | "scanhtmltext" :: args => scan scanHtmlText args
  | "scanjson" :: args => scan (scanJson []) args
  | "bc" :: args => handleBc args
  | "dirrow" :: args => handleRow dirRowUrl args
  | "filerow" :: args => handleRow fileRowUrl args
  | "sink" :: args => handleSink args
  | "dirurl" :: args => handleUrl dirRowUrl args
  | "fileurl" :: args => handleUrl fileRowUrl args
  | "guards" :: args => handleGuards args
  | "entities" :: args => handleEntities args
  | "scheme" :: args => enc (fun u => if hasScheme u then [49] else [48]) args
  | "links.serve" :: args => Grcov.Drv.C18Links.handleServe args
  | "links.fixed" :: args => Grcov.Drv.C18Links.handleFixed args
  | _ => "bad-op"

end Grcov.Drv.C18
