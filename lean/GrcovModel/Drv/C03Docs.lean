/-
Driver ops of C03 part Docs. Requests (one per line, blank separated):
  c03.docs.coveralls <oc 0|1> <plus 0|1> [D<dm>] <res>*   res = R<abs hex>=<rel hex>=<cov>; `D…` see Drv/C03FnOrder;
                                                        the `functions` of a file are printed in DOCUMENT order
  c03.docs.covdir    <oc 0|1> <res>*
  c03.docs.markdown  <res>*
  c03.docs.files     <res>*
  c03.docs.html      <res>*                             res = R<abs hex>=<rel hex>=<cov>=<n source lines | h<source bytes hex> | x (unreadable)>
                                                        (the files on DISK: `HtmlDisk.siteOnDisk`, jobs in the order given; `!placed` if an
                                                        entry's index directory is not the directory of its page)
  c03.docs.lossylines <source bytes hex>                → <n>:<line hex>,<line hex>,…   (`lossyLines`)
Answers: `panic`, or the canonical text of the document (see the `show…` functions; the harness
prints the decoded real document the same way).
-/
import GrcovModel.Writers.Docs
import GrcovModel.Writers.HtmlDisk
import GrcovModel.Drv.Merge
import GrcovModel.Drv.C03FnOrder
namespace Grcov.Drv
open Grcov Grcov.Writers Grcov.Writers.Docs

def parseRes (s : String) : Option (Res × Option Nat) :=
  match (s.drop 1).toString.splitOn "=" with
  | [a, r, c] => do
    guard (s.startsWith "R")
    pure (⟨← fromHex a, ← fromHex r, ← parseCov c⟩, none)
  | [a, r, c, n] => do
    guard (s.startsWith "R")
    let n ← if n = "x" then some none
      else if n.startsWith "h" then (fromHex (n.drop 1).toString).map fun b => some (lossyLines b).length
      else n.toNat?.map some
    pure (⟨← fromHex a, ← fromHex r, ← parseCov c⟩, n)
  | _ => none

def parseFlag (s : String) : Option Bool := if s = "1" then some true else if s = "0" then some false else none

def showOptNats (xs : List (Option Nat)) : String :=
  joinWith "," (xs.map fun | some n => toString n | none => "n")

def showCvFile (f : CvFile) : String :=
  "N" ++ toHex f.name ++ ";C" ++ showOptNats f.coverage ++ ";B" ++ joinWith "," (f.branches.map toString) ++ ";F" ++
    (match f.functions with
     | none => "-"
     | some fs => joinWith "," (fs.map fun g =>
         s!"{toHex g.name}:{g.start}:{if g.exec then 1 else 0}"))

def handleDocsCoveralls : List String → String
  | oc :: plus :: args =>
    match Grcov.Drv.FnOrder.takeDm args with
    | some (dm, rs) =>
      match parseFlag oc, parseFlag plus, rs.mapM parseRes with
      | some oc, some plus, some rs =>
        match Grcov.Writers.FnOrder.coveralls dm oc plus (rs.map (·.1)) with
        | none => "panic"
        | some d => "ok " ++ joinWith " " (d.map showCvFile)
      | _, _, _ => "bad-op"
    | none => "bad-op"
  | _ => "bad-op"

def showInts' (xs : List Int) : String := joinWith "," (xs.map toString)

mutual
/-- canonical text of the JSON object of a node: `D<name>{<key>=<child>,…}` keys in byte order;
a file child is `F<name>[…]` -/
def showTree : Docs.Tree → String
  | .mk n fs ds =>
    let dirEntries := showDirs ds
    let names := (dedup (fs.map (·.1) ++ dirEntries.map (·.1)))
    let kids := names.map fun k =>
      (k, match AList.get? dirEntries k with
          | some s => s
          | none => "F" ++ toHex k ++ "[" ++ showInts' ((lastFile fs k).getD []) ++ "]")
    "D" ++ toHex n ++ "{" ++ joinWith "," ((sortBytesKeys kids).map fun (k, s) => toHex k ++ "=" ++ s) ++ "}"
def showDirs : List Docs.Tree → List (Name × String)
  | [] => []
  | t :: ts => (t.name, showTree t) :: showDirs ts
end

def handleDocsCovdir : List String → String
  | oc :: rs =>
    match parseFlag oc, rs.mapM parseRes with
    | some oc, some rs =>
      match covdirTree oc (rs.map (·.1)) with
      | none => "panic"
      | some t => "ok " ++ showTree t
    | _, _ => "bad-op"
  | _ => "bad-op"

def showRanges (rs : List (Nat × Nat)) : String := joinWith "," (rs.map fun r => s!"{r.1}-{r.2}")

def handleDocsMarkdown (rs : List String) : String :=
  match rs.mapM parseRes with
  | some rs =>
    "ok " ++ joinWith " " ((markdownRows (rs.map (·.1))).map fun row =>
      s!"M{toHex row.file};{row.covered}/{row.total};{showRanges row.ranges};{toHex ((fmtRanges row.ranges).toUTF8.toList.map (·.toNat))}")
  | none => "bad-op"

def handleDocsFiles (rs : List String) : String :=
  match rs.mapM parseRes with
  | some rs => "ok " ++ toHex (filesBytes (rs.map (·.1)))
  | none => "bad-op"

def showPathList (ns : List Name) : String := toHex (UPath.join ns)

def handleDocsHtml (rs : List String) : String :=
  match rs.mapM parseRes with
  | some rs =>
    let src : Path → Option Nat := fun p => ((rs.find? fun r => r.1.abs = p).map (·.2)).join
    -- the output directory as a FILE SYSTEM (`Writers/HtmlDisk.lean`): the pages are written in the
    -- order of the results (one consumer thread), then the indexes; equal to the flat model
    -- `htmlPages` unless a page file is a directory of another page or an index file a directory
    match entriesOf src (rs.map (·.1)) with
    | none => "panic"
    | some es =>
      match HtmlDisk.siteOnDisk es with
      | none => "panic"
      | some disk =>
        let pages := (sortBytesKeys (disk.pages.map fun (d, rows) => (UPath.join d, rows))).map fun (d, rows) =>
          "P" ++ toHex d ++ "[" ++ showInts' rows ++ "]"
        let idx := (sortBytesKeys (disk.indexes.map fun (loc, c) => (UPath.join loc, c))).map fun (loc, (k, names)) =>
          "X" ++ toHex loc ++ "=" ++ (if k.isNone then "G" else "I") ++ "[" ++
            joinWith "," ((sortBytesKeys (names.map fun f => (f, ()))).map fun (f, _) => toHex f) ++ "]"
        let flag := if HtmlDisk.placedB es then [] else ["!placed"]
        ("ok " ++ joinWith " " (pages ++ idx ++ flag)).trimAsciiEnd.toString
  | none => "bad-op"

/-- `c03.docs.lossylines <hex>`: the lines `gen_html` sees in these source bytes -/
def handleDocsLossyLines : List String → String
  | [] => "0:"
  | [h] => match fromHex h with
    | some b => let ls := lossyLines b; s!"{ls.length}:{joinWith "," (ls.map toHex)}"
    | none => "bad-op"
  | _ => "bad-op"

end Grcov.Drv
