/-
Driver ops of part `Glob` of C11 (served by gm_c11), the whole `globset` pattern language
(GrcovModel/Glob/Syntax.lean, GrcovModel/Glob/Strategy.lean):

  c11.glob.parse g<hex utf8>              → `ok R<hex of the regex text>` | `err <Kind>`
  c11.glob.match g<hex utf8> p<hex>       → `ok <matcher bit><set-of-one bit>` | `err <Kind>`
  c11.glob.set I<g…>,<g…> p<hex>          → `0` | `1` | `panic`   (`to_globset(..).is_match(p)`)
  c11.glob.rewrite <arguments of rewrite> → as `rewrite`, with `Rewrite…G` (patterns of the whole
                                            language; one that does not parse is a panic)

A pattern travels as the UTF-8 bytes of the Rust `&str`; the driver decodes it to chars with
Lean's own `String.fromUTF8?` (glue, like the hex codec).
-/
import GrcovModel.Glob.Strategy
import GrcovModel.Drv.C11
namespace Grcov.Drv.C11Glob
open Grcov Grcov.Drv Grcov.UPath Grcov.Rewrite Grcov.GlobSyntax Grcov.Drv.C11

/-- the chars of a `&str` given by its bytes -/
def chars (bs : Bytes) : Option Chars :=
  let arr : ByteArray := ⟨(bs.map fun b => UInt8.ofNat b).toArray⟩
  (String.fromUTF8? arr).map fun s => s.toList.map Char.toNat

def globArg (s : String) : Option Chars := (arg s).bind chars

def globList (s : String) : Option (List Chars) :=
  (splitList (s.drop 1).toString ",").mapM globArg

def showErr : GlobErr → String
  | .unclosedClass => "UnclosedClass"
  | .invalidRange lo hi => s!"InvalidRange:{lo}:{hi}"
  | .unopenedAlternates => "UnopenedAlternates"
  | .unclosedAlternates => "UnclosedAlternates"
  | .nestedAlternates => "NestedAlternates"
  | .danglingEscape => "DanglingEscape"
  | .panic => "panic"

def handleParse : List String → String
  | [g] => match globArg g with
    | some g => (match parse g with
      | .ok ts => "ok R" ++ toHex (toRegex ts)
      | .error e => "err " ++ showErr e)
    | none => "bad-op"
  | _ => "bad-op"

def handleMatch : List String → String
  | [g, p] => match globArg g, arg p with
    | some g, some p => (match parse g with
      | .ok ts => "ok " ++ bit (regexMatch ts p) ++ bit (setIsMatch [ts] p)
      | .error e => "err " ++ showErr e)
    | _, _ => "bad-op"
  | _ => "bad-op"

def handleSet : List String → String
  | [gs, p] => match globList gs, arg p with
    | some gs, some p => (match compileSet gs with
      | .ok ts => bit (setIsMatch ts p)
      | .error _ => "panic")
    | _, _ => "bad-op"
  | _ => "bad-op"

/-- the arguments of `rewrite` with the `I` and `K` lists taken as patterns of the whole language -/
def parseG : List String → Option (GCfg × FS × List (Bytes × Cov))
  | s :: p :: m :: i :: k :: rest => do
    let (cfg, fs, es) ← parseCfg (s :: p :: m :: "I" :: "K" :: rest)
    let ig ← globList i
    let kp ← globList k
    pure ({ sourceDir := cfg.sourceDir, prefixDir := cfg.prefixDir, mapping := cfg.mapping,
            ignore := ig, keep := kp, ignoreNotExisting := cfg.ignoreNotExisting,
            filter := cfg.filter }, fs, es)
  | _ => none

def handleRewrite (args : List String) : String :=
  match parseG args with
  | some (g, fs, es) => showRes (rewritePathsG g fs es)
  | none => "bad-op"

end Grcov.Drv.C11Glob
