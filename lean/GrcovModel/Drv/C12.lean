/- C12 uses the same driver operations as C11 (`addrewrite`, `covdir`, `rewrite`). -/
import GrcovModel.Drv.C11
