/- C12 uses the driver operations of C11 (`addrewrite`, `covdir`, `rewrite`) plus its own:

  c12.java.addrewrite O S P M I K E F W D X Y | entries   → report of `addThenRewriteJ`
       (arguments as `c11.partial.rewrite`: `O` = walk order of the source tree)
  c12.java.info …                                          → `needed=<b>` then per MAP key (after
       add_results, in map order) `K<key>:<branch>:p<path handed to get_abs_path>`
  c12.addkeys S P M I K E F W D X Y | entries              → the result map after `add_results` with
       the UTF-8 aware key step (`addResultsU`), keys sorted: `ok K<key>=<cov> …`
  c12.htmltotals S P … | entries                           → `<dirTotalH> <listedTotalH>` of the
       whole report (what the HTML writer sums / what its rows list)
-/
import GrcovModel.Drv.C11
import GrcovModel.Drv.C11Partial
import GrcovModel.Rewrite.AddJ
namespace Grcov.Drv.C12
open Grcov Grcov.Drv Grcov.UPath Grcov.Glob Grcov.Rewrite Grcov.Drv.C11 Grcov.Drv.C11Partial

def handleJavaAddRewrite (args : List String) : String :=
  match parseJ args with
  | some (ord, cfg, fs, es) => showRes (addThenRewriteJ cfg fs ord es)
  | none => "bad-op"

def handleJavaInfo (args : List String) : String :=
  match parseJ args with
  | some (ord, cfg, fs, es) =>
    let m := addResults (addCanon fs cfg.sourceDir) [] es
    let keys := m.map (·.1)
    let nd := needed cfg fs keys
    let ftp := fileToPaths fs ord cfg keys
    let per := m.map fun kc =>
      let rel := keyPath cfg kc.1
      s!"K{toHex kc.1}:{showBranch (branchOf nd ftp rel (namesFile fs cfg.sourceDir rel))}:p{toHex (partialStepF fs cfg.sourceDir nd ftp rel)}"
    joinWith " " (s!"needed={bit nd}" :: per)
  | none => "bad-op"

def handleAddKeys (args : List String) : String :=
  match parseCfg args with
  | some (cfg, fs, es) =>
    let m := addResultsU fs cfg.sourceDir es
    let lines := m.map fun kc => s!"K{toHex kc.1}={showCov kc.2}"
    joinWith " " ("ok" :: lines.mergeSort fun a b => !(decide (b < a)))
  | none => "bad-op"

def handleHtmlTotals (args : List String) : String :=
  match parseCfg args with
  | some (cfg, fs, es) => match addThenRewrite cfg fs es with
    | .panic _ => "panic"
    | .ok rs => s!"{dirTotalH (fun _ => true) rs} {listedTotalH (fun _ => true) rs}"
  | none => "bad-op"

def dispatch (line : String) : String :=
  match line.trimAscii.toString.splitOn " " with
  | "c12.java.addrewrite" :: args => handleJavaAddRewrite args
  | "c12.java.info" :: args => handleJavaInfo args
  | "c12.addkeys" :: args => handleAddKeys args
  | "c12.htmltotals" :: args => handleHtmlTotals args
  | _ => step line

end Grcov.Drv.C12
