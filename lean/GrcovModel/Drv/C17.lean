/-
Line-protocol driver for the Producer model (C17).

  c17.run  <ignoreOrphan 0|1> <isLlvm 0|1> ARG*   -> ok <items> ; maps=<cids>  |  panic bad-arg | panic no-input
  c17.spec <ignoreOrphan 0|1> <isLlvm 0|1> ARG*   -> the closed form `closed o (arts ..)` of the same layout

  c17.argclass x<argument hex> x<absolute path hex> <isDir 0|1>
                                                  -> zip | dir | plain | panic bad-ext | panic no-ext

  c17.canon x<raw entry name hex>                 -> dir | none | x<canonical name hex>
  c17.ziplist FILE,FILE,…                         -> the listing of a raw archive: FILE,FILE,… (`zipListed`)
  c17.zipfirst FILE,FILE,…                        -> the reference listing `zipFirst` (first entry per canonical name)

  ARG  = d<label>:FILE,FILE,…   directory (files in walk order)
       | z<label>:FILE,FILE,…   zip archive given by its listing (canonical, distinct names)
       | Z<label>:FILE,FILE,…   zip archive given by its RAW central-directory entries in order
                                (`Producer.zipListed` makes the listing)
       | p:FILE                 plain-file argument
  FILE = <path hex>/<head hex>/<cid decimal>

Items are printed sorted (the code's order is hash-map order):
  C:<fmt>:<cid>:<name>   P:<fmt>:<sorted cids>:m<missing>:<name>
  G:<stem hex>:<gcno cid|->:<gcda cid|->:<name>   B:<stem hex>:<gcno cid>:<sorted gcda cids>:<name>
  name = a<label> | plain | - | ext
-/
import GrcovModel.Producer
import GrcovModel.Producer.Zip
import GrcovModel.Drv.Common
namespace Grcov.Drv.C17
open Grcov Grcov.Drv Grcov.Producer

def parseFile (s : String) : Option File :=
  match s.splitOn "/" with
  | [p, h, c] => do pure ⟨← fromHex p, ← fromHex h, ← c.toNat?⟩
  | _ => none

def parseFiles (s : String) : Option (List File) := (splitList s ",").mapM parseFile

def parseArg (s : String) : Option Arg :=
  match s.splitOn ":" with
  | [hd, body] =>
    if hd = "p" then (parseFile body).map Arg.plain
    else if hd.startsWith "d" then do pure (Arg.dir (← (hd.drop 1).toString.toNat?) (← parseFiles body))
    else if hd.startsWith "z" then do pure (Arg.zip (← (hd.drop 1).toString.toNat?) (← parseFiles body))
    else if hd.startsWith "Z" then do
      let fs ← parseFiles body
      pure (RArg.toArg (.zip (← (hd.drop 1).toString.toNat?) (fs.map fun f => ⟨f.path, f.head, f.cid⟩)))
    else none
  | _ => none

def parseBool (s : String) : Option Bool :=
  if s = "1" then some true else if s = "0" then some false else none

def showFmt : Fmt → String
  | .gcno => "gcno" | .profraw => "profraw" | .profdata => "profdata" | .info => "info"
  | .jacocoXml => "xml"

def showName : IName → String
  | .arch (.arg i) => s!"a{i}"
  | .arch .plain => "plain"
  | .empty => "-"
  | .ext => "ext"

def showOpt : Option Nat → String
  | some n => toString n
  | none => "-"

def showNats (l : List Nat) : String := joinWith "," (l.map toString)

def showObs : Obs → String
  | .content f c => s!"C:{showFmt f}:{c}"
  | .paths f cs m => s!"P:{showFmt f}:{showNats cs}:m{m}"
  | .gcnoPath s g d => s!"G:{toHex s}:{showOpt g}:{showOpt d}"
  | .gcnoBuf s g ds => s!"B:{toHex s}:{g}:{showNats ds}"

def itemName : Item → IName
  | .content _ _ n | .paths _ _ n | .gcnoPath _ _ _ n | .gcnoBuf _ _ _ n => n

def showItem (i : Item) : String := s!"{showObs i.obs}:{showName (itemName i)}"

def sortStrings (l : List String) : List String :=
  ((l.map fun s => (s.toList.map Char.toNat, s)) |> sortBytesKeys).map (·.2)

def showOutcome : Outcome → String
  | .ok items maps =>
    s!"ok {joinWith "|" (sortStrings (items.map showItem))} ; maps={showNats (sortNat maps)}"
  | .panicBadArg => "panic bad-arg"
  | .panicNoInput => "panic no-input"

/-- the specification-level outcome: the closed form over the layout's artifacts -/
def showSpec (o : Opts) (args : List Arg) : String :=
  if args.any Arg.bad then "panic bad-arg"
  else if (arts o.isLlvm args).any Art.usable then
    s!"ok {joinWith "|" (sortStrings ((closed o (arts o.isLlvm args)).map showObs))}"
  else "panic no-input"

def parseReq (ws : List String) : Option (Opts × List Arg) :=
  match ws with
  | i :: l :: rest => do
    let args ← (rest.filter (· ≠ "")).mapM parseArg
    pure (⟨← parseBool i, ← parseBool l⟩, args)
  | _ => none

def handleRun (ws : List String) : String :=
  match parseReq ws with
  | some (o, args) => showOutcome (run o args)
  | none => "bad-op"

def handleSpec (ws : List String) : String :=
  match parseReq ws with
  | some (o, args) => showSpec o args
  | none => "bad-op"

def showFile (f : File) : String := s!"{toHex f.path}/{toHex f.head}/{f.cid}"

def handleCanon (ws : List String) : String :=
  match ws with
  | [n] =>
    match (if n.startsWith "x" then fromHex (n.drop 1).toString else none) with
    | some n =>
      if rawIsDir n then "dir"
      else match canonName n with
        | some c => "x" ++ toHex c
        | none => "none"
    | none => "bad-op"
  | _ => "bad-op"

def handleZipList (first : Bool) (ws : List String) : String :=
  match parseFiles (joinWith " " ws) with
  | some fs =>
    let es : List RawEntry := fs.map fun f => ⟨f.path, f.head, f.cid⟩
    joinWith "," ((if first then zipFirst es else zipListed es).map showFile)
  | none => "bad-op"

def xarg (s : String) : Option (List Nat) :=
  if s.startsWith "x" then fromHex (s.drop 1).toString else none

def handleArgClass (ws : List String) : String :=
  match ws with
  | [p, f, d] =>
    match xarg p, xarg f, parseBool d with
    | some p, some f, some d =>
      match classifyArg p f d with
      | .zip => "zip"
      | .dir => "dir"
      | .plain => "plain"
      | .panicBadExt => "panic bad-ext"
      | .panicNoExt => "panic no-ext"
    | _, _, _ => "bad-op"
  | _ => "bad-op"

end Grcov.Drv.C17
