/-
Driver ops of part Main (model `MainGlue`). One request per line, blank separated tokens
`key=value`; byte strings hex; lists comma separated; an absent token = option not given.

  main.plan <tok>*
     environment : cpus=N  scanon=<hex> (canonical form of the -s value; absent: it does not exist)
                   odir=1 (the -o value is an existing directory)  pmok=1 (mapping file readable)
                   rustlib=<hex> (tool dir of the rustc sysroot)  envllvm=<hex> (env var LLVM_PATH)
                   exists=<hex>,… (tool paths that exist)  gcovenv=<hex> (env var GCOV)
                   lognc=1 (the --log file cannot be created)  gcno=<hex>,… (8-byte headers)
     raw options : t=<occ>;<occ>… with <occ> = <hex>,<hex>…   sort=… (same)   f=<hex>  prec=N
                   vcs=<hex> log=<hex> lvl=<hex>
                   in=<hex>,…  bin= llvmp= o= cfgf= s= p= ine=1 ign=<hex>,… keep=<hex>,… pm= br=1
                   llvm=1 tok= sha= sname= snum= sjob= spr= sflag= par=1 th=N guess=1
                   el= es= ep= bl= bs= bp=  nodem=1 alp= nodate=1 res=cdn
  → usage <kind> | panic <site> <exit status> | run <canonical plan>   (see `showPlan`)

  main.sort <hex>,<hex>,…     absolute paths in the order `rewrite_paths` returned them
  → the positions in sorted order, e.g. `2,0,1`
-/
import GrcovModel.MainGlue
import GrcovModel.Drv.Common
namespace Grcov.Drv.MainGlue
open Grcov Grcov.Drv Grcov.MainGlue

abbrev Toks := List (String × String)

def parseToks (args : List String) : Option Toks :=
  args.mapM fun a =>
    match a.splitOn "=" with
    | [k, v] => some (k, v)
    | _ => none

def look (ts : Toks) (k : String) : Option String := (ts.find? fun kv => kv.1 == k).map (·.2)

/-- `some none` = absent, `some (some b)` = given, `none` = malformed -/
def optBytes (ts : Toks) (k : String) : Option (Option (List Nat)) :=
  match look ts k with
  | none => some none
  | some v => (fromHex v).map some

def optNat (ts : Toks) (k : String) : Option (Option Nat) :=
  match look ts k with
  | none => some none
  | some v => v.toNat?.map some

def flag (ts : Toks) (k : String) : Bool := look ts k == some "1"

def bytesList (ts : Toks) (k : String) : Option (List (List Nat)) :=
  match look ts k with
  | none => some []
  | some v => (v.splitOn ",").mapM fromHex

def occList (ts : Toks) (k : String) : Option (List (List (List Nat))) :=
  match look ts k with
  | none => some []
  | some v => (v.splitOn ";").mapM fun occ => (occ.splitOn ",").mapM fromHex

def parseRest (ts : Toks) : Option Rest := do
  pure {
    paths := ← bytesList ts "in"
    binaryPath := ← optBytes ts "bin"
    llvmPath := ← optBytes ts "llvmp"
    outputPath := ← optBytes ts "o"
    outputConfigFile := ← optBytes ts "cfgf"
    sourceDir := ← optBytes ts "s"
    prefixDir := ← optBytes ts "p"
    ignoreNotExisting := flag ts "ine"
    ignoreDir := ← bytesList ts "ign"
    keepDir := ← bytesList ts "keep"
    pathMapping := ← optBytes ts "pm"
    branch := flag ts "br"
    llvm := flag ts "llvm"
    token := ← optBytes ts "tok"
    commitSha := ← optBytes ts "sha"
    serviceName := ← optBytes ts "sname"
    serviceNumber := ← optBytes ts "snum"
    serviceJobId := ← optBytes ts "sjob"
    servicePullRequest := ← optBytes ts "spr"
    serviceFlagName := ← optBytes ts "sflag"
    parallel := flag ts "par"
    threads := ← optNat ts "th"
    guessDirectory := flag ts "guess"
    exclLine := ← optBytes ts "el"
    exclStart := ← optBytes ts "es"
    exclStop := ← optBytes ts "ep"
    exclBrLine := ← optBytes ts "bl"
    exclBrStart := ← optBytes ts "bs"
    exclBrStop := ← optBytes ts "bp"
    noDemangle := flag ts "nodem"
    absLinkPrefix := ← optBytes ts "alp"
    noDate := flag ts "nodate"
    htmlResources := if look ts "res" == some "cdn" then .cdn else .bundled }

def parseRaw (ts : Toks) : Option Raw := do
  pure {
    typeArgs := ← occList ts "t"
    sortArgs := ← occList ts "sort"
    filter := ← optBytes ts "f"
    precision := ← optNat ts "prec"
    vcsBranch := ← optBytes ts "vcs"
    log := ← optBytes ts "log"
    logLevel := ← optBytes ts "lvl"
    rest := ← parseRest ts }

def parseEnv (ts : Toks) : Option Env := do
  let cpus := (← optNat ts "cpus").getD 1
  let scanon ← optBytes ts "scanon"
  let exist ← bytesList ts "exists"
  let headers ← bytesList ts "gcno"
  pure { cpus := cpus, canon := fun _ => scanon, isDir := fun _ => flag ts "odir"
         mappingReadable := fun _ => flag ts "pmok"
         rustlibBin := ← optBytes ts "rustlib"
         envLlvmPath := ← optBytes ts "envllvm"
         toolExists := fun p => exist.contains p
         envGcov := ← optBytes ts "gcovenv"
         logCreatable := fun _ => !flag ts "lognc"
         gcnoHeaders := headers }

def showOpt : Option (List Nat) → String
  | none => "-"
  | some b => toHex b

def showList (l : List (List Nat)) : String :=
  toString l.length ++ "[" ++ joinWith "," (l.map toHex) ++ "]"

def showBool (b : Bool) : String := if b then "1" else "0"

def showOptBool : Option Bool → String
  | none => "-"
  | some b => showBool b

def typeName (t : OutputType) : String := String.ofList (t.cliName.map Char.ofNat)

def showRes : HtmlRes → String
  | .bundled => "bundled"
  | .cdn => "cdn"

def showWriter : Writer → String
  | .ade d => s!"ade({showBool d})"
  | .lcov d => s!"lcov({showBool d})"
  | .coveralls a =>
    "coveralls(" ++ joinWith "," [showOpt a.token, showOpt a.serviceName, toHex a.serviceNumber,
      showOpt a.serviceJobId, toHex a.servicePullRequest, showOpt a.serviceFlagName, toHex a.commitSha,
      showBool a.withFunctionInfo, toHex a.vcsBranch, showBool a.parallel, showBool a.demangle] ++ ")"
  | .files => "files()"
  | .covdir p => s!"covdir({p})"
  | .html a =>
    "html(" ++ joinWith "," [toString a.threads, showBool a.branch, showOpt a.configFile,
      toString a.precision, showOpt a.absLinkPrefix, showBool a.noDate, showRes a.resources] ++ ")"
  | .cobertura sr d p => s!"cobertura({showOpt sr},{showBool d},{showBool p})"
  | .markdown p => s!"markdown({p})"

def showOutput (o : Output) : String :=
  joinWith "@" [typeName o.ty, showOpt o.dest, if o.sorted then "S" else "U", showWriter o.writer]

def showLevel : LogLevel → String
  | .off => "OFF" | .error => "ERROR" | .warn => "WARN" | .info => "INFO" | .debug => "DEBUG"
  | .trace => "TRACE"

def showTool : ToolRes → String
  | .found p => "F:" ++ toHex p
  | .notFound p => "N:" ++ toHex p
  | .noRustc => "R"

def showLog : LogTarget → String
  | .stdout => "stdout"
  | .stderr => "stderr"
  | .file f => "file:" ++ toHex f
  | .stderrFallback f => "fallback:" ++ toHex f

def showRoute : GcnoRoute → String
  | .buffers => "B"
  | .gcovTool => "G"

def showPlan (p : Plan) : String :=
  joinWith " " [
    "log=" ++ showLog p.log,
    "llvmpath=" ++ showOpt p.llvmPath,
    "tools=" ++ showTool p.profdataTool ++ "," ++ showTool p.covTool,
    "gcov=" ++ toHex p.gcovExe,
    "routes=" ++ joinWith "," (p.gcnoRoutes.map showRoute),
    "lvl=" ++ showLevel p.logLevel,
    s!"th={p.threads}", s!"q={p.queueCap}", "pco=" ++ showBool p.producerCoveredOnly,
    "llvm=" ++ showBool p.llvm, "in=" ++ showList p.inputs,
    "map=" ++ (match p.mapping with | .producer => "producer" | .file f => "file:" ++ toHex f),
    "cons=" ++ joinWith ";" (p.consumers.map fun c =>
      joinWith ":" [toString c.index, showOpt c.sourceRoot, showBool c.branch, showBool c.guessDirectory,
        showOpt c.binaryPath]),
    "rw=" ++ joinWith "|" [showOpt p.rewrite.sourceDir, showOpt p.rewrite.prefixDir,
      showBool p.rewrite.ignoreNotExisting, showList p.rewrite.ignore, showList p.rewrite.keep,
      showOptBool p.rewrite.filter],
    "ff=" ++ joinWith "," [showOpt p.fileFilter.exclLine, showOpt p.fileFilter.exclStart,
      showOpt p.fileFilter.exclStop, showOpt p.fileFilter.exclBrLine, showOpt p.fileFilter.exclBrStart,
      showOpt p.fileFilter.exclBrStop],
    "out=" ++ joinWith ";" (p.outputs.map showOutput)]

def showUsage : UsageErr → String
  | .noPaths => "noPaths"
  | .invalidOutputType => "invalidOutputType"
  | .invalidFilter => "invalidFilter"
  | .invalidLogLevel => "invalidLogLevel"
  | .coverallsAuthMissing => "coverallsAuthMissing"
  | .serviceNameMissing => "serviceNameMissing"
  | .emptyPath => "emptyPath"

def showSite : PanicSite → String
  | .sourceDirMissing => "sourceDirMissing"
  | .noWorker => "noWorker"
  | .mappingFile => "mappingFile"
  | .outputNotDir => "outputNotDir"

def handlePlan (args : List String) : String :=
  match parseToks args with
  | none => "bad-op"
  | some ts =>
    match parseEnv ts, parseRaw ts with
    | some env, some raw =>
      match front env raw with
      | .usage e => "usage " ++ showUsage e
      | .panic s => s!"panic {showSite s} {s.exitCode}"
      | .run p => "run " ++ showPlan p
    | _, _ => "bad-op"

def handleSort : List String → String
  | [v] =>
    match (v.splitOn ",").mapM fromHex with
    | none => "bad-op"
    | some ps =>
      let recs : List Rewrite.Rec := (List.range ps.length).zipWith (fun i p => ⟨p, [i], {}⟩) ps
      joinWith "," ((sortRecs recs).map fun r => toString (r.rel.headD 0))
  | _ => "bad-op"

end Grcov.Drv.MainGlue
