/-
Driver op of C20 part `LlvmTree` (served by `gmodel`):
  c20.llvmtree.find <entry>;<entry>;…   entry = <hex name>/<hex name>/…~<D | L | F<hex of the first ≤128 bytes>>[~I]
    (`~I`: an ignore rule in force matches the entry or a directory above it)
    -> the paths `find_binaries` returns (one worker visiting the entries in the given order — the answer is
       the same for every schedule, `C20_findbin_deterministic` — with `isAppLite` as the sniffer), sorted,
       `;`-separated, each `<hex name>/<hex name>…`; `-` when there is none; ` executables=<n>` is the number of
       regular executables of the whole tree, walked or not
-/
import GrcovModel.Consumer.FindBin
import GrcovModel.Drv.Common
namespace Grcov.Drv
open Grcov.Consumer.FindBin

def parseFbEntry (s : String) : Option Entry :=
  let parts := s.splitOn "~"
  let ign := parts.length == 3 && parts[2]! == "I"
  match parts.take 2 with
  | [p, k] => do
    let path ← (p.splitOn "/").mapM fromHex
    let kind ← match k.toList with
      | ['D'] => some EKind.dir
      | ['L'] => some EKind.symlink
      | 'F' :: h => (fromHexChars h).map EKind.file
      | _ => none
    pure ⟨path, kind, ign⟩
  | _ => none

def pathLe (a b : List (List Nat)) : Bool :=
  match a, b with
  | [], _ => true
  | _ :: _, [] => false
  | x :: xs, y :: ys => if lexLt x y then true else if lexLt y x then false else pathLe xs ys

def handleLlvmTreeFind : List String → String
  | [arg] => match (splitList arg ";").mapM parseFbEntry with
    | some tree =>
      let r := (findBin isAppLite [walked tree]).mergeSort pathLe
      let all := ((executables isAppLite tree).map (·.path)).mergeSort pathLe
      (if r.isEmpty then "-" else joinWith ";" (r.map fun p => joinWith "/" (p.map toHex)))
        ++ " executables=" ++ toString all.length
    | none => "bad-op"
  | [] => "- executables=0"
  | _ => "bad-op"

end Grcov.Drv
