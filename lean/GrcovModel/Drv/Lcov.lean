import GrcovModel.Lcov
import GrcovModel.Lemmas.LcovWriter
import GrcovModel.Lemmas.LcovUtf8
import GrcovModel.Drv.Merge
namespace Grcov.Drv
open Grcov

def showResultsOrdered (rs : List (List Nat × Cov)) : String :=
  joinWith " " (rs.map fun (k, c) => s!"K{toHex k}={showCov c}")

def showOut : Lcov.Out → String
  | .ok [] => "ok"
  | .ok rs => "ok " ++ showResultsOrdered rs
  | .err k => "err " ++ k
  | .panic _ => "panic"

def handleLcovParse : List String → String
  | [b, h] =>
    match fromHex h with
    | some bs => showOut (Lcov.parse (b == "1") bs)
    | none => "bad-op"
  | [b] => showOut (Lcov.parse (b == "1") [])
  | _ => "bad-op"

def handleUtf8Lossy : List String → String
  | [h] => match fromHex h with
    | some bs => toHex (Lcov.utf8Lossy bs)
    | none => "bad-op"
  | [] => ""
  | _ => "bad-op"

/-- `utf8valid <hex>` → `1` iff the bytes are well-formed UTF-8 (`Lcov.validUtf8`) -/
def handleUtf8Valid : List String → String
  | [h] => match fromHex h with
    | some bs => if Lcov.validUtf8 bs then "1" else "0"
    | none => "bad-op"
  | [] => "1"
  | _ => "bad-op"

/-- `lcov.print K<hexpath>=<cov> …` → hex of the report bytes `printLcov` writes -/
def handleLcovPrint (entries : List String) : String :=
  let es : Option (List (List Nat × Cov)) := entries.mapM fun e =>
    match (e.drop 1).toString.splitOn "=" with
    | [k, cov] => do pure ((← fromHex k), (← parseCov cov))
    | _ => none
  match es with
  | some es => toHex (Lcov.printLcov es)
  | none => "bad-op"

end Grcov.Drv
