/-
Driver ops for the record-level reading of a notes file (Gcno/Records.lean):

  c08.listed <version> <recs|->     (served by gm_c08)
      -> ok <ref> | <kept>      <ref> = `listedRef recs`, <kept> = `listedKept version recs`, each as
                                K<hexfile>=<l>,<l>,… joined by ' ' (files in byte order, lines
                                increasing, without repetitions; `-` when empty)
  c15.stamp <g|d> <hex bytes>       (served by gm_c15 and gm_c08)
      -> ok <hex spelling> <version|-> <canonical 0|1>  |  none   (magic not recognised / too short)
-/
import GrcovModel.Gcno.Records
import GrcovModel.Drv.C15
namespace Grcov.Drv
open Grcov Grcov.Gcno

def recGroup (ps : List (List Nat × Nat)) : List (List Nat × List Nat) :=
  ps.foldl (fun m p => match AList.get? m p.1 with
    | some v => if v.contains p.2 then m else AList.set m p.1 (v ++ [p.2])
    | none => AList.set m p.1 [p.2]) []

def recShow (ps : List (List Nat × Nat)) : String :=
  let t := joinWith " " ((sortBytesKeys (recGroup ps)).map fun (k, ls) =>
    s!"K{toHex k}=" ++ joinWith "," ((sortNatKeys (ls.map fun l => (l, ()))).map fun p => toString p.1))
  if t.isEmpty then "-" else t

def handleC08Listed : List String → String
  | [v, recs] =>
    match gcnoNat v, gcnoParseRecs recs with
    | some v, some recs => "ok " ++ recShow (listedRef recs) ++ " | " ++ recShow (listedKept v recs)
    | _, _ => "bad-op"
  | _ => "bad-op"

def handleC15Stamp : List String → String
  | [m, bytes] =>
    let magic := if m = "g" then some [111, 110, 99, 103] else if m = "d" then some [97, 100, 99, 103] else none
    match magic, fromHex bytes with
    | some magic, some bs =>
      match stampSpelling magic bs with
      | some s =>
        let v := match spellingVersion s with | some v => toString v | none => "-"
        s!"ok {toHex s} {v} {if stampCanon s then 1 else 0}"
      | none => "none"
    | _, _ => "bad-op"
  | _ => "bad-op"

end Grcov.Drv
