/-
Driver ops of C14, part Gcno (served by `gmodel`):
  c14.gcno.computeb <branch 0|1> <hex gcno> <hex gcda>* ('-' = empty)
      -> the answer of `computeb` of the C15 driver: `computeBytes` = `Gcno::compute` on bytes
  c14.gcno.gcdarecs <hex gcda>
      -> ok D<version>:<checksum>(;<rec>)*   the record stream `readGcda` reads from these bytes
         <rec> = f<len>,<ident>,<lsum>,<csum> | a<len>(,<counter>)* | o | s (fail short) | r (fail recordLen)
       | hdr D<version> err <kind>            version read, checksum not
       | err <kind> | panic | diverge
  c14.gcno.crashsite <branch 0|1> <hex gcno> <hex gcda>* ('-' = empty)
      -> crash <site> (overflow | underflow | idxBlock | idxArc | idxFunc | noArcs | str | idxList)
         when `computeBytes` ends in a crash, `none` otherwise (review item 31: the harness files a real
         overflow panic under C14-gcno-counter-overflow only when the model crashes at `overflow`)
-/
import GrcovModel.Drv.C15
namespace Grcov.Drv.C14Gcno
open Grcov Grcov.Gcno Grcov.Drv

def handleComputeB (args : List String) : String := handleGcno ("computeb" :: args)

def showDRec : DRec → String
  | .func len id ls cs => s!"f{len},{id},{ls},{cs}"
  | .arcs len vs => s!"a{len}" ++ String.join (vs.map fun v => s!",{v}")
  | .other => "o"
  | .fail .short => "s"
  | .fail .recordLen => "r"
  | .fail _ => "x"
  | .crash _ => "c"

def handleGcdaRecs (args : List String) : String :=
  match args with
  | [h] =>
    match (if h = "-" then some [] else fromHex h) with
    | some bs =>
      match readGcda bs with
      | .ok p =>
        match p.rest with
        | .ok (cs, recs) => s!"ok D{p.version}:{cs}" ++ String.join (recs.map fun r => ";" ++ showDRec r)
        | .err k => s!"hdr D{p.version} err {repr k}"
        | .crash _ => "panic"
        | .diverge => "diverge"
      | .err k => s!"err {repr k}"
      | .crash _ => "panic"
      | .diverge => "diverge"
    | none => "bad-op"
  | _ => "bad-op"

def showSite : Site → String
  | .overflow => "overflow" | .underflow => "underflow" | .idxBlock => "idxBlock" | .idxArc => "idxArc"
  | .idxFunc => "idxFunc" | .noArcs => "noArcs" | .str => "str" | .idxList => "idxList"

def handleCrashSite (args : List String) : String :=
  match args with
  | br :: gcno :: ds =>
    let unhex := fun (t : String) => if t = "-" then some [] else fromHex t
    match unhex gcno, ds.mapM unhex with
    | some gcno, some ds =>
      match computeBytes gcno ds (br == "1") with
      | .crash s => "crash " ++ showSite s
      | _ => "none"
    | _, _ => "bad-op"
  | _ => "bad-op"

end Grcov.Drv.C14Gcno
