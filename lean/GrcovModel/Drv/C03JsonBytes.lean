/-
Driver ops of C03/C18 part JsonBytes (byte layer of the JSON reports):
  c03.json.covdir    <res>* P<path hex>=<coveragePercent token hex>*     path = names joined by '/', root = ""
  c03.json.coveralls <plus 0|1> [D<dm>] <res>* G<source_digest hex>*    (one per file, in order)
  c03.json.ade       [D<dm>] <res>* T<percentage_covered token hex | n>* (in document order; n = null)
`D…` (the demangler) see Drv/C03FnOrder; the function tables may come in any order: the models list
them by name themselves (`Writers.FnOrder.coverallsBytes`, `Writers.FnOrder.adeBytes`).
Answer: `panic`, or `ok <bytes of the report, hex> <canonical text of the document(s)>`.
The top-level coveralls parameters are the constants the harness passes to `output_coveralls`.
-/
import GrcovModel.Writers.JsonBytes
import GrcovModel.Drv.C03Docs
namespace Grcov.Drv
open Grcov Grcov.Writers Grcov.Writers.Docs Grcov.Writers.JsonBytes

mutual
def showJson : Json → String
  | .null => "n"
  | .bool true => "t"
  | .bool false => "f"
  | .int i => "i" ++ toString i
  | .tok t => "F" ++ toHex t
  | .str s => "s" ++ toHex s
  | .arr xs => "[" ++ joinWith "," (showJsons xs) ++ "]"
  | .obj fs => "{" ++ joinWith "," (showFieldsJ fs) ++ "}"
def showJsons : List Json → List String
  | [] => []
  | x :: xs => showJson x :: showJsons xs
def showFieldsJ : List (List Nat × Json) → List String
  | [] => []
  | kv :: fs => (toHex kv.1 ++ ":" ++ showJson kv.2) :: showFieldsJ fs
end

def splitArgs (args : List String) : List String × List String :=
  (args.filter (·.startsWith "R"), args.filter fun a => !a.startsWith "R")

def parseHexTok (pre : String) (s : String) : Option (List Nat) :=
  if s.startsWith pre then fromHex (s.drop 1).toString else none

def harnessTop : CvTop :=
  { git := mkObj [(key "head", mkObj [(key "id", .str (key "sha"))]), (key "branch", .str (key "main"))]
    parallel := false
    repoToken := some (key "tok")
    serviceName := some (key "svc")
    serviceNumber := key "1"
    serviceJobId := some (key "2")
    servicePullRequest := key "3"
    flagName := none }

def handleJsonCoveralls : List String → String
  | plus :: args =>
    match Grcov.Drv.FnOrder.takeDm args with
    | some (dm, args) =>
      let (rs, gs) := splitArgs args
      match parseFlag plus, rs.mapM parseRes, gs.mapM (parseHexTok "G") with
      | some plus, some rs, some gs =>
        match Grcov.Writers.FnOrder.coveralls dm true plus (rs.map (·.1)),
              Grcov.Writers.FnOrder.coverallsBytes dm harnessTop gs plus (rs.map (·.1)) with
        | some d, some b => s!"ok {toHex b} {showJson (coverallsJson harnessTop gs d)}"
        | _, _ => "panic"
      | _, _, _ => "bad-op"
    | none => "bad-op"
  | _ => "bad-op"

def handleJsonCovdir (args : List String) : String :=
  let (rs, ps) := splitArgs args
  let fills : Option (List (List Nat × List Nat)) := ps.mapM fun p =>
    match (p.drop 1).toString.splitOn "=" with
    | [a, b] => do
      guard (p.startsWith "P")
      pure ((← fromHex a), (← fromHex b))
    | _ => none
  match rs.mapM parseRes, fills with
  | some rs, some fills =>
    match covdirTree true (rs.map (·.1)) with
    | none => "panic"
    | some t =>
      let fill : Fill := fun path => (AList.get? fills (UPath.join path)).getD [48, 46, 48]
      let j := covdirJson fill t
      s!"ok {toHex (jsonSerialize j)} {showJson j}"
  | _, _ => "bad-op"

def handleJsonAde (args : List String) : String :=
  match Grcov.Drv.FnOrder.takeDm args with
  | some (dm, args) =>
    let (rs, ts) := splitArgs args
    let toks : Option (List Json) := ts.mapM fun t =>
      if t = "Tn" then some .null else (parseHexTok "T" t).map .tok
    match rs.mapM parseRes, toks with
    | some rs, some toks =>
      match Grcov.Writers.FnOrder.adeBytes dm toks (rs.map fun r => (r.1.rel, r.1.cov)) with
      | .panic _ => "panic"
      | .ok b => s!"ok {toHex b}"
    | _, _ => "bad-op"
  | none => "bad-op"

end Grcov.Drv
