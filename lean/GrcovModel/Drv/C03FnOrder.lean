/-
Driver helper of C03 part FnOrder: the demangler argument of the writer ops.

  D<mangled hex>=<printed hex>,…      at most one such argument per request, anywhere in it:
      the demangler is `Writers.dmOfTable` of that table (a name that is not listed prints as it
      is); no `D…` argument = `--no-demangle` (`id`).
The writer ops (`c03.cob.tree`, `c03.ade`, `c03.cobbytes.ser`, `c03.docs.coveralls`,
`c03.json.coveralls`, `c03.json.ade`) hand the result set, with the function table of every file in
WHATEVER order the request lists it, to the models of `Writers/FnOrder.lean`, which sort it by name
(`sorted_functions`) and rename it themselves.

  c03.lcov [D<dm>] K<rel hex>=<cov> …   -> `ok <hex of the bytes of output_lcov(results, _, demangle)>`
      (`Writers.FnOrder.lcov`; lines and branch lines ascending as `showCov` prints them)
-/
import GrcovModel.Writers.FnOrder
import GrcovModel.Drv.Merge
namespace Grcov.Drv.FnOrder
open Grcov Grcov.Drv Grcov.Writers

def parseDmTable (s : String) : Option (List (Name × Name)) :=
  if s.startsWith "D" then
    (splitList (s.drop 1).toString ",").mapM fun e =>
      match e.splitOn "=" with
      | [a, b] => do pure ((← fromHex a), (← fromHex b))
      | _ => none
  else none

/-- (demangler, the other arguments); `none`: a malformed or a second `D…` argument -/
def takeDm (args : List String) : Option ((Name → Name) × List String) :=
  let rest := args.filter fun a => !a.startsWith "D"
  match args.filter (·.startsWith "D") with
  | [] => some (id, rest)
  | [d] => (parseDmTable d).map fun tab => (dmOfTable tab, rest)
  | _ => none

def handleLcov (args : List String) : String :=
  match takeDm args with
  | some (dm, entries) =>
    let rs : Option (List (Name × Cov)) := entries.mapM fun e =>
      if e.startsWith "K" then
        match (e.drop 1).toString.splitOn "=" with
        | [k, cov] => do pure ((← fromHex k), (← parseCov cov))
        | _ => none
      else none
    match rs with
    | some rs => "ok " ++ toHex (Grcov.Writers.FnOrder.lcov dm rs)
    | none => "bad-op"
  | none => "bad-op"

end Grcov.Drv.FnOrder
