/-
Driver op `c11.idem.twice` (served by gm_c11): `rewrite_paths`, re-import of the report under its
relative paths, `rewrite_paths` again (`Rewrite.rewriteTwice`). Arguments as for `rewrite`.
-/
import GrcovModel.Drv.C11
namespace Grcov.Drv.C11Idem
open Grcov Grcov.Drv Grcov.Rewrite Grcov.Drv.C11

def handleTwice (args : List String) : String :=
  match parseCfg args with
  | some (cfg, fs, es) => showRes (rewriteTwice cfg fs es)
  | none => "bad-op"

end Grcov.Drv.C11Idem
