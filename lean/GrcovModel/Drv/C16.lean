/-
Driver ops for C16 (model component FileFilter).

  ffilter <opts> <r> <lines>          -> `-` | `L1,B2,X7,…`     (FileFilter::create)
  ffapply <opts> <r> <lines> <cov>    -> <cov>                   (the loop of rewrite_paths)
  ffselect <opts> <r> <lines> <f> <cov> -> `absent` | <cov>      (the loop, THEN `match filter_option`:
                                         `rewriteThenFilter`; <f> = n (no --filter) | c (covered) | u (uncovered))

  fflines x<src>                      -> `x<piece>,x<piece>,…`   (strip_suffix LF, split LF, strip_suffix CR)
                                         followed by ` <realLines>`
  ffsrc <opts> x<m1> … x<m6> x<src>   -> as ffilter: `createSrc` with six LITERAL markers (substring
                                         match), the model splitting the text itself

<opts>  six 0/1 characters: excl_line excl_start excl_stop excl_br_line excl_br_start excl_br_stop
<r>     1 = source readable, 0 = read_to_string fails
<lines> `-` (no line) or comma-separated six-bit vectors, one per source line, same order
<cov>   as in the `merge` op: `L1:5,2:7;B1:10;F6162:3:1`
-/
import GrcovModel.FileFilter
import GrcovModel.FileFilter.Select
import GrcovModel.Drv.Common
import GrcovModel.Drv.Merge
namespace Grcov.Drv
open Grcov Grcov.FileFilter

def parseSix (s : String) : Option (Bool × Bool × Bool × Bool × Bool × Bool) :=
  match parseBits s with
  | some [a, b, c, d, e, f] => some (a, b, c, d, e, f)
  | _ => none

def parseOpts (s : String) : Option Opts :=
  (parseSix s).map fun (a, b, c, d, e, f) => ⟨a, b, c, d, e, f⟩

def parseLineBits (s : String) : Option (List Bits) :=
  if s = "-" then some []
  else (s.splitOn ",").mapM fun e =>
    (parseSix e).map fun (a, b, c, d, e, f) => (⟨a, b, c, d, e, f⟩ : Bits)

def parseReadable (s : String) : Option Bool :=
  if s = "1" then some true else if s = "0" then some false else none

def showFT : FT → String
  | .line n => s!"L{n}"
  | .branch n => s!"B{n}"
  | .both n => s!"X{n}"

def showFilters (fs : List FT) : String :=
  if fs.isEmpty then "-" else joinWith "," (fs.map showFT)

def handleFFilter : List String → String
  | [o, r, ls] =>
    match parseOpts o, parseReadable r, parseLineBits ls with
    | some o, some r, some ms => showFilters (create o r ms)
    | _, _, _ => "bad-op"
  | _ => "bad-op"

def handleFFApply : List String → String
  | [o, r, ls, cov] =>
    match parseOpts o, parseReadable r, parseLineBits ls, parseCov cov with
    | some o, some r, some ms, some c => showCov (rewrite o r ms c)
    | _, _, _, _ => "bad-op"
  | _ => "bad-op"

def parseFilterOpt (s : String) : Option (Option Bool) :=
  if s = "n" then some none else if s = "c" then some (some true) else if s = "u" then some (some false)
  else none

def handleFFSelect : List String → String
  | [o, r, ls, f, cov] =>
    match parseOpts o, parseReadable r, parseLineBits ls, parseFilterOpt f, parseCov cov with
    | some o, some r, some ms, some f, some c =>
      match rewriteThenFilter o r ms f c with
      | some c' => showCov c'
      | none => "absent"
    | _, _, _, _, _ => "bad-op"
  | _ => "bad-op"

def xarg (s : String) : Option (List Nat) :=
  if s.startsWith "x" then fromHex (s.drop 1).toString else none

def handleFFLines : List String → String
  | [src] =>
    match xarg src with
    | some b =>
      joinWith "," ((splitSrc b).map fun p => "x" ++ toHex (stripCR p)) ++ s!" {realLines b}"
    | none => "bad-op"
  | _ => "bad-op"

def handleFFSrc : List String → String
  | [o, a, b, c, d, e, f, src] =>
    match parseOpts o, xarg a, xarg b, xarg c, xarg d, xarg e, xarg f, xarg src with
    | some o, some a, some b, some c, some d, some e, some f, some src =>
      showFilters (createSrc o (Rx.ofLiterals a b c d e f) (some src))
    | _, _, _, _, _, _, _, _ => "bad-op"
  | _ => "bad-op"

end Grcov.Drv
