/-
Driver ops `c11.partial.*` (served by gm_c11): the Java/Kotlin partial-path lookup.
Arguments are encoded like those of `rewrite` (Drv/C11.lean), with one more leading argument
`O<p…>,<p…>`: the canonical absolute paths of the source tree's entries in walk order.
-/
import GrcovModel.Rewrite.Partial
import GrcovModel.Drv.C11
namespace Grcov.Drv.C11Partial
open Grcov Grcov.Drv Grcov.UPath Grcov.Glob Grcov.Rewrite Grcov.Drv.C11

/-- `c11.partial.ext p` → `<file_name> <extension> <is java/kt>` -/
def handleExt : List String → String
  | [p] => match arg p with
    | some p => s!"{showOpt (fileName p)} {showOpt (extensionOf p)} {bit (isPartialExt p)}"
    | none => "bad-op"
  | _ => "bad-op"

/-- `c11.partial.lastseg k` → the covered name of a key -/
def handleLastSeg : List String → String
  | [k] => match arg k with
    | some k => "n" ++ toHex (lastSeg k)
    | none => "bad-op"
  | _ => "bad-op"

def parseJ : List String → Option (List (List Bytes) × Cfg × FS × List (Bytes × Cov))
  | o :: rest => do
    let ord ← argList o
    let (cfg, fs, es) ← parseCfg rest
    pure (ord.map canonComps, cfg, fs, es)
  | [] => none

/-- `c11.partial.rewrite O S P M I K E F W D X | entries` → the report of `rewritePathsJ` -/
def handleRewrite (args : List String) : String :=
  match parseJ args with
  | some (ord, cfg, fs, es) => showRes (rewritePathsJ cfg fs ord es)
  | none => "bad-op"

def showBranch : Branch → String
  | .notNeeded => "notneeded"
  | .noExt => "noext"
  | .isFile => "isfile"
  | .noEntry => "noentry"
  | .single => "single"
  | .firstMatch n => s!"match{n}"
  | .noMatch n => s!"nomatch{n}"

/-- `c11.partial.info …` (same arguments) → `needed=<b> walkpanic=<b>` then, per key in input
order, `<branch>:p<path handed to get_abs_path>` -/
def handleInfo (args : List String) : String :=
  match parseJ args with
  | some (ord, cfg, fs, es) =>
    let keys := es.map (·.1)
    let nd := needed cfg fs keys
    let ftp := fileToPaths fs ord cfg keys
    let per := es.map fun kc =>
      let rel := keyPath cfg kc.1
      s!"{showBranch (branchOf nd ftp rel (namesFile fs cfg.sourceDir rel))}:p{toHex (partialStepF fs cfg.sourceDir nd ftp rel)}"
    joinWith " " (s!"needed={bit nd}" :: s!"walkpanic={bit (walkPanics cfg fs keys)}" :: per)
  | none => "bad-op"

/-- `c11.partial.cands …` → `file_to_paths`, names in first-seen order, paths in walk order:
`n<name>=p<path>,p<path>` -/
def handleCands (args : List String) : String :=
  match parseJ args with
  | some (ord, cfg, fs, es) =>
    let ftp := fileToPaths fs ord cfg (es.map (·.1))
    joinWith " " ("ok" :: ftp.map fun e =>
      s!"n{toHex e.1}={joinWith "," (e.2.map fun p => "p" ++ toHex p)}")
  | none => "bad-op"

end Grcov.Drv.C11Partial
