/-
Driver ops of part `Regex` of C16 (served by gm_c16): the pattern language of the `regex` crate
(GrcovModel/Regex/Syntax.lean, Regex/Match.lean) and the six `--excl-*` options as patterns
(GrcovModel/FileFilter/Regex.lean).

  c16.rx.parse x<utf8 hex>                   → `ok <height> <cost>` | `err <Kind>` | `notutf8`
                                               (`Regex::new`; <Kind> = the name of `ast::ErrorKind`,
                                               or `Unsupported`: the model makes no claim)
  c16.rx.match x<utf8 hex> <x<line>,…>       → `err <Kind>` | `notutf8` | one char per line:
                                               `1` / `0` = `is_match`, `-` = the line is not UTF-8
  c16.rx.table w|d|s                         → `lo-hi,lo-hi,…` (the Unicode tables of `\w` `\d` `\s`)
  c16.rx.create <p1> … <p6> <src>            → `usage <Kind>` | `usage notutf8` | `-` | `L1,B2,X7,…`
        <pi> = `-` (option not given) | x<utf8 hex>, in the order excl_line excl_start excl_stop
        excl_br_line excl_br_start excl_br_stop; <src> = `-` (unreadable) | x<file bytes hex>
        (`FileFilter::new(…).create(path)`: `createPat`)
-/
import GrcovModel.FileFilter.Regex
import GrcovModel.Drv.C16
namespace Grcov.Drv.C16Regex
open Grcov Grcov.Drv Grcov.Regex Grcov.FileFilter

def showErr : RegexErr → String
  | .groupUnclosed => "GroupUnclosed"
  | .groupUnopened => "GroupUnopened"
  | .unsupportedLookAround => "UnsupportedLookAround"
  | .classUnclosed => "ClassUnclosed"
  | .classEscapeInvalid => "ClassEscapeInvalid"
  | .classRangeInvalid => "ClassRangeInvalid"
  | .classRangeLiteral => "ClassRangeLiteral"
  | .repetitionMissing => "RepetitionMissing"
  | .repetitionCountUnclosed => "RepetitionCountUnclosed"
  | .repetitionCountInvalid => "RepetitionCountInvalid"
  | .repetitionCountDecimalEmpty => "RepetitionCountDecimalEmpty"
  | .decimalInvalid => "DecimalInvalid"
  | .escapeUnexpectedEof => "EscapeUnexpectedEof"
  | .escapeUnrecognized => "EscapeUnrecognized"
  | .escapeHexEmpty => "EscapeHexEmpty"
  | .escapeHexInvalid => "EscapeHexInvalid"
  | .escapeHexInvalidDigit => "EscapeHexInvalidDigit"
  | .unsupportedBackreference => "UnsupportedBackreference"
  | .specialWordBoundaryUnclosed => "SpecialWordBoundaryUnclosed"
  | .specialWordBoundaryUnrecognized => "SpecialWordBoundaryUnrecognized"
  | .specialWordOrRepUnexpectedEof => "SpecialWordOrRepetitionUnexpectedEof"
  | .nestLimitExceeded => "NestLimitExceeded"
  | .unsupported => "Unsupported"
  | .fuel => "Fuel"

def handleParse : List String → String
  | [p] =>
    match xarg p with
    | none => "bad-op"
    | some p =>
      match compile p with
      | .ok a => s!"ok {height a} {cost a}"
      | .err e => "err " ++ showErr e
      | .notUtf8 => "notutf8"
  | _ => "bad-op"

def handleMatch : List String → String
  | [p, ls] =>
    match xarg p, (ls.splitOn ",").mapM xarg with
    | some p, some ls =>
      match compile p with
      | .ok a =>
        String.ofList (ls.map fun l =>
          match decode l with
          | some cs => if isMatch a cs then '1' else '0'
          | none => '-')
      | .err e => "err " ++ showErr e
      | .notUtf8 => "notutf8"
    | _, _ => "bad-op"
  | _ => "bad-op"

def showTable (t : List (Nat × Nat)) : String :=
  joinWith "," (t.map fun r => s!"{r.1}-{r.2}")

def handleTable : List String → String
  | ["w"] => showTable wordTable
  | ["d"] => showTable digitTable
  | ["s"] => showTable spaceTable
  | _ => "bad-op"

/-- `-` = absent -/
def optArg (s : String) : Option (Option (List Nat)) :=
  if s = "-" then some none else (xarg s).map some

def handleCreate : List String → String
  | [a, b, c, d, e, f, src] =>
    match optArg a, optArg b, optArg c, optArg d, optArg e, optArg f, optArg src with
    | some a, some b, some c, some d, some e, some f, some src =>
      match createPat ⟨a, b, c, d, e, f⟩ src with
      | .ok fs => showFilters fs
      | .error (.syntax k) => "usage " ++ showErr k
      | .error .notUtf8 => "usage notutf8"
    | _, _, _, _, _, _, _ => "bad-op"
  | _ => "bad-op"

end Grcov.Drv.C16Regex
