/-
Glob — the subset of `globset` 0.4 (default options, Unix) that the C11 domain uses:
literal bytes, `?`, `*`, `**/` (prefix), `/**` (suffix), `/**/` (infix). Follows
globset-0.4.16/src/glob.rs: `Parser::parse`, `parse_star`, `Tokens::to_regex_with`,
`tokens_to_regex` with `literal_separator = false` (so `*` and `?` cross '/'),
`case_insensitive = false`; matching is anchored at both ends and works on bytes.
Not modelled (the parser answers `none`): `[` classes, `{}` alternates, `\` escapes.
The regex `.` does not match LF: paths containing LF are outside the domain.
The harness compares `globMatch` with the real `globset` on every generated (glob, path) pair.
Core Lean only.
-/
import GrcovModel.UPath
namespace Grcov.Glob
open Grcov.UPath

inductive Tok where
  | lit (b : Nat)      -- Token::Literal, one byte of its UTF-8 encoding
  | any                -- `?`            regex `.`
  | star               -- `*`            regex `.*`
  | recPrefix          -- leading `**/`  regex `(?:/?|.*/)`
  | recSuffix          -- trailing `/**` regex `/.*`
  | recZOM             -- `/**/`         regex `(?:/|/.*/)`
deriving DecidableEq, Repr

def unsupported (c : Nat) : Bool := c = 91 || c = 123 || c = 125 || c = 92

/-- `pop_token` + re-push at the end of `parse_star` -/
def replaceTop (isSuffix : Bool) : List Tok → List Tok
  | .recPrefix :: r => .recPrefix :: r
  | .recSuffix :: r => .recSuffix :: r
  | _ :: r => (if isSuffix then Tok.recSuffix else Tok.recZOM) :: r
  | [] => []

/-- parser state: the token stack in reverse, the byte bumped before the pending stars, the number
of '*' seen and not yet turned into tokens (`parse_star` looks one or two bytes ahead) -/
structure PSt where
  rev : List Tok := []
  prev : Option Nat := none
  pend : Nat := 0
  bad : Bool := false

/-- one byte with no star pending (`Parser::parse` dispatch) -/
def step0 (st : PSt) (c : Nat) : PSt :=
  if c = 42 then { st with pend := 1 }
  else if c = 63 then { st with rev := .any :: st.rev, prev := some c }
  else if unsupported c then { st with bad := true }
  else { st with rev := .lit c :: st.rev, prev := some c }

def pushStars (st : PSt) : PSt :=
  { st with rev := .star :: .star :: st.rev, prev := some 42, pend := 0 }

/-- `Parser::parse` + `parse_star`, one byte at a time -/
def step (st : PSt) (c : Nat) : PSt :=
  match st.pend with
  | 0 => step0 st c
  | 1 =>
    if c = 42 then { st with pend := 2 }
    else step0 { st with rev := .star :: st.rev, prev := some 42, pend := 0 } c
  | _ =>
    if st.rev = [] then
      if c = 47 then { st with rev := [.recPrefix], prev := some 47, pend := 0 }
      else step0 (pushStars st) c
    else if st.prev ≠ some 47 then step0 (pushStars st) c
    else if c = 47 then { st with rev := replaceTop false st.rev, prev := some 47, pend := 0 }
    else step0 (pushStars st) c

/-- end of the glob -/
def finish (st : PSt) : Option (List Tok) :=
  if st.bad then none
  else match st.pend with
    | 0 => some st.rev.reverse
    | 1 => some (Tok.star :: st.rev).reverse
    | _ =>
      if st.rev = [] then some [Tok.recPrefix]
      else if st.prev ≠ some 47 then some (Tok.star :: Tok.star :: st.rev).reverse
      else some (replaceTop true st.rev).reverse

def parse (g : Bytes) : Option (List Tok) := finish (g.foldl step {})

/-- every suffix of `bs`, `bs` itself first -/
def tails : Bytes → List Bytes
  | [] => [[]]
  | b :: bs => (b :: bs) :: tails bs

/-- the suffixes that follow a '/' -/
def afterSlashes : Bytes → List Bytes
  | [] => []
  | b :: bs => if b = 47 then bs :: afterSlashes bs else afterSlashes bs

/-- anchored match of a token sequence against a byte string (the regex of `tokens_to_regex`) -/
def matchToks : List Tok → Bytes → Bool
  | [], bs => bs.isEmpty
  | .lit c :: ts, bs => match bs with
    | b :: bs' => b == c && matchToks ts bs'
    | [] => false
  | .any :: ts, bs => match bs with
    | _ :: bs' => matchToks ts bs'
    | [] => false
  | .star :: ts, bs => (tails bs).any (matchToks ts)
  | .recPrefix :: ts, bs => matchToks ts bs || (afterSlashes bs).any (matchToks ts)
  | .recSuffix :: ts, bs => match bs with
    | b :: bs' => b == 47 && (tails bs').any (matchToks ts)
    | [] => false
  | .recZOM :: ts, bs => match bs with
    | b :: bs' => b == 47 && (matchToks ts bs' || (afterSlashes bs').any (matchToks ts))
    | [] => false

/-- `Glob::new(g).compile_matcher().is_match(p)`; `none` = glob outside the modelled subset -/
def globMatch (g p : Bytes) : Option Bool :=
  match parse g with
  | none => none
  | some toks => some (if toks = [Tok.recPrefix] then true else matchToks toks p)

/-- compiled glob set: the token lists -/
abbrev GlobSet := List (List Tok)

def compile (gs : List Bytes) : Option GlobSet := gs.mapM parse

def matchOne (toks : List Tok) (p : Bytes) : Bool :=
  if toks = [Tok.recPrefix] then true else matchToks toks p

/-- `GlobSet::is_match` -/
def setMatch (gs : GlobSet) (p : Bytes) : Bool := gs.any fun t => matchOne t p

end Grcov.Glob
