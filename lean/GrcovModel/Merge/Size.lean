/-
C14, part TextCost – size measures of a reader's result (`Vec<(String, CovResult)>`), shared by the
cost views of the lcov, gcov and JaCoCo readers. Core Lean only.
-/
import GrcovModel.Merge
namespace Grcov.Size
open Grcov

/-- map entries of one `CovResult`: lines + functions + lines with a branch vector -/
def covEntries (c : Cov) : Nat := c.lines.length + c.functions.length + c.branches.length

/-- total length of the vectors of a map -/
def sumLen {κ : Type} (m : List (κ × List Bool)) : Nat := (m.map fun kv => kv.2.length).sum

/-- `Vec<bool>` slots of one `CovResult` -/
def covSlots (c : Cov) : Nat := sumLen c.branches

def resEntries (rs : List (List Nat × Cov)) : Nat := (rs.map fun r => covEntries r.2).sum
def resSlots (rs : List (List Nat × Cov)) : Nat := (rs.map fun r => covSlots r.2).sum
/-- bytes of all file and function names -/
def resNameBytes (rs : List (List Nat × Cov)) : Nat :=
  (rs.map fun r => r.1.length + (r.2.functions.map fun f => f.1.length).sum).sum
/-- the largest line count (0 for no lines) -/
def resMaxCount (rs : List (List Nat × Cov)) : Nat :=
  rs.foldl (fun m r => r.2.lines.foldl (fun m kv => max m kv.2) m) 0
/-- the longest branch vector -/
def resMaxVec (rs : List (List Nat × Cov)) : Nat :=
  rs.foldl (fun m r => r.2.branches.foldl (fun m kv => max m kv.2.length) m) 0

end Grcov.Size
