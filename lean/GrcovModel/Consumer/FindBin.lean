/-
Consumer.FindBin (C20, part `LlvmTree`) — `find_binaries` (src/llvm_tools.rs 69-113) on binary
trees WITH symbolic links, hidden entries and files shorter than the sniff buffer.

What the code does, program point by program point:
* `fs::metadata(binary_path)` FOLLOWS links: a missing path (or a dangling link) panics; a file —
  also a link to a file — is returned as it was given, unsniffed; otherwise the path is walked.
* `ignore::WalkBuilder::new(binary_path).threads(n).build_parallel()` with the crate's defaults:
  `follow_links = false` (a link inside the tree is reported as a link: it is never descended
  into, so links to directories, links out of the tree, loops and dangling links are all just
  skipped entries), `hidden = true` (every entry whose NAME starts with '.' is skipped, with
  everything below it: libtool's `.libs/` is invisible), and the ignore-file machinery
  (`.ignore`, `.gitignore`/`.git/info/exclude`/global excludes inside a git repository, also of
  PARENT directories) — the last is outside this model: the harness generates no such files.
  The root itself is never filtered (it may be hidden, it may be a link to a directory).
* the visitor: `entry.file_type().unwrap().is_file()` is the type of the ENTRY (not of a link's
  target), so only regular files go on; `File::open`, `take(128).read(&mut bytes)`; `read == 0`
  (empty file) is skipped; `infer::is_app(&bytes[..read])` looks at the bytes read from THIS file
  only (since fix 647649e; before it the whole per-thread buffer was sniffed, so a file shorter
  than 128 bytes was judged together with what the previous file had left: former finding
  C20-findbin-stale-sniff-buffer, now a corpus case). The verdict on a file therefore depends on
  its own first min(len, 128) bytes alone — with the matchers' length conditions now effective:
  a 4-byte `\x7fELF` is not an application (`is_elf` wants more than 52 bytes), `MZ` is.
The walk order and the distribution of the entries over the worker threads are not determined, so
the model is parametrised by a *schedule*: the walked entries split into one visiting sequence
per worker. An ignore file is data here: each entry carries whether some `.ignore`/`.gitignore`
rule in force matches it or a directory above it (`ignored`); the rule language itself is the
`ignore` crate's and not modelled. Core Lean only.
-/
import GrcovModel.Base
namespace Grcov.Consumer.FindBin

abbrev Bytes := List Nat

inductive EKind where
  | file (content : Bytes)
  | dir
  | symlink            -- whatever it points at: a file, a directory, nothing, the tree itself
deriving DecidableEq, Repr

/-- an entry below the root: its components relative to the root, what `lstat` says, and whether
an ignore rule in force matches it or one of its directories -/
structure Entry where
  path : List Bytes
  kind : EKind
  ignored : Bool := false
deriving DecidableEq, Repr

def hiddenName (n : Bytes) : Bool := n.head? = some 46

/-- no component below the root starts with '.' -/
def visible (e : Entry) : Bool := e.path.all fun n => !hiddenName n

/-- what the walker hands to the visitor -/
def walked (tree : List Entry) : List Entry := tree.filter fun e => visible e && !e.ignored

/-- the verdict of the visitor on an entry: a non-empty regular file whose first (at most) 128
bytes sniff as an application -/
def accepts (isApp : Bytes → Bool) (e : Entry) : Bool :=
  match e.kind with
  | .file c => !c.isEmpty && isApp (c.take 128)
  | _ => false

/-- the visitor on one entry: the path if it is sent -/
def visit (isApp : Bytes → Bool) (e : Entry) : Option (List Bytes) :=
  if accepts isApp e then some e.path else none

/-- one worker: its entries in visiting order -/
def runThread (isApp : Bytes → Bool) (es : List Entry) : List (List Bytes) := es.filterMap (visit isApp)

/-- all workers; the order of the result is `try_recv` order: observe it as a multiset -/
def findBin (isApp : Bytes → Bool) (sched : List (List Entry)) : List (List Bytes) :=
  sched.flatMap (runThread isApp)

/-- what `fs::metadata(binary_path)` (following links) says about the root -/
inductive Root where
  | missing
  | file
  | dir (tree : List Entry)

/-- `find_binaries`: `none` = the panic on a missing path; `[[]]` = the path itself -/
def findBinaries (isApp : Bytes → Bool) (sched : List (List Entry)) : Root → Option (List (List Bytes))
  | .missing => none
  | .file => some [[]]
  | .dir _ => some (findBin isApp sched)

/-- every regular executable of the tree, walked or not: what C20's clause "every executable under
--binary-path" talks about -/
def executables (isApp : Bytes → Bool) (tree : List Entry) : List Entry := tree.filter (accepts isApp)

/-- the part of `infer::is_app` the harness exercises, with the matchers' length conditions:
ELF (more than 52 bytes), MZ (`is_exe`/`is_dll`, more than 1 byte), LLVM bitcode `BC` (at least 2) -/
def isAppLite (buf : Bytes) : Bool :=
  (decide (52 < buf.length) && buf.take 4 == [127, 69, 76, 70])
    || buf.take 2 == [77, 90] || buf.take 2 == [66, 67]

end Grcov.Consumer.FindBin
