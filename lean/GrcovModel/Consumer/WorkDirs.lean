/-
Consumer.WorkDirs (C20) — the workers' directories inside the ONE temporary directory of a run.

`Consumer.runItems` gives every worker a directory of its own that nobody else touches. In the
program that is not an assumption one may make for free: all of it lives below one `tempdir()`
(src/main.rs): worker `i` works in `tmp/<i>` (`tmp_path.join(format!("{}", i))`), and the producer
extracts zip entries / links the files of directory inputs to `<root>/<relative name>_<n>.<ext>`,
where the relative name keeps the input's own directories. Before fix 232bfd3 `<root>` was `tmp`
itself, so an input directory called `0` landed in worker 0's directory (finding
C20-input-dir-named-like-worker-dir); since the fix it is `tmp/inputs`.

This file models the REAL tree below `tmp` (`Tree`: full component paths) and the run as a sequence
of events on it — the producer extracting an entry (creating the missing directories on the way:
`create_dir_all`), worker `i` processing an item on what it finds in `tmp/<i>` — in any
interleaving. The layout (where an extraction goes) is a parameter, so that both the present and
the former layout can be run. Core Lean only.
-/
import GrcovModel.Consumer
namespace Grcov.Consumer.WorkDirs
open Grcov Grcov.Consumer

/-- the components of a path -/
abbrev Path := List Bytes

/-- decimal digits (`format!("{}", i)`) -/
def decDigits : Nat → Nat → List Nat
  | 0, _ => [48]
  | fuel + 1, n => if n < 10 then [48 + n] else decDigits fuel (n / 10) ++ [48 + n % 10]
def dec (n : Nat) : Bytes := decDigits n n

def INPUTS : Bytes := [105, 110, 112, 117, 116, 115]   -- "inputs"

/-- main.rs: `tmp_path.join(format!("{}", i))` -/
def workerDir (tmp : Path) (i : Nat) : Path := tmp ++ [dec i]

/-- where the producer puts the entry with relative name `rel` (its directories and the numbered
file name): since fix 232bfd3 below `tmp/inputs` … -/
def layoutNew (tmp rel : Path) : Path × Path := (tmp ++ [INPUTS], rel)
/-- … before it directly below `tmp` -/
def layoutOld (tmp rel : Path) : Path × Path := (tmp, rel)

abbrev Tree := List (Path × Entry)

/-- `p` is a direct child of `wd`: its name -/
def under1 (wd p : Path) : Option Bytes :=
  if wd.isPrefixOf p then
    match p.drop wd.length with
    | [n] => some n
    | _ => none
  else none

/-- what `WalkDir`/`exists()` show of a directory: its direct children (a nested directory shows
as a sub-directory entry) -/
def view (fs : Tree) (wd : Path) : Dir := fs.filterMap fun pe => (under1 wd pe.1).map fun n => (n, pe.2)

/-- the worker's directory after its step: its children replaced by the new listing -/
def put (fs : Tree) (wd : Path) (d : Dir) : Tree :=
  (fs.filter fun pe => (under1 wd pe.1).isNone) ++ d.map fun ne => (wd ++ [ne.1], ne.2)

/-- `create_dir_all(parent)`: the directories between `base` and the file -/
def parents (base : Path) : Path → List Path
  | [] => []
  | [_] => []
  | d :: rest => (base ++ [d]) :: parents (base ++ [d]) rest

/-- an extraction: missing directories, then the file -/
def addFile (fs : Tree) (base rel : Path) (c : Nat) : Tree :=
  fs ++ (parents base rel).map (fun p => (p, Entry.subdir)) ++ [(base ++ rel, Entry.file c)]

inductive Ev where
  | extract (rel : Path) (c : Nat)
  | work (i : Nat) (it : Item)

structure G where
  fs : Tree
  types : Nat → GcovType      -- every worker's latched gcov mode (thread-local)
  dead : Nat → Bool           -- a worker that panicked takes no more items

def g0 : G := ⟨[], fun _ => .unknown, fun _ => false⟩

def upd {α : Type} (f : Nat → α) (i : Nat) (a : α) : Nat → α := fun j => if j = i then a else f j

/-- one event on the real tree -/
def gstep (layout : Path → Path → Path × Path) (env : Env) (tmp : Path) (g : G) : Ev → G × List (Nat × StepResult)
  | .extract rel c => ({ g with fs := addFile g.fs (layout tmp rel).1 (layout tmp rel).2 c }, [])
  | .work i it =>
    if g.dead i then (g, [])
    else
      let wd := workerDir tmp i
      let r := step env ⟨g.types i, view g.fs wd⟩ it
      ({ fs := put g.fs wd r.1.dir, types := upd g.types i r.1.gcovType,
         dead := upd g.dead i (decide (r.2 = .panic)) }, [(i, r.2)])

/-- a run: what every worker yielded, in event order -/
def grun (layout : Path → Path → Path × Path) (env : Env) (tmp : Path) : G → List Ev → List (Nat × StepResult)
  | _, [] => []
  | g, e :: es => (gstep layout env tmp g e).2 ++ grun layout env tmp (gstep layout env tmp g e).1 es

/-- the items worker `i` picked up, in order -/
def itemsOf (i : Nat) : List Ev → List Item
  | [] => []
  | .work j it :: es => if j = i then it :: itemsOf i es else itemsOf i es
  | .extract _ _ :: es => itemsOf i es

/-- what worker `i` yielded -/
def resultsOf (i : Nat) (rs : List (Nat × StepResult)) : List StepResult :=
  (rs.filter fun r => r.1 = i).map (·.2)

end Grcov.Consumer.WorkDirs
