/-
Consumer.Llvm (C20) — the `Env.llvm` parameter of the `Consumer` model (what
`llvm_profiles_to_lcov` returns for a profile list) built from the `LlvmTools` model and from what
`find_binaries` returned, instead of being opaque; and the classification of what a profile item
does to the pipeline (`LlvmFate`).

Order of events in `llvm_profiles_to_lcov`: the merge runs first (`?`: a failing merge is an `Err`,
`find_binaries` is never reached, so a missing `--binary-path` does not panic then); then
`find_binaries` (`none` = it panicked: the path does not exist); then one export per binary.
Contents are byte strings in `LlvmTools` and numbers in `Consumer`: `enc` names them.
Core Lean only.
-/
import GrcovModel.Consumer
import GrcovModel.LlvmTools
namespace Grcov.Consumer.Llvm
open Grcov Grcov.Consumer

def llvmOf (t : LlvmTools.Tools) (bins : Option (List Bytes)) (enc : Bytes → Nat) (ps : List Bytes) : LlvmOut :=
  match LlvmTools.merged t ps with
  | none => ⟨.err, none⟩
  | some pd =>
    match bins with
    | none => ⟨.panic, some (enc pd)⟩
    | some bs => ⟨.ok ((bs.filterMap (t.export_ · pd)).map enc), some (enc pd)⟩

/-- what a profile item is for the pipeline: merged into the result map (with how many of its
exports parsed and how many were skipped with "Error parsing file"), rejected, or the worker died -/
inductive LlvmFate where
  | merged (parsed skipped : Nat)
  | rejected
  | died
deriving DecidableEq, Repr

def llvmFate (env : Env) (ps : List Bytes) : LlvmFate :=
  if !env.hasBinary then .rejected
  else
    match (env.llvm ps).res with
    | .panic => .died
    | .err => .rejected
    | .ok ls => .merged (ls.filter fun l => (env.parseLcov l).isSome).length
                        (ls.filter fun l => (env.parseLcov l).isNone).length

end Grcov.Consumer.Llvm
