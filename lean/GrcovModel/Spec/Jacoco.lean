/-
Specification side of C10: what a JaCoCo report *means* (`Report`, `sem`), written without any
reference to the parser loops, and the set of event sequences that serialise a report
(`XReport`, `events`): a concrete syntax tree that carries, next to the abstract content, every
choice a serialiser is free to make –

* the order of `<class>` and `<sourcefile>` elements inside a package (the body is one list);
* the full attribute list of every element, in any order, with any extra attributes
  (`wf` only asks that the keys are distinct, as XML demands – and non-empty: the empty key is the
  model's marker for an attribute SYNTAX error, `Jacoco.isAttrErr` –, and that the attributes the format
  defines are present with a value that denotes the abstract one: `HasAttr`/`HasNum`/`HasRawNum`,
  i.e. any entity escaping of a name, any numeral the number reader accepts);
* empty-element tags vs start/end tags (`selfClose`), namespace prefixes on element names
  (`tag`, only its local name is fixed);
* any ignorable events between the elements the parser uses: text, comments, declaration,
  doctype, unknown elements (session info, group wrappers, counters of other types, …) –
  a `junk e` segment is *any* single event that the loop at that level does not react to.
-/
import GrcovModel.Jacoco
namespace Grcov.Jacoco.Spec
open Grcov AList Grcov.Jacoco

/-! ## abstract reports -/

structure Line where
  nr : Nat
  mi : Nat
  ci : Nat
  mb : Nat
  cb : Nat
deriving DecidableEq, Repr

structure Method where
  name : Name
  /-- the `line` attribute (`#IMPLIED` in report.dtd: absent for classes without debug info) -/
  line : Option Nat
  /-- `covered` of the method's METHOD counter (`none`: the method has no such counter) -/
  covered : Option Nat
deriving DecidableEq, Repr

structure Class where
  /-- fully qualified name, e.g. `org/example/Person$Age` -/
  fq : Name
  sourcefile : Option Name
  methods : List Method
deriving DecidableEq, Repr

structure SourceFile where
  name : Name
  lines : List Line
deriving DecidableEq, Repr

inductive Item where
  | cls (c : Class)
  | src (s : SourceFile)
deriving DecidableEq, Repr

structure Package where
  name : Name
  items : List Item
deriving DecidableEq, Repr

abbrev Report := List Package

/-! ## meaning -/

def Line.isBranch (l : Line) : Bool := decide (l.mb + l.cb > 0)

/-- statement lines: count 1 iff `ci > 0` -/
def lineCov (ls : List Line) : List (Nat × Nat) :=
  ls.filterMap fun l => if l.isBranch then none else some (l.nr, if l.ci > 0 then 1 else 0)

/-- branch lines: `cb` taken entries followed by `mb` not-taken entries -/
def branchCov (ls : List Line) : List (Nat × List Bool) :=
  ls.filterMap fun l =>
    if l.isBranch then some (l.nr, List.replicate l.cb true ++ List.replicate l.mb false) else none

/-- `Person$Age` of `org/example/Person$Age` -/
def Class.simple (c : Class) : Name := afterLast cSlash c.fq

/-- the class's source file: the `sourcefilename` attribute, else `<top-level class>.java` -/
def Class.file (c : Class) : Name :=
  match c.sourcefile with
  | some f => f
  | none => beforeFirst cDollar c.simple ++ sDotJava

def Method.executed (m : Method) : Bool :=
  match m.covered with
  | some c => decide (c > 0)
  | none => false

/-- one entry per `<method>`, in document order (start line 0 stands for "no `line` attribute";
the parser rejects such a report, see `Report.lined`) -/
def Class.funs (c : Class) : List (Name × Fn) :=
  c.methods.map fun m => (c.simple ++ cHash :: m.name, ⟨m.line.getD 0, m.executed⟩)

def Item.file : Item → Name
  | .cls c => c.file
  | .src s => s.name

/-- distinct file names in order of first appearance -/
def fileNames (items : List Item) : List Name :=
  items.foldl (fun acc it => if it.file ∈ acc then acc else acc ++ [it.file]) []

def Item.funsFor (f : Name) : Item → List (Name × Fn)
  | .cls c => if c.file = f then c.funs else []
  | .src _ => []

def Item.srcFor (f : Name) : Item → Option SourceFile
  | .src s => if s.name = f then some s else none
  | .cls _ => none

/-- the lines of the `<sourcefile>` element called `f` (none: no lines) -/
def linesFor (items : List Item) (f : Name) : List Line :=
  match (items.filterMap (Item.srcFor f)).head? with
  | some s => s.lines
  | none => []

def covFor (items : List Item) (f : Name) : Cov :=
  { lines := lineCov (linesFor items f)
    branches := branchCov (linesFor items f)
    functions := items.flatMap (Item.funsFor f) }

/-- `package/file`, no leading slash -/
def path (package file : Name) : Name := (package ++ cSlash :: file).dropWhile (· = cSlash)

def Package.sem (p : Package) : List (Name × Cov) :=
  (fileNames p.items).map fun f => (path p.name f, covFor p.items f)

def sem (r : Report) : List (Name × Cov) := r.flatMap Package.sem

/-! ### what the parser does with repeated method names

The parser keys the functions of a file by `Class#name` (the `desc` attribute is not read) and
inserts: when a name repeats – overloaded methods, several `<init>` – later entries replace
earlier ones. `semL` is `sem` with exactly that rule; it equals `sem` when the names are unique
(`Lemmas.semL_eq_sem`). -/

/-- `HashMap::insert` of every pair in order: the value of a key is the one of its LAST
occurrence (`Lemmas.get?_insertAll`); the list keeps the position of the first occurrence -/
def insertAll (kvs : List (Name × Fn)) : List (Name × Fn) :=
  kvs.foldl (fun m kv => set m kv.1 kv.2) []

/-- the value of the last pair with key `k` -/
def lastVal (kvs : List (Name × Fn)) (k : Name) : Option Fn :=
  ((kvs.filter fun kv => decide (kv.1 = k)).getLast?).map (·.2)

def covForL (items : List Item) (f : Name) : Cov :=
  { lines := lineCov (linesFor items f)
    branches := branchCov (linesFor items f)
    functions := insertAll (items.flatMap (Item.funsFor f)) }

def Package.semL (p : Package) : List (Name × Cov) :=
  (fileNames p.items).map fun f => (path p.name f, covForL p.items f)

def semL (r : Report) : List (Name × Cov) := r.flatMap Package.semL

/-! ### which abstract reports are well formed -/

def SourceFile.wf (s : SourceFile) : Bool := decide (s.lines.map (·.nr)).Nodup

def Class.wf (c : Class) : Bool := decide (c.methods.map (·.name)).Nodup

def Item.wf : Item → Bool
  | .cls c => c.wf
  | .src s => s.wf

def Item.srcName? : Item → Option Name
  | .src s => some s.name
  | .cls _ => none

/-- method names unique within their class, line numbers unique within a source file, source file
names unique within the package, and `Class#method` unique within a file -/
def Package.wf (p : Package) : Bool :=
  p.items.all Item.wf
  && decide (p.items.filterMap Item.srcName?).Nodup
  && (fileNames p.items).all fun f => decide ((p.items.flatMap (Item.funsFor f)).map (·.1)).Nodup

def Report.wf (r : Report) : Bool := r.all Package.wf

def Item.wfSrc : Item → Bool
  | .cls _ => true
  | .src s => s.wf

/-- the part of `Package.wf` that does not concern methods: line numbers unique within a source
file, source file names unique within the package -/
def Package.wfSrc (p : Package) : Bool :=
  p.items.all Item.wfSrc && decide (p.items.filterMap Item.srcName?).Nodup

def Report.wfSrc (r : Report) : Bool := r.all Package.wfSrc

/-- every `<method>` has a `line` attribute -/
def Class.lined (c : Class) : Bool := c.methods.all fun m => m.line.isSome

def Item.lined : Item → Bool
  | .cls c => c.lined
  | .src _ => true

def Report.lined (r : Report) : Bool := r.all fun p => p.items.all Item.lined

/-- every branch line asks for a vector of at most `cap` entries -/
def SourceFile.fits (cap : Nat) (s : SourceFile) : Bool :=
  s.lines.all fun l => decide (l.cb + l.mb ≤ cap)

def Item.fits (cap : Nat) : Item → Bool
  | .cls _ => true
  | .src s => s.fits cap

def Report.fits (cap : Nat) (r : Report) : Bool := r.all fun p => p.items.all (Item.fits cap)

/-! ## serialisations -/

/-- the attribute list of a well-formed start tag: distinct keys (XML; the parser itself no longer
checks this since /repo ae885a6, see `C10_repeated_attribute_*`), every key a real key (non-empty:
no attribute syntax error) -/
def keysOk (attrs : List Attr) : Bool :=
  decide (attrs.map (·.1)).Nodup && attrs.all fun a => !isAttrErr a

/-- attribute `k` is present and its value unescapes to `v` -/
def hasAttr (attrs : List Attr) (k v : Name) : Bool :=
  attrs.any fun a => decide (a.1 = k) && decide (unescape a.2 = some v)

/-- attribute `k` is present and its unescaped value is a numeral for `n` (≤ bound) -/
def hasNum (bound : Nat) (attrs : List Attr) (k : Name) (n : Nat) : Bool :=
  attrs.any fun a => decide (a.1 = k) &&
    (match unescape a.2 with
     | some s => decide (parseUnsigned bound s = some n)
     | none => false)

/-- attribute `k` is present and its raw value is a numeral for `n` (≤ bound) -/
def hasRawNum (bound : Nat) (attrs : List Attr) (k : Name) (n : Nat) : Bool :=
  attrs.any fun a => decide (a.1 = k) && decide (parseUnsigned bound a.2 = some n)

def hasNoKey (attrs : List Attr) (k : Name) : Bool := attrs.all fun a => decide (a.1 ≠ k)

/-- `<tag attrs>body</tag>`, or `<tag attrs/>` when allowed and chosen -/
def elem (selfClose : Bool) (tag : Name) (attrs : List Attr) (body : List XmlEvent) : List XmlEvent :=
  if selfClose && body.isEmpty then [.empty tag attrs]
  else .start tag attrs :: body ++ [.end_ tag]

/-- an event (before expansion of empty elements) that a loop ignores: `stop` lists the local
names whose `Start` the loop reacts to, `close` the local name whose `End` ends the loop -/
def ignorable (stops : List Name) (close : Name) : XmlEvent → Bool
  | .start n _ => decide (localName n ∉ stops)
  | .empty n _ => decide (localName n ∉ stops) && decide (localName n ≠ close)
  | .end_ n => decide (localName n ≠ close)
  | .text => true
  | .other => true
  | .bad => false

/-! ### source files -/

inductive SSeg where
  | line (l : Line) (tag : Name) (attrs : List Attr) (selfClose : Bool)
  | junk (e : XmlEvent)
deriving DecidableEq, Repr

def SSeg.events : SSeg → List XmlEvent
  | .line _ tag attrs sc => elem sc tag attrs []
  | .junk e => [e]

def SSeg.wf : SSeg → Bool
  | .line l tag attrs _ =>
    decide (localName tag = sLine) && keysOk attrs
    && hasRawNum U64MAX attrs sCi l.ci && hasRawNum U64MAX attrs sCb l.cb
    && hasRawNum U64MAX attrs sMb l.mb && hasRawNum U32MAX attrs sNr l.nr
  | .junk e => ignorable [sLine] sSourcefile e

def SSeg.line? : SSeg → Option Line
  | .line l _ _ _ => some l
  | .junk _ => none

structure XSource where
  name : Name
  tag : Name
  attrs : List Attr
  body : List SSeg
  selfClose : Bool
deriving DecidableEq, Repr

def XSource.events (s : XSource) : List XmlEvent :=
  elem s.selfClose s.tag s.attrs (s.body.flatMap SSeg.events)

def XSource.wf (s : XSource) : Bool :=
  decide (localName s.tag = sSourcefile) && keysOk s.attrs && hasAttr s.attrs sName s.name
  && s.body.all SSeg.wf

def XSource.abs (s : XSource) : SourceFile := ⟨s.name, s.body.filterMap SSeg.line?⟩

/-! ### methods -/

inductive MSeg where
  /-- `<counter type="METHOD" covered=…/>` -/
  | counter (covered : Nat) (tag : Name) (attrs : List Attr) (selfClose : Bool)
  /-- a counter of another type -/
  | otherCounter (ty : Name) (tag : Name) (attrs : List Attr) (selfClose : Bool)
  | junk (e : XmlEvent)
deriving DecidableEq, Repr

def MSeg.events : MSeg → List XmlEvent
  | .counter _ tag attrs sc => elem sc tag attrs []
  | .otherCounter _ tag attrs sc => elem sc tag attrs []
  | .junk e => [e]

def MSeg.wf : MSeg → Bool
  | .counter covered tag attrs _ =>
    decide (localName tag = sCounter) && keysOk attrs && hasAttr attrs sType sMETHOD
    && hasNum U32MAX attrs sCovered covered
  | .otherCounter ty tag attrs _ =>
    decide (localName tag = sCounter) && keysOk attrs && hasAttr attrs sType ty
    && decide (ty ≠ sMETHOD)
  | .junk e => ignorable [sCounter] sMethod e

def MSeg.covered? : MSeg → Option Nat
  | .counter c _ _ _ => some c
  | _ => none

structure XMethod where
  name : Name
  line : Option Nat
  tag : Name
  attrs : List Attr
  body : List MSeg
  selfClose : Bool
deriving DecidableEq, Repr

def XMethod.events (m : XMethod) : List XmlEvent :=
  elem m.selfClose m.tag m.attrs (m.body.flatMap MSeg.events)

def XMethod.wf (m : XMethod) : Bool :=
  decide (localName m.tag = sMethod) && keysOk m.attrs && hasAttr m.attrs sName m.name
  && (match m.line with
      | some l => hasNum U32MAX m.attrs sLine l
      | none => hasNoKey m.attrs sLine)
  && m.body.all MSeg.wf

/-- the last METHOD counter counts -/
def XMethod.abs (m : XMethod) : Method :=
  ⟨m.name, m.line, (m.body.filterMap MSeg.covered?).getLast?⟩

/-! ### classes -/

inductive CSeg where
  | method (m : XMethod)
  | junk (e : XmlEvent)
deriving DecidableEq, Repr

def CSeg.events : CSeg → List XmlEvent
  | .method m => m.events
  | .junk e => [e]

def CSeg.wf : CSeg → Bool
  | .method m => m.wf
  | .junk e => ignorable [sMethod] sClass e

def CSeg.method? : CSeg → Option Method
  | .method m => some m.abs
  | .junk _ => none

structure XClass where
  fq : Name
  sourcefile : Option Name
  tag : Name
  attrs : List Attr
  body : List CSeg
  selfClose : Bool
deriving DecidableEq, Repr

def XClass.events (c : XClass) : List XmlEvent :=
  elem c.selfClose c.tag c.attrs (c.body.flatMap CSeg.events)

def XClass.wf (c : XClass) : Bool :=
  decide (localName c.tag = sClass) && keysOk c.attrs && hasAttr c.attrs sName c.fq
  && (match c.sourcefile with
      | some f => hasAttr c.attrs sSourcefilename f
      | none => hasNoKey c.attrs sSourcefilename)
  && c.body.all CSeg.wf

def XClass.abs (c : XClass) : Class := ⟨c.fq, c.sourcefile, c.body.filterMap CSeg.method?⟩

/-! ### packages and reports -/

inductive PSeg where
  | cls (c : XClass)
  | src (s : XSource)
  | junk (e : XmlEvent)
deriving DecidableEq, Repr

def PSeg.events : PSeg → List XmlEvent
  | .cls c => c.events
  | .src s => s.events
  | .junk e => [e]

def PSeg.wf : PSeg → Bool
  | .cls c => c.wf
  | .src s => s.wf
  | .junk e => ignorable [sClass, sSourcefile] sPackage e

def PSeg.item? : PSeg → Option Item
  | .cls c => some (.cls c.abs)
  | .src s => some (.src s.abs)
  | .junk _ => none

structure XPackage where
  name : Name
  tag : Name
  attrs : List Attr
  body : List PSeg
  selfClose : Bool
deriving DecidableEq, Repr

def XPackage.events (p : XPackage) : List XmlEvent :=
  elem p.selfClose p.tag p.attrs (p.body.flatMap PSeg.events)

def XPackage.wf (p : XPackage) : Bool :=
  decide (localName p.tag = sPackage) && keysOk p.attrs && hasAttr p.attrs sName p.name
  && p.body.all PSeg.wf

def XPackage.abs (p : XPackage) : Package := ⟨p.name, p.body.filterMap PSeg.item?⟩

inductive RSeg where
  | pkg (p : XPackage)
  /-- anything outside the packages: declaration, doctype, `<report>`, `<sessioninfo/>`,
  `<group>` wrappers and their end tags, report counters, text -/
  | junk (e : XmlEvent)
deriving DecidableEq, Repr

def RSeg.events : RSeg → List XmlEvent
  | .pkg p => p.events
  | .junk e => [e]

/-- at report level every `End` is ignored: only `Start(package)` matters -/
def topIgnorable : XmlEvent → Bool
  | .start n _ => decide (localName n ≠ sPackage)
  | .empty n _ => decide (localName n ≠ sPackage)
  | .bad => false
  | _ => true

def RSeg.wf : RSeg → Bool
  | .pkg p => p.wf
  | .junk e => topIgnorable e

def RSeg.pkg? : RSeg → Option Package
  | .pkg p => some p.abs
  | .junk _ => none

abbrev XReport := List RSeg

/-- the event sequence of a serialised report (then `Eof` for ever) -/
def events (x : XReport) : List XmlEvent := x.flatMap RSeg.events

/-- the abstract report a serialisation denotes -/
def abs (x : XReport) : Report := x.filterMap RSeg.pkg?

/-- a well-formed serialisation of a well-formed report (method names unique within their class
and `Class#method` unique within a file: the quantifier of the property) -/
def wf (x : XReport) : Bool := x.all RSeg.wf && Report.wf (abs x)

/-- a well-formed serialisation of ANY report as far as methods go (names may repeat: overloads);
line numbers unique within a source file, source file names unique within a package -/
def wfSrc (x : XReport) : Bool := x.all RSeg.wf && Report.wfSrc (abs x)

/-- the two conditions under which the parser returns `Ok` on a well-formed serialisation: every
`<method>` has a `line` attribute, and no `<line>` asks for a branch vector longer than `cap` -/
def good (cap : Nat) (x : XReport) : Bool := Report.lined (abs x) && Report.fits cap (abs x)

/-! ### canonical renderers (to show that the conditions above are met by ordinary XML) -/

/-- minimal attribute escaping -/
def escape : Name → Name
  | [] => []
  | c :: r =>
    (if c = 60 then [38, 108, 116, 59]              -- &lt;
     else if c = 62 then [38, 103, 116, 59]         -- &gt;
     else if c = 38 then [38, 97, 109, 112, 59]     -- &amp;
     else if c = 39 then [38, 97, 112, 111, 115, 59]   -- &apos;
     else if c = 34 then [38, 113, 117, 111, 116, 59]  -- &quot;
     else [c]) ++ escape r

/-- decimal digits, most significant first; fuel `n` is plenty -/
def decimalAux : Nat → Nat → List Nat
  | 0, n => [48 + n % 10]
  | fuel + 1, n => if n < 10 then [48 + n] else decimalAux fuel (n / 10) ++ [48 + n % 10]

def decimal (n : Nat) : List Nat := decimalAux n n

end Grcov.Jacoco.Spec
