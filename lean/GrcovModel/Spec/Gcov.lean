/-
Specification side of C09: what a gcov report *means*, written over abstract syntax and
independently of the readers in `GrcovModel/Gcov.lean`.

* text form: `Report` (records before the first `file:`, then file sections of records, every
  line with its own line terminator), `Report.render : Report → Bytes`, `semText`;
* JSON form: `Doc` (the coverage model gcov ≥ 9 serialises), `Doc.toJson : Doc → Json`, `semJson`.

Text form: the three maps of a `Cov` are built separately, each by "last record for a key wins"
(`ofList`) or, for branches, "append in record order" (`groupPush`); `Lemmas/Gcov.lean`
characterises both through `get?`. Names (file, function) are the lossy UTF-8 decoding of the bytes
in the file (`Lcov.utf8Lossy`; valid UTF-8 is unchanged).

JSON form (gcov ≥ 9 lists a line once per instance of a function group – template instantiations,
constructor variants – and may list several functions under one demangled name): the denotation
is stated key by key, not as a fold over the entries:
* the count of line `l` is the SUM of the counts of all entries with `line_number = l`, clamped at
  2^64-1 (`lineCount`);
* the branch vector of `l` is as long as the longest `branches` array among its entries, and slot
  `i` is taken iff some entry has a positive count at position `i` (`lineBranches`);
* a function is executed iff some function entry with its demangled name has a positive execution
  count; its start line is the one of the first such entry (`fnExecuted`, `fnStart`);
* keys appear in the order of their first entry (`firstKeys`; the real maps are a `BTreeMap` and a
  hash map, the harness compares in key order).
-/
import GrcovModel.Gcov
namespace Grcov.Gcov.Spec
open Grcov AList Grcov.Gcov

/-- association list built by inserting in order: the last pair for a key wins -/
def ofList {κ α : Type} [DecidableEq κ] (kvs : List (κ × α)) : List (κ × α) :=
  kvs.foldl (fun m kv => set m kv.1 kv.2) []

/-- text-form branch vectors: every (line, taken) pair is appended to the vector of its line -/
def groupPush (bs : List (Nat × Bool)) : List (Nat × List Bool) :=
  bs.foldl (fun m b => Text.pushBranch m b.1 b.2) []

/-! ## Text form -/

/-- an unsigned decimal as written: optional '+', then digits (leading zeros allowed) -/
structure Dec where
  plus : Bool
  ds : Bytes
deriving Repr, DecidableEq

def valFrom (acc : Nat) (ds : Bytes) : Nat := ds.foldl (fun a d => a * 10 + (d - 48)) acc
def valOf (ds : Bytes) : Nat := valFrom 0 ds

def Dec.val (d : Dec) : Nat := valOf d.ds
def Dec.render (d : Dec) : Bytes := (if d.plus then [43] else []) ++ d.ds
def Dec.WF (d : Dec) : Prop := d.ds ≠ [] ∧ ∀ b ∈ d.ds, Text.isDigit b = true

inductive Count where
  | num (d : Dec)
  /-- '-' followed by `rest` (gcov prints negative counts for inconsistent profiles) -/
  | neg (rest : Bytes)
deriving Repr, DecidableEq

inductive BrTok where
  | taken | nottaken | notexec
deriving Repr, DecidableEq

def BrTok.render : BrTok → Bytes
  | .taken => [116, 97, 107, 101, 110]
  | .nottaken => [110, 111, 116, 116, 97, 107, 101, 110]
  | .notexec => [110, 111, 116, 101, 120, 101, 99]

inductive Rec where
  | lcount (line : Dec) (c : Count)
  /-- start line, call-count token, name (the name is the rest of the line: commas allowed) -/
  | function (start : Dec) (calls : Bytes) (name : Bytes)
  | branch (line : Dec) (tok : BrTok)
  /-- any other `key:value` line (`version:`, keys of other gcov versions) -/
  | other (key value : Bytes)
deriving Repr, DecidableEq

/-- no CR and no LF -/
def noEol (bs : Bytes) : Prop := ∀ b ∈ bs, Text.isEol b = false

def Rec.render : Rec → Bytes
  | .lcount l (.num d) => Text.kLcount ++ [58] ++ l.render ++ [44] ++ d.render
  | .lcount l (.neg r) => Text.kLcount ++ [58] ++ l.render ++ [44] ++ (45 :: r)
  | .function s c n => Text.kFunction ++ [58] ++ s.render ++ [44] ++ c ++ [44] ++ n
  | .branch l t => Text.kBranch ++ [58] ++ l.render ++ [44] ++ t.render
  | .other k v => k ++ [58] ++ v

/-- well-formed record: numbers are decimals that fit (line numbers u32, counts u64), free text
has no CR/LF, the call-count token has no comma, an `other` key has no ':' and is not one of the
four keys the reader knows -/
def Rec.WF : Rec → Prop
  | .lcount l (.num d) => l.WF ∧ l.val ≤ U32MAX ∧ d.WF ∧ d.val ≤ U64MAX
  | .lcount l (.neg r) => l.WF ∧ l.val ≤ U32MAX ∧ noEol r
  | .function s c n => s.WF ∧ s.val ≤ U32MAX ∧ noEol c ∧ 44 ∉ c ∧ noEol n
  | .branch l _ => l.WF ∧ l.val ≤ U32MAX
  | .other k v => noEol k ∧ noEol v ∧ 58 ∉ k ∧ k ≠ Text.kFile ∧ k ≠ Text.kFunction
      ∧ k ≠ Text.kLcount ∧ k ≠ Text.kBranch

/-- line terminator: `crs` CR bytes, then LF -/
def eol (crs : Nat) : Bytes := List.replicate crs 13 ++ [10]

structure Line where
  r : Rec
  crs : Nat
deriving Repr, DecidableEq

def Line.render (l : Line) : Bytes := l.r.render ++ eol l.crs

structure FileSec where
  name : Bytes
  crs : Nat
  recs : List Line
deriving Repr, DecidableEq

def FileSec.render (s : FileSec) : Bytes :=
  Text.kFile ++ [58] ++ s.name ++ eol s.crs ++ s.recs.flatMap Line.render

def FileSec.WF (s : FileSec) : Prop := noEol s.name ∧ ∀ l ∈ s.recs, l.r.WF

structure Report where
  /-- `other` records before the first `file:` line -/
  pre : List Line
  secs : List FileSec
deriving Repr, DecidableEq

def Report.render (r : Report) : Bytes :=
  r.pre.flatMap Line.render ++ r.secs.flatMap FileSec.render

def isOther : Rec → Prop
  | .other _ _ => True
  | _ => False

def Report.WF (r : Report) : Prop :=
  (∀ l ∈ r.pre, l.r.WF ∧ isOther l.r) ∧ ∀ s ∈ r.secs, s.WF

/-- value of a count: a negative count reads as 0 -/
def Count.val : Count → Nat
  | .num d => d.val
  | .neg _ => 0

def lcountOf : Rec → Option (Nat × Nat)
  | .lcount l c => some (l.val, c.val)
  | _ => none

def branchOf : Rec → Option (Nat × Bool)
  | .branch l t => some (l.val, decide (t = .taken))
  | _ => none

/-- a function is executed iff its call-count token is not the single character `0`; its name is
the lossy UTF-8 decoding of the name bytes -/
def functionOf : Rec → Option (Name × Fn)
  | .function s c n => some (Lcov.utf8Lossy n, ⟨s.val, decide (c ≠ [48])⟩)
  | _ => none

/-- what one record does to the section being read (record level of the reader) -/
def applyRec (a : Text.Acc) : Rec → Text.Acc
  | .lcount l c => Text.onLcount a l.val c.val
  | .function s c n => Text.onFunction a s.val (decide (c ≠ [48])) (Lcov.utf8Lossy n)
  | .branch l t => Text.onBranch a l.val (decide (t = .taken))
  | .other _ _ => a

def secLines (rs : List Rec) : List (Nat × Nat) := ofList (rs.filterMap lcountOf)
def secBranches (rs : List Rec) : List (Nat × List Bool) := groupPush (rs.filterMap branchOf)
def secFunctions (rs : List Rec) : List (Name × Fn) := ofList (rs.filterMap functionOf)

def secCov (rs : List Rec) : Cov :=
  { lines := secLines rs, branches := secBranches rs, functions := secFunctions rs }

/-- a section is reported iff it lists at least one line; its name is the lossy UTF-8 decoding of
the bytes after `file:` -/
def semSec (s : FileSec) : Option (Bytes × Cov) :=
  let rs := s.recs.map (·.r)
  if (rs.filterMap lcountOf).isEmpty then none else some (Lcov.utf8Lossy s.name, secCov rs)

def semText (r : Report) : List (Bytes × Cov) := r.secs.filterMap semSec

/-! ## JSON form -/

/-- a counter as gcov writes it: an integer, or (older libgcov / other producers) a float given by
its exact value m·2^e -/
inductive Counter where
  | int (n : Nat)
  | flt (m : Nat) (e : Int)
deriving Repr, DecidableEq

def Counter.toJson : Counter → Json
  | .int n => .num (.pos n)
  | .flt m e => .num (.flt false m e)

/-- value as a u64: floats are truncated toward zero -/
def Counter.val : Counter → Nat
  | .int n => n
  | .flt m (.ofNat k) => m * 2 ^ k
  | .flt m (.negSucc k) => m / 2 ^ (k + 1)

/-- integer ≤ 2^64-1, float with 0 ≤ m·2^e < 2^64 -/
def Counter.WF : Counter → Prop
  | .int n => n ≤ U64MAX
  | .flt m (.ofNat k) => m * 2 ^ k ≤ U64MAX
  | .flt m (.negSucc k) => m < (U64MAX + 1) * 2 ^ (k + 1)

structure BrS where
  count : Counter
  throw : Bool
  fallthrough : Bool
deriving Repr, DecidableEq

structure LineS where
  lineNumber : Nat
  /-- `none` = key absent, `some none` = null -/
  functionName : Option (Option Bytes)
  count : Counter
  unexecutedBlock : Bool
  branches : List BrS
deriving Repr, DecidableEq

structure FnS where
  name : Bytes
  demangledName : Bytes
  startLine : Nat
  startColumn : Nat
  endLine : Nat
  endColumn : Nat
  blocks : Nat
  blocksExecuted : Nat
  executionCount : Counter
deriving Repr, DecidableEq

structure FileS where
  file : Bytes
  functions : List FnS
  lines : List LineS
deriving Repr, DecidableEq

structure Doc where
  formatVersion : Bytes
  gccVersion : Bytes
  cwd : Option (Option Bytes)
  dataFile : Bytes
  files : List FileS
deriving Repr, DecidableEq

def optStrEntry (k : Bytes) : Option (Option Bytes) → List (Bytes × Json)
  | none => []
  | some none => [(k, .null)]
  | some (some s) => [(k, .str s)]

def BrS.toJson (b : BrS) : Json :=
  .obj [(Json.kCount, b.count.toJson), (Json.kThrow, .bool b.throw),
        (Json.kFallthrough, .bool b.fallthrough)]

def LineS.toJson (l : LineS) : Json :=
  .obj ([(Json.kLineNumber, .num (.pos l.lineNumber))]
        ++ optStrEntry Json.kFunctionName l.functionName
        ++ [(Json.kCount, l.count.toJson), (Json.kUnexecutedBlock, .bool l.unexecutedBlock),
            (Json.kBranches, .arr (l.branches.map BrS.toJson))])

def FnS.toJson (f : FnS) : Json :=
  .obj [(Json.kName, .str f.name), (Json.kDemangledName, .str f.demangledName),
        (Json.kStartLine, .num (.pos f.startLine)), (Json.kStartColumn, .num (.pos f.startColumn)),
        (Json.kEndLine, .num (.pos f.endLine)), (Json.kEndColumn, .num (.pos f.endColumn)),
        (Json.kBlocks, .num (.pos f.blocks)), (Json.kBlocksExecuted, .num (.pos f.blocksExecuted)),
        (Json.kExecutionCount, f.executionCount.toJson)]

def FileS.toJson (f : FileS) : Json :=
  .obj [(Json.kFile, .str f.file), (Json.kFunctions, .arr (f.functions.map FnS.toJson)),
        (Json.kLines, .arr (f.lines.map LineS.toJson))]

/-- the document as gcov writes it (keys in gcov's order) -/
def Doc.toJson (d : Doc) : Json :=
  .obj ([(Json.kFormatVersion, .str d.formatVersion), (Json.kGccVersion, .str d.gccVersion)]
        ++ optStrEntry Json.kCwd d.cwd
        ++ [(Json.kDataFile, .str d.dataFile), (Json.kFiles, .arr (d.files.map FileS.toJson))])

def BrS.WF (b : BrS) : Prop := b.count.WF
def LineS.WF (l : LineS) : Prop := l.lineNumber ≤ U32MAX ∧ l.count.WF ∧ ∀ b ∈ l.branches, b.WF
def FnS.WF (f : FnS) : Prop :=
  f.startLine ≤ U32MAX ∧ f.startColumn ≤ U32MAX ∧ f.endLine ≤ U32MAX ∧ f.endColumn ≤ U32MAX
  ∧ f.blocks ≤ U32MAX ∧ f.blocksExecuted ≤ U32MAX ∧ f.executionCount.WF
def FileS.WF (f : FileS) : Prop := (∀ g ∈ f.functions, g.WF) ∧ ∀ l ∈ f.lines, l.WF
def Doc.WF (d : Doc) : Prop := ∀ f ∈ d.files, f.WF

/-- the distinct keys of a list, in the order of their first occurrence (`acc`: those seen so far) -/
def firstKeysInto {κ : Type} [DecidableEq κ] (acc : List κ) : List κ → List κ
  | [] => acc
  | k :: ks => firstKeysInto (if k ∈ acc then acc else acc ++ [k]) ks

def firstKeys {κ : Type} [DecidableEq κ] (ks : List κ) : List κ := firstKeysInto [] ks

/-- the entries of `lines` for line `l` -/
def entriesOf (f : FileS) (l : Nat) : List LineS := f.lines.filter fun e => e.lineNumber = l

/-- count of line `l`: the sum over its entries, clamped at 2^64-1 -/
def lineCount (f : FileS) (l : Nat) : Nat := min ((entriesOf f l).map (·.count.val)).sum U64MAX

/-- number of branch slots of line `l`: the longest `branches` array among its entries -/
def branchSlots (f : FileS) (l : Nat) : Nat :=
  ((entriesOf f l).map (·.branches.length)).foldr max 0

/-- slot `i` of line `l` is taken iff some entry of the line has a positive count at position `i` -/
def branchTaken (f : FileS) (l i : Nat) : Bool :=
  (entriesOf f l).any fun e => match e.branches[i]? with
    | some b => decide (b.count.val > 0)
    | none => false

def lineBranches (f : FileS) (l : Nat) : List Bool :=
  (List.range (branchSlots f l)).map (branchTaken f l)

/-- the function entries with demangled name `n` -/
def fnEntries (f : FileS) (n : Name) : List FnS := f.functions.filter fun g => g.demangledName = n

/-- executed iff some entry with that demangled name has a positive execution count -/
def fnExecuted (f : FileS) (n : Name) : Bool :=
  (fnEntries f n).any fun g => decide (g.executionCount.val > 0)

/-- the start line of the first entry with that demangled name -/
def fnStart (f : FileS) (n : Name) : Nat := ((fnEntries f n).head?.map (·.startLine)).getD 0

def semLines (f : FileS) : List (Nat × Nat) :=
  (firstKeys (f.lines.map (·.lineNumber))).map fun l => (l, lineCount f l)

/-- only lines with at least one entry that has branches get a vector -/
def semBranches (f : FileS) : List (Nat × List Bool) :=
  (firstKeys ((f.lines.filter fun e => !e.branches.isEmpty).map (·.lineNumber))).map fun l =>
    (l, lineBranches f l)

def semFunctions (f : FileS) : List (Name × Fn) :=
  (firstKeys (f.functions.map (·.demangledName))).map fun n => (n, ⟨fnStart f n, fnExecuted f n⟩)

/-- a file is reported iff it lists at least one line -/
def semFile (f : FileS) : Option (Bytes × Cov) :=
  if f.lines.isEmpty then none
  else some (f.file, { lines := semLines f, branches := semBranches f, functions := semFunctions f })

def semJson (d : Doc) : List (Bytes × Cov) := d.files.filterMap semFile

end Grcov.Gcov.Spec
