/-
Independent description of what an lcov tracefile *says* (C04): an AST of sections and records,
its serialisations (`render`, for LF and CRLF line ends, any digit strings incl. leading zeros, an
optional checksum field on DA records), what a section says (`sem`: order-free – line counts are
clamped sums, a branch is taken iff some record says so, a function is executed iff some FNDA
record names it with a non-zero count, wherever that record stands), and the record-by-record
reading `applyRec` on the reader's accumulator. Numeric fields are digit strings so that every
well-formed spelling is covered, not only the canonical decimal.
-/
import GrcovModel.Lemmas.Lcov
namespace Grcov.Lcov.Spec
open Grcov AList Grcov.Lcov

/-- a non-empty string of ASCII digits: first digit and the rest -/
structure Digits where
  first : Nat
  rest : Bytes

def Digits.bytes (d : Digits) : Bytes := d.first :: d.rest
def Digits.val (d : Digits) : Nat := valFrom 0 d.bytes
def Digits.WF (d : Digits) (bound : Nat) : Prop :=
  isDigit d.first = true ∧ (∀ x ∈ d.rest, isDigit x = true) ∧ d.val ≤ bound

inductive Rec where
  /-- `DA:<line>,<count>[,<checksum>]`: the checksum field (an MD5 in base64 when lcov writes it) is
  any text -/
  | da (l c : Digits) (checksum : Option Bytes)
  /-- a negative count: `-` followed by anything up to the end of the line -/
  | daNeg (l : Digits) (txt : Bytes)
  | fn (start : Digits) (name : Bytes)
  | fnda (c : Digits) (name : Bytes)
  /-- `BRDA:<line>,[e]<block>,<branch>,<taken>`; `taken` is the text of the last field: `-` or a
  number; `exc` = the block number carries the `e` prefix by which lcov 2.x marks a branch that
  belongs to exception handling (`BRDA:5,e3,1,0`). The flag says nothing about line, branch number
  or taken count: the reader skips it (/repo 66f7aba; before, the block digits were read as the
  branch number and the record counted as taken: former finding C04-lcov2-exception-branch). -/
  | brda (l : Digits) (exc : Bool) (blk br : Digits) (taken : Bytes)
  /-- a record grcov does not use whose first byte is not one of S D F B e (TN:, LF:, LH:, VER:, MCDC:, …) -/
  | other (txt : Bytes)
  /-- a record grcov does not use that starts like a key: FNF:, FNH:, FNL:, FNA:, BRF:, BRH:, … -/
  | otherKeyed (key : Bytes) (d : Nat) (txt : Bytes)
  | blank

structure Section where
  pre : List Rec          -- records before SF (TN:, blank lines, …)
  sf : Bytes
  recs : List Rec
  eor : Bytes             -- what follows the `e` of end_of_record on its line

def noEol (bs : Bytes) : Prop := ∀ x ∈ bs, x ≠ LF ∧ x ≠ CR
def noLF (bs : Bytes) : Prop := ∀ x ∈ bs, x ≠ LF

/-- the optional last field of a DA record, with its comma -/
def checksumBytes : Option Bytes → Bytes
  | none => []
  | some t => 44 :: t

def keyVal (key : Bytes) : Nat := key.foldl (fun r x => r * 256 + x) 0

def Rec.WF : Rec → Prop
  | .da l c ck => l.WF U32MAX ∧ c.WF U64MAX ∧ noLF (checksumBytes ck)
  | .daNeg l txt => l.WF U32MAX ∧ noLF txt
  | .fn s name => s.WF U32MAX ∧ noEol name
  | .fnda c name => c.WF U64MAX ∧ noEol name
  | .brda l _ blk br taken => l.WF U32MAX ∧ blk.WF U64MAX ∧ br.WF U32MAX ∧ noEol taken
  | .other txt => noLF txt ∧ (match txt with
      | [] => False
      | b :: _ => b ≠ 83 ∧ b ≠ 68 ∧ b ≠ 70 ∧ b ≠ 66 ∧ b ≠ 101 ∧ b ≠ LF)
  | .otherKeyed key d txt =>
      noLF txt ∧ isUpper d = false ∧ d ≠ LF ∧
      (match key with
        | [] => False
        | b :: ks => (b = 83 ∨ b = 68 ∨ b = 70 ∨ b = 66) ∧ (∀ x ∈ ks, isUpper x = true) ∧ ks.length ≤ 3) ∧
      keyVal key ≠ kSF ∧ keyVal key ≠ kDA ∧ keyVal key ≠ kFN ∧ keyVal key ≠ kFNDA ∧ keyVal key ≠ kBRDA
  | .blank => True

/-- a record of the preamble must not open a section or touch the accumulator -/
def Rec.isInert : Rec → Bool
  | .other _ | .otherKeyed _ _ _ | .blank => true
  | _ => false

def Section.WF (s : Section) : Prop :=
  (∀ r ∈ s.pre, r.WF ∧ r.isInert = true) ∧ noEol s.sf ∧ (∀ r ∈ s.recs, r.WF) ∧ noLF s.eor

/-- the `e` of an exception branch -/
def excBytes (exc : Bool) : Bytes := if exc then [101] else []

def renderRec (eol : Bytes) : Rec → Bytes
  | .da l c ck => [68, 65, 58] ++ l.bytes ++ [44] ++ c.bytes ++ checksumBytes ck ++ eol
  | .daNeg l txt => [68, 65, 58] ++ l.bytes ++ [44, 45] ++ txt ++ [LF]
  | .fn s name => [70, 78, 58] ++ s.bytes ++ [44] ++ name ++ eol
  | .fnda c name => [70, 78, 68, 65, 58] ++ c.bytes ++ [44] ++ name ++ eol
  | .brda l exc blk br taken =>
      [66, 82, 68, 65, 58] ++ l.bytes ++ [44] ++ excBytes exc ++ blk.bytes ++ [44] ++ br.bytes ++ [44]
        ++ taken ++ eol
  | .other txt => txt ++ [LF]
  | .otherKeyed key d txt => key ++ [d] ++ txt ++ [LF]
  | .blank => [LF]

def renderSection (eol : Bytes) (s : Section) : Bytes :=
  (s.pre.flatMap (renderRec eol)) ++ [83, 70, 58] ++ s.sf ++ eol
    ++ (s.recs.flatMap (renderRec eol)) ++ [101] ++ s.eor ++ [LF]

def render (eol : Bytes) (secs : List Section) : Bytes := secs.flatMap (renderSection eol)

/-- taken iff the field holds something other than `-` and `0` digits: a positive count -/
def takenOf (taken : Bytes) : Bool := taken.any fun b => decide (b ≠ 45 ∧ b ≠ 48)

/-- what one record does to the reader's accumulator -/
def applyRec (branch : Bool) (a : Acc) : Rec → Acc
  | .da l c _ => commitLine a l.val c.val
  | .daNeg l _ => commitLine a l.val 0
  | .fn s name => commitFn a s.val name
  | .fnda c name => commitFnda a c.val name
  | .brda l _ _ br taken => if branch then commitBranch a l.val br.val (takenOf taken) else a
  | .other _ | .otherKeyed _ _ _ | .blank => a

def applyRecs (branch : Bool) (a : Acc) (rs : List Rec) : Acc := rs.foldl (applyRec branch) a

/-- the record of a section read record by record; `none` when an FNDA record is still waiting
for its FN record at `end_of_record` (the reader's "FN record missing" error) -/
def semSection (branch : Bool) (s : Section) : Option (Bytes × Cov) :=
  let a := applyRecs branch { results := [], curFile := some (utf8Lossy s.sf), cur := {}, pending := [] } s.recs
  if a.pending.isEmpty then some (utf8Lossy s.sf, a.cur) else none

def semAll (branch : Bool) : List Section → Option (List (Bytes × Cov))
  | [] => some []
  | s :: ss => do
    let r ← semSection branch s
    let rs ← semAll branch ss
    pure (r :: rs)

/-! ### what a section says, independently of the order of its records -/

/-- (line, count) of every DA record, a negative count read as 0 -/
def daPairs (recs : List Rec) : List (Nat × Nat) :=
  recs.filterMap fun
    | .da l c _ => some (l.val, c.val)
    | .daNeg l _ => some (l.val, 0)
    | _ => none

/-- (line, branch number, taken) of every BRDA record -/
def brdaTriples (recs : List Rec) : List (Nat × Nat × Bool) :=
  recs.filterMap fun
    | .brda l _ _ br taken => some (l.val, br.val, takenOf taken)
    | _ => none

/-- (decoded name, start line) of every FN record -/
def fnDecls (recs : List Rec) : List (Bytes × Nat) :=
  recs.filterMap fun
    | .fn s name => some (utf8Lossy name, s.val)
    | _ => none

def fnNames (recs : List Rec) : List Bytes := (fnDecls recs).map (·.1)

/-- the decoded name of every FNDA record -/
def fndaNames (recs : List Rec) : List Bytes :=
  recs.filterMap fun
    | .fnda _ name => some (utf8Lossy name)
    | _ => none

/-- some FNDA record of the section, anywhere, names `nm` with a non-zero count -/
def fnExecuted (recs : List Rec) (nm : Bytes) : Bool :=
  recs.any fun
    | .fnda c name => decide (utf8Lossy name = nm) && decide (c.val ≠ 0)
    | _ => false

/-- one entry per FN record: its start line, executed iff some FNDA record says so -/
def semFunctions (recs : List Rec) : List (Name × Fn) :=
  (fnDecls recs).map fun d => (d.1, ⟨d.2, fnExecuted recs d.1⟩)

/-- What the records of a section say: per line the clamped sum of its DA counts (`daFold`, see
`C04_da_sum`), per (line, branch number) taken iff some BRDA record is (`brdaFold`, see
`C04_branch_vector`; nothing with branch parsing off), per declared function its start line and
whether some FNDA record has a non-zero count. No clause looks at the position of a record. -/
def sem (branch : Bool) (s : Section) : Cov :=
  { lines := (daFold {} (daPairs s.recs)).cur.lines
    branches := if branch then brdaFold [] (brdaTriples s.recs) else []
    functions := semFunctions s.recs }

/-- the names of the FN records exactly as written (before decoding) -/
def fnWrittenNames (recs : List Rec) : List Bytes :=
  recs.filterMap fun
    | .fn _ name => some name
    | _ => none

/-- lcov 2.x writes function records with an end line, `FN:<start>,<end>,<name>`. grcov knows no
such record: the bytes are those of an FN record whose name is `<end>,<name>`, and that is how they
are read (Props/C04 `C04_fn_end_line_read_as_name`). Such a section is outside `WellFormed` as soon
as an `FNDA:<count>,<name>` refers to the function by its real name: no FN declares `<name>`. -/
def fnWithEndLine (start endLine : Digits) (name : Bytes) : Rec :=
  .fn start (endLine.bytes ++ 44 :: name)

/-- every function is declared once, and every FNDA record names a declared function -/
def Section.FnOK (s : Section) : Prop :=
  (fnNames s.recs).Nodup ∧ ∀ nm ∈ fndaNames s.recs, nm ∈ fnNames s.recs

/-- a well-formed section (lcov 2.x exception-branch records `BRDA:<line>,e<block>,…` included):
every record is well-formed text, function names are unique per section and every FNDA has its FN
somewhere in the same section -/
def Section.WellFormed (s : Section) : Prop := s.WF ∧ s.FnOK

end Grcov.Lcov.Spec
