/-
Independent description of what an lcov tracefile *says* (C04): an AST of sections and records,
its serialisations (`render`, for LF and CRLF line ends, any digit strings incl. leading zeros),
and the record semantics `applyRec` on the reader's accumulator. Numeric fields are digit strings
so that every well-formed spelling is covered, not only the canonical decimal.
-/
import GrcovModel.Lemmas.Lcov
namespace Grcov.Lcov.Spec
open Grcov AList Grcov.Lcov

/-- a non-empty string of ASCII digits: first digit and the rest -/
structure Digits where
  first : Nat
  rest : Bytes

def Digits.bytes (d : Digits) : Bytes := d.first :: d.rest
def Digits.val (d : Digits) : Nat := valFrom 0 d.bytes
def Digits.WF (d : Digits) (bound : Nat) : Prop :=
  isDigit d.first = true ∧ (∀ x ∈ d.rest, isDigit x = true) ∧ d.val ≤ bound

inductive Rec where
  | da (l c : Digits)
  /-- a negative count: `-` followed by anything up to the end of the line -/
  | daNeg (l : Digits) (txt : Bytes)
  | fn (start : Digits) (name : Bytes)
  | fnda (c : Digits) (name : Bytes)
  /-- `taken` is the text of the last field: `-` or a number -/
  | brda (l blk br : Digits) (taken : Bytes)
  /-- a record grcov does not use whose first byte is not one of S D F B e (TN:, LF:, LH:, VER:, MCDC:, …) -/
  | other (txt : Bytes)
  /-- a record grcov does not use that starts like a key: FNF:, FNH:, FNL:, FNA:, BRF:, BRH:, … -/
  | otherKeyed (key : Bytes) (d : Nat) (txt : Bytes)
  | blank

structure Section where
  pre : List Rec          -- records before SF (TN:, blank lines, …)
  sf : Bytes
  recs : List Rec
  eor : Bytes             -- what follows the `e` of end_of_record on its line

def noEol (bs : Bytes) : Prop := ∀ x ∈ bs, x ≠ LF ∧ x ≠ CR
def noLF (bs : Bytes) : Prop := ∀ x ∈ bs, x ≠ LF

def keyVal (key : Bytes) : Nat := key.foldl (fun r x => r * 256 + x) 0

def Rec.WF : Rec → Prop
  | .da l c => l.WF U32MAX ∧ c.WF U64MAX
  | .daNeg l txt => l.WF U32MAX ∧ noLF txt
  | .fn s name => s.WF U32MAX ∧ noEol name
  | .fnda c name => c.WF U64MAX ∧ noEol name
  | .brda l blk br taken => l.WF U32MAX ∧ blk.WF U64MAX ∧ br.WF U32MAX ∧ noEol taken
  | .other txt => noLF txt ∧ (match txt with
      | [] => False
      | b :: _ => b ≠ 83 ∧ b ≠ 68 ∧ b ≠ 70 ∧ b ≠ 66 ∧ b ≠ 101 ∧ b ≠ LF)
  | .otherKeyed key d txt =>
      noLF txt ∧ isUpper d = false ∧ d ≠ LF ∧
      (match key with
        | [] => False
        | b :: ks => (b = 83 ∨ b = 68 ∨ b = 70 ∨ b = 66) ∧ (∀ x ∈ ks, isUpper x = true) ∧ ks.length ≤ 3) ∧
      keyVal key ≠ kSF ∧ keyVal key ≠ kDA ∧ keyVal key ≠ kFN ∧ keyVal key ≠ kFNDA ∧ keyVal key ≠ kBRDA
  | .blank => True

/-- a record of the preamble must not open a section or touch the accumulator -/
def Rec.isInert : Rec → Bool
  | .other _ | .otherKeyed _ _ _ | .blank => true
  | _ => false

def Section.WF (s : Section) : Prop :=
  (∀ r ∈ s.pre, r.WF ∧ r.isInert = true) ∧ noEol s.sf ∧ (∀ r ∈ s.recs, r.WF) ∧ noLF s.eor

def renderRec (eol : Bytes) : Rec → Bytes
  | .da l c => [68, 65, 58] ++ l.bytes ++ [44] ++ c.bytes ++ eol
  | .daNeg l txt => [68, 65, 58] ++ l.bytes ++ [44, 45] ++ txt ++ [LF]
  | .fn s name => [70, 78, 58] ++ s.bytes ++ [44] ++ name ++ eol
  | .fnda c name => [70, 78, 68, 65, 58] ++ c.bytes ++ [44] ++ name ++ eol
  | .brda l blk br taken =>
      [66, 82, 68, 65, 58] ++ l.bytes ++ [44] ++ blk.bytes ++ [44] ++ br.bytes ++ [44] ++ taken ++ eol
  | .other txt => txt ++ [LF]
  | .otherKeyed key d txt => key ++ [d] ++ txt ++ [LF]
  | .blank => [LF]

def renderSection (eol : Bytes) (s : Section) : Bytes :=
  (s.pre.flatMap (renderRec eol)) ++ [83, 70, 58] ++ s.sf ++ eol
    ++ (s.recs.flatMap (renderRec eol)) ++ [101] ++ s.eor ++ [LF]

def render (eol : Bytes) (secs : List Section) : Bytes := secs.flatMap (renderSection eol)

/-- taken iff the field holds something other than `-` and `0` digits: a positive count -/
def takenOf (taken : Bytes) : Bool := taken.any fun b => decide (b ≠ 45 ∧ b ≠ 48)

/-- what one record does to the reader's accumulator (`none`: the record is rejected) -/
def applyRec (branch : Bool) (a : Acc) : Rec → Option Acc
  | .da l c => some (commitLine a l.val c.val)
  | .daNeg l _ => some (commitLine a l.val 0)
  | .fn s name => some (commitFn a s.val name)
  | .fnda c name => commitFnda a c.val name
  | .brda l _ br taken => some (if branch then commitBranch a l.val br.val (takenOf taken) else a)
  | .other _ | .otherKeyed _ _ _ | .blank => some a

def applyRecs (branch : Bool) (a : Acc) : List Rec → Option Acc
  | [] => some a
  | r :: rs => (applyRec branch a r).bind fun a' => applyRecs branch a' rs

/-- the record of a section, when every FNDA finds its FN -/
def semSection (branch : Bool) (s : Section) : Option (Bytes × Cov) :=
  (applyRecs branch { results := [], curFile := some (utf8Lossy s.sf), cur := {} } s.recs).map
    fun a => (utf8Lossy s.sf, a.cur)

def semAll (branch : Bool) : List Section → Option (List (Bytes × Cov))
  | [] => some []
  | s :: ss => do
    let r ← semSection branch s
    let rs ← semAll branch ss
    pure (r :: rs)

end Grcov.Lcov.Spec
