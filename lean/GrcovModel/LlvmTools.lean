/-
Model of `llvm_profiles_to_lcov` (src/llvm_tools.rs) and of the consumer arm that feeds its result
into the aggregate (src/lib.rs, Profraw/Profdata).

* The merge tool gets one `1,<path>` line per profile on stdin (`-f -`; since fix 4f2eb74 — before
  it the bare path was written, `mergeStdinOld`). `<path>` is `OsStr::to_string_lossy`.
* What `llvm-profdata merge -f` makes of such a list is modelled from its source
  (llvm-profdata.cpp, LLVM 14, `parseInputFilenamesFile` / `parseWeightedFile`): the buffer is split
  at '\n' and EMPTY pieces are dropped (the piece after the last newline counts when it is not
  empty); every piece is trimmed of `" \t\v\f\r"` on both sides; a trimmed piece starting with '#'
  is a comment; one without a comma is a file of weight 1; otherwise the text before the FIRST
  comma is the weight (`StringRef::getAsInteger(10, uint64_t)`: decimal digits only, non-empty, no
  sign, must fit 64 bits; then `< 1` is rejected too) and everything after it, untrimmed, is the
  file name. A bad weight ends the tool with "input weight must be a positive integer" (`none`).
  Not modelled: the name `-` (stdin), a name that is a directory (walked recursively), and that
  a name that does not exist ends the tool as well (`resolve`, given an existence test).
* every binary `find_binaries` returned is exported once against the merged profile THIS call
  wrote; a failing export is dropped (warning); every exported lcov is parsed (`Lcov.parse`) and the
  file records are added to the result map (`addResults`).
The tools themselves are parameters (`Tools`): what the merge of a parsed list writes to its `-o`
file, and what the export of a binary against a merged profile prints (`none` = it failed).
`profilesToLcov` returns, besides the function's result, the LOG of the tool invocations it made;
the harness records the same log from the stand-in tools (argv, raw stdin bytes, and the content of
the `--instr-profile` file at the moment of the export).
Core Lean only.
-/
import GrcovModel.Lcov
namespace Grcov.LlvmTools
open Grcov AList

abbrev Bytes := List Nat

/-! ### what grcov writes -/

/-- one line of the list: `1,` + the path as `to_string_lossy` shows it + newline -/
def stdinLine (p : Bytes) : Bytes := [49, 44] ++ Lcov.utf8Lossy p ++ [10]

/-- what is written to the merge tool's stdin -/
def mergeStdin (profiles : List Bytes) : Bytes := profiles.flatMap stdinLine

/-- before fix 4f2eb74: the bare path and a newline -/
def mergeStdinOld (profiles : List Bytes) : Bytes :=
  profiles.flatMap fun p => Lcov.utf8Lossy p ++ [10]

/-! ### what llvm-profdata reads -/

/-- `StringRef::split('\n')`: the pieces between newlines, the last one included -/
def splitNl : Bytes → Bytes → List Bytes
  | cur, [] => [cur]
  | cur, b :: bs => if b = 10 then cur :: splitNl [] bs else splitNl (cur ++ [b]) bs

/-- `Data.split(Entries, '\n', -1, /*KeepEmpty=*/false)` -/
def entries (data : Bytes) : List Bytes := (splitNl [] data).filter fun e => !e.isEmpty

/-- the characters of `trim(" \t\v\f\r")` -/
def isBlank (b : Nat) : Bool := b = 32 || b = 9 || b = 11 || b = 12 || b = 13

def trimBlank (s : Bytes) : Bytes := ((s.dropWhile isBlank).reverse.dropWhile isBlank).reverse

def isDigit (b : Nat) : Bool := 48 ≤ b && b ≤ 57

/-- `StringRef::getAsInteger(10, uint64_t&)`: `none` = it returns true (failure) -/
def parseU64 (s : Bytes) : Option Nat :=
  if s.isEmpty || !s.all isDigit then none
  else
    let v := s.foldl (fun a d => a * 10 + (d - 48)) 0
    if v > U64MAX then none else some v

inductive EntryRes where
  | comment
  | file (w : Nat) (f : Bytes)
  | badWeight
deriving DecidableEq, Repr

/-- one entry of the list -/
def parseEntry (e : Bytes) : EntryRes :=
  let s := trimBlank e
  if s.head? = some 35 then .comment
  else if !s.contains 44 then .file 1 s
  else
    match parseU64 (s.takeWhile (· ≠ 44)) with
    | some n => if n < 1 then .badWeight else .file n ((s.dropWhile (· ≠ 44)).drop 1)
    | none => .badWeight

def collect : List EntryRes → Option (List (Nat × Bytes))
  | [] => some []
  | .comment :: rest => collect rest
  | .badWeight :: _ => none
  | .file w f :: rest => (collect rest).map fun l => (w, f) :: l

/-- the weighted inputs llvm-profdata takes from a list; `none` = it exits with an error -/
def parseList (data : Bytes) : Option (List (Nat × Bytes)) := collect ((entries data).map parseEntry)

/-- … and every name must exist (`addWeightedInput`: "No such file or directory") -/
def resolve (exists_ : Bytes → Bool) (data : Bytes) : Option (List (Nat × Bytes)) :=
  match parseList data with
  | some l => if l.all fun wf => exists_ wf.2 then some l else none
  | none => none

/-! ### the tools and the log -/

structure Tools where
  /-- `llvm-profdata merge -sparse -o <out>` on the parsed list: the content of `<out>`;
  `none` = the tool failed (nothing usable written) -/
  merge : List (Nat × Bytes) → Option Bytes
  /-- `llvm-cov export <binary> --instr-profile <file with this content> --format lcov` -/
  export_ : Bytes → Bytes → Option Bytes

inductive Call where
  | merge (stdin : Bytes)
  | export_ (binary : Bytes) (profdata : Bytes)
deriving DecidableEq, Repr

/-- the merged profile of one profile list: llvm-profdata's reading of the stdin grcov wrote -/
def merged (t : Tools) (ps : List Bytes) : Option Bytes := (parseList (mergeStdin ps)).bind t.merge

/-- `llvm_profiles_to_lcov` for one work item, `bins` = what `find_binaries` returned: the tool
invocations made, and `Ok(results)` / `Err` -/
def profilesToLcov (t : Tools) (bins : List Bytes) (ps : List Bytes) : List Call × Option (List Bytes) :=
  match merged t ps with
  | none => ([.merge (mergeStdin ps)], none)
  | some pd => (.merge (mergeStdin ps) :: bins.map (.export_ · pd), some (bins.filterMap (t.export_ · pd)))

/-- the log of a run with several LLVM work items (one per profile kind, any number of workers:
each call works on its own merged profile) -/
def runLog (t : Tools) (bins : List Bytes) (items : List (List Bytes)) : List Call :=
  items.flatMap fun ps => (profilesToLcov t bins ps).1

/-- the export invocations of a log: (binary, content of the profile it was pointed at) -/
def exportLog : List Call → List (Bytes × Bytes)
  | [] => []
  | .export_ b pd :: rest => (b, pd) :: exportLog rest
  | .merge _ :: rest => exportLog rest

/-- the merge invocations of a log -/
def mergeLog : List Call → List Bytes
  | [] => []
  | .merge s :: rest => s :: mergeLog rest
  | .export_ _ _ :: rest => mergeLog rest

/-- the items whose merge succeeded, with their merged profile -/
def mergedItems (t : Tools) (items : List (List Bytes)) : List Bytes := items.filterMap (merged t)

/-- all lcov buffers of a run -/
def runExports (t : Tools) (bins : List Bytes) (items : List (List Bytes)) : List Bytes :=
  items.flatMap fun ps => ((profilesToLcov t bins ps).2).getD []

/-! ### the report -/

structure Binary where
  path : Bytes
  export_ : Option Bytes

/-- the exports that succeeded, in binary order -/
def exports (bins : List Binary) : List Bytes := bins.filterMap (·.export_)

/-- file records contributed by one exported lcov (a parse error skips that export only) -/
def contribution (branch : Bool) (lcov : Bytes) : List (Key × Cov) :=
  match Lcov.parse branch lcov with
  | .ok rs => rs
  | _ => []

def reportOf (branch : Bool) (lcovs : List Bytes) : List (Key × Cov) :=
  addResults id [] (lcovs.flatMap (contribution branch))

def report (branch : Bool) (bins : List Binary) : List (Key × Cov) := reportOf branch (exports bins)

/-- the report of a run with several LLVM items -/
def reportRun (branch : Bool) (t : Tools) (bins : List Bytes) (items : List (List Bytes)) : List (Key × Cov) :=
  reportOf branch (runExports t bins items)

/-- drop later repetitions -/
def dedup : List Bytes → List Bytes
  | [] => []
  | x :: xs => if x ∈ xs then dedup xs else x :: dedup xs

end Grcov.LlvmTools
