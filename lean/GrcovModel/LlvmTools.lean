/-
Model of `llvm_profiles_to_lcov` (src/llvm_tools.rs) and of the consumer arm that feeds its result
into the aggregate (src/lib.rs, Profraw/Profdata): the merge tool gets one line per profile on
stdin, every binary is exported once, a failing export is dropped (warning), every exported lcov
is parsed (`Lcov.parse`) and the file records are added to the result map (`addResults`).
The tools themselves (llvm-profdata, llvm-cov) are parameters: `export_ b` is what the export of
binary `b` printed, or `none` when it failed.
-/
import GrcovModel.Lcov
namespace Grcov.LlvmTools
open Grcov AList

abbrev Bytes := List Nat

/-- what is written to the merge tool's stdin: every path followed by a newline -/
def mergeStdin (profiles : List Bytes) : Bytes := profiles.flatMap fun p => p ++ [10]

/-- the newline-terminated lines of a byte string -/
def linesAux : Bytes → Bytes → List Bytes
  | _, [] => []
  | cur, b :: bs => if b = 10 then cur :: linesAux [] bs else linesAux (cur ++ [b]) bs

def lines (bs : Bytes) : List Bytes := linesAux [] bs

structure Binary where
  path : Bytes
  export_ : Option Bytes

/-- the exports that succeeded, in binary order -/
def exports (bins : List Binary) : List Bytes := bins.filterMap (·.export_)

/-- file records contributed by one exported lcov (a parse error skips that export only) -/
def contribution (branch : Bool) (lcov : Bytes) : List (Key × Cov) :=
  match Lcov.parse branch lcov with
  | .ok rs => rs
  | _ => []

def report (branch : Bool) (bins : List Binary) : List (Key × Cov) :=
  addResults id [] ((exports bins).flatMap (contribution branch))

theorem linesAux_append_line (cur p : Bytes) (rest : Bytes) (hp : 10 ∉ p) :
    linesAux cur (p ++ 10 :: rest) = (cur ++ p) :: linesAux [] rest := by
  induction p generalizing cur with
  | nil => simp [linesAux]
  | cons b p ih =>
    have hb : b ≠ 10 := by intro e; apply hp; simp [e]
    have hp' : 10 ∉ p := by intro h; apply hp; simp [h]
    simp only [List.cons_append, linesAux, hb, if_false]
    rw [ih _ hp']; simp

theorem lines_mergeStdin (profiles : List Bytes) (h : ∀ p ∈ profiles, 10 ∉ p) :
    lines (mergeStdin profiles) = profiles := by
  induction profiles with
  | nil => rfl
  | cons p ps ih =>
    have : mergeStdin (p :: ps) = p ++ 10 :: mergeStdin ps := by simp [mergeStdin]
    rw [lines, this, linesAux_append_line _ _ _ (h p (by simp))]
    simp only [List.nil_append]
    congr 1
    exact ih fun q hq => h q (List.mem_cons_of_mem _ hq)

end Grcov.LlvmTools
