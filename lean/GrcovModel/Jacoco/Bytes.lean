/-
C10, part Bytes — the BYTE layer in front of `Jacoco.parse`: a model of quick-xml 0.37.4's
`Reader` as `parse_jacoco_xml_report` configures it (`Reader::from_reader`, then
`expand_empty_elements = true`, `trim_text(false)`; every other setting at its default:
`check_end_names = true`, `allow_unmatched_ends = false`, `check_comments = false`,
`trim_markup_names_in_closing_tags = true`), and of `BytesStart::attributes()` as
`get_xml_attribute` / the `<line>` loop iterate it.

`events bs` is the sequence of events `read_event_into` yields on the bytes `bs` before `Eof`, in
the encoding `Jacoco.parse` consumes (empty elements are NOT expanded here: `Jacoco.expand` does
that); a tokenizer error (`Err(_)`) is the event `bad`, after which nothing follows (the parser
returns on the first `Err`). Read from quick-xml's sources:

* reader/mod.rs `read_event_impl`: UTF-8 BOM removed once; text up to the next `<` is one `Text`
  event, no event for an empty text; at end of input: the pending text, then `Eof`.
* `read_until_close`: after `<`: `!` ⇒ comment / CDATA / DOCTYPE (`BangType::parse`, `emit_bang`),
  `/` ⇒ end tag, `?` ⇒ PI or declaration (`PiParser`, `emit_question_mark`), anything else ⇒ start
  or empty-element tag, nothing ⇒ `UnclosedTag`. Tags end at the first `>` outside quotes
  (`ElementParser`: also for end tags).
* `emit_start`: a trailing `/` makes the element empty; the name is the content up to the first
  white-space byte (`name_len`), whatever its bytes. `emit_end`: the name is the content after `/`
  with trailing white space removed and must equal the name of the innermost open element
  (`MismatchedEndTag`, `UnmatchedEndTag`). Open elements are NOT checked at end of input.
* comments: `<!--` … first `-->` not overlapping the opening (`<!-->` and `<!--->` do not close);
  CDATA: `<![CDATA[` … first `]]>`; DOCTYPE: `<!DOCTYPE` (any case) up to the `>` that balances the
  `<` seen so far, and it needs a non-blank byte after the keyword. All of these, the declaration
  and PIs are `other` for the parser.
* events/attributes.rs `IterState::next`: optional white space, a key (its first byte, then
  everything up to `=` or white space), optional white space, `=`, optional white space, a quoted
  value (raw bytes up to the same quote; not unescaped here). No white space is needed between
  attributes. Any syntax error (no `=`, no value, unquoted value, missing closing quote) surfaces
  when the iteration reaches it: the parser's `a?` turns it into `Err(Parse)`. The model encodes
  "syntax error here" as the attribute `([], [])` (`Jacoco.isAttrErr`): an empty key cannot come
  from a real attribute (a key has at least one byte), and `getAttrAux`/`lineAttrs` answer `Parse`
  when they reach it; nothing after it is produced (the parser returns at the first `Err`).
  Since /repo ae885a6 the parser iterates `with_checks(false)`: a REPEATED key is no longer an
  error (`AttrError::Duplicated` is the only thing that switch turns off; every syntax error above
  is still reported); the tokenizer keeps repeated keys, first match / last `<line>` value wins.

White space is quick-xml's `is_whitespace` (blank, TAB, LF, CR) = `CobBytes.isWs`; names of
well-formed documents are `CobBytes.isName` (both imported from the Cobertura byte layer).
Not modelled: the chunking of `BufReader` (quick-xml's split-sequence cases make it immaterial),
I/O errors, UTF-8 decoding of names and values (`Decoder::decode`, inside the parser).
Core Lean only: linked into the native driver `gm_c10`.
-/
import GrcovModel.Jacoco
import GrcovModel.Writers.CobBytes
namespace Grcov.Jacoco.Bytes
open Grcov Grcov.Jacoco
open Grcov.Writers.CobBytes (isWs isName isNameByte)

/-! ## attributes -/

/-- "the attribute iterator returns `Err` here" (see the header) -/
def attrErr : List Attr := [([], [])]

/-- `IterState::next` repeated over the bytes after the element name -/
def splitAttrs : Nat → List Nat → List Attr
  | 0, _ => attrErr
  | fuel + 1, bs =>
    match bs.dropWhile isWs with
    | [] => []
    | c :: r =>
      let isKeyEnd := fun b => b == 61 || isWs b
      let key := c :: r.takeWhile (fun b => !isKeyEnd b)
      match (r.dropWhile (fun b => !isKeyEnd b)).dropWhile isWs with
      | 61 :: r3 =>
        (match r3.dropWhile isWs with
         | 34 :: r5 =>
           (match r5.dropWhile (· != 34) with
            | _ :: rest => (key, r5.takeWhile (· != 34)) :: splitAttrs fuel rest
            | [] => attrErr)
         | 39 :: r5 =>
           (match r5.dropWhile (· != 39) with
            | _ :: rest => (key, r5.takeWhile (· != 39)) :: splitAttrs fuel rest
            | [] => attrErr)
         | _ => attrErr)
      | _ => attrErr

/-- `BytesStart::wrap(content, name_len(content))` + `attributes()` -/
def nameOf (content : List Nat) : Name := content.takeWhile (fun b => !isWs b)

def attrsOf (content : List Nat) : List Attr :=
  splitAttrs (content.length + 1) (content.dropWhile (fun b => !isWs b))

/-! ## the scanners -/

/-- `ElementParser::feed`: the bytes before the first `>` outside quotes, and what follows it;
`q` = the quote we are inside (0 = outside) -/
def scanTag : Nat → List Nat → Option (List Nat × List Nat)
  | _, [] => none
  | q, b :: r =>
    if q = 0 then
      if b = 62 then some ([], r)
      else (scanTag (if b = 34 ∨ b = 39 then b else 0) r).map fun p => (b :: p.1, p.2)
    else (scanTag (if b = q then 0 else q) r).map fun p => (b :: p.1, p.2)

/-- what follows the first occurrence of `pat` (with what precedes it) -/
def splitAtSeq (pat : List Nat) : List Nat → Option (List Nat × List Nat)
  | [] => if pat.isEmpty then some ([], []) else none
  | b :: r =>
    if isPrefixOf' pat (b :: r) then some ([], (b :: r).drop pat.length)
    else (splitAtSeq pat r).map fun p => (b :: p.1, p.2)

/-- DOCTYPE: up to the `>` that balances the `<` seen so far -/
def scanDoctype : Nat → List Nat → Option (List Nat × List Nat)
  | _, [] => none
  | bal, b :: r =>
    if b = 62 then
      if bal = 0 then some ([], r) else (scanDoctype (bal - 1) r).map fun p => (b :: p.1, p.2)
    else (scanDoctype (if b = 60 then bal + 1 else bal) r).map fun p => (b :: p.1, p.2)

def lower (b : Nat) : Nat := if 65 ≤ b ∧ b ≤ 90 then b + 32 else b

def sDoctypeLower : List Nat := [100, 111, 99, 116, 121, 112, 101]   -- doctype
def sCdataOpen : List Nat := [91, 67, 68, 65, 84, 65, 91]            -- [CDATA[

/-- after `<!`: `some rest` when a comment / CDATA section / DOCTYPE was read, `none` on error -/
def scanBang : List Nat → Option (List Nat)
  | 45 :: r =>                                                     -- `-`
    (match r with
     | 45 :: r2 => (splitAtSeq [45, 45, 62] r2).map (·.2)
     | _ => none)      -- `<!-x…`: `UnclosedComment` whether or not a `-->` follows
  | 91 :: r =>                                                     -- `[`
    (match splitAtSeq [93, 93, 62] r with
     | some (body, rest) => if isPrefixOf' sCdataOpen (91 :: body ++ [93, 93]) then some rest else none
     | none => none)
  | b :: r =>
    if b = 68 ∨ b = 100 then
      match scanDoctype 0 (b :: r) with
      | some (body, rest) =>
        if (body.take 7).map lower = sDoctypeLower ∧ (body.drop 7).any (fun c => !isWs c) then some rest
        else none
      | none => none
    else none
  | [] => none

/-- after `<`, starting at the `?`: `PiParser` + `emit_question_mark` -/
def scanPi (bs : List Nat) : Option (List Nat) :=
  match splitAtSeq [63, 62] bs with
  | some (body, rest) => if body.isEmpty then none else some rest    -- `<?>` is an error
  | none => none

/-- `emit_end`: trailing white space removed – unless there is nothing else (`rposition` finds no
non-blank byte: the content is kept as it is) -/
def trimEnd (bs : List Nat) : List Nat :=
  if bs.all isWs then bs else (bs.reverse.dropWhile isWs).reverse

def stripBom : List Nat → List Nat
  | 239 :: 187 :: 191 :: r => r
  | bs => bs

/-! ## the event loop -/

/-- `read_event_into` repeated until `Eof` or the first `Err`; `stack` = names of the open
elements, innermost first -/
def tokLoop : Nat → List Nat → List Name → List XmlEvent
  | 0, _, _ => [.bad]
  | _ + 1, [], _ => []
  | fuel + 1, b :: r, stack =>
    if b ≠ 60 then
      .text :: tokLoop fuel ((b :: r).dropWhile (· != 60)) stack
    else
      match r with
      | [] => [.bad]                                           -- `UnclosedTag`
      | c :: r1 =>
        if c = 33 then                                         -- `<!`
          match scanBang r1 with
          | some rest => .other :: tokLoop fuel rest stack
          | none => [.bad]
        else if c = 47 then                                    -- `</`
          match scanTag 0 r1 with
          | some (content, rest) =>
            (match stack with
             | top :: st =>
               if trimEnd content = top then .end_ top :: tokLoop fuel rest st else [.bad]
             | [] => [.bad])
          | none => [.bad]
        else if c = 63 then                                    -- `<?`
          match scanPi (c :: r1) with
          | some rest => .other :: tokLoop fuel rest stack
          | none => [.bad]
        else
          match scanTag 0 (c :: r1) with
          | some (content, rest) =>
            if content.getLast? = some 47 then
              .empty (nameOf content.dropLast) (attrsOf content.dropLast) :: tokLoop fuel rest stack
            else
              .start (nameOf content) (attrsOf content) :: tokLoop fuel rest (nameOf content :: stack)
          | none => [.bad]

/-- the events quick-xml's `Reader` yields on `bs` before `Eof` (`bad` last = it returned `Err`) -/
def events (bs : List Nat) : List XmlEvent := tokLoop (bs.length + 1) (stripBom bs) []

/-- `Some` when the reader never returns `Err` -/
def eventsOk (bs : List Nat) : Option (List XmlEvent) :=
  let evs := events bs
  if evs.contains .bad then none else some evs

/-- `parse_jacoco_xml_report` on the bytes of a report -/
def parseBytesCap (cap : Nat) (bs : List Nat) : Outcome (List (Name × Cov)) :=
  let evs := events bs
  parseCap cap evs (enoughFuel evs)

def parseBytes (bs : List Nat) : Outcome (List (Name × Cov)) := parseBytesCap allocMax bs

end Grcov.Jacoco.Bytes
