/-
C14, part TextCost – cost-instrumented copy of the JaCoCo reader model (`Jacoco.lean`,
`parse_jacoco_xml_report` and its helpers in src/parser.rs) at the level of quick-xml events.

The five loops are the loops of `Jacoco.lean` with a `Cost` next to the outcome
(`…LoopC … = (outcome, cost)`; erasing the cost gives the original loop: `…LoopC_fst`,
Lemmas/TextCostJacoco.lean). The cost is accumulated also on the paths that end in an error.
* `reads`  – `read_event_into` calls (every event once, plus the read that returns `Eof`);
* `attrs`  – attributes yielded by quick-xml's attribute iterator. Since /repo ae885a6 the reader
             iterates with `.with_checks(false)`: no comparison with the earlier attributes of the
             element (that check was quadratic in the attributes of one element – former finding
             C14-jacoco-attribute-duplicate-check-quadratic). What remains is linear:
             `get_xml_attribute` restarts the iteration for every attribute it is asked for
             (`class` → name, sourcefilename; `method` → name, line; `counter` → type, covered), so
             an element costs at most (look-ups) × (its attributes), look-ups ≤ 2. * `mapOps` – `BTreeMap`/`FxHashMap` insertions, an upper bound: 1 per `<line>`, 2 per `<method>`
             (`functions.insert`, and at most one re-insertion by `functions.extend` when the file
             already has a record), 1 per `<class>`/`<sourcefile>` (`results_map.entry`);
* `alloc`  – `Vec<bool>` slots of `vec![true; cb]` + `extend(vec![false; mb])`: cb + mb, whatever
             the attributes say (finding C14-jacoco-branch-vector-alloc).
Core Lean only (linked into `gmodel`).
-/
import GrcovModel.Jacoco
import GrcovModel.Merge.Size
namespace Grcov.Jacoco
open Grcov AList

structure Cost where
  reads : Nat := 0
  attrs : Nat := 0
  mapOps : Nat := 0
  alloc : Nat := 0
deriving DecidableEq, Repr

def Cost.add (x y : Cost) : Cost :=
  ⟨x.reads + y.reads, x.attrs + y.attrs, x.mapOps + y.mapOps, x.alloc + y.alloc⟩

/-- component-wise order -/
def Cost.le (x y : Cost) : Prop :=
  x.reads ≤ y.reads ∧ x.attrs ≤ y.attrs ∧ x.mapOps ≤ y.mapOps ∧ x.alloc ≤ y.alloc

/-- put a cost in front of an instrumented computation -/
def withCost {α : Type} (c : Cost) (p : α × Cost) : α × Cost := (p.1, c.add p.2)

def tick : Cost := { reads := 1 }

/-- cost of `get_xml_attribute(.., key)`: the attributes the iterator yields up to the first match
or iterator error (`Jacoco.getAttrWork`) -/
def getAttrCost (key : Name) (a : List Attr) : Cost := { attrs := getAttrWork key a }

/-- cost of the `for a in e.attributes()` loop of the `<line>` arm (`Jacoco.lineAttrsWork`) -/
def lineAttrsCost (a : List Attr) : Cost := { attrs := lineAttrsWork a }

/-- what the `<line>` arm does after the attribute loop -/
def commitCost (a : LineAcc) : Cost :=
  match a.ci, a.cb, a.mb, a.nr with
  | some _, some cb, some mb, some _ =>
    if mb > 0 ∨ cb > 0 then { mapOps := 1, alloc := cb + mb } else { mapOps := 1 }
  | _, _, _, _ => {}

def sourcefileLoopC (cap : Nat) :
    Nat → List XmlEvent → SrcAcc → Outcome (SrcAcc × List XmlEvent) × Cost
  | 0, _, _ => (.diverge, {})
  | _ + 1, [], _ => (.err .parse, tick)
  | fuel + 1, e :: r, acc =>
    withCost tick <|
    match e with
    | .start n a =>
      if localName n = sLine then
        withCost (lineAttrsCost a) <|
        match lineAttrs a {} with
        | .ok la =>
          (match commitLine cap acc la with
           | .ok acc' => withCost (commitCost la) (sourcefileLoopC cap fuel r acc')
           | .err k => (.err k, {})
           | .alloc => (.alloc, {})
           | .diverge => (.diverge, {}))
        | .error k => (.err k, {})
      else sourcefileLoopC cap fuel r acc
    | .end_ n => if localName n = sSourcefile then (.ok (acc, r), {}) else sourcefileLoopC cap fuel r acc
    | .bad => (.err .parse, {})
    | _ => sourcefileLoopC cap fuel r acc

def methodLoopC : Nat → List XmlEvent → Bool → Outcome (Bool × List XmlEvent) × Cost
  | 0, _, _ => (.diverge, {})
  | _ + 1, [], _ => (.err .parse, tick)
  | fuel + 1, e :: r, ex =>
    withCost tick <|
    match e with
    | .start n a =>
      if localName n = sCounter then
        withCost (getAttrCost sType a) <|
        match getAttr sType a with
        | .ok t =>
          if t = sMETHOD then
            withCost (getAttrCost sCovered a) <|
            match getAttr sCovered a with
            | .ok c =>
              (match parseUnsigned U32MAX c with
               | some v => methodLoopC fuel r (decide (v > 0))
               | none => (.err .parse, {}))
            | .error k => (.err k, {})
          else methodLoopC fuel r ex
        | .error k => (.err k, {})
      else methodLoopC fuel r ex
    | .end_ n => if localName n = sMethod then (.ok (ex, r), {}) else methodLoopC fuel r ex
    | .bad => (.err .parse, {})
    | _ => methodLoopC fuel r ex

def classLoopC (cls : Name) :
    Nat → List XmlEvent → List (Name × Fn) → Outcome (List (Name × Fn) × List XmlEvent) × Cost
  | 0, _, _ => (.diverge, {})
  | _ + 1, [], _ => (.err .parse, tick)
  | fuel + 1, e :: r, fns =>
    withCost tick <|
    match e with
    | .start n a =>
      if localName n = sMethod then
        withCost (getAttrCost sName a) <|
        match getAttr sName a with
        | .ok name =>
          withCost (getAttrCost sLine a) <|
          (match getAttr sLine a with
           | .ok l =>
             (match parseUnsigned U32MAX l with
              | some startLine =>
                let m := methodLoopC fuel r false
                withCost m.2 <|
                (match m.1 with
                 | .ok (ex, r') =>
                   withCost { mapOps := 2 }
                     (classLoopC cls fuel r' (set fns (cls ++ cHash :: name) ⟨startLine, ex⟩))
                 | .err k => (.err k, {})
                 | .alloc => (.alloc, {})
                 | .diverge => (.diverge, {}))
              | none => (.err .parse, {}))
           | .error k => (.err k, {}))
        | .error k => (.err k, {})
      else classLoopC cls fuel r fns
    | .end_ n => if localName n = sClass then (.ok (fns, r), {}) else classLoopC cls fuel r fns
    | .bad => (.err .parse, {})
    | _ => classLoopC cls fuel r fns

def packageLoopC (cap : Nat) (package : Name) : Nat → List XmlEvent → List (Name × Cov) →
    Outcome (List (Name × Cov) × List XmlEvent) × Cost
  | 0, _, _ => (.diverge, {})
  | _ + 1, [], _ => (.err .parse, tick)
  | fuel + 1, e :: r, m =>
    withCost tick <|
    match e with
    | .start n a =>
      if localName n = sClass then
        withCost (getAttrCost sName a) <|
        match getAttr sName a with
        | .ok fq =>
          let cls := afterLast cSlash fq
          let top := beforeFirst cDollar cls
          withCost (getAttrCost sSourcefilename a) <|
          (match sourceFileOf a top with
           | .ok file =>
             let c := classLoopC cls fuel r []
             withCost c.2 <|
             (match c.1 with
              | .ok (fns, r') => withCost { mapOps := 1 } (packageLoopC cap package fuel r' (addClass m file fns))
              | .err k => (.err k, {})
              | .alloc => (.alloc, {})
              | .diverge => (.diverge, {}))
           | .error k => (.err k, {}))
        | .error k => (.err k, {})
      else if localName n = sSourcefile then
        withCost (getAttrCost sName a) <|
        match getAttr sName a with
        | .ok file =>
          let c := sourcefileLoopC cap fuel r {}
          withCost c.2 <|
          (match c.1 with
           | .ok (s, r') => withCost { mapOps := 1 } (packageLoopC cap package fuel r' (addSource m file s))
           | .err k => (.err k, {})
           | .alloc => (.alloc, {})
           | .diverge => (.diverge, {}))
        | .error k => (.err k, {})
      else packageLoopC cap package fuel r m
    | .end_ n =>
      if localName n = sPackage then (.ok (m.map fun (f, c) => (outPath package f, c), r), {})
      else packageLoopC cap package fuel r m
    | .bad => (.err .parse, {})
    | _ => packageLoopC cap package fuel r m

def reportLoopC (cap : Nat) : Nat → List XmlEvent → List (Name × Cov) → Outcome (List (Name × Cov)) × Cost
  | 0, _, _ => (.diverge, {})
  | _ + 1, [], res => (.ok res, tick)
  | fuel + 1, e :: r, res =>
    withCost tick <|
    match e with
    | .start n a =>
      if localName n = sPackage then
        withCost (getAttrCost sName a) <|
        match getAttr sName a with
        | .ok package =>
          let p := packageLoopC cap package fuel r []
          withCost p.2 <|
          (match p.1 with
           | .ok (pr, r') => reportLoopC cap fuel r' (res ++ pr)
           | .err k => (.err k, {})
           | .alloc => (.alloc, {})
           | .diverge => (.diverge, {}))
        | .error k => (.err k, {})
      else reportLoopC cap fuel r res
    | .bad => (.err .parse, {})
    | _ => reportLoopC cap fuel r res

/-- `parse_jacoco_xml_report` with its cost -/
def parseCapC (cap : Nat) (evs : List XmlEvent) (fuel : Nat) : Outcome (List (Name × Cov)) × Cost :=
  reportLoopC cap fuel (expand evs) []

def cost (cap : Nat) (evs : List XmlEvent) : Cost := (parseCapC cap evs (enoughFuel evs)).2

/-! ### size of the input: events, attributes, and the bytes of names and values -/

/-- bytes of the attributes in the XML text: key, value, and at least ` `, `=` and two quotes -/
def attrBytes (a : List Attr) : Nat := (a.map fun kv => kv.1.length + kv.2.length + 4).sum

def evAttrs : XmlEvent → List Attr
  | .start _ a => a
  | .empty _ a => a
  | _ => []

def evBytes : XmlEvent → Nat
  | .start n a => 1 + n.length + attrBytes a
  | .empty n a => 1 + n.length + attrBytes a
  | .end_ n => 1 + n.length
  | _ => 1

/-- a lower bound of the length of the XML text the events were read from -/
def evsBytes (evs : List XmlEvent) : Nat := (evs.map evBytes).sum

/-- attributes of all elements -/
def attrCount (evs : List XmlEvent) : Nat := (evs.map fun e => (evAttrs e).length).sum

/-- the `cb + mb` a `<line>` start event asks for (0 for every other event) -/
def lineAlloc : XmlEvent → Nat
  | .start n a =>
    if localName n = sLine then
      match lineAttrs a {} with
      | .ok la => (commitCost la).alloc
      | .error _ => 0
    else 0
  | _ => 0

/-- the most one event can cost, whichever loop reads it -/
def evMax (e : XmlEvent) : Cost :=
  { reads := 1, attrs := 2 * (evAttrs e).length, mapOps := 2, alloc := lineAlloc e }

def sumMax : List XmlEvent → Cost
  | [] => {}
  | e :: r => (evMax e).add (sumMax r)


/-! ### witness families -/

/-- the 2^w names of length w over {a, b} -/
def abKeys : Nat → List Name
  | 0 => [[]]
  | w + 1 => (abKeys w).map (97 :: ·) ++ (abKeys w).map (98 :: ·)

/-- `<package aa..a="" … bb..b="" name="p">`: 2^w + 1 attributes, the one the reader looks for last
(the family on which the removed duplicate check was quadratic; now 2^w + 1 attribute visits) -/
def manyAttrs (w : Nat) : List Attr := (abKeys w).map (fun k => (k, [])) ++ [(sName, [112])]

/-- `<package …2^w attributes… name="p"></package>` -/
def manyAttrsReport (w : Nat) : List XmlEvent := [.start sPackage (manyAttrs w), .end_ sPackage]

/-- `<package name="p"><sourcefile name="A"><line nr="1" ci="0" mb="0" cb="…"/></sourcefile></package>` -/
def oneLineReport (cb : Name) : List XmlEvent :=
  [.start sPackage [(sName, [112])], .start sSourcefile [(sName, [65])],
   .empty sLine [(sNr, [49]), (sCi, [48]), (sMb, [48]), (sCb, cb)],
   .end_ sSourcefile, .end_ sPackage]

/-! ### the witness family of the name amplification -/

/-- `<sourcefile name="k"></sourcefile>` for every name -/
def sfEvents (ks : List Name) : List XmlEvent :=
  ks.flatMap fun k => [.start sSourcefile [(sName, k)], .end_ sSourcefile]

/-- `<package name="pp…p">` (L + 1 bytes) with the 2^w source files named by `abKeys w` -/
def prefixReport (L w : Nat) : List XmlEvent :=
  .start sPackage [(sName, List.replicate (L + 1) 112)] :: (sfEvents (abKeys w) ++ [.end_ sPackage])

end Grcov.Jacoco
