/-
C10, part Bytes — byte-level documents: the concrete syntax tree of an XML text with every
choice a writer has that quick-xml's reader tolerates (white space before / around `=` / after
attributes, either quote, empty-element vs start/end tags, white space before `>` of start and
end tags, text and white space between elements, comments, processing instructions, the XML
declaration, CDATA sections, DOCTYPE), its bytes (`render`) and its events (`flatten`).
`Lemmas/JacocoBytes.lean` proves `events (renderL nodes) = flattenL nodes` for well-formed trees.
-/
import GrcovModel.Jacoco.Bytes
import GrcovModel.Spec.Jacoco
namespace Grcov.Jacoco.Bytes
open Grcov Grcov.Jacoco
open Grcov.Writers.CobBytes (isWs isName isNameByte isNameStart)

structure BAttr where
  /-- white space before the key (not empty) -/
  pre : List Nat
  key : Name
  /-- white space before and after `=` -/
  eqL : List Nat
  eqR : List Nat
  /-- `"` (34) or `'` (39) -/
  quote : Nat
  /-- the bytes between the quotes, as written (entities not resolved) -/
  raw : List Nat
deriving Repr, DecidableEq

def BAttr.render (a : BAttr) : List Nat :=
  a.pre ++ a.key ++ a.eqL ++ 61 :: (a.eqR ++ a.quote :: (a.raw ++ [a.quote]))

def BAttr.wf (a : BAttr) : Bool :=
  !a.pre.isEmpty && a.pre.all isWs && isName a.key && a.eqL.all isWs && a.eqR.all isWs
  && (a.quote == 34 || a.quote == 39) && !a.raw.contains a.quote

def BAttr.attr (a : BAttr) : Attr := (a.key, a.raw)

inductive BNode where
  /-- `<name attrs tail>` children `</name endTail>`, or `<name attrs tail/>` when `selfClose`
  and there are no children -/
  | elem (name : Name) (attrs : List BAttr) (tail : List Nat) (selfClose : Bool)
      (endTail : List Nat) (children : List BNode)
  /-- character data: not empty, no `<` -/
  | text (t : List Nat)
  /-- a complete comment / CDATA section / DOCTYPE / PI / XML declaration, `<` … `>` included -/
  | misc (raw : List Nat)
deriving Repr

def closesEmpty (selfClose : Bool) (children : List BNode) : Bool := selfClose && children.isEmpty

mutual
def render : BNode → List Nat
  | .elem n as tail sc et cs =>
    if closesEmpty sc cs then 60 :: (n ++ as.flatMap BAttr.render ++ tail ++ [47, 62])
    else 60 :: (n ++ as.flatMap BAttr.render ++ tail ++ 62 :: (renderL cs ++ 60 :: 47 :: (n ++ et ++ [62])))
  | .text t => t
  | .misc raw => raw
def renderL : List BNode → List Nat
  | [] => []
  | c :: cs => render c ++ renderL cs
end

mutual
def flatten : BNode → List XmlEvent
  | .elem n as _ sc _ cs =>
    if closesEmpty sc cs then [.empty n (as.map BAttr.attr)]
    else .start n (as.map BAttr.attr) :: (flattenL cs ++ [.end_ n])
  | .text _ => [.text]
  | .misc _ => [.other]
def flattenL : List BNode → List XmlEvent
  | [] => []
  | c :: cs => flatten c ++ flattenL cs
end

/-- a complete piece of `<!…>` / `<?…?>` markup: the scanner consumes exactly it -/
def miscOk : List Nat → Bool
  | 60 :: 33 :: r => scanBang r == some []
  | 60 :: 63 :: r => scanPi (63 :: r) == some []
  | _ => false

def isTextNode : BNode → Bool
  | .text _ => true
  | _ => false

/-- no two adjacent text nodes (they would be ONE text event) -/
def noAdjText : List BNode → Bool
  | a :: b :: r => !(isTextNode a && isTextNode b) && noAdjText (b :: r)
  | _ => true

mutual
def wfNode : BNode → Bool
  | .elem n as tail _ et cs =>
    isName n && as.all BAttr.wf && tail.all isWs && et.all isWs && wfNodes cs && noAdjText cs
  | .text t => !t.isEmpty && !t.contains 60
  | .misc raw => miscOk raw
def wfNodes : List BNode → Bool
  | [] => true
  | c :: cs => wfNode c && wfNodes cs
end

/-- a well-formed byte-level document: well-formed nodes, no adjacent text at top level -/
def wfDoc (nodes : List BNode) : Bool := wfNodes nodes && noAdjText nodes

/-- A byte-level serialisation of the report `r`: a well-formed byte-level document (`nodes`, with
every layout choice: attribute order, quotes, white space, empty-element vs start/end tags, text
and indentation between elements, the declaration, the DOCTYPE line, comments, session info, group
wrappers, counters of every type) whose event sequence is a well-formed event-level serialisation
`x` of `r` in the sense of `Spec/Jacoco.lean` (which is where escaping of names, spelling of
numbers, interleaving of `<class>` and `<sourcefile>` and the ignorable elements are quantified). -/
structure Serialisation (r : Spec.Report) where
  nodes : List BNode
  x : Spec.XReport
  wfBytes : wfDoc nodes = true
  /-- the text does not begin with the first byte of a UTF-8 byte-order mark -/
  noBom : (renderL nodes).head? ≠ some 239
  events_eq : flattenL nodes = Spec.events x
  wfx : Spec.wf x = true
  abs_eq : Spec.abs x = r

/-- the bytes of the serialised report -/
def jacocoXml {r : Spec.Report} (s : Serialisation r) : List Nat := renderL s.nodes

/-- the events the parser is to see -/
def eventsOf {r : Spec.Report} (s : Serialisation r) : List XmlEvent := Spec.events s.x

end Grcov.Jacoco.Bytes
