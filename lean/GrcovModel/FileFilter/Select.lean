/-
C16, part Select — exclusion markers THEN `--filter covered|uncovered`
(src/path_rewriting.rs 377-404): in `rewrite_paths` the loop over `file_filter.create(&abs_path)`
runs first, and `match filter_option { Some(true) => if !is_covered(&result) …` is evaluated on
the record the loop has reduced. A file whose only executed lines carry a marker is therefore an
UNCOVERED file. (Review 2, item 7.)

`thenFilter` is the model of those two steps for one record; the whole closure with the path
selection in front is `Cli.RunAll.selectRecF` (Props/C16Filter.lean relates the two).
Core Lean only: linked into the native driver `gm_c16` (op `ffselect`).
-/
import GrcovModel.FileFilter
import GrcovModel.Rewrite
namespace Grcov.FileFilter
open Grcov AList

/-- path_rewriting.rs 377-404 for one record: the marker loop (377-390), then
`match filter_option` (392-404) on the reduced record. `none` = the closure returns `None`
(the file is not reported). -/
def thenFilter (fs : List FT) (filter : Option Bool) (c : Cov) : Option Cov :=
  let c' := applyFilters fs c
  if Rewrite.filterOk filter c' then some c' else none

/-- the same with the filter list of a file whose source has match bits `ms` -/
def rewriteThenFilter (o : Opts) (readable : Bool) (ms : List Bits) (filter : Option Bool)
    (c : Cov) : Option Cov :=
  thenFilter (create o readable ms) filter c

/-- "some line of the record was executed" (filter.rs 6-9) -/
def anyHit (c : Cov) : Bool := c.lines.any fun lc => lc.2 != 0

/-- the function clause of `is_covered` (filter.rs 16-20); the markers never touch it -/
def fnClause (c : Cov) : Bool :=
  decide (c.functions.length ≤ 1) ||
    c.functions.any fun nf => nf.2.executed && nf.1 != Rewrite.topLevel

end Grcov.FileFilter
