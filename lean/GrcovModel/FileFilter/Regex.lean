/-
FileFilter/Regex — the six `--excl-*` options as PATTERNS (main.rs 278-297, 355-362): each given
value goes through `Regex::from_str` inside clap's argument parser, the six `Option<Regex>` reach
`FileFilter::new` by position, and `FileFilter::create` calls `is_match` on every source line
(`line.strip_suffix('\r')` of a piece of `split('\n')`: the haystack is ONE line, never contains a
line feed, may contain carriage returns anywhere but at most one less at its end).

* `compileArgs` — clap's value parsing of the six options: every given value must be UTF-8 and
  compile; the first failure (in field order) is a usage error: exit status 2, nothing runs
  (`cliExit`). `Regex.compile` answers `unsupported` where the model makes no claim.
* `Compiled6.rx` — the six compiled patterns as the `Rx` of `FileFilter.createSrc`
  (`lineMatch`: the line is decoded; it is UTF-8 because `read_to_string` returned it).
* `createPat` — `FileFilter::new(r1, …, r6).create(path)` for a file with the given bytes: the
  filter list, with `read_to_string` failing on bytes that are not UTF-8.
Core Lean only.
-/
import GrcovModel.FileFilter
import GrcovModel.MainGlue
import GrcovModel.Regex.Match
namespace Grcov.FileFilter
open Grcov Grcov.Regex

/-- `opt.as_ref().is_some_and(|f| f.is_match(line))` for a compiled pattern and a line in bytes -/
def lineMatch (a : Option Ast) (l : List Nat) : Bool :=
  match a, decode l with
  | some a, some cs => isMatch a cs
  | _, _ => false

/-- the six `Option<Regex>` fields of `FileFilter` -/
structure Compiled6 where
  line : Option Ast
  start : Option Ast
  stop : Option Ast
  brLine : Option Ast
  brStart : Option Ast
  brStop : Option Ast
deriving DecidableEq, Repr

def Compiled6.rx (c : Compiled6) : Rx :=
  ⟨lineMatch c.line, lineMatch c.start, lineMatch c.stop, lineMatch c.brLine, lineMatch c.brStart,
   lineMatch c.brStop⟩

def Compiled6.toOpts (c : Compiled6) : Opts :=
  ⟨c.line.isSome, c.start.isSome, c.stop.isSome, c.brLine.isSome, c.brStart.isSome, c.brStop.isSome⟩

/-- why clap refuses an `--excl-*` value -/
inductive ArgErr where
  | syntax (e : RegexErr)    -- `Regex::from_str` fails (`unsupported`: the model makes no claim)
  | notUtf8
deriving DecidableEq, Repr

instance : DecidableEq (Except ArgErr (List FT)) := fun x y =>
  match x, y with
  | .ok a, .ok b => if h : a = b then isTrue (by rw [h]) else isFalse (fun e => h (by cases e; rfl))
  | .error a, .error b => if h : a = b then isTrue (by rw [h]) else isFalse (fun e => h (by cases e; rfl))
  | .ok _, .error _ => isFalse (fun e => by cases e)
  | .error _, .ok _ => isFalse (fun e => by cases e)

/-- one `#[arg(long)] excl_…: Option<Regex>` -/
def compileOpt : Option (List Nat) → Except ArgErr (Option Ast)
  | none => .ok none
  | some p =>
    match compile p with
    | .ok a => .ok (some a)
    | .err e => .error (.syntax e)
    | .notUtf8 => .error .notUtf8

/-- clap on the six options -/
def compileArgs (a : MainGlue.FileFilterArgs) : Except ArgErr Compiled6 :=
  match compileOpt a.exclLine with
  | .error e => .error e
  | .ok l =>
    match compileOpt a.exclStart with
    | .error e => .error e
    | .ok s =>
      match compileOpt a.exclStop with
      | .error e => .error e
      | .ok t =>
        match compileOpt a.exclBrLine with
        | .error e => .error e
        | .ok bl =>
          match compileOpt a.exclBrStart with
          | .error e => .error e
          | .ok bs =>
            match compileOpt a.exclBrStop with
            | .error e => .error e
            | .ok bt => .ok ⟨l, s, t, bl, bs, bt⟩

/-- `std::fs::read_to_string` on a file with these bytes -/
def readToString (bytes : List Nat) : Option (List Nat) :=
  if (decode bytes).isSome then some bytes else none

/-- `FileFilter::new(…six compiled values…).create(path)`; `file = none`: the path cannot be read -/
def createPat (a : MainGlue.FileFilterArgs) (file : Option (List Nat)) : Except ArgErr (List FT) :=
  match compileArgs a with
  | .error e => .error e
  | .ok c => .ok (createSrc c.toOpts c.rx (file.bind readToString))

/-- the process exit status when clap refuses the command line (`Error::exit`: usage errors are 2);
`none`: the six options are accepted and `main` goes on -/
def cliExit (a : MainGlue.FileFilterArgs) : Option Nat :=
  match compileArgs a with
  | .error _ => some 2
  | .ok _ => none

/-! ### specification vocabulary (occurs in the statements of Props/C16Regex.lean; no mirror of Rust code) -/

/-- source line `n` (1-based) as `create` hands it to `is_match`: the `n`-th piece of the text after
one final line feed was dropped, without one trailing carriage return -/
def srcLine (src : List Nat) (n : Nat) : Option (List Nat) :=
  if n = 0 then none else ((splitSrc src)[n - 1]?).map stripCR

/-- the option is configured with pattern `pat`, source line `n` exists, and `pat` matches it
(`Regex.Matches`: the specification of `is_match`, on the chars of the line) -/
def LineMatches (a : Option Ast) (src : List Nat) (n : Nat) : Prop :=
  ∃ pat l cs, a = some pat ∧ srcLine src n = some l ∧ decode l = some cs ∧ Matches pat cs

/-- source line `n` exists and contains the text `t` (chars) -/
def LineContains (t : Chars) (src : List Nat) (n : Nat) : Prop :=
  ∃ l cs, srcLine src n = some l ∧ decode l = some cs ∧ t <:+: cs

/-- source line `n` exists and IS the text `t` -/
def LineIs (t : Chars) (src : List Nat) (n : Nat) : Prop :=
  ∃ l, srcLine src n = some l ∧ decode l = some t

/-- the option is given the (escaped) text `cs` and source line `n` contains it -/
def OptContains (t : Option Chars) (src : List Nat) (n : Nat) : Prop :=
  ∃ cs, t = some cs ∧ LineContains cs src n

/-- `regex::escape`: a backslash before every meta character (`regex_syntax::escape`) -/
def escapeText (cs : Chars) : Chars := cs.flatMap fun c => if isMeta c then [92, c] else [c]

/-- a marker text the literal theorems speak about: Unicode scalar values, at most 19000 of them
(beyond that the size estimate `Regex.cost` no longer vouches for the 10 MiB limit) -/
def OkText (t : Option Chars) : Prop :=
  ∀ cs, t = some cs → (∀ c ∈ cs, isScalar c = true) ∧ cs.length ≤ 19000

/-- … made of ASCII chars only -/
def AsciiText (t : Option Chars) : Prop := ∀ cs, t = some cs → ∀ b ∈ cs, b < 128

/-- an option value that is its own literal pattern: ASCII, no meta character, at most 19000 chars -/
def PlainAscii (t : Option (List Nat)) : Prop :=
  ∀ cs, t = some cs → (∀ b ∈ cs, b < 128 ∧ isMeta b = false) ∧ cs.length ≤ 19000

/-- the command-line value (UTF-8 bytes) that makes a marker option look for the literal text `cs` -/
def litArg (t : Option Chars) : Option (List Nat) := t.map fun cs => encAll (escapeText cs)

/-- six literal markers -/
def litArgs (l s p bl bs bp : Option Chars) : MainGlue.FileFilterArgs :=
  ⟨litArg l, litArg s, litArg p, litArg bl, litArg bs, litArg bp⟩

/-- the conventional configuration: `--excl-line LCOV_EXCL_LINE --excl-start LCOV_EXCL_START …` -/
def lcovArgs : MainGlue.FileFilterArgs :=
  litArgs (some [76, 67, 79, 86, 95, 69, 88, 67, 76, 95, 76, 73, 78, 69])
    (some [76, 67, 79, 86, 95, 69, 88, 67, 76, 95, 83, 84, 65, 82, 84])
    (some [76, 67, 79, 86, 95, 69, 88, 67, 76, 95, 83, 84, 79, 80])
    (some [76, 67, 79, 86, 95, 69, 88, 67, 76, 95, 66, 82, 95, 76, 73, 78, 69])
    (some [76, 67, 79, 86, 95, 69, 88, 67, 76, 95, 66, 82, 95, 83, 84, 65, 82, 84])
    (some [76, 67, 79, 86, 95, 69, 88, 67, 76, 95, 66, 82, 95, 83, 84, 79, 80])

end Grcov.FileFilter
