/-
Model of `merge_results` and `add_results` (src/lib.rs 53-134) and of `CovResult` (src/defs.rs).
Each of the three loops of `merge_results` is `AList.mergeWith` with its own combiner.
-/
import GrcovModel.Base
namespace Grcov
open AList

structure Fn where
  start : Nat
  executed : Bool
deriving DecidableEq, Repr

abbrev Name := List Nat   -- bytes of a UTF-8 name

structure Cov where
  lines : List (Nat × Nat) := []
  branches : List (Nat × List Bool) := []
  functions : List (Name × Fn) := []
deriving DecidableEq, Repr

/-- lib.rs 75-81: OR over the common prefix, then the tail of the longer vector. -/
def zipOr : List Bool → List Bool → List Bool
  | [], t => t
  | v, [] => v
  | x :: v, y :: t => (x || y) :: zipOr v t

/-- lib.rs 91: `executed |=`, `start` kept from the existing entry. -/
def fnMerge (x y : Fn) : Fn := { x with executed := x.executed || y.executed }

/-- The overflow warning flag returned by `merge_results`. -/
def mergeOverflow (a b : Cov) : Bool :=
  b.lines.any fun lc => match get? a.lines lc.1 with
    | some v => decide (v + lc.2 > U64MAX)
    | none => false

def merge (a b : Cov) : Cov :=
  { lines := mergeWith satAdd a.lines b.lines
    branches := mergeWith zipOr a.branches b.branches
    functions := mergeWith fnMerge a.functions b.functions }

/-- What a `CovResult` value guarantees by construction (maps have unique keys, u32 keys, u64 counts). -/
structure Cov.WF (c : Cov) : Prop where
  linesNodup : NodupKeys c.lines
  branchesNodup : NodupKeys c.branches
  functionsNodup : NodupKeys c.functions
  countsFit : ∀ kv ∈ c.lines, kv.2 ≤ U64MAX

/-! ### zipOr -/

@[simp] theorem zipOr_nil_left (t : List Bool) : zipOr [] t = t := by cases t <;> rfl
@[simp] theorem zipOr_nil_right (v : List Bool) : zipOr v [] = v := by cases v <;> rfl
@[simp] theorem zipOr_cons_cons (x y v t) : zipOr (x :: v) (y :: t) = (x || y) :: zipOr v t := rfl

theorem zipOr_comm (u v : List Bool) : zipOr u v = zipOr v u := by
  induction u generalizing v with
  | nil => simp
  | cons x u ih => cases v with
    | nil => simp
    | cons y v => simp [ih v, Bool.or_comm]

theorem zipOr_assoc (u v w : List Bool) : zipOr (zipOr u v) w = zipOr u (zipOr v w) := by
  induction u generalizing v w with
  | nil => simp
  | cons x u ih => cases v with
    | nil => simp
    | cons y v => cases w with
      | nil => simp
      | cons z w => simp [ih, Bool.or_assoc]

theorem zipOr_length (u v : List Bool) : (zipOr u v).length = max u.length v.length := by
  induction u generalizing v with
  | nil => simp
  | cons x u ih => cases v with
    | nil => simp
    | cons y v => simp [ih]

/-- slot `i` of the result is taken iff it is taken on either side (absent = not taken) -/
theorem zipOr_getD (u v : List Bool) (i : Nat) :
    (zipOr u v).getD i false = (u.getD i false || v.getD i false) := by
  induction u generalizing v i with
  | nil => simp
  | cons x u ih => cases v with
    | nil => simp
    | cons y v => cases i with
      | zero => simp
      | succ i => simpa using ih v i

/-! ### functions -/

theorem fnMerge_assoc (x y z : Fn) : fnMerge (fnMerge x y) z = fnMerge x (fnMerge y z) := by
  simp [fnMerge, Bool.or_assoc]

/-- executed flag of an optional function entry -/
def execOf (o : Option Fn) : Option Bool := o.map (·.executed)
def startOf (o : Option Fn) : Option Nat := o.map (·.start)

theorem execOf_optCombine (x y : Option Fn) :
    execOf (optCombine fnMerge x y) = optCombine (· || ·) (execOf x) (execOf y) := by
  cases x <;> cases y <;> simp [execOf, fnMerge]

/-- start line: the left one when present, else the right one -/
theorem startOf_optCombine (x y : Option Fn) :
    startOf (optCombine fnMerge x y) = (startOf x).orElse (fun _ => startOf y) := by
  cases x <;> cases y <;> simp [startOf, fnMerge]

/-! ### pointwise characterisation of `merge` -/

theorem merge_lines (a b : Cov) (hb : b.WF) (l : Nat) :
    get? (merge a b).lines l = optCombine satAdd (get? a.lines l) (get? b.lines l) :=
  get?_mergeWith _ _ _ hb.linesNodup l

theorem merge_branches (a b : Cov) (hb : b.WF) (l : Nat) :
    get? (merge a b).branches l = optCombine zipOr (get? a.branches l) (get? b.branches l) :=
  get?_mergeWith _ _ _ hb.branchesNodup l

theorem merge_functions (a b : Cov) (hb : b.WF) (n : Name) :
    get? (merge a b).functions n = optCombine fnMerge (get? a.functions n) (get? b.functions n) :=
  get?_mergeWith _ _ _ hb.functionsNodup n

theorem mem_of_get? {κ α} [DecidableEq κ] {m : List (κ × α)} {k v} (h : get? m k = some v) :
    (k, v) ∈ m := by
  induction m with
  | nil => simp at h
  | cons kv m ih =>
    obtain ⟨k', w⟩ := kv
    simp only [get?_cons] at h
    by_cases hk : k' = k
    · subst hk; simp at h; subst h; simp
    · simp [hk] at h; exact List.mem_cons_of_mem _ (ih h)

theorem get?_of_mem {κ α} [DecidableEq κ] {m : List (κ × α)} (hm : NodupKeys m) {k v}
    (h : (k, v) ∈ m) : get? m k = some v := by
  induction m with
  | nil => simp at h
  | cons kv m ih =>
    obtain ⟨k', w⟩ := kv
    have hm' : NodupKeys m := by unfold NodupKeys keys at *; simp at hm; exact hm.2
    simp only [List.mem_cons] at h
    rcases h with h | h
    · cases h; simp
    · have : k' ≠ k := by
        intro e; subst e
        unfold NodupKeys keys at hm; simp at hm; exact hm.1 v h
      simp [this, ih hm' h]

theorem merge_wf (a b : Cov) (ha : a.WF) (hb : b.WF) : (merge a b).WF := by
  refine ⟨nodupKeys_mergeWith _ _ _ ha.linesNodup, nodupKeys_mergeWith _ _ _ ha.branchesNodup,
    nodupKeys_mergeWith _ _ _ ha.functionsNodup, ?_⟩
  intro kv hkv
  obtain ⟨l, c⟩ := kv
  have hn : NodupKeys (merge a b).lines := nodupKeys_mergeWith _ _ _ ha.linesNodup
  have hg := get?_of_mem hn hkv
  rw [merge_lines a b hb] at hg
  cases hA : get? a.lines l with
  | none =>
    rw [hA] at hg; simp at hg
    exact hb.countsFit _ (mem_of_get? hg)
  | some x =>
    cases hB : get? b.lines l with
    | none => rw [hA, hB] at hg; simp at hg; subst hg; exact ha.countsFit _ (mem_of_get? hA)
    | some y => rw [hA, hB] at hg; simp at hg; subst hg; exact satAdd_le _ _

/-! ### n-ary aggregation -/

def Cov.empty : Cov := {}

theorem Cov.empty_wf : Cov.empty.WF :=
  ⟨by simp [Cov.empty, NodupKeys, keys], by simp [Cov.empty, NodupKeys, keys],
   by simp [Cov.empty, NodupKeys, keys], by simp [Cov.empty]⟩

/-- left fold, the way `add_results` accumulates into one map entry -/
def mergeAll (cs : List Cov) : Cov := cs.foldl merge Cov.empty

inductive Tree (α : Type) where
  | leaf (a : α)
  | node (l r : Tree α)

def Tree.leaves : Tree α → List α
  | .leaf a => [a]
  | .node l r => l.leaves ++ r.leaves

/-- any parenthesisation of the pairwise combination -/
def Tree.eval : Tree Cov → Cov
  | .leaf a => a
  | .node l r => merge l.eval r.eval

/-- pointwise denotation of an aggregate -/
def den (f : α → α → α) (xs : List (Option α)) : Option α := xs.foldr (optCombine f) none

theorem den_append {f : α → α → α} (hf : ∀ x y z, f (f x y) z = f x (f y z))
    (xs ys : List (Option α)) : den f (xs ++ ys) = optCombine f (den f xs) (den f ys) := by
  induction xs with
  | nil => simp [den]
  | cons x xs ih =>
    have : den f (x :: xs ++ ys) = optCombine f x (den f (xs ++ ys)) := rfl
    rw [this, ih, ← optCombine_assoc hf]; rfl

theorem den_perm {f : α → α → α} (hc : ∀ x y, f x y = f y x)
    (ha : ∀ x y z, f (f x y) z = f x (f y z)) {xs ys : List (Option α)} (p : xs.Perm ys) :
    den f xs = den f ys := by
  unfold den
  apply List.Perm.foldr_eq' p
  intro x _ y _ z
  rw [← optCombine_assoc ha, ← optCombine_assoc ha, optCombine_comm hc y x]

theorem Tree.eval_wf (t : Tree Cov) (h : ∀ c ∈ t.leaves, c.WF) : t.eval.WF := by
  induction t with
  | leaf a => exact h a (by simp [Tree.leaves])
  | node l r ihl ihr =>
    simp only [Tree.leaves, List.mem_append] at h
    exact merge_wf _ _ (ihl fun c hc => h c (Or.inl hc)) (ihr fun c hc => h c (Or.inr hc))

theorem Tree.eval_lines (t : Tree Cov) (h : ∀ c ∈ t.leaves, c.WF) (l : Nat) :
    get? t.eval.lines l = den satAdd (t.leaves.map fun c => get? c.lines l) := by
  induction t with
  | leaf a => simp [Tree.eval, Tree.leaves, den]
  | node lt rt ihl ihr =>
    simp only [Tree.leaves, List.mem_append] at h
    have hr := Tree.eval_wf rt fun c hc => h c (Or.inr hc)
    simp only [Tree.eval, Tree.leaves, List.map_append]
    rw [merge_lines _ _ hr, den_append satAdd_assoc,
      ihl fun c hc => h c (Or.inl hc), ihr fun c hc => h c (Or.inr hc)]

theorem Tree.eval_branches (t : Tree Cov) (h : ∀ c ∈ t.leaves, c.WF) (l : Nat) :
    get? t.eval.branches l = den zipOr (t.leaves.map fun c => get? c.branches l) := by
  induction t with
  | leaf a => simp [Tree.eval, Tree.leaves, den]
  | node lt rt ihl ihr =>
    simp only [Tree.leaves, List.mem_append] at h
    have hr := Tree.eval_wf rt fun c hc => h c (Or.inr hc)
    simp only [Tree.eval, Tree.leaves, List.map_append]
    rw [merge_branches _ _ hr, den_append zipOr_assoc,
      ihl fun c hc => h c (Or.inl hc), ihr fun c hc => h c (Or.inr hc)]

theorem Tree.eval_functions (t : Tree Cov) (h : ∀ c ∈ t.leaves, c.WF) (n : Name) :
    get? t.eval.functions n = den fnMerge (t.leaves.map fun c => get? c.functions n) := by
  induction t with
  | leaf a => simp [Tree.eval, Tree.leaves, den]
  | node lt rt ihl ihr =>
    simp only [Tree.leaves, List.mem_append] at h
    have hr := Tree.eval_wf rt fun c hc => h c (Or.inr hc)
    simp only [Tree.eval, Tree.leaves, List.map_append]
    rw [merge_functions _ _ hr, den_append fnMerge_assoc,
      ihl fun c hc => h c (Or.inl hc), ihr fun c hc => h c (Or.inr hc)]

theorem execOf_den (xs : List (Option Fn)) :
    execOf (den fnMerge xs) = den (· || ·) (xs.map execOf) := by
  induction xs with
  | nil => rfl
  | cons x xs ih =>
    have : den fnMerge (x :: xs) = optCombine fnMerge x (den fnMerge xs) := rfl
    rw [this, execOf_optCombine, ih]; rfl

theorem sum_filterMap_allNone (xs : List (Option Nat)) (hn : xs.all Option.isNone = true) :
    (xs.filterMap id).sum = 0 := by
  induction xs with
  | nil => rfl
  | cons y ys ihy =>
    simp only [List.all_cons, Bool.and_eq_true] at hn
    cases y with
    | none => simpa using ihy hn.2
    | some _ => simp at hn

/-- closed form: the clamped sum of the counts that are present -/
theorem den_satAdd_closed (xs : List (Option Nat)) (hx : ∀ v, some v ∈ xs → v ≤ U64MAX) :
    den satAdd xs = if xs.all Option.isNone then none
                    else some (min ((xs.filterMap id).sum) U64MAX) := by
  induction xs with
  | nil => rfl
  | cons x xs ih =>
    have ih := ih fun v hv => hx v (List.mem_cons_of_mem _ hv)
    have : den satAdd (x :: xs) = optCombine satAdd x (den satAdd xs) := rfl
    rw [this, ih]
    cases x with
    | none => simp
    | some v =>
      have hv : v ≤ U64MAX := hx v (by simp)
      by_cases hn : xs.all Option.isNone
      · have hz : (xs.filterMap id).sum = 0 := sum_filterMap_allNone xs hn
        simp only [hn, if_true, optCombine_none_right]
        simp [hz]
        omega
      · simp only [hn]
        simp [satAdd]
        omega

/-! ### add_results (lib.rs 101-134) -/

abbrev Key := List Nat   -- bytes of a path

/-- one step of the `for result in results` loop: entry-or-merge under the (possibly
canonicalised) key. `canon` is `source_dir.join(key)` canonicalised when that succeeds, else the
key itself – a file-system parameter. -/
def addOne (canon : Key → Key) (m : List (Key × Cov)) (kc : Key × Cov) : List (Key × Cov) :=
  let k := canon kc.1
  set m k (match get? m k with
            | some v => merge v kc.2
            | none => kc.2)

def addResults (canon : Key → Key) (m : List (Key × Cov)) (batch : List (Key × Cov)) :
    List (Key × Cov) :=
  batch.foldl (addOne canon) m

/-- what one map entry becomes: the left fold of `merge` over the batch entries that land on it -/
def foldInto (o : Option Cov) (cs : List Cov) : Option Cov :=
  cs.foldl (fun o c => some (match o with | some v => merge v c | none => c)) o

theorem get?_addResults (canon : Key → Key) (m : List (Key × Cov)) (batch : List (Key × Cov))
    (k : Key) :
    get? (addResults canon m batch) k
      = foldInto (get? m k) ((batch.filter fun kc => canon kc.1 = k).map (·.2)) := by
  induction batch generalizing m with
  | nil => simp [addResults, foldInto]
  | cons kc batch ih =>
    have step : addResults canon m (kc :: batch) = addResults canon (addOne canon m kc) batch := rfl
    rw [step, ih]
    by_cases hk : canon kc.1 = k
    · subst hk
      simp [addOne, get?_set, foldInto]
    · simp [addOne, get?_set, hk]

theorem nodupKeys_addResults (canon : Key → Key) (m : List (Key × Cov)) (batch)
    (hm : NodupKeys m) : NodupKeys (addResults canon m batch) := by
  induction batch generalizing m with
  | nil => simpa [addResults]
  | cons kc batch ih => exact ih _ (nodupKeys_set hm _ _)

end Grcov
