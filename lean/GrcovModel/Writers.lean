/-
Model of the per-file line encodings of the report writers (C03):
* coveralls (`output_coveralls`): `coverage` = for line in 1..=last: count or null;
* covdir (`CDFileStats::get_coverage`): `coverage` = vec![-1; last] with the counts filled in;
* html (`gen_html`): one row per SOURCE line: (line number, count or -1, text);
* the BRDA-style branch quadruples of coveralls are `Lcov.brdaRecords` (Lemmas/Lcov.lean);
* cobertura (`get_coverage`/`write_lines`): one `<line>` per key of `lines`, with its conditions
  when the line also has a branch vector;
* ActiveData-ETL: covered / uncovered line lists.
Counts are natural numbers below 2^64; after the fix to i128 the -1 marker can never collide
with a count.
-/
import GrcovModel.Merge
namespace Grcov.Writers
open Grcov AList

/-- `*lines.keys().last().unwrap_or(&0)` -/
def lastKey (lines : List (Nat × Nat)) : Nat := (keys lines).foldl max 0

/-- entry for line `l`: the count, or -1 when the line is not instrumented -/
def entry (lines : List (Nat × Nat)) (l : Nat) : Int :=
  match get? lines l with
  | some c => (c : Int)
  | none => -1

/-- covdir: index `i` is line `i+1`, for lines 1..=last -/
def covdirArray (lines : List (Nat × Nat)) : List Int :=
  (List.range (lastKey lines)).map fun i => entry lines (i + 1)

/-- coveralls: the same positions with `null` for uninstrumented lines -/
def coverallsArray (lines : List (Nat × Nat)) : List (Option Nat) :=
  (List.range (lastKey lines)).map fun i => get? lines (i + 1)

/-- html: one row per source line (`nSrc` of them) -/
def htmlCounts (lines : List (Nat × Nat)) (nSrc : Nat) : List Int :=
  (List.range nSrc).map fun i => entry lines (i + 1)

/-- cobertura: the `<line>` elements of a class: (number, hits, conditions if any) -/
def coberturaLines (c : Cov) : List (Nat × Nat × Option (List Bool)) :=
  c.lines.map fun (l, h) => (l, h, get? c.branches l)

/-- ActiveData: covered and uncovered line lists of a file -/
def adeCovered (lines : List (Nat × Nat)) : List Nat := (lines.filter fun lc => decide (lc.2 > 0)).map (·.1)
def adeUncovered (lines : List (Nat × Nat)) : List Nat := (lines.filter fun lc => decide (lc.2 = 0)).map (·.1)

theorem le_foldl_max (ks : List Nat) (a : Nat) : a ≤ ks.foldl max a := by
  induction ks generalizing a with
  | nil => exact Nat.le_refl _
  | cons k ks ih => exact Nat.le_trans (Nat.le_max_left a k) (ih (max a k))

theorem mem_le_foldl_max (ks : List Nat) (a : Nat) (k : Nat) (hk : k ∈ ks) : k ≤ ks.foldl max a := by
  induction ks generalizing a with
  | nil => simp at hk
  | cons x ks ih =>
    simp only [List.mem_cons] at hk
    rcases hk with hk | hk
    · subst hk; exact Nat.le_trans (Nat.le_max_right a k) (le_foldl_max ks (max a k))
    · exact ih (max a x) hk

theorem key_le_lastKey (lines : List (Nat × Nat)) (l : Nat) (h : (get? lines l).isSome) :
    l ≤ lastKey lines :=
  mem_le_foldl_max _ 0 l ((get?_isSome_iff lines l).mp h)

end Grcov.Writers
