/-
What a gcno file SAYS, read off its records without building the control-flow graph – the reference
for the clause "the set of instrumented lines" of C08 and for the stamp clause of C15.

* `listed`: walk the record stream; a LINES record belongs to the FUNCTION record before it and
  lists, under the name of that function's source file, line numbers.  Every listed line is an
  instrumented line of that file: this is what `llvm-cov gcov` reports (GCOV.cpp `readGCNO`:
  `Block.addLine(line)` for every non-zero word; clang writes only the function's own file name
  into a LINES record).  `listed true` additionally drops the lines outside the function's
  `[start_line, end_line]` – what `read_lines` of src/reader.rs does for format versions ≥ 8
  (clang writes a tight `end_line`, llvm-cov ignores it: finding C08-gcno8-line-range-filter).
* `stampSpelling`: the four version bytes of a gcno/gcda file in the order everybody writes them
  (`408*`, `A93*`, `B01*`: the big-endian spelling of the word), and `stampCanon`: the spellings
  the compilers produce, on which the number computed by `get_version` is injective.
The harness compares `listed` (driver op `c08.listed`) with the instrumented lines of
`llvm-cov gcov` on clang-compiled programs in six format versions.  Core Lean only.
-/
import GrcovModel.Gcno.Bin
namespace Grcov.Gcno
open Outcome

/-- `[lo, hi]` when the range test applies -/
def inRange (range : Option (Nat × Nat)) (n : Nat) : Bool :=
  match range with
  | none => true
  | some (lo, hi) => decide (lo ≤ n) && decide (n ≤ hi)

/-- the line numbers a LINES record lists under the (decoded) file name `fname`, restricted to
`range` when there is one; `mt` = the last file name seen is `fname` (initially true, as in
`read_lines`) -/
def listedLines (fname : Bytes) (range : Option (Nat × Nat)) : Bool → List LineItem → List Nat
  | _, [] => []
  | mt, .line n :: rest =>
    if mt && inRange range n then n :: listedLines fname range mt rest
    else listedLines fname range mt rest
  | _, .file nm :: rest =>
    if nm = [] then [] else listedLines fname range (decide (Lcov.utf8Lossy nm = fname)) rest

/-- (file, line) pairs listed by the LINES records of a record stream; `cur` = decoded file name,
start line and end line of the FUNCTION record last seen; `filter` = apply the range test -/
def listed (filter : Bool) : Option (Bytes × Nat × Nat) → List NRec → List (Bytes × Nat)
  | _, [] => []
  | _, .func _ _ _ _ file st en :: rest => listed filter (some (Lcov.utf8Lossy file, st, en)) rest
  | some (fn, st, en), .lines _ items :: rest =>
    (listedLines fn (if filter then some (st, en) else none) true items).map (fun l => (fn, l))
      ++ listed filter (some (fn, st, en)) rest
  | cur, _ :: rest => listed filter cur rest

/-- the instrumented lines a gcno record stream lists (no range test): the reference -/
def listedRef (recs : List NRec) : List (Bytes × Nat) := listed false none recs

/-- what `read_lines` keeps: the range test applies from format version 8 on -/
def listedKept (version : Nat) (recs : List NRec) : List (Bytes × Nat) :=
  listed (decide (version ≥ 80)) none recs

/-! ### version stamps -/

/-- the four stamp bytes of a gcno (`magic = oncg`) or gcda (`magic = adcg`) buffer in
big-endian spelling order (`[52, 48, 56, 42]` = `408*`), whatever the byte order of the file -/
def stampSpelling (magic : List Nat) (bs : List Nat) : Option (List Nat) :=
  match guessEndian magic bs with
  | .ok (le, b0 :: b1 :: b2 :: b3 :: _) => some (if le then [b3, b2, b1, b0] else [b0, b1, b2, b3])
  | _ => none

/-- `read_version` on a spelling `[c2, c1, c0, star]` -/
def spellingVersion : List Nat → Option Nat
  | [c2, c1, c0, star] =>
    if star = 42 then
      match getVersion c0 c1 c2 with
      | .ok v => some v
      | _ => none
    else none
  | _ => none

def isDig (b : Nat) : Bool := decide (48 ≤ b) && decide (b ≤ 57)

/-- The spellings compilers write, on which `get_version` is injective: `d0d*` with a leading
digit up to 8 (gcc ≤ 8 style, LLVM's `402*`, `407*`, `408*`, `800*`: major, `0`, minor), `A9d*`
(gcc 9) and `Ldd*` with a letter `B`…`Z` (gcc ≥ 10: `B01*`, `B22*`). -/
def stampCanon : List Nat → Bool
  | [c2, c1, c0, star] =>
    decide (star = 42) && isDig c0 && isDig c1 &&
      ((isDig c2 && decide (c2 ≤ 56) && decide (c1 = 48)) || (decide (c2 = 65) && decide (c1 = 57))
        || (decide (66 ≤ c2) && decide (c2 ≤ 90)))
  | _ => false

end Grcov.Gcno
