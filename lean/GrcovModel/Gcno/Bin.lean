/-
Byte layer of the gcno/gcda reader (`GcovReaderBuf`, `read_gcno`, `read_functions`, `read_blocks`,
`read_edges`, `read_lines`, `read_gcda` of src/reader.rs): bytes → records.  The record stream keeps
the order of the reads, so a failure of the byte reader (`short` = "Not enough data in buffer",
`recordLen` = "Record shorter than its content"; `crash` = a Rust panic – none is left in the byte
reader after the fix "malformed gcno/gcda files are rejected instead of panicking")
is delivered as a marker record *after* the records – possibly partial – that were read before it:
the record layer (`buildStep`, `goRecs`) then fails at exactly the point where the Rust does.

`skip!` is strict (`pos < len` after the skip); `read_u!` is not (`pos <= len`).
Not modelled: the u32 sums `runcounts` / `programcounts` of the summary records (both records are
`DRec.other`).  Since /repo 8b2da6c `runcounts` is summed with `wrapping_add` (before, a gcda with
two OBJECT_SUMMARY records of run count 2^32-1 panicked with overflow checks on: corpus/C14
gcda-runcounts-overflow), so it cannot crash; `programcounts += 1` would need 2^32 PROGRAM_SUMMARY
records, i.e. a file of more than 48 GiB; and neither value is observable in the result of
`Gcno::compute` (only `dump` prints them), so leaving them out changes no outcome of `computeBytes`.
Core Lean only.
-/
import GrcovModel.Gcno
namespace Grcov.Gcno
open Outcome

/-- result of a read: value and remaining bytes, or the way it fails -/
inductive PR (α : Type) where
  | ok (a : α) (rest : List Nat)
  | short
  | crash (s : Site)

def PR.bind {α β : Type} (x : PR α) (f : α → List Nat → PR β) : PR β :=
  match x with
  | .ok a r => f a r
  | .short => .short
  | .crash s => .crash s

def readU32 (le : Bool) : List Nat → PR Nat
  | b0 :: b1 :: b2 :: b3 :: rest =>
    .ok (if le then b0 + 256 * (b1 + 256 * (b2 + 256 * b3))
         else b3 + 256 * (b2 + 256 * (b1 + 256 * b0))) rest
  | _ => .short

def readU64 (le : Bool) (bs : List Nat) : PR Nat :=
  (readU32 le bs).bind fun lo r1 => (readU32 le r1).bind fun hi r2 => .ok (hi * 4294967296 + lo) r2

/-- `skip!(n)`: the position after the skip must still be inside the buffer -/
def skipN (n : Nat) (bs : List Nat) : PR Unit :=
  if n < bs.length then .ok () (bs.drop n) else .short

def stripZeros (l : List Nat) : List Nat := (l.reverse.dropWhile (· == 0)).reverse

/-- `read_string`: length in words, NUL padding stripped (a string of NULs only is empty) -/
def readString (le : Bool) (bs : List Nat) : PR Bytes :=
  (readU32 le bs).bind fun len r1 =>
    if len = 0 then .ok [] r1
    else if r1.length < 4 * len then .short
    else
      .ok (stripZeros (r1.take (4 * len))) (r1.drop (4 * len))

/-- `u8::wrapping_sub(b'0')` -/
def digit (c : Nat) : Nat := (c + 256 - 48) % 256

/-- `get_version` on the three characters after/before the `*`: garbage bytes give a garbage
version (wrapping u8 arithmetic), never a panic -/
def getVersion (c0 c1 c2 : Nat) : Outcome Nat :=
  if c2 ≥ 65 then ok (100 * (c2 - 65) + 10 * digit c1 + digit c0)
  else ok (10 * digit c2 + digit c0)

/-- `read_version` -/
def readVersion (le : Bool) : List Nat → Outcome (Nat × List Nat)
  | b0 :: b1 :: b2 :: b3 :: rest =>
    if le then
      if b0 = 42 then (getVersion b1 b2 b3).bind fun v => ok (v, rest) else err .version
    else if b3 = 42 then (getVersion b2 b1 b0).bind fun v => ok (v, rest)
    else err .version
  | _ => err .short

/-- `guess_endianness` for the magic `m` (as stored little-endian) -/
def guessEndian (m : List Nat) : List Nat → Outcome (Bool × List Nat)
  | b0 :: b1 :: b2 :: b3 :: rest =>
    if [b0, b1, b2, b3] = m then ok (true, rest)
    else if [b3, b2, b1, b0] = m then ok (false, rest)
    else err .fileType
  | _ => err .short

def TAG_FUNCTION : Nat := 0x01000000
def TAG_BLOCKS : Nat := 0x01410000
def TAG_ARCS : Nat := 0x01430000
def TAG_LINES : Nat := 0x01450000
def TAG_COUNTER_ARCS : Nat := 0x01a10000
def TAG_OBJECT_SUMMARY : Nat := 0xa1000000
def TAG_PROGRAM_SUMMARY : Nat := 0xa3000000

/-! ### gcno -/

/-- the payload of a FUNCTION record -/
def parseFunc (le : Bool) (version : Nat) (bs : List Nat) : PR NRec :=
  (readU32 le bs).bind fun ident r1 =>
  (readU32 le r1).bind fun lsum r2 =>
  (if version ≥ 47 then readU32 le r2 else .ok 0 r2).bind fun csum r3 =>
  (readString le r3).bind fun name r4 =>
    if version < 80 then
      (readString le r4).bind fun file r5 =>
      (readU32 le r5).bind fun start r6 => .ok (.func ident lsum csum name file start 0) r6
    else
      (readU32 le r4).bind fun _ r5 =>
      (readString le r5).bind fun file r6 =>
      (readU32 le r6).bind fun start r7 =>
      (readU32 le r7).bind fun _ r8 =>
      (readU32 le r8).bind fun en r9 =>
        if version ≥ 90 then
          (readU32 le r9).bind fun _ r10 => .ok (.func ident lsum csum name file start en) r10
        else .ok (.func ident lsum csum name file start en) r9

/-- `count` (dst, flags) pairs; a truncated list is returned with the pairs read so far -/
def parsePairs (le : Bool) : Nat → List Nat → List (Nat × Nat) → List (Nat × Nat) × Option (List Nat)
  | 0, bs, acc => (acc, some bs)
  | k + 1, bs, acc =>
    match readU32 le bs with
    | .ok d r1 =>
      match readU32 le r1 with
      | .ok fl r2 => parsePairs le k r2 (acc ++ [(d, fl)])
      | _ => (acc, none)
    | _ => (acc, none)

/-- the items of a LINES record up to the empty file name; `none` = the read failed (second
component says how) -/
def parseItems (le : Bool) : Nat → List Nat → List LineItem →
    List LineItem × Option (List Nat) × Option Site
  | 0, _, acc => (acc, none, none)
  | fuel + 1, bs, acc =>
    match readU32 le bs with
    | .ok l r1 =>
      if l ≠ 0 then parseItems le fuel r1 (acc ++ [.line l])
      else
        match readString le r1 with
        | .ok nm r2 => if nm = [] then (acc, some r2, none) else parseItems le fuel r2 (acc ++ [.file nm])
        | .short => (acc, none, none)
        | .crash s => (acc, none, some s)
    | _ => (acc, none, none)

/-- `for no in 0..length { reader.skip_u32()? }` -/
def skipWords : Nat → List Nat → Option (List Nat)
  | 0, bs => some bs
  | k + 1, bs =>
    match skipN 4 bs with
    | .ok _ r => skipWords k r
    | _ => none

/-- the record loop of `read_functions`; `blen` = length of the whole buffer (`reader.get_len()`),
`total` = `total_blocks`, the number of blocks appended so far by BLOCKS records of all functions:
a file cannot announce more blocks in total than it has bytes ("Unexpected total number of
blocks", checked right after each BLOCKS record) -/
def parseRecs (le : Bool) (version : Nat) (blen : Nat) : Nat → Nat → Bool → List Nat → List NRec
  | 0, _, _, _ => []
  | fuel + 1, total, haveFn, bs =>
    match readU32 le bs with
    | .ok tag r1 =>
      if tag = 0 then []
      else
        match readU32 le r1 with
        | .ok len r2 =>
          if tag = TAG_FUNCTION then
            match parseFunc le version r2 with
            | .ok rec r3 => rec :: parseRecs le version blen fuel total true r3
            | .short => [.short]
            | .crash s => [.crash s]
          else if tag = TAG_BLOCKS then
            if !haveFn then parseRecs le version blen fuel total haveFn r2
            else if version < 80 then
              match skipWords len r2 with
              | some r3 =>
                if total + len > blen then [.fail .blockCount]
                else .blocks len :: parseRecs le version blen fuel (total + len) haveFn r3
              | none => [.short]
            else
              match readU32 le r2 with
              | .ok n r3 =>
                -- more blocks announced than bytes left: "Unexpected number of blocks"
                if n > r3.length then [.fail .blockCount]
                else if total + n > blen then [.fail .blockCount]
                else .blocks n :: parseRecs le version blen fuel (total + n) haveFn r3
              | _ => [.short]
          else if tag = TAG_ARCS then
            if !haveFn then parseRecs le version blen fuel total haveFn r2
            else
              match readU32 le r2 with
              | .ok src r3 =>
                match parsePairs le ((len - 1) / 2) r3 [] with
                | (as, some r4) => .arcs src as :: parseRecs le version blen fuel total haveFn r4
                | (as, none) => [.arcs src as, .short]
              | _ => [.short]
          else if tag = TAG_LINES then
            if !haveFn then parseRecs le version blen fuel total haveFn r2
            else
              match readU32 le r2 with
              | .ok blk r3 =>
                match parseItems le (r3.length + 1) r3 [] with
                | (items, some r4, _) => .lines blk items :: parseRecs le version blen fuel total haveFn r4
                | (items, none, none) => [.lines blk items, .short]
                | (items, none, some s) => [.lines blk items, .crash s]
              | _ => [.short]
          else parseRecs le version blen fuel total haveFn r2
        | _ => [.short]
    | _ => []

/-- `Gcno::read(FileType::Gcno, …)`: version, checksum and the record stream -/
def readGcno (bs : List Nat) : Outcome (Nat × Nat × List NRec) :=
  (guessEndian [111, 110, 99, 103] bs).bind fun (le, r0) =>
  (readVersion le r0).bind fun (version, r1) =>
    match readU32 le r1 with
    | .ok checksum r2 =>
      let afterCwd : PR Unit :=
        if version ≥ 90 then
          match readString le r2 with
          | .ok _ r3 => .ok () r3
          | .short => .short
          | .crash s => .crash s
        else .ok () r2
      match afterCwd with
      | .ok _ r3 =>
        let afterFlag : PR Unit := if version ≥ 80 then skipN 4 r3 else .ok () r3
        match afterFlag with
        | .ok _ r4 => ok (version, checksum, parseRecs le version bs.length (r4.length + 1) 0 false r4)
        | .short => err .short
        | .crash s => crash s
      | .short => err .short
      | .crash s => crash s
    | .short => err .short
    | .crash s => crash s

/-! ### gcda -/

def parseCounters (le : Bool) : Nat → List Nat → List Nat → List Nat × Option (List Nat)
  | 0, bs, acc => (acc, some bs)
  | k + 1, bs, acc =>
    match readU64 le bs with
    | .ok v r => parseCounters le k r (acc ++ [v])
    | _ => (acc, none)

/-- the record loop of `read_gcda`; `total` = buffer length, used to find the end of a record -/
def parseDRecs (le : Bool) (version : Nat) : Nat → Bool → List Nat → List DRec
  | 0, _, _ => []
  | fuel + 1, haveFn, bs =>
    match readU32 le bs with
    | .ok tag r1 =>
      if tag = 0 then []
      else
        match readU32 le r1 with
        | .ok len r2 =>
          -- `r2` starts at `pos`; the record ends `4 * len` bytes later
          let finish (rec : List DRec) (consumed : Nat) (haveFn' : Bool) (r : List Nat) : List DRec :=
            if 4 * len < consumed then rec ++ [.fail .recordLen]
            else
              match skipN (4 * len - consumed) r with
              | .ok _ r' => rec ++ parseDRecs le version fuel haveFn' r'
              | _ => rec ++ [.fail .short]
          if tag = TAG_FUNCTION then
            if len = 0 then .func 0 0 0 0 :: parseDRecs le version fuel haveFn r2
            else if len = 1 then [.func 1 0 0 0]
            else
              match readU32 le r2 with
              | .ok ident r3 =>
                match readU32 le r3 with
                | .ok lsum r4 =>
                  if version ≥ 47 then
                    match readU32 le r4 with
                    | .ok csum r5 => finish [.func len ident lsum csum] 12 true r5
                    | _ => [.fail .short]
                  else finish [.func len ident lsum 0] 8 true r4
                | _ => [.fail .short]
              | _ => [.fail .short]
          else if tag = TAG_COUNTER_ARCS then
            if !haveFn then parseDRecs le version fuel haveFn r2
            else
              match parseCounters le (len / 2) r2 [] with
              | (vs, some r3) => finish [.arcs len vs] (8 * (len / 2)) haveFn r3
              | (vs, none) => [.arcs len vs, .fail .short]
          else if tag = TAG_OBJECT_SUMMARY then
            match readU32 le r2 with
            | .ok _ r3 =>
              match skipN 4 r3 with
              | .ok _ r4 =>
                if len = 9 then
                  match readU32 le r4 with
                  | .ok _ r5 => finish [.other] 12 haveFn r5
                  | _ => [.fail .short]
                else finish [.other] 8 haveFn r4
              | _ => [.fail .short]
            | _ => [.fail .short]
          else if tag = TAG_PROGRAM_SUMMARY then
            if len > 0 then
              match skipN 4 r2 with
              | .ok _ r3 =>
                match skipN 4 r3 with
                | .ok _ r4 =>
                  match readU32 le r4 with
                  | .ok _ r5 => finish [.other] 12 haveFn r5
                  | _ => [.fail .short]
                | _ => [.fail .short]
              | _ => [.fail .short]
            else finish [.other] 0 haveFn r2
          else finish [.other] 0 haveFn r2
        | _ => [.fail .short]
    | _ => []

/-- the header of a gcda: its version first (compared with the notes before anything else is
read), then checksum and records -/
structure GcdaBytes where
  version : Nat
  rest : Outcome (Nat × List DRec)

def readGcda (bs : List Nat) : Outcome GcdaBytes :=
  (guessEndian [97, 100, 99, 103] bs).bind fun (le, r0) =>
  (readVersion le r0).bind fun (version, r1) =>
    ok { version := version
         rest := match readU32 le r1 with
           | .ok checksum r2 => ok (checksum, parseDRecs le version (r2.length + 1) false r2)
           | .short => err .short
           | .crash s => crash s }

/-- `Gcno::read(FileType::Gcda, …)` on the current state -/
def addGcdaBytes (g : Notes) (st : State) (bs : List Nat) : Outcome State :=
  (readGcda bs).bind fun p =>
    if p.version ≠ g.version then err .versionMismatch
    else p.rest.bind fun (cs, recs) => addGcda g st ⟨p.version, cs, recs⟩

/-- `Gcno::compute(stem, gcno_buf, gcda_bufs, branch_enabled)` on bytes -/
def computeBytes (gcno : List Nat) (gcdas : List (List Nat)) (branch : Bool) :
    Outcome (List (Bytes × Cov)) :=
  (readGcno gcno).bind fun (version, checksum, recs) =>
  (build version checksum recs).bind fun g =>
  (Outcome.foldl (addGcdaBytes g) State.zero gcdas).bind fun st =>
  (stop g st).bind fun fs => finalize branch fs

end Grcov.Gcno
