/-
"The on-tree arcs form a spanning forest" – the `TreeCfg` presentation of DESIGN 6.C08, given as a
certificate over the index-based `Func` instead of a rose tree: `depth b` is the distance of block
`b` from the root of its tree along on-tree arcs, `parc b` the id of the on-tree arc that joins a
non-root block to its parent, `root b` the root of its tree.

`SpanForest` (a proposition, the hypothesis of `C08_flow_recovered`) asks, locally,
  * adjacency consistency: `blocks[b].source` / `.destination` list exactly the arcs into / out of
    `b`, once each, and arc endpoints are block numbers;
  * every block of positive depth has a parent arc that is on the tree and leads to a block one
    level up in the same tree; every on-tree arc is the parent arc of some block; depths are below
    the block count; a root is the smallest block number of its tree.
These conditions hold iff the on-tree arcs are acyclic (a forest): every block reaches its root
through its parent chain, and there are no more tree arcs than non-root blocks.  For LLVM ≥ 11
("408*") notes the on-tree arcs together with the virtual exit→entry arc form one spanning tree
rooted at block 0; for "402*" notes every real arc carries a counter and only the virtual arc is
on the tree.

`treeCert` is the same condition as a Boolean over explicit lists, `computeCert` finds the
certificate by breadth-first search, `isSpanTree` = "consistent and certified": evaluated by the
harness on every CFG it sees.  Core Lean only.
-/
import GrcovModel.Gcno
namespace Grcov.Gcno
open Grcov

/-- the hypothesis "on-tree arcs form a forest, rooted at the smallest block of each tree" -/
structure SpanForest (f : Func) (depth parc root : Nat → Nat) : Prop where
  arcs_lt : ∀ (e : Nat) (a : Arc), f.arcs[e]? = some a → a.src < f.blocks.length ∧ a.dst < f.blocks.length
  src_iff : ∀ (b : Nat) (blk : Block) (e : Nat), f.blocks[b]? = some blk →
    (e ∈ blk.source ↔ ∃ a, f.arcs[e]? = some a ∧ a.dst = b)
  dst_iff : ∀ (b : Nat) (blk : Block) (e : Nat), f.blocks[b]? = some blk →
    (e ∈ blk.destination ↔ ∃ a, f.arcs[e]? = some a ∧ a.src = b)
  src_nodup : ∀ (b : Nat) (blk : Block), f.blocks[b]? = some blk → blk.source.Nodup
  dst_nodup : ∀ (b : Nat) (blk : Block), f.blocks[b]? = some blk → blk.destination.Nodup
  parent : ∀ b, b < f.blocks.length → 0 < depth b →
    ∃ a : Arc, f.arcs[parc b]? = some a ∧ a.onTree = true ∧
      ((a.src = b ∧ depth a.dst + 1 = depth b ∧ root a.dst = root b) ∨
       (a.dst = b ∧ depth a.src + 1 = depth b ∧ root a.src = root b))
  tree_arc : ∀ (e : Nat) (a : Arc), f.arcs[e]? = some a → a.onTree = true →
    ∃ b, b < f.blocks.length ∧ 0 < depth b ∧ parc b = e
  depth_lt : ∀ b, b < f.blocks.length → depth b < f.blocks.length
  root_self : ∀ b, b < f.blocks.length → depth b = 0 → root b = b
  root_le : ∀ b, b < f.blocks.length → root b ≤ b

/-- a flow: a count for every arc (the virtual arc included) that is conserved at every block;
the totals fit a u64 -/
structure Flow (f : Func) (F : Nat → Nat) : Prop where
  conserve : ∀ (b : Nat) (blk : Block), f.blocks[b]? = some blk →
    (blk.source.map F).sum = (blk.destination.map F).sum
  bounded : ∀ (b : Nat) (blk : Block), f.blocks[b]? = some blk → (blk.source.map F).sum ≤ U64MAX

/-! ### the executable certificate -/

def nodupB : List Nat → Bool
  | [] => true
  | a :: l => !l.contains a && nodupB l

/-- adjacency consistency of the shape -/
def wfShape (f : Func) : Bool :=
  let n := f.blocks.length
  let m := f.arcs.length
  f.arcs.all (fun a => decide (a.src < n) && decide (a.dst < n)) &&
  (indexed f.blocks 0).all (fun bb =>
    bb.2.source.all (fun e => decide (e < m) && (f.arcs.getD e default).dst == bb.1) &&
    nodupB bb.2.source &&
    bb.2.destination.all (fun e => decide (e < m) && (f.arcs.getD e default).src == bb.1) &&
    nodupB bb.2.destination) &&
  (indexed f.arcs 0).all (fun ea =>
    (f.blocks.getD ea.2.dst default).source.contains ea.1 &&
    (f.blocks.getD ea.2.src default).destination.contains ea.1)

/-- the parent-arc certificate as lists indexed by block -/
def treeCert (f : Func) (depth parc root : List Nat) : Bool :=
  let n := f.blocks.length
  let m := f.arcs.length
  depth.length == n && parc.length == n && root.length == n &&
  (List.range n).all (fun b =>
    decide (depth.getD b 0 < n) && decide (root.getD b 0 ≤ b) &&
    (if depth.getD b 0 = 0 then root.getD b 0 == b
     else
      (let e := parc.getD b 0
       let a := f.arcs.getD e default
       decide (e < m) && a.onTree &&
         ((a.src == b && depth.getD a.dst 0 + 1 == depth.getD b 0 &&
            root.getD a.dst 0 == root.getD b 0) ||
          (a.dst == b && depth.getD a.src 0 + 1 == depth.getD b 0 &&
            root.getD a.src 0 == root.getD b 0))))) &&
  (indexed f.arcs 0).all (fun ea => !ea.2.onTree ||
    (List.range n).any (fun b => decide (0 < depth.getD b 0) && parc.getD b 0 == ea.1))

/-- label (depth, parent arc, root) -/
abbrev Lab := Option (Nat × Nat × Nat)

/-- breadth-first labelling along on-tree arcs from the blocks in `work` -/
def bfs (f : Func) : Nat → List Nat → List Lab → List Lab
  | 0, _, lab => lab
  | _, [], lab => lab
  | fuel + 1, x :: work, lab =>
    match lab.getD x none, f.blocks[x]? with
    | some (d, _, r), some blk =>
      let visit := fun (acc : List Nat × List Lab) (ew : Nat × Nat) =>
        -- ew = (arc id, far end)
        if (f.arcs.getD ew.1 default).onTree && (acc.2.getD ew.2 none).isNone then
          (acc.1 ++ [ew.2], acc.2.set ew.2 (some (d + 1, ew.1, r)))
        else acc
      let acc := (blk.source.map fun e => (e, (f.arcs.getD e default).src)).foldl visit (work, lab)
      let acc := (blk.destination.map fun e => (e, (f.arcs.getD e default).dst)).foldl visit acc
      bfs f fuel acc.1 acc.2
    | _, _ => bfs f fuel work lab

/-- roots in increasing block order: an unlabelled block starts a new tree -/
def labelAll (f : Func) : List Nat → List Lab → List Lab
  | [], lab => lab
  | b :: bs, lab =>
    if (lab.getD b none).isNone then
      labelAll f bs (bfs f (f.blocks.length + 1) [b] (lab.set b (some (0, 0, b))))
    else labelAll f bs lab

def computeCert (f : Func) : List Nat × List Nat × List Nat :=
  let n := f.blocks.length
  let lab := labelAll f (List.range n) (List.replicate n none)
  (lab.map fun o => (o.getD (0, 0, 0)).1, lab.map fun o => (o.getD (0, 0, 0)).2.1,
   lab.map fun o => (o.getD (0, 0, 0)).2.2)

/-- the shape is consistent and its on-tree arcs form a forest (with certificate) -/
def isSpanTree (f : Func) : Bool :=
  let c := computeCert f
  wfShape f && treeCert f c.1 c.2.1 c.2.2

end Grcov.Gcno
