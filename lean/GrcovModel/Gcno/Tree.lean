/-
"The on-tree arcs form a spanning tree" as an executable certificate check (the `TreeCfg`
presentation of DESIGN 6.C08, given as data over the index-based `Func` instead of a rose tree):
`depth b` is the distance of block `b` from block 0 along tree arcs and `parc b` the id of the
tree arc that joins `b` to its parent.  `treeCert` checks, locally and decidably,
  * adjacency consistency: `blocks[b].source` / `.destination` list exactly the arcs into / out of
    `b`, once each, and arc endpoints are block numbers;
  * every block other than 0 has a parent arc that is on the tree and leads to a block one level
    up; every on-tree arc is the parent arc of some block; depths are below the block count.
These conditions hold iff the on-tree arcs form a spanning tree rooted at block 0 (each non-root
block reaches the root through its parent chain: connected; at most n-1 tree arcs: acyclic).
`isSpanTree` computes the certificate by breadth-first relaxation and checks it.
Core Lean only.
-/
import GrcovModel.Gcno
namespace Grcov.Gcno
open Grcov

def nodupB : List Nat → Bool
  | [] => true
  | a :: l => !l.contains a && nodupB l

/-- adjacency consistency of the shape -/
def wfShape (f : Func) : Bool :=
  let n := f.blocks.length
  let m := f.arcs.length
  f.arcs.all (fun a => decide (a.src < n) && decide (a.dst < n)) &&
  (indexed f.blocks 0).all (fun bb =>
    bb.2.source.all (fun e => decide (e < m) && (f.arcs.getD e default).dst == bb.1) &&
    nodupB bb.2.source &&
    bb.2.destination.all (fun e => decide (e < m) && (f.arcs.getD e default).src == bb.1) &&
    nodupB bb.2.destination) &&
  (indexed f.arcs 0).all (fun ea =>
    (f.blocks.getD ea.2.dst default).source.contains ea.1 &&
    (f.blocks.getD ea.2.src default).destination.contains ea.1)

/-- the parent-arc certificate -/
def treeCert (f : Func) (depth parc : List Nat) : Bool :=
  let n := f.blocks.length
  let m := f.arcs.length
  depth.length == n && parc.length == n && decide (n > 0) && depth.getD 0 1 == 0 &&
  (List.range n).all (fun b => b == 0 ||
    (let e := parc.getD b 0
     let a := f.arcs.getD e default
     decide (e < m) && a.onTree &&
       ((a.src == b && depth.getD a.dst 0 + 1 == depth.getD b 0) ||
        (a.dst == b && depth.getD a.src 0 + 1 == depth.getD b 0)))) &&
  (indexed f.arcs 0).all (fun ea => !ea.2.onTree ||
    (List.range n).any (fun b => b != 0 && parc.getD b 0 == ea.1)) &&
  depth.all (fun d => decide (d < n))

/-- one relaxation round: a tree arc with exactly one labelled end labels the other end -/
def certStep (arcs : List (Nat × Arc)) (dp : List (Option (Nat × Nat))) :
    List (Option (Nat × Nat)) :=
  arcs.foldl (fun dp ea =>
    if ea.2.onTree then
      match dp.getD ea.2.src none, dp.getD ea.2.dst none with
      | some (d, _), none => dp.set ea.2.dst (some (d + 1, ea.1))
      | none, some (d, _) => dp.set ea.2.src (some (d + 1, ea.1))
      | _, _ => dp
    else dp) dp

def iter {α : Type} (g : α → α) : Nat → α → α
  | 0, a => a
  | k + 1, a => iter g k (g a)

def computeCert (f : Func) : List Nat × List Nat :=
  let n := f.blocks.length
  let dp := iter (certStep (indexed f.arcs 0)) n ((List.replicate n none).set 0 (some (0, 0)))
  (dp.map fun o => (o.getD (0, 0)).1, dp.map fun o => (o.getD (0, 0)).2)

/-- the shape is consistent and its on-tree arcs form a spanning tree rooted at block 0 -/
def isSpanTree (f : Func) : Bool :=
  let c := computeCert f
  wfShape f && treeCert f c.1 c.2

end Grcov.Gcno
