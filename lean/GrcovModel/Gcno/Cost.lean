/-
Cost-instrumented variants of the recursive parts of the gcno reader model (`Gcno.lean`):
`propC` (`propagate_counts`), `unblockC` (`unblock`), `lookForCircuitC` (`look_for_circuit`) compute
the same results as `prop`, `unblock`, `lookForCircuit` (Lemmas/GcnoCost.lean) and, next to them,
* `calls`  – how often the function was entered (a measure of time),
* `depth`  – the deepest nesting of calls (what the stack of the Rust recursion has to hold),
* `circuits` (cycle search only) – how often `get_cycle_count` ran, i.e. how many elementary
  circuits the search enumerated.
Core Lean only.
-/
import GrcovModel.Gcno
namespace Grcov.Gcno
open Outcome

/-- calls and depth of a computation -/
structure Cost where
  calls : Nat := 0
  depth : Nat := 0
deriving DecidableEq, Repr

/-- two computations one after the other at the same nesting level -/
def Cost.seq (a b : Cost) : Cost := ⟨a.calls + b.calls, max a.depth b.depth⟩
/-- a call whose body costs `a` -/
def Cost.call (a : Cost) : Cost := ⟨a.calls + 1, a.depth + 1⟩

def Outcome.map {α β : Type} (g : α → β) : Outcome α → Outcome β
  | ok a => ok (g a)
  | err k => err k
  | crash s => crash s
  | diverge => diverge

/-! ## `propagate_counts` -/

def arcStepC (arcs : List Arc) (rec : PS → Nat → Nat → Outcome ((PS × Nat) × Cost)) (useSrc : Bool)
    (pred : Option Nat) (s : PS) (e : Nat) : Outcome ((PS × Nat) × Cost) :=
  if pred = some e then ok ((s, 0), {})
  else match arcs[e]? with
    | none => crash .idxArc
    | some a =>
      if a.onTree then rec s (if useSrc then a.src else a.dst) e
      else ok ((s, s.cnt e), {})

def sumArcsC (step : PS → Nat → Outcome ((PS × Nat) × Cost)) :
    List Nat → PS → Nat → Cost → Outcome ((PS × Nat) × Cost)
  | [], s, acc, k => ok ((s, acc), k)
  | e :: es, s, acc, k =>
    (step s e).bind fun r =>
      if acc + r.1.2 > U64MAX then crash .overflow
      else sumArcsC step es r.1.1 (acc + r.1.2) (k.seq r.2)

def propC (f : Func) : Nat → PS → Nat → Option Nat → Outcome ((PS × Nat) × Cost)
  | 0, _, _, _ => diverge
  | fuel + 1, s, b, pred =>
    if b ∈ s.vis then ok ((s, 0), Cost.call {})
    else
      let s : PS := { s with vis := b :: s.vis }
      match f.blocks[b]? with
      | none => crash .idxBlock
      | some blk =>
        (sumArcsC (arcStepC f.arcs (fun s w e => propC f fuel s w (some e)) true pred)
            blk.source s 0 {}).bind fun r1 =>
        (sumArcsC (arcStepC f.arcs (fun s w e => propC f fuel s w (some e)) false pred)
            blk.destination r1.1.1 0 {}).bind fun r2 =>
          let pos := r1.1.2
          let neg := r2.1.2
          let s := r2.1.1
          let excess := if pos ≥ neg then pos - neg else neg - pos
          let k := (r1.2.seq r2.2).call
          match pred with
          | some id => ok (({ s with cnt := upd s.cnt id excess }, excess), k)
          | none => ok ((s, excess), k)

/-- the whole propagation loop of `count_on_tree` -/
def propAllC (f : Func) (fuel : Nat) : List Nat → PS → Cost → Outcome (PS × Cost)
  | [], s, k => ok (s, k)
  | b :: bs, s, k =>
    (propC f fuel s b none).bind fun r => propAllC f fuel bs r.1.1 (k.seq r.2)

/-! ## `unblock` -/

def unblockC : Nat → Nat → List Nat × List (List Nat) → Outcome ((List Nat × List (List Nat)) × Cost)
  | 0, _, _ => diverge
  | fuel + 1, b, (blocked, lists) =>
    match position blocked b with
    | none => ok ((blocked, lists), Cost.call {})
    | some i =>
      match lists[i]? with
      | none => crash .idxList
      | some l =>
        (Outcome.foldl (fun (acc : (List Nat × List (List Nat)) × Cost) b' =>
            (unblockC fuel b' acc.1).bind fun r => ok (r.1, acc.2.seq r.2))
          ((blocked.eraseIdx i, lists.eraseIdx i), {}) l).bind fun r => ok (r.1, r.2.call)

/-! ## `look_for_circuit` -/

/-- calls/depth of `look_for_circuit` and `unblock` together, and the number of circuits found -/
structure CCost where
  cost : Cost := {}
  circuits : Nat := 0
deriving DecidableEq, Repr

def circuitStepC (arcs : List Arc) (bs : List Nat) (start : Nat)
    (rec : Nat → CS → Outcome ((CS × Bool × Nat) × CCost))
    (acc : (CS × Bool × Nat) × CCost) (e : Nat) : Outcome ((CS × Bool × Nat) × CCost) :=
  let ((s, found, count), k) := acc
  match arcs[e]? with
  | none => crash .idxArc
  | some a =>
    let w := a.dst
    if w ≥ start ∧ w ∈ bs then
      let s : CS := { s with path := s.path ++ [e] }
      if w = start then
        (cycleCount s.cyc s.path).bind fun (cy, c) =>
          if count + c > U64MAX then crash .overflow
          else ok (({ s with cyc := cy, path := s.path.dropLast }, true, count + c),
                   { k with circuits := k.circuits + 1 })
      else if w ∉ s.blocked then
        (rec w s).bind fun r =>
          if count + r.1.2.2 > U64MAX then crash .overflow
          else ok (({ r.1.1 with path := r.1.1.path.dropLast }, found || r.1.2.1, count + r.1.2.2),
                   ⟨k.cost.seq r.2.cost, k.circuits + r.2.circuits⟩)
      else ok (({ s with path := s.path.dropLast }, found, count), k)
    else ok ((s, found, count), k)

def lookForCircuitC (f : Func) (bs : List Nat) (start : Nat) :
    Nat → Nat → CS → Outcome ((CS × Bool × Nat) × CCost)
  | 0, _, _ => diverge
  | fuel + 1, v, s =>
    let s : CS := { s with blocked := s.blocked ++ [v], lists := s.lists ++ [[]] }
    match f.blocks[v]? with
    | none => crash .idxBlock
    | some blk =>
      (Outcome.foldl (circuitStepC f.arcs bs start (lookForCircuitC f bs start fuel))
          ((s, false, 0), {}) blk.destination).bind fun r =>
        let s := r.1.1
        let found := r.1.2.1
        let count := r.1.2.2
        if found then
          (unblockC (s.blocked.length + 2) v (s.blocked, s.lists)).bind fun u =>
            ok (({ s with blocked := u.1.1, lists := u.1.2 }, found, count),
                ⟨(r.2.cost.seq u.2).call, r.2.circuits⟩)
        else
          (noteBlocked f.arcs bs start v blk.destination s).bind fun s =>
            ok ((s, found, count), ⟨r.2.cost.call, r.2.circuits⟩)

/-- `get_cycles_count` with its cost: every block of the line as start -/
def cyclesCountC (f : Func) (fuel : Nat) (bs : List Nat) (cyc : Nat → Nat) :
    Outcome (((Nat → Nat) × Nat) × CCost) :=
  Outcome.foldl (fun (acc : ((Nat → Nat) × Nat) × CCost) b =>
    (lookForCircuitC f bs b fuel b ⟨acc.1.1, [], [], []⟩).bind fun r =>
      if acc.1.2 + r.1.2.2 > U64MAX then crash .overflow
      else ok ((r.1.1.cyc, acc.1.2 + r.1.2.2),
               ⟨acc.2.cost.seq r.2.cost, acc.2.circuits + r.2.circuits⟩))
    ((cyc, 0), {}) bs

/-! ## witness families -/

/-- a chain of `n` blocks 0 → 1 → … → n-1: arc `i` leads from block `i` to block `i+1`; arc 0
carries a counter, the others are on the tree (format 4.2: the exit block is the last one) -/
def chainFunc (n : Nat) : Func :=
  { ident := 1, startLine := 1, endLine := 0, lineChecksum := 2, cfgChecksum := 0,
    fileName := [97, 46, 99], name := [102],
    blocks := (List.range n).map fun i =>
      { no := i, source := if i = 0 then [] else [i - 1],
        destination := if i + 1 < n then [i] else [], lines := [], lineMax := 0 },
    arcs := (List.range (n - 1)).map fun i => ⟨i, i + 1, if i = 0 then 0 else 1⟩ }

/-- `chainFunc n` with the virtual exit→entry arc of `count_on_tree` (arc `n-1`: block `n-1` →
block 0, on the tree), written out: block `i` has the one incoming arc `i-1` (block 0: the virtual
arc) and the one outgoing arc `i` -/
def chainLoop (n : Nat) : Func :=
  { ident := 1, startLine := 1, endLine := 0, lineChecksum := 2, cfgChecksum := 0,
    fileName := [97, 46, 99], name := [102],
    blocks := (List.range n).map fun i =>
      { no := i, source := [if i = 0 then n - 1 else i - 1], destination := [i], lines := [],
        lineMax := 0 },
    arcs := (List.range n).map fun i =>
      ⟨i, if i + 1 < n then i + 1 else 0, if i = 0 then 0 else 1⟩ }

/-- a ring of `k` blocks, all on line 5, with TWO parallel arcs from each block to the next:
arcs `2i` and `2i+1` lead from block `i` to block `i+1` (the last block: to block 0): 2^k elementary
circuits -/
def ringFunc (k : Nat) : Func :=
  { ident := 1, startLine := 1, endLine := 0, lineChecksum := 2, cfgChecksum := 0,
    fileName := [97, 46, 99], name := [102],
    blocks := (List.range k).map fun i =>
      { no := i, source := [2 * (if i = 0 then k - 1 else i - 1), 2 * (if i = 0 then k - 1 else i - 1) + 1],
        destination := [2 * i, 2 * i + 1], lines := [5], lineMax := 5 },
    arcs := (List.range (2 * k)).map fun e => ⟨e / 2, if e / 2 + 1 < k then e / 2 + 1 else 0, 0⟩ }

end Grcov.Gcno
