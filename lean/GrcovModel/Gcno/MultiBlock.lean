/-
Specification side of the multi-block line rule (`get_line_count`, reader.rs): what the count of a
line that lives in several basic blocks is *supposed* to be, as plain sums over the shape, with no
outcome monad, no fuel and no search.  Props/C08MultiBlock.lean proves that the model of the code
(`getLineCount`, Gcno.lean) computes these; the driver op `c08.mb` prints them so that the harness
can compare them with an independent Rust evaluation on the real `Gcno` state.

* `entryPart`: the first loop of `get_line_count`: per block occurrence of the line, the counts of the
  arcs that enter the block from blocks that are not on the line (for the block numbered 0: the
  counts of its outgoing arcs, as the code does).
* `intArcs` / `intSum`: the arcs with both ends on the line (grouped by destination block) and the
  sum of their counts: the budget the cycle search can distribute.
* certificates, checked by Boolean functions: `acyclicCert` (a rank that increases along every arc
  inside the line: no circuit), `loopCert` (one simple loop, listed from its smallest block; every
  other arc inside the line increases a rank that is constant on the loop: no second circuit).
* untrusted helpers that *find* certificates (`relaxRank`, `findLoop`): only their results are
  checked.
Core Lean only.
-/
import GrcovModel.Gcno
namespace Grcov.Gcno
open Grcov

def arcSrc (f : Func) (e : Nat) : Nat := (f.arcs.getD e default).src
def arcDst (f : Func) (e : Nat) : Nat := (f.arcs.getD e default).dst

/-- the arcs into block `b` that come from a block outside `bs` -/
def extIn (f : Func) (bs : List Nat) (b : Nat) : List Nat :=
  match f.blocks[b]? with
  | none => []
  | some blk => blk.source.filter fun e => !decide (arcSrc f e ∈ bs)

/-- the arcs into block `b` that come from a block of `bs` -/
def intIn (f : Func) (bs : List Nat) (b : Nat) : List Nat :=
  match f.blocks[b]? with
  | none => []
  | some blk => blk.source.filter fun e => decide (arcSrc f e ∈ bs)

/-- contribution of one block occurrence to the first loop of `get_line_count` -/
def entryOf (f : Func) (cnt : Nat → Nat) (bs : List Nat) (b : Nat) : Nat :=
  match f.blocks[b]? with
  | none => 0
  | some blk =>
    if blk.no = 0 then (blk.destination.map cnt).sum else ((extIn f bs b).map cnt).sum

/-- the first loop of `get_line_count`: one term per block occurrence -/
def entryPart (f : Func) (cnt : Nat → Nat) (bs : List Nat) : Nat := (bs.map (entryOf f cnt bs)).sum

/-- arcs with both ends among `bs`, grouped by destination block (one group per occurrence) -/
def intArcs (f : Func) (bs : List Nat) : List Nat := bs.flatMap (intIn f bs)

def intSum (f : Func) (cnt : Nat → Nat) (bs : List Nat) : Nat := ((intArcs f bs).map cnt).sum

/-- total count of the arcs into block `b` -/
def inflow (f : Func) (cnt : Nat → Nat) (b : Nat) : Nat :=
  match f.blocks[b]? with
  | none => 0
  | some blk => (blk.source.map cnt).sum

/-- sum of the block counters of the occurrences -/
def blkSum (blk : Nat → Nat) (bs : List Nat) : Nat := (bs.map blk).sum

/-- the block numbered 0 (the entry block) has no predecessor among `bs` -/
def entryNoPredB (f : Func) (bs : List Nat) : Bool :=
  bs.all fun b =>
    match f.blocks[b]? with
    | none => true
    | some blk => decide (blk.no ≠ 0) || (intIn f bs b).isEmpty

/-! ### certificates -/

/-- every arc inside the line goes up in rank: the blocks of the line carry no circuit -/
def acyclicCert (f : Func) (bs : List Nat) (rk : Nat → Nat) : Bool :=
  (intArcs f bs).all fun e => decide (rk (arcSrc f e) < rk (arcDst f e))

/-- `es` is a chain of arcs starting at block `u`: each arc leaves the block the previous one
entered; returns the block reached -/
def chainEnd (f : Func) : Nat → List Nat → Option Nat
  | u, [] => some u
  | u, e :: es =>
    match f.arcs[e]? with
    | none => none
    | some a => if a.src = u then chainEnd f a.dst es else none

def nodupNat : List Nat → Bool
  | [] => true
  | a :: l => !decide (a ∈ l) && nodupNat l

/-- `loop = e₀ :: rest` is a simple circuit among `bs`, listed from its smallest block `m`:
a closed chain from `m`, all its blocks in `bs`, pairwise different, all others above `m`; and every
arc inside the line that is not on the loop goes up in a rank that is constant on the loop (so no
other circuit exists among `bs`, and the loop has no chord) -/
def loopCert (f : Func) (bs : List Nat) (loop : List Nat) (rk : Nat → Nat) : Bool :=
  match loop with
  | [] => false
  | e0 :: _ =>
    let m := arcSrc f e0
    let srcs := loop.map (arcSrc f)
    chainEnd f m loop == some m &&
    loop.all (fun e => decide (e < f.arcs.length)) &&
    srcs.all (fun b => decide (b ∈ bs) && decide (m ≤ b) && decide (rk b = rk m)) &&
    nodupNat srcs &&
    (intArcs f bs).all fun e => decide (e ∈ loop) || decide (rk (arcSrc f e) < rk (arcDst f e))

/-- the smallest count on a non-empty list of arcs -/
def minOn (cnt : Nat → Nat) : List Nat → Nat
  | [] => 0
  | [e] => cnt e
  | e :: es => min (cnt e) (minOn cnt es)

/-! ### finding certificates (untrusted: only the result is checked) -/

/-- one round of longest-path relaxation over a list of (source, destination) pairs -/
def relaxOnce (pairs : List (Nat × Nat)) (rk : List (Nat × Nat)) : List (Nat × Nat) :=
  pairs.foldl (fun rk p =>
    let ru := (AList.get? rk p.1).getD 0
    let rw := (AList.get? rk p.2).getD 0
    if rw < ru + 1 then AList.set rk p.2 (ru + 1) else rk) rk

def relaxN (pairs : List (Nat × Nat)) : Nat → List (Nat × Nat) → List (Nat × Nat)
  | 0, rk => rk
  | n + 1, rk => relaxN pairs n (relaxOnce pairs rk)

/-- rank by `|bs|` rounds of relaxation over the arcs inside the line, after mapping every block
through `rep` (identity for the acyclic test, "loop block ↦ smallest loop block" for the loop test)
and leaving out the arcs of `skip` -/
def relaxRank (f : Func) (bs : List Nat) (rep : Nat → Nat) (skip : List Nat) : Nat → Nat :=
  let pairs := ((intArcs f bs).filter fun e => !decide (e ∈ skip)).map fun e =>
    (rep (arcSrc f e), rep (arcDst f e))
  let rk := relaxN pairs (bs.length + 1) []
  fun b => (AList.get? rk (rep b)).getD 0

/-- trim blocks that have no predecessor or no successor among the remaining ones, `n` rounds:
what is left is the union of the circuits and of the paths between them -/
def trimCore (f : Func) : Nat → List Nat → List Nat
  | 0, bs => bs
  | n + 1, bs =>
    let keep := bs.filter fun b =>
      match f.blocks[b]? with
      | none => false
      | some blk =>
        blk.source.any (fun e => decide (arcSrc f e ∈ bs)) &&
        blk.destination.any (fun e => decide (arcDst f e ∈ bs))
    if keep.length = bs.length then bs else trimCore f n keep

/-- follow, from block `u`, the first outgoing arc that stays inside `core`, `n` times -/
def followCore (f : Func) (core : List Nat) : Nat → Nat → List Nat
  | 0, _ => []
  | n + 1, u =>
    match f.blocks[u]? with
    | none => []
    | some blk =>
      match blk.destination.find? fun e => decide (arcDst f e ∈ core) with
      | none => []
      | some e => e :: followCore f core n (arcDst f e)

/-- candidate for "the only loop of the line": the circuit through the smallest block of the core -/
def findLoop (f : Func) (bs : List Nat) : List Nat :=
  let core := (trimCore f (bs.length + 1) bs).eraseDups
  match core.foldl (fun (m : Option Nat) b => match m with
      | none => some b
      | some x => some (min x b)) none with
  | none => []
  | some m => followCore f core core.length m

/-- the rank used with a loop candidate: loop blocks collapse onto the first one -/
def loopRank (f : Func) (bs : List Nat) (loop : List Nat) : Nat → Nat :=
  let srcs := loop.map (arcSrc f)
  let m := srcs.headD 0
  relaxRank f bs (fun b => if b ∈ srcs then m else b) loop

/-- classification of a multi-block line used by the driver: 0 = no circuit (certified),
1 = exactly one simple loop (certified), 2 = anything else -/
def lineClass (f : Func) (bs : List Nat) : Nat × List Nat :=
  if acyclicCert f bs (relaxRank f bs id []) then (0, [])
  else
    let loop := findLoop f bs
    if loopCert f bs loop (loopRank f bs loop) then (1, loop) else (2, [])

end Grcov.Gcno
