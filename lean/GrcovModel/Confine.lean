/-
Where an archive entry lands (C19). Paths as lists of `std::path` components.
`enclosed` is the zip crate's `enclosed_name` test (relative, never climbs above its start);
`resolve` is what the kernel does with `..` when the directories exist (lexical resolution; symlink
following is outside the model); destinations are `tmp.join(<stem>_<n>.<ext>)`, i.e. the entry's
components with only the last name changed (src/producer.rs gcno_gcda_producer /
llvm_format_producer).
-/
import GrcovModel.Base
namespace Grcov.Confine

inductive Comp where
  | root | cur | parent | normal (s : List Nat)
deriving DecidableEq, Repr

abbrev Path := List Comp

def isAbsolute : Path → Bool
  | .root :: _ => true
  | _ => false

/-- depth of the path after each component, failing when it would go negative or restart at `/` -/
def depthFrom : Nat → Path → Option Nat
  | d, [] => some d
  | _, .root :: _ => none
  | d, .cur :: p => depthFrom d p
  | 0, .parent :: _ => none
  | d + 1, .parent :: p => depthFrom d p
  | d, .normal _ :: p => depthFrom (d + 1) p

/-- zip::read::ZipFile::enclosed_name is `Some` -/
def enclosed (p : Path) : Bool := (depthFrom 0 p).isSome

/-- what `Archive::explore` accepts since the zip-slip fixes: normal components only -/
def plain (p : Path) : Bool := p.all fun c => match c with | .normal _ => true | _ => false

/-- `Path::join`: an absolute right-hand side replaces the base -/
def join (base rel : Path) : Path := if isAbsolute rel then rel else base ++ rel

/-- lexical resolution of `.` and `..` on a stack of names (absolute paths: the stack is below `/`) -/
def resolveOnto : List (List Nat) → Path → List (List Nat)
  | st, [] => st
  | _, .root :: p => resolveOnto [] p
  | st, .cur :: p => resolveOnto st p
  | st, .parent :: p => resolveOnto st.dropLast p
  | st, .normal s :: p => resolveOnto (st ++ [s]) p

def resolve (p : Path) : List (List Nat) := resolveOnto [] p

/-- only the text of the final name changes when the producer appends `_<n>.<ext>` -/
def renameLast (f : List Nat → List Nat) : Path → Path
  | [] => []
  | [.normal s] => [.normal (f s)]
  | c :: p => c :: renameLast f p

theorem depthFrom_renameLast (f : List Nat → List Nat) (d : Nat) (p : Path) :
    depthFrom d (renameLast f p) = depthFrom d p := by
  induction p generalizing d with
  | nil => rfl
  | cons c p ih =>
    cases p with
    | nil => cases c <;> simp [renameLast, depthFrom]
    | cons c' p' =>
      have : renameLast f (c :: c' :: p') = c :: renameLast f (c' :: p') := by
        cases c <;> simp [renameLast]
      rw [this]
      cases c with
      | root => rfl
      | cur => simpa [depthFrom] using ih d
      | parent => cases d with
        | zero => rfl
        | succ d => simpa [depthFrom] using ih d
      | normal s => simpa [depthFrom] using ih (d + 1)

/-- a path that never climbs above its start resolves, on top of any stack, to that stack plus a
suffix: it cannot pop what was there before -/
theorem resolveOnto_enclosed (st : List (List Nat)) (extra : List (List Nat)) (p : Path) (d : Nat)
    (hd : extra.length = d) (h : (depthFrom d p).isSome) :
    ∃ rest, resolveOnto (st ++ extra) p = st ++ rest := by
  induction p generalizing extra d with
  | nil => exact ⟨extra, rfl⟩
  | cons c p ih =>
    cases c with
    | root => simp [depthFrom] at h
    | cur => exact ih extra d hd (by simpa [depthFrom] using h)
    | normal s =>
      have := ih (extra ++ [s]) (d + 1) (by simp [hd]) (by simpa [depthFrom] using h)
      simpa [resolveOnto, List.append_assoc] using this
    | parent =>
      cases d with
      | zero => simp [depthFrom] at h
      | succ d =>
        have hne : extra ≠ [] := by intro e; rw [e] at hd; simp at hd
        have hdl : (st ++ extra).dropLast = st ++ extra.dropLast := List.dropLast_append_of_ne_nil hne
        have := ih extra.dropLast d (by simp [hd]) (by simpa [depthFrom] using h)
        simpa [resolveOnto, hdl] using this

theorem depthFrom_plain (d : Nat) (p : Path) (h : plain p = true) : (depthFrom d p).isSome := by
  induction p generalizing d with
  | nil => simp [depthFrom]
  | cons c p ih =>
    cases c <;> simp [plain] at h
    simpa [depthFrom] using ih (d + 1) (by simpa [plain] using h)

theorem enclosed_of_plain (p : Path) (h : plain p = true) : enclosed p = true :=
  depthFrom_plain 0 p h

end Grcov.Confine
