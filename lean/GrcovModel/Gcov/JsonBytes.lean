/-
C09, part JsonBytes — the BYTE layer in front of `Gcov.Json.toResults`: the JSON text of a
`.gcov.json` file (after gzip, which stays a trusted parameter: flate2) is read into a value tree
by `jsonParse'`, a variant of the library's byte-level reader `Writers.JsonBytes.jsonParse`
(compact JSON, tied to serde_json and Python's json) that accepts what serde_json accepts in gcov's
output:

* insignificant white space (blank, TAB, LF, CR) between tokens – GCC's JSON printer writes
  `"key": value, …`, gcov 14 pretty-prints with line breaks – removed by `stripWs` before
  `jsonParse` runs; white space INSIDE a number or literal, or between two scalars, is an error
  (`1 2`, `tr ue`, `- 1`), as it is for serde_json;
* numbers by the JSON grammar (`numberOk`: no leading zeros, digits after `.` and after the
  exponent mark; `jsonParse` itself takes any run of number characters);
* everything `jsonParse` reads: strings with the two-character escapes and `\uXXXX`
  (non-surrogates; gcov never writes a surrogate pair – GCC's printer emits non-ASCII bytes raw),
  any key order, duplicate keys kept (the struct decoders reject duplicates of the keys they read).

On input without white space outside strings and with grammatical numbers `jsonParse'` IS
`jsonParse` (`Lemmas`: `jsonParse'_eq`): the variant agrees with the original on its domain.

Numbers are mapped to serde_json's three classes (`conv`): a non-negative integer literal up to
2^64-1 is `pos`, a negative one down to −2^63 is `neg`; every other number token (fraction,
exponent, integer out of range) is an f64 whose VALUE is serde_json's business (its float reader
is not correctly rounded): the value ±m·2^e of each such token is the parameter `flt` (supplied by
the harness from serde_json itself), and then goes through the existing float-counter model
(`Json.floatCounter`). `-0` is the f64 −0.0 for serde_json.
Core Lean only: linked into the native driver `gm_c09`.
-/
import GrcovModel.Gcov
import GrcovModel.Writers.JsonBytes
namespace Grcov.Gcov.JsonBytes
open Grcov Grcov.Gcov
open Grcov.Writers.JsonBytes (jsonParse isNumChar isDigitB serInt)

abbrev WJson := Grcov.Writers.JsonBytes.Json

def isJsonWs (b : Nat) : Bool := b == 32 || b == 9 || b == 10 || b == 13

/-- bytes that continue a number or a literal (`true`, `false`, `null`) -/
def isWordByte (b : Nat) : Bool := isNumChar b || (97 ≤ b && b ≤ 122) || (65 ≤ b && b ≤ 90)

/-- delete the white space outside strings. `mode`: 0 outside, 1 inside a string, 2 inside a
string after a backslash; `prevWord`: the last byte kept was a word byte; `pend`: white space was
skipped since then. White space between two word bytes is an error. -/
def stripGo : Nat → Bool → Bool → List Nat → Option (List Nat)
  | _, _, _, [] => some []
  | mode, prevWord, pend, b :: r =>
    if mode = 0 then
      if isJsonWs b then stripGo 0 prevWord true r
      else if pend && prevWord && isWordByte b then none
      else (stripGo (if b = 34 then 1 else 0) (isWordByte b) false r).map (b :: ·)
    else if mode = 1 then
      (stripGo (if b = 92 then 2 else if b = 34 then 0 else 1) false false r).map (b :: ·)
    else (stripGo 1 false false r).map (b :: ·)

def stripWs (bs : List Nat) : Option (List Nat) := stripGo 0 false false bs

/-! ### the JSON number grammar -/

def expOk : List Nat → Bool
  | [] => true
  | e :: r =>
    if e = 101 ∨ e = 69 then
      let d := match r with
        | 43 :: r1 => r1
        | 45 :: r1 => r1
        | _ => r
      !d.isEmpty && d.all isDigitB
    else false

def fracExpOk : List Nat → Bool
  | 46 :: r =>
    let ds := r.takeWhile isDigitB
    !ds.isEmpty && expOk (r.dropWhile isDigitB)
  | r => expOk r

/-- `-? (0 | [1-9][0-9]*) (\. [0-9]+)? ([eE] [+-]? [0-9]+)?` -/
def numberOk (t : List Nat) : Bool :=
  let u := match t with
    | 45 :: r => r
    | _ => t
  match u with
  | 48 :: r => fracExpOk r
  | d :: r => if 49 ≤ d ∧ d ≤ 57 then fracExpOk (r.dropWhile isDigitB) else false
  | [] => false

/-- every number token outside strings is grammatical (`mode` as in `stripGo`; at the start of a
maximal run of word bytes that begins with a digit or `-` the run is checked) -/
def wordsOk : Nat → Nat → Bool → List Nat → Bool
  | 0, _, _, _ => false
  | _, _, _, [] => true
  | fuel + 1, mode, prevWord, b :: r =>
    if mode = 0 then
      if !prevWord && (isDigitB b || b == 45) && !numberOk ((b :: r).takeWhile isNumChar) then false
      else wordsOk fuel (if b = 34 then 1 else 0) (isWordByte b) r
    else if mode = 1 then wordsOk fuel (if b = 92 then 2 else if b = 34 then 0 else 1) false r
    else wordsOk fuel 1 false r

/-- `serde_json::from_slice::<Value>` as far as gcov's output goes -/
def jsonParse' (bs : List Nat) : Option WJson :=
  match stripWs bs with
  | some s => if wordsOk (s.length + 1) 0 false s then jsonParse s else none
  | none => none

/-! ### from the generic tree to serde_json's number classes -/

def I64MIN_ABS : Nat := 9223372036854775808

mutual
def conv (flt : List Nat → Option JNum) : WJson → Option Json
  | .null => some .null
  | .bool b => some (.bool b)
  | .int i =>
    if 0 ≤ i then
      if i.toNat ≤ U64MAX then some (.num (.pos i.toNat)) else (flt (serInt i)).map .num
    else if i.natAbs ≤ I64MIN_ABS then some (.num (.neg i.natAbs)) else (flt (serInt i)).map .num
  | .tok t => (flt t).map .num
  | .str s => some (.str s)
  | .arr xs => (convL flt xs).map .arr
  | .obj fs => (convF flt fs).map .obj
def convL (flt : List Nat → Option JNum) : List WJson → Option (List Json)
  | [] => some []
  | x :: xs =>
    match conv flt x, convL flt xs with
    | some y, some ys => some (y :: ys)
    | _, _ => none
def convF (flt : List Nat → Option JNum) : List (List Nat × WJson) → Option (List (List Nat × Json))
  | [] => some []
  | (k, v) :: fs =>
    match conv flt v, convF flt fs with
    | some y, some ys => some ((k, y) :: ys)
    | _, _ => none
end

/-- the value tree serde_json hands to the derived `Deserialize` impls, from the bytes of the JSON
text; `none` = serde_json's text reader fails -/
def readTree (flt : List Nat → Option JNum) (bs : List Nat) : Option Json :=
  (jsonParse' bs).bind (conv flt)

/-- `parse_gcov_gz` from the bytes of the decompressed file -/
def parseGcovJsonBytes (flt : List Nat → Option JNum) (bs : List Nat) : Out :=
  Json.fromReader (readTree flt bs)

end Grcov.Gcov.JsonBytes
