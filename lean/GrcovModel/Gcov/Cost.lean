/-
C14, part TextCost – cost view of the two gcov readers (`Gcov.lean`; `parse_gcov` and
`parse_gcov_gz` of src/parser.rs).

Text form. What `parse_gcov` does with one line depends on the line only, not on what was read
before: `classify` names it (`Ev`), `applyEv` performs it, `procStripped_eq`
(Lemmas/TextCostGcov.lean) shows that this is `procStripped`. `Cost` counts what the Rust loop does:
* `reads`  – bytes handed over by `read_until` (every byte of the file once, until the function
             returns); `remove_newline`, `from_utf8_lossy` (since /repo 7f9b2b3), the `splitn` calls,
             the key comparison and the `parse` calls are each one pass over (a part of) that line;
* `lines`  – iterations of the `loop`;
* `mapOps` – `FxHashMap::insert` / `BTreeMap::insert` / `BTreeMap::entry` calls (at most one per line);
* `copied` – bytes copied by `to_owned` (file and function names, pieces of the lossily decoded
             line: at most three bytes per byte read);
* `pushed` – `Vec<bool>` slots written (one per `branch:` line: `push`, or `vec![taken; 1]`).

JSON form. The reader is serde_json's streaming deserializer driven by the derived `Deserialize`
impls: every node of the value tree is visited once (ignored members are skipped by `IgnoredAny`,
which still parses them), so the time of the decoding is the size of the tree, `Json.size`
(nodes + bytes of strings and keys), which is at most twice the length of the JSON text. The loop
after the decoding does `convOps` map operations.
Core Lean only (linked into `gmodel`).
-/
import GrcovModel.Gcov
import GrcovModel.Merge.Size
namespace Grcov.Gcov
open Grcov AList Grcov.Size

namespace Text

/-- what one (stripped) line makes `parse_gcov` do -/
inductive Ev where
  | nop
  | file (nm : Bytes)
  | function (start : Nat) (executed : Bool) (nm : Bytes)
  | lcount (l c : Nat)
  | branch (l : Nat) (taken : Bool)
  /-- `return Err(..)` -/
  | reject (kind : String)
deriving DecidableEq, Repr

def classify (l : Bytes) : Ev :=
  match splitOnce 58 l with
  | (_, none) => .reject "InvalidRecord"
  | (key, some value) =>
    if key = kFile then .file value
    else if key = kFunction then
      match splitOnce 44 value with
      | (t1, r1) =>
        match parseUInt U32MAX t1 with
        | none => .reject "Parse"
        | some start =>
          match r1 with
          | none => .reject "InvalidRecord"
          | some r1 =>
            match splitOnce 44 r1 with
            | (_, none) => .reject "InvalidRecord"
            | (t2, some name) => .function start (decide (t2 ≠ tZero)) name
    else if key = kLcount then
      match splitOnce 44 value with
      | (t1, r1) =>
        match parseUInt U32MAX t1 with
        | none => .reject "Parse"
        | some line =>
          match r1 with
          | none => .reject "InvalidRecord"
          | some c =>
            if c = tZero ∨ c.head? = some 45 then .lcount line 0
            else match parseUInt U64MAX c with
              | none => .reject "Parse"
              | some n => .lcount line n
    else if key = kBranch then
      match splitOnce 44 value with
      | (t1, r1) =>
        match parseUInt U32MAX t1 with
        | none => .reject "Parse"
        | some line =>
          match r1 with
          | none => .reject "InvalidRecord"
          | some tok => .branch line (decide (tok = tTaken))
    else .nop

def applyEv (a : Acc) : Ev → St
  | .nop => .run a
  | .file nm => .run (onFile a nm)
  | .function st ex nm => .run (onFunction a st ex nm)
  | .lcount l c => .run (onLcount a l c)
  | .branch l t => .run (onBranch a l t)
  | .reject k => .halt (.err k)

structure Cost where
  reads : Nat := 0
  lines : Nat := 0
  mapOps : Nat := 0
  copied : Nat := 0
  pushed : Nat := 0
deriving DecidableEq, Repr

def Cost.add (x y : Cost) : Cost :=
  ⟨x.reads + y.reads, x.lines + y.lines, x.mapOps + y.mapOps, x.copied + y.copied, x.pushed + y.pushed⟩

def evCost : Ev → Cost
  | .nop => {}
  | .file nm => { copied := nm.length }
  | .function _ _ nm => { mapOps := 1, copied := nm.length }
  | .lcount _ _ => { mapOps := 1 }
  | .branch _ _ => { mapOps := 1, pushed := 1 }
  | .reject _ => {}

/-- one iteration of the loop on the raw line `raw` (as `read_until` returned it); since /repo
7f9b2b3 the stripped line is decoded with `from_utf8_lossy` first (`Lcov.utf8Lossy`, one more pass
over the line; a name can grow to three times its bytes) -/
def lineCost (raw : Bytes) : Cost :=
  (evCost (classify (Lcov.utf8Lossy (stripEol raw)))).add { reads := raw.length, lines := 1 }

def costLines : St → List Bytes → Cost
  | .halt _, _ => {}
  | .run _, [] => {}
  | .run a, l :: ls => (lineCost l).add (costLines (procLine a l) ls)

/-- the cost of `parse_gcov` on a file with content `bs` -/
def cost (bs : Bytes) : Cost := costLines (.run {}) (splitLines bs)

/-- everything the accumulator holds -/
def accEntries (a : Acc) : Nat := a.results.length + resEntries a.results + covEntries a.cur
def accSlots (a : Acc) : Nat := resSlots a.results + covSlots a.cur

/-- number of LF bytes: `read_until(b'\n')` returns at most `lfs bs + 1` lines -/
def lfs (bs : Bytes) : Nat := (bs.filter (· == 10)).length

end Text

namespace Json

mutual
/-- nodes of the tree plus the bytes of its strings and member keys -/
def size : Gcov.Json → Nat
  | .null => 1
  | .bool _ => 1
  | .num _ => 1
  | .str s => 1 + s.length
  | .arr xs => 1 + sizeL xs
  | .obj kvs => 1 + sizeM kvs
def sizeL : List Gcov.Json → Nat
  | [] => 0
  | x :: xs => size x + sizeL xs
def sizeM : List (Bytes × Gcov.Json) → Nat
  | [] => 0
  | (k, v) :: r => k.length + size v + sizeM r
end

/-- what the loop of `parse_gcov_gz` inserts for one file: every line, every line with branches,
every function -/
def fileOps (f : FileJ) : Nat :=
  f.lines.length + (f.lines.filter fun l => !l.branches.isEmpty).length + f.functions.length

def convOps (fs : List FileJ) : Nat := (fs.map fileOps).sum

/-- weight of the decoded structs: one per struct, plus the bytes of the names that are kept -/
def lineW (l : LineJ) : Nat := 1 + l.branches.length
def fnW (f : FnJ) : Nat := 1 + f.demangled.length
def fileW (f : FileJ) : Nat :=
  1 + f.file.length + (f.functions.map fnW).sum + (f.lines.map lineW).sum
def filesW (fs : List FileJ) : Nat := (fs.map fileW).sum

end Json
end Grcov.Gcov
