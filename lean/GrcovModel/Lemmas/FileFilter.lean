/-
Helper lemmas for C16: the two flags of the pass are the two `inRegion` predicates; the n-th
result of `scan`; membership in `emit`/`create`; what `applyFilters` does to `get?`.
-/
import GrcovModel.FileFilter
namespace Grcov.FileFilter
open Grcov AList

/-! ### regions, abstractly -/

theorem inRegion_succ (start stop : Nat → Prop) (n : Nat) :
    inRegion start stop (n + 1) ↔ start (n + 1) ∨ (inRegion start stop n ∧ ¬ stop (n + 1)) := by
  constructor
  · rintro ⟨s, hs, hst, hno⟩
    by_cases h : s = n + 1
    · subst h; exact Or.inl hst
    · refine Or.inr ⟨⟨s, by omega, hst, fun t h1 h2 => hno t h1 (by omega)⟩, ?_⟩
      exact hno (n + 1) (by omega) (Nat.le_refl _)
  · rintro (h | ⟨⟨s, hs, hst, hno⟩, hstop⟩)
    · exact ⟨n + 1, Nat.le_refl _, h, fun t h1 h2 => by omega⟩
    · refine ⟨s, by omega, hst, fun t h1 h2 => ?_⟩
      by_cases ht : t = n + 1
      · subst ht; exact hstop
      · exact hno t h1 (by omega)

theorem inRegion_zero (start stop : Nat → Prop) : inRegion start stop 0 ↔ start 0 := by
  constructor
  · rintro ⟨s, hs, hst, _⟩
    have : s = 0 := by omega
    subst this; exact hst
  · intro h; exact ⟨0, Nat.le_refl _, h, fun t h1 h2 => by omega⟩

/-! ### marks -/

theorem lineAt_zero (ms : List Bits) : lineAt ms 0 = none := rfl

theorem lineAt_succ (ms : List Bits) (n : Nat) : lineAt ms (n + 1) = ms[n]? := by
  simp [lineAt]

theorem lineAt_eq_none_iff (ms : List Bits) (n : Nat) :
    lineAt ms n = none ↔ n = 0 ∨ ms.length < n := by
  cases n with
  | zero => simp [lineAt]
  | succ k => rw [lineAt_succ]; simp; omega

theorem not_Marks_zero (c : Bool) (f : Bits → Bool) (ms : List Bits) : ¬ Marks c f ms 0 := by
  rintro ⟨_, m, hm, _⟩; simp [lineAt] at hm

theorem Marks_succ (c : Bool) (f : Bits → Bool) (ms : List Bits) (n : Nat) (h : n < ms.length) :
    Marks c f ms (n + 1) ↔ hit c (f ms[n]) = true := by
  unfold Marks hit
  rw [lineAt_succ, List.getElem?_eq_getElem h]
  simp

theorem Marks_range {c : Bool} {f : Bits → Bool} {ms : List Bits} {n : Nat} (h : Marks c f ms n) :
    1 ≤ n ∧ n ≤ ms.length := by
  obtain ⟨_, m, hm, _⟩ := h
  have : lineAt ms n ≠ none := by rw [hm]; simp
  rw [Ne, lineAt_eq_none_iff] at this
  omega

/-! ### the flags are the regions -/

def flagsAfter (o : Opts) (fl : Flags) (ms : List Bits) : Flags := ms.foldl (stepFlags o) fl

theorem stepFlags_ignore (o : Opts) (fl : Flags) (m : Bits) :
    (stepFlags o fl m).ignore = (hit o.start m.start || (fl.ignore && !hit o.stop m.stop)) := by
  unfold stepFlags
  cases fl.ignore <;> cases hit o.stop m.stop <;> cases hit o.start m.start <;> rfl

theorem stepFlags_ignoreBr (o : Opts) (fl : Flags) (m : Bits) :
    (stepFlags o fl m).ignoreBr
      = (hit o.brStart m.brStart || (fl.ignoreBr && !hit o.brStop m.brStop)) := by
  unfold stepFlags
  cases fl.ignoreBr <;> cases hit o.brStop m.brStop <;> cases hit o.brStart m.brStart <;> rfl

theorem flagsAfter_take_succ (o : Opts) (fl : Flags) (ms : List Bits) (n : Nat)
    (h : n < ms.length) :
    flagsAfter o fl (ms.take (n + 1)) = stepFlags o (flagsAfter o fl (ms.take n)) ms[n] := by
  unfold flagsAfter
  rw [List.take_add_one, List.foldl_append, List.getElem?_eq_getElem h]
  rfl

theorem flags_ignore_iff (o : Opts) (ms : List Bits) (n : Nat) (hn : n ≤ ms.length) :
    (flagsAfter o Flags.init (ms.take n)).ignore = true ↔ inLineRegion o ms n := by
  unfold inLineRegion
  induction n with
  | zero =>
    rw [inRegion_zero]
    simp [flagsAfter, Flags.init, lineStart, not_Marks_zero]
  | succ n ih =>
    have hlt : n < ms.length := by omega
    rw [flagsAfter_take_succ o _ ms n hlt, stepFlags_ignore, inRegion_succ, ← ih (by omega)]
    unfold lineStart lineStop
    rw [Marks_succ _ _ _ _ hlt, Marks_succ _ _ _ _ hlt]
    cases hit o.start ms[n].start <;> cases hit o.stop ms[n].stop <;>
      cases (flagsAfter o Flags.init (List.take n ms)).ignore <;> simp

theorem flags_ignoreBr_iff (o : Opts) (ms : List Bits) (n : Nat) (hn : n ≤ ms.length) :
    (flagsAfter o Flags.init (ms.take n)).ignoreBr = true ↔ inBrRegion o ms n := by
  unfold inBrRegion
  induction n with
  | zero =>
    rw [inRegion_zero]
    simp [flagsAfter, Flags.init, brStart, not_Marks_zero]
  | succ n ih =>
    have hlt : n < ms.length := by omega
    rw [flagsAfter_take_succ o _ ms n hlt, stepFlags_ignoreBr, inRegion_succ, ← ih (by omega)]
    unfold brStart brStop
    rw [Marks_succ _ _ _ _ hlt, Marks_succ _ _ _ _ hlt]
    cases hit o.brStart ms[n].brStart <;> cases hit o.brStop ms[n].brStop <;>
      cases (flagsAfter o Flags.init (List.take n ms)).ignoreBr <;> simp

/-! ### the n-th result of the pass -/

theorem scan_length (o : Opts) (fl : Flags) (ms : List Bits) : (scan o fl ms).length = ms.length := by
  induction ms generalizing fl with
  | nil => rfl
  | cons m ms ih => simp [scan, ih]

theorem scan_getElem? (o : Opts) (fl : Flags) (ms : List Bits) (i : Nat) :
    (scan o fl ms)[i]?
      = ms[i]?.map fun m => classify o (flagsAfter o fl (ms.take (i + 1))) m := by
  induction ms generalizing fl i with
  | nil => simp [scan]
  | cons m ms ih =>
    cases i with
    | zero => simp [scan, flagsAfter]
    | succ i =>
      simp only [scan, List.getElem?_cons_succ, ih, List.take_succ_cons]
      rfl

/-- the result for source line `n` (1-based); `none` outside the file -/
def kindOf (o : Opts) (ms : List Bits) (n : Nat) : Kind :=
  match lineAt ms n with
  | none => .none
  | some m => classify o (flagsAfter o Flags.init (ms.take n)) m

theorem kindOf_out (o : Opts) (ms : List Bits) (n : Nat) (h : n = 0 ∨ ms.length < n) :
    kindOf o ms n = .none := by
  unfold kindOf
  rw [(lineAt_eq_none_iff ms n).2 h]

theorem scan_getElem?_kindOf (o : Opts) (ms : List Bits) (j : Nat) (k : Kind) :
    (scan o Flags.init ms)[j]? = some k ↔ j < ms.length ∧ kindOf o ms (j + 1) = k := by
  rw [scan_getElem?]
  unfold kindOf
  rw [lineAt_succ]
  by_cases h : j < ms.length
  · simp [h]
  · simp [h]

/-! ### numbering -/

theorem toU32_of_le {n : Nat} (h : n ≤ U32MAX) : toU32 n = n := by
  unfold toU32; unfold U32MAX at h; omega

theorem emit_cons (idx : Nat) (k : Kind) (ks : List Kind) :
    emit idx (k :: ks) =
      match k.toFT (toU32 (idx + 1)) with
      | some f => f :: emit (idx + 1) ks
      | Option.none => emit (idx + 1) ks := rfl

theorem mem_emit (f : FT) (idx : Nat) (ks : List Kind) :
    f ∈ emit idx ks ↔ ∃ (j : Nat) (k : Kind), ks[j]? = some k ∧ k.toFT (toU32 (idx + j + 1)) = some f := by
  induction ks generalizing idx with
  | nil => simp [emit]
  | cons k ks ih =>
    have step : f ∈ emit idx (k :: ks) ↔ k.toFT (toU32 (idx + 1)) = some f ∨ f ∈ emit (idx + 1) ks := by
      rw [emit_cons]
      split
      · rename_i g h; rw [h]; simp [eq_comm]
      · rename_i h; rw [h]; simp
    rw [step, ih]
    constructor
    · rintro (h | ⟨j, k', hj, hk⟩)
      · exact ⟨0, k, by simp, by simpa using h⟩
      · exact ⟨j + 1, k', by simpa using hj, by rw [← hk]; congr 2; omega⟩
    · rintro ⟨j, k', hj, hk⟩
      cases j with
      | zero =>
        simp at hj; subst hj; exact Or.inl (by simpa using hk)
      | succ j =>
        exact Or.inr ⟨j, k', by simpa using hj, by rw [← hk]; congr 2; omega⟩

theorem Kind.toFT_eq_some (k : Kind) (n : Nat) (f : FT) :
    k.toFT n = some f ↔
      (k = .line ∧ f = .line n) ∨ (k = .branch ∧ f = .branch n) ∨ (k = .both ∧ f = .both n) := by
  cases k <;> simp [Kind.toFT, eq_comm]

/-! ### the early return is redundant -/

theorem stepFlags_inert (o : Opts) (h : o.inert = true) (m : Bits) :
    stepFlags o Flags.init m = Flags.init := by
  obtain ⟨l, s, p, bl, bs, bp⟩ := o
  simp [Opts.inert] at h
  obtain ⟨⟨⟨rfl, rfl⟩, rfl⟩, rfl⟩ := h
  simp [stepFlags, Flags.init, hit]

theorem classify_inert (o : Opts) (h : o.inert = true) (m : Bits) :
    classify o Flags.init m = .none := by
  obtain ⟨l, s, p, bl, bs, bp⟩ := o
  simp [Opts.inert] at h
  obtain ⟨⟨⟨rfl, rfl⟩, rfl⟩, rfl⟩ := h
  simp [classify, Flags.init, hit]

theorem emit_scan_inert (o : Opts) (h : o.inert = true) (ms : List Bits) (idx : Nat) :
    emit idx (scan o Flags.init ms) = [] := by
  induction ms generalizing idx with
  | nil => rfl
  | cons m ms ih =>
    simp only [scan, stepFlags_inert o h, classify_inert o h]
    unfold emit
    simp [Kind.toFT, ih]

theorem create_readable (o : Opts) (ms : List Bits) :
    create o true ms = emit 0 (scan o Flags.init ms) := by
  unfold create
  by_cases h : o.inert = true
  · simp [h, emit_scan_inert o h]
  · simp [h]

theorem create_unreadable (o : Opts) (ms : List Bits) : create o false ms = [] := by
  unfold create; simp

theorem create_inert (o : Opts) (h : o.inert = true) (r : Bool) (ms : List Bits) :
    create o r ms = [] := by
  unfold create; simp [h]

/-! ### membership in `create` -/

theorem mem_create (o : Opts) (ms : List Bits) (hlen : ms.length ≤ U32MAX) (f : FT) :
    f ∈ create o true ms ↔
      (kindOf o ms f.num = .line ∧ f = .line f.num) ∨
      (kindOf o ms f.num = .branch ∧ f = .branch f.num) ∨
      (kindOf o ms f.num = .both ∧ f = .both f.num) := by
  rw [create_readable, mem_emit]
  constructor
  · rintro ⟨j, k, hj, hk⟩
    rw [scan_getElem?_kindOf] at hj
    obtain ⟨hjl, hkind⟩ := hj
    rw [Nat.zero_add, toU32_of_le (by omega), Kind.toFT_eq_some] at hk
    rcases hk with ⟨rfl, rfl⟩ | ⟨rfl, rfl⟩ | ⟨rfl, rfl⟩ <;> simp [FT.num, hkind]
  · intro h
    have hne : kindOf o ms f.num ≠ .none := by
      rcases h with ⟨h, _⟩ | ⟨h, _⟩ | ⟨h, _⟩ <;> rw [h] <;> simp
    have hr : ¬ (f.num = 0 ∨ ms.length < f.num) := fun hc => hne (kindOf_out o ms _ hc)
    refine ⟨f.num - 1, kindOf o ms f.num, ?_, ?_⟩
    · rw [scan_getElem?_kindOf]
      refine ⟨by omega, ?_⟩
      congr 1; omega
    · have e : 0 + (f.num - 1) + 1 = f.num := by omega
      rw [e, toU32_of_le (by omega), Kind.toFT_eq_some]
      rcases h with ⟨h, hf⟩ | ⟨h, hf⟩ | ⟨h, hf⟩
      · exact Or.inl ⟨h, hf⟩
      · exact Or.inr (Or.inl ⟨h, hf⟩)
      · exact Or.inr (Or.inr ⟨h, hf⟩)

theorem removesLine_create (o : Opts) (ms : List Bits) (hlen : ms.length ≤ U32MAX) (n : Nat) :
    removesLine (create o true ms) n ↔ kindOf o ms n = .line ∨ kindOf o ms n = .both := by
  unfold removesLine
  rw [mem_create o ms hlen, mem_create o ms hlen]
  simp [FT.num]

theorem removesBranch_create (o : Opts) (ms : List Bits) (hlen : ms.length ≤ U32MAX) (n : Nat) :
    removesBranch (create o true ms) n ↔ kindOf o ms n = .branch ∨ kindOf o ms n = .both := by
  unfold removesBranch
  rw [mem_create o ms hlen, mem_create o ms hlen]
  simp [FT.num]

/-! ### what the pass decides for a line of the file -/

theorem classify_line_iff (o : Opts) (fl : Flags) (m : Bits) :
    (classify o fl m = .line ∨ classify o fl m = .both) ↔
      hit o.line m.line = true ∨ fl.ignore = true := by
  unfold classify
  cases fl.ignoreBr <;> cases fl.ignore <;> cases hit o.brLine m.brLine <;>
    cases hit o.line m.line <;> simp

theorem classify_branch_iff (o : Opts) (fl : Flags) (m : Bits) :
    (classify o fl m = .branch ∨ classify o fl m = .both) ↔
      hit o.brLine m.brLine = true ∨ fl.ignoreBr = true := by
  unfold classify
  cases fl.ignoreBr <;> cases fl.ignore <;> cases hit o.brLine m.brLine <;>
    cases hit o.line m.line <;> simp

theorem kindOf_in (o : Opts) (ms : List Bits) (n : Nat) (h1 : 1 ≤ n) (h2 : n ≤ ms.length) :
    kindOf o ms n = classify o (flagsAfter o Flags.init (ms.take n)) (ms[n - 1]'(by omega)) := by
  unfold kindOf lineAt
  have : ¬ n = 0 := by omega
  simp [this, List.getElem?_eq_getElem (show n - 1 < ms.length by omega)]

theorem Marks_in (c : Bool) (f : Bits → Bool) (ms : List Bits) (n : Nat) (h1 : 1 ≤ n)
    (h2 : n ≤ ms.length) : Marks c f ms n ↔ hit c (f (ms[n - 1]'(by omega))) = true := by
  obtain ⟨k, rfl⟩ : ∃ k, n = k + 1 := ⟨n - 1, by omega⟩
  exact Marks_succ c f ms k (by omega)

/-- line dimension: removed iff own marker or own region -/
theorem removesLine_iff (o : Opts) (ms : List Bits) (hlen : ms.length ≤ U32MAX) (n : Nat)
    (h1 : 1 ≤ n) (h2 : n ≤ ms.length) :
    removesLine (create o true ms) n ↔ lineMarker o ms n ∨ inLineRegion o ms n := by
  rw [removesLine_create o ms hlen, kindOf_in o ms n h1 h2, classify_line_iff,
    flags_ignore_iff o ms n h2]
  unfold lineMarker
  rw [Marks_in _ _ ms n h1 h2]

/-- branch dimension: removed iff own marker or own region -/
theorem removesBranch_iff (o : Opts) (ms : List Bits) (hlen : ms.length ≤ U32MAX) (n : Nat)
    (h1 : 1 ≤ n) (h2 : n ≤ ms.length) :
    removesBranch (create o true ms) n ↔ brMarker o ms n ∨ inBrRegion o ms n := by
  rw [removesBranch_create o ms hlen, kindOf_in o ms n h1 h2, classify_branch_iff,
    flags_ignoreBr_iff o ms n h2]
  unfold brMarker
  rw [Marks_in _ _ ms n h1 h2]

theorem mem_both_iff (o : Opts) (ms : List Bits) (hlen : ms.length ≤ U32MAX) (n : Nat) :
    FT.both n ∈ create o true ms ↔
      removesLine (create o true ms) n ∧ removesBranch (create o true ms) n := by
  rw [removesLine_create o ms hlen, removesBranch_create o ms hlen, mem_create o ms hlen]
  simp only [FT.num]
  cases kindOf o ms n <;> simp

theorem mem_line_iff (o : Opts) (ms : List Bits) (hlen : ms.length ≤ U32MAX) (n : Nat) :
    FT.line n ∈ create o true ms ↔
      removesLine (create o true ms) n ∧ ¬ removesBranch (create o true ms) n := by
  rw [removesLine_create o ms hlen, removesBranch_create o ms hlen, mem_create o ms hlen]
  simp only [FT.num]
  cases kindOf o ms n <;> simp

theorem mem_branch_iff (o : Opts) (ms : List Bits) (hlen : ms.length ≤ U32MAX) (n : Nat) :
    FT.branch n ∈ create o true ms ↔
      ¬ removesLine (create o true ms) n ∧ removesBranch (create o true ms) n := by
  rw [removesLine_create o ms hlen, removesBranch_create o ms hlen, mem_create o ms hlen]
  simp only [FT.num]
  cases kindOf o ms n <;> simp

theorem four_outcomes (o : Opts) (ms : List Bits) (hlen : ms.length ≤ U32MAX) (n : Nat)
    (h1 : 1 ≤ n) (h2 : n ≤ ms.length) :
    (FT.both n ∈ create o true ms ↔
      (lineMarker o ms n ∨ inLineRegion o ms n) ∧ (brMarker o ms n ∨ inBrRegion o ms n)) ∧
    (FT.line n ∈ create o true ms ↔
      (lineMarker o ms n ∨ inLineRegion o ms n) ∧ ¬ (brMarker o ms n ∨ inBrRegion o ms n)) ∧
    (FT.branch n ∈ create o true ms ↔
      ¬ (lineMarker o ms n ∨ inLineRegion o ms n) ∧ (brMarker o ms n ∨ inBrRegion o ms n)) := by
  rw [mem_both_iff o ms hlen, mem_line_iff o ms hlen, mem_branch_iff o ms hlen,
    removesLine_iff o ms hlen n h1 h2, removesBranch_iff o ms hlen n h1 h2]
  exact ⟨Iff.rfl, Iff.rfl, Iff.rfl⟩

theorem removes_range (o : Opts) (ms : List Bits) (hlen : ms.length ≤ U32MAX) (r : Bool) (n : Nat)
    (h : removesLine (create o r ms) n ∨ removesBranch (create o r ms) n) :
    1 ≤ n ∧ n ≤ ms.length := by
  cases r with
  | false => simp [create_unreadable, removesLine, removesBranch] at h
  | true =>
    rw [removesLine_create o ms hlen, removesBranch_create o ms hlen] at h
    by_cases hc : n = 0 ∨ ms.length < n
    · rw [kindOf_out o ms n hc] at h; simp at h
    · omega

/-! ### the removal loop -/

theorem applyFilters_cons (f : FT) (fs : List FT) (c : Cov) :
    applyFilters (f :: fs) c = applyFilters fs (applyOne c f) := rfl

theorem removesLine_cons (f : FT) (fs : List FT) (n : Nat) :
    removesLine (f :: fs) n ↔ (f = .line n ∨ f = .both n) ∨ removesLine fs n := by
  unfold removesLine
  simp only [List.mem_cons]
  constructor
  · rintro ((h | h) | (h | h))
    · exact Or.inl (Or.inl h.symm)
    · exact Or.inr (Or.inl h)
    · exact Or.inl (Or.inr h.symm)
    · exact Or.inr (Or.inr h)
  · rintro ((h | h) | (h | h))
    · exact Or.inl (Or.inl h.symm)
    · exact Or.inr (Or.inl h.symm)
    · exact Or.inl (Or.inr h)
    · exact Or.inr (Or.inr h)

theorem removesBranch_cons (f : FT) (fs : List FT) (n : Nat) :
    removesBranch (f :: fs) n ↔ (f = .branch n ∨ f = .both n) ∨ removesBranch fs n := by
  unfold removesBranch
  simp only [List.mem_cons]
  constructor
  · rintro ((h | h) | (h | h))
    · exact Or.inl (Or.inl h.symm)
    · exact Or.inr (Or.inl h)
    · exact Or.inl (Or.inr h.symm)
    · exact Or.inr (Or.inr h)
  · rintro ((h | h) | (h | h))
    · exact Or.inl (Or.inl h.symm)
    · exact Or.inr (Or.inl h.symm)
    · exact Or.inl (Or.inr h)
    · exact Or.inr (Or.inr h)

theorem not_removesLine_nil (n : Nat) : ¬ removesLine [] n := by simp [removesLine]
theorem not_removesBranch_nil (n : Nat) : ¬ removesBranch [] n := by simp [removesBranch]

theorem applyFilters_lines (fs : List FT) (c : Cov) (n : Nat) :
    get? (applyFilters fs c).lines n = if removesLine fs n then none else get? c.lines n := by
  induction fs generalizing c with
  | nil => rw [if_neg (not_removesLine_nil n)]; rfl
  | cons f fs ih =>
    rw [applyFilters_cons, ih]
    have hc := removesLine_cons f fs n
    by_cases h : removesLine fs n
    · rw [if_pos h, if_pos (hc.2 (Or.inr h))]
    · rw [if_neg h]
      by_cases hf : f = .line n ∨ f = .both n
      · rw [if_pos (hc.2 (Or.inl hf))]
        rcases hf with rfl | rfl <;> simp [applyOne, get?_erase]
      · rw [if_neg (fun hx => (hc.1 hx).elim hf h)]
        cases f with
        | line k =>
          have : ¬ k = n := fun e => hf (Or.inl (by rw [e]))
          simp [applyOne, get?_erase, this]
        | branch k => simp [applyOne]
        | both k =>
          have : ¬ k = n := fun e => hf (Or.inr (by rw [e]))
          simp [applyOne, get?_erase, this]

theorem applyFilters_branches (fs : List FT) (c : Cov) (n : Nat) :
    get? (applyFilters fs c).branches n
      = if removesBranch fs n then none else get? c.branches n := by
  induction fs generalizing c with
  | nil => rw [if_neg (not_removesBranch_nil n)]; rfl
  | cons f fs ih =>
    rw [applyFilters_cons, ih]
    have hc := removesBranch_cons f fs n
    by_cases h : removesBranch fs n
    · rw [if_pos h, if_pos (hc.2 (Or.inr h))]
    · rw [if_neg h]
      by_cases hf : f = .branch n ∨ f = .both n
      · rw [if_pos (hc.2 (Or.inl hf))]
        rcases hf with rfl | rfl <;> simp [applyOne, get?_erase]
      · rw [if_neg (fun hx => (hc.1 hx).elim hf h)]
        cases f with
        | branch k =>
          have : ¬ k = n := fun e => hf (Or.inl (by rw [e]))
          simp [applyOne, get?_erase, this]
        | line k => simp [applyOne]
        | both k =>
          have : ¬ k = n := fun e => hf (Or.inr (by rw [e]))
          simp [applyOne, get?_erase, this]

theorem applyFilters_functions (fs : List FT) (c : Cov) :
    (applyFilters fs c).functions = c.functions := by
  induction fs generalizing c with
  | nil => rfl
  | cons f fs ih => rw [applyFilters_cons, ih]; cases f <;> rfl

/-! ### order of the filter list -/

theorem emit_num_gt (idx : Nat) (ks : List Kind) (h : idx + ks.length ≤ U32MAX) (f : FT)
    (hf : f ∈ emit idx ks) : idx < f.num ∧ f.num ≤ idx + ks.length := by
  rw [mem_emit] at hf
  obtain ⟨j, k, hj, hk⟩ := hf
  have hjl : j < ks.length := by
    have := (List.getElem?_eq_some_iff.1 hj).1
    exact this
  rw [toU32_of_le (by omega), Kind.toFT_eq_some] at hk
  rcases hk with ⟨_, rfl⟩ | ⟨_, rfl⟩ | ⟨_, rfl⟩ <;> simp [FT.num] <;> omega

theorem emit_sorted (idx : Nat) (ks : List Kind) (h : idx + ks.length ≤ U32MAX) :
    ((emit idx ks).map FT.num).Pairwise (· < ·) := by
  induction ks generalizing idx with
  | nil => simp [emit]
  | cons k ks ih =>
    have hlen : idx + 1 + ks.length ≤ U32MAX := by simp at h; omega
    rw [emit_cons]
    split
    · rename_i g hg
      rw [toU32_of_le (by omega), Kind.toFT_eq_some] at hg
      have hnum : g.num = idx + 1 := by
        rcases hg with ⟨_, rfl⟩ | ⟨_, rfl⟩ | ⟨_, rfl⟩ <;> rfl
      simp only [List.map_cons, List.pairwise_cons]
      refine ⟨?_, ih (idx + 1) hlen⟩
      intro x hx
      rw [List.mem_map] at hx
      obtain ⟨f, hf, rfl⟩ := hx
      have := (emit_num_gt (idx + 1) ks hlen f hf).1
      omega
    · exact ih (idx + 1) hlen

theorem create_sorted (o : Opts) (r : Bool) (ms : List Bits) (hlen : ms.length ≤ U32MAX) :
    ((create o r ms).map FT.num).Pairwise (· < ·) := by
  cases r with
  | false => simp [create_unreadable]
  | true =>
    rw [create_readable]
    exact emit_sorted 0 _ (by rw [scan_length]; omega)

/-! ### the specification of one dimension only looks at that dimension -/

def lineDim (m : Bits) : Bool × Bool × Bool := (m.line, m.start, m.stop)
def brDim (m : Bits) : Bool × Bool × Bool := (m.brLine, m.brStart, m.brStop)

theorem lineAt_map {α : Type} (g : Bits → α) (ms ms' : List Bits) (h : ms.map g = ms'.map g)
    (n : Nat) : (lineAt ms n).map g = (lineAt ms' n).map g := by
  unfold lineAt
  by_cases hn : n = 0
  · simp [hn]
  · simp only [hn, if_false]
    rw [← List.getElem?_map, ← List.getElem?_map, h]

theorem Marks_congr {α : Type} (g : Bits → α) (f : Bits → Bool) (f' : α → Bool)
    (hf : ∀ m, f m = f' (g m)) (c : Bool) (ms ms' : List Bits) (h : ms.map g = ms'.map g)
    (n : Nat) : Marks c f ms n ↔ Marks c f ms' n := by
  have key := lineAt_map g ms ms' h n
  unfold Marks
  constructor
  · rintro ⟨hc, m, hm, hfm⟩
    rw [hm] at key
    cases h' : lineAt ms' n with
    | none => rw [h'] at key; simp at key
    | some m' =>
      rw [h'] at key; simp at key
      exact ⟨hc, m', rfl, by rw [hf, ← key, ← hf]; exact hfm⟩
  · rintro ⟨hc, m, hm, hfm⟩
    rw [hm] at key
    cases h' : lineAt ms n with
    | none => rw [h'] at key; simp at key
    | some m' =>
      rw [h'] at key; simp at key
      exact ⟨hc, m', rfl, by rw [hf, key, ← hf]; exact hfm⟩

theorem inRegion_congr {start stop start' stop' : Nat → Prop} (hs : ∀ k, start k ↔ start' k)
    (hp : ∀ k, stop k ↔ stop' k) (n : Nat) :
    inRegion start stop n ↔ inRegion start' stop' n := by
  unfold inRegion
  constructor
  · rintro ⟨s, h1, h2, h3⟩
    exact ⟨s, h1, (hs s).1 h2, fun t a b c => h3 t a b ((hp t).2 c)⟩
  · rintro ⟨s, h1, h2, h3⟩
    exact ⟨s, h1, (hs s).2 h2, fun t a b c => h3 t a b ((hp t).1 c)⟩

theorem lineSpec_congr (o o' : Opts) (ms ms' : List Bits)
    (ho : o.line = o'.line ∧ o.start = o'.start ∧ o.stop = o'.stop)
    (hm : ms.map lineDim = ms'.map lineDim) (n : Nat) :
    (lineMarker o ms n ∨ inLineRegion o ms n) ↔ (lineMarker o' ms' n ∨ inLineRegion o' ms' n) := by
  obtain ⟨h1, h2, h3⟩ := ho
  unfold lineMarker inLineRegion lineStart lineStop
  rw [h1, h2, h3]
  rw [Marks_congr lineDim (·.line) (·.1) (fun _ => rfl) o'.line ms ms' hm n]
  rw [inRegion_congr
    (fun k => Marks_congr lineDim (·.start) (·.2.1) (fun _ => rfl) o'.start ms ms' hm k)
    (fun k => Marks_congr lineDim (·.stop) (·.2.2) (fun _ => rfl) o'.stop ms ms' hm k) n]

theorem brSpec_congr (o o' : Opts) (ms ms' : List Bits)
    (ho : o.brLine = o'.brLine ∧ o.brStart = o'.brStart ∧ o.brStop = o'.brStop)
    (hm : ms.map brDim = ms'.map brDim) (n : Nat) :
    (brMarker o ms n ∨ inBrRegion o ms n) ↔ (brMarker o' ms' n ∨ inBrRegion o' ms' n) := by
  obtain ⟨h1, h2, h3⟩ := ho
  unfold brMarker inBrRegion brStart brStop
  rw [h1, h2, h3]
  rw [Marks_congr brDim (·.brLine) (·.1) (fun _ => rfl) o'.brLine ms ms' hm n]
  rw [inRegion_congr
    (fun k => Marks_congr brDim (·.brStart) (·.2.1) (fun _ => rfl) o'.brStart ms ms' hm k)
    (fun k => Marks_congr brDim (·.brStop) (·.2.2) (fun _ => rfl) o'.brStop ms ms' hm k) n]

/-! ### line splitting; the piece after a final line feed -/

theorem consHead_ne_nil (b : Nat) (l : List (List Nat)) : consHead b l ≠ [] := by
  cases l <;> simp [consHead]

theorem splitLF_ne_nil (xs : List Nat) : splitLF xs ≠ [] := by
  cases xs with
  | nil => simp [splitLF]
  | cons b bs =>
    unfold splitLF
    split
    · simp
    · exact consHead_ne_nil _ _

theorem consHead_append (b : Nat) (l t : List (List Nat)) (h : l ≠ []) :
    consHead b (l ++ t) = consHead b l ++ t := by
  cases l with
  | nil => exact absurd rfl h
  | cons p ps => rfl

/-- `(s + "\n").split('\n')` is `s.split('\n')` followed by one empty piece -/
theorem splitLF_snoc_lf (xs : List Nat) : splitLF (xs ++ [10]) = splitLF xs ++ [[]] := by
  induction xs with
  | nil => simp [splitLF]
  | cons b bs ih =>
    by_cases hb : b = 10
    · subst hb
      simp [splitLF, ih]
    · simp only [List.cons_append, splitLF, hb, if_false, ih]
      exact consHead_append b _ _ (splitLF_ne_nil bs)

theorem stripCR_nil : stripCR [] = [] := rfl

theorem stripFinalLF_snoc_lf (body : List Nat) : stripFinalLF (body ++ [10]) = body := by
  simp [stripFinalLF]

theorem stripFinalLF_of_not_lf (src : List Nat) (h : src.getLast? ≠ some 10) :
    stripFinalLF src = src := by
  simp [stripFinalLF, h]

/-- one final newline adds no piece -/
theorem splitSrc_snoc_lf (body : List Nat) : splitSrc (body ++ [10]) = splitLF body := by
  unfold splitSrc; rw [stripFinalLF_snoc_lf]

theorem splitSrc_of_not_lf (src : List Nat) (h : src.getLast? ≠ some 10) :
    splitSrc src = splitLF src := by
  unfold splitSrc; rw [stripFinalLF_of_not_lf src h]

theorem splitSrc_nil : splitSrc [] = [[]] := rfl

theorem sourceBits_length (rx : Rx) (src : List Nat) :
    (sourceBits rx src).length = (splitSrc src).length := by
  simp [sourceBits]

theorem sourceBits_pos (rx : Rx) (src : List Nat) : 1 ≤ (sourceBits rx src).length := by
  rw [sourceBits_length]
  unfold splitSrc
  cases h : splitLF (stripFinalLF src) with
  | nil => exact absurd h (splitLF_ne_nil _)
  | cons p ps => simp

theorem sourceBits_snoc_lf (rx : Rx) (body : List Nat) (h : body.getLast? ≠ some 10) :
    sourceBits rx (body ++ [10]) = sourceBits rx body := by
  unfold sourceBits
  rw [splitSrc_snoc_lf, splitSrc_of_not_lf body h]

theorem realLines_snoc_lf (body : List Nat) : realLines (body ++ [10]) = (splitLF body).length := by
  simp [realLines, splitLF_snoc_lf]

theorem realLines_no_final_lf (src : List Nat) (h1 : src ≠ []) (h2 : src.getLast? ≠ some 10) :
    realLines src = (splitLF src).length := by
  simp [realLines, h1, h2]

theorem eq_snoc_of_getLast? {src : List Nat} {x : Nat} (h : src.getLast? = some x) :
    src = src.dropLast ++ [x] := by
  cases src with
  | nil => cases h
  | cons a as =>
    have hne : a :: as ≠ [] := by simp
    have := List.dropLast_concat_getLast hne
    rw [List.getLast?_eq_some_getLast hne] at h
    cases h
    exact this.symm

/-- the pass enumerates exactly the lines of every non-empty text -/
theorem splitSrc_length (src : List Nat) (h : src ≠ []) : (splitSrc src).length = realLines src := by
  by_cases hl : src.getLast? = some 10
  · have e := eq_snoc_of_getLast? hl
    rw [e, splitSrc_snoc_lf, realLines_snoc_lf]
  · rw [splitSrc_of_not_lf src hl, realLines_no_final_lf src h hl]

theorem realLines_nil : realLines [] = 0 := by decide

/-- the results for the lines before the last piece do not depend on the last piece -/
theorem kindOf_append_le (o : Opts) (ms : List Bits) (e : Bits) (n : Nat) (hn : n ≤ ms.length) :
    kindOf o (ms ++ [e]) n = kindOf o ms n := by
  unfold kindOf
  have h1 : lineAt (ms ++ [e]) n = lineAt ms n := by
    cases n with
    | zero => rfl
    | succ k => rw [lineAt_succ, lineAt_succ, List.getElem?_append_left (by omega)]
  rw [h1, List.take_append_of_le_length hn]

/-- the result for an extra last piece `e`: its own marker, or the region state at the end of
the text carried over it -/
theorem kindOf_append_last (o : Opts) (ms : List Bits) (e : Bits) :
    kindOf o (ms ++ [e]) (ms.length + 1)
      = classify o (stepFlags o (flagsAfter o Flags.init ms) e) e := by
  unfold kindOf
  rw [lineAt_succ, List.getElem?_append_right (Nat.le_refl _)]
  have ht : (ms ++ [e]).take (ms.length + 1) = ms ++ [e] := by
    rw [List.take_of_length_le (by simp)]
  simp only [Nat.sub_self, List.getElem?_cons_zero, ht]
  unfold flagsAfter
  rw [List.foldl_append]
  rfl

theorem flagsAfter_all_ignore (o : Opts) (ms : List Bits) :
    (flagsAfter o Flags.init ms).ignore = true ↔ inLineRegion o ms ms.length := by
  have := flags_ignore_iff o ms ms.length (Nat.le_refl _)
  rwa [List.take_length] at this

theorem flagsAfter_all_ignoreBr (o : Opts) (ms : List Bits) :
    (flagsAfter o Flags.init ms).ignoreBr = true ↔ inBrRegion o ms ms.length := by
  have := flags_ignoreBr_iff o ms ms.length (Nat.le_refl _)
  rwa [List.take_length] at this

theorem removesLine_append_le (o : Opts) (ms : List Bits) (e : Bits) (n : Nat)
    (hlen : ms.length + 1 ≤ U32MAX) (hn : n ≤ ms.length) :
    removesLine (create o true (ms ++ [e])) n ↔ removesLine (create o true ms) n := by
  rw [removesLine_create o _ (by simpa using hlen), removesLine_create o ms (by omega),
    kindOf_append_le o ms e n hn]

theorem removesBranch_append_le (o : Opts) (ms : List Bits) (e : Bits) (n : Nat)
    (hlen : ms.length + 1 ≤ U32MAX) (hn : n ≤ ms.length) :
    removesBranch (create o true (ms ++ [e])) n ↔ removesBranch (create o true ms) n := by
  rw [removesBranch_create o _ (by simpa using hlen), removesBranch_create o ms (by omega),
    kindOf_append_le o ms e n hn]

theorem removesLine_append_last (o : Opts) (ms : List Bits) (e : Bits)
    (hlen : ms.length + 1 ≤ U32MAX) :
    removesLine (create o true (ms ++ [e])) (ms.length + 1) ↔
      hit o.line e.line = true ∨ hit o.start e.start = true ∨
        (inLineRegion o ms ms.length ∧ hit o.stop e.stop = false) := by
  rw [removesLine_create o _ (by simpa using hlen), kindOf_append_last, classify_line_iff,
    stepFlags_ignore, ← flagsAfter_all_ignore]
  cases hit o.start e.start <;> cases hit o.stop e.stop <;>
    cases (flagsAfter o Flags.init ms).ignore <;> simp

theorem removesBranch_append_last (o : Opts) (ms : List Bits) (e : Bits)
    (hlen : ms.length + 1 ≤ U32MAX) :
    removesBranch (create o true (ms ++ [e])) (ms.length + 1) ↔
      hit o.brLine e.brLine = true ∨ hit o.brStart e.brStart = true ∨
        (inBrRegion o ms ms.length ∧ hit o.brStop e.brStop = false) := by
  rw [removesBranch_create o _ (by simpa using hlen), kindOf_append_last, classify_branch_iff,
    stepFlags_ignoreBr, ← flagsAfter_all_ignoreBr]
  cases hit o.brStart e.brStart <;> cases hit o.brStop e.brStop <;>
    cases (flagsAfter o Flags.init ms).ignoreBr <;> simp

/-- only pieces of the source are named -/
theorem removes_range_src (o : Opts) (rx : Rx) (src : Option (List Nat)) (n : Nat)
    (hlen : ∀ s, src = some s → (splitSrc s).length ≤ U32MAX)
    (h : removesLine (createSrc o rx src) n ∨ removesBranch (createSrc o rx src) n) :
    ∃ s, src = some s ∧ 1 ≤ n ∧ n ≤ (splitSrc s).length := by
  cases src with
  | none =>
    simp [createSrc, create_unreadable, removesLine, removesBranch] at h
  | some s =>
    have := removes_range o (sourceBits rx s) (by rw [sourceBits_length]; exact hlen s rfl) true n h
    rw [sourceBits_length] at this
    exact ⟨s, rfl, this.1, this.2⟩

/-- the empty text: one empty piece -/
theorem createSrc_nil (o : Opts) (rx : Rx) : createSrc o rx (some []) = create o true [rx.bits []] := rfl

theorem inLineRegion_nil_zero (o : Opts) : ¬ inLineRegion o [] 0 := by
  unfold inLineRegion; rw [inRegion_zero]; exact not_Marks_zero _ _ _

theorem inBrRegion_nil_zero (o : Opts) : ¬ inBrRegion o [] 0 := by
  unfold inBrRegion; rw [inRegion_zero]; exact not_Marks_zero _ _ _

end Grcov.FileFilter
