/-
Helper lemmas about UPath: split/join round trips, what `components` sees, the shape of
`normalizePath` results, when `normalizePath` gives up, and what `stripPrefix` leaves.
-/
import GrcovModel.UPath
namespace Grcov.UPath

/-! ### split / join -/

theorem split_ne_nil (bs : Bytes) : split bs ≠ [] := by
  induction bs with
  | nil => simp [split]
  | cons b bs ih =>
    unfold split
    split
    · simp
    · split <;> simp

theorem mem_split_noSlash {bs : Bytes} {s : Bytes} (h : s ∈ split bs) : 47 ∉ s := by
  induction bs generalizing s with
  | nil => simp [split] at h; subst h; simp
  | cons b bs ih =>
    unfold split at h
    split at h
    · simp at h; rcases h with h | h
      · subst h; simp
      · exact ih h
    · rename_i hb
      split at h
      · rename_i s0 ss heq
        simp at h
        rcases h with h | h
        · subst h
          have : s0 ∈ split bs := by rw [heq]; simp
          have := ih this
          simp; exact ⟨fun e => hb e.symm, this⟩
        · exact ih (by rw [heq]; simp [h])
      · simp at h; subst h; simp; exact fun e => hb e.symm

theorem join_split (bs : Bytes) : join (split bs) = bs := by
  induction bs with
  | nil => simp [split, join]
  | cons b bs ih =>
    unfold split
    split
    · rename_i hb
      have hne := split_ne_nil bs
      cases hs : split bs with
      | nil => exact absurd hs hne
      | cons s ss => rw [hs] at ih; simp [join, ih, hb]
    · split
      · rename_i s0 ss heq
        rw [heq] at ih
        cases ss with
        | nil => simp [join] at ih ⊢; exact ih
        | cons t ts => simp [join] at ih ⊢; exact ih
      · rename_i heq; exact absurd heq (split_ne_nil bs)

theorem split_noSlash {s : Bytes} (h : 47 ∉ s) : split s = [s] := by
  induction s with
  | nil => simp [split]
  | cons b s ih =>
    simp at h
    unfold split
    rw [if_neg (fun e => h.1 e.symm), ih h.2]

theorem split_append_slash {s : Bytes} (h : 47 ∉ s) (rest : Bytes) :
    split (s ++ 47 :: rest) = s :: split rest := by
  induction s with
  | nil => simp [split]
  | cons b s ih =>
    simp at h
    have : (b :: s) ++ 47 :: rest = b :: (s ++ 47 :: rest) := rfl
    rw [this, split, if_neg (fun e => h.1 e.symm), ih h.2]

theorem split_join {S : List Bytes} (hne : S ≠ []) (h : ∀ s ∈ S, 47 ∉ s) : split (join S) = S := by
  induction S with
  | nil => exact absurd rfl hne
  | cons s S ih =>
    cases S with
    | nil => simp [join]; exact split_noSlash (h s (by simp))
    | cons t ts =>
      simp only [join]
      rw [split_append_slash (h s (by simp))]
      rw [ih (by simp) (fun x hx => h x (List.mem_cons_of_mem _ hx))]

theorem mem_join {S : List Bytes} {b : Nat} (h : b ∈ join S) : b = 47 ∨ ∃ s ∈ S, b ∈ s := by
  induction S with
  | nil => simp [join] at h
  | cons s S ih =>
    cases S with
    | nil => simp [join] at h; exact Or.inr ⟨s, by simp, h⟩
    | cons t ts =>
      simp only [join, List.mem_append, List.mem_cons] at h
      rcases h with h | h | h
      · exact Or.inr ⟨s, by simp, h⟩
      · exact Or.inl h
      · rcases ih h with h | ⟨x, hx, hb⟩
        · exact Or.inl h
        · exact Or.inr ⟨x, List.mem_cons_of_mem _ hx, hb⟩

theorem join_append {A B : List Bytes} (ha : A ≠ []) (hb : B ≠ []) :
    join (A ++ B) = join A ++ 47 :: join B := by
  induction A with
  | nil => exact absurd rfl ha
  | cons a A ih =>
    cases A with
    | nil =>
      cases B with
      | nil => exact absurd rfl hb
      | cons b B => simp [join]
    | cons a' A' =>
      have := ih (by simp)
      simp only [List.cons_append] at this ⊢
      simp only [join]
      rw [this]; simp

/-! ### real names -/

/-- a name that `components` reports as `Normal`: non-empty, no '/', not "." or ".." -/
def RealName (n : Bytes) : Prop := n ≠ [] ∧ 47 ∉ n ∧ n ≠ [46] ∧ n ≠ [46, 46]

instance (n : Bytes) : Decidable (RealName n) := by unfold RealName; infer_instance

theorem segComp_real {n : Bytes} (h : RealName n) : segComp n = some (.normal n) := by
  obtain ⟨h1, _, h3, h4⟩ := h
  simp [segComp, h1, h3, h4]

theorem isSkip_real {n : Bytes} (h : RealName n) : isSkip n = false := by
  obtain ⟨h1, _, h3, _⟩ := h
  simp [isSkip, h1, h3]

theorem segComp_eq_none_iff (s : Bytes) : segComp s = none ↔ isSkip s = true := by
  unfold segComp isSkip
  by_cases h1 : s = [] <;> by_cases h2 : s = [46] <;> by_cases h3 : s = [46, 46] <;> simp [h1, h2, h3]

theorem segComp_normal {s n : Bytes} (h : segComp s = some (.normal n)) (hs : 47 ∉ s) :
    n = s ∧ RealName s := by
  unfold segComp at h
  by_cases h1 : s = [] <;> by_cases h2 : s = [46] <;> by_cases h3 : s = [46, 46] <;>
    simp [h1, h2, h3] at h
  exact ⟨h.symm, h1, hs, h2, h3⟩

theorem segComp_ne_root (s : Bytes) : segComp s ≠ some .root := by
  unfold segComp; split <;> try split <;> try split
  all_goals simp

theorem segComp_ne_cur (s : Bytes) : segComp s ≠ some .cur := by
  unfold segComp; split <;> try split <;> try split
  all_goals simp

/-- every `Normal` component of a path carries a real name -/
theorem normal_mem_components {p n : Bytes} (h : Comp.normal n ∈ components p) : RealName n := by
  unfold components at h
  simp only [List.mem_append, List.mem_filterMap] at h
  rcases h with h | ⟨s, hs, hc⟩
  · split at h
    · simp at h
    · split at h <;> simp at h
  · obtain ⟨e, hr⟩ := segComp_normal hc (mem_split_noSlash hs)
    subst e; exact hr

/-! ### normalizePath: shape of the result -/

theorem normGo_real {st : NPath} {cs : List Comp} {r : NPath}
    (hst : ∀ n ∈ st.names, RealName n) (hcs : ∀ n, Comp.normal n ∈ cs → RealName n)
    (h : normGo st cs = some r) : ∀ n ∈ r.names, RealName n := by
  induction cs generalizing st with
  | nil => simp [normGo] at h; subst h; exact hst
  | cons c cs ih =>
    have hcs' : ∀ n, Comp.normal n ∈ cs → RealName n := fun n hn => hcs n (List.mem_cons_of_mem _ hn)
    cases c with
    | root => simp only [normGo] at h; exact ih (by simp) hcs' h
    | cur => simp only [normGo] at h; exact ih hst hcs' h
    | parent =>
      simp only [normGo] at h
      split at h
      · simp at h
      · exact ih (fun n hn => hst n (List.dropLast_subset _ hn)) hcs' h
    | normal c =>
      simp only [normGo] at h
      refine ih ?_ hcs' h
      intro n hn
      simp only [List.mem_append, List.mem_singleton] at hn
      rcases hn with hn | hn
      · exact hst n hn
      · rw [hn]; exact hcs c (by simp)

/-- a normalised path is `render` of a stack of real names -/
theorem normalizePath_shape {p r : Bytes} (h : normalizePath p = some r) :
    ∃ np : NPath, r = render np ∧ (∀ n ∈ np.names, RealName n) ∧ normalizeN p = some np := by
  unfold normalizePath at h
  cases hn : normalizeN p with
  | none => rw [hn] at h; simp at h
  | some np =>
    rw [hn] at h; simp at h
    refine ⟨np, h.symm, ?_, rfl⟩
    unfold normalizeN normalizeC at hn
    exact normGo_real (by simp) (fun n hn' => normal_mem_components hn') hn

/-! ### normalizePath: when it gives up -/

/-- number of ".." among the segments -/
def countDotDot (segs : List Bytes) : Nat := (segs.filter fun s => s = [46, 46]).length
/-- number of real names (neither "", "." nor "..") among the segments -/
def countNames (segs : List Bytes) : Nat :=
  (segs.filter fun s => !(isSkip s) && !(s = [46, 46])).length

/-- some ".." pops past the start: at some point more ".." than names have been read -/
def EscapesSegs (segs : List Bytes) : Prop :=
  ∃ k, countDotDot (segs.take k) > countNames (segs.take k)

theorem normGo_none_iff (segs : List Bytes) (st : NPath) :
    normGo st (segs.filterMap segComp) = none ↔
      ∃ k, countDotDot (segs.take k) > st.names.length + countNames (segs.take k) := by
  induction segs generalizing st with
  | nil => simp [normGo, countDotDot]
  | cons s segs ih =>
    have shift : ∀ (P : Nat → Prop), ¬ P 0 → ((∃ k, P k) ↔ ∃ k, P (k + 1)) := by
      intro P h0
      constructor
      · rintro ⟨k, hk⟩
        cases k with
        | zero => exact absurd hk h0
        | succ k => exact ⟨k, hk⟩
      · rintro ⟨k, hk⟩; exact ⟨k + 1, hk⟩
    rw [shift _ (by simp [countDotDot])]
    by_cases h1 : s = []
    · subst h1
      simp only [List.filterMap_cons, segComp, if_true, List.take_succ_cons]
      rw [ih]; simp [countDotDot, countNames, isSkip]
    by_cases h2 : s = [46]
    · subst h2
      have : segComp [46] = none := by simp [segComp]
      simp only [List.filterMap_cons, this, List.take_succ_cons]
      rw [ih]; simp [countDotDot, countNames, isSkip]
    by_cases h3 : s = [46, 46]
    · subst h3
      have : segComp [46, 46] = some .parent := by simp [segComp]
      simp only [List.filterMap_cons, this, List.take_succ_cons, normGo]
      by_cases hn : st.names = []
      · simp only [hn, if_true, true_iff]
        exact ⟨0, by simp [countDotDot, countNames, isSkip]⟩
      · simp only [hn, if_false]
        rw [ih]
        have hl : st.names.length ≥ 1 := by
          cases h : st.names with
          | nil => exact absurd h hn
          | cons _ _ => simp
        simp only [List.length_dropLast]
        constructor
        · rintro ⟨k, hk⟩; refine ⟨k, ?_⟩
          simp [countDotDot, countNames, isSkip] at hk ⊢; omega
        · rintro ⟨k, hk⟩; refine ⟨k, ?_⟩
          simp [countDotDot, countNames, isSkip] at hk ⊢; omega
    · have : segComp s = some (.normal s) := by simp [segComp, h1, h2, h3]
      simp only [List.filterMap_cons, this, List.take_succ_cons, normGo]
      rw [ih]
      constructor
      · rintro ⟨k, hk⟩; refine ⟨k, ?_⟩
        simp [countDotDot, countNames, isSkip, h1, h2, h3] at hk ⊢; omega
      · rintro ⟨k, hk⟩; refine ⟨k, ?_⟩
        simp [countDotDot, countNames, isSkip, h1, h2, h3] at hk ⊢; omega

theorem normalizeN_none_iff (p : Bytes) : normalizeN p = none ↔ EscapesSegs (split p) := by
  unfold normalizeN normalizeC components EscapesSegs
  have key := fun st => normGo_none_iff (split p) st
  split
  · simp only [List.cons_append, List.nil_append, normGo]
    rw [key]; simp
  · split
    · simp only [List.cons_append, List.nil_append, normGo]
      rw [key]; simp
    · simp only [List.nil_append]
      rw [key]; simp

theorem normalizePath_none_iff (p : Bytes) : normalizePath p = none ↔ EscapesSegs (split p) := by
  rw [← normalizeN_none_iff]
  unfold normalizePath
  cases normalizeN p <;> simp


/-! ### trimming and dropping segments -/

theorem filterMap_trimL (segs : List Bytes) : (trimL segs).filterMap segComp = segs.filterMap segComp := by
  induction segs with
  | nil => rfl
  | cons s t ih =>
    unfold trimL at ih ⊢
    simp only [List.dropWhile_cons]
    split
    · rename_i h
      rw [ih, List.filterMap_cons, (segComp_eq_none_iff s).2 h]
    · rfl

theorem trimR_cons (s : Bytes) (t : List Bytes) :
    trimR (s :: t) = if trimR t = [] then (if isSkip s then [] else [s]) else s :: trimR t := by
  rw [trimR]
  cases h : trimR t <;> simp

theorem filterMap_trimR (segs : List Bytes) : (trimR segs).filterMap segComp = segs.filterMap segComp := by
  induction segs with
  | nil => rfl
  | cons s t ih =>
    rw [trimR_cons]
    by_cases h : trimR t = []
    · rw [if_pos h]
      rw [h] at ih
      simp only [List.filterMap_nil] at ih
      by_cases hs : isSkip s = true
      · rw [if_pos hs, List.filterMap_cons, (segComp_eq_none_iff s).2 hs, ← ih]; rfl
      · rw [if_neg hs, List.filterMap_cons, List.filterMap_cons, ← ih]; rfl
    · rw [if_neg h, List.filterMap_cons, List.filterMap_cons, ih]

theorem trimR_subset (segs : List Bytes) : ∀ s ∈ trimR segs, s ∈ segs := by
  induction segs with
  | nil => simp [trimR]
  | cons a t ih =>
    intro s hs
    rw [trimR_cons] at hs
    split at hs
    · split at hs
      · simp at hs
      · simp at hs; subst hs; simp
    · simp at hs
      rcases hs with hs | hs
      · subst hs; simp
      · exact List.mem_cons_of_mem _ (ih s hs)

theorem trimL_subset (segs : List Bytes) : ∀ s ∈ trimL segs, s ∈ segs := by
  intro s hs
  exact (List.dropWhile_sublist _).subset hs

theorem trimL_head (segs : List Bytes) : ∀ s t, trimL segs = s :: t → isSkip s = false := by
  induction segs with
  | nil => intro s t h; simp [trimL] at h
  | cons a rest ih =>
    intro s t h
    unfold trimL at h ih
    simp only [List.dropWhile_cons] at h
    split at h
    · exact ih s t h
    · rename_i hs
      cases h
      simpa using hs

theorem trimR_head (segs : List Bytes) (s : Bytes) (t : List Bytes) (h : segs = s :: t)
    (hs : isSkip s = false) : ∃ t', trimR segs = s :: t' := by
  subst h
  rw [trimR_cons]
  split
  · simp [hs]
  · exact ⟨_, rfl⟩

theorem trimR_all_real {l : List Bytes} (h : ∀ n ∈ l, RealName n) : trimR l = l := by
  induction l with
  | nil => rfl
  | cons a t ih =>
    rw [trimR_cons, ih (fun n hn => h n (List.mem_cons_of_mem _ hn))]
    have := isSkip_real (h a (by simp))
    cases t with
    | nil => simp [this]
    | cons b t => simp

theorem filterMap_dropComps (j : Nat) (segs : List Bytes) :
    (dropComps j segs).filterMap segComp = (segs.filterMap segComp).drop j := by
  induction segs generalizing j with
  | nil => cases j <;> simp [dropComps]
  | cons s t ih =>
    cases j with
    | zero => simp [dropComps]
    | succ j =>
      simp only [dropComps]
      by_cases hs : isSkip s = true
      · rw [if_pos hs, ih, List.filterMap_cons, (segComp_eq_none_iff s).2 hs]
      · rw [if_neg hs, ih, List.filterMap_cons]
        cases hc : segComp s with
        | none => exact absurd ((segComp_eq_none_iff s).1 hc) hs
        | some c => simp

theorem dropComps_subset (j : Nat) (segs : List Bytes) : ∀ s ∈ dropComps j segs, s ∈ segs := by
  induction segs generalizing j with
  | nil => cases j <;> simp [dropComps]
  | cons a t ih =>
    cases j with
    | zero => simp [dropComps]
    | succ j =>
      intro s hs
      simp only [dropComps] at hs
      split at hs <;> exact List.mem_cons_of_mem _ (ih _ s hs)

theorem dropComps_reals {sn : List Bytes} (h : ∀ n ∈ sn, RealName n) (rest : List Bytes) :
    dropComps sn.length (sn ++ rest) = rest := by
  induction sn with
  | nil => simp [dropComps]
  | cons a t ih =>
    simp only [List.length_cons, List.cons_append, dropComps]
    rw [if_neg (by simp [isSkip_real (h a (by simp))])]
    exact ih fun n hn => h n (List.mem_cons_of_mem _ hn)

/-! ### components of joined segment lists -/

theorem head_join_ne_slash {s : Bytes} {t : List Bytes} (hs : s ≠ []) (hn : 47 ∉ s) :
    (join (s :: t)).head? ≠ some 47 := by
  cases s with
  | nil => exact absurd rfl hs
  | cons b s =>
    simp at hn
    cases t <;> simp [join] <;> exact fun e => hn.1 e.symm

/-- a '/'-free segment list whose first segment is a real component (or that is empty) is read back
as exactly its components: no root, no leading "." -/
theorem components_join {S : List Bytes} (hS : ∀ s ∈ S, 47 ∉ s)
    (hhead : ∀ s t, S = s :: t → isSkip s = false) :
    components (join S) = S.filterMap segComp := by
  cases S with
  | nil => simp [join, components, hasRoot, leadCur, split, segComp]
  | cons s t =>
    have hsk := hhead s t rfl
    have hs1 : s ≠ [] := by intro e; subst e; simp [isSkip] at hsk
    have hs2 : s ≠ [46] := by intro e; subst e; simp [isSkip] at hsk
    have hroot : hasRoot (join (s :: t)) = false := by
      unfold hasRoot
      simpa using head_join_ne_slash hs1 (hS s (by simp))
    have hsp : split (join (s :: t)) = s :: t := split_join (by simp) hS
    unfold components leadCur
    rw [hroot, hsp]
    simp [hs2]

theorem components_eq (p : Bytes) :
    components p = (if hasRoot p then [Comp.root] else if leadCur p then [Comp.cur] else [])
      ++ (split p).filterMap segComp := rfl

theorem isPrefixOfC_iff (a b : List Comp) : isPrefixOfC a b = true ↔ ∃ t, b = a ++ t := by
  induction a generalizing b with
  | nil => simp [isPrefixOfC]
  | cons x a ih =>
    cases b with
    | nil => simp [isPrefixOfC]
    | cons y b =>
      simp only [isPrefixOfC, Bool.and_eq_true, decide_eq_true_eq, ih, List.cons_append,
        List.cons.injEq]
      constructor
      · rintro ⟨e, t, ht⟩; exact ⟨t, e.symm, ht⟩
      · rintro ⟨t, e, ht⟩; exact ⟨e.symm, t, ht⟩

/-- what is left after `k ≥ 1` components has exactly the remaining components -/
theorem components_remainder (p : Bytes) (k : Nat) (hk : k ≠ 0) (hle : k ≤ (components p).length) :
    components (remainder p k) = (components p).drop k := by
  unfold remainder
  rw [if_neg hk]
  have hsub : ∀ j, ∀ s ∈ trimR (trimL (dropComps j (split p))), 47 ∉ s := fun j s hs =>
    mem_split_noSlash (dropComps_subset j _ s (trimL_subset _ s (trimR_subset _ s hs)))
  have hhead : ∀ j, ∀ s t, trimR (trimL (dropComps j (split p))) = s :: t → isSkip s = false := by
    intro j s t h
    cases hl : trimL (dropComps j (split p)) with
    | nil => rw [hl] at h; simp [trimR] at h
    | cons a r =>
      have ha := trimL_head _ a r hl
      obtain ⟨t', ht'⟩ := trimR_head _ a r rfl ha
      rw [hl, ht'] at h
      cases h; exact ha
  rw [components_join (hsub _) (hhead _), filterMap_trimR, filterMap_trimL, filterMap_dropComps,
    components_eq]
  by_cases hr : hasRoot p = true
  · simp only [hr, Bool.true_or, if_true]
    cases k with
    | zero => exact absurd rfl hk
    | succ k => simp
  · by_cases hc : leadCur p = true
    · simp only [hr, hc, Bool.or_true, if_true]
      cases k with
      | zero => exact absurd rfl hk
      | succ k => simp
    · simp [hr, hc]

/-- `strip_prefix` removes exactly the prefix's components (prefix with at least one component) -/
theorem stripPrefix_components {p base r : Bytes} (h : stripPrefix p base = some r)
    (hb : components base ≠ []) : components p = components base ++ components r := by
  unfold stripPrefix at h
  split at h
  · rename_i hp
    obtain ⟨t, ht⟩ := (isPrefixOfC_iff _ _).1 hp
    simp at h; subst h
    rw [components_remainder p _ (by simpa using hb) (by rw [ht]; simp), ht]
    simp
  · simp at h

theorem stripPrefix_isSome_iff (p base : Bytes) :
    (stripPrefix p base).isSome = startsWith p base := by
  unfold stripPrefix startsWith
  split <;> simp_all

/-! ### clean paths: `render` of real names -/

theorem components_render {np : NPath} (h : ∀ n ∈ np.names, RealName n) :
    components (render np) = (if np.root then [Comp.root] else []) ++ np.names.map Comp.normal := by
  obtain ⟨root, names⟩ := np
  replace h : ∀ n ∈ names, RealName n := h
  have hfm : names.filterMap segComp = names.map Comp.normal := by
    induction names with
    | nil => rfl
    | cons a t ih =>
      rw [List.filterMap_cons, segComp_real (h a (by simp))]
      simp only [List.map_cons]
      rw [ih fun n hn => h n (List.mem_cons_of_mem _ hn)]
  cases root with
  | true =>
    simp only [render, if_true, List.cons_append, List.nil_append]
    rw [components_eq]
    have hr : hasRoot (47 :: join names) = true := by simp [hasRoot]
    rw [hr]
    simp only [if_true]
    have : split (47 :: join names) = [] :: split (join names) := by rw [split]; simp
    rw [this]
    cases names with
    | nil => simp [join, split, segComp]
    | cons a t =>
      rw [split_join (by simp) (fun s hs => (h s hs).2.1)]
      simp [segComp, hfm]
  | false =>
    simp only [render, Bool.false_eq_true, if_false, List.nil_append]
    rw [components_join (fun s hs => (h s hs).2.1) (fun s t e => isSkip_real (h s (by rw [e]; simp))), hfm]

theorem normGo_normals (st : NPath) (ns : List Bytes) :
    normGo st (ns.map Comp.normal) = some { st with names := st.names ++ ns } := by
  induction ns generalizing st with
  | nil => simp [normGo]
  | cons a t ih => simp only [List.map_cons, normGo]; rw [ih]; simp

/-- a clean path normalises to itself -/
theorem normalizeN_render {np : NPath} (h : ∀ n ∈ np.names, RealName n) :
    normalizeN (render np) = some np := by
  unfold normalizeN normalizeC
  rw [components_render h]
  obtain ⟨root, names⟩ := np
  cases root <;> simp [normGo, normGo_normals]

theorem normalizePath_render {np : NPath} (h : ∀ n ∈ np.names, RealName n) :
    normalizePath (render np) = some (render np) := by
  unfold normalizePath; rw [normalizeN_render h]; rfl

theorem render_injective {a b : NPath} (ha : ∀ n ∈ a.names, RealName n)
    (hb : ∀ n ∈ b.names, RealName n) (h : render a = render b) : a = b := by
  have := normalizeN_render ha
  rw [h, normalizeN_render hb] at this
  exact (Option.some.inj this).symm

/-- normalising a relative, root-free continuation on top of an existing stack -/
theorem normGo_on_stack {cs : List Comp} (hroot : Comp.root ∉ cs) {r0 : Bool} {a b : List Bytes}
    {r0' : Bool} (h : normGo ⟨r0, a⟩ cs = some ⟨r0', b⟩) (r : Bool) (st : List Bytes) :
    normGo ⟨r, st ++ a⟩ cs = some ⟨r, st ++ b⟩ := by
  induction cs generalizing a with
  | nil => simp [normGo] at h ⊢; exact h.2
  | cons c cs ih =>
    have hroot' : Comp.root ∉ cs := fun hm => hroot (List.mem_cons_of_mem _ hm)
    cases c with
    | root => exact absurd (by simp) hroot
    | cur => simp only [normGo] at h ⊢; exact ih hroot' h
    | parent =>
      simp only [normGo] at h ⊢
      by_cases ha : a = []
      · simp [ha] at h
      · simp only [ha, if_false] at h
        have : st ++ a ≠ [] := by simp [ha]
        simp only [this, if_false]
        rw [List.dropLast_append_of_ne_nil ha]
        exact ih hroot' h
    | normal n =>
      simp only [normGo] at h ⊢
      rw [List.append_assoc]
      exact ih hroot' h


theorem trimL_reals {l : List Bytes} (h : ∀ n ∈ l, RealName n) : trimL l = l := by
  cases l with
  | nil => rfl
  | cons a t => simp [trimL, isSkip_real (h a (by simp))]

theorem hasRoot_render_true (names : List Bytes) : hasRoot (render ⟨true, names⟩) = true := by
  simp [render, hasRoot]

/-- the exact bytes `strip_prefix` leaves when a clean directory is stripped from a clean path
below it -/
theorem stripPrefix_render {sn names : List Bytes} (hsn : ∀ n ∈ sn, RealName n)
    (hn : ∀ n ∈ names, RealName n) :
    stripPrefix (render ⟨true, sn ++ names⟩) (render ⟨true, sn⟩) = some (join names) := by
  have hall : ∀ n ∈ sn ++ names, RealName n := by
    intro n h; rcases List.mem_append.1 h with h | h
    · exact hsn n h
    · exact hn n h
  unfold stripPrefix
  rw [components_render (np := ⟨true, sn ++ names⟩) hall, components_render (np := ⟨true, sn⟩) hsn]
  have hp : isPrefixOfC ((if (⟨true, sn⟩ : NPath).root then [Comp.root] else []) ++ List.map Comp.normal sn)
      ((if (⟨true, sn ++ names⟩ : NPath).root then [Comp.root] else []) ++ List.map Comp.normal (sn ++ names)) = true := by
    rw [isPrefixOfC_iff]; exact ⟨names.map Comp.normal, by simp⟩
  rw [if_pos hp]
  congr 1
  unfold remainder
  have hk : ((if (⟨true, sn⟩ : NPath).root then [Comp.root] else []) ++ List.map Comp.normal sn).length
      = sn.length + 1 := by simp
  rw [hk, if_neg (by omega), hasRoot_render_true]
  simp only [Bool.true_or, if_true, Nat.add_sub_cancel]
  have hsplit : split (render ⟨true, sn ++ names⟩)
      = [] :: (if sn ++ names = [] then [[]] else sn ++ names) := by
    simp only [render, if_true, List.cons_append, List.nil_append]
    rw [split]; simp only [if_true]
    split
    · rename_i h; rw [h]; simp [join, split]
    · rename_i h; rw [split_join h (fun s hs => (hall s hs).2.1)]
  rw [hsplit]
  have : trimL (dropComps sn.length ([] :: (if sn ++ names = [] then [[]] else sn ++ names))) = names := by
    cases sn with
    | nil =>
      simp only [List.length_nil, dropComps, List.nil_append]
      cases names with
      | nil => simp [trimL, isSkip]
      | cons a t =>
        simp only [List.cons_ne_nil, if_false]
        have := trimL_reals hn
        simp only [trimL, List.dropWhile_cons] at this ⊢
        simpa [isSkip] using this
    | cons a t =>
      have hne : (a :: t) ++ names ≠ [] := by simp
      rw [if_neg hne]
      simp only [List.length_cons, dropComps, isSkip]
      simp only [decide_true, Bool.true_or, if_true]
      have := dropComps_reals hsn names
      simp only [List.length_cons] at this
      rw [this]
      exact trimL_reals hn
  rw [this, trimR_all_real hn]

theorem join_eq_render (names : List Bytes) : join names = render ⟨false, names⟩ := by
  simp [render]

theorem join_injective {a b : List Bytes} (ha : ∀ n ∈ a, RealName n) (hb : ∀ n ∈ b, RealName n)
    (h : join a = join b) : a = b := by
  rw [join_eq_render, join_eq_render] at h
  have := render_injective (a := ⟨false, a⟩) (b := ⟨false, b⟩) ha hb h
  exact (NPath.mk.inj this).2

theorem bsl_id {p : Bytes} (h : 92 ∉ p) : bsl p = p := by
  induction p with
  | nil => rfl
  | cons b t ih =>
    simp at h
    simp only [bsl, List.map_cons]
    rw [if_neg (fun e => h.1 e.symm)]
    have := ih h.2
    simp only [bsl] at this
    rw [this]

theorem noBackslash_render {np : NPath} (h : ∀ n ∈ np.names, 92 ∉ n) : 92 ∉ render np := by
  intro hm
  unfold render at hm
  rcases List.mem_append.1 hm with hm | hm
  · split at hm <;> simp at hm
  · rcases mem_join hm with e | ⟨s, hs, hb⟩
    · simp at e
    · exact h s hs hb

end Grcov.UPath
