/-
C14 for the gcno/gcda reader: the layers put together (`computeBytes` = `Gcno::compute` on bytes).
-/
import GrcovModel.Lemmas.GcnoSafeJohnson
import GrcovModel.Lemmas.GcnoSafeTrunc
namespace Grcov.Gcno
open Outcome

/-- `Gcno::compute` up to and including `stop` (everything before `finalize`) -/
def readAndStop (gcno : List Nat) (gcdas : List (List Nat)) : Outcome (List (Func × Cnt)) :=
  (readGcno gcno).bind fun (version, checksum, recs) =>
  (build version checksum recs).bind fun g =>
  (Outcome.foldl (addGcdaBytes g) State.zero gcdas).bind fun st => stop g st

theorem Outcome.bind_assoc {α β γ : Type} (x : Outcome α) (f : α → Outcome β) (g : β → Outcome γ) :
    (x.bind f).bind g = x.bind fun a => (f a).bind g := by
  cases x <;> rfl

theorem computeBytes_eq (gcno : List Nat) (gcdas : List (List Nat)) (branch : Bool) :
    computeBytes gcno gcdas branch = (readAndStop gcno gcdas).bind (finalize branch) := by
  unfold computeBytes readAndStop
  simp only [Outcome.bind_assoc]

/-- reading the notes and building the shape: never a crash, never out of fuel, and the shape is
well-formed -/
theorem readBuild_sat (gcno : List Nat) :
    Sat NoSite False ((readGcno gcno).bind fun (x : Nat × Nat × List NRec) => build x.1 x.2.1 x.2.2)
      Notes.WF := by
  apply Sat.bind
  exact (readGcno_sat gcno).mono fun ⟨v, c, recs⟩ h => build_sat v c h

theorem foldl_addGcdaBytes_sat {g : Notes} (hg : g.WF) (st : State) (gcdas : List (List Nat)) :
    Sat OvOnly False (Outcome.foldl (addGcdaBytes g) st gcdas) fun _ => True :=
  Sat.foldl (Inv := fun _ => True) _ _ trivial fun st bs _ _ => addGcdaBytes_sat hg st bs

/-- everything before `finalize`, on any bytes: error, result, or the overflow crash; never out
of fuel; the functions handed to `finalize` are well-formed -/
theorem readAndStop_sat (gcno : List Nat) (gcdas : List (List Nat)) :
    Sat OvOnly False (readAndStop gcno gcdas) fun fs => ∀ fc ∈ fs, fc.1.WF := by
  unfold readAndStop
  apply Sat.bind
  refine ((readGcno_sat gcno).weaken (C' := OvOnly) (fun _ h => h.elim) id).mono
    fun ⟨v, c, recs⟩ h => ?_
  apply Sat.bind
  refine ((build_sat v c h).weaken (C' := OvOnly) (fun _ h => h.elim) id).mono fun g hg => ?_
  apply Sat.bind
  exact (foldl_addGcdaBytes_sat hg _ gcdas).mono fun st _ => stop_sat hg st

/-- **`Gcno::compute` on any bytes**: a value, an error, or the overflow crash (known finding);
never another crash, never out of fuel -/
theorem computeBytes_sat (gcno : List Nat) (gcdas : List (List Nat)) (branch : Bool) :
    Sat OvOnly False (computeBytes gcno gcdas branch) fun _ => True := by
  rw [computeBytes_eq]
  apply Sat.bind
  exact (readAndStop_sat gcno gcdas).mono fun fs hfs => finalize_ov branch hfs

end Grcov.Gcno
