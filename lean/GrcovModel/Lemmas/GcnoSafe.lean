/-
C14 for the gcno/gcda reader, record layer up to `read_gcda`: a Hoare-style predicate on outcomes
(`Outcome.Sat`), the byte readers never crash, `build` never crashes and produces a well-formed
shape (`Notes.WF`: arc endpoints are block numbers, adjacency lists hold arc ids), and on a
well-formed shape `addGcda` crashes only by u64 overflow.
-/
import GrcovModel.Lemmas.GcnoSafeBytes
import GrcovModel.Lemmas.GcnoFlow
namespace Grcov.Gcno
open Outcome

namespace Outcome
variable {α β σ : Type} {C : Site → Prop} {D : Prop}

/-- `Sat C D o Q`: the outcome `o` is an error value, or a result satisfying `Q`; it is a crash
only at a site allowed by `C`, and it runs out of fuel only if `D`. -/
def Sat (C : Site → Prop) (D : Prop) (o : Outcome α) (Q : α → Prop) : Prop :=
  match o with
  | ok a => Q a
  | err _ => True
  | crash s => C s
  | diverge => D

@[simp] theorem sat_ok {a : α} {Q : α → Prop} : Sat C D (ok a) Q ↔ Q a := Iff.rfl
@[simp] theorem sat_err {k : ErrKind} {Q : α → Prop} : Sat C D (err k) Q ↔ True := Iff.rfl
@[simp] theorem sat_crash {s : Site} {Q : α → Prop} : Sat C D (crash s) Q ↔ C s := Iff.rfl
@[simp] theorem sat_diverge {Q : α → Prop} : Sat C D (diverge : Outcome α) Q ↔ D := Iff.rfl

theorem Sat.bind {x : Outcome α} {f : α → Outcome β} {Q : β → Prop}
    (h : Sat C D x fun a => Sat C D (f a) Q) : Sat C D (x.bind f) Q := by
  cases x <;> simp at h ⊢ <;> exact h

theorem Sat.mono {o : Outcome α} {Q Q' : α → Prop} (h : Sat C D o Q) (hq : ∀ a, Q a → Q' a) :
    Sat C D o Q' := by
  cases o with
  | ok a => exact hq a h
  | err k => trivial
  | crash s => exact h
  | diverge => exact h

theorem Sat.weaken {C' : Site → Prop} {D' : Prop} {o : Outcome α} {Q : α → Prop} (h : Sat C D o Q)
    (hc : ∀ s, C s → C' s) (hd : D → D') : Sat C' D' o Q := by
  cases o with
  | ok a => exact h
  | err k => trivial
  | crash s => exact hc s h
  | diverge => exact hd h

theorem Sat.and {o : Outcome α} {Q Q' : α → Prop} (h : Sat C D o Q) (h' : Sat C D o Q') :
    Sat C D o fun a => Q a ∧ Q' a := by
  cases o with
  | ok a => exact ⟨h, h'⟩
  | err k => trivial
  | crash s => exact h
  | diverge => exact h

theorem Sat.of_ok {o : Outcome α} {Q : α → Prop} (h : Sat C D o Q) {a : α} (e : o = ok a) : Q a := by
  subst e; exact h

/-- strengthen the postcondition with what is known when the outcome is `ok` -/
theorem Sat.with_eq {o : Outcome α} {Q : α → Prop} (h : Sat C D o Q) :
    Sat C D o fun a => o = ok a ∧ Q a := by
  cases o with
  | ok a => exact ⟨rfl, h⟩
  | err k => trivial
  | crash s => exact h
  | diverge => exact h

theorem Sat.foldl {step : σ → α → Outcome σ} {Inv : σ → Prop} : ∀ (l : List α) (s : σ), Inv s →
    (∀ s a, a ∈ l → Inv s → Sat C D (step s a) Inv) → Sat C D (foldl step s l) Inv := by
  intro l
  induction l with
  | nil => intro s hs _; exact hs
  | cons a l ih =>
    intro s hs hstep
    rw [foldl_cons]
    apply Sat.bind
    exact (hstep s a (by simp) hs).mono fun s' hs' =>
      ih s' hs' fun s a ha hs => hstep s a (List.mem_cons_of_mem _ ha) hs

/-- no crash site at all -/
abbrev NoSite : Site → Prop := fun _ => False
/-- only the known finding: a u64 sum overflows -/
abbrev OvOnly : Site → Prop := fun s => s = .overflow

theorem sat_iff_ne {o : Outcome α} :
    Sat NoSite False o (fun _ => True) ↔ (∀ s, o ≠ crash s) ∧ o ≠ diverge := by
  cases o <;> simp [Sat]

theorem Sat.ne_crash {o : Outcome α} {Q : α → Prop} (h : Sat C D o Q) {s : Site} (hs : ¬ C s) :
    o ≠ crash s := by
  intro e; subst e; exact hs h

theorem Sat.ne_diverge {o : Outcome α} {Q : α → Prop} (h : Sat C False o Q) : o ≠ diverge := by
  intro e; subst e; exact h

end Outcome

/-! ## the byte readers never crash -/

def PR.NoCrash {α : Type} (x : PR α) : Prop := ∀ s, x ≠ .crash s

theorem PR.NoCrash.bind {α β : Type} {x : PR α} {f : α → List Nat → PR β} (hx : x.NoCrash)
    (hf : ∀ a r, (f a r).NoCrash) : (x.bind f).NoCrash := by
  intro s
  cases x with
  | ok a r => exact hf a r s
  | short => simp [PR.bind]
  | crash s' => exact absurd rfl (hx s')

theorem readU32_noCrash (le : Bool) (bs : List Nat) : (readU32 le bs).NoCrash :=
  fun s => readU32_ne_crash le bs s
theorem readString_noCrash (le : Bool) (bs : List Nat) : (readString le bs).NoCrash :=
  fun s => readString_ne_crash le bs s
theorem PR.ok_noCrash {α : Type} (a : α) (r : List Nat) : (PR.ok a r).NoCrash := fun s => by simp

theorem parseFunc_noCrash (le : Bool) (version : Nat) (bs : List Nat) :
    (parseFunc le version bs).NoCrash := by
  unfold parseFunc
  refine PR.NoCrash.bind (readU32_noCrash _ _) fun ident r1 => ?_
  refine PR.NoCrash.bind (readU32_noCrash _ _) fun lsum r2 => ?_
  refine PR.NoCrash.bind (by split; exact readU32_noCrash _ _; exact PR.ok_noCrash _ _) fun csum r3 => ?_
  refine PR.NoCrash.bind (readString_noCrash _ _) fun name r4 => ?_
  split
  · refine PR.NoCrash.bind (readString_noCrash _ _) fun file r5 => ?_
    refine PR.NoCrash.bind (readU32_noCrash _ _) fun start r6 => ?_
    exact PR.ok_noCrash _ _
  · refine PR.NoCrash.bind (readU32_noCrash _ _) fun _ r5 => ?_
    refine PR.NoCrash.bind (readString_noCrash _ _) fun file r6 => ?_
    refine PR.NoCrash.bind (readU32_noCrash _ _) fun start r7 => ?_
    refine PR.NoCrash.bind (readU32_noCrash _ _) fun _ r8 => ?_
    refine PR.NoCrash.bind (readU32_noCrash _ _) fun en r9 => ?_
    split
    · refine PR.NoCrash.bind (readU32_noCrash _ _) fun _ r10 => ?_
      exact PR.ok_noCrash _ _
    · exact PR.ok_noCrash _ _

theorem parseItems_site (le : Bool) : ∀ (fuel : Nat) (bs : List Nat) (acc : List LineItem),
    (parseItems le fuel bs acc).2.2 = none := by
  intro fuel
  induction fuel with
  | zero => intro bs acc; rfl
  | succ fuel ih =>
    intro bs acc
    simp only [parseItems]
    split
    · split
      · exact ih _ _
      · split
        · split
          · rfl
          · exact ih _ _
        · rfl
        · rename_i s h; exact absurd h (readString_ne_crash _ _ _)
    · rfl

def NRec.notCrash : NRec → Prop
  | .crash _ => False
  | _ => True

def DRec.notCrash : DRec → Prop
  | .crash _ => False
  | _ => True

@[simp] theorem NRec.notCrash_func {a b c : Nat} {d e : Bytes} {f g : Nat} :
    (NRec.func a b c d e f g).notCrash := trivial
@[simp] theorem NRec.notCrash_blocks {n : Nat} : (NRec.blocks n).notCrash := trivial
@[simp] theorem NRec.notCrash_arcs {n : Nat} {l : List (Nat × Nat)} : (NRec.arcs n l).notCrash := trivial
@[simp] theorem NRec.notCrash_lines {n : Nat} {l : List LineItem} : (NRec.lines n l).notCrash := trivial
@[simp] theorem NRec.notCrash_short : NRec.short.notCrash := trivial
@[simp] theorem NRec.notCrash_fail {k : ErrKind} : (NRec.fail k).notCrash := trivial
@[simp] theorem NRec.notCrash_crash {s : Site} : (NRec.crash s).notCrash ↔ False := Iff.rfl
@[simp] theorem DRec.notCrash_func {a b c d : Nat} : (DRec.func a b c d).notCrash := trivial
@[simp] theorem DRec.notCrash_arcs {n : Nat} {l : List Nat} : (DRec.arcs n l).notCrash := trivial
@[simp] theorem DRec.notCrash_other : DRec.other.notCrash := trivial
@[simp] theorem DRec.notCrash_fail {k : ErrKind} : (DRec.fail k).notCrash := trivial
@[simp] theorem DRec.notCrash_crash {s : Site} : (DRec.crash s).notCrash ↔ False := Iff.rfl

/-- what a successful read returns -/
def PR.All {α : Type} (Q : α → Prop) (x : PR α) : Prop := ∀ a r, x = .ok a r → Q a

theorem PR.All.bind {α β : Type} {Q : β → Prop} {x : PR α} {f : α → List Nat → PR β}
    (hf : ∀ a r, PR.All Q (f a r)) : PR.All Q (x.bind f) := by
  intro b r h
  cases x with
  | ok a r1 => exact hf a r1 b r h
  | short => simp [PR.bind] at h
  | crash s => simp [PR.bind] at h

theorem PR.All.ok {α : Type} {Q : α → Prop} {a : α} {r : List Nat} (h : Q a) : PR.All Q (.ok a r) := by
  intro b r' e
  simp only [PR.ok.injEq] at e
  exact e.1 ▸ h

theorem parseFunc_rec (le : Bool) (version : Nat) (bs : List Nat) :
    PR.All NRec.notCrash (parseFunc le version bs) := by
  unfold parseFunc
  refine PR.All.bind fun ident r1 => ?_
  refine PR.All.bind fun lsum r2 => ?_
  refine PR.All.bind fun csum r3 => ?_
  refine PR.All.bind fun name r4 => ?_
  split
  · refine PR.All.bind fun file r5 => ?_
    refine PR.All.bind fun start r6 => ?_
    exact PR.All.ok trivial
  · refine PR.All.bind fun _ r5 => ?_
    refine PR.All.bind fun file r6 => ?_
    refine PR.All.bind fun start r7 => ?_
    refine PR.All.bind fun _ r8 => ?_
    refine PR.All.bind fun en r9 => ?_
    split
    · refine PR.All.bind fun _ r10 => ?_
      exact PR.All.ok trivial
    · exact PR.All.ok trivial

/-- the record stream of a gcno never holds a crash marker -/
theorem parseRecs_notCrash (le : Bool) (version blen : Nat) (fuel total : Nat) (hf : Bool)
    (bs : List Nat) : ∀ r ∈ parseRecs le version blen fuel total hf bs, r.notCrash := by
  fun_induction parseRecs le version blen fuel total hf bs <;> simp_all
  · exact parseFunc_rec _ _ _ _ _ ‹_›
  · exact absurd ‹parseFunc _ _ _ = PR.crash _› (parseFunc_noCrash _ _ _ _)
  · have h := ‹parseItems le _ _ [] = _›
    have h2 := congrArg (fun x : List LineItem × Option (List Nat) × Option Site => x.2.2) h
    simp [parseItems_site] at h2

theorem finish_notCrash {P : Bool → List Nat → List DRec} (hP : ∀ hf r x, x ∈ P hf r → x.notCrash)
    (len c : Nat) (rec : List DRec) (hf : Bool) (r : List Nat) (hrec : ∀ x ∈ rec, x.notCrash) :
    ∀ x ∈ (if 4 * len < c then rec ++ [DRec.fail .recordLen]
       else match skipN (4 * len - c) r with
         | .ok _ r' => rec ++ P hf r'
         | _ => rec ++ [.fail .short]), x.notCrash := by
  intro x hx
  split at hx
  · rcases List.mem_append.1 hx with h | h
    · exact hrec x h
    · simp at h; subst h; trivial
  · split at hx
    · rcases List.mem_append.1 hx with h | h
      · exact hrec x h
      · exact hP _ _ _ h
    · rcases List.mem_append.1 hx with h | h
      · exact hrec x h
      · simp at h; subst h; trivial

/-- the record stream of a gcda never holds a crash marker -/
theorem parseDRecs_notCrash (le : Bool) (version : Nat) (fuel : Nat) (hf : Bool) (bs : List Nat) :
    ∀ r ∈ parseDRecs le version fuel hf bs, r.notCrash := by
  fun_induction parseDRecs le version fuel hf bs <;> simp_all
  all_goals
    rename_i ih
    exact finish_notCrash (P := parseDRecs le version _)
      (fun hf r x hx => by cases hf; exact ih.1 r x hx; exact ih.2 r x hx) _ _ _ _ _ (by simp)

end Grcov.Gcno
