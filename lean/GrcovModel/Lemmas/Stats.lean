/-
Helper lemmas and specification vocabulary for C13 (summary figures). Core Lean only.
-/
import GrcovModel.Stats
namespace Grcov.Stats
open Grcov AList

/-! ## counts -/

theorem countPos_le (ls : List (Nat × Nat)) : countPos ls ≤ ls.length := List.countP_le_length

theorem countZero_add_countPos (ls : List (Nat × Nat)) : countZero ls + countPos ls = ls.length := by
  induction ls with
  | nil => rfl
  | cons kv ls ih =>
    have hz : countZero (kv :: ls) = countZero ls + (if kv.2 = 0 then 1 else 0) := by
      simp [countZero, List.countP_cons]
    have hp : countPos (kv :: ls) = countPos ls + (if 0 < kv.2 then 1 else 0) := by
      simp [countPos, List.countP_cons]
    rw [hz, hp, List.length_cons]
    by_cases h : kv.2 = 0
    · simp [h]; omega
    · have : 0 < kv.2 := by omega
      simp [h, this]; omega

theorem fnExecuted_le (fs : List (Name × Fn)) : fnExecuted fs ≤ fs.length := List.countP_le_length

theorem brTaken_le (bs : List (Nat × List Bool)) : brTaken bs ≤ brTotal bs := by
  induction bs with
  | nil => simp [brTaken, brTotal]
  | cons lv bs ih =>
    have : lv.2.countP id ≤ lv.2.length := List.countP_le_length
    simp only [brTaken, brTotal, List.map_cons, List.sum_cons] at *
    omega

/-! ## lcov -/

theorem foldl_hit (v : List Bool) (h0 : Nat) :
    v.foldl (fun h t => if t then h + 1 else h) h0 = h0 + v.countP id := by
  induction v generalizing h0 with
  | nil => simp
  | cons t v ih => cases t <;> simp [ih] <;> omega

theorem lcovBranchLoop_from (bs : List (Nat × List Bool)) (a b : Nat) :
    bs.foldl (fun acc lv =>
      (acc.1 + lv.2.length, lv.2.foldl (fun h t => if t then h + 1 else h) acc.2)) (a, b)
      = (a + brTotal bs, b + brTaken bs) := by
  induction bs generalizing a b with
  | nil => simp [brTotal, brTaken]
  | cons lv bs ih =>
    rw [List.foldl_cons, ih, foldl_hit]
    simp [brTotal, brTaken, Nat.add_assoc]

theorem lcovBranchLoop_eq (bs : List (Nat × List Bool)) :
    lcovBranchLoop bs = (brTotal bs, brTaken bs) := by
  unfold lcovBranchLoop; rw [lcovBranchLoop_from]; simp

theorem lcovBrda_length (bs : List (Nat × List Bool)) : (lcovBrda bs).length = brTotal bs := by
  induction bs with
  | nil => rfl
  | cons lv bs ih => simp [lcovBrda, brTotal, List.flatMap_cons] at *

theorem countP_zipIdx_fst (v : List Bool) (k : Nat) :
    (v.zipIdx k).countP (fun tn => tn.1) = v.countP id := by
  induction v generalizing k with
  | nil => rfl
  | cons t v ih => simp [List.zipIdx_cons, List.countP_cons, ih]

theorem lcovBrda_taken (bs : List (Nat × List Bool)) :
    (lcovBrda bs).countP (fun r => r.2.2) = brTaken bs := by
  induction bs with
  | nil => rfl
  | cons lv bs ih =>
    simp only [lcovBrda, brTaken, List.flatMap_cons, List.countP_append, List.countP_map,
      List.map_cons, List.sum_cons] at *
    rw [ih]
    congr 1
    exact countP_zipIdx_fst lv.2 0

/-! ## covdir -/

@[simp] theorem CDStats.add_total (a b : CDStats) : (a.add b).total = a.total + b.total := rfl
@[simp] theorem CDStats.add_covered (a b : CDStats) : (a.add b).covered = a.covered + b.covered := rfl
@[simp] theorem CDStats.add_missed (a b : CDStats) : (a.add b).missed = a.missed + b.missed := rfl
@[simp] theorem CDStats.zero_total : CDStats.zero.total = 0 := rfl
@[simp] theorem CDStats.zero_covered : CDStats.zero.covered = 0 := rfl
@[simp] theorem CDStats.zero_missed : CDStats.zero.missed = 0 := rfl

theorem CDStats.add_assoc (a b c : CDStats) : (a.add b).add c = a.add (b.add c) := by
  ext <;> simp [Nat.add_assoc]
theorem CDStats.add_comm (a b : CDStats) : a.add b = b.add a := by
  ext <;> simp [Nat.add_comm]
@[simp] theorem CDStats.zero_add (a : CDStats) : CDStats.zero.add a = a := by ext <;> simp
@[simp] theorem CDStats.add_zero (a : CDStats) : a.add CDStats.zero = a := by ext <;> simp

instance : Std.Associative CDStats.add := ⟨CDStats.add_assoc⟩
instance : Std.Commutative CDStats.add := ⟨CDStats.add_comm⟩

/-- sum of a list of figures -/
def sumCD (xs : List CDStats) : CDStats := xs.foldr CDStats.add .zero

@[simp] theorem sumCD_nil : sumCD [] = .zero := rfl
@[simp] theorem sumCD_cons (x xs) : sumCD (x :: xs) = x.add (sumCD xs) := rfl
theorem sumCD_append (xs ys : List CDStats) : sumCD (xs ++ ys) = (sumCD xs).add (sumCD ys) := by
  induction xs with
  | nil => simp
  | cons x xs ih => simp [ih, CDStats.add_assoc]

/-- the figures of the files of one directory -/
def filesSum (fs : List CDFile) : CDStats := sumCD (fs.map (·.stats))

theorem foldl_add_eq (xs : List CDStats) (a : CDStats) :
    xs.foldl CDStats.add a = a.add (sumCD xs) := by
  induction xs generalizing a with
  | nil => simp
  | cons x xs ih => simp [ih, CDStats.add_assoc]

theorem addFiles_eq (st : CDStats) (fs : List CDFile) : addFiles st fs = st.add (filesSum fs) := by
  unfold addFiles filesSum
  induction fs generalizing st with
  | nil => simp
  | cons f fs ih => simp [ih, CDStats.add_assoc]

/-- consistent figures: covered ≤ total and covered + missed = total -/
def CDStats.OK (s : CDStats) : Prop := s.covered ≤ s.total ∧ s.covered + s.missed = s.total

theorem CDStats.OK_zero : CDStats.zero.OK := by simp [CDStats.OK]
theorem CDStats.OK_add {a b : CDStats} (ha : a.OK) (hb : b.OK) : (a.add b).OK := by
  unfold CDStats.OK at *; simp; omega

theorem sumCD_OK {xs : List CDStats} (h : ∀ x ∈ xs, x.OK) : (sumCD xs).OK := by
  induction xs with
  | nil => exact CDStats.OK_zero
  | cons x xs ih =>
    exact CDStats.OK_add (h x (by simp)) (ih fun y hy => h y (List.mem_cons_of_mem _ hy))

/-! maxKey -/
theorem foldl_max_ge {α} (ls : List (Nat × α)) (m : Nat) :
    m ≤ ls.foldl (fun m kv => max m kv.1) m ∧ ∀ kv ∈ ls, kv.1 ≤ ls.foldl (fun m kv => max m kv.1) m := by
  induction ls generalizing m with
  | nil => simp
  | cons x ls ih =>
    have h := ih (max m x.1)
    refine ⟨by simp only [List.foldl_cons]; omega, ?_⟩
    intro kv hkv
    simp only [List.mem_cons] at hkv
    simp only [List.foldl_cons]
    rcases hkv with rfl | hkv
    · omega
    · exact h.2 kv hkv

theorem le_maxKey {α} (ls : List (Nat × α)) : ∀ kv ∈ ls, kv.1 ≤ maxKey ls := (foldl_max_ge ls 0).2

theorem cdCovered_from (lines : List (Nat × Nat)) (last c0 : Nat)
    (h : ∀ kv ∈ lines, kv.1 - 1 < last) :
    lines.foldl (fun c kv => if kv.1 - 1 < last then (if 0 < kv.2 then c + 1 else c) else c) c0
      = c0 + countPos lines := by
  induction lines generalizing c0 with
  | nil => simp [countPos]
  | cons kv ls ih =>
    have h1 := h kv (by simp)
    rw [List.foldl_cons, ih _ fun x hx => h x (List.mem_cons_of_mem _ hx)]
    simp only [h1, if_true, countPos, List.countP_cons]
    by_cases hp : 0 < kv.2 <;> simp [hp] <;> omega

/-- without line 0, every line has a slot in the `coverage` array -/
theorem cdGetCoverage_covered (lines : List (Nat × Nat)) (h1 : ∀ kv ∈ lines, 1 ≤ kv.1) :
    (cdGetCoverage lines).2.1 = countPos lines := by
  unfold cdGetCoverage
  simp only
  rw [cdCovered_from]
  · simp
  · intro kv hkv
    have := le_maxKey lines kv hkv
    have := h1 kv hkv
    omega

theorem cdFileNew_stats (name : Name) (lines : List (Nat × Nat)) (h1 : ∀ kv ∈ lines, 1 ≤ kv.1) :
    (cdFileNew name lines).stats
      = ⟨lines.length, countPos lines, lines.length - countPos lines⟩ := by
  have := cdGetCoverage_covered lines h1
  unfold cdFileNew cdStatsNew
  simp only [this]
  rfl

theorem cdFileNew_OK (name : Name) (lines : List (Nat × Nat)) (h1 : ∀ kv ∈ lines, 1 ≤ kv.1) :
    (cdFileNew name lines).stats.OK := by
  rw [cdFileNew_stats name lines h1]
  have := countPos_le lines
  simp [CDStats.OK]; omega

/-! the `coverage` array lists exactly the instrumented lines -/

theorem get?_isSome_iff_mem_keys {α} (m : List (Nat × α)) (x : Nat) :
    (get? m x).isSome = true ↔ x ∈ keys m := get?_isSome_iff m x

/-- a duplicate-free list of numbers in `[1, n]` has as many elements as there are `i < n` with
`i + 1` in it -/
theorem countP_range_mem (ks : List Nat) (n : Nat) (hnd : ks.Nodup)
    (hr : ∀ k ∈ ks, 1 ≤ k ∧ k ≤ n) :
    (List.range n).countP (fun i => decide (i + 1 ∈ ks)) = ks.length := by
  rw [List.countP_eq_length_filter]
  have hperm : (((List.range n).filter fun i => decide (i + 1 ∈ ks)).map (· + 1)).Perm ks := by
    apply (List.perm_ext_iff_of_nodup ?_ hnd).2
    · intro a
      simp only [List.mem_map, List.mem_filter, List.mem_range, decide_eq_true_eq]
      constructor
      · rintro ⟨i, ⟨_, hi⟩, rfl⟩; exact hi
      · intro ha
        have := hr a ha
        exact ⟨a - 1, ⟨by omega, by rw [Nat.sub_add_cancel this.1]; exact ha⟩, by omega⟩
    · have hf : ((List.range n).filter fun i => decide (i + 1 ∈ ks)).Nodup :=
        List.Nodup.sublist List.filter_sublist List.nodup_range
      unfold List.Nodup at *
      rw [List.pairwise_map]
      exact List.Pairwise.imp (fun h => by omega) hf
  have := hperm.length_eq
  simpa using this

def slotHit : Option Nat → Bool
  | some n => decide (0 < n)
  | none => false

theorem cdCoverage_listed (lines : List (Nat × Nat)) (hnd : NodupKeys lines)
    (h1 : ∀ kv ∈ lines, 1 ≤ kv.1) :
    (cdGetCoverage lines).2.2.countP Option.isSome = lines.length := by
  unfold cdGetCoverage
  simp only [List.countP_map]
  have hk : (keys lines).length = lines.length := by simp [keys]
  rw [← hk, ← countP_range_mem (keys lines) (maxKey lines) hnd]
  · apply List.countP_congr
    intro i _
    simp only [Function.comp, decide_eq_true_eq]
    exact get?_isSome_iff lines (i + 1)
  · intro k hk
    simp only [keys, List.mem_map] at hk
    obtain ⟨kv, hkv, rfl⟩ := hk
    exact ⟨h1 kv hkv, le_maxKey lines kv hkv⟩

theorem cdCoverage_hit (lines : List (Nat × Nat)) (hnd : NodupKeys lines)
    (h1 : ∀ kv ∈ lines, 1 ≤ kv.1) :
    (cdGetCoverage lines).2.2.countP slotHit = countPos lines := by
  unfold cdGetCoverage
  simp only [List.countP_map]
  let pos := lines.filter fun kv => decide (0 < kv.2)
  have hsub : (keys pos).Sublist (keys lines) := List.Sublist.map _ List.filter_sublist
  have hk : (keys pos).length = countPos lines := by
    simp [keys, pos, countPos, List.countP_eq_length_filter]
  rw [← hk, ← countP_range_mem (keys pos) (maxKey lines) (List.Nodup.sublist hsub hnd)]
  · apply List.countP_congr
    intro i _
    simp only [Function.comp, decide_eq_true_eq]
    constructor
    · intro h
      cases hg : get? lines (i + 1) with
      | none => rw [hg] at h; simp [slotHit] at h
      | some n =>
        rw [hg] at h
        simp only [slotHit, decide_eq_true_eq] at h
        have hm := mem_of_get? hg
        simp only [keys, List.mem_map]
        exact ⟨(i + 1, n), List.mem_filter.2 ⟨hm, by simpa using h⟩, rfl⟩
    · intro h
      simp only [keys, List.mem_map] at h
      obtain ⟨kv, hkv, hk1⟩ := h
      obtain ⟨hm, hp⟩ := List.mem_filter.1 hkv
      obtain ⟨k, n⟩ := kv
      simp only at hk1; subst hk1
      rw [get?_of_mem hnd hm]
      simpa [slotHit] using hp
  · intro k hk
    have := hsub.subset hk
    simp only [keys, List.mem_map] at this
    obtain ⟨kv, hkv, rfl⟩ := this
    exact ⟨h1 kv hkv, le_maxKey lines kv hkv⟩

/-! ### the directory tree -/

/-- every file below the directories of one level -/
def Forest.allFiles : Forest → List CDFile
  | .nil => []
  | .dir _ _ fs sub next => fs ++ sub.allFiles ++ next.allFiles

/-- as built by `CDDirStats::new`: no figures yet -/
def Forest.Fresh : Forest → Prop
  | .nil => True
  | .dir _ st _ sub next => st = .zero ∧ sub.Fresh ∧ next.Fresh

/-- every directory's figures are the sum of its files' and its sub-directories' figures -/
def Forest.SumsOK : Forest → Prop
  | .nil => True
  | .dir _ st fs sub next => st = (filesSum fs).add sub.levelSum ∧ sub.SumsOK ∧ next.SumsOK

/-- a predicate on the figures of every directory and every file of the tree -/
def Forest.All (P : CDStats → Prop) : Forest → Prop
  | .nil => True
  | .dir _ st fs sub next => P st ∧ (∀ f ∈ fs, P f.stats) ∧ sub.All P ∧ next.All P

def Forest.FilesAll (P : CDStats → Prop) : Forest → Prop
  | .nil => True
  | .dir _ _ fs sub next => (∀ f ∈ fs, P f.stats) ∧ sub.FilesAll P ∧ next.FilesAll P

theorem filesSum_append (a b : List CDFile) : filesSum (a ++ b) = (filesSum a).add (filesSum b) := by
  simp [filesSum, sumCD_append]

theorem mkChain_fresh (d : Name) (rest : List Name) (f : CDFile) : (mkChain d rest f).Fresh := by
  induction rest generalizing d with
  | nil => simp [mkChain, Forest.Fresh]
  | cons d' rest ih => simp [mkChain, Forest.Fresh, ih]

theorem mkChain_allFiles (d : Name) (rest : List Name) (f : CDFile) :
    (mkChain d rest f).allFiles = [f] := by
  induction rest generalizing d with
  | nil => simp [mkChain, Forest.allFiles]
  | cons d' rest ih => simp [mkChain, Forest.allFiles, ih]

theorem mkChain_filesAll (P : CDStats → Prop) (d : Name) (rest : List Name) (f : CDFile)
    (hf : P f.stats) : (mkChain d rest f).FilesAll P := by
  induction rest generalizing d with
  | nil => simp [mkChain, Forest.FilesAll, hf]
  | cons d' rest ih => simp [mkChain, Forest.FilesAll, ih]

theorem insert_fresh (t : Forest) (d : Name) (rest : List Name) (f : CDFile) (h : t.Fresh) :
    (t.insert d rest f).Fresh := by
  induction t generalizing d rest with
  | nil => exact mkChain_fresh d rest f
  | dir n st fs sub next ihs ihn =>
    obtain ⟨h1, h2, h3⟩ := h
    unfold Forest.insert
    split
    · cases rest with
      | nil => exact ⟨h1, h2, h3⟩
      | cons d' rest' => exact ⟨h1, ihs d' rest' h2, h3⟩
    · exact ⟨h1, h2, ihn d rest h3⟩

theorem insert_filesAll (P : CDStats → Prop) (t : Forest) (d : Name) (rest : List Name)
    (f : CDFile) (hf : P f.stats) (h : t.FilesAll P) : (t.insert d rest f).FilesAll P := by
  induction t generalizing d rest with
  | nil => exact mkChain_filesAll P d rest f hf
  | dir n st fs sub next ihs ihn =>
    obtain ⟨h1, h2, h3⟩ := h
    unfold Forest.insert
    split
    · cases rest with
      | nil =>
        refine ⟨?_, h2, h3⟩
        intro g hg
        simp only [List.mem_append, List.mem_singleton] at hg
        rcases hg with hg | rfl
        · exact h1 g hg
        · exact hf
      | cons d' rest' => exact ⟨h1, ihs d' rest' h2, h3⟩
    · exact ⟨h1, h2, ihn d rest h3⟩

/-- inserting a file adds exactly its figures to the sum over all files -/
theorem insert_allFiles_sum (t : Forest) (d : Name) (rest : List Name) (f : CDFile) :
    filesSum (t.insert d rest f).allFiles = (filesSum t.allFiles).add f.stats := by
  induction t generalizing d rest with
  | nil => simp [Forest.insert, mkChain_allFiles, Forest.allFiles, filesSum]
  | dir n st fs sub next ihs ihn =>
    unfold Forest.insert
    split
    · cases rest with
      | nil =>
        simp only [Forest.allFiles, filesSum_append]
        have : filesSum [f] = f.stats := by simp [filesSum]
        rw [this]; ac_rfl
      | cons d' rest' =>
        simp only [Forest.allFiles, filesSum_append, ihs]
        ac_rfl
    · simp only [Forest.allFiles, filesSum_append, ihn]
      ac_rfl

/-- after `set_stats`, the figures of one level add up to the figures of all files below it -/
theorem setStats_levelSum (t : Forest) (h : t.Fresh) :
    t.setStats.levelSum = filesSum t.allFiles := by
  induction t with
  | nil => rfl
  | dir n st fs sub next ihs ihn =>
    obtain ⟨h1, h2, h3⟩ := h
    subst h1
    simp only [Forest.setStats, Forest.levelSum, Forest.allFiles, filesSum_append, addFiles_eq,
      ihs h2, ihn h3, CDStats.zero_add]

theorem setStats_sumsOK (t : Forest) (h : t.Fresh) : t.setStats.SumsOK := by
  induction t with
  | nil => trivial
  | dir n st fs sub next ihs ihn =>
    obtain ⟨h1, h2, h3⟩ := h
    subst h1
    exact ⟨by simp [addFiles_eq], ihs h2, ihn h3⟩

theorem filesSum_OK {fs : List CDFile} (h : ∀ f ∈ fs, f.stats.OK) : (filesSum fs).OK := by
  apply sumCD_OK
  intro x hx
  simp only [List.mem_map] at hx
  obtain ⟨f, hf, rfl⟩ := hx
  exact h f hf

theorem setStats_all_OK (t : Forest) (h : t.Fresh) (hf : t.FilesAll CDStats.OK) :
    t.setStats.All CDStats.OK ∧ t.setStats.levelSum.OK := by
  induction t with
  | nil => exact ⟨trivial, CDStats.OK_zero⟩
  | dir n st fs sub next ihs ihn =>
    obtain ⟨h1, h2, h3⟩ := h
    obtain ⟨f1, f2, f3⟩ := hf
    subst h1
    have hs := ihs h2 f2
    have hn := ihn h3 f3
    have hme : ((addFiles CDStats.zero fs).add sub.setStats.levelSum).OK := by
      rw [addFiles_eq, CDStats.zero_add]
      exact CDStats.OK_add (filesSum_OK f1) hs.2
    exact ⟨⟨hme, f1, hs.1, hn.1⟩, CDStats.OK_add hme hn.2⟩

/-- the file entry `output_covdir` creates for one result -/
def FileIn.cdFile (r : FileIn) : CDFile := cdFileNew (r.cdPath.getLastD []) r.cov.lines

/-- no line 0 anywhere (the writer returns) -/
def NoLineZero (rs : List FileIn) : Prop := ∀ r ∈ rs, ∀ kv ∈ r.cov.lines, 1 ≤ kv.1

structure BuildInv (root : CDRoot) (S : CDStats) : Prop where
  zero : root.stats = .zero
  fresh : root.sub.Fresh
  sum : (filesSum root.files).add (filesSum root.sub.allFiles) = S
  okFiles : ∀ f ∈ root.files, f.stats.OK
  okSub : root.sub.FilesAll CDStats.OK

theorem root_insert_inv (root : CDRoot) (S : CDStats) (dirs : List Name) (f : CDFile)
    (hf : f.stats.OK) (h : BuildInv root S) : BuildInv (root.insert dirs f) (S.add f.stats) := by
  obtain ⟨hz, hfr, hs, hok, hsub⟩ := h
  cases dirs with
  | nil =>
    refine ⟨hz, hfr, ?_, ?_, hsub⟩
    · simp only [CDRoot.insert, filesSum_append]
      have : filesSum [f] = f.stats := by simp [filesSum]
      rw [this, ← hs]; ac_rfl
    · intro g hg
      simp only [CDRoot.insert, List.mem_append, List.mem_singleton] at hg
      rcases hg with hg | rfl
      · exact hok g hg
      · exact hf
  | cons d rest =>
    refine ⟨hz, insert_fresh _ _ _ _ hfr, ?_, hok, insert_filesAll _ _ _ _ _ hf hsub⟩
    simp only [CDRoot.insert, insert_allFiles_sum]
    rw [← hs]; ac_rfl

theorem covdirBuild_from (rs : List FileIn) (h0 : NoLineZero rs) (acc : CDRoot) (S : CDStats)
    (h : BuildInv acc S) :
    BuildInv (rs.foldl (fun root r =>
      let p := r.cdPath
      root.insert p.dropLast (cdFileNew (p.getLastD []) r.cov.lines)) acc)
      (S.add (sumCD (rs.map fun r => r.cdFile.stats))) := by
  induction rs generalizing acc S with
  | nil => simpa using h
  | cons r rs ih =>
    have hr : ∀ kv ∈ r.cov.lines, 1 ≤ kv.1 := h0 r (by simp)
    have step := root_insert_inv acc S r.cdPath.dropLast r.cdFile (cdFileNew_OK _ _ hr) h
    have := ih (fun r' hr' => h0 r' (List.mem_cons_of_mem _ hr')) _ _ step
    simp only [List.foldl_cons, List.map_cons, sumCD_cons]
    rw [← CDStats.add_assoc]
    exact this

theorem covdirBuild_inv (rs : List FileIn) (h0 : NoLineZero rs) :
    BuildInv (covdirBuild rs) (sumCD (rs.map fun r => r.cdFile.stats)) := by
  have := covdirBuild_from rs h0 ⟨.zero, [], .nil⟩ .zero
    ⟨rfl, trivial, by simp [filesSum, Forest.allFiles], by simp, trivial⟩
  simpa [covdirBuild] using this

theorem covdir_ok {rs : List FileIn} {t : CDRoot} (h : covdir rs = .ok t) :
    t = covdirTree rs ∧ NoLineZero rs := by
  unfold covdir at h
  split at h
  · cases h
  · rename_i hn
    cases h
    refine ⟨rfl, ?_⟩
    intro r hr kv hkv
    simp only [List.any_eq_true, not_exists, not_and, beq_iff_eq] at hn
    have := hn r hr kv hkv
    omega

/-- the root's figures are the sum of its files and sub-directories; the same holds in every
directory below -/
theorem covdirTree_sums (rs : List FileIn) (h0 : NoLineZero rs) :
    (covdirTree rs).stats = (filesSum (covdirTree rs).files).add (covdirTree rs).sub.levelSum ∧
    (covdirTree rs).sub.SumsOK := by
  have inv := covdirBuild_inv rs h0
  unfold covdirTree CDRoot.setStats
  simp only [inv.zero, addFiles_eq, CDStats.zero_add]
  exact ⟨trivial, setStats_sumsOK _ inv.fresh⟩

/-- the root's figures are the sum over all result records -/
theorem covdirTree_root (rs : List FileIn) (h0 : NoLineZero rs) :
    (covdirTree rs).stats = sumCD (rs.map fun r => r.cdFile.stats) := by
  have inv := covdirBuild_inv rs h0
  unfold covdirTree CDRoot.setStats
  simp only [inv.zero, addFiles_eq, CDStats.zero_add, setStats_levelSum _ inv.fresh]
  exact inv.sum

theorem covdirTree_OK (rs : List FileIn) (h0 : NoLineZero rs) :
    (covdirTree rs).stats.OK ∧ (∀ f ∈ (covdirTree rs).files, f.stats.OK) ∧
    (covdirTree rs).sub.All CDStats.OK := by
  have inv := covdirBuild_inv rs h0
  have hs := setStats_all_OK _ inv.fresh inv.okSub
  unfold covdirTree CDRoot.setStats
  simp only [inv.zero, addFiles_eq, CDStats.zero_add]
  exact ⟨CDStats.OK_add (filesSum_OK inv.okFiles) hs.2, inv.okFiles, hs.1⟩

/-! percent -/
theorem cdPercent_props (x y : Nat) (h : x ≤ y) :
    (cdPercent x y).Finite ∧ (cdPercent x y).InPercent ∧
    (y ≠ 0 → (cdPercent x y).IsPercent x y) ∧ (y = 0 → cdPercent x y = ⟨0, 1⟩) := by
  unfold cdPercent Rate.Finite Rate.InPercent Rate.IsPercent
  by_cases hy : y = 0
  · simp [hy]
  · refine ⟨by simp [hy], by simp [hy]; omega, fun _ => by simp [hy, Nat.mul_comm], fun h0 => absurd h0 hy⟩

/-! ## association lists: `set` on present / absent keys -/
section alist
variable {κ : Type} {β : Type} [DecidableEq κ]

theorem set_eq_self (m : List (κ × β)) (k : κ) (v : β) (h : get? m k = some v) :
    set m k v = m := by
  induction m with
  | nil => simp at h
  | cons kw m ih =>
    obtain ⟨k', w⟩ := kw
    unfold AList.set
    by_cases hk : k' = k
    · subst hk; simp at h; simp [h]
    · simp only [get?_cons, hk, if_false] at h
      simp [hk, ih h]

theorem set_of_none (m : List (κ × β)) (k : κ) (v : β) (h : get? m k = none) :
    set m k v = m ++ [(k, v)] := by
  induction m with
  | nil => rfl
  | cons kw m ih =>
    obtain ⟨k', w⟩ := kw
    unfold AList.set
    by_cases hk : k' = k
    · subst hk; simp at h
    · simp only [get?_cons, hk, if_false] at h
      simp [hk, ih h]

theorem get?_append (a b : List (κ × β)) (x : κ) :
    get? (a ++ b) x = match get? a x with
      | some v => some v
      | none => get? b x := by
  induction a with
  | nil => simp
  | cons kw a ih =>
    obtain ⟨k, w⟩ := kw
    by_cases hk : k = x
    · simp [hk]
    · simp [hk, ih]

theorem mem_set {m : List (κ × β)} {k : κ} {v : β} {x : κ × β} (h : x ∈ set m k v) :
    x = (k, v) ∨ x ∈ m := by
  induction m with
  | nil => simp [AList.set] at h; exact Or.inl h
  | cons kw m ih =>
    obtain ⟨k', w⟩ := kw
    unfold AList.set at h
    by_cases hk : k' = k
    · simp only [hk, if_true, List.mem_cons] at h
      rcases h with h | h
      · subst hk; exact Or.inl h
      · exact Or.inr (List.mem_cons_of_mem _ h)
    · simp only [hk, if_false, List.mem_cons] at h
      rcases h with h | h
      · exact Or.inr (by simp [h])
      · rcases ih h with h | h
        · exact Or.inl h
        · exact Or.inr (List.mem_cons_of_mem _ h)

theorem nodupKeys_cons {kv : κ × β} {m : List (κ × β)} (h : NodupKeys (kv :: m)) :
    get? m kv.1 = none ∧ NodupKeys m := by
  unfold NodupKeys keys at *
  simp only [List.map_cons, List.nodup_cons] at h
  refine ⟨?_, h.2⟩
  rw [get?_eq_none_iff]; exact h.1

end alist

/-! ## cobertura -/

theorem extendMap_self {β} (m xs : List (Nat × β)) (h : ∀ kv ∈ xs, get? m kv.1 = some kv.2) :
    extendMap m xs = m := by
  induction xs with
  | nil => rfl
  | cons kv xs ih =>
    unfold extendMap at *
    rw [List.foldl_cons, set_eq_self _ _ _ (h kv (by simp))]
    exact ih fun x hx => h x (List.mem_cons_of_mem _ hx)

theorem extendMap_fresh {β} (m xs : List (Nat × β)) (hnd : NodupKeys xs)
    (hdis : ∀ kv ∈ xs, get? m kv.1 = none) : extendMap m xs = m ++ xs := by
  induction xs generalizing m with
  | nil => simp [extendMap]
  | cons kv xs ih =>
    obtain ⟨hk, hnd'⟩ := nodupKeys_cons hnd
    have h1 := hdis kv (by simp)
    have step : extendMap m (kv :: xs) = extendMap (set m kv.1 kv.2) xs := rfl
    rw [step, set_of_none _ _ _ h1, ih _ hnd']
    · simp
    · intro x hx
      rw [get?_append, hdis x (List.mem_cons_of_mem _ hx)]
      have : kv.1 ≠ x.1 := by
        intro e
        rw [get?_eq_none_iff] at hk
        apply hk; rw [e]; simp only [keys, List.mem_map]; exact ⟨x, hx, rfl⟩
      simp [this]

theorem mem_extendMap {β} {m xs : List (Nat × β)} {x : Nat × β} (h : x ∈ extendMap m xs) :
    x ∈ m ∨ x ∈ xs := by
  induction xs generalizing m with
  | nil => exact Or.inl h
  | cons kv xs ih =>
    have step : extendMap m (kv :: xs) = extendMap (set m kv.1 kv.2) xs := rfl
    rw [step] at h
    rcases ih h with h | h
    · rcases mem_set h with h | h
      · exact Or.inr (by simp [h])
      · exact Or.inl h
    · exact Or.inr (List.mem_cons_of_mem _ h)

@[simp] theorem lineFromNumber_number (c : Cov) (n : Nat) : (lineFromNumber c n).number = n := by
  unfold lineFromNumber
  cases get? c.branches n <;> rfl

/-- the map entries of lines made by `line_from_number` -/
def baseMap (c : Cov) (ks : List Nat) : List (Nat × CLine) := ks.map fun k => (k, lineFromNumber c k)

theorem keys_baseMap (c : Cov) (ks : List Nat) : keys (baseMap c ks) = ks := by
  simp [keys, baseMap, Function.comp_def]

theorem vecLines_map (c : Cov) (ks : List Nat) (hnd : ks.Nodup) :
    vecLines (ks.map (lineFromNumber c)) = baseMap c ks := by
  unfold vecLines
  have : (ks.map (lineFromNumber c)).map (fun l => (l.number, l)) = baseMap c ks := by
    simp [baseMap]
  rw [this, extendMap_fresh]
  · simp
  · unfold NodupKeys; rw [keys_baseMap]; exact hnd
  · intro _ _; rfl

theorem get?_baseMap (c : Cov) (ks : List Nat) (k : Nat) (h : k ∈ ks) :
    get? (baseMap c ks) k = some (lineFromNumber c k) := by
  induction ks with
  | nil => simp at h
  | cons a ks ih =>
    simp only [baseMap, List.map_cons, get?_cons]
    by_cases ha : a = k
    · simp [ha]
    · simp only [ha, if_false]
      simp only [List.mem_cons] at h
      rcases h with h | h
      · exact absurd h.symm ha
      · exact ih h

theorem mem_methodsLines_from (ms : List CMethod) (x : Nat × CLine) (acc : List (Nat × CLine))
    (h : x ∈ ms.foldl (fun m meth => extendMap m (vecLines meth.lines)) acc) :
    x ∈ acc ∨ ∃ meth ∈ ms, x ∈ vecLines meth.lines := by
  induction ms generalizing acc with
  | nil => exact Or.inl h
  | cons meth ms ih =>
    rw [List.foldl_cons] at h
    rcases ih _ h with h | ⟨m', hm', hx⟩
    · rcases mem_extendMap h with h | h
      · exact Or.inl h
      · exact Or.inr ⟨meth, by simp, h⟩
    · exact Or.inr ⟨m', List.mem_cons_of_mem _ hm', hx⟩

theorem mem_methodsLines {ms : List CMethod} {x : Nat × CLine} (h : x ∈ methodsLines ms) :
    ∃ meth ∈ ms, x ∈ vecLines meth.lines := by
  rcases mem_methodsLines_from ms x [] h with h | h
  · simp at h
  · exact h

theorem linesInFunction_nodup (c : Cov) (f : Fn) (hnd : NodupKeys c.lines) :
    (linesInFunction c f).Nodup :=
  List.Nodup.sublist List.filter_sublist hnd

theorem linesInFunction_sub (c : Cov) (f : Fn) : ∀ k ∈ linesInFunction c f, k ∈ keys c.lines :=
  fun _ hk => (List.mem_filter.1 hk).1

/-- `Class::get_lines`: the method lines are class lines already, nothing is added or replaced -/
theorem classLines_eq (c : Cov) (hnd : NodupKeys c.lines) :
    classLines (cobClass c) = baseMap c (keys c.lines) := by
  unfold classLines
  have hv : vecLines (cobClass c).lines = baseMap c (keys c.lines) := vecLines_map c _ hnd
  rw [hv]
  apply extendMap_self
  intro kv hkv
  obtain ⟨meth, hm, hx⟩ := mem_methodsLines hkv
  simp only [cobClass, List.mem_map] at hm
  obtain ⟨nf, _, rfl⟩ := hm
  simp only at hx
  rw [vecLines_map c _ (linesInFunction_nodup c nf.2 hnd)] at hx
  simp only [baseMap, List.mem_map] at hx
  obtain ⟨k, hk, rfl⟩ := hx
  exact get?_baseMap c _ k (linesInFunction_sub c nf.2 k hk)

theorem packageLines_eq (c : Cov) (hnd : NodupKeys c.lines) :
    packageLines (cobClass c) = baseMap c (keys c.lines) := by
  unfold packageLines
  rw [classLines_eq c hnd, extendMap_fresh]
  · simp
  · unfold NodupKeys; rw [keys_baseMap]; exact hnd
  · intro _ _; rfl

/-- is the line hit, per the `lines` map -/
def lineHit (c : Cov) (l : Nat) : Bool := decide (0 < (get? c.lines l).getD 0)
/-- number of branches recorded for a line / taken -/
def brLenAt (c : Cov) (l : Nat) : Nat := match get? c.branches l with
  | some v => v.length
  | none => 0
def brTakenAt (c : Cov) (l : Nat) : Nat := match get? c.branches l with
  | some v => v.countP id
  | none => 0

/-- the figures implied by a list of listed line numbers -/
def statsOn (c : Cov) (ks : List Nat) : CobStats :=
  ⟨ks.countP (lineHit c), ks.length, (ks.map (brTakenAt c)).sum, (ks.map (brLenAt c)).sum⟩

theorem fromLines_baseMap (c : Cov) (ks : List Nat) : fromLines (baseMap c ks) = statsOn c ks := by
  have h1 : ∀ k, (lineFromNumber c k).covered = lineHit c k := by
    intro k; unfold lineFromNumber lineHit; cases get? c.branches k <;> rfl
  have h2 : ∀ k, (lineFromNumber c k).condsTaken = brTakenAt c k := by
    intro k; unfold lineFromNumber brTakenAt; cases get? c.branches k <;> rfl
  have h3 : ∀ k, (lineFromNumber c k).condsTotal = brLenAt c k := by
    intro k; unfold lineFromNumber brLenAt; cases get? c.branches k <;> rfl
  unfold fromLines statsOn baseMap
  ext <;> simp [List.countP_map, Function.comp_def, h1, h2, h3]

theorem countP_lineHit_keys (c : Cov) (hnd : NodupKeys c.lines) :
    (keys c.lines).countP (lineHit c) = countPos c.lines := by
  unfold keys countPos
  rw [List.countP_map]
  apply List.countP_congr
  intro kv hkv
  obtain ⟨k, n⟩ := kv
  simp [Function.comp, lineHit, get?_of_mem hnd hkv]

theorem statsOn_le (c : Cov) (ks : List Nat) :
    (statsOn c ks).linesCovered ≤ (statsOn c ks).linesValid ∧
    (statsOn c ks).branchesCovered ≤ (statsOn c ks).branchesValid := by
  refine ⟨List.countP_le_length, ?_⟩
  simp only [statsOn]
  induction ks with
  | nil => simp
  | cons k ks ih =>
    have : brTakenAt c k ≤ brLenAt c k := by
      unfold brTakenAt brLenAt; cases get? c.branches k <;> simp [List.countP_le_length]
    simp only [List.map_cons, List.sum_cons]; omega

theorem cobPackage_stats (c : Cov) (hnd : NodupKeys c.lines) :
    (cobPackage c).stats = statsOn c (keys c.lines) ∧
    (cobPackage c).classStats = statsOn c (keys c.lines) ∧
    (cobPackage c).methods
      = c.functions.map fun nf => (nf.1, statsOn c (linesInFunction c nf.2)) := by
  refine ⟨?_, ?_, ?_⟩
  · simp only [cobPackage, packageLines_eq c hnd, fromLines_baseMap]
  · simp only [cobPackage, classLines_eq c hnd, fromLines_baseMap]
  · simp only [cobPackage, cobClass, List.map_map]
    apply List.map_congr_left
    intro nf _
    simp only [Function.comp]
    rw [vecLines_map c _ (linesInFunction_nodup c nf.2 hnd), fromLines_baseMap]

@[simp] theorem CobStats.add_lc (a b : CobStats) :
    (a.add b).linesCovered = a.linesCovered + b.linesCovered := rfl
@[simp] theorem CobStats.add_lv (a b : CobStats) :
    (a.add b).linesValid = a.linesValid + b.linesValid := rfl
@[simp] theorem CobStats.add_bc (a b : CobStats) :
    (a.add b).branchesCovered = a.branchesCovered + b.branchesCovered := rfl
@[simp] theorem CobStats.add_bv (a b : CobStats) :
    (a.add b).branchesValid = a.branchesValid + b.branchesValid := rfl

/-- component-wise sum of the packages' figures -/
def sumCob (xs : List CobStats) : CobStats :=
  ⟨(xs.map (·.linesCovered)).sum, (xs.map (·.linesValid)).sum,
   (xs.map (·.branchesCovered)).sum, (xs.map (·.branchesValid)).sum⟩

theorem foldl_cob_add (ps : List CobPackage) (a : CobStats) :
    ps.foldl (fun acc p => acc.add p.stats) a = a.add (sumCob (ps.map (·.stats))) := by
  induction ps generalizing a with
  | nil => ext <;> simp [sumCob]
  | cons p ps ih =>
    rw [List.foldl_cons, ih]
    ext <;> simp [sumCob, Nat.add_assoc]

theorem cobReport_stats (rs : List FileIn) :
    (cobReport rs).stats = sumCob ((cobReport rs).packages.map (·.stats)) := by
  simp only [cobReport, foldl_cob_add]
  ext <;> simp [CobStats.zero]

theorem sumCob_le (xs : List CobStats)
    (h : ∀ x ∈ xs, x.linesCovered ≤ x.linesValid ∧ x.branchesCovered ≤ x.branchesValid) :
    (sumCob xs).linesCovered ≤ (sumCob xs).linesValid ∧
    (sumCob xs).branchesCovered ≤ (sumCob xs).branchesValid := by
  induction xs with
  | nil => simp [sumCob]
  | cons x xs ih =>
    have hx := h x (by simp)
    have := ih fun y hy => h y (List.mem_cons_of_mem _ hy)
    simp only [sumCob, List.map_cons, List.sum_cons] at *
    omega

theorem cobRate_props (c v : Nat) (h : c ≤ v) :
    let r : Rate := if 0 < v then ⟨c, v⟩ else ⟨0, 1⟩
    r.Finite ∧ r.InUnit ∧ (v ≠ 0 → r.IsRatio c v) ∧ (v = 0 → r = ⟨0, 1⟩) := by
  intro r
  unfold Rate.Finite Rate.InUnit Rate.IsRatio
  by_cases hv : v = 0
  · simp [r, hv]
  · have hp : 0 < v := by omega
    refine ⟨by simp [r, hp]; omega, by simp [r, hp]; exact h, fun _ => by simp [r, hp],
      fun h0 => absurd h0 hv⟩

/-! ## html -/

@[simp] theorem HStats.add_tl (a b : HStats) : (a.add b).totalLines = a.totalLines + b.totalLines := rfl
@[simp] theorem HStats.add_cl (a b : HStats) : (a.add b).coveredLines = a.coveredLines + b.coveredLines := rfl
@[simp] theorem HStats.add_tf (a b : HStats) : (a.add b).totalFuns = a.totalFuns + b.totalFuns := rfl
@[simp] theorem HStats.add_cf (a b : HStats) : (a.add b).coveredFuns = a.coveredFuns + b.coveredFuns := rfl
@[simp] theorem HStats.add_tb (a b : HStats) : (a.add b).totalBranches = a.totalBranches + b.totalBranches := rfl
@[simp] theorem HStats.add_cb (a b : HStats) : (a.add b).coveredBranches = a.coveredBranches + b.coveredBranches := rfl

theorem HStats.add_assoc (a b c : HStats) : (a.add b).add c = a.add (b.add c) := by
  ext <;> simp [Nat.add_assoc]
theorem HStats.add_comm (a b : HStats) : a.add b = b.add a := by
  ext <;> simp [Nat.add_comm]
@[simp] theorem HStats.zero_add (a : HStats) : HStats.zero.add a = a := by ext <;> simp [HStats.zero]
@[simp] theorem HStats.add_zero (a : HStats) : a.add HStats.zero = a := by ext <;> simp [HStats.zero]
instance : Std.Associative HStats.add := ⟨HStats.add_assoc⟩
instance : Std.Commutative HStats.add := ⟨HStats.add_comm⟩

def sumH (xs : List HStats) : HStats := xs.foldr HStats.add .zero
@[simp] theorem sumH_nil : sumH [] = .zero := rfl
@[simp] theorem sumH_cons (x xs) : sumH (x :: xs) = x.add (sumH xs) := rfl
theorem sumH_append (xs ys : List HStats) : sumH (xs ++ ys) = (sumH xs).add (sumH ys) := by
  induction xs with
  | nil => simp
  | cons x xs ih => simp [ih, HStats.add_assoc]

/-- covered ≤ total for lines, functions and branches -/
def HStats.OK (s : HStats) : Prop :=
  s.coveredLines ≤ s.totalLines ∧ s.coveredFuns ≤ s.totalFuns ∧ s.coveredBranches ≤ s.totalBranches

theorem HStats.OK_zero : HStats.zero.OK := by simp [HStats.OK, HStats.zero]
theorem HStats.OK_add {a b : HStats} (ha : a.OK) (hb : b.OK) : (a.add b).OK := by
  unfold HStats.OK at *; simp; omega
theorem sumH_OK {xs : List HStats} (h : ∀ x ∈ xs, x.OK) : (sumH xs).OK := by
  induction xs with
  | nil => exact HStats.OK_zero
  | cons x xs ih =>
    exact HStats.OK_add (h x (by simp)) (ih fun y hy => h y (List.mem_cons_of_mem _ hy))

theorem htmlStats_OK (c : Cov) : (htmlStats c).OK :=
  ⟨countPos_le _, fnExecuted_le _, brTaken_le _⟩

/-- replacing the value of a present key changes a sum by the difference -/
theorem sumH_set_some {κ β} [DecidableEq κ] (f : β → HStats) (m : List (κ × β)) (k : κ)
    (old new : β) (δ : HStats) (hg : get? m k = some old) (hf : f new = (f old).add δ) :
    sumH ((set m k new).map fun kv => f kv.2) = (sumH (m.map fun kv => f kv.2)).add δ := by
  induction m with
  | nil => simp at hg
  | cons kw m ih =>
    obtain ⟨k', w⟩ := kw
    unfold AList.set
    by_cases hk : k' = k
    · subst hk
      simp only [get?_cons, if_true, Option.some.injEq] at hg
      subst hg
      simp only [if_true, List.map_cons, sumH_cons, hf]
      ac_rfl
    · simp only [get?_cons, hk, if_false] at hg
      simp only [hk, if_false, List.map_cons, sumH_cons, ih hg]
      ac_rfl

/-- the (parent, name) pairs of the files the HTML writer shows, in input order -/
def shownEntries (rs : List FileIn) : List ((Name × Name) × HStats) :=
  (rs.filter (·.shown)).map fun r =>
    ((joinPath r.rel.dropLast, r.rel.getLastD []), htmlStats r.cov)

structure HInv (g : HGlobal) (P : List ((Name × Name) × HStats)) : Prop where
  global : g.stats = sumH (g.dirs.map fun nd => nd.2.stats)
  globalFiles : g.stats = sumH (P.map (·.2))
  dir : ∀ d ds, get? g.dirs d = some ds → ds.stats = sumH (ds.files.map (·.2))
  nodup : NodupKeys g.dirs
  names : ∀ d ds, get? g.dirs d = some ds → ∀ n ∈ keys ds.files, (d, n) ∈ P.map (·.1)
  parents : ∀ d ∈ keys g.dirs, d ∈ P.map (·.1.1)
  ok : ∀ d ds, get? g.dirs d = some ds → ∀ ns ∈ ds.files, ns.2.OK

theorem getDirsResult_inv (g : HGlobal) (P : List ((Name × Name) × HStats)) (p n : Name)
    (s : HStats) (hs : s.OK) (hnew : (p, n) ∉ P.map (·.1)) (h : HInv g P) :
    HInv (getDirsResult g p n s) (P ++ [((p, n), s)]) := by
  obtain ⟨hg, hgf, hd, hnd, hnm, hpar, hok⟩ := h
  cases hgp : get? g.dirs p with
  | some ds =>
    have hfresh : get? ds.files n = none := by
      rw [get?_eq_none_iff]
      intro hn; exact hnew (hnm p ds hgp n hn)
    have hfiles : set ds.files n s = ds.files ++ [(n, s)] := set_of_none _ _ _ hfresh
    have hdirs : (getDirsResult g p n s).dirs
        = set g.dirs p { files := ds.files ++ [(n, s)], stats := ds.stats.add s } := by
      simp [getDirsResult, hgp, hfiles]
    have hstats : (getDirsResult g p n s).stats = g.stats.add s := rfl
    refine ⟨?_, ?_, ?_, ?_, ?_, ?_, ?_⟩
    · rw [hstats, hdirs, sumH_set_some (fun d : HDir => d.stats) g.dirs p ds _ s hgp rfl, hg]
    · rw [hstats, hgf]; simp [sumH_append]
    · intro d ds' hget
      rw [hdirs, get?_set] at hget
      by_cases hpd : p = d
      · simp only [hpd, if_true, Option.some.injEq] at hget
        subst hget
        simp [sumH_append, hd p ds hgp]
      · simp only [hpd, if_false] at hget
        exact hd d ds' hget
    · rw [hdirs]; exact nodupKeys_set hnd _ _
    · intro d ds' hget m hm
      rw [hdirs, get?_set] at hget
      by_cases hpd : p = d
      · simp only [hpd, if_true, Option.some.injEq] at hget
        subst hget; subst hpd
        simp only [keys, List.map_append, List.map_cons, List.map_nil, List.mem_append,
          List.mem_singleton] at hm
        simp only [List.map_append, List.map_cons, List.map_nil, List.mem_append,
          List.mem_singleton]
        rcases hm with hm | hm
        · exact Or.inl (hnm p ds hgp m hm)
        · exact Or.inr (by rw [hm])
      · simp only [hpd, if_false] at hget
        simp only [List.map_append, List.mem_append]
        exact Or.inl (hnm d ds' hget m hm)
    · intro d hdk
      rw [hdirs, keys_set] at hdk
      have hin : p ∈ keys g.dirs := (get?_isSome_iff g.dirs p).1 (by simp [hgp])
      simp only [hin, if_true] at hdk
      simp only [List.map_append, List.mem_append]
      exact Or.inl (hpar d hdk)
    · intro d ds' hget ns hns
      rw [hdirs, get?_set] at hget
      by_cases hpd : p = d
      · simp only [hpd, if_true, Option.some.injEq] at hget
        subst hget
        simp only [List.mem_append, List.mem_singleton] at hns
        rcases hns with hns | hns
        · exact hok p ds hgp ns hns
        · subst hns; exact hs
      · simp only [hpd, if_false] at hget
        exact hok d ds' hget ns hns
  | none =>
    have hdirs : (getDirsResult g p n s).dirs = g.dirs ++ [(p, { files := [(n, s)], stats := s })] := by
      simp [getDirsResult, hgp, set_of_none]
    have hstats : (getDirsResult g p n s).stats = g.stats.add s := rfl
    have hget' : ∀ d, get? (getDirsResult g p n s).dirs d
        = match get? g.dirs d with
          | some v => some v
          | none => if p = d then some { files := [(n, s)], stats := s } else none := by
      intro d; rw [hdirs, get?_append]; cases get? g.dirs d <;> simp
    refine ⟨?_, ?_, ?_, ?_, ?_, ?_, ?_⟩
    · rw [hstats, hdirs, hg]; simp [sumH_append]
    · rw [hstats, hgf]; simp [sumH_append]
    · intro d ds' hget
      rw [hget'] at hget
      cases hgd : get? g.dirs d with
      | some v => rw [hgd] at hget; simp at hget; subst hget; exact hd d v hgd
      | none =>
        rw [hgd] at hget
        by_cases hpd : p = d
        · simp [hpd] at hget; subst hget; simp
        · simp [hpd] at hget
    · have : (getDirsResult g p n s).dirs = set g.dirs p { files := [(n, s)], stats := s } := by
        simp [getDirsResult, hgp]
      rw [this]; exact nodupKeys_set hnd _ _
    · intro d ds' hget m hm
      rw [hget'] at hget
      simp only [List.map_append, List.map_cons, List.map_nil, List.mem_append, List.mem_singleton]
      cases hgd : get? g.dirs d with
      | some v => rw [hgd] at hget; simp at hget; subst hget; exact Or.inl (hnm d v hgd m hm)
      | none =>
        rw [hgd] at hget
        by_cases hpd : p = d
        · simp [hpd] at hget; subst hget
          simp [keys] at hm
          exact Or.inr (by rw [hm, hpd])
        · simp [hpd] at hget
    · intro d hdk
      rw [hdirs] at hdk
      simp only [keys, List.map_append, List.map_cons, List.map_nil, List.mem_append,
        List.mem_singleton] at hdk
      simp only [List.map_append, List.map_cons, List.map_nil, List.mem_append, List.mem_singleton]
      rcases hdk with hdk | hdk
      · exact Or.inl (hpar d hdk)
      · exact Or.inr hdk
    · intro d ds' hget ns hns
      rw [hget'] at hget
      cases hgd : get? g.dirs d with
      | some v => rw [hgd] at hget; simp at hget; subst hget; exact hok d v hgd ns hns
      | none =>
        rw [hgd] at hget
        by_cases hpd : p = d
        · simp [hpd] at hget; subst hget
          simp at hns; subst hns; exact hs
        · simp [hpd] at hget

def htmlStep (g : HGlobal) (r : FileIn) : HGlobal :=
  if r.shown then getDirsResult g (joinPath r.rel.dropLast) (r.rel.getLastD []) (htmlStats r.cov)
  else g

theorem htmlGlobal_eq (rs : List FileIn) : htmlGlobal rs = rs.foldl htmlStep ⟨[], .zero⟩ := rfl

theorem shownEntries_cons (r : FileIn) (rs : List FileIn) :
    shownEntries (r :: rs) = if r.shown then
      ((joinPath r.rel.dropLast, r.rel.getLastD []), htmlStats r.cov) :: shownEntries rs
      else shownEntries rs := by
  unfold shownEntries
  by_cases h : r.shown <;> simp [h]

theorem htmlGlobal_from (rs : List FileIn) (g : HGlobal) (P : List ((Name × Name) × HStats))
    (hnd : (P.map (·.1) ++ (shownEntries rs).map (·.1)).Nodup) (h : HInv g P) :
    HInv (rs.foldl htmlStep g) (P ++ shownEntries rs) := by
  induction rs generalizing g P with
  | nil => simpa [shownEntries] using h
  | cons r rs ih =>
    rw [List.foldl_cons]
    rw [shownEntries_cons] at hnd ⊢
    by_cases hs : r.shown
    · simp only [hs, if_true] at hnd ⊢
      have hnew : (joinPath r.rel.dropLast, r.rel.getLastD []) ∉ P.map (·.1) := by
        intro hin
        rw [List.nodup_append] at hnd
        exact hnd.2.2 _ hin _ (by simp) rfl
      have step := getDirsResult_inv g P _ _ _ (htmlStats_OK r.cov) hnew h
      have hstep : htmlStep g r = getDirsResult g (joinPath r.rel.dropLast) (r.rel.getLastD [])
          (htmlStats r.cov) := by simp [htmlStep, hs]
      rw [hstep]
      have := ih _ _ (by simpa [List.append_assoc] using hnd) step
      simpa [List.append_assoc] using this
    · simp only [hs] at hnd ⊢
      have hstep : htmlStep g r = g := by simp [htmlStep, hs]
      rw [hstep]
      exact ih g P hnd h

/-- distinct (directory, file name) pairs among the shown files -/
def ShownDistinct (rs : List FileIn) : Prop := ((shownEntries rs).map (·.1)).Nodup

theorem htmlGlobal_inv (rs : List FileIn) (hnd : ShownDistinct rs) :
    HInv (htmlGlobal rs) (shownEntries rs) := by
  have h0 : HInv ⟨[], .zero⟩ [] :=
    ⟨rfl, rfl, by simp, by simp [NodupKeys, keys], by simp, by simp [keys], by simp⟩
  have := htmlGlobal_from rs ⟨[], .zero⟩ [] (by simpa [ShownDistinct] using hnd) h0
  simpa [htmlGlobal_eq] using this

theorem html_dirPages_sum (rs : List FileIn) (hnd : ShownDistinct rs) :
    ∀ dp ∈ (html rs).dirPages, dp.2.stats = sumH (dp.2.rows.map (·.2)) ∧
      dp.2.stats.OK ∧ ∀ row ∈ dp.2.rows, row.2.OK := by
  have inv := htmlGlobal_inv rs hnd
  intro dp hdp
  simp only [html, List.mem_map] at hdp
  obtain ⟨nd, hmem, rfl⟩ := hdp
  obtain ⟨d, ds⟩ := nd
  have hget := get?_of_mem inv.nodup hmem
  have hsum := inv.dir d ds hget
  have hok := inv.ok d ds hget
  refine ⟨hsum, ?_, hok⟩
  simp only [dirPage]
  rw [hsum]
  apply sumH_OK
  intro x hx
  simp only [List.mem_map] at hx
  obtain ⟨ns, hns, rfl⟩ := hx
  exact hok ns hns

theorem html_index_sum (rs : List FileIn) (hnd : ShownDistinct rs) :
    (html rs).index.stats = sumH ((html rs).index.rows.map (·.2)) := by
  have inv := htmlGlobal_inv rs hnd
  simp only [html, topPage]
  cases hg : get? (htmlGlobal rs).dirs [] with
  | some d => simp only [dirPage]; exact inv.dir [] d hg
  | none => simp only [globalPage, List.map_map]; exact inv.global

theorem html_global_sum (rs : List FileIn) (hnd : ShownDistinct rs) :
    (htmlGlobal rs).stats = sumH ((htmlGlobal rs).dirs.map fun nd => nd.2.stats) ∧
    (htmlGlobal rs).stats = sumH ((shownEntries rs).map (·.2)) :=
  ⟨(htmlGlobal_inv rs hnd).global, (htmlGlobal_inv rs hnd).globalFiles⟩

/-! directories only come from shown files (no distinctness needed) -/
theorem getDirsResult_keys (g : HGlobal) (p n : Name) (s : HStats) :
    ∀ d ∈ keys (getDirsResult g p n s).dirs, d ∈ keys g.dirs ∨ d = p := by
  intro d hd
  have : ∀ v, d ∈ keys (set g.dirs p v) → d ∈ keys g.dirs ∨ d = p := by
    intro v hv
    rw [keys_set] at hv
    split at hv
    · exact Or.inl hv
    · simp only [List.mem_append, List.mem_singleton] at hv; exact hv
  unfold getDirsResult at hd
  cases hg : get? g.dirs p <;> simp only [hg] at hd <;> exact this _ hd

theorem htmlGlobal_keys_from (rs : List FileIn) (g : HGlobal) :
    ∀ d ∈ keys (rs.foldl htmlStep g).dirs,
      d ∈ keys g.dirs ∨ ∃ r ∈ rs, r.shown = true ∧ joinPath r.rel.dropLast = d := by
  induction rs generalizing g with
  | nil => intro d hd; exact Or.inl hd
  | cons r rs ih =>
    intro d hd
    rw [List.foldl_cons] at hd
    rcases ih _ d hd with h | ⟨r', hr', hs, hj⟩
    · by_cases hs : r.shown
      · have hstep : htmlStep g r = getDirsResult g (joinPath r.rel.dropLast) (r.rel.getLastD [])
            (htmlStats r.cov) := by simp [htmlStep, hs]
        rw [hstep] at h
        rcases getDirsResult_keys _ _ _ _ d h with h | h
        · exact Or.inl h
        · exact Or.inr ⟨r, by simp, hs, h.symm⟩
      · have hstep : htmlStep g r = g := by simp [htmlStep, hs]
        rw [hstep] at h; exact Or.inl h
    · exact Or.inr ⟨r', List.mem_cons_of_mem _ hr', hs, hj⟩

/-- when no shown file sits directly in the source root, `index.html` is the global page -/
theorem html_index_global (rs : List FileIn)
    (h : ∀ r ∈ rs, r.shown = true → joinPath r.rel.dropLast ≠ []) :
    (html rs).index = globalPage (htmlGlobal rs) := by
  have hnone : get? (htmlGlobal rs).dirs [] = none := by
    rw [get?_eq_none_iff]
    intro hin
    rcases htmlGlobal_keys_from rs ⟨[], .zero⟩ [] (by simpa [htmlGlobal_eq] using hin) with h0 | ⟨r, hr, hs, hj⟩
    · simp [keys] at h0
    · exact h r hr hs hj
  simp [html, topPage, hnone]

theorem htmlPercent_props (c t : Nat) (h : c ≤ t) :
    (htmlPercent c t).Finite ∧ (htmlPercent c t).InPercent ∧
    (t ≠ 0 → (htmlPercent c t).IsPercent c t) ∧ (t = 0 → htmlPercent c t = ⟨100, 1⟩) := by
  unfold htmlPercent Rate.Finite Rate.InPercent Rate.IsPercent
  by_cases ht : t = 0
  · simp [ht]
  · refine ⟨by simp [ht], by simp [ht]; omega, fun _ => by simp [ht, Nat.mul_comm], fun h0 => absurd h0 ht⟩

theorem htmlPercentFloor_props (c t : Nat) (h : c ≤ t) :
    htmlPercentFloor c t ≤ 100 ∧
    (t ≠ 0 → htmlPercentFloor c t * t ≤ 100 * c ∧ 100 * c < (htmlPercentFloor c t + 1) * t) ∧
    (t = 0 → htmlPercentFloor c t = 100) := by
  unfold htmlPercentFloor
  by_cases ht : t = 0
  · simp [ht]
  · have hp : 0 < t := by omega
    simp only [ht, ne_eq, not_false_eq_true, if_true, true_implies, false_implies, and_true]
    refine ⟨?_, Nat.div_mul_le_self _ _, ?_⟩
    · apply Nat.div_le_of_le_mul
      have := Nat.mul_le_mul_left 100 h
      rw [Nat.mul_comm t 100]; exact this
    · have := Nat.lt_mul_div_succ (100 * c) hp
      rw [Nat.mul_comm t] at this; exact this

/-! ## markdown -/

theorem mdRow_props (c : Cov) :
    (mdRow c).total = c.lines.length ∧ (mdRow c).covered = countPos c.lines ∧
    (mdRow c).covered ≤ (mdRow c).total ∧
    (mdRow c).rate = mdPercent (countPos c.lines) c.lines.length := by
  have h := countZero_add_countPos c.lines
  have hc : c.lines.length - countZero c.lines = countPos c.lines := by omega
  simp only [mdRow, hc]
  exact ⟨trivial, trivial, countPos_le _, trivial⟩

theorem foldl_add_nat {α} (xs : List α) (f : α → Nat) (a : Nat) :
    xs.foldl (fun a r => a + f r) a = a + (xs.map f).sum := by
  induction xs generalizing a with
  | nil => simp
  | cons x xs ih => simp [ih, Nat.add_assoc]

theorem markdown_totals (rs : List FileIn) :
    (markdown rs).totalLines = ((markdown rs).rows.map (·.total)).sum ∧
    (markdown rs).totalCovered = ((markdown rs).rows.map (·.covered)).sum ∧
    (markdown rs).totalCovered ≤ (markdown rs).totalLines ∧
    (markdown rs).rate = mdPercent (markdown rs).totalCovered (markdown rs).totalLines := by
  simp only [markdown, foldl_add_nat, Nat.zero_add]
  refine ⟨trivial, trivial, ?_, trivial⟩
  induction rs with
  | nil => simp
  | cons r rs ih =>
    have := (mdRow_props r.cov).2.2.1
    simp only [List.map_cons, List.sum_cons] at *
    omega

theorem mdPercent_props (c t : Nat) (h : c ≤ t) :
    (mdPercent c t).Finite ∧ (mdPercent c t).InPercent ∧
    (t ≠ 0 → (mdPercent c t).IsPercent c t) ∧ (t = 0 → mdPercent c t = ⟨100, 1⟩) := by
  unfold mdPercent Rate.Finite Rate.InPercent Rate.IsPercent
  by_cases ht : t = 0
  · simp [ht]
  · refine ⟨by simp [ht], by simp [ht]; omega, fun _ => by simp [ht, Nat.mul_comm], fun h0 => absurd h0 ht⟩

theorem markdown_rows (rs : List FileIn) : (markdown rs).rows = rs.map fun r => mdRow r.cov := rfl

/-! ## ade -/

theorem adeFile_file (c : Cov) :
    (adeFile c).file.covered = countPos c.lines ∧ (adeFile c).file.uncovered = countZero c.lines ∧
    (adeFile c).file.covered + (adeFile c).file.uncovered = c.lines.length := by
  have h := countZero_add_countPos c.lines
  have h1 : (adeFile c).file.covered = countPos c.lines := by
    simp [adeFile, adePart, countPos, List.countP_eq_length_filter]
  have h2 : (adeFile c).file.uncovered = countZero c.lines := by
    simp [adeFile, adePart, countZero, List.countP_eq_length_filter]
  refine ⟨h1, h2, ?_⟩
  rw [h1, h2]; omega

theorem adePart_rate (c u : Nat) :
    (adePart c u).rate.InUnit ∧ (adePart c u).rate.IsRatio c (c + u) ∧
    (c + u ≠ 0 → (adePart c u).rate.Finite) := by
  simp [adePart, Rate.InUnit, Rate.IsRatio, Rate.Finite]

/-- every part the ade writer reports is built by `adePart` -/
theorem adeFile_parts (c : Cov) :
    (∃ a b, (adeFile c).file = adePart a b) ∧ (∃ a b, (adeFile c).orphan = adePart a b) ∧
    ∀ m ∈ (adeFile c).methods, ∃ a b, m.2 = adePart a b := by
  refine ⟨⟨_, _, rfl⟩, ⟨_, _, rfl⟩, ?_⟩
  intro m hm
  simp only [adeFile, List.mem_map] at hm
  obtain ⟨nf, _, rfl⟩ := hm
  exact ⟨_, _, rfl⟩

end Grcov.Stats
