/-
Lemmas about the parser of GrcovModel/Glob/Syntax.lean: the invariant behind "the parser's own
`unwrap`/`assert!` never fire and `UnopenedAlternates` is never answered" (`parse_error_kinds`), and
what the parser makes of pieces of text: plain text, fully escaped text, `A/**/B`, `**/X`, `X/**`,
`P{A,B}Q`, `P[M]Q`, `[lo-hi]`; then the languages of those token lists.
-/
import GrcovModel.Lemmas.GlobStrategy
set_option linter.unusedSimpArgs false
namespace Grcov.GlobSyntax
open Grcov.UPath (Bytes)

/-! ### the parser never panics and never answers `UnopenedAlternates` -/

def GoodMode : Mode → Prop
  | .failed e => e = .nestedAlternates ∨ ∃ lo hi, e = .invalidRange lo hi
  | .cls _ rs first inR => (first = false → rs ≠ []) ∧ (inR = true → rs ≠ [])
  | _ => True

theorem pushAtom_mode (st : PSt) (a : Atom) : (pushAtom st a).mode = st.mode := by
  unfold pushAtom; split <;> rfl

theorem replaceLast_mode (st : PSt) (b : Bool) (h : haveTokens st = true) : (replaceLast st b).mode = st.mode := by
  unfold replaceLast
  unfold haveTokens at h
  split
  · rfl
  · simp_all
  · rename_i halts
    simp only [halts] at h
    split
    · rfl
    · rfl
    · simp_all

theorem star2_mode (st : PSt) (p peek : Option Nat) : (star2 st p peek).1.mode = st.mode := by
  unfold star2
  by_cases h : haveTokens st = true
  · simp only [h, Bool.not_true, Bool.false_eq_true, if_false]
    split
    · simp [twoStars, pushAtom_mode]
    · split
      · exact replaceLast_mode st true h
      · split
        · exact replaceLast_mode st true h
        · split
          · exact replaceLast_mode st false h
          · simp [twoStars, pushAtom_mode]
  · simp only [h, Bool.not_false, if_true]
    split <;> simp [twoStars, pushAtom_mode]

theorem stepNormal_good (st : PSt) (c : Nat) (h : st.mode = .normal) : GoodMode (stepNormal st c).mode := by
  unfold stepNormal
  simp only
  repeat' split
  all_goals simp [pushAtom_mode, GoodMode, h]

theorem addRange_good (st : PSt) (neg : Bool) (rs : List (Nat × Nat)) (c : Nat) (h : rs ≠ []) :
    GoodMode (addRange st neg rs c).mode := by
  unfold addRange
  split
  · split
    · simp [GoodMode]
    · simp [GoodMode]
  · exact absurd rfl h

theorem stepCls_good (st : PSt) (neg : Bool) (rs : List (Nat × Nat)) (first inR : Bool) (c : Nat)
    (h : GoodMode (.cls neg rs first inR)) : GoodMode (stepCls st neg rs first inR c).mode := by
  obtain ⟨h1, h2⟩ := h
  unfold stepCls
  simp only
  by_cases c93 : c = 93
  · simp only [c93, if_true]
    cases first with
    | true => simp [GoodMode]
    | false => simp [GoodMode, pushAtom_mode]
  · simp only [c93, if_false]
    by_cases c45 : c = 45
    · simp only [c45, if_true]
      cases first with
      | true => simp [GoodMode]
      | false =>
        simp only [Bool.false_eq_true, if_false]
        cases inR with
        | true => simp only [if_true]; exact addRange_good _ _ _ _ (h2 rfl)
        | false =>
          have : rs.isEmpty = false := by
            have := h1 rfl
            cases rs <;> simp_all
          simp only [Bool.false_eq_true, if_false, this]
          exact ⟨fun _ => h1 rfl, fun _ => h1 rfl⟩
    · simp only [c45, if_false]
      cases inR with
      | true =>
        simp only [if_true]
        exact addRange_good _ _ _ _ (h2 rfl)
      | false => simp [GoodMode]

theorem step_good (st : PSt) (c : Nat) (h : GoodMode st.mode) : GoodMode (step st c).mode := by
  unfold step
  split
  · rename_i e he; rw [he] at h; simpa [he] using h
  · rename_i he; exact stepNormal_good st c he
  · split
    · simp [GoodMode]
    · exact stepNormal_good _ c rfl
  · rename_i p he
    have hm := star2_mode { st with mode := .normal } p (some c)
    simp only at hm
    unfold afterStar2
    split
    · simp only [hm, GoodMode]
    · split
      · rename_i e he2; rw [hm] at he2; cases he2
      · exact stepNormal_good _ c hm
  · simp [GoodMode, pushAtom_mode]
  · split
    · simp [GoodMode]
    · exact stepCls_good st false [] true false c ⟨by simp, by simp⟩
  · rename_i neg rs first inR he
    rw [he] at h
    exact stepCls_good st neg rs first inR c h

def run (st : PSt) (cs : Chars) : PSt := cs.foldl step st

theorem run_good (cs : Chars) (st : PSt) (h : GoodMode st.mode) : GoodMode (run st cs).mode := by
  induction cs generalizing st with
  | nil => exact h
  | cons c cs ih => exact ih _ (step_good st c h)

/-- the error kinds `Glob::new` can answer: never a panic of the parser's own `unwrap`s, never
`UnopenedAlternates` -/
theorem parse_error_kinds (g : Chars) (e : GlobErr) (h : parse g = .error e) :
    e = .unclosedClass ∨ (∃ lo hi, e = .invalidRange lo hi) ∨ e = .unclosedAlternates ∨
    e = .nestedAlternates ∨ e = .danglingEscape := by
  have hg : GoodMode (run {} g).mode := run_good g {} trivial
  unfold parse at h
  change finish (run {} g) = .error e at h
  generalize run {} g = st at h hg
  unfold finish at h
  have close_kinds : ∀ s : PSt, s.mode = .normal → closeAlts s = .error e → e = .unclosedAlternates := by
    intro s hs hc
    unfold closeAlts at hc
    rw [hs] at hc
    simp only at hc
    split at hc
    · cases hc
    · cases hc; rfl
  split at h
  · rename_i e' he
    rw [he] at hg
    cases h
    rcases hg with rfl | ⟨lo, hi, rfl⟩
    · right; right; right; left; rfl
    · right; left; exact ⟨lo, hi, rfl⟩
  · rename_i he
    right; right; left; exact close_kinds st he h
  · right; right; left
    exact close_kinds _ rfl h
  · rename_i p he
    right; right; left
    exact close_kinds _ (by rw [star2_mode]) h
  · cases h; right; right; right; right; rfl
  · cases h; left; rfl
  · cases h; left; rfl

/-! ### running the parser over pieces of text -/

theorem run_append (st : PSt) (a b : Chars) : run st (a ++ b) = run (run st a) b := by
  simp [run, List.foldl_append]

theorem run_cons (st : PSt) (c : Nat) (cs : Chars) : run st (c :: cs) = run (step st c) cs := rfl

theorem parse_eq (g : Chars) : parse g = finish (run {} g) := rfl

/-- no glob metacharacter (a comma counts as one: it is special inside braces) -/
def Plain (c : Nat) : Prop := c ≠ 63 ∧ c ≠ 42 ∧ c ≠ 91 ∧ c ≠ 123 ∧ c ≠ 125 ∧ c ≠ 92 ∧ c ≠ 44

def lastOr (cur : Option Nat) (cs : Chars) : Option Nat :=
  match cs.getLast? with
  | some c => some c
  | none => cur

theorem lastOr_cons (cur : Option Nat) (c : Nat) (cs : Chars) : lastOr cur (c :: cs) = lastOr (some c) cs := by
  unfold lastOr
  cases cs with
  | nil => simp
  | cons d cs =>
    rw [List.getLast?_cons_cons]
    cases h : (d :: cs).getLast? with
    | some x => rfl
    | none => simp at h

theorem step_plain_top (top : List Tok) (cur : Option Nat) (c : Nat) (hc : Plain c) :
    step ⟨top, [], cur, .normal⟩ c = ⟨.atom (.lit c) :: top, [], some c, .normal⟩ := by
  obtain ⟨h1, h2, h3, h4, h5, h6, h7⟩ := hc
  simp [step, stepNormal, h1, h2, h3, h4, h5, h6, h7, pushAtom]

theorem step_plain_alt (top : List Tok) (a : List Atom) (r : List (List Atom)) (cur : Option Nat) (c : Nat)
    (hc : Plain c) :
    step ⟨top, a :: r, cur, .normal⟩ c = ⟨top, (.lit c :: a) :: r, some c, .normal⟩ := by
  obtain ⟨h1, h2, h3, h4, h5, h6, h7⟩ := hc
  simp [step, stepNormal, h1, h2, h3, h4, h5, h6, h7, pushAtom]

theorem run_plain_top (cs : Chars) (hc : ∀ c ∈ cs, Plain c) (top : List Tok) (cur : Option Nat) :
    run ⟨top, [], cur, .normal⟩ cs = ⟨(litToks cs).reverse ++ top, [], lastOr cur cs, .normal⟩ := by
  induction cs generalizing top cur with
  | nil => simp [run, litToks, lastOr]
  | cons c cs ih =>
    rw [run_cons, step_plain_top top cur c (hc c (by simp)), ih (fun d hd => hc d (by simp [hd])), lastOr_cons]
    simp [litToks]

theorem run_plain_alt (cs : Chars) (hc : ∀ c ∈ cs, Plain c) (top : List Tok) (a : List Atom)
    (r : List (List Atom)) (cur : Option Nat) :
    run ⟨top, a :: r, cur, .normal⟩ cs = ⟨top, ((cs.map Atom.lit).reverse ++ a) :: r, lastOr cur cs, .normal⟩ := by
  induction cs generalizing a cur with
  | nil => simp [run, lastOr]
  | cons c cs ih =>
    rw [run_cons, step_plain_alt top a r cur c (hc c (by simp)), ih (fun d hd => hc d (by simp [hd])), lastOr_cons]
    simp

/-- plain text is its own literal -/
theorem parse_plain (cs : Chars) (hc : ∀ c ∈ cs, Plain c) : parse cs = .ok (litToks cs) := by
  rw [parse_eq]
  have : ({} : PSt) = ⟨[], [], none, .normal⟩ := rfl
  rw [this, run_plain_top cs hc]
  simp [finish, closeAlts]

/-- every char written with a backslash in front -/
def escapeAll (cs : Chars) : Chars := cs.flatMap fun c => [92, c]

theorem run_escape_top (cs : Chars) (top : List Tok) (cur : Option Nat) :
    run ⟨top, [], cur, .normal⟩ (escapeAll cs) = ⟨(litToks cs).reverse ++ top, [], lastOr cur cs, .normal⟩ := by
  induction cs generalizing top cur with
  | nil => simp [run, escapeAll, litToks, lastOr]
  | cons c cs ih =>
    have e : escapeAll (c :: cs) = 92 :: c :: escapeAll cs := by simp [escapeAll]
    rw [e, run_cons, run_cons]
    have s1 : step ⟨top, [], cur, .normal⟩ 92 = ⟨top, [], some 92, .esc⟩ := by simp [step, stepNormal]
    have s2 : step ⟨top, [], some 92, .esc⟩ c = ⟨.atom (.lit c) :: top, [], some c, .normal⟩ := by
      simp [step, pushAtom]
    rw [s1, s2, ih, lastOr_cons]
    simp [litToks]

/-- escaping makes every character literal, metacharacter or not -/
theorem parse_escapeAll (cs : Chars) : parse (escapeAll cs) = .ok (litToks cs) := by
  rw [parse_eq]
  have : ({} : PSt) = ⟨[], [], none, .normal⟩ := rfl
  rw [this, run_escape_top cs]
  simp [finish, closeAlts]

/-- `A/**/B` -/
theorem parse_rec_middle (A B : Chars) (hA : ∀ c ∈ A, Plain c) (hB : ∀ c ∈ B, Plain c) :
    parse (A ++ [47, 42, 42, 47] ++ B) = .ok (litToks A ++ [.atom .recZOM] ++ litToks B) := by
  rw [parse_eq, run_append, run_append]
  have : ({} : PSt) = ⟨[], [], none, .normal⟩ := rfl
  rw [this, run_plain_top A hA]
  have mid : run ⟨(litToks A).reverse ++ [], [], lastOr none A, .normal⟩ [47, 42, 42, 47] =
      ⟨.atom .recZOM :: ((litToks A).reverse ++ []), [], some 47, .normal⟩ := by
    simp [run, step, stepNormal, pushAtom, afterStar2, star2, haveTokens, isSep, replaceLast, replaceAtom]
  rw [mid, run_plain_top B hB]
  simp [finish, closeAlts]

/-- `**/X` -/
theorem parse_rec_prefix (X : Chars) (hX : ∀ c ∈ X, Plain c) :
    parse ([42, 42, 47] ++ X) = .ok (.atom .recPrefix :: litToks X) := by
  rw [parse_eq, run_append]
  have first : run {} [42, 42, 47] = ⟨[.atom .recPrefix], [], some 47, .normal⟩ := by
    simp [run, step, stepNormal, pushAtom, afterStar2, star2, haveTokens, isSep]
  rw [first, run_plain_top X hX]
  simp [finish, closeAlts]

/-- `X/**` -/
theorem parse_rec_suffix (X : Chars) (hX : ∀ c ∈ X, Plain c) :
    parse (X ++ [47, 42, 42]) = .ok (litToks X ++ [.atom .recSuffix]) := by
  rw [parse_eq, run_append]
  have : ({} : PSt) = ⟨[], [], none, .normal⟩ := rfl
  rw [this, run_plain_top X hX]
  simp [run, step, stepNormal, pushAtom, finish, closeAlts, star2, haveTokens, isSep, replaceLast, replaceAtom]

/-- `P{A,B}Q` -/
theorem parse_alt2 (P A B Q : Chars) (hP : ∀ c ∈ P, Plain c) (hA : ∀ c ∈ A, Plain c)
    (hB : ∀ c ∈ B, Plain c) (hQ : ∀ c ∈ Q, Plain c) :
    parse (P ++ [123] ++ A ++ [44] ++ B ++ [125] ++ Q) =
      .ok (litToks P ++ [.alt [B.map Atom.lit, A.map Atom.lit]] ++ litToks Q) := by
  rw [parse_eq]
  simp only [run_append]
  have : ({} : PSt) = ⟨[], [], none, .normal⟩ := rfl
  rw [this, run_plain_top P hP]
  have s1 : run ⟨(litToks P).reverse ++ [], [], lastOr none P, .normal⟩ [123] =
      ⟨(litToks P).reverse ++ [], [[]], some 123, .normal⟩ := by
    simp [run, step, stepNormal]
  rw [s1, run_plain_alt A hA]
  have s2 : run ⟨(litToks P).reverse ++ [], [(A.map Atom.lit).reverse ++ []], lastOr (some 123) A, .normal⟩ [44] =
      ⟨(litToks P).reverse ++ [], [[], (A.map Atom.lit).reverse ++ []], some 44, .normal⟩ := by
    simp [run, step, stepNormal]
  rw [s2, run_plain_alt B hB]
  have s3 : run ⟨(litToks P).reverse ++ [], [(B.map Atom.lit).reverse ++ [], (A.map Atom.lit).reverse ++ []],
        lastOr (some 44) B, .normal⟩ [125] =
      ⟨.alt [B.map Atom.lit, A.map Atom.lit] :: ((litToks P).reverse ++ []), [], some 125, .normal⟩ := by
    simp [run, step, stepNormal]
  rw [s3, run_plain_top Q hQ]
  simp [finish, closeAlts]

/-- a plain member of a character class -/
def PlainMember (c : Nat) : Prop := c ≠ 93 ∧ c ≠ 45

theorem run_class_members (M : Chars) (hM : ∀ c ∈ M, PlainMember c) (top : List Tok) (neg : Bool)
    (rs : List (Nat × Nat)) (first : Bool) (cur : Option Nat) (hne : M ≠ []) :
    run ⟨top, [], cur, .cls neg rs first false⟩ M =
      ⟨top, [], lastOr cur M, .cls neg ((M.map fun c => (c, c)).reverse ++ rs) false false⟩ := by
  induction M generalizing rs first cur with
  | nil => exact absurd rfl hne
  | cons c M ih =>
    obtain ⟨h1, h2⟩ := hM c (by simp)
    have s : step ⟨top, [], cur, .cls neg rs first false⟩ c = ⟨top, [], some c, .cls neg ((c, c) :: rs) false false⟩ := by
      simp [step, stepCls, h1, h2]
    rw [run_cons, s, lastOr_cons]
    cases M with
    | nil => simp [run, lastOr]
    | cons d M =>
      rw [ih (fun x hx => hM x (by simp [hx])) _ _ _ (by simp)]
      simp

/-- `P[M]Q`: a class of plain members (the first is not '!' or '^') -/
theorem parse_class (P M Q : Chars) (hP : ∀ c ∈ P, Plain c) (hQ : ∀ c ∈ Q, Plain c)
    (hM : ∀ c ∈ M, PlainMember c) (hne : M ≠ []) (hfirst : M.head? ≠ some 33 ∧ M.head? ≠ some 94) :
    parse (P ++ [91] ++ M ++ [93] ++ Q) =
      .ok (litToks P ++ [.atom (.cls false (M.map fun c => (c, c)))] ++ litToks Q) := by
  rw [parse_eq]
  simp only [run_append]
  have : ({} : PSt) = ⟨[], [], none, .normal⟩ := rfl
  rw [this, run_plain_top P hP]
  have s1 : run ⟨(litToks P).reverse ++ [], [], lastOr none P, .normal⟩ [91] =
      ⟨(litToks P).reverse ++ [], [], some 91, .clsOpen⟩ := by
    simp [run, step, stepNormal]
  rw [s1]
  cases M with
  | nil => exact absurd rfl hne
  | cons c M =>
    obtain ⟨h1, h2⟩ := hM c (by simp)
    have h33 : c ≠ 33 := fun e => hfirst.1 (by simp [e])
    have h94 : c ≠ 94 := fun e => hfirst.2 (by simp [e])
    have s2 : step ⟨(litToks P).reverse ++ [], [], some 91, .clsOpen⟩ c =
        ⟨(litToks P).reverse ++ [], [], some c, .cls false [(c, c)] false false⟩ := by
      simp [step, stepCls, h1, h2, h33, h94]
    have rest : run ⟨(litToks P).reverse ++ [], [], some c, .cls false [(c, c)] false false⟩ M =
        ⟨(litToks P).reverse ++ [], [], lastOr (some c) M,
          .cls false ((M.map fun c => (c, c)).reverse ++ [(c, c)]) false false⟩ := by
      cases M with
      | nil => simp [run, lastOr]
      | cons d M => exact run_class_members (d :: M) (fun x hx => hM x (by simp [hx])) _ _ _ _ _ (by simp)
    have hrun : run ⟨(litToks P).reverse ++ [], [], some 91, .clsOpen⟩ (c :: M) =
        ⟨(litToks P).reverse ++ [], [], lastOr (some c) M,
          .cls false ((M.map fun c => (c, c)).reverse ++ [(c, c)]) false false⟩ := by
      rw [run_cons, s2, rest]
    rw [hrun]
    have s3 : run ⟨(litToks P).reverse ++ [], [], lastOr (some c) M,
          .cls false ((M.map fun c => (c, c)).reverse ++ [(c, c)]) false false⟩ [93] =
        ⟨.atom (.cls false ((c, c) :: M.map fun c => (c, c))) :: ((litToks P).reverse ++ []), [], some 93, .normal⟩ := by
      simp [run, step, stepCls, pushAtom]
    rw [s3, run_plain_top Q hQ]
    simp [finish, closeAlts]

/-- `[lo-hi]` -/
theorem parse_range (lo hi : Nat) (h1 : PlainMember lo) (h2 : PlainMember hi) (h3 : lo ≠ 33 ∧ lo ≠ 94) :
    parse [91, lo, 45, hi, 93] =
      if hi < lo then .error (.invalidRange lo hi) else .ok [.atom (.cls false [(lo, hi)])] := by
  obtain ⟨a1, a2⟩ := h1
  obtain ⟨b1, b2⟩ := h2
  by_cases h : hi < lo
  · simp [parse, step, stepNormal, stepCls, addRange, finish, closeAlts, pushAtom, a1, a2, b1, b2, h3.1, h3.2, h]
  · simp [parse, step, stepNormal, stepCls, addRange, finish, closeAlts, pushAtom, a1, a2, b1, b2, h3.1, h3.2, h]


/-- `A\,B` outside braces -/
theorem parse_escaped_comma_top (A B : Chars) (hA : ∀ c ∈ A, Plain c) (hB : ∀ c ∈ B, Plain c) :
    parse (A ++ [92, 44] ++ B) = .ok (litToks (A ++ [44] ++ B)) := by
  rw [parse_eq]
  simp only [run_append]
  have : ({} : PSt) = ⟨[], [], none, .normal⟩ := rfl
  rw [this, run_plain_top A hA]
  have s1 : run ⟨(litToks A).reverse ++ [], [], lastOr none A, .normal⟩ [92, 44] =
      ⟨.atom (.lit 44) :: ((litToks A).reverse ++ []), [], some 44, .normal⟩ := by
    simp [run, step, stepNormal, pushAtom]
  rw [s1, run_plain_top B hB]
  simp [finish, closeAlts, litToks]

/-- `{A\,B}`: one alternative with a literal comma -/
theorem parse_escaped_comma_alt (A B : Chars) (hA : ∀ c ∈ A, Plain c) (hB : ∀ c ∈ B, Plain c) :
    parse ([123] ++ A ++ [92, 44] ++ B ++ [125]) = .ok [.alt [(A ++ [44] ++ B).map Atom.lit]] := by
  rw [parse_eq]
  simp only [run_append]
  have s0 : run {} [123] = ⟨[], [[]], some 123, .normal⟩ := by simp [run, step, stepNormal]
  rw [s0, run_plain_alt A hA]
  have s1 : run ⟨[], [(A.map Atom.lit).reverse ++ []], lastOr (some 123) A, .normal⟩ [92, 44] =
      ⟨[], [.lit 44 :: ((A.map Atom.lit).reverse ++ [])], some 44, .normal⟩ := by
    simp [run, step, stepNormal, pushAtom]
  rw [s1, run_plain_alt B hB]
  simp [run, step, stepNormal, finish, closeAlts]

/-! ### the languages of those shapes -/

theorem atomsDen_map (a : List Atom) (s : Bytes) : Den (a.map Tok.atom) s ↔ AtomsDen a s := by
  induction a generalizing s with
  | nil => simp [Den, AtomsDen]
  | cons x a ih => simp only [List.map_cons, Den, TokDen, AtomsDen, ih]

/-- ALTERNATION, token level: a brace group in any context matches iff the pattern with one of its
non-empty alternatives in its place matches; a group without a non-empty alternative matches iff
the pattern without the group does -/
theorem den_alt (pre post : Tokens) (alts : List (List Atom)) (p : Bytes) :
    Den (pre ++ .alt alts :: post) p ↔
      if liveAlts alts = [] then Den (pre ++ post) p
      else ∃ a ∈ liveAlts alts, Den (pre ++ a.map Tok.atom ++ post) p := by
  by_cases hl : liveAlts alts = []
  · simp only [hl, if_true, den_append, Den, TokDen]
    constructor
    · rintro ⟨u, v, rfl, hu, w, z, rfl, rfl, hz⟩; exact ⟨u, z, by simp, hu, hz⟩
    · rintro ⟨u, v, rfl, hu, hv⟩; exact ⟨u, v, rfl, hu, [], v, rfl, rfl, hv⟩
  · simp only [hl, if_false, den_append, Den, TokDen, atomsDen_map, List.append_assoc]
    constructor
    · rintro ⟨u, v, rfl, hu, w, z, rfl, ⟨a, ha, hw⟩, hz⟩
      exact ⟨a, ha, u, w ++ z, rfl, hu, w, z, rfl, hw, hz⟩
    · rintro ⟨a, ha, u, v, rfl, hu, w, z, rfl, hw, hz⟩
      exact ⟨u, w ++ z, rfl, hu, w, z, rfl, ⟨a, ha, hw⟩, hz⟩

theorem map_lit_eq_litToks (A : Chars) : (A.map Atom.lit).map Tok.atom = litToks A := by
  simp [litToks]

/-- `P{A,B}Q` matches exactly `PAQ` (if `A` is not empty) and `PBQ` (if `B` is not empty); with both
empty it matches `PQ` -/
theorem den_alt2 (P A B Q : Chars) (p : Bytes) :
    Den (litToks P ++ [.alt [B.map Atom.lit, A.map Atom.lit]] ++ litToks Q) p ↔
      if A = [] ∧ B = [] then p = encPat (P ++ Q)
      else (A ≠ [] ∧ p = encPat (P ++ A ++ Q)) ∨ (B ≠ [] ∧ p = encPat (P ++ B ++ Q)) := by
  have e : litToks P ++ [Tok.alt [B.map Atom.lit, A.map Atom.lit]] ++ litToks Q =
      litToks P ++ Tok.alt [B.map Atom.lit, A.map Atom.lit] :: litToks Q := by simp
  rw [e, den_alt]
  have lits (X : Chars) : Den (litToks P ++ (X.map Atom.lit).map Tok.atom ++ litToks Q) p ↔ p = encPat (P ++ X ++ Q) := by
    rw [map_lit_eq_litToks, ← litToks_append, ← litToks_append, den_litToks]
  have hPQ : Den (litToks P ++ litToks Q) p ↔ p = encPat (P ++ Q) := by
    rw [← litToks_append, den_litToks]
  cases A with
  | nil =>
    cases B with
    | nil => simp [liveAlts, hPQ]
    | cons b B =>
      have hl : liveAlts [(b :: B).map Atom.lit, ([] : Chars).map Atom.lit] = [(b :: B).map Atom.lit] := by
        simp [liveAlts]
      rw [hl]
      simp only [reduceCtorEq, if_false, List.mem_singleton, exists_eq_left, lits, and_false, ne_eq,
        not_true_eq_false, false_and, false_or, not_false_eq_true, true_and]
  | cons a A =>
    cases B with
    | nil =>
      have hl : liveAlts [([] : Chars).map Atom.lit, (a :: A).map Atom.lit] = [(a :: A).map Atom.lit] := by
        simp [liveAlts]
      rw [hl]
      simp only [reduceCtorEq, if_false, List.mem_singleton, exists_eq_left, lits, false_and, ne_eq,
        not_true_eq_false, or_false, not_false_eq_true, true_and]
    | cons b B =>
      have hl : liveAlts [(b :: B).map Atom.lit, (a :: A).map Atom.lit] =
          [(b :: B).map Atom.lit, (a :: A).map Atom.lit] := by simp [liveAlts]
      rw [hl]
      simp only [reduceCtorEq, if_false, List.mem_cons, List.not_mem_nil, or_false, exists_eq_or_imp,
        exists_eq_left, lits, false_and, and_false, ne_eq, not_false_eq_true, true_and]
      exact Or.comm

/-- `A/**/B` matches `A/B` and `A/…/B` and nothing else -/
theorem den_rec_middle (A B : Chars) (p : Bytes) :
    Den (litToks A ++ [.atom .recZOM] ++ litToks B) p ↔
      p = encPat A ++ [47] ++ encPat B ∨ ∃ m, p = encPat A ++ [47] ++ m ++ [47] ++ encPat B := by
  simp only [den_append, den_litToks, den_single, AtomDen]
  constructor
  · rintro ⟨u, v, rfl, ⟨a, z, rfl, rfl, (rfl | ⟨m, rfl⟩)⟩, rfl⟩
    · left; simp
    · right; exact ⟨m, by simp⟩
  · rintro (rfl | ⟨m, rfl⟩)
    · exact ⟨_, _, rfl, ⟨_, _, rfl, rfl, Or.inl rfl⟩, rfl⟩
    · exact ⟨encPat A ++ 47 :: (m ++ [47]), _, by simp, ⟨_, _, rfl, rfl, Or.inr ⟨m, rfl⟩⟩, rfl⟩

/-- a class of single ASCII members admits exactly its members -/
theorem classMatch_members (M : Chars) (hM : ∀ c ∈ M, c < 128) (b : Nat) :
    classMatch false (M.map fun c => (c, c)) b = true ↔ b ∈ M := by
  simp only [classMatch, List.any_map, bne_iff_ne, ne_eq, Bool.not_eq_false, List.any_eq_true,
    Function.comp]
  constructor
  · rintro ⟨c, hc, h⟩
    have hlt := hM c hc
    simp only [rangeMatch, if_true, enc, hlt, List.contains_iff_mem, List.mem_singleton] at h
    exact h ▸ hc
  · intro hb
    refine ⟨b, hb, ?_⟩
    simp [rangeMatch, enc, hM b hb]

/-- an ASCII range admits exactly the bytes between its ends -/
theorem classMatch_range (lo hi : Nat) (h1 : lo < hi) (h2 : hi < 128) (b : Nat) :
    classMatch false [(lo, hi)] b = true ↔ lo ≤ b ∧ b ≤ hi := by
  have hne : lo ≠ hi := by omega
  have hlo : lo < 128 := by omega
  simp [classMatch, rangeMatch, hne, enc, hlo, h2]

/-- negation complements the class -/
theorem classMatch_neg (rs : List (Nat × Nat)) (b : Nat) :
    classMatch true rs b = !classMatch false rs b := by
  simp [classMatch]

end Grcov.GlobSyntax
