/-
C14 for the gcno/gcda reader: the stack invariant of the cycle search (`look_for_circuit`, a variant
of Johnson's algorithm): a block on the recursion stack stays in `blocked`.  Consequences: no block
is twice on the stack (so the depth fuel `circuitFuel` suffices) and no arc is twice on `path` (so
`get_cycle_count` never underflows).

The invariant.  `blocked` grows at its end and shrinks by erasures, so its order is the order of
blocking times.  `Bef K x t` = "x is before t in K".  The stack `T` (ancestors, outermost first) is a
sublist of `blocked`.  `LInv`: for every stack block `t`, the `block_lists` entry of a block that is
`t` or was blocked after `t` names only blocks that are not `t` and not before `t`.  (An entry `x` is
added to a list when an activation of `x` ends; lists are created empty when their owner is
blocked; hence the entries of lists younger than `t` were added while `t` was on the stack, by
activations nested in that of `t`.)  `unblock` therefore only ever reaches blocks younger than every
stack block.
-/
import GrcovModel.Lemmas.GcnoSafeFinal
namespace Grcov.Gcno
open Outcome
open scoped List

/-! ## order in a duplicate-free list -/

/-- `x` is (strictly) before `t` in `K` -/
def Bef (K : List Nat) (x t : Nat) : Prop := [x, t] <+ K

theorem Bef.mono {K' K : List Nat} {x t : Nat} (h : K' <+ K) (hb : Bef K' x t) : Bef K x t :=
  List.Sublist.trans hb h

theorem Bef.mem_left {K : List Nat} {x t : Nat} (h : Bef K x t) : x ∈ K := h.subset (by simp)
theorem Bef.mem_right {K : List Nat} {x t : Nat} (h : Bef K x t) : t ∈ K := h.subset (by simp)

theorem Bef.asymm : ∀ {K : List Nat} {x t : Nat}, K.Nodup → Bef K x t → ¬ Bef K t x := by
  intro K
  induction K with
  | nil => intro x t _ h; cases h
  | cons a K ih =>
    intro x t hn h1 h2
    have hnK : K.Nodup := (List.nodup_cons.1 hn).2
    have haK : a ∉ K := (List.nodup_cons.1 hn).1
    unfold Bef at h1 h2
    rcases List.sublist_cons_iff.1 h1 with h1 | ⟨r1, e1, h1⟩
    · rcases List.sublist_cons_iff.1 h2 with h2 | ⟨r2, e2, h2⟩
      · exact ih hnK h1 h2
      · have hta : t = a := (List.cons.inj e2).1
        have htK : t ∈ K := h1.subset (by simp)
        exact haK (hta ▸ htK)
    · have hx : x = a := (List.cons.inj e1).1
      have hr : [t] = r1 := (List.cons.inj e1).2
      have htK : t ∈ K := by
        have : [t] <+ K := hr ▸ h1
        exact this.subset (by simp)
      rcases List.sublist_cons_iff.1 h2 with h2 | ⟨r2, e2, h2⟩
      · have hxK : x ∈ K := h2.subset (by simp)
        exact haK (hx ▸ hxK)
      · have hta : t = a := (List.cons.inj e2).1
        exact haK (hta ▸ htK)

theorem Bef.ne {K : List Nat} {x t : Nat} (hn : K.Nodup) (h : Bef K x t) : x ≠ t := by
  intro e
  subst e
  have := List.Nodup.sublist h hn
  simp at this

theorem bef_append_last {K : List Nat} {x : Nat} (v : Nat) (h : x ∈ K) : Bef (K ++ [v]) x v := by
  have h1 : [x] <+ K := List.singleton_sublist.2 h
  exact List.Sublist.append h1 (List.Sublist.refl [v])

theorem bef_of_append_last {K : List Nat} {x t v : Nat} (hv : t ≠ v) (h : Bef (K ++ [v]) x t) :
    Bef K x t := by
  unfold Bef at h
  obtain ⟨a, b, e, ha, hb⟩ := List.sublist_append_iff.1 h
  have hb' : b = [] ∨ b = [v] := by
    cases b with
    | nil => exact .inl rfl
    | cons c b =>
      have := hb.length_le
      cases b with
      | nil =>
        have : c ∈ [v] := hb.subset (by simp)
        simp at this; subst this; exact .inr rfl
      | cons d b => simp at this
  rcases hb' with rfl | rfl
  · simp only [List.append_nil] at e; subst e; exact ha
  · exfalso
    -- `[x, t] = a ++ [v]` forces `t = v`
    have : ([x, t] : List Nat).getLast? = (a ++ [v]).getLast? := by rw [e]
    simp at this
    exact hv this

theorem not_bef_last {K : List Nat} {v u : Nat} (hv : v ∉ K) : ¬ Bef (K ++ [v]) v u := by
  intro h
  unfold Bef at h
  obtain ⟨a, b, e, ha, hb⟩ := List.sublist_append_iff.1 h
  cases a with
  | nil =>
    simp only [List.nil_append] at e
    subst e
    have := hb.length_le
    simp at this
  | cons c a =>
    simp only [List.cons_append, List.cons.injEq] at e
    have : c ∈ K := ha.subset (by simp)
    exact hv (e.1 ▸ this)

/-- a stack block is before the block pushed after it -/
theorem bef_of_stack {K T : List Nat} {t v : Nat} (h : T ++ [v] <+ K) (ht : t ∈ T) : Bef K t v :=
  List.Sublist.trans (List.Sublist.append (List.singleton_sublist.2 ht) (List.Sublist.refl [v])) h

theorem sublist_eraseIdx_of_not_mem : ∀ {T K : List Nat} (i : Nat) (b : Nat), T <+ K →
    K[i]? = some b → b ∉ T → T <+ K.eraseIdx i := by
  intro T K i b h
  induction h generalizing i with
  | slnil => intro hi _; simp at hi
  | cons a h ih =>
    intro hi hb
    cases i with
    | zero => simpa using h
    | succ i =>
      simp only [List.eraseIdx_cons_succ]
      exact List.Sublist.cons a (ih i (by simpa using hi) hb)
  | cons_cons a h ih =>
    intro hi hb
    cases i with
    | zero =>
      simp only [List.getElem?_cons_zero, Option.some.injEq] at hi
      subst hi
      exact absurd (by simp) hb
    | succ i =>
      simp only [List.eraseIdx_cons_succ]
      exact List.Sublist.cons_cons a (ih i (by simpa using hi) (fun hm => hb (List.mem_cons_of_mem _ hm)))

/-- pigeonhole: a duplicate-free list of numbers below `n` has at most `n` elements -/
theorem nodup_length_le : ∀ (n : Nat) (l : List Nat), l.Nodup → (∀ x ∈ l, x < n) → l.length ≤ n := by
  intro n
  induction n with
  | zero =>
    intro l _ h
    cases l with
    | nil => simp
    | cons a l => exact absurd (h a (by simp)) (by omega)
  | succ n ih =>
    intro l hn h
    have h1 := ih (l.erase n) (hn.erase n) (fun x hx => by
      have := (hn.mem_erase_iff).1 hx
      have := h x this.2
      omega)
    have h2 : l.length ≤ (l.erase n).length + 1 := by
      by_cases hm : n ∈ l
      · rw [List.length_erase_of_mem hm]; omega
      · rw [List.erase_of_not_mem hm]; omega
    omega

theorem bef_total : ∀ {K : List Nat} {x t : Nat}, x ∈ K → t ∈ K → x ≠ t → Bef K x t ∨ Bef K t x := by
  intro K
  induction K with
  | nil => intro x t hx; simp at hx
  | cons a K ih =>
    intro x t hx ht hne
    rcases List.mem_cons.1 hx with hxa | hxK
    · rcases List.mem_cons.1 ht with hta | htK
      · exact absurd (hxa.trans hta.symm) hne
      · exact .inl (hxa ▸ List.Sublist.cons_cons _ (List.singleton_sublist.2 htK))
    · rcases List.mem_cons.1 ht with hta | htK
      · exact .inr (hta ▸ List.Sublist.cons_cons _ (List.singleton_sublist.2 hxK))
      · rcases ih hxK htK hne with h | h
        · exact .inl (List.Sublist.cons _ h)
        · exact .inr (List.Sublist.cons _ h)

/-! ## the invariant of `block_lists` -/

/-- for every stack block `t`: the list of a block that is `t` or younger than `t` names no block
that is `t` or older than `t` -/
def LInv (bl : List Nat) (ls : List (List Nat)) (T : List Nat) : Prop :=
  ∀ t ∈ T, ∀ p ∈ bl.zip ls, (p.1 = t ∨ Bef bl t p.1) → ∀ y ∈ p.2, y ≠ t ∧ ¬ Bef bl y t

theorem LInv.subset {bl : List Nat} {ls : List (List Nat)} {T T' : List Nat} (h : LInv bl ls T)
    (hs : ∀ t ∈ T', t ∈ T) : LInv bl ls T' := fun t ht => h t (hs t ht)

theorem zip_eraseIdx {α β : Type} : ∀ (l1 : List α) (l2 : List β) (i : Nat),
    (l1.zip l2).eraseIdx i = (l1.eraseIdx i).zip (l2.eraseIdx i)
  | [], _, _ => by simp
  | _ :: _, [], i => by cases i <;> simp
  | a :: l1, b :: l2, 0 => by simp
  | a :: l1, b :: l2, i + 1 => by simp [zip_eraseIdx l1 l2 i]

theorem LInv.eraseIdx {bl : List Nat} {ls : List (List Nat)} {T : List Nat} (h : LInv bl ls T)
    (i : Nat) : LInv (bl.eraseIdx i) (ls.eraseIdx i) T := by
  intro t ht p hp hpre y hy
  rw [← zip_eraseIdx] at hp
  have hp' := List.mem_of_mem_eraseIdx hp
  have hsub := List.eraseIdx_sublist bl i
  have := h t ht p hp' (hpre.imp id (Bef.mono hsub)) y hy
  exact ⟨this.1, fun hb => this.2 (Bef.mono hsub hb)⟩

theorem mem_zip_of_getElem? {α β : Type} {l1 : List α} {l2 : List β} {i : Nat} {a : α} {b : β}
    (h1 : l1[i]? = some a) (h2 : l2[i]? = some b) : (a, b) ∈ l1.zip l2 := by
  apply List.mem_of_getElem? (i := i)
  rw [List.getElem?_zip_eq_some]
  exact ⟨h1, h2⟩

theorem position_spec {l : List Nat} {x i : Nat} (h : position l x = some i) : l[i]? = some x := by
  unfold position at h
  simp only at h
  split at h
  · rename_i hlt
    simp only [Option.some.injEq] at h
    subst h
    rw [List.getElem?_eq_getElem hlt]
    have := List.findIdx_getElem (w := hlt)
    simp only [beq_iff_eq] at this
    rw [this]
  · cases h

/-- **`unblock` never reaches a stack block**: started at a block that is not on the stack and not
older than any stack block, it only erases entries, keeps the stack a sublist of `blocked`, and
keeps the invariant -/
theorem unblock_inv (T : List Nat) : ∀ (fuel b : Nat) (bl : List Nat) (ls : List (List Nat)),
    bl.length = ls.length → bl.length < fuel → bl.Nodup → LInv bl ls T → T <+ bl →
    (∀ t ∈ T, b ≠ t ∧ ¬ Bef bl b t) →
    Sat NoSite False (unblock fuel b (bl, ls)) fun r =>
      r.1.length = r.2.length ∧ r.1.length ≤ bl.length ∧ r.1 <+ bl ∧ LInv r.1 r.2 T ∧ T <+ r.1 := by
  intro fuel
  induction fuel with
  | zero => intro b bl ls _ h; omega
  | succ fuel ih =>
    intro b bl ls hlen hfuel hnd hinv hT hb
    simp only [unblock]
    cases hp : position bl b with
    | none => exact ⟨hlen, Nat.le_refl _, List.Sublist.refl _, hinv, hT⟩
    | some i =>
      have hi := position_lt hp
      have hbi := position_spec hp
      simp only
      have hli : ls[i]? = some ls[i] := List.getElem?_eq_getElem (by omega)
      rw [hli]
      simp only
      have hbT : b ∉ T := fun hm => (hb b hm).1 rfl
      have hmem : (b, ls[i]) ∈ bl.zip ls := mem_zip_of_getElem? hbi hli
      have hsub := List.eraseIdx_sublist bl i
      refine (Sat.foldl (C := NoSite) (D := False)
        (Inv := fun r : List Nat × List (List Nat) =>
          r.1.length = r.2.length ∧ r.1.length ≤ bl.length - 1 ∧ r.1 <+ bl.eraseIdx i ∧
            LInv r.1 r.2 T ∧ T <+ r.1) _ _ ?_ ?_).mono ?_
      · refine ⟨?_, ?_, List.Sublist.refl _, hinv.eraseIdx i, sublist_eraseIdx_of_not_mem i b hT hbi hbT⟩
        · simp only [List.length_eraseIdx]
          rw [if_pos hi, if_pos (by omega : i < ls.length)]
          omega
        · simp only [List.length_eraseIdx]
          rw [if_pos hi]
          omega
      · intro r b' hb' hr
        obtain ⟨bl', ls'⟩ := r
        obtain ⟨h1, h2, h3, h4, h5⟩ := hr
        have h1 : bl'.length = ls'.length := h1
        have h2 : bl'.length ≤ bl.length - 1 := h2
        have h3 : bl' <+ bl.eraseIdx i := h3
        have hsub' : bl' <+ bl := List.Sublist.trans h3 hsub
        refine (ih b' bl' ls' h1 (by omega) (List.Nodup.sublist hsub' hnd) h4 h5 ?_).mono ?_
        · intro t ht
          have htbl : t ∈ bl := hT.subset ht
          have hbt := hb t ht
          have hbbl : b ∈ bl := List.mem_of_getElem? hbi
          have hbef : Bef bl t b := by
            rcases bef_total hbbl htbl hbt.1 with h | h
            · exact absurd h hbt.2
            · exact h
          have := hinv t ht (b, ls[i]) hmem (.inr hbef) b' hb'
          exact ⟨this.1, fun hbf => this.2 (Bef.mono hsub' hbf)⟩
        · intro r' hr'
          obtain ⟨bl'', ls''⟩ := r'
          obtain ⟨g1, g2, g3, g4, g5⟩ := hr'
          have g2 : bl''.length ≤ bl'.length := g2
          exact ⟨g1, (by omega : bl''.length ≤ bl.length - 1), List.Sublist.trans g3 h3, g4, g5⟩
      · intro r hr
        obtain ⟨g1, g2, g3, g4, g5⟩ := hr
        exact ⟨g1, by omega, List.Sublist.trans g3 hsub, g4, g5⟩

/-- appending a block that is not on the stack and not older than a stack block to one list -/
theorem LInv.set_append {bl : List Nat} {ls : List (List Nat)} {T : List Nat} (h : LInv bl ls T)
    {i : Nat} {l : List Nat} {x : Nat} (hl : ls[i]? = some l)
    (hx : ∀ t ∈ T, x ≠ t ∧ ¬ Bef bl x t) : LInv bl (ls.set i (l ++ [x])) T := by
  intro t ht p hp hpre y hy
  obtain ⟨j, hj⟩ := List.mem_iff_getElem?.1 hp
  rw [List.getElem?_zip_eq_some] at hj
  obtain ⟨hj1, hj2⟩ := hj
  by_cases hij : i = j
  · subst hij
    have hlt : i < ls.length := by
      rcases Nat.lt_or_ge i ls.length with h' | h'
      · exact h'
      · rw [List.getElem?_eq_none h'] at hl; cases hl
    rw [List.getElem?_set_self hlt] at hj2
    simp only [Option.some.injEq] at hj2
    rw [← hj2] at hy
    rcases List.mem_append.1 hy with hy | hy
    · exact h t ht (p.1, l) (mem_zip_of_getElem? hj1 hl) hpre y hy
    · simp only [List.mem_singleton] at hy
      subst hy
      exact hx t ht
  · rw [List.getElem?_set_ne hij] at hj2
    exact h t ht p (mem_zip_of_getElem? hj1 hj2) hpre y hy

theorem noteBlocked_inv (arcs : List Arc) (bs : List Nat) (start v : Nat) (T : List Nat) :
    ∀ (es : List Nat) (s : CS), (∀ e ∈ es, e < arcs.length) →
    s.blocked.length = s.lists.length → LInv s.blocked s.lists T →
    (∀ t ∈ T, v ≠ t ∧ ¬ Bef s.blocked v t) →
    Sat NoSite False (noteBlocked arcs bs start v es s) fun r =>
      r.blocked = s.blocked ∧ r.path = s.path ∧ r.blocked.length = r.lists.length ∧
        LInv r.blocked r.lists T := by
  intro es
  induction es with
  | nil => intro s _ hs hinv _; exact ⟨rfl, rfl, hs, hinv⟩
  | cons e es ih =>
    intro s h hs hinv hv
    have hes : ∀ e ∈ es, e < arcs.length := fun e he => h e (List.mem_cons_of_mem _ he)
    simp only [noteBlocked]
    rw [List.getElem?_eq_getElem (h e (by simp))]
    simp only
    split
    · cases hp : position s.blocked (arcs[e]'(h e (by simp))).dst with
      | none => exact ih s hes hs hinv hv
      | some i =>
        have hi := position_lt hp
        simp only
        have hli : s.lists[i]? = some s.lists[i] := List.getElem?_eq_getElem (by omega)
        rw [hli]
        simp only
        split
        · exact ih s hes hs hinv hv
        · exact ih { s with lists := s.lists.set i (s.lists[i] ++ [v]) } hes (by simp [hs])
            (hinv.set_append hli hv) hv
    · exact ih s hes hs hinv hv

/-! ## `get_cycle_count` on a path without repeated arcs -/

theorem foldl_min_le (cyc : Nat → Nat) : ∀ (path : List Nat) (c0 : Nat),
    path.foldl (fun c e => min c (cyc e)) c0 ≤ c0 ∧
    ∀ e ∈ path, path.foldl (fun c e => min c (cyc e)) c0 ≤ cyc e := by
  intro path
  induction path with
  | nil => intro c0; simp
  | cons a path ih =>
    intro c0
    simp only [List.foldl_cons]
    have := ih (min c0 (cyc a))
    refine ⟨Nat.le_trans this.1 (Nat.min_le_left _ _), ?_⟩
    intro e he
    rcases List.mem_cons.1 he with rfl | he
    · exact Nat.le_trans this.1 (Nat.min_le_right _ _)
    · exact this.2 e he

theorem subCycle_fold (count : Nat) : ∀ (path : List Nat) (cy : Nat → Nat), path.Nodup →
    (∀ e ∈ path, count ≤ cy e) →
    Sat NoSite False (Outcome.foldl (subCycle count) cy path) fun _ => True := by
  intro path
  induction path with
  | nil => intro cy _ _; trivial
  | cons a path ih =>
    intro cy hn h
    rw [foldl_cons]
    apply Sat.bind
    unfold subCycle
    have ha := h a (by simp)
    rw [if_neg (by omega)]
    simp only [sat_ok]
    apply ih _ (List.nodup_cons.1 hn).2
    intro e he
    have : e ≠ a := fun heq => (List.nodup_cons.1 hn).1 (heq ▸ he)
    simp only [upd, if_neg this]
    exact h e (List.mem_cons_of_mem _ he)

theorem cycleCount_nodup (cyc : Nat → Nat) (path : List Nat) (h : path.Nodup) :
    Sat NoSite False (cycleCount cyc path) fun _ => True := by
  unfold cycleCount
  apply Sat.bind
  exact (subCycle_fold _ path cyc h (foldl_min_le cyc path U64MAX).2).mono fun _ _ => trivial

/-! ## the cycle search -/

/-- destination block of arc `e` -/
def dstOf (f : Func) (e : Nat) : Nat := (f.arcs.getD e default).dst

theorem dstOf_eq {f : Func} {e : Nat} {a : Arc} (h : f.arcs[e]? = some a) : dstOf f e = a.dst := by
  simp [dstOf, List.getD_eq_getElem?_getD, h]

theorem nodup_of_map {α β : Type} (g : α → β) : ∀ (l : List α), (l.map g).Nodup → l.Nodup := by
  intro l
  induction l with
  | nil => intro _; exact List.nodup_nil
  | cons a l ih =>
    intro h
    simp only [List.map_cons] at h
    have h' := List.nodup_cons.1 h
    exact List.nodup_cons.2 ⟨fun ha => h'.1 (List.mem_map_of_mem ha), ih h'.2⟩

theorem nodup_concat {l : List Nat} {a : Nat} (h : l.Nodup) (ha : a ∉ l) : (l ++ [a]).Nodup := by
  rw [List.nodup_append]
  refine ⟨h, by simp, ?_⟩
  intro x hx y hy
  simp only [List.mem_singleton] at hy
  subst hy
  exact fun heq => ha (heq ▸ hx)

/-- blocking a new block `v` (entry of `look_for_circuit`) keeps the invariant, for the stack with `v` -/
theorem LInv.push {bl : List Nat} {ls : List (List Nat)} {T : List Nat} {v : Nat} (h : LInv bl ls T)
    (hlen : bl.length = ls.length) (hT : ∀ t ∈ T, t ∈ bl) (hv : v ∉ bl) :
    LInv (bl ++ [v]) (ls ++ [[]]) (T ++ [v]) := by
  intro t ht p hp hpre y hy
  obtain ⟨u, lu⟩ := p
  rw [List.zip_append hlen] at hp
  rcases List.mem_append.1 hp with hp | hp
  · have hu : u ∈ bl := (List.of_mem_zip hp).1
    have huv : u ≠ v := fun e => hv (e ▸ hu)
    rcases List.mem_append.1 ht with ht | ht
    · have htv : t ≠ v := fun e => hv (e ▸ hT t ht)
      have hpre' : u = t ∨ Bef bl t u := hpre.imp id (bef_of_append_last huv)
      have := h t ht (u, lu) hp hpre' y hy
      exact ⟨this.1, fun hb => this.2 (bef_of_append_last htv hb)⟩
    · simp only [List.mem_singleton] at ht
      subst ht
      rcases hpre with e | hb
      · exact absurd e huv
      · exact absurd hb (not_bef_last hv)
  · simp only [List.zip_cons_cons, List.zip_nil_right, List.mem_singleton, Prod.mk.injEq] at hp
    rw [hp.2] at hy
    simp at hy

/-- **the stack invariant of `look_for_circuit`.** `T` = the blocks on the recursion stack above
this call (outermost first), all in `blocked`; `v` is not blocked; `path` leads from `start` along
`T` to `v`.  Then: only the overflow crash (no `underflow`: no arc is twice on the path), the depth
fuel suffices (no block is twice on the stack), and on return the stack is still blocked, the
invariant holds and `path` is restored. -/
theorem lookForCircuit_inv {f : Func} (hf : f.WF) (bs : List Nat) (start : Nat) :
    ∀ (fuel v : Nat) (s : CS) (T : List Nat), v < f.blocks.length →
    (∀ t ∈ T, t < f.blocks.length) → f.blocks.length + 2 ≤ T.length + fuel →
    s.blocked.length = s.lists.length → s.blocked.Nodup → T <+ s.blocked → v ∉ s.blocked →
    LInv s.blocked s.lists T → start :: s.path.map (dstOf f) = T ++ [v] →
    Sat OvOnly False (lookForCircuit f bs start fuel v s) fun r =>
      r.1.blocked.length = r.1.lists.length ∧ r.1.blocked.Nodup ∧ T <+ r.1.blocked ∧
        LInv r.1.blocked r.1.lists T ∧ r.1.path = s.path := by
  intro fuel
  induction fuel with
  | zero =>
    intro v s T _ hTn hfuel _ hnd hT _ _ _
    have := nodup_length_le _ T (List.Nodup.sublist hT hnd) hTn
    omega
  | succ fuel ih =>
    intro v s T hv hTn hfuel hs hnd hT hvb hinv hpath
    have hTbl : ∀ t ∈ T, t ∈ s.blocked := fun t ht => hT.subset ht
    have hnd1 : (s.blocked ++ [v]).Nodup := nodup_concat hnd hvb
    have hT1 : T ++ [v] <+ s.blocked ++ [v] := List.Sublist.append hT (List.Sublist.refl _)
    have hinv1 : LInv (s.blocked ++ [v]) (s.lists ++ [[]]) (T ++ [v]) := hinv.push hs hTbl hvb
    have hT1n : ∀ t ∈ T ++ [v], t < f.blocks.length := by
      intro t ht
      rcases List.mem_append.1 ht with ht | ht
      · exact hTn t ht
      · simp only [List.mem_singleton] at ht; omega
    have hT1nd : (T ++ [v]).Nodup := List.Nodup.sublist hT1 hnd1
    simp only [lookForCircuit]
    rw [List.getElem?_eq_getElem hv]
    have hblk := hf.ids _ (List.getElem_mem hv)
    simp only
    apply Sat.bind
    refine (Sat.foldl (C := OvOnly) (D := False)
      (Inv := fun acc : CS × Bool × Nat =>
        acc.1.blocked.length = acc.1.lists.length ∧ acc.1.blocked.Nodup ∧
          T ++ [v] <+ acc.1.blocked ∧ LInv acc.1.blocked acc.1.lists (T ++ [v]) ∧
          acc.1.path = s.path) _ _ ?_ ?_).mono ?_
    · exact ⟨by simp [hs], hnd1, hT1, hinv1, rfl⟩
    · intro acc e he hacc
      obtain ⟨s2, found, count⟩ := acc
      obtain ⟨a1, a2, a3, a4, a5⟩ := hacc
      have a1 : s2.blocked.length = s2.lists.length := a1
      have a2 : s2.blocked.Nodup := a2
      have a3 : T ++ [v] <+ s2.blocked := a3
      have a4 : LInv s2.blocked s2.lists (T ++ [v]) := a4
      have a5 : s2.path = s.path := a5
      have hlt := hblk.2 e he
      have hae : f.arcs[e]? = some f.arcs[e] := List.getElem?_eq_getElem hlt
      simp only [circuitStep]
      rw [hae]
      simp only
      split
      · split
        · rename_i hw
          -- a circuit is closed: the path with `e` has no repeated arc
          have hnodup : (s2.path ++ [e]).Nodup := by
            apply nodup_of_map (dstOf f)
            rw [a5, List.map_append, List.map_cons, List.map_nil, dstOf_eq hae, hw]
            rw [← hpath] at hT1nd
            have h1 := List.nodup_cons.1 hT1nd
            exact nodup_concat h1.2 h1.1
          apply Sat.bind
          refine ((cycleCount_nodup s2.cyc (s2.path ++ [e]) hnodup).weaken (C' := OvOnly)
            (fun _ h => h.elim) id).mono fun ⟨cy, c⟩ _ => ?_
          simp only
          split
          · rfl
          · exact ⟨a1, a2, a3, a4, by simp [a5]⟩
        · split
          · rename_i hwb
            apply Sat.bind
            have hpath' : start :: (s2.path ++ [e]).map (dstOf f) = (T ++ [v]) ++ [f.arcs[e].dst] := by
              rw [a5, List.map_append, List.map_cons, List.map_nil, dstOf_eq hae, ← List.cons_append, hpath]
            refine (ih f.arcs[e].dst { s2 with path := s2.path ++ [e] } (T ++ [v])
              (hf.arcs _ (List.getElem_mem hlt)).2 hT1n
              (by simp only [List.length_append, List.length_singleton]; omega)
              a1 a2 a3 hwb a4 hpath').mono fun ⟨s', f', c⟩ hs' => ?_
            obtain ⟨b1, b2, b3, b4, b5⟩ := hs'
            simp only
            split
            · rfl
            · refine ⟨b1, b2, b3, b4, ?_⟩
              have b5 : s'.path = s2.path ++ [e] := b5
              simp [b5, a5]
          · exact ⟨a1, a2, a3, a4, by simp [a5]⟩
      · exact ⟨a1, a2, a3, a4, a5⟩
    · intro ⟨s4, found, count⟩ hs4
      obtain ⟨c1, c2, c3, c4, c5⟩ := hs4
      have c1 : s4.blocked.length = s4.lists.length := c1
      have c2 : s4.blocked.Nodup := c2
      have c3 : T ++ [v] <+ s4.blocked := c3
      have c4 : LInv s4.blocked s4.lists (T ++ [v]) := c4
      have c5 : s4.path = s.path := c5
      have hT4 : T <+ s4.blocked := List.Sublist.trans (List.sublist_append_left T [v]) c3
      have c4T : LInv s4.blocked s4.lists T := c4.subset fun t ht => List.mem_append_left _ ht
      have hvT : ∀ t ∈ T, v ≠ t ∧ ¬ Bef s4.blocked v t := by
        intro t ht
        have hb := bef_of_stack c3 ht
        exact ⟨fun e => Bef.ne c2 hb e.symm, Bef.asymm c2 hb⟩
      simp only
      split
      · apply Sat.bind
        refine ((unblock_inv T (s4.blocked.length + 2) v s4.blocked s4.lists c1 (by omega) c2 c4T
          hT4 hvT).weaken (C' := OvOnly) (fun _ h => h.elim) id).mono fun ⟨bl, ls⟩ hr => ?_
        obtain ⟨g1, _, g3, g4, g5⟩ := hr
        exact ⟨g1, List.Nodup.sublist g3 c2, g5, g4, c5⟩
      · apply Sat.bind
        refine ((noteBlocked_inv f.arcs bs start v T _ s4 hblk.2 c1 c4T hvT).weaken (C' := OvOnly)
          (fun _ h => h.elim) id).mono fun s5 hr => ?_
        obtain ⟨g1, g2, g3, g4⟩ := hr
        refine ⟨g3, by rw [g1]; exact c2, by rw [g1]; exact hT4, g4, by rw [g2]; exact c5⟩

/-! ## line counts and `finalize`: only the overflow crash, never out of fuel -/

theorem cyclesCount_ov {f : Func} (hf : f.WF) (bs : List Nat) (cyc : Nat → Nat)
    (hbs : ∀ b ∈ bs, b < f.blocks.length) :
    Sat OvOnly False (cyclesCount f (circuitFuel f) bs cyc) fun _ => True := by
  unfold cyclesCount
  refine Sat.foldl (Inv := fun _ => True) _ _ trivial ?_
  intro acc b hb _
  unfold cyclesStep
  apply Sat.bind
  refine (lookForCircuit_inv hf bs b (circuitFuel f) b ⟨acc.1, [], [], []⟩ [] (hbs b hb)
    (fun t ht => by simp at ht) (by simp [circuitFuel]) rfl List.nodup_nil (List.Sublist.refl _)
    (by simp) (fun t ht => by simp at ht) (by simp)).mono fun ⟨s, _, c⟩ _ => ?_
  simp only
  split
  · rfl
  · trivial

theorem getLineCount_ov {f : Func} (hf : f.WF) (cnt : Nat → Nat) (bs : List Nat) (cyc : Nat → Nat)
    (hbs : ∀ b ∈ bs, b < f.blocks.length) :
    Sat OvOnly False (getLineCount f cnt bs cyc) fun _ => True := by
  unfold getLineCount
  apply Sat.bind
  refine (Sat.foldl (C := OvOnly) (D := False) (Inv := fun _ => True) _ _ trivial
    (fun acc b hb _ => lineEntryStep_sat hf cnt bs acc (hbs b hb))).mono fun ⟨cyc', count⟩ _ => ?_
  apply Sat.bind
  refine (cyclesCount_ov hf bs cyc' hbs).mono fun ⟨cyc'', c⟩ _ => ?_
  simp only
  split
  · rfl
  · trivial

theorem lineCounts_ov {f : Func} (hf : f.WF) (c : Cnt) : ∀ (m : List (Nat × List Nat))
    (cyc : Nat → Nat), (∀ p ∈ m, ∀ b ∈ p.2, b < f.blocks.length) →
    Sat OvOnly False (lineCounts f c m cyc) fun _ => True := by
  intro m
  induction m with
  | nil => intro cyc _; trivial
  | cons p m ih =>
    intro cyc h
    obtain ⟨l, bs⟩ := p
    have hm : ∀ p ∈ m, ∀ b ∈ p.2, b < f.blocks.length := fun p hp => h p (List.mem_cons_of_mem _ hp)
    have hbs : ∀ b ∈ bs, b < f.blocks.length := h (l, bs) (by simp)
    simp only [lineCounts]
    split
    · apply Sat.bind
      exact (ih cyc hm).mono fun _ _ => trivial
    · apply Sat.bind
      refine (getLineCount_ov hf c.arc bs cyc hbs).mono fun ⟨cyc', n⟩ _ => ?_
      apply Sat.bind
      exact (ih cyc' hm).mono fun _ _ => trivial

theorem addLineCount_ov {f : Func} (hf : f.WF) (c : Cnt) :
    Sat OvOnly False (addLineCount f c) fun _ => True := by
  unfold addLineCount
  split
  · apply Sat.bind
    exact (lineCounts_ov hf c _ _ (linesToBlock_lt hf)).mono fun _ _ => trivial
  · trivial

theorem finStep_ov (branch : Bool) (res : List (Bytes × Cov)) {fc : Func × Cnt} (hf : fc.1.WF) :
    Sat OvOnly False (finStep branch res fc) fun _ => True := by
  obtain ⟨f, c⟩ := fc
  simp only [finStep]
  apply Sat.bind
  refine (addLineCount_ov hf c).mono fun ⟨executed, lines⟩ _ => ?_
  simp only
  apply Sat.bind
  have h1 : Sat OvOnly False
      (if executed = true then mergeLines ((AList.get? res f.fileName).getD {}).lines lines
       else ok (mergeZeroLines ((AList.get? res f.fileName).getD {}).lines lines)) fun _ => True := by
    split
    · exact mergeLines_sat _ _
    · trivial
  refine h1.mono fun ls _ => ?_
  apply Sat.bind
  have h2 : Sat OvOnly False
      (if branch = true then
        addBranches f c.arc executed f.blocks ((AList.get? res f.fileName).getD {}).branches
       else ok ((AList.get? res f.fileName).getD {}).branches) fun _ => True := by
    split
    · exact (addBranches_sat hf _ _ _ _ hf.ids).ofNo
    · trivial
  exact h2.mono fun _ _ => trivial

/-- **`finalize` on well-formed functions**: a value, or the overflow crash; never out of fuel -/
theorem finalize_ov (branch : Bool) {fs : List (Func × Cnt)} (h : ∀ fc ∈ fs, fc.1.WF) :
    Sat OvOnly False (finalize branch fs) fun _ => True := by
  unfold finalize
  refine Sat.foldl (Inv := fun _ => True) _ _ trivial ?_
  intro res fc hfc _
  exact finStep_ov branch res (h fc hfc)

end Grcov.Gcno
