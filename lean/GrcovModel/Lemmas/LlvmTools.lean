/-
Lemmas for the `LlvmTools` model (C20): llvm-profdata's reading of the list grcov writes, and
counting in the tool log.
-/
import GrcovModel.LlvmTools
import GrcovModel.Lemmas.LcovUtf8
namespace Grcov.LlvmTools
open Grcov AList

/-! ### the list syntax -/

theorem splitNl_append_line (cur p rest : Bytes) (hp : 10 ∉ p) :
    splitNl cur (p ++ 10 :: rest) = (cur ++ p) :: splitNl [] rest := by
  induction p generalizing cur with
  | nil => simp [splitNl]
  | cons b p ih =>
    have hb : b ≠ 10 := by intro e; apply hp; simp [e]
    have hp' : 10 ∉ p := by intro h; apply hp; simp [h]
    simp only [List.cons_append, splitNl, hb, if_false]
    rw [ih _ hp']; simp

theorem mergeStdin_cons (p : Bytes) (ps : List Bytes) :
    mergeStdin (p :: ps) = ([49, 44] ++ Lcov.utf8Lossy p) ++ 10 :: mergeStdin ps := by
  simp [mergeStdin, stdinLine]

theorem splitNl_mergeStdin (ps : List Bytes) (h : ∀ p ∈ ps, 10 ∉ Lcov.utf8Lossy p) :
    splitNl [] (mergeStdin ps) = ps.map (fun p => [49, 44] ++ Lcov.utf8Lossy p) ++ [[]] := by
  induction ps with
  | nil => rfl
  | cons p ps ih =>
    have h10 : 10 ∉ ([49, 44] ++ Lcov.utf8Lossy p) := by
      intro hm
      rcases List.mem_append.1 hm with h1 | h1
      · simp at h1
      · exact h p (by simp) h1
    rw [mergeStdin_cons, splitNl_append_line _ _ _ h10, ih fun q hq => h q (List.mem_cons_of_mem _ hq)]
    simp

/-- the entries llvm-profdata sees are exactly the lines grcov wrote, one per profile -/
theorem entries_mergeStdin (ps : List Bytes) (h : ∀ p ∈ ps, 10 ∉ Lcov.utf8Lossy p) :
    entries (mergeStdin ps) = ps.map (fun p => [49, 44] ++ Lcov.utf8Lossy p) := by
  unfold entries
  rw [splitNl_mergeStdin ps h, List.filter_append]
  have h1 : ([[]] : List Bytes).filter (fun e => !e.isEmpty) = [] := rfl
  rw [h1, List.append_nil, List.filter_eq_self]
  intro e he
  obtain ⟨p, _, rfl⟩ := List.mem_map.1 he
  rfl

theorem dropWhile_blank_of_head {s : Bytes} (h : ∀ b, s.head? = some b → isBlank b = false) :
    s.dropWhile isBlank = s := by
  cases s with
  | nil => rfl
  | cons b s => simp [List.dropWhile_cons, h b rfl]

theorem trimBlank_id {s : Bytes} (hh : ∀ b, s.head? = some b → isBlank b = false)
    (hl : ∀ b, s.getLast? = some b → isBlank b = false) : trimBlank s = s := by
  unfold trimBlank
  rw [dropWhile_blank_of_head hh, dropWhile_blank_of_head, List.reverse_reverse]
  intro b hb
  rw [List.head?_reverse] at hb
  exact hl b hb

theorem getLast?_line (p : Bytes) :
    ([49, 44] ++ p : Bytes).getLast? = some (p.getLast?.getD 44) := by
  cases p with
  | nil => rfl
  | cons b p =>
    rw [List.getLast?_append]
    cases h : (b :: p).getLast? with
    | none => simp at h
    | some x => rfl

/-- a `1,<name>` line whose name does not end in a blank reads as that name with weight 1 —
whatever else the name contains (commas, '#', leading blanks) -/
theorem parseEntry_line (p : Bytes) (hl : ∀ b, p.getLast? = some b → isBlank b = false) :
    parseEntry ([49, 44] ++ p) = .file 1 p := by
  have ht : trimBlank ([49, 44] ++ p) = [49, 44] ++ p := by
    apply trimBlank_id
    · intro b hb
      simp at hb
      subst hb
      decide
    · intro b hb
      rw [getLast?_line] at hb
      cases h : p.getLast? with
      | none => rw [h] at hb; simp at hb; subst hb; decide
      | some x => rw [h] at hb; simp at hb; subst hb; exact hl x h
  unfold parseEntry
  simp only [ht]
  have h1 : ([49, 44] ++ p : Bytes).head? ≠ some 35 := by simp
  have h2 : ([49, 44] ++ p : Bytes).contains 44 = true := by simp
  have h3 : ([49, 44] ++ p : Bytes).takeWhile (· ≠ 44) = [49] := by
    simp
  have h4 : (([49, 44] ++ p : Bytes).dropWhile (· ≠ 44)).drop 1 = p := by
    simp
  rw [if_neg h1, h2, h3, h4]
  rfl

theorem collect_files (l : List Bytes) : collect (l.map fun p => EntryRes.file 1 p) = some (l.map fun p => (1, p)) := by
  induction l with
  | nil => rfl
  | cons p l ih => simp [collect, ih]

/-- the guard of the merge-list theorems: the name survives `to_string_lossy`, contains no line
feed and does not END in one of the blanks llvm-profdata trims -/
def ListSafe (p : Bytes) : Prop :=
  Lcov.validUtf8 p = true ∧ 10 ∉ p ∧ ∀ b, p.getLast? = some b → isBlank b = false

instance (p : Bytes) : Decidable (ListSafe p) := by unfold ListSafe; exact inferInstance

theorem entries_parse_mergeStdin (ps : List Bytes) (h : ∀ p ∈ ps, ListSafe p) :
    (entries (mergeStdin ps)).map parseEntry = ps.map fun p => EntryRes.file 1 p := by
  have hl : ∀ p ∈ ps, Lcov.utf8Lossy p = p := fun p hp => Lcov.utf8Lossy_of_valid p (h p hp).1
  rw [entries_mergeStdin ps (fun p hp => by rw [hl p hp]; exact (h p hp).2.1), List.map_map]
  apply List.map_congr_left
  intro p hp
  simp only [Function.comp, hl p hp]
  exact parseEntry_line p (h p hp).2.2

theorem parseList_mergeStdin (ps : List Bytes) (h : ∀ p ∈ ps, ListSafe p) :
    parseList (mergeStdin ps) = some (ps.map fun p => (1, p)) := by
  unfold parseList
  rw [entries_parse_mergeStdin ps h, collect_files]

/-! ### the log -/

theorem exportLog_append (a b : List Call) : exportLog (a ++ b) = exportLog a ++ exportLog b := by
  induction a with
  | nil => rfl
  | cons c a ih => cases c <;> simp [exportLog, ih]

theorem mergeLog_append (a b : List Call) : mergeLog (a ++ b) = mergeLog a ++ mergeLog b := by
  induction a with
  | nil => rfl
  | cons c a ih => cases c <;> simp [mergeLog, ih]

theorem exportLog_exports (bins : List Bytes) (pd : Bytes) :
    exportLog (bins.map (Call.export_ · pd)) = bins.map (·, pd) := by
  induction bins with
  | nil => rfl
  | cons b bs ih => simp [exportLog, ih]

theorem mergeLog_exports (bins : List Bytes) (pd : Bytes) :
    mergeLog (bins.map (Call.export_ · pd)) = [] := by
  induction bins with
  | nil => rfl
  | cons b bs ih => simp [mergeLog, ih]

/-- the exports of one call: every binary against the profile this call merged, or none at all -/
theorem exportLog_item (t : Tools) (bins : List Bytes) (ps : List Bytes) :
    exportLog (profilesToLcov t bins ps).1
      = match merged t ps with
        | none => []
        | some pd => bins.map (·, pd) := by
  unfold profilesToLcov
  cases merged t ps with
  | none => rfl
  | some pd => simp [exportLog, exportLog_exports]

theorem mergeLog_item (t : Tools) (bins : List Bytes) (ps : List Bytes) :
    mergeLog (profilesToLcov t bins ps).1 = [mergeStdin ps] := by
  unfold profilesToLcov
  cases merged t ps with
  | none => rfl
  | some pd => simp [mergeLog, mergeLog_exports]

theorem mergeLog_run (t : Tools) (bins : List Bytes) (items : List (List Bytes)) :
    mergeLog (runLog t bins items) = items.map mergeStdin := by
  induction items with
  | nil => rfl
  | cons ps items ih =>
    have : runLog t bins (ps :: items) = (profilesToLcov t bins ps).1 ++ runLog t bins items := by
      simp [runLog]
    rw [this, mergeLog_append, mergeLog_item, ih]; rfl

/-- the export log of a run: for every item whose merge succeeded, in item order, every binary
against that item's merged profile -/
theorem exportLog_run (t : Tools) (bins : List Bytes) (items : List (List Bytes)) :
    exportLog (runLog t bins items) = (mergedItems t items).flatMap fun pd => bins.map (·, pd) := by
  induction items with
  | nil => rfl
  | cons ps items ih =>
    have : runLog t bins (ps :: items) = (profilesToLcov t bins ps).1 ++ runLog t bins items := by
      simp [runLog]
    rw [this, exportLog_append, exportLog_item, ih]
    unfold mergedItems
    cases h : merged t ps with
    | none => simp [h]
    | some pd => simp [h]

theorem filter_fst_pairs (bins : List Bytes) (pd b : Bytes) :
    ((bins.map (·, pd)).filter fun e => decide (e.1 = b)).length = bins.count b := by
  induction bins with
  | nil => rfl
  | cons x xs ih =>
    by_cases hx : x = b
    · subst hx; simp [ih]
    · simp [hx, ih]

theorem count_pair (bins : List Bytes) (pd pd' b : Bytes) :
    (bins.map (·, pd)).count (b, pd') = if pd = pd' then bins.count b else 0 := by
  induction bins with
  | nil => simp
  | cons x xs ih =>
    simp only [List.map_cons, List.count_cons, ih]
    by_cases hp : pd = pd'
    · subst hp
      by_cases hx : x = b
      · subst hx; simp
      · have h1 : ((x, pd) == (b, pd)) = false := by simp [hx]
        have h2 : (x == b) = false := by simpa using hx
        simp [h1, h2]
    · have h1 : ((x, pd) == (b, pd')) = false := by simp [hp]
      simp [hp, h1]

theorem dedup_of_nodup {l : List Bytes} (h : l.Nodup) : dedup l = l := by
  induction l with
  | nil => rfl
  | cons x xs ih =>
    have hx : x ∉ xs := (List.nodup_cons.1 h).1
    simp [dedup, hx, ih (List.nodup_cons.1 h).2]

end Grcov.LlvmTools

namespace Grcov.LlvmTools

theorem filter_fst_flatMap (bins : List Bytes) (pds : List Bytes) (b : Bytes) :
    ((pds.flatMap fun pd => bins.map (·, pd)).filter fun e => decide (e.1 = b)).length
      = pds.length * bins.count b := by
  induction pds with
  | nil => simp
  | cons pd pds ih =>
    rw [List.flatMap_cons, List.filter_append, List.length_append, filter_fst_pairs, ih,
      List.length_cons, Nat.add_mul, Nat.one_mul, Nat.add_comm]

theorem count_flatMap_pairs (bins : List Bytes) (pds : List Bytes) (b pd' : Bytes) :
    (pds.flatMap fun pd => bins.map (·, pd)).count (b, pd') = pds.count pd' * bins.count b := by
  induction pds with
  | nil => simp
  | cons pd pds ih =>
    rw [List.flatMap_cons, List.count_append, count_pair, ih, List.count_cons]
    by_cases hp : pd = pd'
    · subst hp; simp [Nat.add_mul, Nat.add_comm]
    · have : (pd == pd') = false := by simpa using hp
      simp [hp, this]

theorem runExports_cons (t : Tools) (bins : List Bytes) (ps : List Bytes) (items : List (List Bytes)) :
    runExports t bins (ps :: items) = ((profilesToLcov t bins ps).2).getD [] ++ runExports t bins items := by
  simp [runExports]

theorem profilesToLcov_result (t : Tools) (bins : List Bytes) (ps : List Bytes) :
    (profilesToLcov t bins ps).2 = (merged t ps).map fun pd => bins.filterMap (t.export_ · pd) := by
  unfold profilesToLcov
  cases merged t ps <;> rfl

end Grcov.LlvmTools

namespace Grcov.LlvmTools

theorem count_eq_one_of_mem_nodup {l : List Bytes} (hn : l.Nodup) {b : Bytes} (hb : b ∈ l) : l.count b = 1 := by
  have h1 := List.nodup_iff_count.1 hn b
  have h2 := List.count_pos_iff.2 hb
  omega

theorem count_weight_one (ps : List Bytes) (p : Bytes) :
    (ps.map fun q => ((1 : Nat), q)).count (1, p) = ps.count p := by
  induction ps with
  | nil => rfl
  | cons q ps ih =>
    simp only [List.map_cons, List.count_cons, ih]
    by_cases h : q = p
    · subst h; simp
    · have h1 : (((1 : Nat), q) == (1, p)) = false := by simp [h]
      have h2 : (q == p) = false := by simpa using h
      simp [h1, h2]

end Grcov.LlvmTools
