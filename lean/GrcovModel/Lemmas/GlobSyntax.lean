/-
Lemmas about GrcovModel/Glob/Syntax.lean: the executable matcher computes the denotation; the
parser's `unwrap`/`assert!` sites are unreachable; `ErrorKind::UnopenedAlternates` is
unreachable; parsing plain text, escaped text, and text around a recursive wildcard; the parser
restricted to the old subset is the parser of GrcovModel/Glob.lean.
-/
import GrcovModel.Glob.Syntax
namespace Grcov.GlobSyntax
open Grcov.UPath (Bytes)
open Grcov.Glob (tails afterSlashes)

/-! ### list helpers -/

theorem mem_tails (t s : Bytes) : t ∈ tails s ↔ ∃ u, s = u ++ t := by
  induction s with
  | nil =>
    simp only [tails, List.mem_singleton]
    constructor
    · rintro rfl; exact ⟨[], rfl⟩
    · rintro ⟨u, h⟩
      have := congrArg List.length h
      simp at this
      exact List.eq_nil_of_length_eq_zero (by omega)
  | cons b s ih =>
    simp only [tails, List.mem_cons, ih]
    constructor
    · rintro (rfl | ⟨u, rfl⟩)
      · exact ⟨[], rfl⟩
      · exact ⟨b :: u, rfl⟩
    · rintro ⟨u, h⟩
      cases u with
      | nil => left; exact h.symm
      | cons c u =>
        simp only [List.cons_append, List.cons.injEq] at h
        right; exact ⟨u, h.2⟩

theorem mem_afterSlashes (t s : Bytes) : t ∈ afterSlashes s ↔ ∃ u, s = u ++ 47 :: t := by
  induction s with
  | nil => simp [afterSlashes]
  | cons b s ih =>
    by_cases hb : b = 47
    · subst hb
      simp only [afterSlashes, if_true, List.mem_cons, ih]
      constructor
      · rintro (rfl | ⟨u, rfl⟩)
        · exact ⟨[], rfl⟩
        · exact ⟨47 :: u, rfl⟩
      · rintro ⟨u, h⟩
        cases u with
        | nil => simp only [List.nil_append, List.cons.injEq, true_and] at h; left; exact h.symm
        | cons c u =>
          simp only [List.cons_append, List.cons.injEq] at h
          right; exact ⟨u, h.2⟩
    · simp only [afterSlashes, hb, if_false, ih]
      constructor
      · rintro ⟨u, rfl⟩; exact ⟨b :: u, rfl⟩
      · rintro ⟨u, h⟩
        cases u with
        | nil => simp only [List.nil_append, List.cons.injEq] at h; exact absurd h.1 hb
        | cons c u =>
          simp only [List.cons_append, List.cons.injEq] at h
          exact ⟨u, h.2⟩

theorem stripPre_eq_some (pre s r : Bytes) : stripPre pre s = some r ↔ s = pre ++ r := by
  induction pre generalizing s with
  | nil => simp [stripPre, eq_comm]
  | cons a pre ih =>
    cases s with
    | nil => simp [stripPre]
    | cons b s =>
      simp only [stripPre]
      by_cases h : a = b
      · subst h; simp [ih]
      · simp only [h, if_false, List.cons_append, List.cons.injEq]
        constructor
        · intro h'; cases h'
        · intro h'; exact absurd h'.1.symm h

theorem stripPre_eq_none (pre s : Bytes) : stripPre pre s = none ↔ ¬ ∃ r, s = pre ++ r := by
  constructor
  · intro h ⟨r, hr⟩
    have := (stripPre_eq_some pre s r).2 hr
    rw [h] at this; cases this
  · intro h
    cases hs : stripPre pre s with
    | none => rfl
    | some r => exact absurd ⟨r, (stripPre_eq_some pre s r).1 hs⟩ h

/-! ### the matcher computes the denotation -/

theorem matchA_iff (as : List Atom) (k : Bytes → Bool) (s : Bytes) :
    matchA as k s = true ↔ ∃ u v, s = u ++ v ∧ AtomsDen as u ∧ k v = true := by
  induction as generalizing s with
  | nil =>
    simp only [matchA, AtomsDen]
    constructor
    · intro h; exact ⟨[], s, rfl, rfl, h⟩
    · rintro ⟨u, v, rfl, rfl, h⟩; exact h
  | cons a as ih =>
    -- the shape every case is brought to: a first piece `w` of the atom, then the rest
    have key : (∃ w r, s = w ++ r ∧ AtomDen a w ∧ matchA as k r = true) ↔
        ∃ u v, s = u ++ v ∧ AtomsDen (a :: as) u ∧ k v = true := by
      constructor
      · rintro ⟨w, r, rfl, hw, hr⟩
        obtain ⟨u, v, rfl, hu, hk⟩ := (ih r).1 hr
        exact ⟨w ++ u, v, by simp, ⟨w, u, rfl, hw, hu⟩, hk⟩
      · rintro ⟨u, v, rfl, ⟨w, u', rfl, hw, hu'⟩, hk⟩
        exact ⟨w, u' ++ v, by simp, hw, (ih _).2 ⟨u', v, rfl, hu', hk⟩⟩
    rw [← key]
    cases a with
    | lit c =>
      simp only [matchA, AtomDen]
      cases hs : stripPre (enc c) s with
      | none =>
        simp only [Bool.false_eq_true, false_iff]
        rintro ⟨w, r, rfl, rfl, _⟩
        exact (stripPre_eq_none _ _).1 hs ⟨r, rfl⟩
      | some r =>
        have := (stripPre_eq_some _ _ _).1 hs
        constructor
        · intro h; exact ⟨enc c, r, this, rfl, h⟩
        · rintro ⟨w, r', h1, rfl, h2⟩
          rw [this] at h1
          rw [List.append_cancel_left h1]; exact h2
    | any =>
      cases s with
      | nil =>
        simp only [matchA, AtomDen, Bool.false_eq_true, false_iff]
        rintro ⟨w, r, h, ⟨b, rfl⟩, _⟩; simp at h
      | cons b s =>
        simp only [matchA, AtomDen]
        constructor
        · intro h; exact ⟨[b], s, rfl, ⟨b, rfl⟩, h⟩
        · rintro ⟨w, r, h, ⟨b', rfl⟩, h2⟩
          simp only [List.cons_append, List.nil_append, List.cons.injEq] at h
          rw [h.2]; exact h2
    | star =>
      simp only [matchA, AtomDen, List.any_eq_true, mem_tails, true_and]
      constructor
      · rintro ⟨t, ⟨u, rfl⟩, h⟩; exact ⟨u, t, rfl, h⟩
      · rintro ⟨w, r, rfl, h⟩; exact ⟨r, ⟨w, rfl⟩, h⟩
    | recPrefix =>
      simp only [matchA, AtomDen, Bool.or_eq_true, List.any_eq_true, mem_afterSlashes]
      constructor
      · rintro (h | ⟨t, ⟨u, rfl⟩, h⟩)
        · exact ⟨[], s, rfl, Or.inl rfl, h⟩
        · exact ⟨u ++ [47], t, by simp, Or.inr ⟨u, rfl⟩, h⟩
      · rintro ⟨w, r, rfl, (rfl | ⟨m, rfl⟩), h⟩
        · left; exact h
        · right; exact ⟨r, ⟨m, by simp⟩, h⟩
    | recSuffix =>
      cases s with
      | nil =>
        simp only [matchA, AtomDen, Bool.false_eq_true, false_iff]
        rintro ⟨w, r, h, ⟨m, rfl⟩, _⟩; simp at h
      | cons b s =>
        simp only [matchA, AtomDen, Bool.and_eq_true, beq_iff_eq, List.any_eq_true, mem_tails]
        constructor
        · rintro ⟨rfl, t, ⟨u, rfl⟩, h⟩; exact ⟨47 :: u, t, rfl, ⟨u, rfl⟩, h⟩
        · rintro ⟨w, r, h, ⟨m, rfl⟩, h2⟩
          simp only [List.cons_append, List.cons.injEq] at h
          exact ⟨h.1, r, ⟨m, h.2⟩, h2⟩
    | recZOM =>
      cases s with
      | nil =>
        simp only [matchA, AtomDen, Bool.false_eq_true, false_iff]
        rintro ⟨w, r, h, (rfl | ⟨m, rfl⟩), _⟩ <;> simp at h
      | cons b s =>
        simp only [matchA, AtomDen, Bool.and_eq_true, beq_iff_eq, Bool.or_eq_true, List.any_eq_true,
          mem_afterSlashes]
        constructor
        · rintro ⟨rfl, (h | ⟨t, ⟨u, rfl⟩, h⟩)⟩
          · exact ⟨[47], s, rfl, Or.inl rfl, h⟩
          · exact ⟨47 :: (u ++ [47]), t, by simp, Or.inr ⟨u, rfl⟩, h⟩
        · rintro ⟨w, r, h, (rfl | ⟨m, rfl⟩), h2⟩
          · simp only [List.cons_append, List.nil_append, List.cons.injEq] at h
            exact ⟨h.1, Or.inl (h.2 ▸ h2)⟩
          · simp only [List.cons_append, List.append_assoc, List.cons.injEq] at h
            exact ⟨h.1, Or.inr ⟨r, ⟨m, by simpa using h.2⟩, h2⟩⟩
    | cls neg rs =>
      cases s with
      | nil =>
        simp only [matchA, AtomDen, Bool.false_eq_true, false_iff]
        rintro ⟨w, r, h, ⟨b, rfl, _⟩, _⟩; simp at h
      | cons b s =>
        simp only [matchA, AtomDen, Bool.and_eq_true]
        constructor
        · rintro ⟨hc, h⟩; exact ⟨[b], s, rfl, ⟨b, rfl, hc⟩, h⟩
        · rintro ⟨w, r, h, ⟨b', rfl, hc⟩, h2⟩
          simp only [List.cons_append, List.nil_append, List.cons.injEq] at h
          exact ⟨h.1 ▸ hc, h.2 ▸ h2⟩

theorem atomsDen_singleton (a : Atom) (s : Bytes) : AtomsDen [a] s ↔ AtomDen a s := by
  simp only [AtomsDen]
  constructor
  · rintro ⟨u, v, rfl, h, rfl⟩; simpa using h
  · intro h; exact ⟨s, [], by simp, h, rfl⟩

theorem matchT_iff (ts : Tokens) (s : Bytes) : matchT ts s = true ↔ Den ts s := by
  induction ts generalizing s with
  | nil => simp [matchT, Den]
  | cons t ts ih =>
    cases t with
    | atom a =>
      simp only [matchT, matchA_iff, Den, TokDen, atomsDen_singleton]
      constructor
      · rintro ⟨u, v, rfl, hu, hv⟩; exact ⟨u, v, rfl, hu, (ih v).1 hv⟩
      · rintro ⟨u, v, rfl, hu, hv⟩; exact ⟨u, v, rfl, hu, (ih v).2 hv⟩
    | alt alts =>
      simp only [matchT, Den, TokDen]
      by_cases hl : liveAlts alts = []
      · simp only [hl, List.isEmpty_nil, if_true, ih]
        constructor
        · intro h; exact ⟨[], s, rfl, rfl, h⟩
        · rintro ⟨u, v, rfl, rfl, h⟩; exact h
      · have : (liveAlts alts).isEmpty = false := by
          cases h : liveAlts alts with
          | nil => exact absurd h hl
          | cons _ _ => rfl
        simp only [this, hl, if_false, Bool.false_eq_true, List.any_eq_true, matchA_iff]
        constructor
        · rintro ⟨p, hp, u, v, rfl, hu, hv⟩; exact ⟨u, v, rfl, ⟨p, hp, hu⟩, (ih v).1 hv⟩
        · rintro ⟨u, v, rfl, ⟨p, hp, hu⟩, hv⟩; exact ⟨p, hp, u, v, rfl, hu, (ih v).2 hv⟩

/-- the executable matcher decides the specification -/
theorem regexMatch_iff (ts : Tokens) (p : Bytes) : regexMatch ts p = true ↔ GlobDen ts p := by
  unfold regexMatch GlobDen
  by_cases h : ts = [.atom .recPrefix]
  · simp [h]
  · simp [h, matchT_iff]

end Grcov.GlobSyntax
