/-
C14, part TextCost – lemmas about the cost-instrumented JaCoCo reader (`Jacoco/Cost.lean`):
the instrumented loops compute the original outcomes (`…LoopC_fst`); every loop stays within the
budget `sumMax` of the events it consumes (`…LoopC_bound`: one read per event, two attribute passes,
|attributes|² key comparisons, two map operations, `cb + mb` slots); every entry of the result was
paid for by a map operation and every branch slot by an allocation (`…LoopC_size`); the family
`manyAttrsReport` on which the duplicate check is exactly quadratic.
-/
import GrcovModel.Jacoco.Cost
import GrcovModel.Lemmas.TextCostBase
import GrcovModel.Lemmas.Jacoco
import Mathlib.Tactic.Ring
import Mathlib.Tactic.Linarith
import Mathlib.Data.List.Nodup
namespace Grcov.Jacoco
open Grcov AList Grcov.TextCost Grcov.Size

@[simp] theorem withCost_fst {α : Type} (c : Cost) (p : α × Cost) : (withCost c p).1 = p.1 := rfl
@[simp] theorem withCost_snd {α : Type} (c : Cost) (p : α × Cost) : (withCost c p).2 = c.add p.2 := rfl

/-! ### erasing the cost gives the original loops -/

theorem sourcefileLoopC_fst (cap fuel : Nat) (evs : List XmlEvent) (acc : SrcAcc) :
    (sourcefileLoopC cap fuel evs acc).1 = sourcefileLoop cap fuel evs acc := by
  induction fuel generalizing evs acc with
  | zero => rfl
  | succ fuel ih =>
    cases evs with
    | nil => rfl
    | cons e r =>
      simp only [sourcefileLoopC, sourcefileLoop, withCost_fst]
      cases e <;> simp only [ih]
      all_goals (repeat' split)
      all_goals (try simp only [withCost_fst, ih])
      all_goals first | rfl | (clear ih; simp_all)

theorem methodLoopC_fst (fuel : Nat) (evs : List XmlEvent) (ex : Bool) :
    (methodLoopC fuel evs ex).1 = methodLoop fuel evs ex := by
  induction fuel generalizing evs ex with
  | zero => rfl
  | succ fuel ih =>
    cases evs with
    | nil => rfl
    | cons e r =>
      simp only [methodLoopC, methodLoop, withCost_fst]
      cases e <;> simp only [ih]
      all_goals (repeat' split)
      all_goals (try simp only [withCost_fst, ih])
      all_goals first | rfl | (clear ih; simp_all)

theorem classLoopC_fst (cls : Name) (fuel : Nat) (evs : List XmlEvent) (fns : List (Name × Fn)) :
    (classLoopC cls fuel evs fns).1 = classLoop cls fuel evs fns := by
  induction fuel generalizing evs fns with
  | zero => rfl
  | succ fuel ih =>
    cases evs with
    | nil => rfl
    | cons e r =>
      simp only [classLoopC, classLoop, withCost_fst]
      cases e <;> simp only [ih, methodLoopC_fst]
      all_goals (repeat' split)
      all_goals (try simp only [withCost_fst, ih])
      all_goals first | rfl | (clear ih; simp_all)

theorem packageLoopC_fst (cap : Nat) (pk : Name) (fuel : Nat) (evs : List XmlEvent) (m : List (Name × Cov)) :
    (packageLoopC cap pk fuel evs m).1 = packageLoop cap pk fuel evs m := by
  induction fuel generalizing evs m with
  | zero => rfl
  | succ fuel ih =>
    cases evs with
    | nil => rfl
    | cons e r =>
      simp only [packageLoopC, packageLoop, withCost_fst]
      cases e <;> simp only [ih, classLoopC_fst, sourcefileLoopC_fst]
      all_goals (repeat' split)
      all_goals (try simp only [withCost_fst, ih])
      all_goals first | rfl | (clear ih; simp_all)

theorem reportLoopC_fst (cap fuel : Nat) (evs : List XmlEvent) (res : List (Name × Cov)) :
    (reportLoopC cap fuel evs res).1 = reportLoop cap fuel evs res := by
  induction fuel generalizing evs res with
  | zero => rfl
  | succ fuel ih =>
    cases evs with
    | nil => rfl
    | cons e r =>
      simp only [reportLoopC, reportLoop, withCost_fst]
      cases e <;> simp only [ih, packageLoopC_fst]
      all_goals (repeat' split)
      all_goals (try simp only [withCost_fst, ih])
      all_goals first | rfl | (clear ih; simp_all)

theorem parseCapC_fst (cap : Nat) (evs : List XmlEvent) (fuel : Nat) :
    (parseCapC cap evs fuel).1 = parseCap cap evs fuel := reportLoopC_fst _ _ _ _
/-! ### attribute passes -/

theorem getAttrCost_le (key : Name) (a : List Attr) :
    (getAttrCost key a).reads = 0 ∧ (getAttrCost key a).attrs ≤ a.length ∧
    (getAttrCost key a).mapOps = 0 ∧ (getAttrCost key a).alloc = 0 :=
  ⟨rfl, getAttrWork_le key a, rfl, rfl⟩

theorem lineAttrsCost_le (a : List Attr) :
    (lineAttrsCost a).reads = 0 ∧ (lineAttrsCost a).attrs ≤ a.length ∧
    (lineAttrsCost a).mapOps = 0 ∧ (lineAttrsCost a).alloc = 0 :=
  ⟨rfl, lineAttrsWork_le a, rfl, rfl⟩

/-! ### a budget for a loop: what it may spend on the events it consumes -/

/-- `p` spends at most `B` minus what the events it leaves unread are still worth; a run that
ends in an error or at the end of the input may have made one more read -/
def BoundB {α : Type} (B : Cost) (p : Outcome (α × List XmlEvent) × Cost) : Prop :=
  match p.1 with
  | .ok (_, r') => Cost.le (p.2.add (sumMax r')) B
  | _ => Cost.le p.2 (B.add tick)

theorem boundB_fail {α : Type} (B : Cost) (o : Outcome (α × List XmlEvent))
    (h : ∀ x, o ≠ .ok x) : BoundB B (o, {}) := by
  unfold BoundB
  cases o with
  | ok x => exact absurd rfl (h x)
  | _ => simp [Cost.le, Cost.add, tick]

theorem boundB_ok {α : Type} (x : α) (r : List XmlEvent) : BoundB (sumMax r) (.ok (x, r), {}) := by
  simp [BoundB, Cost.le, Cost.add]

theorem boundB_withCost {α : Type} {B : Cost} {p : Outcome (α × List XmlEvent) × Cost} (c : Cost)
    (h : BoundB B p) : BoundB (c.add B) (withCost c p) := by
  unfold BoundB at *
  simp only [withCost_fst, withCost_snd]
  cases hp : p.1 with
  | ok x => rw [hp] at h; simp only [Cost.le, Cost.add] at *; omega
  | err k => rw [hp] at h; simp only [Cost.le, Cost.add, tick] at *; omega
  | alloc => rw [hp] at h; simp only [Cost.le, Cost.add, tick] at *; omega
  | diverge => rw [hp] at h; simp only [Cost.le, Cost.add, tick] at *; omega

theorem boundB_mono {α : Type} {B B' : Cost} {p : Outcome (α × List XmlEvent) × Cost}
    (h : BoundB B p) (hb : Cost.le B B') : BoundB B' p := by
  unfold BoundB at *
  cases hp : p.1 with
  | ok x => rw [hp] at h; simp only [Cost.le, Cost.add] at *; omega
  | err k => rw [hp] at h; simp only [Cost.le, Cost.add, tick] at *; omega
  | alloc => rw [hp] at h; simp only [Cost.le, Cost.add, tick] at *; omega
  | diverge => rw [hp] at h; simp only [Cost.le, Cost.add, tick] at *; omega

/-- a loop that runs an inner loop on the rest and continues behind it -/
theorem boundB_nested {α β : Type} {B : Cost} (inner : Outcome (β × List XmlEvent) × Cost)
    (hi : BoundB B inner) (q : Outcome (α × List XmlEvent) × Cost)
    (hq : (∀ x r', inner.1 = .ok (x, r') → BoundB (sumMax r') q) ∧
          ((∀ x, inner.1 ≠ .ok x) → q.2 = {} ∧ ∀ y, q.1 ≠ .ok y)) :
    BoundB B (withCost inner.2 q) := by
  unfold BoundB at *
  simp only [withCost_fst, withCost_snd]
  cases hin : inner.1 with
  | ok xr =>
    obtain ⟨x, r'⟩ := xr
    rw [hin] at hi
    have h2 := hq.1 x r' hin
    cases hq1 : q.1 with
    | ok y => rw [hq1] at h2; simp only [Cost.le, Cost.add] at *; omega
    | err k => rw [hq1] at h2; simp only [Cost.le, Cost.add, tick] at *; omega
    | alloc => rw [hq1] at h2; simp only [Cost.le, Cost.add, tick] at *; omega
    | diverge => rw [hq1] at h2; simp only [Cost.le, Cost.add, tick] at *; omega
  | err k =>
    rw [hin] at hi
    obtain ⟨h2, h3⟩ := hq.2 (by rw [hin]; intro x hx; cases hx)
    cases hq1 : q.1 with
    | ok y => exact absurd hq1 (h3 y)
    | _ => rw [h2]; simp only [Cost.le, Cost.add, tick] at *; omega
  | alloc =>
    rw [hin] at hi
    obtain ⟨h2, h3⟩ := hq.2 (by rw [hin]; intro x hx; cases hx)
    cases hq1 : q.1 with
    | ok y => exact absurd hq1 (h3 y)
    | _ => rw [h2]; simp only [Cost.le, Cost.add, tick] at *; omega
  | diverge =>
    rw [hin] at hi
    obtain ⟨h2, h3⟩ := hq.2 (by rw [hin]; intro x hx; cases hx)
    cases hq1 : q.1 with
    | ok y => exact absurd hq1 (h3 y)
    | _ => rw [h2]; simp only [Cost.le, Cost.add, tick] at *; omega

theorem sumMax_cons (e : XmlEvent) (r : List XmlEvent) : sumMax (e :: r) = (evMax e).add (sumMax r) := rfl

/-- the step for one event: charge `c ≤ evMax e`, continue within the budget of the rest -/
theorem boundB_event {α : Type} {e : XmlEvent} {r : List XmlEvent} {c : Cost}
    {p : Outcome (α × List XmlEvent) × Cost} (hc : Cost.le c (evMax e)) (hp : BoundB (sumMax r) p) :
    BoundB (sumMax (e :: r)) (withCost c p) := by
  refine boundB_mono (boundB_withCost c hp) ?_
  rw [sumMax_cons]
  simp only [Cost.le, Cost.add] at *; omega

theorem withCost_withCost {α : Type} (c d : Cost) (p : α × Cost) :
    withCost c (withCost d p) = withCost (c.add d) p := by
  simp [withCost, Cost.add, Nat.add_assoc]

theorem commitCost_le (la : LineAcc) : (commitCost la).reads = 0 ∧ (commitCost la).attrs = 0 ∧
    (commitCost la).mapOps ≤ 1 := by
  unfold commitCost
  repeat' split
  all_goals simp

theorem boundB_rest {α : Type} (e : XmlEvent) (r : List XmlEvent) {p : Outcome (α × List XmlEvent) × Cost}
    (hp : BoundB (sumMax r) p) : BoundB (sumMax (e :: r)) (withCost tick p) :=
  boundB_event (by simp [Cost.le, tick, evMax]) hp

theorem sourcefileLoopC_bound (cap fuel : Nat) (evs : List XmlEvent) (acc : SrcAcc) :
    BoundB (sumMax evs) (sourcefileLoopC cap fuel evs acc) := by
  induction fuel generalizing evs acc with
  | zero => exact boundB_fail _ _ (by intro x h; cases h)
  | succ fuel ih =>
    cases evs with
    | nil => simp [sourcefileLoopC, BoundB, Cost.le, Cost.add, tick, sumMax]
    | cons e r =>
      simp only [sourcefileLoopC]
      cases e with
      | start n a =>
        simp only
        split
        · next hn =>
          have ha := lineAttrsCost_le a
          rw [withCost_withCost]
          cases hl : lineAttrs a {} with
          | error k =>
            refine boundB_event ?_ (boundB_fail _ _ (by intro x h; cases h))
            simp only [Cost.le, Cost.add, tick, evMax, evAttrs]; omega
          | ok la =>
            have hcc := commitCost_le la
            simp only
            cases hc : commitLine cap acc la with
            | ok acc' =>
              simp only [withCost_withCost]
              refine boundB_event ?_ (ih _ _)
              simp only [Cost.le, Cost.add, tick, evMax, evAttrs, lineAlloc, hn, hl, if_true]; omega
            | err k =>
              refine boundB_event ?_ (boundB_fail _ _ (by intro x h; cases h))
              simp only [Cost.le, Cost.add, tick, evMax, evAttrs]; omega
            | alloc =>
              refine boundB_event ?_ (boundB_fail _ _ (by intro x h; cases h))
              simp only [Cost.le, Cost.add, tick, evMax, evAttrs]; omega
            | diverge =>
              refine boundB_event ?_ (boundB_fail _ _ (by intro x h; cases h))
              simp only [Cost.le, Cost.add, tick, evMax, evAttrs]; omega
        · exact boundB_rest _ _ (ih _ _)
      | end_ n =>
        simp only
        split
        · exact boundB_rest _ _ (boundB_ok _ _)
        · exact boundB_rest _ _ (ih _ _)
      | bad => exact boundB_rest _ _ (boundB_fail _ _ (by intro x h; cases h))
      | empty n a => exact boundB_rest _ _ (ih _ _)
      | text => exact boundB_rest _ _ (ih _ _)
      | other => exact boundB_rest _ _ (ih _ _)

theorem methodLoopC_bound (fuel : Nat) (evs : List XmlEvent) (ex : Bool) :
    BoundB (sumMax evs) (methodLoopC fuel evs ex) := by
  induction fuel generalizing evs ex with
  | zero => exact boundB_fail _ _ (by intro x h; cases h)
  | succ fuel ih =>
    cases evs with
    | nil => simp [methodLoopC, BoundB, Cost.le, Cost.add, tick, sumMax]
    | cons e r =>
      simp only [methodLoopC]
      cases e with
      | start n a =>
        simp only
        split
        · next hn =>
          have h1 := getAttrCost_le sType a
          have h2 := getAttrCost_le sCovered a
          rw [withCost_withCost]
          cases ht : getAttr sType a with
          | error k =>
            refine boundB_event ?_ (boundB_fail _ _ (by intro x h; cases h))
            simp only [Cost.le, Cost.add, tick, evMax, evAttrs]; omega
          | ok t =>
            simp only
            split
            · rw [withCost_withCost]
              cases hc : getAttr sCovered a with
              | error k =>
                refine boundB_event ?_ (boundB_fail _ _ (by intro x h; cases h))
                simp only [Cost.le, Cost.add, tick, evMax, evAttrs]; omega
              | ok c =>
                simp only
                cases hp : parseUnsigned U32MAX c with
                | none =>
                  refine boundB_event ?_ (boundB_fail _ _ (by intro x h; cases h))
                  simp only [Cost.le, Cost.add, tick, evMax, evAttrs]; omega
                | some v =>
                  refine boundB_event ?_ (ih _ _)
                  simp only [Cost.le, Cost.add, tick, evMax, evAttrs]; omega
            · refine boundB_event ?_ (ih _ _)
              simp only [Cost.le, Cost.add, tick, evMax, evAttrs]; omega
        · exact boundB_rest _ _ (ih _ _)
      | end_ n =>
        simp only
        split
        · exact boundB_rest _ _ (boundB_ok _ _)
        · exact boundB_rest _ _ (ih _ _)
      | bad => exact boundB_rest _ _ (boundB_fail _ _ (by intro x h; cases h))
      | empty n a => exact boundB_rest _ _ (ih _ _)
      | text => exact boundB_rest _ _ (ih _ _)
      | other => exact boundB_rest _ _ (ih _ _)

theorem classLoopC_bound (cls : Name) (fuel : Nat) (evs : List XmlEvent) (fns : List (Name × Fn)) :
    BoundB (sumMax evs) (classLoopC cls fuel evs fns) := by
  induction fuel generalizing evs fns with
  | zero => exact boundB_fail _ _ (by intro x h; cases h)
  | succ fuel ih =>
    cases evs with
    | nil => simp [classLoopC, BoundB, Cost.le, Cost.add, tick, sumMax]
    | cons e r =>
      simp only [classLoopC]
      cases e with
      | start n a =>
        simp only
        split
        · next hn =>
          have h1 := getAttrCost_le sName a
          have h2 := getAttrCost_le sLine a
          rw [withCost_withCost]
          cases ht : getAttr sName a with
          | error k =>
            refine boundB_event ?_ (boundB_fail _ _ (by intro x h; cases h))
            simp only [Cost.le, Cost.add, tick, evMax, evAttrs]; omega
          | ok name =>
            simp only
            rw [withCost_withCost]
            cases hl : getAttr sLine a with
            | error k =>
              refine boundB_event ?_ (boundB_fail _ _ (by intro x h; cases h))
              simp only [Cost.le, Cost.add, tick, evMax, evAttrs]; omega
            | ok l =>
              simp only
              cases hp : parseUnsigned U32MAX l with
              | none =>
                refine boundB_event ?_ (boundB_fail _ _ (by intro x h; cases h))
                simp only [Cost.le, Cost.add, tick, evMax, evAttrs]; omega
              | some startLine =>
                simp only
                have hm := methodLoopC_bound fuel r false
                -- charge the event with the two passes and the two insertions; the inner loop and
                -- the continuation live on the budget of the rest
                cases hmo : (methodLoopC fuel r false).1 with
                | ok xr =>
                  obtain ⟨ex, r'⟩ := xr
                  simp only [withCost_withCost]
                  have hk := ih r' (set fns (cls ++ cHash :: name) ⟨startLine, ex⟩)
                  unfold BoundB at hm hk ⊢
                  rw [hmo] at hm
                  simp only [withCost_fst, withCost_snd] at *
                  cases hk1 : (classLoopC cls fuel r' (set fns (cls ++ cHash :: name) ⟨startLine, ex⟩)).1 with
                  | ok y =>
                    rw [hk1] at hk
                    simp only [Cost.le, Cost.add, tick, evMax, evAttrs, sumMax_cons] at *; omega
                  | err k =>
                    rw [hk1] at hk
                    simp only [Cost.le, Cost.add, tick, evMax, evAttrs, sumMax_cons] at *; omega
                  | alloc =>
                    rw [hk1] at hk
                    simp only [Cost.le, Cost.add, tick, evMax, evAttrs, sumMax_cons] at *; omega
                  | diverge =>
                    rw [hk1] at hk
                    simp only [Cost.le, Cost.add, tick, evMax, evAttrs, sumMax_cons] at *; omega
                | err k =>
                  unfold BoundB at hm ⊢
                  rw [hmo] at hm
                  simp only [withCost_fst, withCost_snd, Cost.le, Cost.add, tick, evMax, evAttrs, sumMax_cons] at *
                  omega
                | alloc =>
                  unfold BoundB at hm ⊢
                  rw [hmo] at hm
                  simp only [withCost_fst, withCost_snd, Cost.le, Cost.add, tick, evMax, evAttrs, sumMax_cons] at *
                  omega
                | diverge =>
                  unfold BoundB at hm ⊢
                  rw [hmo] at hm
                  simp only [withCost_fst, withCost_snd, Cost.le, Cost.add, tick, evMax, evAttrs, sumMax_cons] at *
                  omega
        · exact boundB_rest _ _ (ih _ _)
      | end_ n =>
        simp only
        split
        · exact boundB_rest _ _ (boundB_ok _ _)
        · exact boundB_rest _ _ (ih _ _)
      | bad => exact boundB_rest _ _ (boundB_fail _ _ (by intro x h; cases h))
      | empty n a => exact boundB_rest _ _ (ih _ _)
      | text => exact boundB_rest _ _ (ih _ _)
      | other => exact boundB_rest _ _ (ih _ _)

theorem packageLoopC_bound (cap : Nat) (pk : Name) (fuel : Nat) (evs : List XmlEvent) (m : List (Name × Cov)) :
    BoundB (sumMax evs) (packageLoopC cap pk fuel evs m) := by
  induction fuel generalizing evs m with
  | zero => exact boundB_fail _ _ (by intro x h; cases h)
  | succ fuel ih =>
    cases evs with
    | nil => simp [packageLoopC, BoundB, Cost.le, Cost.add, tick, sumMax]
    | cons e r =>
      simp only [packageLoopC]
      cases e with
      | start n a =>
        simp only
        split
        · next hn =>
          have h1 := getAttrCost_le sName a
          have h2 := getAttrCost_le sSourcefilename a
          rw [withCost_withCost]
          cases ht : getAttr sName a with
          | error k =>
            refine boundB_event ?_ (boundB_fail _ _ (by intro x h; cases h))
            simp only [Cost.le, Cost.add, tick, evMax, evAttrs]; omega
          | ok fq =>
            simp only
            rw [withCost_withCost]
            have hm := classLoopC_bound (afterLast cSlash fq) fuel r []
            cases hsf : sourceFileOf a (beforeFirst cDollar (afterLast cSlash fq)) with
            | error k =>
              refine boundB_event ?_ (boundB_fail _ _ (by intro x h; cases h))
              simp only [Cost.le, Cost.add, tick, evMax, evAttrs]; omega
            | ok file =>
              simp only
              (
                  cases hmo : (classLoopC (afterLast cSlash fq) fuel r []).1 with
                  | ok xr =>
                    obtain ⟨x1, r'⟩ := xr
                    simp only [withCost_withCost]
                    have hk := ih r' (addClass m file x1)
                    unfold BoundB at hm hk ⊢
                    rw [hmo] at hm
                    simp only [withCost_fst, withCost_snd] at *
                    cases hk1 : (packageLoopC cap pk fuel r' (addClass m file x1)).1 with
                    | ok y =>
                      rw [hk1] at hk
                      simp only [Cost.le, Cost.add, tick, evMax, evAttrs, sumMax_cons] at *; omega
                    | err k =>
                      rw [hk1] at hk
                      simp only [Cost.le, Cost.add, tick, evMax, evAttrs, sumMax_cons] at *; omega
                    | alloc =>
                      rw [hk1] at hk
                      simp only [Cost.le, Cost.add, tick, evMax, evAttrs, sumMax_cons] at *; omega
                    | diverge =>
                      rw [hk1] at hk
                      simp only [Cost.le, Cost.add, tick, evMax, evAttrs, sumMax_cons] at *; omega
                  | err k =>
                    unfold BoundB at hm ⊢
                    rw [hmo] at hm
                    simp only [withCost_fst, withCost_snd, Cost.le, Cost.add, tick, evMax, evAttrs, sumMax_cons] at *
                    omega
                  | alloc =>
                    unfold BoundB at hm ⊢
                    rw [hmo] at hm
                    simp only [withCost_fst, withCost_snd, Cost.le, Cost.add, tick, evMax, evAttrs, sumMax_cons] at *
                    omega
                  | diverge =>
                    unfold BoundB at hm ⊢
                    rw [hmo] at hm
                    simp only [withCost_fst, withCost_snd, Cost.le, Cost.add, tick, evMax, evAttrs, sumMax_cons] at *
                    omega
              )
        · split
          · next hn =>
            have h1 := getAttrCost_le sName a
            rw [withCost_withCost]
            cases ht : getAttr sName a with
            | error k =>
              refine boundB_event ?_ (boundB_fail _ _ (by intro x h; cases h))
              simp only [Cost.le, Cost.add, tick, evMax, evAttrs]; omega
            | ok file =>
              simp only
              have hm := sourcefileLoopC_bound cap fuel r {}
              (
                  cases hmo : (sourcefileLoopC cap fuel r {}).1 with
                  | ok xr =>
                    obtain ⟨x1, r'⟩ := xr
                    simp only [withCost_withCost]
                    have hk := ih r' (addSource m file x1)
                    unfold BoundB at hm hk ⊢
                    rw [hmo] at hm
                    simp only [withCost_fst, withCost_snd] at *
                    cases hk1 : (packageLoopC cap pk fuel r' (addSource m file x1)).1 with
                    | ok y =>
                      rw [hk1] at hk
                      simp only [Cost.le, Cost.add, tick, evMax, evAttrs, sumMax_cons] at *; omega
                    | err k =>
                      rw [hk1] at hk
                      simp only [Cost.le, Cost.add, tick, evMax, evAttrs, sumMax_cons] at *; omega
                    | alloc =>
                      rw [hk1] at hk
                      simp only [Cost.le, Cost.add, tick, evMax, evAttrs, sumMax_cons] at *; omega
                    | diverge =>
                      rw [hk1] at hk
                      simp only [Cost.le, Cost.add, tick, evMax, evAttrs, sumMax_cons] at *; omega
                  | err k =>
                    unfold BoundB at hm ⊢
                    rw [hmo] at hm
                    simp only [withCost_fst, withCost_snd, Cost.le, Cost.add, tick, evMax, evAttrs, sumMax_cons] at *
                    omega
                  | alloc =>
                    unfold BoundB at hm ⊢
                    rw [hmo] at hm
                    simp only [withCost_fst, withCost_snd, Cost.le, Cost.add, tick, evMax, evAttrs, sumMax_cons] at *
                    omega
                  | diverge =>
                    unfold BoundB at hm ⊢
                    rw [hmo] at hm
                    simp only [withCost_fst, withCost_snd, Cost.le, Cost.add, tick, evMax, evAttrs, sumMax_cons] at *
                    omega
              )
          · exact boundB_rest _ _ (ih _ _)
      | end_ n =>
        simp only
        split
        · exact boundB_rest _ _ (boundB_ok _ _)
        · exact boundB_rest _ _ (ih _ _)
      | bad => exact boundB_rest _ _ (boundB_fail _ _ (by intro x h; cases h))
      | empty n a => exact boundB_rest _ _ (ih _ _)
      | text => exact boundB_rest _ _ (ih _ _)
      | other => exact boundB_rest _ _ (ih _ _)

theorem reportLoopC_bound (cap fuel : Nat) (evs : List XmlEvent) (res : List (Name × Cov)) :
    Cost.le (reportLoopC cap fuel evs res).2 ((sumMax evs).add tick) := by
  induction fuel generalizing evs res with
  | zero => simp [reportLoopC, Cost.le, Cost.add, tick]
  | succ fuel ih =>
    cases evs with
    | nil => simp [reportLoopC, Cost.le, Cost.add, tick, sumMax]
    | cons e r =>
      have rest : ∀ res', Cost.le (withCost tick (reportLoopC cap fuel r res')).2 ((sumMax (e :: r)).add tick) := by
        intro res'
        have := ih r res'
        simp only [withCost_snd, Cost.le, Cost.add, tick, evMax, sumMax_cons] at *; omega
      simp only [reportLoopC]
      cases e with
      | start n a =>
        simp only
        split
        · next hn =>
          have h1 := getAttrCost_le sName a
          rw [withCost_withCost]
          cases ht : getAttr sName a with
          | error k =>
            simp only [withCost_snd, Cost.le, Cost.add, tick, evMax, evAttrs, sumMax_cons]; omega
          | ok pk =>
            simp only
            have hm := packageLoopC_bound cap pk fuel r []
            cases hmo : (packageLoopC cap pk fuel r []).1 with
            | ok xr =>
              obtain ⟨pr, r'⟩ := xr
              have hk := ih r' (res ++ pr)
              unfold BoundB at hm
              rw [hmo] at hm
              simp only [withCost_snd, Cost.le, Cost.add, tick, evMax, evAttrs, sumMax_cons] at *; omega
            | err k =>
              unfold BoundB at hm
              rw [hmo] at hm
              simp only [withCost_snd, Cost.le, Cost.add, tick, evMax, evAttrs, sumMax_cons] at *; omega
            | alloc =>
              unfold BoundB at hm
              rw [hmo] at hm
              simp only [withCost_snd, Cost.le, Cost.add, tick, evMax, evAttrs, sumMax_cons] at *; omega
            | diverge =>
              unfold BoundB at hm
              rw [hmo] at hm
              simp only [withCost_snd, Cost.le, Cost.add, tick, evMax, evAttrs, sumMax_cons] at *; omega
        · exact rest _
      | bad => simp only [withCost_snd, Cost.le, Cost.add, tick, evMax, evAttrs, sumMax_cons]; omega
      | end_ n => exact rest _
      | empty n a => exact rest _
      | text => exact rest _
      | other => exact rest _

/-! ### what the result can hold: every entry was paid for by a map operation, every branch slot
by the allocation it came from -/

def srcEntries (s : SrcAcc) : Nat := s.lines.length + s.branches.length
def srcSlots (s : SrcAcc) : Nat := sumLen s.branches

theorem commitLine_size {cap : Nat} {acc acc' : SrcAcc} {la : LineAcc} (h : commitLine cap acc la = .ok acc') :
    srcEntries acc' ≤ srcEntries acc + (commitCost la).mapOps ∧
    srcSlots acc' ≤ srcSlots acc + (commitCost la).alloc := by
  unfold commitLine at h
  unfold commitCost
  split at h
  · next ci cb mb nr h1 h2 h3 h4 =>
    simp only [h1, h2, h3, h4]
    split at h
    · next hb =>
      split at h
      · cases h
      · simp only [Outcome.ok.injEq] at h; subst h
        have e1 := length_set_le acc.branches nr (List.replicate cb true ++ List.replicate mb false)
        have e2 := wsum_set_le (fun kv : Nat × List Bool => kv.2.length) acc.branches nr
          (List.replicate cb true ++ List.replicate mb false)
        simp only [hb, if_true, srcEntries, srcSlots, sumLen, wsum] at *
        simp at e2
        omega
    · next hb =>
      simp only [Outcome.ok.injEq] at h; subst h
      have e1 := length_set_le acc.lines nr (if ci > 0 then 1 else 0)
      simp only [hb, if_false, srcEntries, srcSlots] at *
      omega
  · cases h

theorem sourcefileLoopC_size (cap fuel : Nat) (evs : List XmlEvent) (acc acc' : SrcAcc) (r' : List XmlEvent)
    (h : (sourcefileLoopC cap fuel evs acc).1 = .ok (acc', r')) :
    srcEntries acc' ≤ srcEntries acc + (sourcefileLoopC cap fuel evs acc).2.mapOps ∧
    srcSlots acc' ≤ srcSlots acc + (sourcefileLoopC cap fuel evs acc).2.alloc := by
  induction fuel generalizing evs acc with
  | zero => cases h
  | succ fuel ih =>
    cases evs with
    | nil => cases h
    | cons e r =>
      have rest : ∀ acc1, (sourcefileLoopC cap fuel r acc1).1 = .ok (acc', r') →
          srcEntries acc' ≤ srcEntries acc1 + (withCost tick (sourcefileLoopC cap fuel r acc1)).2.mapOps ∧
          srcSlots acc' ≤ srcSlots acc1 + (withCost tick (sourcefileLoopC cap fuel r acc1)).2.alloc := by
        intro acc1 h1
        have := ih r acc1 h1
        simp only [withCost_snd, Cost.add, tick]; omega
      simp only [sourcefileLoopC] at h ⊢
      cases e with
      | start n a =>
        simp only at h ⊢
        by_cases hn : localName n = sLine
        · simp only [hn, if_true, withCost_fst] at h ⊢
          cases hl : lineAttrs a {} with
          | error k => simp [hl] at h
          | ok la =>
            simp only [hl] at h ⊢
            cases hc : commitLine cap acc la with
            | ok acc1 =>
              simp only [hc, withCost_fst] at h ⊢
              have h1 := ih r acc1 h
              have h2 := commitLine_size hc
              simp only [withCost_snd, Cost.add, tick]; omega
            | err k => simp [hc] at h
            | alloc => simp [hc] at h
            | diverge => simp [hc] at h
        · simp only [hn, if_false, withCost_fst] at h ⊢
          exact rest _ h
      | end_ n =>
        simp only at h ⊢
        by_cases hn : localName n = sSourcefile
        · simp only [hn, if_true, withCost_fst, Outcome.ok.injEq, Prod.mk.injEq] at h ⊢
          obtain ⟨h1, _⟩ := h; subst h1; omega
        · simp only [hn, if_false, withCost_fst] at h ⊢
          exact rest _ h
      | bad => simp at h
      | empty n a => exact rest _ h
      | text => exact rest _ h
      | other => exact rest _ h

theorem classLoopC_size (cls : Name) (fuel : Nat) (evs : List XmlEvent) (fns fns' : List (Name × Fn))
    (r' : List XmlEvent) (h : (classLoopC cls fuel evs fns).1 = .ok (fns', r')) :
    fns'.length ≤ fns.length + (classLoopC cls fuel evs fns).2.mapOps := by
  induction fuel generalizing evs fns with
  | zero => cases h
  | succ fuel ih =>
    cases evs with
    | nil => cases h
    | cons e r =>
      have rest : ∀ f1, (classLoopC cls fuel r f1).1 = .ok (fns', r') →
          fns'.length ≤ f1.length + (withCost tick (classLoopC cls fuel r f1)).2.mapOps := by
        intro f1 h1
        have := ih r f1 h1
        simp only [withCost_snd, Cost.add, tick]; omega
      simp only [classLoopC] at h ⊢
      cases e with
      | start n a =>
        simp only at h ⊢
        by_cases hn : localName n = sMethod
        · simp only [hn, if_true, withCost_fst] at h ⊢
          cases hl : getAttr sName a with
          | error k => simp [hl] at h
          | ok name =>
            simp only [hl, withCost_fst] at h ⊢
            cases hl2 : getAttr sLine a with
            | error k => simp [hl2] at h
            | ok l =>
              simp only [hl2] at h ⊢
              cases hp : parseUnsigned U32MAX l with
              | none => simp [hp] at h
              | some startLine =>
                simp only [hp, withCost_fst] at h ⊢
                cases hm : (methodLoopC fuel r false).1 with
                | ok xr =>
                  obtain ⟨ex, r1⟩ := xr
                  simp only [hm, withCost_fst] at h ⊢
                  have h1 := ih r1 _ h
                  have h2 := length_set_le fns (cls ++ cHash :: name) ⟨startLine, ex⟩
                  simp only [withCost_snd, Cost.add, tick]; omega
                | err k => simp [hm] at h
                | alloc => simp [hm] at h
                | diverge => simp [hm] at h
        · simp only [hn, if_false, withCost_fst] at h ⊢
          exact rest _ h
      | end_ n =>
        simp only at h ⊢
        by_cases hn : localName n = sClass
        · simp only [hn, if_true, withCost_fst, Outcome.ok.injEq, Prod.mk.injEq] at h ⊢
          obtain ⟨h1, _⟩ := h; subst h1; omega
        · simp only [hn, if_false, withCost_fst] at h ⊢
          exact rest _ h
      | bad => simp at h
      | empty n a => exact rest _ h
      | text => exact rest _ h
      | other => exact rest _ h

/-- files + map entries of a result list -/
def resSize (rs : List (Name × Cov)) : Nat := rs.length + resEntries rs

theorem resEntries_eq (rs : List (Name × Cov)) : resEntries rs = wsum (fun kv => covEntries kv.2) rs := rfl
theorem resSlots_eq (rs : List (Name × Cov)) : resSlots rs = wsum (fun kv => covSlots kv.2) rs := rfl

theorem setAll_length_le {κ α : Type} [DecidableEq κ] (m kvs : List (κ × α)) :
    (setAll m kvs).length ≤ m.length + kvs.length := by
  induction kvs generalizing m with
  | nil => simp [setAll]
  | cons kv kvs ih =>
    have h1 := ih (set m kv.1 kv.2)
    have h2 := length_set_le m kv.1 kv.2
    simp only [setAll, List.foldl_cons, List.length_cons] at h1 ⊢
    omega

theorem wsum_set_some {κ α : Type} [DecidableEq κ] (w : κ × α → Nat) (m : List (κ × α)) (x : κ) (v u : α)
    (h : get? m x = some u) : wsum w (set m x v) + w (x, u) = wsum w m + w (x, v) := by
  have := wsum_set w m x v
  simpa [h] using this

theorem wsum_set_none {κ α : Type} [DecidableEq κ] (w : κ × α → Nat) (m : List (κ × α)) (x : κ) (v : α)
    (h : get? m x = none) : wsum w (set m x v) = wsum w m + w (x, v) := by
  have := wsum_set w m x v
  simpa [h] using this

theorem addClass_size (m : List (Name × Cov)) (file : Name) (fns : List (Name × Fn)) :
    resSize (addClass m file fns) ≤ resSize m + 1 + fns.length ∧
    resSlots (addClass m file fns) = resSlots m := by
  unfold addClass
  cases hg : get? m file with
  | some cov =>
    simp only
    have e1 := length_set_of_some m file { cov with functions := setAll cov.functions fns } (by simp [hg])
    have e2 : _ + covEntries cov = _ + covEntries { cov with functions := setAll cov.functions fns } :=
      wsum_set_some (fun kv : Name × Cov => covEntries kv.2) m file
        { cov with functions := setAll cov.functions fns } cov hg
    have e3 : _ + covSlots cov = _ + covSlots { cov with functions := setAll cov.functions fns } :=
      wsum_set_some (fun kv : Name × Cov => covSlots kv.2) m file
        { cov with functions := setAll cov.functions fns } cov hg
    have e4 := setAll_length_le cov.functions fns
    have e5 : covEntries { cov with functions := setAll cov.functions fns } ≤ covEntries cov + fns.length := by
      simp only [covEntries]; omega
    have e6 : covSlots { cov with functions := setAll cov.functions fns } = covSlots cov := rfl
    simp only [resSize, resEntries_eq, resSlots_eq] at *
    omega
  | none =>
    simp only
    have e1 := length_set_le m file ({ functions := fns } : Cov)
    have e2 : _ = _ + covEntries ({ functions := fns } : Cov) :=
      wsum_set_none (fun kv : Name × Cov => covEntries kv.2) m file ({ functions := fns } : Cov) hg
    have e3 : _ = _ + covSlots ({ functions := fns } : Cov) :=
      wsum_set_none (fun kv : Name × Cov => covSlots kv.2) m file ({ functions := fns } : Cov) hg
    have e5 : covEntries ({ functions := fns } : Cov) = fns.length := by simp [covEntries]
    have e6 : covSlots ({ functions := fns } : Cov) = 0 := rfl
    simp only [resSize, resEntries_eq, resSlots_eq] at *
    omega

theorem addSource_size (m : List (Name × Cov)) (file : Name) (s : SrcAcc) :
    resSize (addSource m file s) ≤ resSize m + 1 + srcEntries s ∧
    resSlots (addSource m file s) ≤ resSlots m + srcSlots s := by
  unfold addSource
  cases hg : get? m file with
  | some cov =>
    simp only
    have e1 := length_set_of_some m file { cov with lines := s.lines, branches := s.branches } (by simp [hg])
    have e2 : _ + covEntries cov = _ + covEntries { cov with lines := s.lines, branches := s.branches } :=
      wsum_set_some (fun kv : Name × Cov => covEntries kv.2) m file
        { cov with lines := s.lines, branches := s.branches } cov hg
    have e3 : _ + covSlots cov = _ + covSlots { cov with lines := s.lines, branches := s.branches } :=
      wsum_set_some (fun kv : Name × Cov => covSlots kv.2) m file
        { cov with lines := s.lines, branches := s.branches } cov hg
    have e5 : covEntries { cov with lines := s.lines, branches := s.branches } ≤ covEntries cov + srcEntries s := by
      simp only [covEntries, srcEntries]; omega
    have e6 : covSlots { cov with lines := s.lines, branches := s.branches } = srcSlots s := rfl
    simp only [resSize, resEntries_eq, resSlots_eq] at *
    omega
  | none =>
    simp only
    have e1 := length_set_le m file ({ lines := s.lines, branches := s.branches } : Cov)
    have e2 : _ = _ + covEntries ({ lines := s.lines, branches := s.branches } : Cov) :=
      wsum_set_none (fun kv : Name × Cov => covEntries kv.2) m file _ hg
    have e3 : _ = _ + covSlots ({ lines := s.lines, branches := s.branches } : Cov) :=
      wsum_set_none (fun kv : Name × Cov => covSlots kv.2) m file _ hg
    have e5 : covEntries ({ lines := s.lines, branches := s.branches } : Cov) = srcEntries s := by
      simp [covEntries, srcEntries]
    have e6 : covSlots ({ lines := s.lines, branches := s.branches } : Cov) = srcSlots s := rfl
    simp only [resSize, resEntries_eq, resSlots_eq] at *
    omega

theorem map_outPath_size (pk : Name) (m : List (Name × Cov)) :
    resSize (m.map fun x => (outPath pk x.1, x.2)) = resSize m ∧
    resSlots (m.map fun x => (outPath pk x.1, x.2)) = resSlots m := by
  induction m with
  | nil => simp [resSize, resEntries, resSlots]
  | cons kv m ih =>
    obtain ⟨f, c⟩ := kv
    simp only [resSize, resEntries, resSlots, List.map_cons, List.sum_cons, List.length_cons] at ih ⊢
    omega

theorem packageLoopC_size (cap : Nat) (pk : Name) (fuel : Nat) (evs : List XmlEvent)
    (m out : List (Name × Cov)) (r' : List XmlEvent)
    (h : (packageLoopC cap pk fuel evs m).1 = .ok (out, r')) :
    resSize out ≤ resSize m + (packageLoopC cap pk fuel evs m).2.mapOps ∧
    resSlots out ≤ resSlots m + (packageLoopC cap pk fuel evs m).2.alloc := by
  induction fuel generalizing evs m with
  | zero => cases h
  | succ fuel ih =>
    cases evs with
    | nil => cases h
    | cons e r =>
      have rest : ∀ m1, (packageLoopC cap pk fuel r m1).1 = .ok (out, r') →
          resSize out ≤ resSize m1 + (withCost tick (packageLoopC cap pk fuel r m1)).2.mapOps ∧
          resSlots out ≤ resSlots m1 + (withCost tick (packageLoopC cap pk fuel r m1)).2.alloc := by
        intro m1 h1
        have := ih r m1 h1
        simp only [withCost_snd, Cost.add, tick]; omega
      simp only [packageLoopC] at h ⊢
      cases e with
      | start n a =>
        simp only at h ⊢
        by_cases hn : localName n = sClass
        · simp only [hn, if_true, withCost_fst] at h ⊢
          cases hl : getAttr sName a with
          | error k => simp [hl] at h
          | ok fq =>
            simp only [hl, withCost_fst] at h ⊢
            cases hsf : sourceFileOf a (beforeFirst cDollar (afterLast cSlash fq)) with
            | error k => simp [hsf] at h
            | ok file =>
              simp only [hsf, withCost_fst] at h ⊢
              cases hm : (classLoopC (afterLast cSlash fq) fuel r []).1 with
              | ok xr =>
                obtain ⟨fns, r1⟩ := xr
                simp only [hm, withCost_fst] at h ⊢
                have h1 := ih r1 _ h
                have h2 := addClass_size m file fns
                have h3 := classLoopC_size _ fuel r [] fns r1 hm
                simp only [withCost_snd, Cost.add, tick, List.length_nil] at *; omega
              | err k => simp [hm] at h
              | alloc => simp [hm] at h
              | diverge => simp [hm] at h
        · simp only [hn, if_false] at h ⊢
          by_cases hn2 : localName n = sSourcefile
          · simp only [hn2, if_true, withCost_fst] at h ⊢
            cases hl : getAttr sName a with
            | error k => simp [hl] at h
            | ok file =>
              simp only [hl, withCost_fst] at h ⊢
              cases hm : (sourcefileLoopC cap fuel r {}).1 with
              | ok xr =>
                obtain ⟨sa, r1⟩ := xr
                simp only [hm, withCost_fst] at h ⊢
                have h1 := ih r1 _ h
                have h2 := addSource_size m file sa
                have h3 := sourcefileLoopC_size cap fuel r {} sa r1 hm
                have e0 : srcEntries ({} : SrcAcc) = 0 := rfl
                have e1 : srcSlots ({} : SrcAcc) = 0 := rfl
                simp only [withCost_snd, Cost.add, tick] at *; omega
              | err k => simp [hm] at h
              | alloc => simp [hm] at h
              | diverge => simp [hm] at h
          · simp only [hn2, if_false, withCost_fst] at h ⊢
            exact rest _ h
      | end_ n =>
        simp only at h ⊢
        by_cases hn : localName n = sPackage
        · simp only [hn, if_true, withCost_fst, Outcome.ok.injEq, Prod.mk.injEq] at h ⊢
          obtain ⟨h1, _⟩ := h; subst h1
          have := map_outPath_size pk m
          simp only [withCost_snd, Cost.add, tick]; omega
        · simp only [hn, if_false, withCost_fst] at h ⊢
          exact rest _ h
      | bad => simp at h
      | empty n a => exact rest _ h
      | text => exact rest _ h
      | other => exact rest _ h

theorem resSize_append (a b : List (Name × Cov)) : resSize (a ++ b) = resSize a + resSize b := by
  simp [resSize, resEntries]; omega

theorem resSlots_append' (a b : List (Name × Cov)) : resSlots (a ++ b) = resSlots a + resSlots b := by
  simp [resSlots]

theorem reportLoopC_size (cap fuel : Nat) (evs : List XmlEvent) (res out : List (Name × Cov))
    (h : (reportLoopC cap fuel evs res).1 = .ok out) :
    resSize out ≤ resSize res + (reportLoopC cap fuel evs res).2.mapOps ∧
    resSlots out ≤ resSlots res + (reportLoopC cap fuel evs res).2.alloc := by
  induction fuel generalizing evs res with
  | zero => cases h
  | succ fuel ih =>
    cases evs with
    | nil =>
      simp only [reportLoopC, Outcome.ok.injEq] at h ⊢
      subst h; omega
    | cons e r =>
      have rest : ∀ m1, (reportLoopC cap fuel r m1).1 = .ok out →
          resSize out ≤ resSize m1 + (withCost tick (reportLoopC cap fuel r m1)).2.mapOps ∧
          resSlots out ≤ resSlots m1 + (withCost tick (reportLoopC cap fuel r m1)).2.alloc := by
        intro m1 h1
        have := ih r m1 h1
        simp only [withCost_snd, Cost.add, tick]; omega
      simp only [reportLoopC] at h ⊢
      cases e with
      | start n a =>
        simp only at h ⊢
        by_cases hn : localName n = sPackage
        · simp only [hn, if_true, withCost_fst] at h ⊢
          cases hl : getAttr sName a with
          | error k => simp [hl] at h
          | ok pk =>
            simp only [hl, withCost_fst] at h ⊢
            cases hm : (packageLoopC cap pk fuel r []).1 with
            | ok xr =>
              obtain ⟨pr, r1⟩ := xr
              simp only [hm] at h ⊢
              have h1 := ih r1 _ h
              have h3 := packageLoopC_size cap pk fuel r [] pr r1 hm
              have e0 : resSize ([] : List (Name × Cov)) = 0 := rfl
              have e1 : resSlots ([] : List (Name × Cov)) = 0 := rfl
              rw [resSize_append, resSlots_append'] at h1
              simp only [withCost_snd, Cost.add, tick] at *; omega
            | err k => simp [hm] at h
            | alloc => simp [hm] at h
            | diverge => simp [hm] at h
        · simp only [hn, if_false, withCost_fst] at h ⊢
          exact rest _ h
      | bad => simp at h
      | end_ n => exact rest _ h
      | empty n a => exact rest _ h
      | text => exact rest _ h
      | other => exact rest _ h

/-! ### the names `abKeys w` -/

theorem abKeys_length (w : Nat) : (abKeys w).length = 2 ^ w := by
  induction w with
  | zero => rfl
  | succ w ih => simp [abKeys, ih, Nat.pow_succ]; omega

theorem abKeys_mem_length {w : Nat} {k : Name} (h : k ∈ abKeys w) : k.length = w := by
  induction w generalizing k with
  | zero => simp [abKeys] at h; subst h; rfl
  | succ w ih =>
    simp only [abKeys, List.mem_append, List.mem_map] at h
    rcases h with ⟨k', hk', rfl⟩ | ⟨k', hk', rfl⟩ <;> simp [ih hk']

theorem abKeys_bytes {w : Nat} {k : Name} (h : k ∈ abKeys w) : ∀ b ∈ k, b = 97 ∨ b = 98 := by
  induction w generalizing k with
  | zero => simp [abKeys] at h; subst h; simp
  | succ w ih =>
    simp only [abKeys, List.mem_append, List.mem_map] at h
    rcases h with ⟨k', hk', rfl⟩ | ⟨k', hk', rfl⟩
    · intro b hb; simp only [List.mem_cons] at hb
      rcases hb with hb | hb
      · exact Or.inl hb
      · exact ih hk' b hb
    · intro b hb; simp only [List.mem_cons] at hb
      rcases hb with hb | hb
      · exact Or.inr hb
      · exact ih hk' b hb

theorem abKeys_ne_name {w : Nat} {k : Name} (h : k ∈ abKeys w) : k ≠ sName := by
  intro e
  have := abKeys_bytes h 110 (by rw [e]; simp [sName])
  omega

theorem abKeys_nodup (w : Nat) : (abKeys w).Nodup := by
  induction w with
  | zero => simp [abKeys]
  | succ w ih =>
    simp only [abKeys]
    rw [List.nodup_append]
    refine ⟨ih.map (fun a b h => by simpa using h), ih.map (fun a b h => by simpa using h), ?_⟩
    intro a ha b hb
    simp only [List.mem_map] at ha hb
    obtain ⟨a', _, rfl⟩ := ha
    obtain ⟨b', _, rfl⟩ := hb
    simp

theorem localName_sPackage : localName sPackage = sPackage := by decide

/-! ### the budget in terms of the size of the event stream -/

theorem sumMax_fields (evs : List XmlEvent) :
    (sumMax evs).reads = evs.length ∧ (sumMax evs).attrs = 2 * attrCount evs ∧
    (sumMax evs).mapOps = 2 * evs.length := by
  induction evs with
  | nil => simp [sumMax, attrCount]
  | cons e r ih =>
    simp only [sumMax, Cost.add, evMax, attrCount, List.map_cons, List.sum_cons, List.length_cons] at ih ⊢
    omega

theorem sumMax_alloc_le (B : Nat) (evs : List XmlEvent) (h : ∀ e ∈ evs, lineAlloc e ≤ B) :
    (sumMax evs).alloc ≤ B * evs.length := by
  induction evs with
  | nil => simp [sumMax]
  | cons e r ih =>
    have h1 := h e (by simp)
    have h2 := ih (fun e' he' => h e' (List.mem_cons_of_mem _ he'))
    simp only [sumMax, Cost.add, evMax, List.length_cons, Nat.mul_succ] at h2 ⊢
    omega

theorem attrBytes_ge (a : List Attr) : 4 * a.length ≤ attrBytes a := by
  induction a with
  | nil => simp [attrBytes]
  | cons kv a ih => simp only [attrBytes, List.map_cons, List.sum_cons, List.length_cons] at ih ⊢; omega

theorem evBytes_ge (e : XmlEvent) : 1 + 4 * (evAttrs e).length ≤ evBytes e := by
  cases e <;> simp [evBytes, evAttrs]
  all_goals (rename_i n a; have := attrBytes_ge a; omega)

/-- events and attributes are paid for by bytes of the XML text -/
theorem evsBytes_ge (evs : List XmlEvent) : evs.length + 4 * attrCount evs ≤ evsBytes evs := by
  induction evs with
  | nil => simp [evsBytes, attrCount]
  | cons e r ih =>
    have := evBytes_ge e
    simp only [evsBytes, attrCount, List.map_cons, List.sum_cons, List.length_cons] at ih ⊢
    omega

theorem expand_sizes (evs : List XmlEvent) :
    (expand evs).length ≤ 2 * evs.length ∧ attrCount (expand evs) = attrCount evs ∧
    evsBytes (expand evs) ≤ 2 * evsBytes evs := by
  induction evs with
  | nil => simp [expand, attrCount, evsBytes]
  | cons e r ih =>
    cases e <;>
      simp only [expand, attrCount, evsBytes, evBytes, evAttrs, List.map_cons, List.sum_cons, List.length_cons,
        List.length_nil] at ih ⊢ <;> omega
/-! ### the closed family of the allocation finding -/

theorem lineAttrs_oneLine (d : Name) (cb : Nat) (h : parseUnsigned U64MAX d = some cb) :
    lineAttrs [(sNr, [49]), (sCi, [48]), (sMb, [48]), (sCb, d)] {}
      = .ok ⟨some 0, some cb, some 0, some 1⟩ := by
  have h1 : parseUnsigned U32MAX [49] = some 1 := by decide
  have h0 : parseUnsigned U64MAX [48] = some 0 := by decide
  simp [lineAttrs, h, h1, h0, sNr, sCi, sMb, sCb]

theorem oneLineReport_result (cap : Nat) (d : Name) (cb : Nat) (h : parseUnsigned U64MAX d = some cb)
    (hpos : 0 < cb) (hcap : cb ≤ cap) :
    parseCap cap (oneLineReport d) (enoughFuel (oneLineReport d))
      = .ok [([112, 47, 65], { branches := [(1, List.replicate cb true ++ List.replicate 0 false)] })] := by
  have hl := lineAttrs_oneLine d cb h
  have e : enoughFuel (oneLineReport d) = 11 := rfl
  have n1 : localName sPackage = sPackage := by decide
  have n2 : localName sSourcefile = sSourcefile := by decide
  have n3 : localName sLine = sLine := by decide
  have g1 : getAttr sName [(sName, [112])] = .ok [112] := by decide
  have g2 : getAttr sName [(sName, [65])] = .ok [65] := by decide
  have c1 : (sSourcefile = sClass) = False := by decide
  have c2 : (sLine = sSourcefile) = False := by decide
  have c3 : (sSourcefile = sPackage) = False := by decide
  have hc : ¬ cb + 0 > cap := by omega
  rw [e]
  simp only [parseCap, oneLineReport, expand, reportLoop, packageLoop, sourcefileLoop, n1, n2, n3, g1, g2, hl,
    commitLine, c1, c2, c3, if_true, if_false, hpos, hc, or_true, addSource, get?, AList.set, List.map, outPath,
    List.nil_append, cSlash]
  simp

/-- the result of the one-line report holds exactly `cb` slots -/
theorem oneLineReport_slots (cap : Nat) (d : Name) (cb : Nat) (h : parseUnsigned U64MAX d = some cb)
    (hpos : 0 < cb) (hcap : cb ≤ cap) :
    ∃ rs, parseCap cap (oneLineReport d) (enoughFuel (oneLineReport d)) = .ok rs ∧ resSlots rs = cb := by
  refine ⟨_, oneLineReport_result cap d cb h hpos hcap, ?_⟩
  simp [resSlots, covSlots, sumLen]

theorem oneLineReport_bytes (d : Name) : evsBytes (oneLineReport d) = 88 + d.length := by
  simp [evsBytes, oneLineReport, evBytes, attrBytes, sPackage, sSourcefile, sLine, sName, sNr, sCi, sMb, sCb]
  omega

/-! ### the whole parse -/

theorem parseCapC_budget (cap : Nat) (evs : List XmlEvent) (fuel : Nat) :
    Cost.le (parseCapC cap evs fuel).2 ((sumMax (expand evs)).add tick) :=
  reportLoopC_bound cap fuel (expand evs) []

theorem parseCap_size {cap : Nat} {evs : List XmlEvent} {fuel : Nat} {rs : List (Name × Cov)}
    (h : parseCap cap evs fuel = .ok rs) :
    rs.length + resEntries rs ≤ (parseCapC cap evs fuel).2.mapOps ∧
    resSlots rs ≤ (parseCapC cap evs fuel).2.alloc := by
  have := reportLoopC_size cap fuel (expand evs) [] rs (by rw [reportLoopC_fst]; exact h)
  simpa [resSize, resEntries, resSlots, parseCapC] using this

end Grcov.Jacoco
