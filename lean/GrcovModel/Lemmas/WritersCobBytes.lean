/-
Helper lemmas for C03/C18 part CobBytes (`GrcovModel/Writers/CobBytes.lean`). Core Lean only.
-/
import GrcovModel.Writers.CobBytes
import GrcovModel.Lemmas.Escape
import GrcovModel.Lemmas.WritersCobAde
namespace Grcov.Writers.CobBytes
open Grcov Grcov.Escape Grcov.Stats Grcov.Writers.CobAde

/-! ## names -/

theorem readName_append (n rest : Bytes) (hn : n.all isNameByte = true)
    (hr : ∀ c r, rest = c :: r → isNameByte c = false) : readName (n ++ rest) = (n, rest) := by
  induction n with
  | nil =>
    cases rest with
    | nil => rfl
    | cons c r => simp [readName, hr c r rfl]
  | cons b n ih =>
    simp only [List.all_cons, Bool.and_eq_true] at hn
    simp [readName, hn.1, ih hn.2]

theorem isName_all {n : Bytes} (h : isName n = true) : n.all isNameByte = true := by
  cases n with
  | nil => simp [isName] at h
  | cons b r =>
    simp only [isName, Bool.and_eq_true] at h
    simp [List.all_cons, isNameByte, h.1, h.2]

theorem isName_ne_nil {n : Bytes} (h : isName n = true) : n ≠ [] := by
  cases n with
  | nil => simp [isName] at h
  | cons b r => simp

theorem isName_head {n : Bytes} (h : isName n = true) : ∃ b r, n = b :: r ∧ isNameStart b = true := by
  cases n with
  | nil => simp [isName] at h
  | cons b r =>
    simp only [isName, Bool.and_eq_true] at h
    exact ⟨b, r, rfl, h.1⟩

/-! ## line ends -/

theorem normEol_cons_ne (b : Nat) (r : Bytes) (hb : b ≠ 13) : normEol (b :: r) = b :: normEol r := by
  rw [normEol.eq_def]
  split
  · rename_i h; cases h
  · rename_i h; cases h; exact absurd rfl hb
  · rename_i h; cases h; exact absurd rfl hb
  · rename_i h; cases h; exact absurd rfl hb
  · rename_i h; cases h; rfl

theorem normEol_id (xs : Bytes) (h : 13 ∉ xs) : normEol xs = xs := by
  induction xs with
  | nil => rfl
  | cons b r ih =>
    have hb : b ≠ 13 := fun e => h (by simp [e])
    rw [normEol_cons_ne b r hb, ih (fun hm => h (List.mem_cons_of_mem _ hm))]

/-! ## attribute values -/

theorem attrOk_ge {v : Bytes} (h : attrOk v = true) : ∀ b ∈ v, 32 ≤ b := by
  simp only [attrOk, Bool.and_eq_true, List.all_eq_true, decide_eq_true_eq] at h
  exact h.1

theorem attrOk_noTabNl {v : Bytes} (h : attrOk v = true) : NoTabNl v := by
  intro b hb
  have := attrOk_ge h b hb
  omega

theorem attrOk_legal {v : Bytes} (h : attrOk v = true) : legalValue v = true := by
  have hg := attrOk_ge h
  simp only [attrOk, Bool.and_eq_true] at h
  simp only [legalValue, Bool.and_eq_true, h.2, and_true, List.all_eq_true]
  intro b hb
  have := hg b hb
  simp [legalByte, this]

theorem readAttrValue_xmlAttr (v rest : Bytes) (h : attrOk v = true) :
    readAttrValue (xmlAttr v ++ 34 :: rest) = some (v, rest) := by
  have h34 : 34 ∉ xmlAttr v := not_mem_escapeWith _ 34 (xmlAttrTab_no 34 (by simp)) v
  have h60 : 60 ∉ xmlAttr v := not_mem_escapeWith _ 60 (xmlAttrTab_no 60 (by simp)) v
  have hnt := noTabNl_xmlAttr v (attrOk_noTabNl h)
  have h13 : 13 ∉ xmlAttr v := fun hm => (hnt 13 hm).2.2 rfl
  unfold readAttrValue
  rw [splitAt1_append 34 _ rest h34]
  simp only [mem_contains_false h60]
  rw [normEol_id _ h13, map_norm_id _ hnt]
  unfold xmlAttr
  rw [unescapeEnt_escapeWith pieceOk_xmlAttr]
  simp [attrOk_legal h]

def attrsOk (as : List (Bytes × Bytes)) : Bool := as.all fun kv => isName kv.1 && attrOk kv.2

theorem isNameByte_false_of (c : Nat) (h : c = 32 ∨ c = 47 ∨ c = 62 ∨ c = 61 ∨ c = 34 ∨ c = 60) :
    isNameByte c = false := by
  rcases h with rfl | rfl | rfl | rfl | rfl | rfl <;> decide

theorem parseAttrs_ser (as : List (Bytes × Bytes)) (rest : Bytes) (f : Nat) (h : attrsOk as = true)
    (hf : as.length + 1 ≤ f) (hr : ∀ c r, rest = c :: r → c ≠ 32) :
    parseAttrs f (serAttrs as ++ rest) = some (as, rest) := by
  induction as generalizing f with
  | nil =>
    cases f with
    | zero => omega
    | succ f =>
      cases rest with
      | nil => rfl
      | cons c r => simp [serAttrs, parseAttrs, hr c r rfl]
  | cons kv as ih =>
    obtain ⟨k, v⟩ := kv
    cases f with
    | zero => omega
    | succ f =>
      simp only [attrsOk, List.all_cons, Bool.and_eq_true] at h
      obtain ⟨⟨hk, hv⟩, has⟩ := h
      have hname : readName (k ++ (61 :: 34 :: (xmlAttr v ++ 34 :: (serAttrs as ++ rest))))
          = (k, 61 :: 34 :: (xmlAttr v ++ 34 :: (serAttrs as ++ rest))) :=
        readName_append k _ (isName_all hk) (by
          intro c r hc; cases hc; exact isNameByte_false_of 61 (by simp))
      have hbytes : serAttrs ((k, v) :: as) ++ rest
          = 32 :: (k ++ (61 :: 34 :: (xmlAttr v ++ 34 :: (serAttrs as ++ rest)))) := by
        simp [serAttrs, List.append_assoc]
      rw [hbytes]
      simp only [parseAttrs, if_true, hname, hk]
      rw [readAttrValue_xmlAttr v _ hv]
      simp only
      rw [ih f has (by simp at hf; omega)]

/-! ## character data -/

theorem takeWhile_append_stop (p : Nat → Bool) (xs : Bytes) (c : Nat) (rest : Bytes)
    (hx : ∀ x ∈ xs, p x = true) (hc : p c = false) :
    (xs ++ c :: rest).takeWhile p = xs ∧ (xs ++ c :: rest).dropWhile p = c :: rest := by
  induction xs with
  | nil => simp [List.takeWhile, List.dropWhile, hc]
  | cons x xs ih =>
    have := ih (fun y hy => hx y (List.mem_cons_of_mem _ hy))
    simp [List.takeWhile, List.dropWhile, hx x (by simp), this.1, this.2]

theorem textOk_legal {v : Bytes} (h : textOk v = true) : legalValue v = true ∧ 13 ∉ v := by
  simp only [textOk, Bool.and_eq_true, List.all_eq_true, Bool.or_eq_true, decide_eq_true_eq,
    beq_iff_eq] at h
  refine ⟨?_, ?_⟩
  · simp only [legalValue, Bool.and_eq_true, h.2, and_true, List.all_eq_true]
    intro b hb
    rcases h.1 b hb with (h1 | h1) | h1 <;> simp [legalByte, h1]
  · intro hm
    rcases h.1 13 hm with (h1 | h1) | h1 <;> omega

theorem mem_xmlText_13 (v : Bytes) (h : 13 ∉ v) : 13 ∉ xmlText v := by
  intro hm
  have key := forall_mem_escapeWith xmlAttrTab (fun y => y ≠ 13) (by
    intro b y hy
    unfold xmlAttrTab at hy
    (repeat' split at hy) <;> simp_all <;> omega) v 13 hm
  rcases key with k | k
  · exact k rfl
  · exact h k

theorem readText_xmlText (v rest : Bytes) (ht : textOk v = true) :
    readText (xmlText v ++ 60 :: rest) = some (.text v, 60 :: rest) := by
  have h60 : 60 ∉ xmlText v := not_mem_escapeWith _ 60 (xmlAttrTab_no 60 (by simp)) v
  have h62 : 62 ∉ xmlText v := not_mem_escapeWith _ 62 (xmlAttrTab_no 62 (by simp)) v
  have hc : containsSeq [93, 93, 62] (xmlText v) = false := by
    cases hh : containsSeq [93, 93, 62] (xmlText v) with
    | false => rfl
    | true => exact absurd (containsSeq_of_mem_last [93, 93] 62 _ hh) h62
  obtain ⟨hl, h13⟩ := textOk_legal ht
  have hsplit := takeWhile_append_stop (fun b => b != 60) (xmlText v) 60 rest
    (by intro x hx; simp; intro e; exact h60 (e ▸ hx)) (by simp)
  unfold readText
  simp only [hsplit.1, hsplit.2, List.isEmpty_cons, Bool.false_eq_true, if_false, hc]
  rw [normEol_id _ (mem_xmlText_13 v h13)]
  unfold xmlText
  rw [unescapeEnt_escapeWith pieceOk_xmlAttr]
  simp [hl]

theorem xmlText_ne_nil (v : Bytes) (h : v ≠ []) : xmlText v ≠ [] := by
  cases v with
  | nil => exact absurd rfl h
  | cons b r =>
    unfold xmlText escapeWith
    simp only [List.flatMap_cons]
    intro hnil
    have : (xmlAttrTab b).getD [b] = [] := (List.append_eq_nil_iff.1 hnil).1
    unfold xmlAttrTab at this
    (repeat' split at this) <;> simp at this

/-! ## fuel -/

mutual
def cost : BXml → Nat
  | .text _ => 1
  | .elem _ as cs => 2 + as.length + costs cs
def costs : List BXml → Nat
  | [] => 1
  | c :: cs => 1 + cost c + costs cs
end

theorem serAttrs_length (as : List (Bytes × Bytes)) : as.length ≤ (serAttrs as).length := by
  induction as with
  | nil => simp [serAttrs]
  | cons kv as ih =>
    obtain ⟨k, v⟩ := kv
    simp [serAttrs]; omega

/-! ## heads of serialised nodes -/

theorem ser_elem_eq (t : Bytes) (as : List (Bytes × Bytes)) (cs : List BXml) :
    ser (.elem t as cs) =
      60 :: (t ++ (serAttrs as ++
        (if selfClosing t cs then [47, 62]
         else 62 :: (serList cs ++ 60 :: 47 :: (t ++ [62]))))) := by
  rw [ser]
  split <;> simp [List.append_assoc]

theorem wf_elem {t : Bytes} {as : List (Bytes × Bytes)} {cs : List BXml}
    (h : wf (.elem t as cs) = true) :
    isName t = true ∧ attrsOk as = true ∧ hasDupKeys as = false ∧ wfs cs = true ∧
      noAdjText cs = true := by
  rw [wf] at h
  simp only [Bool.and_eq_true, Bool.not_eq_true'] at h
  exact ⟨h.1.1.1.1, h.1.1.1.2, h.1.1.2, h.1.2, h.2⟩

theorem wf_text {v : Bytes} (h : wf (.text v) = true) : v ≠ [] ∧ textOk v = true := by
  rw [wf] at h
  simp only [Bool.and_eq_true, Bool.not_eq_true', List.isEmpty_eq_false_iff] at h
  exact h

/-- the first byte of a serialised node: `<` for an element, not `<` for character data -/
theorem ser_head (t : BXml) (h : wf t = true) :
    ∃ b r, ser t = b :: r ∧ (isText t = false → b = 60 ∧ ∃ x r', r = x :: r' ∧ x ≠ 47) ∧
      (isText t = true → b ≠ 60) := by
  cases t with
  | text v =>
    obtain ⟨hv, _⟩ := wf_text h
    have hne := xmlText_ne_nil v hv
    have h60 : 60 ∉ xmlText v := not_mem_escapeWith _ 60 (xmlAttrTab_no 60 (by simp)) v
    rw [ser]
    cases hx : xmlText v with
    | nil => exact absurd hx hne
    | cons b r =>
      refine ⟨b, r, rfl, by simp [isText], fun _ e => ?_⟩
      rw [hx] at h60; exact h60 (by simp [e])
  | elem t as cs =>
    obtain ⟨ht, _⟩ := wf_elem h
    obtain ⟨b, r, hbr, hs⟩ := isName_head ht
    refine ⟨60, _, ser_elem_eq t as cs, fun _ => ⟨rfl, ?_⟩, by simp [isText]⟩
    subst hbr
    refine ⟨b, _, by simp only [List.cons_append]; rfl, ?_⟩
    intro e
    subst e
    revert hs; decide

/-! ## the round trip of nodes -/

mutual
theorem parseNode_ser (t : BXml) (f : Nat) (rest : Bytes) (h : wf t = true) (hf : cost t ≤ f)
    (hr : isText t = true → ∃ r, rest = 60 :: r) :
    parseNode false f (ser t ++ rest) = some (t, rest) := by
  match t with
  | .text v =>
    obtain ⟨hv, ht⟩ := wf_text h
    obtain ⟨r, hr⟩ := hr rfl
    subst hr
    have h60 : 60 ∉ xmlText v := not_mem_escapeWith _ 60 (xmlAttrTab_no 60 (by simp)) v
    have hne := xmlText_ne_nil v hv
    cases f with
    | zero => simp [cost] at hf
    | succ f =>
      rw [ser]
      cases hx : xmlText v with
      | nil => exact absurd hx hne
      | cons b r' =>
        have hb : b ≠ 60 := by
          intro e; rw [hx] at h60; exact h60 (by simp [e])
        have := readText_xmlText v r ht
        rw [hx] at this
        simp only [List.cons_append] at this ⊢
        simp only [parseNode, hb, if_false]
        exact this
  | .elem t as cs =>
    obtain ⟨ht, has, hdup, hcs, hadj⟩ := wf_elem h
    rw [cost] at hf
    cases f with
    | zero => omega
    | succ f =>
      rw [ser_elem_eq]
      simp only [List.cons_append, List.append_assoc]
      by_cases hsc : selfClosing t cs = true
      · have hcs0 : cs = [] := by
          simp only [selfClosing, Bool.and_eq_true, List.isEmpty_iff] at hsc
          exact hsc.1
        subst hcs0
        simp only [hsc, if_true, List.cons_append, List.nil_append]
        have hname : readName (t ++ (serAttrs as ++ 47 :: 62 :: rest))
            = (t, serAttrs as ++ 47 :: 62 :: rest) :=
          readName_append t _ (isName_all ht) (by
            intro c r hc
            cases as with
            | nil => simp [serAttrs] at hc; rw [← hc.1]; exact isNameByte_false_of 47 (by simp)
            | cons kv as =>
              obtain ⟨k, v⟩ := kv
              simp [serAttrs] at hc; rw [← hc.1]; exact isNameByte_false_of 32 (by simp))
        have hattrs := parseAttrs_ser as (47 :: 62 :: rest) f has (by omega)
          (by intro c r hc; cases hc; decide)
        simp only [parseNode, if_true, hname, ht, hattrs, hdup, Bool.false_eq_true, if_false]
      · simp only [hsc, Bool.false_eq_true, if_false, List.cons_append, List.append_assoc,
          List.nil_append]
        have hname : readName (t ++ (serAttrs as ++ 62 :: (serList cs ++ 60 :: 47 :: (t ++ 62 :: rest))))
            = (t, serAttrs as ++ 62 :: (serList cs ++ 60 :: 47 :: (t ++ 62 :: rest))) :=
          readName_append t _ (isName_all ht) (by
            intro c r hc
            cases as with
            | nil => simp [serAttrs] at hc; rw [← hc.1]; exact isNameByte_false_of 62 (by simp)
            | cons kv as =>
              obtain ⟨k, v⟩ := kv
              simp [serAttrs] at hc; rw [← hc.1]; exact isNameByte_false_of 32 (by simp))
        have hattrs := parseAttrs_ser as (62 :: (serList cs ++ 60 :: 47 :: (t ++ 62 :: rest))) f has
          (by omega) (by intro c r hc; cases hc; decide)
        have hkids := parseNodes_ser cs f (t ++ 62 :: rest) hcs hadj (by omega)
        have hend : readName (t ++ 62 :: rest) = (t, 62 :: rest) :=
          readName_append t _ (isName_all ht) (by
            intro c r hc; cases hc; exact isNameByte_false_of 62 (by simp))
        simp only [parseNode, if_true, hname, ht, hattrs, hdup, Bool.false_eq_true, if_false, hkids,
          hend]
theorem parseNodes_ser (cs : List BXml) (f : Nat) (rest : Bytes) (h : wfs cs = true)
    (hadj : noAdjText cs = true) (hf : costs cs ≤ f) :
    parseNodes false f (serList cs ++ 60 :: 47 :: rest) = some (cs, 60 :: 47 :: rest) := by
  match cs with
  | [] =>
    cases f with
    | zero => simp [costs] at hf
    | succ f => simp [serList, parseNodes]
  | c :: cs =>
    rw [wfs] at h
    simp only [Bool.and_eq_true] at h
    rw [costs] at hf
    cases f with
    | zero => omega
    | succ f =>
      have hadj' : noAdjText cs = true := by
        cases cs with
        | nil => rfl
        | cons c' cs' =>
          rw [noAdjText] at hadj
          simp only [Bool.and_eq_true] at hadj
          exact hadj.2
      have hnode := parseNode_ser c f (serList cs ++ 60 :: 47 :: rest) h.1 (by omega) (by
        intro hct
        cases cs with
        | nil => exact ⟨_, rfl⟩
        | cons c' cs' =>
          rw [noAdjText] at hadj
          simp only [Bool.and_eq_true, Bool.not_eq_true', Bool.and_eq_false_iff] at hadj
          have hc' : isText c' = false := by
            rcases hadj.1 with h1 | h1
            · rw [hct] at h1; cases h1
            · exact h1
          have hw : wf c' = true := by
            have := h.2; rw [wfs] at this; simp only [Bool.and_eq_true] at this; exact this.1
          obtain ⟨b, r, hbr, hel, _⟩ := ser_head c' hw
          refine ⟨r ++ (serList cs' ++ 60 :: 47 :: rest), ?_⟩
          rw [serList, hbr, (hel hc').1]
          simp)
      have hrest := parseNodes_ser cs f rest h.2 hadj' (by omega)
      obtain ⟨b, r, hbr, hel, htx⟩ := ser_head c h.1
      have hnot : ¬ (b = 60 ∧ (r ++ (serList cs ++ 60 :: 47 :: rest)).head? = some 47) := by
        intro ⟨hb, h47⟩
        cases hct : isText c with
        | true => exact htx hct hb
        | false =>
          obtain ⟨_, x, r', hr', hx⟩ := hel hct
          subst hr'
          simp at h47
          exact hx h47
      rw [hbr] at hnode
      rw [serList, List.append_assoc, hbr]
      simp only [List.cons_append] at hnode ⊢
      simp only [parseNodes, hnot, if_false, Bool.false_and, Bool.false_eq_true, hnode, hrest]
end

/-! ## enough fuel -/

mutual
theorem cost_le (t : BXml) (h : wf t = true) : cost t + 1 ≤ 3 * (ser t).length := by
  match t with
  | .text v =>
    obtain ⟨hv, _⟩ := wf_text h
    have hne := xmlText_ne_nil v hv
    rw [ser, cost]
    cases hx : xmlText v with
    | nil => exact absurd hx hne
    | cons b r => simp; omega
  | .elem t as cs =>
    obtain ⟨ht, _, _, hcs, _⟩ := wf_elem h
    obtain ⟨b, r, hbr, _⟩ := isName_head ht
    have hk := costs_le cs hcs
    have ha := serAttrs_length as
    rw [ser_elem_eq, cost]
    subst hbr
    split
    · rename_i hsc
      have hcs0 : cs = [] := by
        simp only [selfClosing, Bool.and_eq_true, List.isEmpty_iff] at hsc
        exact hsc.1
      subst hcs0
      simp [costs] at hk ⊢
      omega
    · simp at hk ⊢
      omega
theorem costs_le (cs : List BXml) (h : wfs cs = true) : costs cs ≤ 1 + 3 * (serList cs).length := by
  match cs with
  | [] => simp [costs, serList]
  | c :: cs =>
    rw [wfs] at h
    simp only [Bool.and_eq_true] at h
    have h1 := cost_le c h.1
    have h2 := costs_le cs h.2
    rw [costs, serList]
    simp
    omega
end

/-! ## the whole report -/

theorem skipProlog_report (Y : Bytes) :
    skipProlog (declBytes ++ doctypeBytes ++ 60 :: Y) = some (60 :: Y) := by
  simp [skipProlog, declBytes, doctypeBytes, dropThrough2, startsWith, isWs, List.dropWhile,
    List.takeWhile]

theorem xmlParse_xmlSerialize (t : Bytes) (as : List (Bytes × Bytes)) (cs : List BXml)
    (h : wf (.elem t as cs) = true) :
    xmlParse (xmlSerialize (.elem t as cs)) = some (.elem t as cs) := by
  have hb := cost_le _ h
  have hnode := parseNode_ser (.elem t as cs)
    (3 * (declBytes ++ doctypeBytes ++ ser (.elem t as cs)).length + 3) [] h
    (by simp only [List.length_append]; omega) (by simp [isText])
  rw [List.append_nil] at hnode
  unfold xmlParse xmlParseWith xmlSerialize
  obtain ⟨Y, hY⟩ : ∃ Y, ser (.elem t as cs) = 60 :: Y := ⟨_, ser_elem_eq t as cs⟩
  rw [hY] at hnode ⊢
  rw [skipProlog_report]
  simp only [hnode]
  simp

/-! ## the literals of the cobertura vocabulary as bytes -/

@[simp] theorem sb_coverage : strBytes "coverage" = [99, 111, 118, 101, 114, 97, 103, 101] := by decide
@[simp] theorem sb_sources : strBytes "sources" = [115, 111, 117, 114, 99, 101, 115] := by decide
@[simp] theorem sb_source : strBytes "source" = [115, 111, 117, 114, 99, 101] := by decide
@[simp] theorem sb_packages : strBytes "packages" = [112, 97, 99, 107, 97, 103, 101, 115] := by decide
@[simp] theorem sb_package : strBytes "package" = [112, 97, 99, 107, 97, 103, 101] := by decide
@[simp] theorem sb_classes : strBytes "classes" = [99, 108, 97, 115, 115, 101, 115] := by decide
@[simp] theorem sb_class : strBytes "class" = [99, 108, 97, 115, 115] := by decide
@[simp] theorem sb_methods : strBytes "methods" = [109, 101, 116, 104, 111, 100, 115] := by decide
@[simp] theorem sb_method : strBytes "method" = [109, 101, 116, 104, 111, 100] := by decide
@[simp] theorem sb_lines : strBytes "lines" = [108, 105, 110, 101, 115] := by decide
@[simp] theorem sb_line : strBytes "line" = [108, 105, 110, 101] := by decide
@[simp] theorem sb_conditions : strBytes "conditions" = [99, 111, 110, 100, 105, 116, 105, 111, 110, 115] := by decide
@[simp] theorem sb_condition : strBytes "condition" = [99, 111, 110, 100, 105, 116, 105, 111, 110] := by decide
@[simp] theorem sb_lines_covered : strBytes "lines-covered" = [108, 105, 110, 101, 115, 45, 99, 111, 118, 101, 114, 101, 100] := by decide
@[simp] theorem sb_lines_valid : strBytes "lines-valid" = [108, 105, 110, 101, 115, 45, 118, 97, 108, 105, 100] := by decide
@[simp] theorem sb_line_rate : strBytes "line-rate" = [108, 105, 110, 101, 45, 114, 97, 116, 101] := by decide
@[simp] theorem sb_branches_covered : strBytes "branches-covered" = [98, 114, 97, 110, 99, 104, 101, 115, 45, 99, 111, 118, 101, 114, 101, 100] := by decide
@[simp] theorem sb_branches_valid : strBytes "branches-valid" = [98, 114, 97, 110, 99, 104, 101, 115, 45, 118, 97, 108, 105, 100] := by decide
@[simp] theorem sb_branch_rate : strBytes "branch-rate" = [98, 114, 97, 110, 99, 104, 45, 114, 97, 116, 101] := by decide
@[simp] theorem sb_complexity : strBytes "complexity" = [99, 111, 109, 112, 108, 101, 120, 105, 116, 121] := by decide
@[simp] theorem sb_version : strBytes "version" = [118, 101, 114, 115, 105, 111, 110] := by decide
@[simp] theorem sb_timestamp : strBytes "timestamp" = [116, 105, 109, 101, 115, 116, 97, 109, 112] := by decide
@[simp] theorem sb_name : strBytes "name" = [110, 97, 109, 101] := by decide
@[simp] theorem sb_filename : strBytes "filename" = [102, 105, 108, 101, 110, 97, 109, 101] := by decide
@[simp] theorem sb_signature : strBytes "signature" = [115, 105, 103, 110, 97, 116, 117, 114, 101] := by decide
@[simp] theorem sb_number : strBytes "number" = [110, 117, 109, 98, 101, 114] := by decide
@[simp] theorem sb_hits : strBytes "hits" = [104, 105, 116, 115] := by decide
@[simp] theorem sb_branch : strBytes "branch" = [98, 114, 97, 110, 99, 104] := by decide
@[simp] theorem sb_type : strBytes "type" = [116, 121, 112, 101] := by decide
@[simp] theorem sb_zero : strBytes "0" = [48] := by decide
@[simp] theorem sb_ver : strBytes "1.9" = [49, 46, 57] := by decide
@[simp] theorem sb_true : strBytes "true" = [116, 114, 117, 101] := by decide
@[simp] theorem sb_jump : strBytes "jump" = [106, 117, 109, 112] := by decide
@[simp] theorem sb_empty : strBytes "" = [] := by decide

/-! ## decimal numbers -/

def radixStep (acc : Option Nat) (b : Nat) : Option Nat :=
  match acc, decVal b with
  | some a, some v => some (a * 10 + v)
  | _, _ => none

theorem parseRadix_cons (d : Nat) (ds : Bytes) :
    parseRadix decVal 10 (d :: ds) = (d :: ds).foldl radixStep (some 0) := rfl

theorem decVal_digit (d : Nat) (h : d < 10) : decVal (48 + d) = some d := by
  unfold decVal
  have : 48 ≤ 48 + d ∧ 48 + d ≤ 57 := by omega
  simp [this]

theorem decFuel_fold (f n : Nat) (h : n < f) : (decFuel f n).foldl radixStep (some 0) = some n := by
  induction f generalizing n with
  | zero => omega
  | succ f ih =>
    unfold decFuel
    by_cases h10 : n < 10
    · simp [h10, radixStep, decVal_digit n h10]
    · simp only [h10, if_false, List.foldl_append, ih (n / 10) (by omega)]
      simp [radixStep, decVal_digit (n % 10) (by omega)]
      omega

theorem decFuel_ne_nil (f n : Nat) : decFuel (f + 1) n ≠ [] := by
  unfold decFuel; split <;> simp

theorem decVal?_decBytes (n : Nat) : decVal? (decBytes n) = some n := by
  unfold decVal? decBytes
  cases hx : decFuel (n + 1) n with
  | nil => exact absurd hx (decFuel_ne_nil n n)
  | cons d ds => rw [parseRadix_cons, ← hx]; exact decFuel_fold (n + 1) n (by omega)

theorem decFuel_digits (f n : Nat) : ∀ b ∈ decFuel f n, 48 ≤ b ∧ b ≤ 57 := by
  induction f generalizing n with
  | zero => simp [decFuel]
  | succ f ih =>
    unfold decFuel
    by_cases h10 : n < 10
    · simp [h10]; omega
    · simp only [h10, if_false, List.mem_append, List.mem_singleton]
      intro b hb
      rcases hb with hb | hb
      · exact ih _ b hb
      · subst hb; omega

theorem attrOk_of_ascii (v : Bytes) (h : ∀ b ∈ v, 32 ≤ b ∧ b < 128) : attrOk v = true := by
  have nc : ∀ x, 128 ≤ x → ∀ p, containsSeq (p ++ [x]) v = false := by
    intro x hx p
    cases hc : containsSeq (p ++ [x]) v with
    | false => rfl
    | true => have := h x (containsSeq_of_mem_last p x v hc); omega
  simp only [attrOk, noNonChar, Bool.and_eq_true, List.all_eq_true, decide_eq_true_eq,
    Bool.not_eq_true']
  exact ⟨fun b hb => (h b hb).1, nc 190 (by omega) [239, 191], nc 191 (by omega) [239, 191]⟩

theorem attrOk_decBytes (n : Nat) : attrOk (decBytes n) = true :=
  attrOk_of_ascii _ fun b hb => by have := decFuel_digits _ _ b hb; omega

/-! ## rendering `toXml d`: well-formed, and read back to `d` -/

def FillOk (fill : Fill) : Prop := ∀ p k, attrOk (fill p k) = true

theorem wf_elem_intro (t : Bytes) (as : List (Bytes × Bytes)) (cs : List BXml)
    (ht : isName t = true) (ha : attrsOk as = true) (hd : hasDupKeys as = false)
    (hcs : wfs cs = true) (hadj : noAdjText cs = true) : wf (.elem t as cs) = true := by
  rw [wf]
  simp only [attrsOk] at ha
  simp [ht, ha, hd, hcs, hadj]

theorem noAdjText_of_noText (l : List BXml) (h : ∀ y ∈ l, isText y = false) : noAdjText l = true := by
  induction l with
  | nil => rfl
  | cons a l ih =>
    cases l with
    | nil => rfl
    | cons b r =>
      rw [noAdjText]
      simp [h a (by simp), ih (fun y hy => h y (List.mem_cons_of_mem _ hy))]

/-- what each level needs from the level below -/
def Good {α : Type} (fill : Fill) (g : α → Xml) (dec : BXml → Option α) (x : α) : Prop :=
  ∀ p, wf (conc fill p (g x)) = true ∧ isText (conc fill p (g x)) = false ∧
    dec (conc fill p (g x)) = some x

theorem concList_map {α : Type} (fill : Fill) (g : α → Xml) (dec : BXml → Option α) (xs : List α)
    (h : ∀ x ∈ xs, Good fill g dec x) (path : List Nat) (i : Nat) :
    wfs (concList fill path i (xs.map g)) = true ∧
    (∀ y ∈ concList fill path i (xs.map g), isText y = false) ∧
    (concList fill path i (xs.map g)).mapM dec = some xs := by
  induction xs generalizing i with
  | nil => simp [concList, wfs]
  | cons x xs ih =>
    obtain ⟨h1, h2, h3⟩ := h x (by simp) (path ++ [i])
    obtain ⟨i1, i2, i3⟩ := ih (fun y hy => h y (List.mem_cons_of_mem _ hy)) (i + 1)
    simp only [List.map_cons, concList, wfs, h1, i1, Bool.and_self, List.mem_cons, true_and]
    refine ⟨?_, ?_⟩
    · intro y hy
      rcases hy with hy | hy
      · subst hy; exact h2
      · exact i2 y hy
    · simp [List.mapM_cons, h3, i3]

theorem conds_good (fill : Fill) (path : List Nat) (v : List Bool) (i j : Nat) :
    wfs (concList fill path j (condsXml i v)) = true ∧
    (∀ y ∈ concList fill path j (condsXml i v), isText y = false) ∧
    (concList fill path j (condsXml i v)).mapM bCond = some v := by
  induction v generalizing i j with
  | nil => simp [condsXml, concList, wfs]
  | cons b v ih =>
    obtain ⟨i1, i2, i3⟩ := ih (i + 1) (j + 1)
    have hw : wf (conc fill (path ++ [j]) (.elem "condition" [("number", .nat i), ("type", .lit "jump"),
        ("coverage", .nat (if b then 1 else 0))] [])) = true := by
      simp only [conc, concList, List.map, concAttr]
      apply wf_elem_intro
      · simp; decide
      · simp [attrsOk, attrOk_decBytes]; decide
      · simp [hasDupKeys]
      · rfl
      · rfl
    simp only [condsXml, concList, wfs, hw, i1, Bool.and_self, List.mem_cons, true_and]
    refine ⟨?_, ?_⟩
    · intro y hy
      rcases hy with hy | hy
      · subst hy; simp [conc, isText]
      · exact i2 y hy
    · simp only [List.mapM_cons, i3]
      cases b <;>
        simp [conc, concList, concAttr, bCond, bNat, bAttr, conditionTag, decVal?_decBytes]

theorem line_good (fill : Fill) (l : CLine) : Good fill lineXml bLine l := by
  intro p
  cases l with
  | plain n h =>
    refine ⟨?_, by simp [lineXml, conc, isText], ?_⟩
    · simp only [lineXml, conc, concList, List.map, concAttr]
      apply wf_elem_intro
      · simp; decide
      · simp [attrsOk, attrOk_decBytes]; decide
      · simp [hasDupKeys]
      · rfl
      · rfl
    · simp [lineXml, conc, concList, concAttr, bLine, bNat, bAttr, lineTag, decVal?_decBytes]
  | branch n h v =>
    obtain ⟨c1, c2, c3⟩ := conds_good fill (p ++ [0]) v 0 0
    refine ⟨?_, by simp [lineXml, conc, isText], ?_⟩
    · simp only [lineXml, conc, concList, List.map, concAttr]
      apply wf_elem_intro
      · simp; decide
      · simp [attrsOk, attrOk_decBytes]; decide
      · simp [hasDupKeys]
      · simp only [wfs, Bool.and_true]
        apply wf_elem_intro
        · simp; decide
        · rfl
        · rfl
        · exact c1
        · exact noAdjText_of_noText _ c2
      · rfl
    · simp [lineXml, conc, concList, concAttr, bLine, bNat, bAttr, lineTag, decVal?_decBytes, c3]

theorem lines_good (fill : Fill) (ls : List CLine) : Good fill linesXml bLines ls := by
  intro p
  obtain ⟨l1, l2, l3⟩ := concList_map fill lineXml bLine ls (fun l _ => line_good fill l) p 0
  refine ⟨?_, by simp [linesXml, conc, isText], ?_⟩
  · simp only [linesXml, conc, List.map]
    apply wf_elem_intro
    · simp; decide
    · rfl
    · rfl
    · exact l1
    · exact noAdjText_of_noText _ l2
  · simp [linesXml, conc, bLines, l3]

theorem method_good (fill : Fill) (hfill : FillOk fill) (m : CMethod) (hm : attrOk m.name = true) :
    Good fill methodXml bMethod m := by
  intro p
  obtain ⟨l1, l2, l3⟩ := lines_good fill m.lines (p ++ [0])
  refine ⟨?_, by simp [methodXml, conc, isText], ?_⟩
  · simp only [methodXml, rateAttrs, conc, concList, List.map, List.cons_append, List.nil_append,
      concAttr]
    apply wf_elem_intro
    · simp; decide
    · simp [attrsOk, hm, hfill _ _]; decide
    · simp [hasDupKeys]
    · simp [wfs, l1]
    · rfl
  · simp [methodXml, rateAttrs, conc, concList, concAttr, bMethod, bAttr, l3]

theorem class_good (fill : Fill) (hfill : FillOk fill) (k : DocClass) (hn : attrOk k.name = true)
    (hf : attrOk k.filename = true) (hms : ∀ m ∈ k.methods, attrOk m.name = true) :
    Good fill classXml bClass k := by
  intro p
  obtain ⟨m1, m2, m3⟩ := concList_map fill methodXml bMethod k.methods
    (fun m hm => method_good fill hfill m (hms m hm)) (p ++ [0]) 0
  obtain ⟨l1, l2, l3⟩ := lines_good fill k.lines (p ++ [1])
  refine ⟨?_, by simp [classXml, conc, isText], ?_⟩
  · simp only [classXml, rateAttrs, conc, concList, List.map, List.cons_append, List.nil_append,
      concAttr]
    apply wf_elem_intro
    · simp; decide
    · simp [attrsOk, hn, hf, hfill _ _]; decide
    · simp [hasDupKeys]
    · simp only [wfs, Bool.and_true, l1]
      apply wf_elem_intro
      · simp; decide
      · rfl
      · rfl
      · exact m1
      · exact noAdjText_of_noText _ m2
    · simp [noAdjText, isText]
  · simp [classXml, rateAttrs, conc, concList, concAttr, bClass, bAttr, l3, m3]

theorem package_good (fill : Fill) (hfill : FillOk fill) (pk : DocPackage)
    (hn : attrOk pk.name = true)
    (hks : ∀ k ∈ pk.classes, attrOk k.name = true ∧ attrOk k.filename = true ∧
      ∀ m ∈ k.methods, attrOk m.name = true) :
    Good fill packageXml bPackage pk := by
  intro p
  obtain ⟨k1, k2, k3⟩ := concList_map fill classXml bClass pk.classes
    (fun k hk => class_good fill hfill k (hks k hk).1 (hks k hk).2.1 (hks k hk).2.2) (p ++ [0]) 0
  refine ⟨?_, by simp [packageXml, conc, isText], ?_⟩
  · simp only [packageXml, rateAttrs, conc, concList, List.map, concAttr]
    apply wf_elem_intro
    · simp; decide
    · simp [attrsOk, hn, hfill _ _]; decide
    · simp [hasDupKeys]
    · simp only [wfs, Bool.and_true]
      apply wf_elem_intro
      · simp; decide
      · rfl
      · rfl
      · exact k1
      · exact noAdjText_of_noText _ k2
    · rfl
  · simp [packageXml, rateAttrs, conc, concList, concAttr, bPackage, bAttr, k3]

theorem source_good (fill : Fill) (s : Name) (hs : s ≠ [] ∧ textOk s = true) :
    Good fill (fun p => Xml.elem "source" [] [.text p]) bSource s := by
  intro p
  refine ⟨?_, by simp [conc, isText], ?_⟩
  · simp only [conc, concList, List.map]
    apply wf_elem_intro
    · simp; decide
    · rfl
    · rfl
    · simp [wfs, wf, hs.2, hs.1]
    · rfl
  · simp [conc, concList, bSource]

/-- the names of a document are values the reader returns unchanged -/
structure DocOk (d : Doc) : Prop where
  sources : ∀ s ∈ d.sources, s ≠ [] ∧ textOk s = true
  packages : ∀ p ∈ d.packages, attrOk p.name = true ∧
    ∀ k ∈ p.classes, attrOk k.name = true ∧ attrOk k.filename = true ∧
      ∀ m ∈ k.methods, attrOk m.name = true

theorem doc_good (fill : Fill) (hfill : FillOk fill) (d : Doc) (hd : DocOk d) :
    wf (conc fill [] (toXml d)) = true ∧ bDoc (conc fill [] (toXml d)) = some d ∧
    ∃ t as cs, conc fill [] (toXml d) = .elem t as cs := by
  obtain ⟨s1, s2, s3⟩ := concList_map fill (fun p => Xml.elem "source" [] [.text p]) bSource
    d.sources (fun s hs => source_good fill s (hd.sources s hs)) [0] 0
  obtain ⟨p1, p2, p3⟩ := concList_map fill packageXml bPackage d.packages
    (fun p hp => package_good fill hfill p (hd.packages p hp).1 (hd.packages p hp).2) [1] 0
  refine ⟨?_, ?_, ?_⟩
  · simp only [toXml, conc, concList, List.map, concAttr, List.nil_append]
    apply wf_elem_intro
    · simp; decide
    · simp [attrsOk, attrOk_decBytes, hfill _ _]; decide
    · simp [hasDupKeys]
    · simp only [wfs, Bool.and_true]
      rw [Bool.and_eq_true]
      constructor
      · apply wf_elem_intro
        · simp; decide
        · rfl
        · rfl
        · exact s1
        · exact noAdjText_of_noText _ s2
      · apply wf_elem_intro
        · simp; decide
        · rfl
        · rfl
        · exact p1
        · exact noAdjText_of_noText _ p2
    · simp [noAdjText, isText]
  · simp [toXml, conc, concList, bDoc, s3, p3]
  · simp only [toXml, conc]
    exact ⟨_, _, _, rfl⟩

/-! ## shape -/

mutual
theorem shape_conc (fill : Fill) (p : List Nat) (x : Xml) : shape (conc fill p x) = xshape x := by
  match x with
  | .text v => simp [conc, shape, xshape]
  | .elem t as cs =>
    simp only [conc, shape, xshape, List.map_map, shapes_concList fill p 0 cs]
    congr 1
theorem shapes_concList (fill : Fill) (p : List Nat) (i : Nat) (xs : List Xml) :
    shapes (concList fill p i xs) = xshapes xs := by
  match xs with
  | [] => simp [concList, shapes, xshapes]
  | c :: cs => simp [concList, shapes, xshapes, shape_conc fill (p ++ [i]) c, shapes_concList fill p (i + 1) cs]
end

mutual
theorem countElems_shape (t : BXml) : countElems t = (shape t).elems := by
  match t with
  | .text v => simp [countElems, shape, Shape.elems]
  | .elem t as cs => simp [countElems, shape, Shape.elems, countElemsL_shape cs]
theorem countElemsL_shape (cs : List BXml) : countElemsL cs = Shape.elemsL (shapes cs) := by
  match cs with
  | [] => simp [countElemsL, shapes, Shape.elemsL]
  | c :: cs => simp [countElemsL, shapes, Shape.elemsL, countElems_shape c, countElemsL_shape cs]
end

mutual
theorem countAttrs_shape (t : BXml) : countAttrs t = (shape t).attrs := by
  match t with
  | .text v => simp [countAttrs, shape, Shape.attrs]
  | .elem t as cs => simp [countAttrs, shape, Shape.attrs, countAttrsL_shape cs]
theorem countAttrsL_shape (cs : List BXml) : countAttrsL cs = Shape.attrsL (shapes cs) := by
  match cs with
  | [] => simp [countAttrsL, shapes, Shape.attrsL]
  | c :: cs => simp [countAttrsL, shapes, Shape.attrsL, countAttrs_shape c, countAttrsL_shape cs]
end

end Grcov.Writers.CobBytes
