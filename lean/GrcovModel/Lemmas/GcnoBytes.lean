/-
The link between the record level (`compute`, `computeRecs`: what the C15/C08 theorems speak about)
and the byte level (`computeBytes` = `Gcno::compute` on file contents: what the harness ties to the
real code): whenever the buffers can be read, `computeBytes` IS `computeRecs` of the parsed record
streams; and the record-level laws in the form the byte-level corollaries need.
-/
import GrcovModel.Lemmas.GcnoSafeTop
import GrcovModel.Lemmas.GcnoFinal
namespace Grcov.Gcno
open Outcome AList

/-- the record-level view of a gcda buffer, when its header and records can be read -/
def parseGcda (bs : List Nat) : Option Gcda :=
  match readGcda bs with
  | .ok p =>
    match p.rest with
    | .ok (cs, recs) => some ⟨p.version, cs, recs⟩
    | _ => none
  | _ => none

theorem parseGcda_eq_some {bs : List Nat} {d : Gcda} (h : parseGcda bs = some d) :
    ∃ p, readGcda bs = ok p ∧ p.rest = ok (d.checksum, d.recs) ∧ p.version = d.version := by
  unfold parseGcda at h
  split at h
  · rename_i p hp
    split at h
    · rename_i cs recs hr
      simp only [Option.some.injEq] at h
      subst h
      exact ⟨p, hp, hr, rfl⟩
    · cases h
  · cases h

/-- one gcda buffer: `Gcno::read(Gcda, bytes)` is `read_gcda` on its records -/
theorem addGcdaBytes_eq {g : Notes} {st : State} {bs : List Nat} {d : Gcda}
    (h : parseGcda bs = some d) : addGcdaBytes g st bs = addGcda g st d := by
  obtain ⟨p, hp, hr, hv⟩ := parseGcda_eq_some h
  unfold addGcdaBytes addGcda
  rw [hp]
  simp only [bind_ok, hr, hv]
  split
  · rfl
  · rfl

/-- an accepted gcda buffer was readable -/
theorem parseGcda_of_ok {g : Notes} {st st' : State} {bs : List Nat}
    (h : addGcdaBytes g st bs = ok st') : (parseGcda bs).isSome = true := by
  unfold addGcdaBytes at h
  obtain ⟨p, hp, h⟩ := bind_eq_ok.1 h
  split at h
  · cases h
  · obtain ⟨⟨cs, recs⟩, hr, _⟩ := bind_eq_ok.1 h
    unfold parseGcda
    rw [hp]
    simp only [hr]
    rfl

theorem foldl_addGcdaBytes_eq (g : Notes) : ∀ (gcdas : List (List Nat)) (st : State),
    (∀ bs ∈ gcdas, (parseGcda bs).isSome = true) →
    Outcome.foldl (addGcdaBytes g) st gcdas = addGcdas g st (gcdas.filterMap parseGcda) := by
  intro gcdas
  induction gcdas with
  | nil => intro st _; rfl
  | cons bs gcdas ih =>
    intro st h
    obtain ⟨d, hd⟩ := Option.isSome_iff_exists.1 (h bs (by simp))
    rw [foldl_cons, List.filterMap_cons_some hd, addGcdas_cons, addGcdaBytes_eq hd]
    cases addGcda g st d with
    | ok s => exact ih s fun b hb => h b (List.mem_cons_of_mem _ hb)
    | err k => rfl
    | crash s => rfl
    | diverge => rfl

theorem foldl_addGcdaBytes_parsed (g : Notes) : ∀ (gcdas : List (List Nat)) (st st' : State),
    Outcome.foldl (addGcdaBytes g) st gcdas = ok st' →
    ∀ bs ∈ gcdas, (parseGcda bs).isSome = true := by
  intro gcdas
  induction gcdas with
  | nil => intro _ _ _ bs hbs; simp at hbs
  | cons b gcdas ih =>
    intro st st' h bs hbs
    rw [foldl_cons] at h
    obtain ⟨s1, h1, h2⟩ := bind_eq_ok.1 h
    rcases List.mem_cons.1 hbs with rfl | hbs
    · exact parseGcda_of_ok h1
    · exact ih s1 st' h2 bs hbs

/-- **bytes = records**: when the notes buffer and every gcda buffer can be read, `Gcno::compute`
on the bytes is the record-level computation on the parsed record streams -/
theorem computeBytes_eq_computeRecs {gcno : List Nat} {v c : Nat} {recs : List NRec}
    {gcdas : List (List Nat)} (br : Bool) (hg : readGcno gcno = ok (v, c, recs))
    (hd : ∀ bs ∈ gcdas, (parseGcda bs).isSome = true) :
    computeBytes gcno gcdas br = computeRecs v c recs (gcdas.filterMap parseGcda) br := by
  unfold computeBytes computeRecs compute
  rw [hg]
  simp only [bind_ok]
  cases build v c recs with
  | ok g => simp only [bind_ok]; rw [foldl_addGcdaBytes_eq g gcdas _ hd]
  | err k => rfl
  | crash s => rfl
  | diverge => rfl

/-- an accepted byte-level computation, taken apart -/
theorem computeBytes_ok {gcno : List Nat} {gcdas : List (List Nat)} {br : Bool}
    {r : List (Bytes × Cov)} (h : computeBytes gcno gcdas br = ok r) :
    ∃ v c recs g, readGcno gcno = ok (v, c, recs) ∧ build v c recs = ok g ∧
      (∀ bs ∈ gcdas, (parseGcda bs).isSome = true) ∧
      compute g (gcdas.filterMap parseGcda) br = ok r := by
  unfold computeBytes at h
  obtain ⟨⟨v, c, recs⟩, hg, h⟩ := bind_eq_ok.1 h
  obtain ⟨g, hb, h⟩ := bind_eq_ok.1 h
  obtain ⟨st, hf, h⟩ := bind_eq_ok.1 h
  have hp := foldl_addGcdaBytes_parsed g gcdas _ _ hf
  refine ⟨v, c, recs, g, hg, hb, hp, ?_⟩
  unfold compute
  rw [← foldl_addGcdaBytes_eq g gcdas _ hp, hf]
  exact h

/-- …and put together again -/
theorem computeBytes_of_compute {gcno : List Nat} {gcdas : List (List Nat)} {br : Bool} {v c : Nat}
    {recs : List NRec} {g : Notes} (hg : readGcno gcno = ok (v, c, recs)) (hb : build v c recs = ok g)
    (hd : ∀ bs ∈ gcdas, (parseGcda bs).isSome = true) :
    computeBytes gcno gcdas br = compute g (gcdas.filterMap parseGcda) br := by
  rw [computeBytes_eq_computeRecs br hg hd]
  unfold computeRecs
  rw [hb]; rfl

/-! ## record-level laws (the proofs of Props/C15.lean, as lemmas) -/

theorem compute_nil_notRun {g : Notes} {br : Bool} {r : List (Bytes × Cov)}
    (h : compute g [] br = ok r) : NotRun r := by
  rw [compute_eq] at h
  obtain ⟨fs, h1, h2⟩ := bind_eq_ok.1 h
  exact foldl_finStep_notRun br fs [] r h2 (fun fc hfc => stopped_nil_zero h1 fc hfc 0)
    (fun p hp => by cases hp)

theorem compute_perm {g : Notes} {ds ds' : List Gcda} (p : ds.Perm ds') {br : Bool}
    {r : List (Bytes × Cov)} (h : compute g ds br = ok r) : compute g ds' br = ok r := by
  unfold compute at h ⊢
  obtain ⟨st, h1, h2⟩ := bind_eq_ok.1 h
  rw [addGcdas_perm p _ _ State.zero_Fits h1]
  exact h2

theorem compute_replicate {g : Notes} {d : Gcda} {k : Nat} {br : Bool} {rk : List (Bytes × Cov)}
    (h : compute g (List.replicate (k + 1) d) br = ok rk) :
    ∃ r1, compute g [d] br = ok r1 ∧ rk = scaleRes (k + 1) r1 := by
  unfold compute at h ⊢
  obtain ⟨stk, h1, h2⟩ := bind_eq_ok.1 h
  obtain ⟨Δ, hΔ, e⟩ := addGcdas_replicate k stk h1
  have hfit := addGcdas_fits _ _ _ h1 State.zero_Fits
  have hrel : ∀ i, CntRel (scaleRel (k + 1)) (stk i) (Δ i) := by
    intro i
    subst e
    exact ⟨fun j => ⟨rfl, (hfit i).1 j⟩, fun j => ⟨rfl, (hfit i).2 j⟩⟩
  obtain ⟨r1, h3, hr⟩ := stop_finalize_sim (scaleRel_valRel (k + 1) (by omega)) g br hrel h2
  refine ⟨r1, ?_, ResRel_scale hr⟩
  simp only [addGcdas_cons, addGcdas_nil, hΔ, bind_ok]
  exact h3

/-! ## the record level never runs out of fuel -/

/-- `compute` on a well-formed shape and record streams without crash markers (the byte reader
never emits one): a value, an error or the overflow crash; never out of fuel -/
theorem compute_sat {g : Notes} (hg : g.WF) (ds : List Gcda) (br : Bool)
    (hd : ∀ d ∈ ds, ∀ r ∈ d.recs, r.notCrash) :
    Sat OvOnly False (compute g ds br) fun _ => True := by
  unfold compute
  apply Sat.bind
  have h1 : Sat OvOnly False (addGcdas g State.zero ds) fun _ => True :=
    Sat.foldl (Inv := fun _ => True) _ _ trivial fun st d hdm _ => addGcda_sat hg st d (hd d hdm)
  refine h1.mono fun st _ => ?_
  apply Sat.bind
  exact (stop_sat hg st).mono fun fs hfs => finalize_ov br hfs

theorem computeRecs_sat (v c : Nat) {recs : List NRec} (hr : ∀ r ∈ recs, r.notCrash)
    (ds : List Gcda) (br : Bool) (hd : ∀ d ∈ ds, ∀ r ∈ d.recs, r.notCrash) :
    Sat OvOnly False (computeRecs v c recs ds br) fun _ => True := by
  unfold computeRecs
  apply Sat.bind
  exact ((build_sat v c hr).weaken (C' := OvOnly) (fun _ h => h.elim) id).mono fun g hg =>
    compute_sat hg ds br hd

end Grcov.Gcno
