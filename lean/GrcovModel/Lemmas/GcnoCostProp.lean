/-
What IS bounded in `count_on_tree`: the number of calls of `propagate_counts`.  Every call either
returns at once (the block is already visited) or visits a new block and then makes at most one call
per adjacency entry of that block; so the whole loop makes at most
`blocks + Σ_b (|source b| + |destination b|)` calls (for shapes built by `read_gcno`: blocks + 2·arcs).
The potential `phi`: the adjacency entries of the blocks not yet visited.
-/
import GrcovModel.Lemmas.GcnoCost
namespace Grcov.Gcno
open Outcome

/-- number of adjacency entries of block `x` -/
def degOf (f : Func) (x : Nat) : Nat :=
  match f.blocks[x]? with
  | some blk => blk.source.length + blk.destination.length
  | none => 0

/-- adjacency entries of the blocks of `L` that are not in `vis` -/
def phiL (f : Func) (L : List Nat) (vis : List Nat) : Nat :=
  (L.map fun x => if x ∈ vis then 0 else degOf f x).sum

def phi (f : Func) (vis : List Nat) : Nat := phiL f (List.range f.blocks.length) vis

/-- all adjacency entries of the function -/
def adjSize (f : Func) : Nat := phi f []

theorem phiL_cons (f : Func) (b : Nat) (vis : List Nat) (hb : b ∉ vis) : ∀ (L : List Nat), L.Nodup →
    b ∈ L → phiL f L (b :: vis) + degOf f b = phiL f L vis := by
  intro L
  induction L with
  | nil => intro _ h; cases h
  | cons a L ih =>
    intro hn hm
    have hn' := List.nodup_cons.1 hn
    simp only [phiL, List.map_cons, List.sum_cons]
    by_cases hab : a = b
    · subst hab
      have htail : ∀ x ∈ L, (if x ∈ a :: vis then 0 else degOf f x) = (if x ∈ vis then 0 else degOf f x) := by
        intro x hx
        have : x ≠ a := fun e => hn'.1 (e ▸ hx)
        simp [this]
      have e : (L.map fun x => if x ∈ a :: vis then 0 else degOf f x) =
          (L.map fun x => if x ∈ vis then 0 else degOf f x) := List.map_congr_left htail
      rw [e]
      simp [hb]
      omega
    · have hmL : b ∈ L := by
        rcases List.mem_cons.1 hm with e | h
        · exact absurd e.symm hab
        · exact h
      have := ih hn'.2 hmL
      simp only [phiL] at this
      have hhead : (if a ∈ b :: vis then 0 else degOf f a) = (if a ∈ vis then 0 else degOf f a) := by
        simp [hab]
      rw [hhead]
      omega

theorem phi_cons (f : Func) {b : Nat} {vis : List Nat} (hb : b ∉ vis) (hlt : b < f.blocks.length) :
    phi f (b :: vis) + degOf f b = phi f vis :=
  phiL_cons f b vis hb _ List.nodup_range (List.mem_range.2 hlt)

theorem sumArcsC_calls (f : Func) (step : PS → Nat → Outcome ((PS × Nat) × Cost))
    (hstep : ∀ s e r, step s e = ok r → phi f r.1.1.vis + r.2.calls ≤ phi f s.vis + 1) :
    ∀ (es : List Nat) (s : PS) (acc : Nat) (k : Cost) r, sumArcsC step es s acc k = ok r →
      phi f r.1.1.vis + r.2.calls ≤ phi f s.vis + k.calls + es.length := by
  intro es
  induction es with
  | nil =>
    intro s acc k r h
    simp only [sumArcsC, Outcome.ok.injEq] at h
    subst h
    simp
  | cons e es ih =>
    intro s acc k r h
    simp only [sumArcsC] at h
    obtain ⟨r1, h1, h⟩ := bind_eq_ok.1 h
    split at h
    · cases h
    · have := ih _ _ _ _ h
      have h0 := hstep s e r1 h1
      simp only [Cost.seq, List.length_cons] at this ⊢
      omega

/-- one call: what it costs is paid by the adjacency entries of the blocks it newly visits -/
theorem propC_calls (f : Func) : ∀ (fuel : Nat) (s : PS) (b : Nat) (pred : Option Nat) r,
    propC f fuel s b pred = ok r → phi f r.1.1.vis + r.2.calls ≤ phi f s.vis + 1 := by
  intro fuel
  induction fuel with
  | zero => intro s b pred r h; cases h
  | succ fuel ih =>
    intro s b pred r h
    simp only [propC] at h
    by_cases hv : b ∈ s.vis
    · rw [if_pos hv] at h
      simp only [Outcome.ok.injEq] at h
      subst h
      simp [Cost.call]
    · rw [if_neg hv] at h
      cases hb : f.blocks[b]? with
      | none => rw [hb] at h; cases h
      | some blk =>
        rw [hb] at h
        simp only at h
        have hlt : b < f.blocks.length := by
          rcases Nat.lt_or_ge b f.blocks.length with h' | h'
          · exact h'
          · rw [List.getElem?_eq_none h'] at hb; cases hb
        have hdeg : degOf f b = blk.source.length + blk.destination.length := by
          simp [degOf, hb]
        have hstep : ∀ useSrc s e r,
            arcStepC f.arcs (fun s w e => propC f fuel s w (some e)) useSrc pred s e = ok r →
              phi f r.1.1.vis + r.2.calls ≤ phi f s.vis + 1 := by
          intro useSrc s e r hr
          unfold arcStepC at hr
          split at hr
          · simp only [Outcome.ok.injEq] at hr; subst hr; simp
          · split at hr
            · cases hr
            · split at hr
              · exact ih _ _ _ _ hr
              · simp only [Outcome.ok.injEq] at hr; subst hr; simp
        obtain ⟨r1, h1, h⟩ := bind_eq_ok.1 h
        obtain ⟨r2, h2, h⟩ := bind_eq_ok.1 h
        have c1 := sumArcsC_calls f _ (hstep true) _ _ _ _ _ h1
        have c2 := sumArcsC_calls f _ (hstep false) _ _ _ _ _ h2
        have hphi := phi_cons f hv hlt
        simp only at c1 c2
        have hc : r.2.calls = r1.2.calls + r2.2.calls + 1 ∧ r.1.1.vis = r2.1.1.vis := by
          cases pred with
          | none => simp only [Outcome.ok.injEq] at h; subst h; exact ⟨rfl, rfl⟩
          | some id => simp only [Outcome.ok.injEq] at h; subst h; exact ⟨rfl, rfl⟩
        rw [hc.1, hc.2]
        have hz : ({} : Cost).calls = 0 := rfl
        omega

/-- **the propagation loop makes at most `blocks + adjacency entries` calls** – for every shape,
every counter assignment, every fuel -/
theorem propAllC_calls (f : Func) (fuel : Nat) : ∀ (bs : List Nat) (s : PS) (k : Cost) r,
    propAllC f fuel bs s k = ok r → phi f r.1.vis + r.2.calls ≤ phi f s.vis + k.calls + bs.length := by
  intro bs
  induction bs with
  | nil =>
    intro s k r h
    simp only [propAllC, Outcome.ok.injEq] at h
    subst h; simp
  | cons b bs ih =>
    intro s k r h
    simp only [propAllC] at h
    obtain ⟨r1, h1, h⟩ := bind_eq_ok.1 h
    have c1 := propC_calls f fuel s b none r1 h1
    have c2 := ih _ _ _ h
    simp only [Cost.seq, List.length_cons] at c2 ⊢
    omega

theorem propAllC_linear (f : Func) (fuel : Nat) (cnt : Nat → Nat) (r : PS × Cost)
    (h : propAllC f fuel (List.range f.blocks.length) ⟨cnt, []⟩ {} = ok r) :
    r.2.calls ≤ f.blocks.length + adjSize f := by
  have := propAllC_calls f fuel _ _ _ r h
  simp only [List.length_range] at this
  unfold adjSize
  have h0 : ({} : Cost).calls = 0 := rfl
  omega

end Grcov.Gcno
