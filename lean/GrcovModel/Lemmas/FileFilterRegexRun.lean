/-
The six `--excl-*` options of a whole run (`Cli.RunAll`) as compiled patterns: with
`Opts.isMatch := Regex.isMatchText` and six values that compile, `file_filter.create(&abs_path)` of the
run model is `createSrc` with the compiled patterns.
-/
import GrcovModel.Cli.RunAll
import GrcovModel.Lemmas.FileFilterRegex
namespace Grcov.FileFilter
open Grcov Grcov.Regex Grcov.Cli.RunAll

theorem compileOpt_ok {x : Option (List Nat)} {y : Option Ast} (h : compileOpt x = .ok y) :
    (x = none ∧ y = none) ∨ ∃ p a, x = some p ∧ y = some a ∧ compile p = .ok a := by
  cases x with
  | none => simp [compileOpt] at h; exact Or.inl ⟨rfl, h.symm⟩
  | some p =>
    right
    simp only [compileOpt] at h
    cases hc : compile p with
    | ok a => rw [hc] at h; cases h; exact ⟨p, a, rfl, rfl, hc⟩
    | err e => rw [hc] at h; cases h
    | notUtf8 => rw [hc] at h; cases h

/-- what `compileArgs` answers field by field -/
theorem compileArgs_ok {a : MainGlue.FileFilterArgs} {c : Compiled6} (h : compileArgs a = .ok c) :
    compileOpt a.exclLine = .ok c.line ∧ compileOpt a.exclStart = .ok c.start ∧
    compileOpt a.exclStop = .ok c.stop ∧ compileOpt a.exclBrLine = .ok c.brLine ∧
    compileOpt a.exclBrStart = .ok c.brStart ∧ compileOpt a.exclBrStop = .ok c.brStop := by
  unfold compileArgs at h
  cases h1 : compileOpt a.exclLine with
  | error e => rw [h1] at h; cases h
  | ok l =>
    cases h2 : compileOpt a.exclStart with
    | error e => rw [h1, h2] at h; cases h
    | ok s =>
      cases h3 : compileOpt a.exclStop with
      | error e => rw [h1, h2, h3] at h; cases h
      | ok t =>
        cases h4 : compileOpt a.exclBrLine with
        | error e => rw [h1, h2, h3, h4] at h; cases h
        | ok bl =>
          cases h5 : compileOpt a.exclBrStart with
          | error e => rw [h1, h2, h3, h4, h5] at h; cases h
          | ok bs =>
            cases h6 : compileOpt a.exclBrStop with
            | error e => rw [h1, h2, h3, h4, h5, h6] at h; cases h
            | ok bt =>
              rw [h1, h2, h3, h4, h5, h6] at h
              cases h
              exact ⟨rfl, rfl, rfl, rfl, rfl, rfl⟩

theorem compileOpt_isSome {x : Option (List Nat)} {y : Option Ast} (h : compileOpt x = .ok y) :
    y.isSome = x.isSome := by
  rcases compileOpt_ok h with ⟨rfl, rfl⟩ | ⟨p, a, rfl, rfl, _⟩ <;> rfl

theorem compileArgs_toOpts {a : MainGlue.FileFilterArgs} {c : Compiled6} (h : compileArgs a = .ok c) :
    c.toOpts = a.toOpts := by
  obtain ⟨h1, h2, h3, h4, h5, h6⟩ := compileArgs_ok h
  simp only [Compiled6.toOpts, MainGlue.FileFilterArgs.toOpts, compileOpt_isSome h1,
    compileOpt_isSome h2, compileOpt_isSome h3, compileOpt_isSome h4, compileOpt_isSome h5,
    compileOpt_isSome h6]

theorem isMatchText_of_compile {p : List Nat} {a : Ast} (h : compile p = .ok a) (l : List Nat) :
    isMatchText p l = lineMatch (some a) l := by
  unfold isMatchText lineMatch
  rw [h]
  cases decode l <;> rfl

/-- the bit of one option: `isMatchText` on the option's text is the compiled pattern's `lineMatch`
wherever the option is configured -/
theorem hit_compiled {x : Option (List Nat)} {y : Option Ast} (h : compileOpt x = .ok y) (l : List Nat) :
    (x.isSome && isMatchText (x.getD []) l) = (x.isSome && lineMatch y l) := by
  rcases compileOpt_ok h with ⟨rfl, rfl⟩ | ⟨p, a, rfl, rfl, hc⟩
  · rfl
  · simp [isMatchText_of_compile hc]

/-- **the run model with patterns**: `Opts.isMatch := isMatchText` and six values that compile -/
theorem filterList_compiled (o : Cli.RunAll.Opts) (w : World) (abs : List Nat) (c : Compiled6)
    (hm : o.isMatch = isMatchText) (hc : compileArgs o.excl = .ok c) :
    filterList o w abs = createSrc c.toOpts c.rx (w.text abs) := by
  unfold filterList
  rw [compileArgs_toOpts hc, hm]
  apply createSrc_congr
  intro l
  obtain ⟨h1, h2, h3, h4, h5, h6⟩ := compileArgs_ok hc
  simp only [maskBits, rxOf, Rx.bits, Compiled6.rx, MainGlue.FileFilterArgs.toOpts,
    hit_compiled h1, hit_compiled h2, hit_compiled h3, hit_compiled h4, hit_compiled h5,
    hit_compiled h6]

end Grcov.FileFilter
