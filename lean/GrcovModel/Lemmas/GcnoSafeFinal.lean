/-
C14 for the gcno/gcda reader: line counts and `finalize` on well-formed shapes.  Every index
expression is in range (`idxBlock`, `idxArc`, `idxList` are unreachable); the sums crash only by
overflow.  For the cycle search (`look_for_circuit`, a variant of Johnson's algorithm) two things are
NOT excluded here: `underflow` in `get_cycle_count` (it needs "no arc twice on the path") and
exhaustion of `circuitFuel` (it needs "no block twice on the stack"); both follow from the
stack invariant of Johnson's algorithm, which is not proved.  `CycSites` / `True` record that.
-/
import GrcovModel.Lemmas.GcnoSafeCount
import GrcovModel.Lemmas.GcnoStruct
namespace Grcov.Gcno
open Outcome AList

/-- the crash sites not excluded for the cycle search -/
abbrev CycSites : Site → Prop := fun s => s = .overflow ∨ s = .underflow

theorem Outcome.Sat.toCyc {α : Type} {o : Outcome α} {Q : α → Prop} (h : Sat OvOnly False o Q) :
    Sat CycSites True o Q :=
  h.weaken (fun _ hs => Or.inl hs) (fun hf => hf.elim)

theorem Outcome.Sat.ofNo {α : Type} {C : Site → Prop} {D : Prop} {o : Outcome α} {Q : α → Prop}
    (h : Sat NoSite False o Q) : Sat C D o Q :=
  h.weaken (fun _ hs => hs.elim) (fun hf => hf.elim)

/-! ## sums over adjacency lists -/

theorem sumCounters_sat (arcs : List Arc) (cnt : Nat → Nat) : ∀ (es : List Nat) (acc : Nat),
    (∀ e ∈ es, e < arcs.length) → Sat OvOnly False (sumCounters arcs cnt es acc) fun _ => True := by
  intro es
  induction es with
  | nil => intro acc _; trivial
  | cons e es ih =>
    intro acc h
    simp only [sumCounters]
    rw [List.getElem?_eq_getElem (h e (by simp))]
    simp only
    split
    · rfl
    · exact ih _ fun e he => h e (List.mem_cons_of_mem _ he)

theorem sumEntering_sat (arcs : List Arc) (cnt : Nat → Nat) (bs : List Nat) : ∀ (es : List Nat)
    (acc : Nat), (∀ e ∈ es, e < arcs.length) →
    Sat OvOnly False (sumEntering arcs cnt bs es acc) fun _ => True := by
  intro es
  induction es with
  | nil => intro acc _; trivial
  | cons e es ih =>
    intro acc h
    have hes : ∀ e ∈ es, e < arcs.length := fun e he => h e (List.mem_cons_of_mem _ he)
    simp only [sumEntering]
    rw [List.getElem?_eq_getElem (h e (by simp))]
    simp only
    split
    · exact ih _ hes
    · split
      · rfl
      · exact ih _ hes

theorem setCycles_sat (arcs : List Arc) (cnt : Nat → Nat) : ∀ (es : List Nat) (cyc : Nat → Nat),
    (∀ e ∈ es, e < arcs.length) → Sat NoSite False (setCycles arcs cnt es cyc) fun _ => True := by
  intro es
  induction es with
  | nil => intro cyc _; trivial
  | cons e es ih =>
    intro cyc h
    simp only [setCycles]
    rw [List.getElem?_eq_getElem (h e (by simp))]
    exact ih _ fun e he => h e (List.mem_cons_of_mem _ he)

theorem lineEntryStep_sat {f : Func} (hf : f.WF) (cnt : Nat → Nat) (bs : List Nat)
    (acc : (Nat → Nat) × Nat) {b : Nat} (hb : b < f.blocks.length) :
    Sat OvOnly False (lineEntryStep f cnt bs acc b) fun _ => True := by
  unfold lineEntryStep
  rw [List.getElem?_eq_getElem hb]
  have hblk := hf.ids _ (List.getElem_mem hb)
  simp only
  apply Sat.bind
  have h1 : Sat OvOnly False
      (if b = 0 then sumCounters f.arcs cnt f.blocks[b].destination acc.2
       else sumEntering f.arcs cnt bs f.blocks[b].source acc.2) fun _ => True := by
    split
    · exact sumCounters_sat _ _ _ _ hblk.2
    · exact sumEntering_sat _ _ _ _ _ hblk.1
  refine h1.mono fun count _ => ?_
  apply Sat.bind
  exact (setCycles_sat _ _ _ _ hblk.2).ofNo.mono fun cyc _ => trivial

/-! ## the cycle search -/

theorem position_lt {l : List Nat} {x i : Nat} (h : position l x = some i) : i < l.length := by
  unfold position at h
  simp only at h
  split at h
  · simp only [Option.some.injEq] at h; omega
  · cases h

/-- `unblock` keeps `blocked` and `block_lists` aligned (so `block_lists[i]` is in range), removes
at least nothing, and its depth fuel suffices: every level removes an entry of `blocked` -/
theorem unblock_sat : ∀ (fuel b : Nat) (bl : List Nat) (ls : List (List Nat)),
    bl.length = ls.length → bl.length < fuel →
    Sat NoSite False (unblock fuel b (bl, ls)) fun r =>
      r.1.length = r.2.length ∧ r.1.length ≤ bl.length := by
  intro fuel
  induction fuel with
  | zero => intro b bl ls _ h; omega
  | succ fuel ih =>
    intro b bl ls hlen hfuel
    simp only [unblock]
    cases hp : position bl b with
    | none => exact ⟨hlen, Nat.le_refl _⟩
    | some i =>
      have hi := position_lt hp
      simp only
      rw [List.getElem?_eq_getElem (by omega : i < ls.length)]
      simp only
      refine (Sat.foldl (C := NoSite) (D := False)
        (Inv := fun r : List Nat × List (List Nat) =>
          r.1.length = r.2.length ∧ r.1.length ≤ bl.length - 1) _ _ ?_ ?_).mono ?_
      · simp only [List.length_eraseIdx]
        rw [if_pos hi, if_pos (by omega : i < ls.length)]
        omega
      · intro r b' _ hr
        obtain ⟨bl', ls'⟩ := r
        refine (ih b' bl' ls' hr.1 (by have := hr.2; simp only at this; omega)).mono ?_
        intro r' hr'
        have := hr.2
        simp only at this hr'
        omega
      · intro r hr; omega

theorem noteBlocked_sat (arcs : List Arc) (bs : List Nat) (start v : Nat) : ∀ (es : List Nat) (s : CS),
    (∀ e ∈ es, e < arcs.length) → s.blocked.length = s.lists.length →
    Sat NoSite False (noteBlocked arcs bs start v es s) fun r =>
      r.blocked.length = r.lists.length := by
  intro es
  induction es with
  | nil => intro s _ hs; exact hs
  | cons e es ih =>
    intro s h hs
    have hes : ∀ e ∈ es, e < arcs.length := fun e he => h e (List.mem_cons_of_mem _ he)
    simp only [noteBlocked]
    rw [List.getElem?_eq_getElem (h e (by simp))]
    simp only
    split
    · cases hp : position s.blocked (arcs[e]'(h e (by simp))).dst with
      | none => exact ih s hes hs
      | some i =>
        have hi := position_lt hp
        simp only
        rw [List.getElem?_eq_getElem (by omega : i < s.lists.length)]
        simp only
        split
        · exact ih s hes hs
        · exact ih _ hes (by simp [hs])
    · exact ih s hes hs

theorem cycleCount_sat (cyc : Nat → Nat) (path : List Nat) :
    Sat CycSites True (cycleCount cyc path) fun _ => True := by
  unfold cycleCount
  apply Sat.bind
  refine (Sat.foldl (C := CycSites) (D := True) (Inv := fun _ => True) _ _ trivial ?_).mono
    fun _ _ => trivial
  intro cy e _ _
  unfold subCycle
  split
  · exact Or.inr rfl
  · trivial

/-- the cycle search on a well-formed shape: every index is in range; what is not excluded is
named by `CycSites` (the known overflow, and `underflow`) and `True` (depth fuel) -/
theorem lookForCircuit_sat {f : Func} (hf : f.WF) (bs : List Nat) (start : Nat) :
    ∀ (fuel v : Nat) (s : CS), v < f.blocks.length → s.blocked.length = s.lists.length →
    Sat CycSites True (lookForCircuit f bs start fuel v s) fun r =>
      r.1.blocked.length = r.1.lists.length := by
  intro fuel
  induction fuel with
  | zero => intro v s _ _; trivial
  | succ fuel ih =>
    intro v s hv hs
    simp only [lookForCircuit]
    rw [List.getElem?_eq_getElem hv]
    have hblk := hf.ids _ (List.getElem_mem hv)
    simp only
    apply Sat.bind
    refine (Sat.foldl (C := CycSites) (D := True)
      (Inv := fun acc : CS × Bool × Nat => acc.1.blocked.length = acc.1.lists.length) _ _ ?_ ?_).mono ?_
    · simp [hs]
    · intro acc e he hacc
      obtain ⟨s1, found, count⟩ := acc
      have hacc' : s1.blocked.length = s1.lists.length := hacc
      have hlt := hblk.2 e he
      simp only [circuitStep]
      rw [List.getElem?_eq_getElem hlt]
      simp only
      split
      · split
        · apply Sat.bind
          refine (cycleCount_sat _ _).mono fun ⟨cy, c⟩ _ => ?_
          simp only
          split
          · exact Or.inl rfl
          · exact hacc
        · split
          · apply Sat.bind
            refine (ih _ { s1 with path := s1.path ++ [e] }
              (hf.arcs _ (List.getElem_mem hlt)).2 hacc').mono fun ⟨s', f', c⟩ hs' => ?_
            simp only
            split
            · exact Or.inl rfl
            · exact hs'
          · exact hacc
      · exact hacc
    · intro ⟨s2, found, count⟩ hs2
      simp only at hs2 ⊢
      split
      · apply Sat.bind
        refine (unblock_sat (s2.blocked.length + 2) v _ _ hs2 (by omega)).ofNo.mono fun ⟨bl, ls⟩ hr => ?_
        exact hr.1
      · apply Sat.bind
        exact (noteBlocked_sat _ _ _ _ _ _ hblk.2 hs2).ofNo.mono fun s3 hs3 => hs3

theorem cyclesCount_sat {f : Func} (hf : f.WF) (fuel : Nat) (bs : List Nat) (cyc : Nat → Nat)
    (hbs : ∀ b ∈ bs, b < f.blocks.length) :
    Sat CycSites True (cyclesCount f fuel bs cyc) fun _ => True := by
  unfold cyclesCount
  refine Sat.foldl (Inv := fun _ => True) _ _ trivial ?_
  intro acc b hb _
  unfold cyclesStep
  apply Sat.bind
  refine (lookForCircuit_sat hf bs b fuel b _ (hbs b hb) rfl).mono fun ⟨s, _, c⟩ _ => ?_
  simp only
  split
  · exact Or.inl rfl
  · trivial

theorem getLineCount_sat {f : Func} (hf : f.WF) (cnt : Nat → Nat) (bs : List Nat) (cyc : Nat → Nat)
    (hbs : ∀ b ∈ bs, b < f.blocks.length) :
    Sat CycSites True (getLineCount f cnt bs cyc) fun _ => True := by
  unfold getLineCount
  apply Sat.bind
  refine (Sat.foldl (C := CycSites) (D := True) (Inv := fun _ => True) _ _ trivial
    (fun acc b hb _ => (lineEntryStep_sat hf cnt bs acc (hbs b hb)).toCyc)).mono fun ⟨cyc', count⟩ _ => ?_
  apply Sat.bind
  refine (cyclesCount_sat hf _ bs cyc' hbs).mono fun ⟨cyc'', c⟩ _ => ?_
  simp only
  split
  · exact Or.inl rfl
  · trivial

/-! ## `lines_to_block` only names blocks of the function -/

theorem linesToBlockLines_lt (n N : Nat) (hn : n < N) : ∀ (ls : List Nat) (m : List (Nat × List Nat)),
    (∀ p ∈ m, ∀ b ∈ p.2, b < N) → ∀ p ∈ linesToBlockLines n ls m, ∀ b ∈ p.2, b < N := by
  intro ls
  induction ls with
  | nil => intro m h; exact h
  | cons l ls ih =>
    intro m h
    simp only [linesToBlockLines]
    apply ih
    intro p hp b hb
    cases hg : get? m l with
    | some v =>
      simp only [hg] at hp
      rcases mem_set hp with rfl | hp
      · rcases List.mem_append.1 hb with hb | hb
        · exact h _ (mem_of_get?' hg) b hb
        · simp only [List.mem_singleton] at hb; omega
      · exact h p hp b hb
    | none =>
      simp only [hg] at hp
      rcases mem_set hp with rfl | hp
      · simp only [List.mem_singleton] at hb; omega
      · exact h p hp b hb

theorem linesToBlockGo_lt (N : Nat) : ∀ (bl : List Block) (n : Nat) (m : List (Nat × List Nat)),
    n + bl.length ≤ N → (∀ p ∈ m, ∀ b ∈ p.2, b < N) →
    ∀ p ∈ linesToBlockGo bl n m, ∀ b ∈ p.2, b < N := by
  intro bl
  induction bl with
  | nil => intro n m _ h; exact h
  | cons blk bl ih =>
    intro n m hn h
    simp only [linesToBlockGo]
    simp only [List.length_cons] at hn
    exact ih (n + 1) _ (by omega) (linesToBlockLines_lt n N (by omega) _ _ h)

theorem linesToBlock_lt (f : Func) : ∀ p ∈ linesToBlock f, ∀ b ∈ p.2, b < f.blocks.length :=
  linesToBlockGo_lt _ _ 0 [] (by omega) (fun p hp => by simp at hp)

/-! ## `add_line_count` and `finalize` -/

theorem lineCounts_sat {f : Func} (hf : f.WF) (c : Cnt) : ∀ (m : List (Nat × List Nat))
    (cyc : Nat → Nat), (∀ p ∈ m, ∀ b ∈ p.2, b < f.blocks.length) →
    Sat CycSites True (lineCounts f c m cyc) fun _ => True := by
  intro m
  induction m with
  | nil => intro cyc _; trivial
  | cons p m ih =>
    intro cyc h
    obtain ⟨l, bs⟩ := p
    have hm : ∀ p ∈ m, ∀ b ∈ p.2, b < f.blocks.length := fun p hp => h p (List.mem_cons_of_mem _ hp)
    have hbs : ∀ b ∈ bs, b < f.blocks.length := h (l, bs) (by simp)
    simp only [lineCounts]
    split
    · apply Sat.bind
      exact (ih cyc hm).mono fun _ _ => trivial
    · apply Sat.bind
      refine (getLineCount_sat hf c.arc bs cyc hbs).mono fun ⟨cyc', n⟩ _ => ?_
      apply Sat.bind
      exact (ih cyc' hm).mono fun _ _ => trivial

theorem addLineCount_sat {f : Func} (hf : f.WF) (c : Cnt) :
    Sat CycSites True (addLineCount f c) fun _ => True := by
  unfold addLineCount
  split
  · apply Sat.bind
    exact (lineCounts_sat hf c _ _ (linesToBlock_lt f)).mono fun _ _ => trivial
  · trivial

theorem mergeLines_sat : ∀ (ls m : List (Nat × Nat)),
    Sat OvOnly False (mergeLines m ls) fun _ => True := by
  intro ls
  induction ls with
  | nil => intro m; trivial
  | cons p ls ih =>
    intro m
    obtain ⟨l, n⟩ := p
    simp only [mergeLines]
    split
    · split
      · rfl
      · exact ih _
    · exact ih _

theorem branchLine_sat {f : Func} (hf : f.WF) {blk : Block} (hblk : blk.IdsLt f.arcs.length) :
    Sat NoSite False (branchLine f blk) fun _ => True := by
  unfold branchLine
  split
  · refine Sat.foldl (Inv := fun _ => True) _ _ trivial ?_
    intro m e he _
    have hlt := hblk.1 e he
    rw [List.getElem?_eq_getElem hlt]
    simp only
    rw [List.getElem?_eq_getElem (hf.arcs _ (List.getElem_mem hlt)).1]
    trivial
  · trivial

theorem takenVec_sat (f : Func) (cnt : Nat → Nat) (ex : Bool) : ∀ (es : List Nat),
    (∀ e ∈ es, e < f.arcs.length) → Sat NoSite False (takenVec f cnt ex es) fun _ => True := by
  intro es
  induction es with
  | nil => intro _; trivial
  | cons e es ih =>
    intro h
    simp only [takenVec]
    rw [List.getElem?_eq_getElem (h e (by simp))]
    simp only
    apply Sat.bind
    exact (ih fun e he => h e (List.mem_cons_of_mem _ he)).mono fun _ _ => trivial

theorem addBranches_sat {f : Func} (hf : f.WF) (cnt : Nat → Nat) (ex : Bool) : ∀ (bl : List Block)
    (m : List (Nat × List Bool)), (∀ b ∈ bl, b.IdsLt f.arcs.length) →
    Sat NoSite False (addBranches f cnt ex bl m) fun _ => True := by
  intro bl
  induction bl with
  | nil => intro m _; trivial
  | cons blk bl ih =>
    intro m h
    have hbl : ∀ b ∈ bl, b.IdsLt f.arcs.length := fun b hb => h b (List.mem_cons_of_mem _ hb)
    have hblk := h blk (by simp)
    simp only [addBranches]
    apply Sat.bind
    refine (branchLine_sat hf hblk).mono fun line _ => ?_
    split
    · exact ih _ hbl
    · apply Sat.bind
      refine (takenVec_sat f cnt ex _ hblk.2).mono fun taken _ => ?_
      split
      · exact ih _ hbl
      · exact ih _ hbl

theorem finStep_sat (branch : Bool) (res : List (Bytes × Cov)) {fc : Func × Cnt} (hf : fc.1.WF) :
    Sat CycSites True (finStep branch res fc) fun _ => True := by
  obtain ⟨f, c⟩ := fc
  simp only [finStep]
  apply Sat.bind
  refine (addLineCount_sat hf c).mono fun ⟨executed, lines⟩ _ => ?_
  simp only
  apply Sat.bind
  have h1 : Sat CycSites True
      (if executed = true then mergeLines ((get? res f.fileName).getD {}).lines lines
       else ok (mergeZeroLines ((get? res f.fileName).getD {}).lines lines)) fun _ => True := by
    split
    · exact (mergeLines_sat _ _).toCyc
    · trivial
  refine h1.mono fun ls _ => ?_
  apply Sat.bind
  have h2 : Sat CycSites True
      (if branch = true then
        addBranches f c.arc executed f.blocks ((get? res f.fileName).getD {}).branches
       else ok ((get? res f.fileName).getD {}).branches) fun _ => True := by
    split
    · exact (addBranches_sat hf _ _ _ _ hf.ids).ofNo
    · trivial
  exact h2.mono fun _ _ => trivial

/-- **`finalize` on well-formed functions**: every index is in range; a crash is the known
overflow or – not excluded – `underflow` in the cycle search -/
theorem finalize_sat (branch : Bool) {fs : List (Func × Cnt)} (h : ∀ fc ∈ fs, fc.1.WF) :
    Sat CycSites True (finalize branch fs) fun _ => True := by
  unfold finalize
  refine Sat.foldl (Inv := fun _ => True) _ _ trivial ?_
  intro res fc hfc _
  exact finStep_sat branch res (h fc hfc)

end Grcov.Gcno
