/-
C14 for the gcno/gcda reader: the pieces of the line counts and of `finalize` that do not involve
the cycle search, on well-formed shapes: every index expression is in range, the sums crash only
by overflow; `lines_to_block` names only blocks of the function.  The cycle search and the
assembled `finalize` are in GcnoSafeJohnson.lean.
-/
import GrcovModel.Lemmas.GcnoSafeCount
import GrcovModel.Lemmas.GcnoStruct
namespace Grcov.Gcno
open Outcome AList

theorem Outcome.Sat.ofNo {α : Type} {C : Site → Prop} {D : Prop} {o : Outcome α} {Q : α → Prop}
    (h : Sat NoSite False o Q) : Sat C D o Q :=
  h.weaken (fun _ hs => hs.elim) (fun hf => hf.elim)

/-! ## sums over adjacency lists -/

theorem sumCounters_sat (arcs : List Arc) (cnt : Nat → Nat) : ∀ (es : List Nat) (acc : Nat),
    (∀ e ∈ es, e < arcs.length) → Sat OvOnly False (sumCounters arcs cnt es acc) fun _ => True := by
  intro es
  induction es with
  | nil => intro acc _; trivial
  | cons e es ih =>
    intro acc h
    simp only [sumCounters]
    rw [List.getElem?_eq_getElem (h e (by simp))]
    simp only
    split
    · rfl
    · exact ih _ fun e he => h e (List.mem_cons_of_mem _ he)

theorem sumEntering_sat (arcs : List Arc) (cnt : Nat → Nat) (bs : List Nat) : ∀ (es : List Nat)
    (acc : Nat), (∀ e ∈ es, e < arcs.length) →
    Sat OvOnly False (sumEntering arcs cnt bs es acc) fun _ => True := by
  intro es
  induction es with
  | nil => intro acc _; trivial
  | cons e es ih =>
    intro acc h
    have hes : ∀ e ∈ es, e < arcs.length := fun e he => h e (List.mem_cons_of_mem _ he)
    simp only [sumEntering]
    rw [List.getElem?_eq_getElem (h e (by simp))]
    simp only
    split
    · exact ih _ hes
    · split
      · rfl
      · exact ih _ hes

theorem setCycles_sat (arcs : List Arc) (cnt : Nat → Nat) : ∀ (es : List Nat) (cyc : Nat → Nat),
    (∀ e ∈ es, e < arcs.length) → Sat NoSite False (setCycles arcs cnt es cyc) fun _ => True := by
  intro es
  induction es with
  | nil => intro cyc _; trivial
  | cons e es ih =>
    intro cyc h
    simp only [setCycles]
    rw [List.getElem?_eq_getElem (h e (by simp))]
    exact ih _ fun e he => h e (List.mem_cons_of_mem _ he)

theorem lineEntryStep_sat {f : Func} (hf : f.WF) (cnt : Nat → Nat) (bs : List Nat)
    (acc : (Nat → Nat) × Nat) {b : Nat} (hb : b < f.blocks.length) :
    Sat OvOnly False (lineEntryStep f cnt bs acc b) fun _ => True := by
  unfold lineEntryStep
  rw [List.getElem?_eq_getElem hb]
  have hblk := hf.ids _ (List.getElem_mem hb)
  simp only
  apply Sat.bind
  have h1 : Sat OvOnly False
      (if f.blocks[b].no = 0 then sumCounters f.arcs cnt f.blocks[b].destination acc.2
       else sumEntering f.arcs cnt bs f.blocks[b].source acc.2) fun _ => True := by
    split
    · exact sumCounters_sat _ _ _ _ hblk.2
    · exact sumEntering_sat _ _ _ _ _ hblk.1
  refine h1.mono fun count _ => ?_
  apply Sat.bind
  exact (setCycles_sat _ _ _ _ hblk.2).ofNo.mono fun cyc _ => trivial

/-! ## the cycle search -/

theorem position_lt {l : List Nat} {x i : Nat} (h : position l x = some i) : i < l.length := by
  unfold position at h
  simp only at h
  split at h
  · simp only [Option.some.injEq] at h; omega
  · cases h

/-! ## `lines_to_block` only names blocks of the function -/

theorem linesToBlockLines_lt (n N : Nat) (hn : n < N) : ∀ (ls : List Nat) (m : List (Nat × List Nat)),
    (∀ p ∈ m, ∀ b ∈ p.2, b < N) → ∀ p ∈ linesToBlockLines n ls m, ∀ b ∈ p.2, b < N := by
  intro ls
  induction ls with
  | nil => intro m h; exact h
  | cons l ls ih =>
    intro m h
    simp only [linesToBlockLines]
    apply ih
    intro p hp b hb
    cases hg : get? m l with
    | some v =>
      simp only [hg] at hp
      rcases mem_set hp with rfl | hp
      · rcases List.mem_append.1 hb with hb | hb
        · exact h _ (mem_of_get?' hg) b hb
        · simp only [List.mem_singleton] at hb; omega
      · exact h p hp b hb
    | none =>
      simp only [hg] at hp
      rcases mem_set hp with rfl | hp
      · simp only [List.mem_singleton] at hb; omega
      · exact h p hp b hb

theorem linesToBlockGo_lt (N : Nat) : ∀ (bl : List Block) (m : List (Nat × List Nat)),
    (∀ b ∈ bl, b.no < N) → (∀ p ∈ m, ∀ b ∈ p.2, b < N) →
    ∀ p ∈ linesToBlockGo bl m, ∀ b ∈ p.2, b < N := by
  intro bl
  induction bl with
  | nil => intro m _ h; exact h
  | cons blk bl ih =>
    intro m hn h
    simp only [linesToBlockGo]
    exact ih _ (fun b hb => hn b (List.mem_cons_of_mem _ hb))
      (linesToBlockLines_lt blk.no N (hn blk (by simp)) _ _ h)

/-- the numbers `lines_to_block` collects (`block.no`) are indices into the block table -/
theorem linesToBlock_lt {f : Func} (hf : f.WF) :
    ∀ p ∈ linesToBlock f, ∀ b ∈ p.2, b < f.blocks.length :=
  linesToBlockGo_lt _ _ [] hf.nos (fun p hp => by simp at hp)

/-! ## pieces of `finalize` -/

theorem mergeLines_sat : ∀ (ls m : List (Nat × Nat)),
    Sat OvOnly False (mergeLines m ls) fun _ => True := by
  intro ls
  induction ls with
  | nil => intro m; trivial
  | cons p ls ih =>
    intro m
    obtain ⟨l, n⟩ := p
    simp only [mergeLines]
    split
    · split
      · rfl
      · exact ih _
    · exact ih _

theorem branchLine_sat {f : Func} (hf : f.WF) {blk : Block} (hblk : blk.IdsLt f.arcs.length) :
    Sat NoSite False (branchLine f blk) fun _ => True := by
  unfold branchLine
  split
  · refine Sat.foldl (Inv := fun _ => True) _ _ trivial ?_
    intro m e he _
    have hlt := hblk.1 e he
    rw [List.getElem?_eq_getElem hlt]
    simp only
    rw [List.getElem?_eq_getElem (hf.arcs _ (List.getElem_mem hlt)).1]
    trivial
  · trivial

theorem takenVec_sat (f : Func) (cnt : Nat → Nat) (ex : Bool) : ∀ (es : List Nat),
    (∀ e ∈ es, e < f.arcs.length) → Sat NoSite False (takenVec f cnt ex es) fun _ => True := by
  intro es
  induction es with
  | nil => intro _; trivial
  | cons e es ih =>
    intro h
    simp only [takenVec]
    rw [List.getElem?_eq_getElem (h e (by simp))]
    simp only
    apply Sat.bind
    exact (ih fun e he => h e (List.mem_cons_of_mem _ he)).mono fun _ _ => trivial

theorem addBranches_sat {f : Func} (hf : f.WF) (cnt : Nat → Nat) (ex : Bool) : ∀ (bl : List Block)
    (m : List (Nat × List Bool)), (∀ b ∈ bl, b.IdsLt f.arcs.length) →
    Sat NoSite False (addBranches f cnt ex bl m) fun _ => True := by
  intro bl
  induction bl with
  | nil => intro m _; trivial
  | cons blk bl ih =>
    intro m h
    have hbl : ∀ b ∈ bl, b.IdsLt f.arcs.length := fun b hb => h b (List.mem_cons_of_mem _ hb)
    have hblk := h blk (by simp)
    simp only [addBranches]
    apply Sat.bind
    refine (branchLine_sat hf hblk).mono fun line _ => ?_
    split
    · exact ih _ hbl
    · apply Sat.bind
      refine (takenVec_sat f cnt ex _ hblk.2).mono fun taken _ => ?_
      split
      · exact ih _ hbl
      · exact ih _ hbl

end Grcov.Gcno
