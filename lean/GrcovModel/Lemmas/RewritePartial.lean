/-
Helper lemmas about Rewrite.Partial: what `file_to_paths` holds after the walk, what
`map_partial_path` answers, when the lookup changes nothing, reports of `rewritePathsJ`, and the
partition lemmas with the per-key function as a parameter.
-/
import GrcovModel.Rewrite.Partial
import GrcovModel.Lemmas.Rewrite
namespace Grcov.Rewrite
open Grcov Grcov.UPath Grcov.Glob AList

/-! ### small facts -/

theorem stripComps_eq_some (S p rel : List Bytes) : stripComps S p = some rel ↔ p = S ++ rel := by
  induction S generalizing p with
  | nil => simp [stripComps, eq_comm]
  | cons a as ih =>
    cases p with
    | nil => simp [stripComps]
    | cons b bs =>
      simp only [stripComps, List.cons_append, List.cons.injEq]
      by_cases hab : a = b
      · subst hab; simp [ih]
      · simp [hab, Ne.symm hab]

theorem stripComps_append (S rel : List Bytes) : stripComps S (S ++ rel) = some rel :=
  (stripComps_eq_some S _ rel).2 rfl

/-- a path with an extension has a file name: `file_name().unwrap()` in `map_partial_path` is safe -/
theorem fileName_of_partialExt {p : Bytes} (h : isPartialExt p = true) : ∃ n, fileName p = some n := by
  unfold isPartialExt extensionOf at h
  cases hf : fileName p with
  | none => simp [hf] at h
  | some n => exact ⟨n, rfl⟩

/-! ### `file_to_paths` -/

theorem get?_pushPath (m : List (Bytes × List Bytes)) (e : Bytes × Bytes) (n : Bytes) :
    get? (pushPath m e) n = if e.1 = n then some ((get? m n).getD [] ++ [e.2]) else get? m n := by
  unfold pushPath
  cases h : get? m e.1 with
  | none =>
    simp only [get?_set]
    by_cases hn : e.1 = n
    · subst hn; simp [h]
    · simp [hn]
  | some ps =>
    simp only [get?_set]
    by_cases hn : e.1 = n
    · subst hn; simp [h]
    · simp [hn]

/-- the candidates pushed under one name, in the order of the list -/
def namedPaths (l : List (Bytes × Bytes)) (n : Bytes) : List Bytes :=
  (l.filter fun e => e.1 = n).map (·.2)

theorem get?_foldl_pushPath (l : List (Bytes × Bytes)) (m : List (Bytes × List Bytes)) (n : Bytes) :
    get? (l.foldl pushPath m) n =
      if namedPaths l n = [] then get? m n else some ((get? m n).getD [] ++ namedPaths l n) := by
  induction l generalizing m with
  | nil => simp [namedPaths]
  | cons e l ih =>
    rw [List.foldl_cons, ih, get?_pushPath]
    by_cases hn : e.1 = n
    · have : namedPaths (e :: l) n = e.2 :: namedPaths l n := by simp [namedPaths, hn]
      rw [this]
      simp only [hn, if_true, Option.getD_some, List.append_assoc, List.cons_append, List.nil_append,
        reduceCtorEq, if_false]
      split <;> simp_all
    · have : namedPaths (e :: l) n = namedPaths l n := by simp [namedPaths, hn]
      rw [this]; simp [hn]

/-- the candidate list `map_partial_path` sees for a file name (empty = no entry) -/
def candidatesFor (fs : FS) (ord : List (List Bytes)) (cfg : Cfg) (keys : List Bytes) (n : Bytes) :
    List Bytes :=
  (get? (fileToPaths fs ord cfg keys) n).getD []

theorem get?_fileToPaths (fs : FS) (ord : List (List Bytes)) (cfg : Cfg) (keys : List Bytes) (n : Bytes) :
    get? (fileToPaths fs ord cfg keys) n =
      if candidatesFor fs ord cfg keys n = [] then none else some (candidatesFor fs ord cfg keys n) := by
  unfold candidatesFor fileToPaths
  cases cfg.sourceDir with
  | none => simp
  | some s =>
    simp only [get?_foldl_pushPath, get?_nil, Option.getD_none, List.nil_append]
    split <;> simp_all

theorem candidatesFor_eq (fs : FS) (ord : List (List Bytes)) (cfg : Cfg) (keys : List Bytes) (n s : Bytes)
    (hS : cfg.sourceDir = some s) :
    candidatesFor fs ord cfg keys n = namedPaths (walkCands fs ord cfg s keys) n := by
  unfold candidatesFor fileToPaths
  simp only [hS, get?_foldl_pushPath, get?_nil, Option.getD_none, List.nil_append]
  split <;> simp_all

/-! ### `map_partial_path` -/

theorem mapPartialPath_cases (ftp : List (Bytes × List Bytes)) (p n : Bytes) (hn : fileName p = some n) :
    mapPartialPath ftp p =
      match get? ftp n with
      | none => p
      | some [c] => c
      | some opts => ((opts.find? fun o => endsWith o p).getD p) := by
  unfold mapPartialPath
  simp only [hn]
  cases get? ftp n with
  | none => rfl
  | some opts =>
    match opts with
    | [] => simp
    | [c] => rfl
    | a :: b :: t => simp only; cases List.find? (fun o => endsWith o p) (a :: b :: t) <;> rfl

/-- `map_partial_path` in terms of the candidate list of the path's file name -/
theorem mapPartialPath_candidates (fs : FS) (ord : List (List Bytes)) (cfg : Cfg) (keys : List Bytes)
    (p n : Bytes) (hn : fileName p = some n) :
    mapPartialPath (fileToPaths fs ord cfg keys) p =
      match candidatesFor fs ord cfg keys n with
      | [] => p
      | [c] => c
      | opts => ((opts.find? fun o => endsWith o p).getD p) := by
  rw [mapPartialPath_cases _ _ _ hn, get?_fileToPaths]
  match h : candidatesFor fs ord cfg keys n with
  | [] => simp
  | [c] => simp
  | a :: b :: t => simp

theorem mapPartialPath_nil (p : Bytes) : mapPartialPath [] p = p := by
  unfold mapPartialPath
  cases fileName p <;> simp

/-! ### the walk -/

/-- the `Prop` form of `candOk`: what makes the entry `S ++ rel` a candidate under the name `n` -/
def IsCandidate (fs : FS) (cfg : Cfg) (keys : List Bytes) (S rel : List Bytes) (n : Bytes) : Prop :=
  rel.getLast? = some n ∧ (∀ x ∈ rel, hidden x = false) ∧ isPartialExtName n = true ∧
    fs.kind (S ++ rel) = some Kind.file ∧ n ∈ coveredNames keys ∧ setMatch cfg.ignore (join rel) = false

theorem candOk_iff (fs : FS) (cfg : Cfg) (keys : List Bytes) (S rel : List Bytes) :
    candOk fs cfg keys S rel = true ↔ ∃ n, IsCandidate fs cfg keys S rel n := by
  unfold candOk IsCandidate
  cases h : rel.getLast? with
  | none => simp
  | some name =>
    simp only [Bool.and_eq_true, List.all_eq_true, Bool.not_eq_eq_eq_not, Bool.not_true,
      decide_eq_true_eq, List.contains_iff_mem, Option.some.injEq]
    constructor
    · rintro ⟨⟨⟨⟨h1, h2⟩, h3⟩, h4⟩, h5⟩; exact ⟨name, rfl, h1, h2, h3, h4, h5⟩
    · rintro ⟨n, rfl, h1, h2, h3, h4, h5⟩; exact ⟨⟨⟨⟨h1, h2⟩, h3⟩, h4⟩, h5⟩

theorem mem_walkCands_dir {fs : FS} {ord : List (List Bytes)} {cfg : Cfg} {src : Bytes} {keys : List Bytes}
    {S : List Bytes} (hres : fs.resolve src = some (S, .dir)) (hroot : rootPruned fs src = false)
    (n c : Bytes) :
    (n, c) ∈ walkCands fs ord cfg src keys ↔
      ∃ rel, S ++ rel ∈ ord ∧ IsCandidate fs cfg keys S rel n ∧ c = join rel := by
  unfold walkCands
  simp only [hres, hroot, Bool.false_eq_true, if_false, List.mem_filterMap]
  constructor
  · rintro ⟨p, hp, hf⟩
    cases hs : stripComps S p with
    | none => simp [hs] at hf
    | some rel =>
      simp only [hs] at hf
      split at hf
      · rename_i hok
        obtain ⟨n', hc⟩ := (candOk_iff _ _ _ _ _).1 hok
        simp only [Option.some.injEq, Prod.mk.injEq] at hf
        have hp' := (stripComps_eq_some _ _ _).1 hs
        refine ⟨rel, hp' ▸ hp, ?_, hf.2.symm⟩
        have : n' = n := by rw [← hf.1, hc.1]; rfl
        exact this ▸ hc
      · cases hf
  · rintro ⟨rel, hp, hc, e⟩
    refine ⟨S ++ rel, hp, ?_⟩
    have hok := (candOk_iff fs cfg keys S rel).2 ⟨n, hc⟩
    simp [stripComps_append, hok, hc.1, e]

/-- the same candidates, selected for one name straight from the walk order -/
def candFn (fs : FS) (cfg : Cfg) (keys : List Bytes) (S : List Bytes) (n : Bytes) (p : List Bytes) :
    Option Bytes :=
  match stripComps S p with
  | none => none
  | some rel => if candOk fs cfg keys S rel && decide (rel.getLast? = some n) then some (join rel) else none

theorem namedPaths_walkCands_dir {fs : FS} {ord : List (List Bytes)} {cfg : Cfg} {src : Bytes}
    {keys : List Bytes} {S : List Bytes} (hres : fs.resolve src = some (S, .dir))
    (hroot : rootPruned fs src = false) (n : Bytes) :
    namedPaths (walkCands fs ord cfg src keys) n = ord.filterMap (candFn fs cfg keys S n) := by
  unfold walkCands namedPaths
  simp only [hres, hroot, Bool.false_eq_true, if_false]
  induction ord with
  | nil => rfl
  | cons p ord ih =>
    simp only [List.filterMap_cons, candFn]
    cases hs : stripComps S p with
    | none => simpa using ih
    | some rel =>
      simp only
      by_cases hok : candOk fs cfg keys S rel = true
      · simp only [hok, if_true, Bool.true_and]
        obtain ⟨n', hc⟩ := (candOk_iff _ _ _ _ _).1 hok
        by_cases hn : rel.getLast? = some n
        · simp [hn, ih]
        · have : ¬ rel.getLast?.getD [] = n := by
            rw [hc.1]; intro e; apply hn; rw [hc.1]; exact congrArg some e
          simp [hn, this, ih]
      · simp only [hok, Bool.false_eq_true, if_false, Bool.false_and]
        simpa using ih

theorem filterMap_congr' {α β : Type} {f g : α → Option β} {l : List α} (h : ∀ x ∈ l, f x = g x) :
    l.filterMap f = l.filterMap g := by
  induction l with
  | nil => rfl
  | cons a l ih =>
    rw [List.filterMap_cons, List.filterMap_cons, h a (by simp), ih fun x hx => h x (List.mem_cons_of_mem _ hx)]

theorem filterMap_eq_singleton {α β : Type} [DecidableEq α] (f : α → Option β) (l : List α) (a : α) (b : β)
    (hnd : l.Nodup) (ha : a ∈ l) (hfa : f a = some b) (hother : ∀ x ∈ l, x ≠ a → f x = none) :
    l.filterMap f = [b] := by
  induction l with
  | nil => cases ha
  | cons x l ih =>
    simp only [List.nodup_cons] at hnd
    by_cases hx : x = a
    · subst hx
      rw [List.filterMap_cons, hfa]
      have : l.filterMap f = [] := by
        rw [List.filterMap_eq_nil_iff]
        intro y hy
        exact hother y (List.mem_cons_of_mem _ hy) (fun e => hnd.1 (e ▸ hy))
      rw [this]
    · rw [List.filterMap_cons, hother x (by simp) hx]
      have ha' : a ∈ l := by
        rcases List.mem_cons.1 ha with h | h
        · exact absurd h.symm hx
        · exact h
      exact ih hnd.2 ha' fun y hy => hother y (List.mem_cons_of_mem _ hy)

theorem candFn_some_iff (fs : FS) (cfg : Cfg) (keys : List Bytes) (S : List Bytes) (n : Bytes)
    (p : List Bytes) (c : Bytes) :
    candFn fs cfg keys S n p = some c ↔ ∃ rel, p = S ++ rel ∧ IsCandidate fs cfg keys S rel n ∧ c = join rel := by
  unfold candFn
  cases hs : stripComps S p with
  | none =>
    simp only [reduceCtorEq, false_iff]
    rintro ⟨rel, hp, _⟩
    rw [(stripComps_eq_some _ _ _).2 hp] at hs; cases hs
  | some rel =>
    have hp := (stripComps_eq_some _ _ _).1 hs
    simp only
    constructor
    · intro h
      split at h
      · rename_i hok
        simp only [Bool.and_eq_true, decide_eq_true_eq] at hok
        obtain ⟨n', hc⟩ := (candOk_iff _ _ _ _ _).1 hok.1
        have : n' = n := by have := hc.1; rw [hok.2] at this; exact (Option.some.inj this).symm
        cases h
        exact ⟨rel, hp, this ▸ hc, rfl⟩
      · cases h
    · rintro ⟨rel', hp', hc, e⟩
      have : rel' = rel := List.append_cancel_left (hp'.symm.trans hp)
      subst this
      have hok := (candOk_iff fs cfg keys S rel').2 ⟨n, hc⟩
      simp [hok, hc.1, e]

/-- exactly one candidate of that name in a duplicate-free walk: the candidate list is that one -/
theorem candidatesFor_unique {fs : FS} {ord : List (List Bytes)} {cfg : Cfg} {src : Bytes}
    {keys : List Bytes} {S : List Bytes} (hS : cfg.sourceDir = some src)
    (hres : fs.resolve src = some (S, .dir)) (hroot : rootPruned fs src = false)
    (n : Bytes) (rel : List Bytes) (hord : ord.Nodup) (hmem : S ++ rel ∈ ord)
    (hc : IsCandidate fs cfg keys S rel n)
    (huniq : ∀ rel', S ++ rel' ∈ ord → IsCandidate fs cfg keys S rel' n → rel' = rel) :
    candidatesFor fs ord cfg keys n = [join rel] := by
  rw [candidatesFor_eq _ _ _ _ _ _ hS, namedPaths_walkCands_dir hres hroot]
  apply filterMap_eq_singleton _ _ (S ++ rel) _ hord hmem
  · exact (candFn_some_iff _ _ _ _ _ _ _).2 ⟨rel, rfl, hc, rfl⟩
  · intro p hp hne
    cases hf : candFn fs cfg keys S n p with
    | none => rfl
    | some c =>
      obtain ⟨rel', e, hc', _⟩ := (candFn_some_iff _ _ _ _ _ _ _).1 hf
      subst e
      exact absurd (by rw [huniq rel' hp hc']) hne

theorem mem_candidatesFor {fs : FS} {ord : List (List Bytes)} {cfg : Cfg} {src : Bytes}
    {keys : List Bytes} {S : List Bytes} (hS : cfg.sourceDir = some src)
    (hres : fs.resolve src = some (S, .dir)) (hroot : rootPruned fs src = false) (n c : Bytes) :
    c ∈ candidatesFor fs ord cfg keys n ↔
      ∃ rel, S ++ rel ∈ ord ∧ IsCandidate fs cfg keys S rel n ∧ c = join rel := by
  rw [candidatesFor_eq _ _ _ _ _ _ hS, namedPaths_walkCands_dir hres hroot, List.mem_filterMap]
  constructor
  · rintro ⟨p, hp, hf⟩
    obtain ⟨rel, e, hc, ec⟩ := (candFn_some_iff _ _ _ _ _ _ _).1 hf
    exact ⟨rel, e ▸ hp, hc, ec⟩
  · rintro ⟨rel, hp, hc, ec⟩
    exact ⟨S ++ rel, hp, (candFn_some_iff _ _ _ _ _ _ _).2 ⟨rel, rfl, hc, ec⟩⟩

/-- a hidden source-dir name: `filter_entry` rejects the depth-0 entry and nothing is walked -/
theorem fileToPaths_hidden_root (fs : FS) (ord : List (List Bytes)) (cfg : Cfg) (keys : List Bytes)
    (s : Bytes) (hS : cfg.sourceDir = some s) (hroot : rootPruned fs s = true) :
    fileToPaths fs ord cfg keys = [] := by
  unfold fileToPaths walkCands
  simp only [hS, hroot, if_true]
  cases fs.resolve s with
  | none => rfl
  | some r => rfl

/-- every candidate is a '/'-join of names that occur in the walk order -/
theorem walkCands_join {fs : FS} {ord : List (List Bytes)} {cfg : Cfg} {src : Bytes} {keys : List Bytes}
    (e : Bytes × Bytes) (h : e ∈ walkCands fs ord cfg src keys) :
    ∃ rel, e.2 = join rel ∧ ∀ x ∈ rel, ∃ p ∈ ord, x ∈ p := by
  unfold walkCands at h
  cases hr : fs.resolve src with
  | none => simp [hr] at h
  | some r =>
    obtain ⟨S, k⟩ := r
    simp only [hr] at h
    split at h
    · cases h
    · cases k with
      | file =>
        simp only at h
        split at h
        · simp at h; subst h; exact ⟨[], rfl, by simp⟩
        · cases h
      | dir =>
        simp only [List.mem_filterMap] at h
        obtain ⟨p, hp, hf⟩ := h
        cases hs : stripComps S p with
        | none => simp [hs] at hf
        | some rel =>
          simp only [hs] at hf
          split at hf
          · cases hf
            have := (stripComps_eq_some _ _ _).1 hs
            exact ⟨rel, rfl, fun x hx => ⟨p, hp, this ▸ List.mem_append_right _ hx⟩⟩
          · cases hf

/-! ### the lookup changes nothing when … -/

theorem partialStep_id {nd : Bool} {ftp : List (Bytes × List Bytes)} {rel : Bytes}
    (h : nd = false ∨ isPartialExt rel = false ∨ ftp = []) : partialStep nd ftp rel = rel := by
  unfold partialStep
  rcases h with h | h | h
  · simp [h]
  · simp [h]
  · subst h; simp [mapPartialPath_nil]

theorem partialStepF_id {fs : FS} {src : Option Bytes} {nd : Bool} {ftp : List (Bytes × List Bytes)} {rel : Bytes}
    (h : nd = false ∨ isPartialExt rel = false ∨ ftp = [] ∨ namesFile fs src rel = true) :
    partialStepF fs src nd ftp rel = rel := by
  unfold partialStepF
  rcases h with h | h | h | h
  · exact partialStep_id (Or.inl (by simp [h]))
  · exact partialStep_id (Or.inr (Or.inl h))
  · exact partialStep_id (Or.inr (Or.inr h))
  · exact partialStep_id (Or.inl (by simp [h]))

/-- when the path does not name a file below the source dir the fix changes nothing -/
theorem partialStepF_eq {fs : FS} {src : Option Bytes} {nd : Bool} {ftp : List (Bytes × List Bytes)} {rel : Bytes}
    (h : namesFile fs src rel = false) : partialStepF fs src nd ftp rel = partialStep nd ftp rel := by
  unfold partialStepF; simp [h]

theorem resolveKeyJ_eq {cfg : Cfg} {fs : FS} {nd : Bool} {ftp : List (Bytes × List Bytes)} {key : Bytes}
    (h : nd = false ∨ isPartialExt (keyPath cfg key) = false ∨ ftp = []) :
    resolveKeyJ cfg fs nd ftp key = resolveKey cfg fs key := by
  unfold resolveKeyJ resolveKey
  rw [partialStepF_id (h.elim Or.inl fun h => h.elim (fun h => Or.inr (Or.inl h)) fun h => Or.inr (Or.inr (Or.inl h)))]

theorem rewriteKeyJ_eq {cfg : Cfg} {fs : FS} {nd : Bool} {ftp : List (Bytes × List Bytes)}
    {kc : Bytes × Cov} (h : nd = false ∨ isPartialExt (keyPath cfg kc.1) = false ∨ ftp = []) :
    rewriteKeyJ cfg fs nd ftp kc = rewriteKey cfg fs kc := by
  unfold rewriteKeyJ rewriteKey
  rw [resolveKeyJ_eq h]
  cases resolveKey cfg fs kc.1 with
  | panic s => rfl
  | ok o => rcases o with _ | ⟨a, r⟩ <;> rfl

theorem walkPanics_of_not_needed {cfg : Cfg} {fs : FS} {keys : List Bytes}
    (h : needed cfg fs keys = false) : walkPanics cfg fs keys = false := by
  unfold walkPanics
  cases cfg.sourceDir <;> simp [h]

/-- `rewritePathsJ` is `rewritePaths` as soon as the walk does not panic and every key's lookup is
the identity -/
theorem rewritePathsJ_eq_rewritePaths (cfg : Cfg) (fs : FS) (ord : List (List Bytes))
    (m : List (Bytes × Cov)) (hw : walkPanics cfg fs (m.map (·.1)) = false)
    (h : ∀ kc ∈ m, needed cfg fs (m.map (·.1)) = false ∨ isPartialExt (keyPath cfg kc.1) = false ∨
      fileToPaths fs ord cfg (m.map (·.1)) = []) :
    rewritePathsJ cfg fs ord m = rewritePaths cfg fs m := by
  have hmap : m.map (rewriteKeyJ cfg fs (needed cfg fs (m.map (·.1))) (fileToPaths fs ord cfg (m.map (·.1))))
      = m.map (rewriteKey cfg fs) :=
    List.map_congr_left fun kc hkc => rewriteKeyJ_eq (h kc hkc)
  unfold rewritePathsJ rewritePaths
  simp only [hw, Bool.false_eq_true, if_false, hmap]
  cases cfg.sourceDir <;> rfl

/-! ### reports of `rewritePathsJ` -/

/-- the per-key function `rewritePathsJ` maps over `m` -/
def keyFnJ (cfg : Cfg) (fs : FS) (ord : List (List Bytes)) (m : List (Bytes × Cov)) :
    Bytes × Cov → Res (Option Rec) :=
  rewriteKeyJ cfg fs (needed cfg fs (m.map (·.1))) (fileToPaths fs ord cfg (m.map (·.1)))

theorem rewritePathsJ_eq_ok (cfg : Cfg) (fs : FS) (ord : List (List Bytes)) (m : List (Bytes × Cov))
    (rep : List Rec) :
    rewritePathsJ cfg fs ord m = .ok rep ↔
      (∀ s, cfg.sourceDir = some s → isAbsolute s = true) ∧
      walkPanics cfg fs (m.map (·.1)) = false ∧
      (∀ kc ∈ m, ∃ o, keyFnJ cfg fs ord m kc = .ok o) ∧
      rep = m.filterMap fun kc => okPart (keyFnJ cfg fs ord m kc) := by
  have hc := collect_eq_ok (m.map (keyFnJ cfg fs ord m)) rep
  simp only [List.mem_map, forall_exists_index, and_imp, forall_apply_eq_imp_iff₂,
    List.filterMap_map] at hc
  have hcomp : (okPart ∘ keyFnJ cfg fs ord m) = fun kc => okPart (keyFnJ cfg fs ord m kc) := rfl
  rw [hcomp] at hc
  unfold rewritePathsJ
  simp only
  have body : ∀ (P : Prop), P →
      ((if walkPanics cfg fs (m.map (·.1)) = true then Res.panic "walkdir"
        else collect (m.map (rewriteKeyJ cfg fs (needed cfg fs (m.map (·.1)))
          (fileToPaths fs ord cfg (m.map (·.1)))))) = .ok rep ↔
      P ∧ walkPanics cfg fs (m.map (·.1)) = false ∧
        (∀ kc ∈ m, ∃ o, keyFnJ cfg fs ord m kc = .ok o) ∧
        rep = m.filterMap fun kc => okPart (keyFnJ cfg fs ord m kc)) := by
    intro P hP
    by_cases hw : walkPanics cfg fs (m.map (·.1)) = true
    · simp [hw]
    · simp only [hw, Bool.false_eq_true, if_false]
      have : collect (m.map (rewriteKeyJ cfg fs (needed cfg fs (m.map (·.1)))
          (fileToPaths fs ord cfg (m.map (·.1))))) = collect (m.map (keyFnJ cfg fs ord m)) := rfl
      rw [this, hc]
      simp [hP]
  cases hs : cfg.sourceDir with
  | none => simpa using body True trivial
  | some s =>
    simp only
    by_cases ha : isAbsolute s = true
    · simp only [ha, if_true]
      have := body (∀ s', some s = some s' → isAbsolute s' = true) (by intro s' e; cases e; exact ha)
      simpa using this
    · simp only [ha, Bool.false_eq_true, if_false, reduceCtorEq, false_iff]
      rintro ⟨h1, _⟩
      exact ha (h1 s rfl)

theorem mem_rewritePathsJ {cfg : Cfg} {fs : FS} {ord : List (List Bytes)} {m : List (Bytes × Cov)}
    {rep : List Rec} (h : rewritePathsJ cfg fs ord m = .ok rep) (r : Rec) :
    r ∈ rep ↔ ∃ kc ∈ m, keyFnJ cfg fs ord m kc = .ok (some r) := by
  obtain ⟨_, _, _, e⟩ := (rewritePathsJ_eq_ok cfg fs ord m rep).1 h
  subst e
  simp only [List.mem_filterMap]
  constructor
  · rintro ⟨kc, hkc, hr⟩
    refine ⟨kc, hkc, ?_⟩
    cases hk : keyFnJ cfg fs ord m kc with
    | panic s => simp [hk, okPart] at hr
    | ok o => simp [hk, okPart] at hr; rw [hr]
  · rintro ⟨kc, hkc, hr⟩
    exact ⟨kc, hkc, by simp [hr, okPart]⟩

theorem rewriteKeyJ_some_iff (cfg : Cfg) (fs : FS) (nd : Bool) (ftp : List (Bytes × List Bytes))
    (kc : Bytes × Cov) (r : Rec) :
    rewriteKeyJ cfg fs nd ftp kc = .ok (some r) ↔
      ∃ abs rel, resolveKeyJ cfg fs nd ftp kc.1 = .ok (some (abs, rel)) ∧
        selectRec cfg fs abs rel kc.2 = some r := by
  unfold rewriteKeyJ
  cases h : resolveKeyJ cfg fs nd ftp kc.1 with
  | panic s => simp
  | ok o =>
    cases o with
    | none => simp
    | some ar =>
      obtain ⟨a, rl⟩ := ar
      simp only [Res.ok.injEq, Option.some.injEq, Prod.mk.injEq]
      constructor
      · intro h; exact ⟨a, rl, ⟨rfl, rfl⟩, h⟩
      · rintro ⟨_, _, ⟨rfl, rfl⟩, h⟩; exact h

theorem resolveKeyJ_some {cfg : Cfg} {fs : FS} {nd : Bool} {ftp : List (Bytes × List Bytes)}
    {key a r : Bytes} (h : resolveKeyJ cfg fs nd ftp key = .ok (some (a, r))) :
    ∃ r0, getAbsPath fs cfg.sourceDir (partialStepF fs cfg.sourceDir nd ftp (keyPath cfg key)) = .ok (some (a, r0)) ∧
      finalRel r0 = some r := by
  unfold resolveKeyJ at h
  split at h
  · cases h
  · exact (finishPath_some_iff _ _ _).1 h

/-! ### partitions, with the per-key function as a parameter -/

/-- two per-key functions that split a third one key by key split its report -/
theorem collect_partition {α : Type} (f fA fB : α → Res (Option Rec)) (m : List α)
    (H : ∀ a ∈ m, ∀ o, f a = .ok o →
      (fA a = .ok o ∧ fB a = .ok none) ∨ (fA a = .ok none ∧ fB a = .ok o))
    (rep : List Rec) (h : collect (m.map f) = .ok rep) :
    ∃ ra rb, collect (m.map fA) = .ok ra ∧ collect (m.map fB) = .ok rb ∧ (ra ++ rb).Perm rep := by
  have hc := (collect_eq_ok (m.map f) rep).1 h
  simp only [List.mem_map, forall_exists_index, and_imp, forall_apply_eq_imp_iff₂,
    List.filterMap_map] at hc
  obtain ⟨hok, e⟩ := hc
  refine ⟨m.filterMap (okPart ∘ fA), m.filterMap (okPart ∘ fB), ?_, ?_, ?_⟩
  · rw [collect_eq_ok]
    simp only [List.mem_map, forall_exists_index, and_imp, forall_apply_eq_imp_iff₂, List.filterMap_map]
    refine ⟨?_, trivial⟩
    intro a ha
    obtain ⟨o, ho⟩ := hok a ha
    rcases H a ha o ho with ⟨h1, _⟩ | ⟨h1, _⟩ <;> exact ⟨_, h1⟩
  · rw [collect_eq_ok]
    simp only [List.mem_map, forall_exists_index, and_imp, forall_apply_eq_imp_iff₂, List.filterMap_map]
    refine ⟨?_, trivial⟩
    intro a ha
    obtain ⟨o, ho⟩ := hok a ha
    rcases H a ha o ho with ⟨_, h1⟩ | ⟨_, h1⟩ <;> exact ⟨_, h1⟩
  · subst e
    apply perm_filterMap_split
    intro a ha
    obtain ⟨o, ho⟩ := hok a ha
    rcases H a ha o ho with ⟨h1, h2⟩ | ⟨h1, h2⟩
    · left; simp [Function.comp, h1, h2, ho, okPart]
    · right; simp [Function.comp, h1, h2, ho, okPart]

/-- `selectRec` under `--ignore (I ++ G)` / `--keep-only G` versus the configuration itself -/
theorem selectRec_ignore_keep (cfg : Cfg) (hk : cfg.keep = []) (G : GlobSet) (hG : G ≠ []) (fs : FS)
    (abs rel : Bytes) (cov : Cov) :
    (selectRec { cfg with ignore := cfg.ignore ++ G } fs abs rel cov = selectRec cfg fs abs rel cov ∧
        selectRec { cfg with keep := G } fs abs rel cov = none) ∨
    (selectRec { cfg with ignore := cfg.ignore ++ G } fs abs rel cov = none ∧
        selectRec { cfg with keep := G } fs abs rel cov = selectRec cfg fs abs rel cov) := by
  have hGe : G.isEmpty = false := by cases G <;> simp_all
  unfold selectRec
  simp only [hk, setMatch_append, List.isEmpty_nil, Bool.not_true, Bool.false_and,
    Bool.false_eq_true, if_false, hGe, Bool.not_false, Bool.true_and]
  by_cases h1 : setMatch cfg.ignore rel = true
  · simp [h1]
  · simp only [h1, Bool.false_eq_true, if_false, Bool.false_or]
    by_cases hg : setMatch G rel = true
    · simp [hg]
    · simp [hg]

theorem selectRec_filter (cfg : Cfg) (hf : cfg.filter = none) (fs : FS) (abs rel : Bytes) (cov : Cov) :
    (selectRec { cfg with filter := some true } fs abs rel cov = selectRec cfg fs abs rel cov ∧
        selectRec { cfg with filter := some false } fs abs rel cov = none) ∨
    (selectRec { cfg with filter := some true } fs abs rel cov = none ∧
        selectRec { cfg with filter := some false } fs abs rel cov = selectRec cfg fs abs rel cov) := by
  unfold selectRec
  simp only [hf, filterOk]
  by_cases h1 : setMatch cfg.ignore rel = true
  · simp [h1]
  · simp only [h1, Bool.false_eq_true, if_false]
    by_cases h2 : (!cfg.keep.isEmpty && !setMatch cfg.keep rel) = true
    · simp [h2]
    · simp only [h2, Bool.false_eq_true, if_false]
      by_cases h3 : (cfg.ignoreNotExisting && !fs.exists abs) = true
      · simp [h3]
      · simp only [h3, Bool.false_eq_true, if_false]
        by_cases hcv : isCovered cov = true <;> simp [hcv]

/-- `resolveKeyJ` reads the three path options only (the lookup table is an argument) -/
theorem resolveKeyJ_congr {c c' : Cfg} (h1 : c.sourceDir = c'.sourceDir)
    (h2 : c.prefixDir = c'.prefixDir) (h3 : c.mapping = c'.mapping) (fs : FS) (nd : Bool)
    (ftp : List (Bytes × List Bytes)) (key : Bytes) :
    resolveKeyJ c fs nd ftp key = resolveKeyJ c' fs nd ftp key := by
  unfold resolveKeyJ keyPath; rw [h1, h2, h3]

/-- one key, the lookup table held fixed: two configurations that agree on the path options and
whose `selectRec` split that of a third one -/
theorem rewriteKeyJ_split (cfg cA cB : Cfg) (fs : FS) (nd : Bool) (ftp : List (Bytes × List Bytes))
    (kc : Bytes × Cov)
    (hA : cA.sourceDir = cfg.sourceDir ∧ cA.prefixDir = cfg.prefixDir ∧ cA.mapping = cfg.mapping)
    (hB : cB.sourceDir = cfg.sourceDir ∧ cB.prefixDir = cfg.prefixDir ∧ cB.mapping = cfg.mapping)
    (hsel : ∀ abs rel,
      (selectRec cA fs abs rel kc.2 = selectRec cfg fs abs rel kc.2 ∧ selectRec cB fs abs rel kc.2 = none) ∨
      (selectRec cA fs abs rel kc.2 = none ∧ selectRec cB fs abs rel kc.2 = selectRec cfg fs abs rel kc.2))
    (o : Option Rec) (h : rewriteKeyJ cfg fs nd ftp kc = .ok o) :
    (rewriteKeyJ cA fs nd ftp kc = .ok o ∧ rewriteKeyJ cB fs nd ftp kc = .ok none) ∨
    (rewriteKeyJ cA fs nd ftp kc = .ok none ∧ rewriteKeyJ cB fs nd ftp kc = .ok o) := by
  have eA := resolveKeyJ_congr hA.1 hA.2.1 hA.2.2 fs nd ftp kc.1
  have eB := resolveKeyJ_congr hB.1 hB.2.1 hB.2.2 fs nd ftp kc.1
  unfold rewriteKeyJ at h ⊢
  rw [eA, eB]
  cases hr : resolveKeyJ cfg fs nd ftp kc.1 with
  | panic s => simp [hr] at h
  | ok o' =>
    cases o' with
    | none => simp [hr] at h; subst h; simp
    | some ar =>
      obtain ⟨a, rl⟩ := ar
      simp only [hr, Res.ok.injEq] at h
      subst h
      simp only [Res.ok.injEq]
      rcases hsel a rl with ⟨h1, h2⟩ | ⟨h1, h2⟩
      · left; exact ⟨h1, h2⟩
      · right; exact ⟨h1, h2⟩

/-! ### what the lookup table depends on -/

theorem needed_congr {c c' : Cfg} (h1 : c.sourceDir = c'.sourceDir) (h2 : c.prefixDir = c'.prefixDir)
    (fs : FS) (keys : List Bytes) : needed c fs keys = needed c' fs keys := by
  unfold needed; rw [h1, h2]

theorem walkPanics_congr {c c' : Cfg} (h1 : c.sourceDir = c'.sourceDir) (h2 : c.prefixDir = c'.prefixDir)
    (fs : FS) (keys : List Bytes) : walkPanics c fs keys = walkPanics c' fs keys := by
  unfold walkPanics; rw [needed_congr h1 h2, h1]

/-- the walk reads the source dir and the `--ignore` globs, nothing else -/
theorem fileToPaths_congr {c c' : Cfg} (h1 : c.sourceDir = c'.sourceDir) (h2 : c.ignore = c'.ignore)
    (fs : FS) (ord : List (List Bytes)) (keys : List Bytes) :
    fileToPaths fs ord c keys = fileToPaths fs ord c' keys := by
  unfold fileToPaths walkCands candOk; rw [h1, h2]

theorem walkCands_congr {c c' : Cfg} (h : c.ignore = c'.ignore) (fs : FS) (ord : List (List Bytes))
    (s : Bytes) (keys : List Bytes) : walkCands fs ord c s keys = walkCands fs ord c' s keys := by
  unfold walkCands candOk; rw [h]

/-- more `--ignore` globs that match no candidate leave the candidates as they are -/
theorem walkCands_ignore_append (fs : FS) (ord : List (List Bytes)) (cfg : Cfg) (G : GlobSet)
    (src : Bytes) (keys : List Bytes)
    (hG : ∀ e ∈ walkCands fs ord cfg src keys, setMatch G e.2 = false) :
    walkCands fs ord { cfg with ignore := cfg.ignore ++ G } src keys = walkCands fs ord cfg src keys := by
  unfold walkCands at hG ⊢
  cases hr : fs.resolve src with
  | none => rfl
  | some r =>
    obtain ⟨S, k⟩ := r
    simp only [hr] at hG ⊢
    by_cases hh : rootPruned fs src = true
    · simp [hh]
    · simp only [hh, Bool.false_eq_true, if_false] at hG ⊢
      cases k with
      | file =>
        simp only at hG ⊢
        by_cases hB : rootFileCand fs src keys = true
        · by_cases hi : setMatch cfg.ignore [] = true
          · simp [hB, hi, setMatch_append]
          · simp only [hB, hi, Bool.not_false, Bool.and_self, if_true] at hG
            have hg := hG (rootName src, []) (by simp)
            simp only at hg
            simp [hB, hi, setMatch_append, hg]
        · simp [hB]
      | dir =>
        simp only at hG ⊢
        apply filterMap_congr'
        intro p hp
        cases hs : stripComps S p with
        | none => rfl
        | some rel =>
          simp only
          by_cases hok : candOk fs cfg keys S rel = true
          · have hmem : (rel.getLast?.getD [], join rel) ∈ ord.filterMap fun p =>
                match stripComps S p with
                | none => none
                | some rel => if candOk fs cfg keys S rel then some (rel.getLast?.getD [], join rel) else none := by
              rw [List.mem_filterMap]; exact ⟨p, hp, by simp [hs, hok]⟩
            have hg := hG _ hmem
            have : candOk fs { cfg with ignore := cfg.ignore ++ G } keys S rel = true := by
              unfold candOk at hok ⊢
              cases hl : rel.getLast? with
              | none => simp [hl] at hok
              | some name =>
                simp only [hl, Bool.and_eq_true] at hok ⊢
                refine ⟨hok.1, ?_⟩
                have := hok.2
                simp only [Bool.not_eq_eq_eq_not, Bool.not_true] at this ⊢
                simp only at hg
                simp [setMatch_append, this, hg]
            simp [hok, this]
          · have : candOk fs { cfg with ignore := cfg.ignore ++ G } keys S rel = false := by
              unfold candOk at hok ⊢
              cases hl : rel.getLast? with
              | none => rfl
              | some name =>
                simp only [hl] at hok ⊢
                rw [Bool.eq_false_iff]
                intro h
                apply hok
                simp only [Bool.and_eq_true] at h ⊢
                refine ⟨h.1, ?_⟩
                have := h.2
                simp only [Bool.not_eq_eq_eq_not, Bool.not_true, setMatch_append, Bool.or_eq_false_iff] at this ⊢
                exact this.1
            simp [hok, this]

theorem fileToPaths_ignore_append (fs : FS) (ord : List (List Bytes)) (cfg : Cfg) (G : GlobSet)
    (keys : List Bytes)
    (hG : ∀ s, cfg.sourceDir = some s → ∀ e ∈ walkCands fs ord cfg s keys, setMatch G e.2 = false) :
    fileToPaths fs ord { cfg with ignore := cfg.ignore ++ G } keys = fileToPaths fs ord cfg keys := by
  unfold fileToPaths
  cases hs : cfg.sourceDir with
  | none => rfl
  | some s =>
    simp only
    exact congrArg (List.foldl pushPath [])
      ((walkCands_congr (c' := { cfg with ignore := cfg.ignore ++ G }) rfl fs ord s keys).trans
        (walkCands_ignore_append fs ord cfg G s keys (hG s hs)))

/-! ### the whole report, partitions -/

/-- the path handed to `get_abs_path` for one key of a map with the keys `keys` -/
def mappedPath (cfg : Cfg) (fs : FS) (ord : List (List Bytes)) (keys : List Bytes) (key : Bytes) : Bytes :=
  partialStepF fs cfg.sourceDir (needed cfg fs keys) (fileToPaths fs ord cfg keys) (keyPath cfg key)

/-- '/'-separated real names, optionally after a root '/' (the same proposition as
`Props.C11.NormalForm`, which is declared in a file that imports this one) -/
def NormalFormP (r : Bytes) : Prop := ∃ np : NPath, r = render np ∧ ∀ n ∈ np.names, RealName n

theorem rewritePathsJ_body (cfg : Cfg) (fs : FS) (ord : List (List Bytes)) (m : List (Bytes × Cov))
    (habs : ∀ s, cfg.sourceDir = some s → isAbsolute s = true)
    (hw : walkPanics cfg fs (m.map (·.1)) = false) :
    rewritePathsJ cfg fs ord m = collect (m.map (keyFnJ cfg fs ord m)) := by
  unfold rewritePathsJ keyFnJ
  simp only [hw, Bool.false_eq_true, if_false]
  cases hs : cfg.sourceDir with
  | none => rfl
  | some s => simp [habs s hs]

/-- two configurations that agree with `cfg` on the path options, see the same lookup table, and
whose selections split that of `cfg`, split its report -/
theorem partition_reportsJ (cfg cA cB : Cfg) (fs : FS) (ord : List (List Bytes)) (m : List (Bytes × Cov))
    (hA : cA.sourceDir = cfg.sourceDir ∧ cA.prefixDir = cfg.prefixDir ∧ cA.mapping = cfg.mapping)
    (hB : cB.sourceDir = cfg.sourceDir ∧ cB.prefixDir = cfg.prefixDir ∧ cB.mapping = cfg.mapping)
    (hfA : fileToPaths fs ord cA (m.map (·.1)) = fileToPaths fs ord cfg (m.map (·.1)))
    (hfB : fileToPaths fs ord cB (m.map (·.1)) = fileToPaths fs ord cfg (m.map (·.1)))
    (hsel : ∀ abs rel cov,
      (selectRec cA fs abs rel cov = selectRec cfg fs abs rel cov ∧ selectRec cB fs abs rel cov = none) ∨
      (selectRec cA fs abs rel cov = none ∧ selectRec cB fs abs rel cov = selectRec cfg fs abs rel cov))
    (rep : List Rec) (h : rewritePathsJ cfg fs ord m = .ok rep) :
    ∃ ra rb, rewritePathsJ cA fs ord m = .ok ra ∧ rewritePathsJ cB fs ord m = .ok rb ∧
      (ra ++ rb).Perm rep := by
  obtain ⟨habs, hw, _, _⟩ := (rewritePathsJ_eq_ok cfg fs ord m rep).1 h
  rw [rewritePathsJ_body cfg fs ord m habs hw] at h
  have eA : keyFnJ cA fs ord m = rewriteKeyJ cA fs (needed cfg fs (m.map (·.1)))
      (fileToPaths fs ord cfg (m.map (·.1))) := by
    unfold keyFnJ; rw [needed_congr hA.1 hA.2.1, hfA]
  have eB : keyFnJ cB fs ord m = rewriteKeyJ cB fs (needed cfg fs (m.map (·.1)))
      (fileToPaths fs ord cfg (m.map (·.1))) := by
    unfold keyFnJ; rw [needed_congr hB.1 hB.2.1, hfB]
  rw [rewritePathsJ_body cA fs ord m (fun s hs => habs s (hA.1 ▸ hs))
      ((walkPanics_congr hA.1 hA.2.1 fs _).trans hw),
    rewritePathsJ_body cB fs ord m (fun s hs => habs s (hB.1 ▸ hs))
      ((walkPanics_congr hB.1 hB.2.1 fs _).trans hw), eA, eB]
  exact collect_partition _ _ _ m
    (fun kc _ o ho => rewriteKeyJ_split cfg cA cB fs _ _ kc hA hB (fun a r => hsel a r kc.2) o ho) rep h

end Grcov.Rewrite
