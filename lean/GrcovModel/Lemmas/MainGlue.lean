/-
Helper lemmas about the `MainGlue` model: shape of an accepted plan, the order used by
`--sort-output-types`, destinations inside an output directory.
-/
import GrcovModel.MainGlue
namespace Grcov.MainGlue
open Grcov Grcov.UPath

/-! ### an accepted plan -/

theorem plan_ok {env : Env} {o : Opts} {p : Plan} (h : plan env o = .ok p) :
    ∃ sr ms ob, sourceRoot env o = .ok sr ∧ threadsOf env o ≠ 0 ∧ mappingSrc env o = .ok ms ∧
      outBase env o = .ok ob ∧ p = mkPlan env o sr ms ob := by
  unfold plan at h
  split at h
  · cases h
  · rename_i sr hsr
    split at h
    · cases h
    · rename_i hth
      split at h
      · cases h
      · rename_i ms hms
        split at h
        · cases h
        · rename_i ob hob
          cases h
          exact ⟨sr, ms, ob, hsr, hth, hms, hob, rfl⟩

theorem plan_of_parts {env : Env} {o : Opts} {sr ms ob} (h1 : sourceRoot env o = .ok sr)
    (h2 : threadsOf env o ≠ 0) (h3 : mappingSrc env o = .ok ms) (h4 : outBase env o = .ok ob) :
    plan env o = .ok (mkPlan env o sr ms ob) := by
  simp [plan, h1, h2, h3, h4]

/-- the base handed to `to_file_name` is the `-o` value itself whenever the plan is accepted -/
theorem outBase_ok {env : Env} {o : Opts} {ob} (h : outBase env o = .ok ob) :
    ob = o.rest.outputPath := by
  unfold outBase at h
  split at h
  · cases h; rfl
  · split at h
    · cases h; simp [*]
    · split at h
      · cases h; simp [*]
      · cases h

/-- several types and `-o`: an accepted plan means the path is a directory -/
theorem outBase_multi_isDir {env : Env} {o : Opts} {ob p} (h : outBase env o = .ok ob)
    (hlen : o.outputTypes.length ≠ 1) (hp : o.rest.outputPath = some p) : env.isDir p = true := by
  unfold outBase at h
  split at h
  · rename_i heq; simp [heq] at hlen
  · split at h
    · rename_i hnone; rw [hp] at hnone; cases hnone
    · rename_i q hq
      rw [hp] at hq; cases hq
      split at h
      · assumption
      · cases h

theorem outBase_multi_nondir {env : Env} {o : Opts} {p} (hlen : o.outputTypes.length ≠ 1)
    (hp : o.rest.outputPath = some p) (hd : env.isDir p = false) :
    outBase env o = .error .outputNotDir := by
  unfold outBase
  split
  · rename_i heq; simp [heq] at hlen
  · simp [hp, hd]

theorem sourceRoot_ok_iff {env : Env} {o : Opts} {sr : Option Bytes} :
    sourceRoot env o = .ok sr ↔
      (match o.rest.sourceDir with
       | none => sr = none
       | some s => if s = [] then sr = none else env.canon s = sr ∧ sr.isSome) := by
  unfold sourceRoot
  cases o.rest.sourceDir with
  | none => simp; exact eq_comm
  | some s =>
    by_cases hs : s = []
    · simp [hs]; exact eq_comm
    · simp only [hs, if_false]
      cases hc : env.canon s with
      | none =>
        constructor
        · intro h; cases h
        · intro ⟨h1, h2⟩; subst h1; simp at h2
      | some c =>
        constructor
        · intro h; cases h; simp
        · intro ⟨h1, _⟩; subst h1; rfl

/-! ### an accepted command line -/

theorem parse_ok {r : Raw} {o : Opts} (h : parse r = .ok o) :
    ∃ ts ss flt lvl, parseTypeList r.typeArgs [.lcov] = some ts ∧
      parseTypeList r.sortArgs [.markdown] = some ss ∧
      r.rest.paths ≠ [] ∧ (pathOptions r).contains (some []) = false ∧
      (r.rest.serviceJobId.isSome && r.rest.serviceName.isNone) = false ∧
      (wantsCoveralls ts && r.rest.token.isNone && r.rest.serviceJobId.isNone) = false ∧
      o = { outputTypes := ts, sortOutputTypes := ss, filter := flt
            precision := r.precision.getD 2, vcsBranch := r.vcsBranch.getD bMaster
            log := r.log.getD bStderr, logLevel := lvl, rest := r.rest } := by
  unfold parse at h
  split at h
  · cases h
  · cases h
  · rename_i ts ss hts hss
    split at h
    · cases h
    · rename_i flt _
      split at h
      · cases h
      · rename_i lvl _
        split at h
        · cases h
        · rename_i hp
          split at h
          · cases h
          · rename_i he
            split at h
            · cases h
            · rename_i hj
              split at h
              · cases h
              · rename_i ha
                cases h
                exact ⟨ts, ss, flt, lvl, hts, hss, hp, Bool.eq_false_iff.mpr he, Bool.eq_false_iff.mpr hj,
                  Bool.eq_false_iff.mpr ha, rfl⟩

/-! ### `--sort-output-types`: the order -/

theorem bytesLe_refl : ∀ a : Bytes, bytesLe a a = true
  | [] => rfl
  | x :: xs => by simp [bytesLe, bytesLe_refl xs]

theorem bytesLe_total : ∀ a b : Bytes, bytesLe a b = true ∨ bytesLe b a = true
  | [], _ => .inl rfl
  | _ :: _, [] => .inr rfl
  | x :: xs, y :: ys => by
    unfold bytesLe
    by_cases h1 : x < y
    · simp [h1]
    · by_cases h2 : y < x
      · simp [h2]
      · simp only [h1, h2, if_false]
        exact bytesLe_total xs ys

theorem bytesLe_trans : ∀ a b c : Bytes, bytesLe a b = true → bytesLe b c = true → bytesLe a c = true
  | [], _, _, _, _ => by simp [bytesLe]
  | _ :: _, [], _, h, _ => by simp [bytesLe] at h
  | _ :: _, _ :: _, [], _, h => by simp [bytesLe] at h
  | x :: xs, y :: ys, z :: zs, h1, h2 => by
    unfold bytesLe at h1 h2 ⊢
    by_cases hxy : x < y
    · by_cases hyz : y < z
      · have : x < z := by omega
        simp [this]
      · by_cases hzy : z < y
        · simp [hyz, hzy] at h2
        · have : x < z := by omega
          simp [this]
    · by_cases hyx : y < x
      · simp [hxy, hyx] at h1
      · have hxy' : x = y := by omega
        subst hxy'
        simp only [hxy, if_false] at h1
        by_cases hxz : x < z
        · simp [hxz]
        · by_cases hzx : z < x
          · simp [hxz, hzx] at h2
          · simp only [hxz, hzx, if_false] at h2 ⊢
            exact bytesLe_trans xs ys zs h1 h2

theorem bytesLe_antisymm : ∀ a b : Bytes, bytesLe a b = true → bytesLe b a = true → a = b
  | [], [], _, _ => rfl
  | [], _ :: _, _, h => by simp [bytesLe] at h
  | _ :: _, [], h, _ => by simp [bytesLe] at h
  | x :: xs, y :: ys, h1, h2 => by
    unfold bytesLe at h1 h2
    by_cases hxy : x < y
    · have : ¬ y < x := by omega
      simp [hxy, this] at h2
    · by_cases hyx : y < x
      · simp [hxy, hyx] at h1
      · have : x = y := by omega
        subst this
        simp only [hxy, if_false] at h1 h2
        rw [bytesLe_antisymm xs ys h1 h2]

theorem insertRec_perm (r : Rewrite.Rec) : ∀ l, (insertRec r l).Perm (r :: l)
  | [] => List.Perm.refl _
  | x :: xs => by
    unfold insertRec
    split
    · exact List.Perm.refl _
    · exact ((insertRec_perm r xs).cons x).trans (List.Perm.swap r x xs)

theorem sortRecs_perm : ∀ l : List Rewrite.Rec, (sortRecs l).Perm l
  | [] => List.Perm.refl _
  | x :: xs => by
    show (insertRec x (sortRecs xs)).Perm (x :: xs)
    exact (insertRec_perm x _).trans ((sortRecs_perm xs).cons x)

theorem insertRec_pairwise (r : Rewrite.Rec) : ∀ l : List Rewrite.Rec,
    l.Pairwise (fun a b => bytesLe (sortKey a) (sortKey b) = true) →
    (insertRec r l).Pairwise (fun a b => bytesLe (sortKey a) (sortKey b) = true)
  | [], _ => by simp [insertRec]
  | x :: xs, h => by
    unfold insertRec
    have hx := List.pairwise_cons.mp h
    split
    · rename_i hle
      refine List.pairwise_cons.mpr ⟨?_, h⟩
      intro y hy
      rcases List.mem_cons.mp hy with rfl | hy
      · exact hle
      · exact bytesLe_trans _ _ _ hle (hx.1 y hy)
    · rename_i hnle
      have hxr : bytesLe (sortKey x) (sortKey r) = true := by
        rcases bytesLe_total (sortKey r) (sortKey x) with h1 | h1
        · exact absurd h1 hnle
        · exact h1
      refine List.pairwise_cons.mpr ⟨?_, insertRec_pairwise r xs hx.2⟩
      intro y hy
      have := (insertRec_perm r xs).mem_iff.mp hy
      rcases List.mem_cons.mp this with rfl | hy
      · exact hxr
      · exact hx.1 y hy

theorem sortRecs_pairwise : ∀ l : List Rewrite.Rec,
    (sortRecs l).Pairwise fun a b => bytesLe (sortKey a) (sortKey b) = true
  | [] => List.Pairwise.nil
  | x :: xs => insertRec_pairwise x _ (sortRecs_pairwise xs)

/-- stability: records whose keys are equal keep their relative order (what `sort_by_key`
guarantees), stated for a list that is already ordered: it is left alone -/
theorem sortRecs_of_sorted : ∀ l : List Rewrite.Rec,
    l.Pairwise (fun a b => bytesLe (sortKey a) (sortKey b) = true) → sortRecs l = l
  | [], _ => rfl
  | x :: xs, h => by
    have hx := List.pairwise_cons.mp h
    show insertRec x (sortRecs xs) = x :: xs
    rw [sortRecs_of_sorted xs hx.2]
    cases xs with
    | nil => rfl
    | cons y ys => simp [insertRec, hx.1 y (List.mem_cons_self ..)]

/-! ### destinations inside a directory -/

/-- joining a relative name onto a directory is injective in the name -/
theorem push_rel_inj (d a b : Bytes) (ha : hasRoot a = false) (hb : hasRoot b = false)
    (h : push d a = push d b) : a = b := by
  unfold push at h
  simp only [ha, hb] at h
  by_cases hd : d = []
  · simpa [hd] using h
  · by_cases hl : d.getLast? = some 47
    · simpa [hd, hl] using h
    · simpa [hd, hl] using h

theorem fixedName_rel (t : OutputType) : hasRoot (fixedName t) = false := by
  cases t <;> decide

/-- the table of main.rs 61-73: two types share a file name only if both are cobertura kinds -/
theorem fixedName_eq (a b : OutputType) (h : fixedName a = fixedName b) :
    a = b ∨ (isCoberturaKind a = true ∧ isCoberturaKind b = true) := by
  cases a <;> cases b <;> first | (left; rfl) | (right; exact ⟨rfl, rfl⟩) | (exact absurd h (by decide))

/-- no fixed name contains a separator: a report file is a direct child of the directory, hence
never inside the `html` sub-directory -/
theorem fixedName_no_sep (t : OutputType) : 47 ∉ fixedName t := by
  cases t <;> decide

theorem ofCliName_cliName (t : OutputType) : OutputType.ofCliName t.cliName = some t := by
  cases t <;> decide

theorem cliName_of_ofCliName {s : Bytes} {t : OutputType} (h : OutputType.ofCliName s = some t) :
    t.cliName = s := by
  unfold OutputType.ofCliName at h
  have := List.find?_some h
  simpa using this

end Grcov.MainGlue
