/-
Lemmas for Confine.Dest (C19): `add_html_ext` on a clean relative path only renames the last
segment; destinations are `root ++ q` with `q` enclosed; such paths resolve below the root.
-/
import GrcovModel.Confine.Dest
import GrcovModel.Lemmas.UPath
namespace Grcov.Confine
open Grcov.UPath (Bytes RealName)

/-! ### resolution below a root -/

theorem resolveOnto_append (st : List (List Nat)) (a b : Path) :
    resolveOnto st (a ++ b) = resolveOnto (resolveOnto st a) b := by
  induction a generalizing st with
  | nil => rfl
  | cons c a ih => cases c <;> simp [resolveOnto, ih]

theorem isAbsolute_of_enclosed {q : Path} (h : enclosed q = true) : isAbsolute q = false := by
  cases q with
  | nil => rfl
  | cons c p => cases c <;> simp [isAbsolute]; simp [enclosed, depthFrom] at h

theorem join_of_enclosed (r : Path) {q : Path} (h : enclosed q = true) : join r q = r ++ q := by
  simp [join, isAbsolute_of_enclosed h]

/-- a root followed by a path that never climbs above its start resolves below the root -/
theorem under_append_enclosed (root q : Path) (h : enclosed q = true) : Under root (root ++ q) := by
  unfold Under resolve
  rw [resolveOnto_append]
  simpa using resolveOnto_enclosed (resolveOnto [] root) [] q 0 rfl h

theorem under_refl (root : Path) : Under root root := ⟨[], by simp⟩

theorem depthFrom_append_isSome (d : Nat) (a b : Path) (h : (depthFrom d (a ++ b)).isSome) :
    (depthFrom d a).isSome := by
  induction a generalizing d with
  | nil => simp [depthFrom]
  | cons c a ih =>
    cases c with
    | root => simp [depthFrom] at h
    | cur => exact ih d (by simpa [depthFrom] using h)
    | normal s => exact ih (d + 1) (by simpa [depthFrom] using h)
    | parent =>
      cases d with
      | zero => simp [depthFrom] at h
      | succ d => exact ih d (by simpa [depthFrom] using h)

theorem enclosed_dropLast {q : Path} (h : enclosed q = true) : enclosed q.dropLast = true := by
  unfold enclosed at *
  by_cases hq : q = []
  · subst hq; simp [depthFrom]
  · have := List.dropLast_concat_getLast hq
    rw [← this] at h
    exact depthFrom_append_isSome 0 _ _ h

theorem plain_append {a b : Path} : plain (a ++ b) = (plain a && plain b) := by
  simp [plain, List.all_append]

theorem plain_map_normal (l : List Bytes) : plain (l.map Comp.normal) = true := by
  simp [plain]

theorem renameLast_ne_nil (f : Bytes → Bytes) {p : Path} (h : p ≠ []) : renameLast f p ≠ [] := by
  cases p with
  | nil => exact absurd rfl h
  | cons c p =>
    cases p with
    | nil => cases c <;> simp [renameLast]
    | cons c' p' => cases c <;> simp [renameLast]

theorem parentC_append (root : Path) {q : Path} (h : q ≠ []) : parentC (root ++ q) = root ++ q.dropLast := by
  simp [parentC, List.dropLast_append_of_ne_nil h]

/-- a destination of the shape `root ++ q`, and its parent directory, resolve below the root -/
theorem under_and_parent (root q : Path) (h : enclosed q = true) (hne : q ≠ []) :
    Under root (root ++ q) ∧ Under root (parentC (root ++ q)) := by
  refine ⟨under_append_enclosed root q h, ?_⟩
  rw [parentC_append root hne]
  exact under_append_enclosed root _ (enclosed_dropLast h)

/-! ### names -/

theorem rsplitDot_some {n b a : Bytes} (h : rsplitDot n = some (b, a)) : n = b ++ 46 :: a ∧ 46 ∉ a := by
  induction n generalizing b a with
  | nil => simp [rsplitDot] at h
  | cons c cs ih =>
    rw [rsplitDot] at h
    cases hr : rsplitDot cs with
    | some ba =>
      obtain ⟨b', a'⟩ := ba
      rw [hr] at h
      simp only [Option.some.injEq, Prod.mk.injEq] at h
      obtain ⟨rfl, rfl⟩ := h
      obtain ⟨e, hn⟩ := ih hr
      exact ⟨by rw [e]; rfl, hn⟩
    | none =>
      rw [hr] at h
      by_cases hc : c = 46
      · simp only [hc, if_true, Option.some.injEq, Prod.mk.injEq] at h
        obtain ⟨rfl, rfl⟩ := h
        refine ⟨by simp [hc], ?_⟩
        -- no dot in `cs`, otherwise `rsplitDot cs` were `some`
        clear ih
        induction cs with
        | nil => simp
        | cons d ds ihd =>
          rw [rsplitDot] at hr
          cases hr2 : rsplitDot ds with
          | some x => rw [hr2] at hr; simp at hr
          | none =>
            rw [hr2] at hr
            by_cases hd : d = 46
            · simp [hd] at hr
            · simp only [List.mem_cons, not_or]
              exact ⟨fun e => hd e.symm, ihd hr2⟩
      · simp [hc] at h

theorem rsplitDot_nodot {a : Bytes} (h : 46 ∉ a) : rsplitDot a = none := by
  induction a with
  | nil => rfl
  | cons c cs ih =>
    simp only [List.mem_cons, not_or] at h
    have hc : c ≠ 46 := fun e => h.1 e.symm
    rw [rsplitDot, ih h.2]
    simp [hc]

theorem rsplitDot_build (b : Bytes) {a : Bytes} (h : 46 ∉ a) : rsplitDot (b ++ 46 :: a) = some (b, a) := by
  induction b with
  | nil => simp [rsplitDot, rsplitDot_nodot h]
  | cons c cs ih => simp [rsplitDot, ih]

/-- what `add_html_ext` makes of a real file name -/
def htmlName (n : Bytes) : Bytes :=
  match extOfName n with
  | none => n ++ dotHtml
  | some _ => if dotDotName n then [46, 46] else n ++ dotHtml

theorem stemOfName_of_noext {n : Bytes} (h : extOfName n = none) : stemOfName n = n := by
  unfold extOfName at h
  unfold stemOfName
  by_cases h1 : n = [46, 46]
  · simp [h1]
  · simp only [h1, if_false] at h ⊢
    cases hr : rsplitDot n with
    | none => rfl
    | some ba =>
      obtain ⟨b, a⟩ := ba
      rw [hr] at h
      by_cases hb : b = []
      · simp [hb]
      · simp [hb] at h

theorem extOfName_some {n x : Bytes} (h : extOfName n = some x) :
    ∃ b, b ≠ [] ∧ n = b ++ 46 :: x ∧ 46 ∉ x ∧ n ≠ [46, 46] := by
  unfold extOfName at h
  by_cases h1 : n = [46, 46]
  · simp [h1] at h
  · simp only [h1, if_false] at h
    cases hr : rsplitDot n with
    | none => rw [hr] at h; simp at h
    | some ba =>
      obtain ⟨b, a⟩ := ba
      rw [hr] at h
      by_cases hb : b = []
      · simp [hb] at h
      · simp only [hb, if_false, Option.some.injEq] at h
        subst h
        obtain ⟨e, hn⟩ := rsplitDot_some hr
        exact ⟨b, hb, e, hn, h1⟩

/-! ### segments -/

def pfx (pre : List Bytes) : Bytes := pre.flatMap (· ++ [47])

theorem join_snoc (pre : List Bytes) (n : Bytes) : UPath.join (pre ++ [n]) = pfx pre ++ n := by
  induction pre with
  | nil => simp [UPath.join, pfx]
  | cons s t ih =>
    cases t with
    | nil => simp [UPath.join, pfx]
    | cons t0 ts =>
      have : UPath.join (s :: t0 :: ts ++ [n]) = s ++ 47 :: UPath.join (t0 :: ts ++ [n]) := by
        simp [UPath.join]
      rw [this, ih]
      simp [pfx]

theorem trimR_snoc (l : List Bytes) {m : Bytes} (h : UPath.isSkip m = false) :
    UPath.trimR (l ++ [m]) = l ++ [m] := by
  induction l with
  | nil => simp [UPath.trimR, h]
  | cons s t ih =>
    rw [List.cons_append, UPath.trimR_cons, ih]
    simp

theorem noSlash_of_real {l : List Bytes} (h : ∀ n ∈ l, RealName n) : ∀ s ∈ l, 47 ∉ s :=
  fun s hs => (h s hs).2.1

/-- the file name of `pre/…/m` (clean `pre`, `m` a single non-skipped segment) -/
theorem lastSeg_join (pre : List Bytes) (m : Bytes) (hpre : ∀ n ∈ pre, RealName n)
    (hm : 47 ∉ m) (hsk : UPath.isSkip m = false) :
    lastSeg (UPath.join (pre ++ [m])) = if m = [46, 46] then none else some (pre, m) := by
  have hsp : UPath.split (UPath.join (pre ++ [m])) = pre ++ [m] :=
    UPath.split_join (by simp) (by
      intro s hs
      rcases List.mem_append.1 hs with h | h
      · exact noSlash_of_real hpre s h
      · simp at h; subst h; exact hm)
  unfold lastSeg
  simp only [hsp, trimR_snoc pre hsk]
  simp

theorem isSkip_false_of {m : Bytes} (h1 : m ≠ []) (h2 : m ≠ [46]) : UPath.isSkip m = false := by
  simp [UPath.isSkip, h1, h2]

theorem real_not_skip {n : Bytes} (h : RealName n) : UPath.isSkip n = false :=
  isSkip_false_of h.1 h.2.2.1

/-- `add_html_ext` of a clean relative path renames its last segment to `htmlName` -/
theorem addHtmlExt_clean (pre : List Bytes) (n : Bytes) (hpre : ∀ s ∈ pre, RealName s)
    (hn : RealName n) :
    addHtmlExt (UPath.join (pre ++ [n])) = UPath.join (pre ++ [htmlName n]) := by
  have hls : lastSeg (UPath.join (pre ++ [n])) = some (pre, n) := by
    rw [lastSeg_join pre n hpre hn.2.1 (real_not_skip hn)]; simp [hn.2.2.2]
  have hext : extension (UPath.join (pre ++ [n])) = extOfName n := by simp [extension, hls]
  unfold addHtmlExt htmlName
  rw [hext]
  cases hx : extOfName n with
  | none =>
    simp only [withExtension, hext, hx, setExtension, hls, stemOfName_of_noext hx]
    simp [dotHtml, bHtmlExt]
  | some x =>
    obtain ⟨b, hb, e, hdot, _⟩ := extOfName_some hx
    simp only [withExtension, hext, hx]
    -- the copy without the old extension: `pre/…/b.`
    have hcopy : (UPath.join (pre ++ [n])).take ((UPath.join (pre ++ [n])).length - x.length)
        = UPath.join (pre ++ [b ++ [46]]) := by
      rw [join_snoc, join_snoc, e]
      have : (pfx pre ++ (b ++ 46 :: x)).length - x.length = (pfx pre ++ (b ++ [46])).length := by
        simp; omega
      rw [this]
      have : pfx pre ++ (b ++ 46 :: x) = (pfx pre ++ (b ++ [46])) ++ x := by simp
      rw [this, List.take_left']
      rfl
    rw [hcopy]
    have hb46 : 47 ∉ b ++ [46] := by
      have := hn.2.1
      rw [e] at this
      simp only [List.mem_append, List.mem_cons, not_or] at this ⊢
      exact ⟨this.1, by decide, by simp⟩
    have hsk : UPath.isSkip (b ++ [46]) = false := by
      apply isSkip_false_of
      · simp
      · intro h
        cases b with
        | nil => exact hb rfl
        | cons c cs => cases cs <;> simp at h
    have hls' := lastSeg_join pre (b ++ [46]) hpre hb46 hsk
    by_cases hq : b = [46]
    · -- `..x`: the copy ends in `..`, `set_extension` does nothing
      subst hq
      have hdd : dotDotName n = true := by
        rw [e]
        have hxne : x ≠ [] := by
          intro hx0; subst hx0; exact hn.2.2.2 (by simpa using e)
        simp only [dotDotName, List.cons_append, List.nil_append, Bool.and_eq_true,
          Bool.not_eq_true', List.isEmpty_eq_false_iff, ne_eq, hxne, not_false_eq_true, true_and]
        simpa using hdot
      simp only [setExtension]
      rw [hls']
      simp [hdd]
    · have hne : b ++ [46] ≠ [46, 46] := by
        intro h
        apply hq
        cases b with
        | nil => simp at h
        | cons c cs =>
          cases cs with
          | nil => simpa using h
          | cons d ds => simp at h
      have hdd : dotDotName n = false := by
        cases hd : dotDotName n with
        | false => rfl
        | true =>
          exfalso
          -- `n = ..x'` without a dot in `x'`: its last dot is the second byte
          unfold dotDotName at hd
          match n, hd with
          | 46 :: 46 :: x', hd =>
            simp only [Bool.and_eq_true, Bool.not_eq_true', List.contains_eq_mem,
              decide_eq_false_iff_not] at hd
            have h1 := rsplitDot_build [46] hd.2
            have h2 := rsplitDot_build b hdot
            rw [← e] at h2
            simp only [List.cons_append, List.nil_append] at h1
            rw [h1] at h2
            simp only [Option.some.injEq, Prod.mk.injEq] at h2
            exact hq h2.1.symm
      simp only [setExtension]
      rw [hls']
      simp only [hne, if_false]
      have hstem : stemOfName (b ++ [46]) = b := by
        unfold stemOfName
        simp only [hne, if_false]
        have := rsplitDot_build b (a := []) (by simp)
        rw [this]
        simp [hb]
      rw [hstem, hdd]
      simp [dotHtml, e]

/-! ### clean paths as components -/

theorem toPath_join_real (l : List Bytes) (h : ∀ n ∈ l, RealName n) :
    toPath (UPath.join l) = l.map Comp.normal := by
  unfold toPath
  rw [UPath.components_join (noSlash_of_real h)
    (fun s t e => real_not_skip (h s (by rw [e]; simp)))]
  induction l with
  | nil => rfl
  | cons a t ih =>
    simp only [List.filterMap_cons, UPath.segComp_real (h a (by simp)), List.map_cons, conv]
    rw [ih (fun n hn => h n (by simp [hn]))]

theorem toPath_real {n : Bytes} (h : RealName n) : toPath n = [Comp.normal n] := by
  have := toPath_join_real [n] (by simpa using h)
  simpa [UPath.join] using this

/-- clean `pre`, then `..` -/
theorem toPath_join_dotdot (pre : List Bytes) (h : ∀ n ∈ pre, RealName n) :
    toPath (UPath.join (pre ++ [[46, 46]])) = pre.map Comp.normal ++ [Comp.parent] := by
  unfold toPath
  rw [UPath.components_join]
  · have : (pre ++ [[46, 46]]).filterMap UPath.segComp
        = pre.map UPath.Comp.normal ++ [UPath.Comp.parent] := by
      rw [List.filterMap_append]
      congr 1
      · induction pre with
        | nil => rfl
        | cons a t ih =>
          simp only [List.filterMap_cons, UPath.segComp_real (h a (by simp)), List.map_cons]
          rw [ih (fun n hn => h n (by simp [hn]))]
    rw [this]
    simp [conv, Function.comp_def]
  · intro s hs
    rcases List.mem_append.1 hs with h1 | h1
    · exact noSlash_of_real h s h1
    · simp at h1; subst h1; decide
  · intro s t e
    cases pre with
    | nil => simp at e; rw [← e.1]; decide
    | cons a t' => simp at e; rw [← e.1]; exact real_not_skip (h a (by simp))

theorem realName_append_ext {n ext : Bytes} (hn : RealName n) (he : 47 ∉ ext) : RealName (n ++ ext) := by
  obtain ⟨h1, h2, h3, h4⟩ := hn
  refine ⟨by simp [h1], by simp [h2, he], ?_, ?_⟩
  · intro h
    cases n with
    | nil => exact h1 rfl
    | cons c cs =>
      cases cs with
      | nil => simp at h; exact h3 (by simp [h.1])
      | cons d ds => simp at h
  · intro h
    cases n with
    | nil => exact h1 rfl
    | cons c cs =>
      cases cs with
      | nil =>
        simp at h
        exact h3 (by simp [h.1])
      | cons d ds =>
        cases ds with
        | nil => simp at h; exact h4 (by simp [h.1, h.2.1])
        | cons _ _ => simp at h

theorem realName_htmlName {n : Bytes} (hn : RealName n) (hq : dotDotName n = false) :
    RealName (htmlName n) := by
  unfold htmlName
  cases extOfName n with
  | none => exact realName_append_ext hn (by decide)
  | some x => simp only [hq]; exact realName_append_ext hn (by decide)

/-- `Path::file_name` is a real name (a single `Normal` component) whenever it exists -/
theorem fileName_real {p n : Bytes} (h : fileName p = some n) : RealName n := by
  unfold fileName lastSeg at h
  simp only at h
  cases hl : (UPath.trimR (UPath.split p)).getLast? with
  | none => rw [hl] at h; simp at h
  | some s =>
    rw [hl] at h
    by_cases hs : s = [46, 46]
    · simp [hs] at h
    · simp only [hs, if_false, Option.map_some, Option.some.injEq] at h
      subst h
      have hmem : s ∈ UPath.trimR (UPath.split p) := List.mem_of_getLast? hl
      have hsplit := UPath.trimR_subset _ s hmem
      have hslash := UPath.mem_split_noSlash hsplit
      -- the last segment kept by `trimR` is not skipped
      have hnsk : UPath.isSkip s = false := by
        have key : ∀ l : List Bytes, ∀ x, (UPath.trimR l).getLast? = some x → UPath.isSkip x = false := by
          intro l
          induction l with
          | nil => intro x hx; simp [UPath.trimR] at hx
          | cons a t ih =>
            intro x hx
            rw [UPath.trimR_cons] at hx
            by_cases ht : UPath.trimR t = []
            · simp only [ht, if_true] at hx
              by_cases ha : UPath.isSkip a = true
              · simp [ha] at hx
              · simp only [ha] at hx
                simp at hx; subst hx; simpa using ha
            · simp only [ht, if_false] at hx
              rw [List.getLast?_cons_of_ne_nil ht] at hx
              exact ih x hx
        exact key _ s hl
      simp only [UPath.isSkip, Bool.or_eq_false_iff, decide_eq_false_iff_not] at hnsk
      exact ⟨hnsk.1, hslash, hnsk.2, hs⟩

/-- `Path::parent` of a clean relative path with at least one name -/
theorem parent_clean (pre : List Bytes) (n : Bytes) (hpre : ∀ s ∈ pre, RealName s) (hn : RealName n) :
    UPath.parent (UPath.join (pre ++ [n])) = some (UPath.join pre) := by
  have hall : ∀ s ∈ pre ++ [n], RealName s := by
    intro s hs
    rcases List.mem_append.1 hs with h | h
    · exact hpre s h
    · simp at h; subst h; exact hn
  have hsp : UPath.split (UPath.join (pre ++ [n])) = pre ++ [n] :=
    UPath.split_join (by simp) (noSlash_of_real hall)
  have htr : UPath.trimR (pre ++ [n]) = pre ++ [n] := UPath.trimR_all_real hall
  have htr2 : UPath.trimR pre = pre := UPath.trimR_all_real hpre
  unfold UPath.parent
  rw [hsp]
  obtain ⟨s0, t, hp⟩ : ∃ s0 t, pre ++ [n] = s0 :: t := by
    cases h : pre ++ [n] with
    | nil => simp at h
    | cons s0 t => exact ⟨s0, t, rfl⟩
  have hs0 : RealName s0 := hall s0 (by rw [hp]; simp)
  have hroot : UPath.hasRoot (UPath.join (s0 :: t)) = false := by
    unfold UPath.hasRoot
    simpa using UPath.head_join_ne_slash hs0.1 hs0.2.1
  have hdl : (s0 :: t).dropLast = pre := by rw [← hp]; simp
  rw [hp] at htr ⊢
  simp only [hroot, Bool.false_eq_true, if_false, hs0.2.2.1, htr, hdl, htr2]

/-! ### helpers of Props/C19Dest -/

theorem enc1 (a : Bytes) : enclosed [Comp.normal a] = true := rfl
theorem enc2 (a b : Bytes) : enclosed [Comp.normal a, Comp.normal b] = true := rfl

theorem under_iff_prefix (root p : Path) : Under root p ↔ resolve root <+: resolve p := by
  unfold Under
  constructor <;> rintro ⟨t, h⟩ <;> exact ⟨t, h.symm⟩

instance (root p : Path) : Decidable (Under root p) := decidable_of_iff _ (under_iff_prefix root p).symm

theorem zipEntryDest_under (tmp entry : Path) (f : Bytes → Bytes) (h : enclosed entry = true)
    (hne : entry ≠ []) :
    Under tmp (zipEntryDest tmp entry f) ∧ Under tmp (parentC (zipEntryDest tmp entry f)) := by
  have hd : enclosed (renameLast f entry) = true := by
    unfold enclosed; rw [depthFrom_renameLast]; exact h
  unfold zipEntryDest
  rw [join_of_enclosed _ hd]
  exact under_and_parent tmp _ hd (renameLast_ne_nil f hne)

theorem workerDir_eq (tmp : Path) (i : Nat) : workerDir tmp i = tmp ++ [Comp.normal (dec i)] :=
  join_of_enclosed _ (enc1 _)


end Grcov.Confine
