/-
C14, part TextCost – lemmas about the cost view of the lcov byte machine (`Lcov/Cost.lean`).

Shape of every argument: a local inequality for ONE step (`step_credit`, `step_nameLen`,
`applyEv_entries`, `applyEv_slots`, `applyEv_nameBytes`, …), then induction over the input bytes.
-/
import GrcovModel.Lcov.Cost
import GrcovModel.Lemmas.TextCostBase
namespace Grcov.Lcov
open Grcov AList Grcov.TextCost Grcov.Size

/-! ### `step` = control transition + the operation `evt` -/

theorem step_acc (branch : Bool) (s : St) (b : Nat) :
    (step branch s b).acc = applyEv s.acc (evt s b) := by
  obtain ⟨ctl, a⟩ := s
  cases ctl <;> simp only [step, evt, applyEv]
  all_goals (repeat' split)
  all_goals first | rfl | (simp_all; done) | skip

theorem step_halt (branch : Bool) (s : St) (b : Nat) (h : s.ctl.isHalt = true) :
    step branch s b = s := by
  obtain ⟨ctl, a⟩ := s
  cases ctl <;> simp [Ctl.isHalt] at h
  simp [step]

theorem evt_halt (s : St) (b : Nat) (h : s.ctl.isHalt = true) : evt s b = .nop := by
  obtain ⟨ctl, a⟩ := s
  cases ctl <;> simp [Ctl.isHalt] at h
  simp [evt]

theorem run_halt (branch : Bool) (s : St) (bs : Bytes) (h : s.ctl.isHalt = true) :
    run branch s bs = s := by
  induction bs with
  | nil => rfl
  | cons b bs ih => simp only [run, List.foldl_cons, step_halt branch s b h] at ih ⊢; exact ih

theorem run_cons (branch : Bool) (s : St) (b : Nat) (bs : Bytes) :
    run branch s (b :: bs) = run branch (step branch s b) bs := rfl

/-! ### one operation per line -/

/-- how many operations the machine can still perform before it must consume a line end -/
def credit : Ctl → Nat
  | .skip => 0
  | .halt _ => 0
  | _ => 1

theorem credit_le_one (c : Ctl) : credit c ≤ 1 := by cases c <;> simp [credit]

def opN (e : Ev) : Nat := e.isOp.toNat
def eolN (b : Nat) : Nat := (isEol b).toNat

theorem eolN_of {b : Nat} (h : b = 10 ∨ b = 13) : eolN b = 1 := by
  rcases h with h | h <;> simp [h, eolN, isEol, LF, CR]

theorem step_credit (branch : Bool) (s : St) (b : Nat) :
    opN (evt s b) + credit (step branch s b).ctl ≤ eolN b + credit s.ctl := by
  obtain ⟨ctl, a⟩ := s
  have hle := credit_le_one (step branch ⟨ctl, a⟩ b).ctl
  by_cases hop : evt ⟨ctl, a⟩ b = .nop
  · rw [hop]
    cases ctl
    case skip =>
      simp only [step]
      split <;> simp_all [opN, eolN, credit, isEol, Ev.isOp, LF]
    case halt o => simp [step, opN, Ev.isOp, credit]
    all_goals
      simp only [credit, opN, Ev.isOp, Bool.toNat_false] at *
      omega
  · clear hle
    cases ctl <;> simp only [evt] at hop <;> try contradiction
    all_goals
      simp only [step, evt] at hop ⊢
      repeat' split
      all_goals first
        | (simp_all [opN, eolN, credit, isEol, Ev.isOp, LF, CR]; done)
        | (rename_i h; simp [opN, credit, Ev.isOp, eolN_of (by simpa [LF, CR] using h)])

theorem eols_cons (b : Nat) (bs : Bytes) : eols (b :: bs) = eolN b + eols bs := by
  unfold eols eolN
  by_cases h : isEol b = true <;> simp [h] ; omega

theorem eols_le_length (bs : Bytes) : eols bs ≤ bs.length := List.length_filter_le _ _

theorem trace_cons (branch : Bool) (s : St) (b : Nat) (bs : Bytes) :
    trace branch s (b :: bs)
      = if (evt s b).isOp then evt s b :: trace branch (step branch s b) bs
        else trace branch (step branch s b) bs := rfl

theorem isOp_false {e : Ev} (h : ¬ e.isOp = true) : e = .nop := by
  cases e <;> simp_all [Ev.isOp]

theorem trace_length_le (branch : Bool) (s : St) (bs : Bytes) :
    (trace branch s bs).length ≤ eols bs + credit s.ctl := by
  induction bs generalizing s with
  | nil => simp [trace]
  | cons b bs ih =>
    have h1 := step_credit branch s b
    have h2 := ih (step branch s b)
    rw [eols_cons, trace_cons]
    by_cases hop : (evt s b).isOp = true
    · simp only [hop, if_true, List.length_cons]
      simp only [opN, hop, Bool.toNat_true] at h1
      omega
    · simp only [hop]
      simp only [opN, hop, Bool.toNat_false] at h1
      simp at h1 ⊢
      omega

/-! ### names: every input byte belongs to at most one name -/

def Ev.nameLen : Ev → Nat
  | .file nm => nm.length
  | .fn _ nm => nm.length
  | .fnda _ nm => nm.length
  | _ => 0

def ctlNameLen : Ctl → Nat
  | .sfName nm => nm.length
  | .fnName _ nm => nm.length
  | .fndaName _ nm => nm.length
  | _ => 0

theorem ctlNameLen_digitsStep (bound r b : Nat) (cont done : Nat → Ctl)
    (hc : ∀ n, ctlNameLen (cont n) = 0) (hd : ∀ n, ctlNameLen (done n) = 0) :
    ctlNameLen (digitsStep bound r b cont done) = 0 := by
  unfold digitsStep
  split
  · split
    · exact hc _
    · rfl
  · exact hd _

theorem ctlNameLen_afterKey (branch : Bool) (k : Nat) : ctlNameLen (afterKey branch k) = 0 := by
  unfold afterKey
  repeat' split
  all_goals rfl

theorem step_nameLen (branch : Bool) (s : St) (b : Nat) :
    (evt s b).nameLen + ctlNameLen (step branch s b).ctl ≤ 1 + ctlNameLen s.ctl := by
  obtain ⟨ctl, a⟩ := s
  cases ctl <;> simp only [step, evt]
  all_goals (repeat' split)
  all_goals first
    | (simp [Ev.nameLen, ctlNameLen, invalidRecord]; done)
    | (simp [Ev.nameLen, ctlNameLen]; omega)
    | (simp only [Ev.nameLen, ctlNameLen_afterKey]; simp; done)
    | (simp only [Ev.nameLen]; rw [ctlNameLen_digitsStep] <;> simp [ctlNameLen])

def traceNameBytes (t : List Ev) : Nat := (t.map Ev.nameLen).sum

theorem traceNameBytes_le (branch : Bool) (s : St) (bs : Bytes) :
    traceNameBytes (trace branch s bs) ≤ bs.length + ctlNameLen s.ctl := by
  induction bs generalizing s with
  | nil => simp [trace, traceNameBytes]
  | cons b bs ih =>
    have h1 := step_nameLen branch s b
    have h2 := ih (step branch s b)
    rw [trace_cons]
    by_cases hop : (evt s b).isOp = true
    · simp only [hop, if_true, traceNameBytes, List.map_cons, List.sum_cons, List.length_cons] at h2 ⊢
      omega
    · have : (evt s b).nameLen = 0 := by rw [isOp_false hop]; rfl
      simp only [hop, traceNameBytes, List.length_cons] at h2 ⊢
      simp at h2 ⊢
      omega

theorem utf8LossyAux_length (fuel : Nat) (bs : Bytes) :
    (utf8LossyAux fuel bs).length ≤ 3 * bs.length := by
  fun_induction utf8LossyAux fuel bs <;> simp_all [FFFD] <;> omega

/-- `from_utf8_lossy` at most triples a name (one invalid byte becomes the three bytes of U+FFFD) -/
theorem utf8Lossy_length (bs : Bytes) : (utf8Lossy bs).length ≤ 3 * bs.length :=
  utf8LossyAux_length _ _

/-! ### entries -/

theorem resEntries_append (rs : List (Bytes × Cov)) (r : Bytes × Cov) :
    resEntries (rs ++ [r]) = resEntries rs + covEntries r.2 := by
  simp [resEntries]

theorem addBranch_length_le (m : List (Nat × List Bool)) (l no : Nat) (t : Bool) :
    (addBranch m l no t).length ≤ m.length + 1 := by
  unfold addBranch
  repeat' split
  all_goals exact length_set_le _ _ _

theorem applyEv_entries (a : Acc) (ev : Ev) : accEntries (applyEv a ev) ≤ accEntries a + opN ev := by
  cases ev with
  | nop => simp [applyEv, opN, Ev.isOp]
  | file nm => simp [applyEv, accEntries, opN, Ev.isOp]
  | line l c =>
    have := length_set_le a.cur.lines l (satAdd ((get? a.cur.lines l).getD 0) c)
    simp only [applyEv, commitLine, accEntries, covEntries, opN, Ev.isOp, Bool.toNat_true]
    omega
  | fn st nm =>
    have h1 := length_set_le a.cur.functions (utf8Lossy nm) ⟨st, (get? a.pending (utf8Lossy nm)).getD false⟩
    have h2 := length_erase_le a.pending (utf8Lossy nm)
    simp only [applyEv, commitFn, accEntries, covEntries, opN, Ev.isOp, Bool.toNat_true]
    omega
  | fnda n nm =>
    simp only [applyEv, commitFnda, opN, Ev.isOp, Bool.toNat_true]
    split
    · next f hf =>
      have := length_set_of_some a.cur.functions (utf8Lossy nm) { f with executed := f.executed || decide (n ≠ 0) }
        (by simp [hf])
      simp only [accEntries, covEntries]
      omega
    · have := length_set_le a.pending (utf8Lossy nm) ((get? a.pending (utf8Lossy nm)).getD false || decide (n ≠ 0))
      simp only [accEntries, covEntries]
      omega
  | branch l no t =>
    have := addBranch_length_le a.cur.branches l no t
    simp only [applyEv, commitBranch, accEntries, covEntries, opN, Ev.isOp, Bool.toNat_true]
    omega
  | endRec =>
    simp only [applyEv, accEntries, resEntries_append, List.length_append, List.length_singleton,
      opN, Ev.isOp, Bool.toNat_true]
    simp [covEntries]
    omega

theorem run_entries (branch : Bool) (s : St) (bs : Bytes) :
    accEntries (run branch s bs).acc ≤ accEntries s.acc + (trace branch s bs).length := by
  induction bs generalizing s with
  | nil => simp [run, trace]
  | cons b bs ih =>
    have h1 := applyEv_entries s.acc (evt s b)
    have h2 := ih (step branch s b)
    rw [step_acc] at h2
    rw [run_cons, trace_cons]
    by_cases hop : (evt s b).isOp = true
    · simp only [hop, if_true, List.length_cons]
      simp only [opN, hop, Bool.toNat_true] at h1
      omega
    · simp only [hop]
      simp only [opN, hop, Bool.toNat_false] at h1
      simp at h1 ⊢
      omega

/-! ### branch slots: exact accounting -/

theorem sumLen_eq {κ : Type} (m : List (κ × List Bool)) :
    sumLen m = wsum (fun kv => kv.2.length) m := rfl

theorem resSlots_append (rs : List (Bytes × Cov)) (r : Bytes × Cov) :
    resSlots (rs ++ [r]) = resSlots rs + covSlots r.2 := by
  simp [resSlots]

theorem addBranch_slots (m : List (Nat × List Bool)) (l no : Nat) (t : Bool) :
    sumLen (addBranch m l no t) = sumLen m + growth m l no := by
  unfold addBranch growth
  cases hg : get? m l with
  | none =>
    have := wsum_set (fun kv : Nat × List Bool => kv.2.length) m l (List.replicate no false ++ [t])
    simp only [hg] at this
    simp only [sumLen_eq]
    simp at this ⊢
    omega
  | some v =>
    simp only
    by_cases h1 : no = v.length
    · have := wsum_set (fun kv : Nat × List Bool => kv.2.length) m l (v ++ [t])
      simp only [hg] at this
      simp only [h1, if_true, sumLen_eq]
      simp at this ⊢
      omega
    · by_cases h2 : no > v.length
      · have := wsum_set (fun kv : Nat × List Bool => kv.2.length) m l
          (v ++ List.replicate (no - v.length) false ++ [t])
        simp only [hg] at this
        simp only [h1, h2, if_true, if_false, sumLen_eq]
        have h3 : ¬ no < v.length := by omega
        simp [h3] at this ⊢
        omega
      · have := wsum_set (fun kv : Nat × List Bool => kv.2.length) m l (v.set no (v.getD no false || t))
        simp only [hg] at this
        simp only [h1, h2, if_false, sumLen_eq]
        have h3 : no < v.length := by omega
        simp [h3] at this ⊢
        omega

theorem growth_le (m : List (Nat × List Bool)) (l no : Nat) : growth m l no ≤ no + 1 := by
  unfold growth
  repeat' split
  all_goals omega

theorem applyEv_slots (a : Acc) (ev : Ev) :
    accSlots (applyEv a ev) = accSlots a + (evCost a ev).grown := by
  cases ev with
  | nop => simp [applyEv, evCost]
  | file nm => simp [applyEv, evCost, accSlots]
  | line l c => simp [applyEv, evCost, accSlots, commitLine, covSlots]
  | fn st nm => simp [applyEv, evCost, accSlots, commitFn, covSlots]
  | fnda n nm =>
    simp only [applyEv, evCost, commitFnda]
    split <;> simp [accSlots, covSlots, *]
  | branch l no t =>
    simp only [applyEv, evCost, commitBranch, accSlots, covSlots, addBranch_slots]
    omega
  | endRec =>
    simp only [applyEv, evCost, accSlots, resSlots_append]
    simp [covSlots, sumLen]

/-! ### cost of a run -/

theorem costFrom_cons (branch : Bool) (s : St) (b : Nat) (bs : Bytes) :
    costFrom branch s (b :: bs) = (stepCost s b).add (costFrom branch (step branch s b) bs) := rfl

theorem costFrom_halt (branch : Bool) (s : St) (bs : Bytes) (h : s.ctl.isHalt = true) :
    costFrom branch s bs = {} := by
  induction bs with
  | nil => rfl
  | cons b bs ih =>
    rw [costFrom_cons, step_halt branch s b h, ih]
    simp [stepCost, h, Cost.add]

theorem stepCost_next_le (s : St) (b : Nat) : (stepCost s b).next ≤ 1 := by
  unfold stepCost
  split
  · simp
  · cases h : evt s b <;> simp [evCost, Cost.add]
    split <;> simp

theorem stepCost_next_eq (s : St) (b : Nat) (h : s.ctl.isHalt = false) : (stepCost s b).next = 1 := by
  unfold stepCost
  simp only [h]
  cases h : evt s b <;> simp [evCost, Cost.add]
  split <;> simp

theorem costFrom_next_le (branch : Bool) (s : St) (bs : Bytes) :
    (costFrom branch s bs).next ≤ bs.length := by
  induction bs generalizing s with
  | nil => simp [costFrom]
  | cons b bs ih =>
    have h1 := stepCost_next_le s b
    have h2 := ih (step branch s b)
    simp only [costFrom_cons, Cost.add, List.length_cons]
    omega

theorem costFrom_next_eq (branch : Bool) (s : St) (bs : Bytes)
    (h : (run branch s bs).ctl.isHalt = false) : (costFrom branch s bs).next = bs.length := by
  induction bs generalizing s with
  | nil => simp [costFrom]
  | cons b bs ih =>
    have hs : s.ctl.isHalt = false := by
      cases hh : s.ctl.isHalt
      · rfl
      · rw [run_halt branch s _ hh] at h; rw [hh] at h; cases h
    have h1 := stepCost_next_eq s b hs
    have h2 := ih (step branch s b) (by rwa [run_cons] at h)
    simp only [costFrom_cons, Cost.add, List.length_cons]
    omega

/-- a cost component that is additive and bounded per operation is bounded by the sum over the
trace -/
theorem costFrom_le (g : Cost → Nat) (hadd : ∀ x y, g (x.add y) = g x + g y) (h0 : g {} = 0)
    (htick : g { next := 1 } = 0) (f : Ev → Nat) (hle : ∀ a ev, g (evCost a ev) ≤ f ev)
    (branch : Bool) (s : St) (bs : Bytes) :
    g (costFrom branch s bs) ≤ ((trace branch s bs).map f).sum := by
  induction bs generalizing s with
  | nil => simp [costFrom, trace, h0]
  | cons b bs ih =>
    have h2 := ih (step branch s b)
    rw [costFrom_cons, hadd, trace_cons]
    have h1 : g (stepCost s b) ≤ if (evt s b).isOp then f (evt s b) else 0 := by
      unfold stepCost
      split
      · simp [h0]
      · rw [hadd, htick]
        by_cases hop : (evt s b).isOp = true
        · simp only [hop, if_true]; exact hle _ _
        · rw [isOp_false hop]; simp [evCost, h0, Ev.isOp]
    by_cases hop : (evt s b).isOp = true
    · simp only [hop, if_true, List.map_cons, List.sum_cons] at h1 ⊢
      omega
    · simp only [hop] at h1 ⊢
      simp at h1 ⊢
      omega

theorem sum_map_le_mul {α : Type} (l : List α) (f : α → Nat) (B : Nat) (h : ∀ x ∈ l, f x ≤ B) :
    (l.map f).sum ≤ B * l.length := by
  induction l with
  | nil => simp
  | cons x l ih =>
    have h1 := h x (by simp)
    have h2 := ih (fun y hy => h y (List.mem_cons_of_mem _ hy))
    simp only [List.map_cons, List.sum_cons, List.length_cons, Nat.mul_succ]
    omega

theorem evCost_mapOps_le (a : Acc) (ev : Ev) : (evCost a ev).mapOps ≤ 3 := by
  cases ev <;> simp [evCost]
  split <;> simp

theorem evCost_keyBytes_le (a : Acc) (ev : Ev) : (evCost a ev).keyBytes ≤ 9 * ev.nameLen := by
  cases ev <;> simp [evCost, Ev.nameLen]
  · rename_i st nm; have := utf8Lossy_length nm; omega
  · rename_i n nm; have := utf8Lossy_length nm; split <;> simp <;> omega

theorem evCost_copied_le (a : Acc) (ev : Ev) : (evCost a ev).copied ≤ 4 * ev.nameLen := by
  cases ev <;> simp [evCost, Ev.nameLen]
  · rename_i nm; have := utf8Lossy_length nm; omega
  · rename_i st nm; have := utf8Lossy_length nm; omega
  · rename_i n nm; have := utf8Lossy_length nm; split <;> simp <;> omega

/-- slots an operation may write at most: `no + 1` for an `add_branch(_, _, no, _)` -/
def Ev.maxGrowth : Ev → Nat
  | .branch _ no _ => no + 1
  | _ => 0

theorem evCost_grown_le (a : Acc) (ev : Ev) : (evCost a ev).grown ≤ ev.maxGrowth := by
  cases ev <;> simp [evCost, Ev.maxGrowth]
  · split <;> simp
  · exact growth_le _ _ _

theorem costFrom_mapOps_le (branch : Bool) (s : St) (bs : Bytes) :
    (costFrom branch s bs).mapOps ≤ 3 * (trace branch s bs).length := by
  have := costFrom_le (fun c => c.mapOps) (by simp [Cost.add]) rfl rfl (fun _ => 3)
    (fun a ev => evCost_mapOps_le a ev) branch s bs
  refine Nat.le_trans this ?_
  exact sum_map_le_mul _ _ 3 (fun _ _ => Nat.le_refl _)

theorem costFrom_keyBytes_le (branch : Bool) (s : St) (bs : Bytes) :
    (costFrom branch s bs).keyBytes ≤ 9 * traceNameBytes (trace branch s bs) := by
  have := costFrom_le (fun c => c.keyBytes) (by simp [Cost.add]) rfl rfl (fun ev => 9 * ev.nameLen)
    (fun a ev => evCost_keyBytes_le a ev) branch s bs
  refine Nat.le_trans this ?_
  unfold traceNameBytes
  generalize trace branch s bs = t
  induction t with
  | nil => simp
  | cons e t ih => simp only [List.map_cons, List.sum_cons]; omega

theorem costFrom_copied_le (branch : Bool) (s : St) (bs : Bytes) :
    (costFrom branch s bs).copied ≤ 4 * traceNameBytes (trace branch s bs) := by
  have := costFrom_le (fun c => c.copied) (by simp [Cost.add]) rfl rfl (fun ev => 4 * ev.nameLen)
    (fun a ev => evCost_copied_le a ev) branch s bs
  refine Nat.le_trans this ?_
  unfold traceNameBytes
  generalize trace branch s bs = t
  induction t with
  | nil => simp
  | cons e t ih => simp only [List.map_cons, List.sum_cons]; omega

theorem maxGrowth_sum (t : List Ev) :
    (t.map Ev.maxGrowth).sum = ((branchCalls t).map fun c => c.2 + 1).sum := by
  induction t with
  | nil => rfl
  | cons e t ih => cases e <;> simp [branchCalls, Ev.maxGrowth, ih]

theorem costFrom_grown_le (branch : Bool) (s : St) (bs : Bytes) :
    (costFrom branch s bs).grown ≤ ((branchCalls (trace branch s bs)).map fun c => c.2 + 1).sum := by
  have := costFrom_le (fun c => c.grown) (by simp [Cost.add]) rfl rfl Ev.maxGrowth
    (fun a ev => evCost_grown_le a ev) branch s bs
  rwa [maxGrowth_sum] at this

theorem branchCalls_length_le (t : List Ev) : (branchCalls t).length ≤ t.length := by
  induction t with
  | nil => simp [branchCalls]
  | cons e t ih => cases e <;> simp [branchCalls] <;> omega

/-- the slots of the accumulator are exactly what `add_branch` wrote -/
theorem run_slots (branch : Bool) (s : St) (bs : Bytes) :
    accSlots (run branch s bs).acc = accSlots s.acc + (costFrom branch s bs).grown := by
  induction bs generalizing s with
  | nil => simp [run, costFrom]
  | cons b bs ih =>
    rw [run_cons, ih, costFrom_cons, step_acc, applyEv_slots]
    unfold stepCost
    by_cases hh : s.ctl.isHalt = true
    · simp [hh, evt_halt s b hh, evCost, Cost.add]
    · simp only [hh]
      simp [Cost.add]
      omega

/-! ### name bytes -/

def keyLen {α : Type} (m : List (Bytes × α)) : Nat := wsum (fun kv => kv.1.length) m

def accNameBytes (a : Acc) : Nat :=
  resNameBytes a.results + (a.curFile.map List.length).getD 0 + keyLen a.cur.functions + keyLen a.pending

theorem resNameBytes_append (rs : List (Bytes × Cov)) (r : Bytes × Cov) :
    resNameBytes (rs ++ [r]) = resNameBytes rs + (r.1.length + keyLen r.2.functions) := by
  simp [resNameBytes, keyLen, wsum]

theorem applyEv_nameBytes (a : Acc) (ev : Ev) :
    accNameBytes (applyEv a ev) ≤ accNameBytes a + 3 * ev.nameLen := by
  cases ev with
  | nop => simp [applyEv]
  | file nm =>
    have := utf8Lossy_length nm
    simp only [applyEv, accNameBytes, Ev.nameLen, Option.map_some, Option.getD_some]
    omega
  | line l c => simp [applyEv, commitLine, accNameBytes]
  | fn st nm =>
    have h0 := utf8Lossy_length nm
    have h1 := wsum_set_le (fun kv : Bytes × Fn => kv.1.length) a.cur.functions (utf8Lossy nm)
      ⟨st, (get? a.pending (utf8Lossy nm)).getD false⟩
    have h2 := wsum_erase_le (fun kv : Bytes × Bool => kv.1.length) a.pending (utf8Lossy nm)
    simp only [applyEv, commitFn, accNameBytes, keyLen, Ev.nameLen] at *
    omega
  | fnda n nm =>
    have h0 := utf8Lossy_length nm
    simp only [applyEv, commitFnda, Ev.nameLen]
    split
    · next f hf =>
      have h1 := wsum_set_le (fun kv : Bytes × Fn => kv.1.length) a.cur.functions (utf8Lossy nm)
        { f with executed := f.executed || decide (n ≠ 0) }
      simp only [accNameBytes, keyLen] at *
      omega
    · have h1 := wsum_set_le (fun kv : Bytes × Bool => kv.1.length) a.pending (utf8Lossy nm)
        ((get? a.pending (utf8Lossy nm)).getD false || decide (n ≠ 0))
      simp only [accNameBytes, keyLen] at *
      omega
  | branch l no t => simp [applyEv, commitBranch, accNameBytes]
  | endRec =>
    simp only [applyEv, accNameBytes, resNameBytes_append, Ev.nameLen]
    cases a.curFile <;> simp [keyLen] <;> omega

theorem run_nameBytes (branch : Bool) (s : St) (bs : Bytes) :
    accNameBytes (run branch s bs).acc ≤ accNameBytes s.acc + 3 * traceNameBytes (trace branch s bs) := by
  induction bs generalizing s with
  | nil => simp [run, trace, traceNameBytes]
  | cons b bs ih =>
    have h1 := applyEv_nameBytes s.acc (evt s b)
    have h2 := ih (step branch s b)
    rw [step_acc] at h2
    rw [run_cons, trace_cons]
    by_cases hop : (evt s b).isOp = true
    · simp only [hop, if_true, traceNameBytes, List.map_cons, List.sum_cons] at h2 ⊢
      omega
    · have h3 : (evt s b).nameLen = 0 := by rw [isOp_false hop]; rfl
      simp only [hop, traceNameBytes] at h2 ⊢
      simp at h2 ⊢
      omega

/-! ### properties of every section (open or finished) -/

def AccAll (P : Cov → Prop) (a : Acc) : Prop := P a.cur ∧ ∀ r ∈ a.results, P r.2

theorem applyEv_all (P : Cov → Prop) (a : Acc) (ev : Ev)
    (hstep : P a.cur → P (applyEv a ev).cur) (h : AccAll P a) : AccAll P (applyEv a ev) := by
  refine ⟨hstep h.1, ?_⟩
  cases ev with
  | endRec =>
    intro r hr
    simp only [applyEv, List.mem_append, List.mem_singleton] at hr
    rcases hr with hr | hr
    · exact h.2 r hr
    · subst hr; exact h.1
  | fnda n nm =>
    simp only [applyEv, commitFnda]
    split <;> exact h.2
  | _ => exact h.2

/-- a property of the open section that `{}` has and every traced operation with `Q` preserves
holds for every section after the run -/
theorem run_all (P : Cov → Prop) (Q : Ev → Prop)
    (hstep : ∀ a ev, Q ev → P a.cur → P (applyEv a ev).cur)
    (branch : Bool) (s : St) (bs : Bytes) (hq : ∀ ev ∈ trace branch s bs, Q ev)
    (h : AccAll P s.acc) : AccAll P (run branch s bs).acc := by
  induction bs generalizing s with
  | nil => exact h
  | cons b bs ih =>
    rw [run_cons]
    rw [trace_cons] at hq
    by_cases hop : (evt s b).isOp = true
    · simp only [hop, if_true, List.mem_cons] at hq
      apply ih
      · intro ev hev; exact hq ev (Or.inr hev)
      · rw [step_acc]
        exact applyEv_all P s.acc _ (hstep _ _ (hq _ (Or.inl rfl))) h
    · simp only [hop] at hq
      apply ih
      · intro ev hev; exact hq ev (by simpa using hev)
      · rw [step_acc, isOp_false hop]; exact h

/-- counts: `saturating_add` keeps every line count below 2^64 -/
def CountsFit (c : Cov) : Prop := ∀ kv ∈ c.lines, kv.2 ≤ U64MAX

theorem applyEv_countsFit (a : Acc) (ev : Ev) (h : CountsFit a.cur) : CountsFit (applyEv a ev).cur := by
  cases ev with
  | line l c =>
    intro kv hkv
    simp only [applyEv, commitLine] at hkv
    rcases mem_set hkv with h1 | h1
    · exact h kv h1
    · subst h1; exact satAdd_le _ _
  | fnda n nm =>
    simp only [applyEv, commitFnda]
    split <;> exact h
  | endRec => intro kv hkv; simp [applyEv] at hkv
  | _ => exact h

/-- branch vectors: no longer than the largest branch number seen, plus one -/
def VecsLe (M : Nat) (c : Cov) : Prop := ∀ kv ∈ c.branches, kv.2.length ≤ M + 1

theorem addBranch_vecsLe (M : Nat) (m : List (Nat × List Bool)) (l no : Nat) (t : Bool) (hno : no ≤ M)
    (h : ∀ kv ∈ m, kv.2.length ≤ M + 1) : ∀ kv ∈ addBranch m l no t, kv.2.length ≤ M + 1 := by
  intro kv hkv
  unfold addBranch at hkv
  cases hg : get? m l with
  | none =>
    simp only [hg] at hkv
    rcases mem_set hkv with h1 | h1
    · exact h kv h1
    · subst h1; simp; omega
  | some v =>
    have hv := h (l, v) (get?_mem hg)
    simp only [hg] at hkv
    split at hkv
    · rcases mem_set hkv with h1 | h1
      · exact h kv h1
      · subst h1; simp at hv ⊢; omega
    · split at hkv
      · rcases mem_set hkv with h1 | h1
        · exact h kv h1
        · subst h1; simp at hv ⊢; omega
      · rcases mem_set hkv with h1 | h1
        · exact h kv h1
        · subst h1; simpa using hv

def Ev.noLe (M : Nat) : Ev → Prop
  | .branch _ no _ => no ≤ M
  | _ => True

theorem applyEv_vecsLe (M : Nat) (a : Acc) (ev : Ev) (hq : ev.noLe M) (h : VecsLe M a.cur) :
    VecsLe M (applyEv a ev).cur := by
  cases ev with
  | branch l no t => exact addBranch_vecsLe M _ l no t hq h
  | fnda n nm =>
    simp only [applyEv, commitFnda]
    split <;> exact h
  | endRec => intro kv hkv; simp [applyEv] at hkv
  | _ => exact h

theorem noLe_of_calls (M : Nat) (t : List Ev) (h : ∀ c ∈ branchCalls t, c.2 ≤ M) :
    ∀ ev ∈ t, ev.noLe M := by
  induction t with
  | nil => simp
  | cons e t ih =>
    intro ev hev
    simp only [List.mem_cons] at hev
    rcases hev with hev | hev
    · subst hev
      cases ev with
      | branch l no t => exact h (l, no) (by simp [branchCalls])
      | _ => trivial
    · apply ih _ ev hev
      intro c hc
      apply h
      cases e <;> simp [branchCalls, hc]

/-! ### the numbers of a record fit their Rust types -/

def Ev.WF : Ev → Prop
  | .line l c => l ≤ U32MAX ∧ c ≤ U64MAX
  | .fn st _ => st ≤ U32MAX
  | .branch l no _ => l ≤ U32MAX ∧ no ≤ U32MAX
  | _ => True

def Ctl.WF : Ctl → Prop
  | .daLine n | .daAfterLine n | .fnStart n | .fnAfterStart n | .fnName n _ | .brLine n
  | .brAfterLine n | .brBlock n _ | .brAfterBlock n => n ≤ U32MAX
  | .daCount l c | .daSkip l c => l ≤ U32MAX ∧ c ≤ U64MAX
  | .brBranch l n | .brAfterBranch l n | .brTaken l n _ => l ≤ U32MAX ∧ n ≤ U32MAX
  | _ => True

theorem digitsStep_wf (bound r b : Nat) (cont done : Nat → Ctl)
    (hc : ∀ v, v ≤ bound → (cont v).WF) (hd : (done r).WF) :
    (digitsStep bound r b cont done).WF := by
  unfold digitsStep
  split
  · split
    · next v hv =>
      apply hc
      unfold pushDigit at hv
      simp only at hv
      split at hv
      · cases hv; assumption
      · cases hv
    · simp [invalidRecord, Ctl.WF]
  · exact hd

theorem afterKey_wf (branch : Bool) (k : Nat) : (afterKey branch k).WF := by
  unfold afterKey
  repeat' split
  all_goals simp [Ctl.WF]

theorem step_wf (branch : Bool) (s : St) (b : Nat) (h : s.ctl.WF) :
    (step branch s b).ctl.WF ∧ (evt s b).WF := by
  obtain ⟨ctl, a⟩ := s
  cases ctl <;> simp only [step, evt]
  all_goals (repeat' split)
  all_goals first
    | (simp_all [Ctl.WF, Ev.WF, invalidRecord]; done)
    | (refine ⟨afterKey_wf _ _, ?_⟩; simp [Ev.WF]; done)
    | (refine ⟨digitsStep_wf _ _ _ _ _ ?_ ?_, ?_⟩ <;> simp_all [Ctl.WF, Ev.WF]; done)
    | (simp only [Ctl.WF] at h
       refine ⟨?_, by simp [Ev.WF]⟩
       simp only [Ctl.WF]
       rename_i hv
       unfold pushDigit at hv
       simp only at hv
       split at hv
       · cases hv; exact ⟨h.1, by assumption⟩
       · cases hv)
    | (simp only [Ctl.WF] at h ⊢
       refine ⟨⟨h, ?_⟩, by simp [Ev.WF]⟩
       rename_i hd
       simp [isDigit, U64MAX] at hd ⊢; omega)

theorem trace_wf (branch : Bool) (s : St) (bs : Bytes) (h : s.ctl.WF) :
    ∀ ev ∈ trace branch s bs, ev.WF := by
  induction bs generalizing s with
  | nil => simp [trace]
  | cons b bs ih =>
    have h1 := step_wf branch s b h
    rw [trace_cons]
    intro ev hev
    split at hev
    · simp only [List.mem_cons] at hev
      rcases hev with hev | hev
      · subst hev; exact h1.2
      · exact ih _ h1.1 ev hev
    · exact ih _ h1.1 ev hev

/-- keys and start lines fit `u32` -/
def KeysFit (c : Cov) : Prop :=
  (∀ kv ∈ c.lines, kv.1 ≤ U32MAX) ∧ (∀ kv ∈ c.branches, kv.1 ≤ U32MAX) ∧
  (∀ kv ∈ c.functions, kv.2.start ≤ U32MAX)

theorem mem_addBranch_key {m : List (Nat × List Bool)} {l no : Nat} {t : Bool} {kv : Nat × List Bool}
    (h : kv ∈ addBranch m l no t) : kv.1 = l ∨ ∃ v, (kv.1, v) ∈ m := by
  unfold addBranch at h
  repeat' split at h
  all_goals
    rcases mem_set h with h1 | h1
    · exact Or.inr ⟨kv.2, h1⟩
    · subst h1; exact Or.inl rfl

theorem applyEv_keysFit (a : Acc) (ev : Ev) (hq : ev.WF) (h : KeysFit a.cur) :
    KeysFit (applyEv a ev).cur := by
  obtain ⟨h1, h2, h3⟩ := h
  cases ev with
  | line l c =>
    refine ⟨?_, h2, h3⟩
    intro kv hkv
    simp only [applyEv, commitLine] at hkv
    rcases mem_set hkv with h4 | h4
    · exact h1 kv h4
    · subst h4; exact hq.1
  | fn st nm =>
    refine ⟨h1, h2, ?_⟩
    intro kv hkv
    simp only [applyEv, commitFn] at hkv
    rcases mem_set hkv with h4 | h4
    · exact h3 kv h4
    · subst h4; exact hq
  | fnda n nm =>
    simp only [applyEv, commitFnda]
    split
    · next f hf =>
      refine ⟨h1, h2, ?_⟩
      intro kv hkv
      rcases mem_set hkv with h4 | h4
      · exact h3 kv h4
      · subst h4; exact h3 (utf8Lossy nm, f) (get?_mem hf)
    · exact ⟨h1, h2, h3⟩
  | branch l no t =>
    refine ⟨h1, ?_, h3⟩
    intro kv hkv
    simp only [applyEv, commitBranch] at hkv
    rcases mem_addBranch_key hkv with h4 | ⟨v, h4⟩
    · rw [h4]; exact hq.1
    · exact h2 (kv.1, v) h4
  | endRec => simp [applyEv, KeysFit]
  | nop => exact ⟨h1, h2, h3⟩
  | file nm => exact ⟨h1, h2, h3⟩

/-! ### what `parse` returns -/

/-- the machine only ever halts with an error -/
def HaltErr : Ctl → Prop
  | .halt (.err _) => True
  | .halt _ => False
  | _ => True

theorem digitsStep_haltErr (bound r b : Nat) (cont done : Nat → Ctl)
    (hc : ∀ n, HaltErr (cont n)) (hd : ∀ n, HaltErr (done n)) :
    HaltErr (digitsStep bound r b cont done) := by
  unfold digitsStep
  split
  · split
    · exact hc _
    · trivial
  · exact hd _

theorem afterKey_haltErr (branch : Bool) (k : Nat) : HaltErr (afterKey branch k) := by
  unfold afterKey
  repeat' split
  all_goals trivial

theorem step_haltErr (branch : Bool) (s : St) (b : Nat) (h : HaltErr s.ctl) :
    HaltErr (step branch s b).ctl := by
  obtain ⟨ctl, a⟩ := s
  cases ctl <;> simp only [step]
  case halt o => exact h
  all_goals (repeat' split)
  all_goals first
    | trivial
    | exact afterKey_haltErr _ _
    | exact digitsStep_haltErr _ _ _ _ _ (fun _ => trivial) (fun _ => trivial)

theorem run_haltErr (branch : Bool) (s : St) (bs : Bytes) (h : HaltErr s.ctl) :
    HaltErr (run branch s bs).ctl := by
  induction bs generalizing s with
  | nil => exact h
  | cons b bs ih => exact ih _ (step_haltErr branch s b h)

/-- a successful parse returns the finished sections of the final accumulator -/
theorem parse_ok {branch : Bool} {bs : Bytes} {rs : List (Bytes × Cov)}
    (h : parse branch bs = .ok rs) : rs = (run branch {} bs).acc.results := by
  have hh := run_haltErr branch {} bs trivial
  unfold parse at h
  generalize run branch {} bs = s at h hh
  obtain ⟨ctl, a⟩ := s
  cases ctl <;> simp only [finish] at h
  case halt o =>
    subst h; exact absurd hh (by simp [HaltErr])
  all_goals first
    | (cases h; done)
    | (cases h; rfl)
    | (split at h <;> first | (cases h; done) | (cases h; rfl))

/-- a successful parse ended outside a halted state: every byte was consumed -/
theorem parse_ok_not_halted {branch : Bool} {bs : Bytes} {rs : List (Bytes × Cov)}
    (h : parse branch bs = .ok rs) : (run branch {} bs).ctl.isHalt = false := by
  have hh := run_haltErr branch {} bs trivial
  unfold parse at h
  generalize run branch {} bs = s at h hh
  obtain ⟨ctl, a⟩ := s
  cases ctl <;> try rfl
  case halt o =>
    simp only [finish] at h
    subst h; exact absurd hh (by simp [HaltErr])

/-! ### what a successful parse can hold -/

theorem parse_entries {branch : Bool} {bs : Bytes} {rs : List (Bytes × Cov)} (h : parse branch bs = .ok rs) :
    rs.length + resEntries rs ≤ eols bs + 1 := by
  have h1 := run_entries branch {} bs
  have h2 := trace_length_le branch {} bs
  rw [parse_ok h]
  simp only [accEntries, credit] at h1 h2
  have e : accEntries ({} : Acc) = 0 := rfl
  simp only [accEntries] at e
  omega

theorem parse_nameBytes {branch : Bool} {bs : Bytes} {rs : List (Bytes × Cov)} (h : parse branch bs = .ok rs) :
    resNameBytes rs ≤ 3 * bs.length := by
  have h1 := run_nameBytes branch {} bs
  have h2 := traceNameBytes_le branch {} bs
  rw [parse_ok h]
  have e : accNameBytes ({} : Acc) = 0 := rfl
  simp only [ctlNameLen] at h2
  simp only [accNameBytes] at h1 e
  omega

/-- slots of the result + slots of the section left open at the end of the input = slots written -/
theorem parse_slots {branch : Bool} {bs : Bytes} {rs : List (Bytes × Cov)} (h : parse branch bs = .ok rs) :
    resSlots rs + covSlots (run branch {} bs).acc.cur = (cost branch bs).grown := by
  have h1 := run_slots branch {} bs
  rw [parse_ok h]
  have e : accSlots ({} : Acc) = 0 := rfl
  simp only [accSlots] at h1 e
  unfold cost
  omega

theorem parse_all (P : Cov → Prop) (Q : Ev → Prop) (hempty : P {})
    (hstep : ∀ a ev, Q ev → P a.cur → P (applyEv a ev).cur)
    {branch : Bool} {bs : Bytes} {rs : List (Bytes × Cov)} (hq : ∀ ev ∈ trace branch {} bs, Q ev)
    (h : parse branch bs = .ok rs) : ∀ r ∈ rs, P r.2 := by
  have := run_all P Q hstep branch {} bs hq ⟨hempty, by simp⟩
  rw [parse_ok h]
  exact this.2

theorem cost_next_eq {branch : Bool} {bs : Bytes} {rs : List (Bytes × Cov)} (h : parse branch bs = .ok rs) :
    (cost branch bs).next = bs.length :=
  costFrom_next_eq branch {} bs (parse_ok_not_halted h)

theorem cost_mapOps_le (branch : Bool) (bs : Bytes) : (cost branch bs).mapOps ≤ 3 * (eols bs + 1) := by
  have h1 := costFrom_mapOps_le branch {} bs
  have h2 := trace_length_le branch {} bs
  simp only [credit] at h2
  unfold cost
  omega

theorem cost_keyBytes_le (branch : Bool) (bs : Bytes) : (cost branch bs).keyBytes ≤ 9 * bs.length := by
  have h1 := costFrom_keyBytes_le branch {} bs
  have h2 := traceNameBytes_le branch {} bs
  simp only [ctlNameLen] at h2
  unfold cost
  omega

theorem cost_copied_le (branch : Bool) (bs : Bytes) : (cost branch bs).copied ≤ 4 * bs.length := by
  have h1 := costFrom_copied_le branch {} bs
  have h2 := traceNameBytes_le branch {} bs
  simp only [ctlNameLen] at h2
  unfold cost
  omega

/-- slots written ≤ (B + 1) per `add_branch` call when every branch number is at most `B` -/
theorem cost_grown_le (branch : Bool) (bs : Bytes) (B : Nat)
    (hB : ∀ c ∈ branchCalls (trace branch {} bs), c.2 ≤ B) :
    (cost branch bs).grown ≤ (B + 1) * (eols bs + 1) := by
  have h1 := costFrom_grown_le branch {} bs
  have h2 := sum_map_le_mul (branchCalls (trace branch {} bs)) (fun c => c.2 + 1) (B + 1)
    (fun c hc => Nat.succ_le_succ (hB c hc))
  have h3 := branchCalls_length_le (trace branch {} bs)
  have h4 := trace_length_le branch {} bs
  simp only [credit] at h4
  have h5 : (B + 1) * (branchCalls (trace branch {} bs)).length ≤ (B + 1) * (eols bs + 1) :=
    Nat.mul_le_mul_left _ (by omega)
  unfold cost
  omega

/-- every branch number the machine commits fits `u32` -/
theorem branchCalls_u32 (branch : Bool) (bs : Bytes) :
    ∀ c ∈ branchCalls (trace branch {} bs), c.2 ≤ U32MAX := by
  have h := trace_wf branch {} bs trivial
  generalize trace branch {} bs = t at h
  induction t with
  | nil => simp [branchCalls]
  | cons e t ih =>
    have he := h e (by simp)
    have ih' := ih (fun ev hev => h ev (List.mem_cons_of_mem _ hev))
    cases e <;> simp only [branchCalls] <;> try exact ih'
    intro c hc
    simp only [List.mem_cons] at hc
    rcases hc with hc | hc
    · subst hc; exact he.2
    · exact ih' c hc

end Grcov.Lcov
