/-
C14 for the gcno reader: the block tables are linear in the input.  Since the fix "a gcno file
cannot announce more blocks in total than it has bytes" `read_functions` keeps `total_blocks` and
rejects the file as soon as the total exceeds the buffer length (`parseRecs`: `total`, `blen`).
Hence: an accepted record stream announces at most `blen` blocks in all, and `build` gives the
functions exactly the announced blocks.
-/
import GrcovModel.Lemmas.GcnoSafeSize
namespace Grcov.Gcno
open Outcome

/-- the number of blocks a record appends (`read_blocks`) -/
def NRec.announced : NRec → Nat
  | .blocks n => n
  | _ => 0

def blocksAnnounced (recs : List NRec) : Nat := (recs.map NRec.announced).sum

/-- all blocks of all functions of a notes file -/
def Notes.totalBlocks (g : Notes) : Nat := (g.funcs.map fun f => f.blocks.length).sum

@[simp] theorem NRec.announced_blocks {n : Nat} : (NRec.blocks n).announced = n := rfl
@[simp] theorem NRec.announced_arcs {n : Nat} {l : List (Nat × Nat)} : (NRec.arcs n l).announced = 0 := rfl
@[simp] theorem NRec.announced_lines {n : Nat} {l : List LineItem} : (NRec.lines n l).announced = 0 := rfl
@[simp] theorem NRec.announced_short : NRec.short.announced = 0 := rfl
@[simp] theorem NRec.announced_fail {k : ErrKind} : (NRec.fail k).announced = 0 := rfl
@[simp] theorem NRec.announced_crash {s : Site} : (NRec.crash s).announced = 0 := rfl

theorem NRec.announced_eq_zero {r : NRec} (h : ∀ n, r ≠ .blocks n) : r.announced = 0 := by
  cases r <;> first | rfl | exact absurd rfl (h _)

theorem parseFunc_announced {le : Bool} {version : Nat} {bs r : List Nat} {rec : NRec}
    (h : parseFunc le version bs = .ok rec r) : rec.announced = 0 :=
  NRec.announced_eq_zero (parseFunc_not_blocks le version bs rec r h)

/-- **the running total of `read_functions`**: a record stream without a failure marker announces,
together with what was announced before, at most `blen` blocks -/
theorem parseRecs_announced (le : Bool) (version blen : Nat) (fuel total : Nat) (hf : Bool)
    (bs : List Nat) : total ≤ blen →
    (∀ r ∈ parseRecs le version blen fuel total hf bs, ∀ k, r ≠ NRec.fail k) →
    total + blocksAnnounced (parseRecs le version blen fuel total hf bs) ≤ blen := by
  unfold blocksAnnounced
  fun_induction parseRecs le version blen fuel total hf bs
  all_goals (try (have hnb := parseFunc_announced ‹parseFunc le version _ = PR.ok _ _›))
  all_goals simp_all
  all_goals first | omega | grind

/-! ## `build` appends exactly the announced blocks -/

theorem sum_map_replaceLast {α : Type} (φ : α → Nat) : ∀ (l : List α) (f f' : α),
    l.getLast? = some f →
    ((replaceLast l f').map φ).sum + φ f = (l.map φ).sum + φ f' := by
  intro l
  induction l with
  | nil => intro f f' h; simp at h
  | cons a l ih =>
    intro f f' h
    cases l with
    | nil =>
      simp only [List.getLast?_singleton, Option.some.injEq] at h
      subst h
      simp [replaceLast]; omega
    | cons b l =>
      have h' : (b :: l).getLast? = some f := by simpa [List.getLast?_cons_cons] using h
      have := ih f f' h'
      simp only [replaceLast, List.map_cons, List.sum_cons] at this ⊢
      omega

theorem foldl_addArc_blocks (src : Nat) : ∀ (as : List (Nat × Nat)) (f f' : Func),
    Outcome.foldl (fun f (df : Nat × Nat) => addArc f src df.1 df.2) f as = ok f' →
    f'.blocks.length = f.blocks.length := by
  intro as
  induction as with
  | nil => intro f f' h; simp only [foldl_nil, Outcome.ok.injEq] at h; rw [h]
  | cons a as ih =>
    intro f f' h
    rw [foldl_cons] at h
    obtain ⟨f1, h1, h2⟩ := bind_eq_ok.1 h
    rw [addArc_eq] at h1
    split at h1
    · simp only [Outcome.ok.injEq] at h1
      rw [ih _ _ h2, ← h1, pushArc_blocks_length]
    · cases h1

theorem Notes.totalBlocks_replaceLast {g : Notes} {f f' : Func} (hl : g.funcs.getLast? = some f) :
    Notes.totalBlocks { g with funcs := replaceLast g.funcs f' } + f.blocks.length =
      g.totalBlocks + f'.blocks.length :=
  sum_map_replaceLast (fun f => f.blocks.length) g.funcs f f' hl

/-- one record: it is not a failure marker, and the block total grows by what it announces -/
theorem buildStep_blocks {g g' : Notes} {r : NRec} (h : buildStep g r = ok g') :
    (∀ k, r ≠ .fail k) ∧ g'.totalBlocks ≤ g.totalBlocks + r.announced := by
  cases r with
  | short => cases h
  | fail k => cases h
  | crash s => cases h
  | func ident ls cs name file st en =>
    simp only [buildStep, Outcome.ok.injEq] at h
    refine ⟨fun k hk => (by cases hk), ?_⟩
    rw [← h]
    simp [Notes.totalBlocks, NRec.announced]
  | blocks n =>
    refine ⟨fun k hk => (by cases hk), ?_⟩
    simp only [buildStep] at h
    cases hl : g.funcs.getLast? with
    | none => simp only [hl, Outcome.ok.injEq] at h; rw [← h]; omega
    | some f =>
      simp only [hl, Outcome.ok.injEq] at h
      rw [← h]
      have := Notes.totalBlocks_replaceLast (g := g)
        (f' := { f with blocks := f.blocks ++ (List.range n).map fun i => ({ no := i } : Block) }) hl
      simp only [List.length_append, List.length_map, List.length_range] at this
      simp only [NRec.announced_blocks]
      omega
  | arcs src as =>
    refine ⟨fun k hk => (by cases hk), ?_⟩
    simp only [buildStep] at h
    cases hl : g.funcs.getLast? with
    | none => simp only [hl, Outcome.ok.injEq] at h; rw [← h]; omega
    | some f =>
      simp only [hl] at h
      split at h
      · obtain ⟨f', hf', h⟩ := bind_eq_ok.1 h
        simp only [Outcome.ok.injEq] at h
        rw [← h]
        have := Notes.totalBlocks_replaceLast (g := g) (f' := f') hl
        have := foldl_addArc_blocks src as f f' hf'
        simp only [NRec.announced_arcs]
        omega
      · cases h
  | lines blk items =>
    refine ⟨fun k hk => (by cases hk), ?_⟩
    simp only [buildStep] at h
    cases hl : g.funcs.getLast? with
    | none => simp only [hl, Outcome.ok.injEq] at h; rw [← h]; omega
    | some f =>
      simp only [hl] at h
      split at h
      · simp only [Outcome.ok.injEq] at h
        rw [← h]
        have := Notes.totalBlocks_replaceLast (g := g)
          (f' := { f with blocks := modifyAt (takeLines g.version f true items) f.blocks blk }) hl
        simp only [modifyAt_length] at this
        simp only [NRec.announced_lines]
        omega
      · cases h

theorem foldl_buildStep_blocks : ∀ (recs : List NRec) (g g' : Notes),
    Outcome.foldl buildStep g recs = ok g' →
    (∀ r ∈ recs, ∀ k, r ≠ NRec.fail k) ∧ g'.totalBlocks ≤ g.totalBlocks + blocksAnnounced recs := by
  intro recs
  induction recs with
  | nil =>
    intro g g' h
    simp only [foldl_nil, Outcome.ok.injEq] at h
    rw [h]
    exact ⟨fun r hr => by simp at hr, by simp [blocksAnnounced]⟩
  | cons r recs ih =>
    intro g g' h
    rw [foldl_cons] at h
    obtain ⟨g1, h1, h2⟩ := bind_eq_ok.1 h
    have s1 := buildStep_blocks h1
    have s2 := ih g1 g' h2
    refine ⟨?_, ?_⟩
    · intro x hx
      rcases List.mem_cons.1 hx with rfl | hx
      · exact s1.1
      · exact s2.1 x hx
    · have : blocksAnnounced (r :: recs) = r.announced + blocksAnnounced recs := by
        simp [blocksAnnounced]
      omega

/-- `build` succeeded: no failure marker in the stream, and the functions have at most the
announced blocks -/
theorem build_blocks {version checksum : Nat} {recs : List NRec} {g : Notes}
    (h : build version checksum recs = ok g) :
    (∀ r ∈ recs, ∀ k, r ≠ NRec.fail k) ∧ g.totalBlocks ≤ blocksAnnounced recs := by
  have := foldl_buildStep_blocks recs _ g h
  simpa [Notes.totalBlocks] using this

/-- what `readGcno` returns: a stream that, unless it holds a failure marker, announces at most as
many blocks as the file has bytes -/
theorem readGcno_announced (bs : List Nat) :
    Sat NoSite False (readGcno bs) fun x =>
      (∀ r ∈ x.2.2, ∀ k, r ≠ NRec.fail k) → blocksAnnounced x.2.2 ≤ bs.length := by
  have key : ∀ le version fuel hf r, (∀ x ∈ parseRecs le version bs.length fuel 0 hf r,
      ∀ k, x ≠ NRec.fail k) → blocksAnnounced (parseRecs le version bs.length fuel 0 hf r) ≤ bs.length := by
    intro le version fuel hf r h
    have := parseRecs_announced le version bs.length fuel 0 hf r (Nat.zero_le _) h
    omega
  unfold readGcno
  refine Sat.bind ((guessEndian_sat _ bs).mono fun ⟨le, r0⟩ _ => ?_)
  refine Sat.bind ((readVersion_sat le r0).mono fun ⟨version, r1⟩ _ => ?_)
  simp only
  cases h2 : readU32 le r1 with
  | short => trivial
  | crash s => exact absurd h2 (readU32_ne_crash _ _ _)
  | ok checksum r2 =>
    simp only
    by_cases h90 : version ≥ 90
    · simp only [if_pos h90]
      cases h3 : readString le r2 with
      | short => trivial
      | crash s => exact absurd h3 (readString_ne_crash _ _ _)
      | ok cwd r3 =>
        simp only
        have h80 : version ≥ 80 := by omega
        simp only [if_pos h80]
        cases h4 : skipN 4 r3 with
        | short => trivial
        | crash s => exact absurd h4 (skipN_ne_crash _ _ _)
        | ok u r4 => exact key _ _ _ _ _
    · simp only [if_neg h90]
      by_cases h80 : version ≥ 80
      · simp only [if_pos h80]
        cases h4 : skipN 4 r2 with
        | short => trivial
        | crash s => exact absurd h4 (skipN_ne_crash _ _ _)
        | ok u r4 => exact key _ _ _ _ _
      · simp only [if_neg h80]
        exact key _ _ _ _ _

/-- **the block tables are linear in the input**: whenever `read_gcno` accepts a file, all its
functions together have at most as many blocks as the file has bytes -/
theorem readBuild_totalBlocks {bs : List Nat} {g : Notes} (h : readBuild bs = ok g) :
    g.totalBlocks ≤ bs.length := by
  unfold readBuild at h
  obtain ⟨⟨v, c, recs⟩, hr, hb⟩ := bind_eq_ok.1 h
  have ha := (readGcno_announced bs).of_ok hr
  have hbuild := build_blocks hb
  have := ha hbuild.1
  exact Nat.le_trans hbuild.2 this

end Grcov.Gcno
