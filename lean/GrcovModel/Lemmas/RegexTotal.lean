/-
The parser of GrcovModel/Regex/Syntax.lean always answers: its loop counters (`fuel`) never run out,
because every sub-parser hands back a rest that is no longer than what it was given, and every turn
of the two loops consumes at least one char.
-/
import GrcovModel.Regex.Syntax
import Mathlib.Tactic.SplitIfs
namespace Grcov.Regex

/-! ### the rest a sub-parser returns -/

theorem takeHexN_rest : ∀ (n : Nat) (s : Chars) {ds r : Chars}, takeHexN n s = .ok (ds, r) → r.length ≤ s.length
  | 0, s, ds, r, h => by simp only [takeHexN, Except.ok.injEq, Prod.mk.injEq] at h; rw [← h.2]; exact Nat.le_refl _
  | n + 1, [], _, _, h => by simp [takeHexN] at h
  | n + 1, c :: t, ds, r, h => by
    simp only [takeHexN] at h
    split_ifs at h
    split at h
    · rename_i ds' r' h'
      simp only [Except.ok.injEq, Prod.mk.injEq] at h
      have := takeHexN_rest n t h'
      rw [← h.2]; simp only [List.length_cons]; omega
    · cases h

theorem takeHexN_ne_fuel : ∀ (n : Nat) (s : Chars), takeHexN n s ≠ .error .fuel
  | 0, s => by simp [takeHexN]
  | n + 1, [] => by simp [takeHexN]
  | n + 1, c :: t => by
    simp only [takeHexN]
    split_ifs
    · split
      · simp
      · rename_i e he; intro h; cases h; exact takeHexN_ne_fuel n t he
    · simp

theorem takeHexBrace_rest : ∀ (s : Chars) {ds r : Chars}, takeHexBrace s = .ok (ds, r) → r.length ≤ s.length
  | [], _, _, h => by simp [takeHexBrace] at h
  | c :: t, ds, r, h => by
    simp only [takeHexBrace] at h
    split_ifs at h
    · simp only [Except.ok.injEq, Prod.mk.injEq] at h; rw [← h.2]; simp
    · split at h
      · rename_i ds' r' h'
        simp only [Except.ok.injEq, Prod.mk.injEq] at h
        have := takeHexBrace_rest t h'
        rw [← h.2]; simp only [List.length_cons]; omega
      · cases h

theorem takeHexBrace_ne_fuel : ∀ (s : Chars), takeHexBrace s ≠ .error .fuel
  | [] => by simp [takeHexBrace]
  | c :: t => by
    simp only [takeHexBrace]
    split_ifs
    · simp
    · split
      · simp
      · rename_i e he; intro h; cases h; exact takeHexBrace_ne_fuel t he
    · simp

theorem hexLit_rest {ds r : Chars} {p : Prim} {r' : Chars} (h : hexLit ds r = .ok (p, r')) : r' = r := by
  unfold hexLit at h
  split_ifs at h
  simp only [Except.ok.injEq, Prod.mk.injEq] at h
  exact h.2.symm

theorem hexLit_ne_fuel (ds r : Chars) : hexLit ds r ≠ .error .fuel := by
  unfold hexLit; split_ifs <;> simp

theorem parseHex_rest {n : Nat} {s : Chars} {p : Prim} {r : Chars} (h : parseHex n s = .ok (p, r)) :
    r.length ≤ s.length := by
  cases s with
  | nil => simp [parseHex] at h
  | cons c t =>
    simp only [parseHex] at h
    split_ifs at h
    · split at h
      · cases h
      · rename_i ds r' h'
        have l := takeHexBrace_rest t h'
        split_ifs at h
        rw [hexLit_rest h]; simp only [List.length_cons]; omega
    · split at h
      · cases h
      · rename_i ds r' h'
        have l := takeHexN_rest n (c :: t) h'
        rw [hexLit_rest h]; exact l

theorem parseHex_ne_fuel (n : Nat) (s : Chars) : parseHex n s ≠ .error .fuel := by
  cases s with
  | nil => simp [parseHex]
  | cons c t =>
    simp only [parseHex]
    split_ifs
    · split
      · rename_i e he; intro h; cases h; exact takeHexBrace_ne_fuel t he
      · split_ifs
        · simp
        · exact hexLit_ne_fuel _ _
    · split
      · rename_i e he; intro h; cases h; exact takeHexN_ne_fuel n _ he
      · exact hexLit_ne_fuel _ _

theorem ite_ne_of {α : Type} {c : Prop} [Decidable c] {a b x : α} (ha : a ≠ x) (hb : b ≠ x) :
    (if c then a else b) ≠ x := by
  split_ifs <;> assumption

theorem escapePrim_ne_fuel (c : Nat) : escapePrim c ≠ .error .fuel := by
  unfold escapePrim
  repeat' apply ite_ne_of
  all_goals (intro h; cases h)

theorem takeWbName_length : ∀ s : Chars, (takeWbName s).2.length ≤ s.length
  | [] => Nat.le_refl _
  | c :: r => by
    simp only [takeWbName]
    split
    · have := takeWbName_length r; simp; omega
    · exact Nat.le_refl _

theorem wordBoundary_rest {r : Chars} {p : Prim} {r' : Chars} (h : wordBoundary r = .ok (p, r')) :
    r'.length ≤ r.length := by
  unfold wordBoundary at h
  split at h
  · cases h
  · rename_i d t
    split_ifs at h
    · have l := takeWbName_length (d :: t)
      split at h
      · rename_i r'' heq
        rw [heq] at l
        simp only [List.length_cons] at l
        simp only [] at h
        split_ifs at h <;>
          (simp only [Except.ok.injEq, Prod.mk.injEq] at h; rw [← h.2]; simp only [List.length_cons]; omega)
      · cases h
    · simp only [Except.ok.injEq, Prod.mk.injEq] at h; rw [← h.2]; exact Nat.le_refl _
  · simp only [Except.ok.injEq, Prod.mk.injEq] at h; rw [← h.2]; exact Nat.le_refl _

theorem wordBoundary_ne_fuel (r : Chars) : wordBoundary r ≠ .error .fuel := by
  unfold wordBoundary
  split
  · simp
  · split_ifs
    · split
      · simp only []
        repeat' apply ite_ne_of
        all_goals (intro h; cases h)
      · simp
    · simp
  · simp

theorem parseEscape_rest {s : Chars} {p : Prim} {r : Chars} (h : parseEscape s = .ok (p, r)) :
    r.length < s.length := by
  cases s with
  | nil => simp [parseEscape] at h
  | cons c r0 =>
    simp only [parseEscape] at h
    simp only [List.length_cons]
    split_ifs at h
    · have := parseHex_rest h; omega
    · have := parseHex_rest h; omega
    · have := parseHex_rest h; omega
    · have := wordBoundary_rest h; omega
    · split at h
      · simp only [Except.ok.injEq, Prod.mk.injEq] at h; rw [h.2]; omega
      · cases h

theorem parseEscape_ne_fuel (s : Chars) : parseEscape s ≠ .error .fuel := by
  cases s with
  | nil => simp [parseEscape]
  | cons c r0 =>
    simp only [parseEscape]
    have := escapePrim_ne_fuel c
    split_ifs
    · exact parseHex_ne_fuel _ _
    · exact parseHex_ne_fuel _ _
    · exact parseHex_ne_fuel _ _
    · exact wordBoundary_ne_fuel _
    · split
      · simp
      · rename_i e he
        intro h
        cases h
        exact this he

theorem dropSpaces_length : ∀ s : Chars, (dropSpaces s).length ≤ s.length
  | [] => Nat.le_refl _
  | c :: r => by
    simp only [dropSpaces]
    split
    · have := dropSpaces_length r; simp; omega
    · exact Nat.le_refl _

theorem takeDigits_length : ∀ s : Chars, (takeDigits s).2.length ≤ s.length
  | [] => Nat.le_refl _
  | c :: r => by
    simp only [takeDigits]
    split
    · have := takeDigits_length r; simp; omega
    · exact Nat.le_refl _

theorem parseDecimal_length (s : Chars) : (parseDecimal s).2.length ≤ s.length := by
  have h1 := dropSpaces_length s
  have h2 := takeDigits_length (dropSpaces s)
  have h3 := dropSpaces_length (takeDigits (dropSpaces s)).2
  unfold parseDecimal
  simp only
  split_ifs <;> (simp only; omega)

theorem parseDecimal_ne_fuel (s : Chars) : (parseDecimal s).1 ≠ .error .fuel := by
  unfold parseDecimal
  simp only
  split_ifs <;> simp

theorem dropLazy_length (r : Chars) : (dropLazy r).length ≤ r.length := by
  unfold dropLazy
  split <;> simp

theorem closeCount_rest {lo : Nat} {hi : Option Nat} {r : Chars} {b : Nat × Option Nat} {r' : Chars}
    (h : closeCount lo hi r = .ok (b, r')) : r'.length < r.length := by
  unfold closeCount at h
  split at h
  · rename_i t
    split_ifs at h
    simp only [Except.ok.injEq, Prod.mk.injEq] at h
    rw [← h.2]
    have := dropLazy_length t
    simp only [List.length_cons]; omega
  · cases h

theorem closeCount_ne_fuel (lo : Nat) (hi : Option Nat) (r : Chars) : closeCount lo hi r ≠ .error .fuel := by
  unfold closeCount
  split
  · split_ifs <;> simp
  · simp

theorem parseCounted_rest {s : Chars} {b : Nat × Option Nat} {r : Chars}
    (h : parseCounted s = .ok (b, r)) : r.length ≤ s.length := by
  have hd := parseDecimal_length s
  unfold parseCounted at h
  split_ifs at h
  split at h
  · cases h
  · rename_i c1 t1 heq
    rw [heq] at hd
    simp only [List.length_cons] at hd
    split_ifs at h
    · split at h
      · cases h
      · rename_i c2 t2
        have hd2 := parseDecimal_length (c2 :: t2)
        simp only [List.length_cons] at hd hd2
        split_ifs at h
        · split at h
          · cases h
          · split at h
            · cases h
            · have := closeCount_rest h
              omega
        · split at h
          · cases h
          · have := closeCount_rest h
            simp only [List.length_cons] at this
            omega
    · split at h
      · cases h
      · have := closeCount_rest h
        simp only [List.length_cons] at this
        omega

theorem except_ne_fuel_of_fst {α : Type} {x : Except RegexErr α} {e : RegexErr}
    (hx : x ≠ .error .fuel) (he : x = .error e) : (Except.error e : Except RegexErr ((Nat × Option Nat) × Chars)) ≠ .error .fuel := by
  intro h; cases h; exact hx he

theorem parseCounted_ne_fuel (s : Chars) : parseCounted s ≠ .error .fuel := by
  unfold parseCounted
  split_ifs
  · simp
  · split
    · simp
    · split_ifs
      · split
        · simp
        · split_ifs
          · split
            · rename_i e he; exact except_ne_fuel_of_fst (parseDecimal_ne_fuel s) he
            · split
              · rename_i e he; exact except_ne_fuel_of_fst (parseDecimal_ne_fuel _) he
              · exact closeCount_ne_fuel _ _ _
          · split
            · rename_i e he; exact except_ne_fuel_of_fst (parseDecimal_ne_fuel s) he
            · exact closeCount_ne_fuel _ _ _
      · split
        · rename_i e he; exact except_ne_fuel_of_fst (parseDecimal_ne_fuel s) he
        · exact closeCount_ne_fuel _ _ _

/-! ### classes -/

theorem classPrim_rest {s : Chars} {p : Prim} {r : Chars} (h : classPrim s = .ok (p, r)) :
    r.length < s.length := by
  cases s with
  | nil => cases h
  | cons c r0 =>
    simp only [classPrim] at h
    split_ifs at h
    · have := parseEscape_rest h
      simp only [List.length_cons]; omega
    · simp only [Except.ok.injEq, Prod.mk.injEq] at h
      rw [← h.2]; simp

theorem classPrim_ne_fuel (s : Chars) : classPrim s ≠ .error .fuel := by
  cases s with
  | nil => simp [classPrim]
  | cons c r0 =>
    simp only [classPrim]
    split_ifs
    · exact parseEscape_ne_fuel r0
    · simp

theorem classRange_rest {s : Chars} {it : ClassItem} {r : Chars} (h : classRange s = .ok (it, r)) :
    r.length < s.length := by
  unfold classRange at h
  split at h
  · cases h
  · rename_i p1 r1 h1
    have l1 := classPrim_rest h1
    split at h
    · cases h
    · rename_i c t
      simp only [List.length_cons] at l1
      split_ifs at h
      · split at h
        · cases h
        · simp only [Except.ok.injEq, Prod.mk.injEq] at h
          rw [← h.2]; simp only [List.length_cons]; omega
      · split at h
        · cases h
        · rename_i p2 r3 h2
          have l2 := classPrim_rest h2
          split at h
          · cases h
          · split at h
            · cases h
            · split_ifs at h
              simp only [Except.ok.injEq, Prod.mk.injEq] at h
              rw [← h.2]; omega

theorem toItem_ne_fuel (p : Prim) : p.toItem ≠ .error .fuel := by cases p <;> simp [Prim.toItem]
theorem toLit_ne_fuel (p : Prim) : p.toLit ≠ .error .fuel := by cases p <;> simp [Prim.toLit]

theorem err_ne_fuel {α β : Type} {x : Except RegexErr α} {e : RegexErr}
    (hx : x ≠ .error .fuel) (he : x = .error e) : (Except.error e : Except RegexErr β) ≠ .error .fuel := by
  intro h; cases h; exact hx he

theorem classRange_ne_fuel (s : Chars) : classRange s ≠ .error .fuel := by
  unfold classRange
  split
  · rename_i e he; exact err_ne_fuel (classPrim_ne_fuel s) he
  · split
    · simp
    · split_ifs
      · split
        · rename_i e he; exact err_ne_fuel (toItem_ne_fuel _) he
        · simp
      · simp
      · split
        · rename_i e he; exact err_ne_fuel (classPrim_ne_fuel _) he
        · split
          · rename_i e he; exact err_ne_fuel (toLit_ne_fuel _) he
          · split
            · rename_i e he; exact err_ne_fuel (toLit_ne_fuel _) he
            · split_ifs <;> simp

theorem takeUntilColon_length : ∀ s : Chars, (takeUntilColon s).2.length ≤ s.length
  | [] => Nat.le_refl _
  | c :: r => by
    simp only [takeUntilColon]
    split
    · exact Nat.le_refl _
    · have := takeUntilColon_length r; simp only [List.length_cons]; omega

theorem stripCaret_length (t : Chars) : (stripCaret t).2.length ≤ t.length := by
  unfold stripCaret; split <;> simp

theorem asciiClass_rest {s : Chars} {it : ClassItem} {r : Chars} (h : asciiClass s = .ok (it, r)) :
    r.length ≤ s.length := by
  unfold asciiClass at h
  split at h
  · rename_i t
    have l1 := stripCaret_length t
    have l2 := takeUntilColon_length (stripCaret t).2
    split at h
    · rename_i r' heq
      rw [heq] at l2
      split at h
      · simp only [Except.ok.injEq, Prod.mk.injEq] at h
        rw [← h.2]
        simp only [List.length_cons] at l2 ⊢
        omega
      · cases h
    · cases h
  · cases h

theorem asciiClass_ne_fuel (s : Chars) : asciiClass s ≠ .error .fuel := by
  unfold asciiClass
  split
  · split
    · split <;> simp
    · simp
  · simp

theorem classLoop_spec : ∀ (f : Nat) (items : List ClassItem) (s : Chars), s.length < f →
    classLoop f items s ≠ .error .fuel ∧
    ∀ its r, classLoop f items s = .ok (its, r) → r.length < s.length
  | 0, _, _, h => by omega
  | f + 1, items, [], _ => by simp [classLoop]
  | f + 1, items, c :: r, hlen => by
    simp only [List.length_cons] at hlen
    simp only [classLoop]
    split_ifs
    · split
      · rename_i e he
        exact ⟨err_ne_fuel (asciiClass_ne_fuel _) he, fun _ _ h => by cases h⟩
      · rename_i it r' hr
        have l := asciiClass_rest hr
        have ih := classLoop_spec f (it :: items) r' (by omega)
        refine ⟨ih.1, fun its r'' h => ?_⟩
        have := ih.2 its r'' h
        simp only [List.length_cons]; omega
    · refine ⟨by simp, ?_⟩
      intro its r' h
      simp only [Except.ok.injEq, Prod.mk.injEq] at h
      rw [← h.2]; simp
    · simp
    · simp
    · simp
    · split
      · rename_i e he
        exact ⟨err_ne_fuel (classRange_ne_fuel _) he, fun _ _ h => by cases h⟩
      · rename_i it r' hr
        have l := classRange_rest hr
        simp only [List.length_cons] at l
        have ih := classLoop_spec f (it :: items) r' (by omega)
        refine ⟨ih.1, fun its r'' h => ?_⟩
        have := ih.2 its r'' h
        simp only [List.length_cons]; omega

theorem leadingDashes_length : ∀ s : Chars, (leadingDashes s).2.length ≤ s.length
  | [] => by simp [leadingDashes]
  | c :: r => by
    unfold leadingDashes
    split
    · rename_i r' heq
      cases heq
      have := leadingDashes_length r
      simp only [List.length_cons]; omega
    · exact Nat.le_refl _

theorem parseClass_spec (s : Chars) :
    parseClass s ≠ .error .fuel ∧ ∀ a r, parseClass s = .ok (a, r) → r.length ≤ s.length := by
  unfold parseClass
  split
  · simp
  · rename_i c t
    -- the rest after the optional `^`
    generalize hr1 : (if c = 94 then (true, t) else (false, c :: t) : Bool × Chars) = nr
    have l1 : nr.2.length ≤ (c :: t).length := by
      rw [← hr1]; split_ifs <;> simp
    obtain ⟨neg, r1⟩ := nr
    simp only at l1 ⊢
    split_ifs
    · simp
    · have l2 := leadingDashes_length r1
      generalize hd : leadingDashes r1 = dr at l2
      obtain ⟨dashes, r2⟩ := dr
      simp only at l2 ⊢
      split
      · simp
      · rename_i d t2
        generalize hf : (if (dashes.isEmpty && decide (d = 93)) = true then ([ClassItem.range 93 93], t2)
          else (dashes, d :: t2) : List ClassItem × Chars) = fr
        have l3 : fr.2.length ≤ (d :: t2).length := by
          rw [← hf]; split_ifs <;> simp
        obtain ⟨first, r3⟩ := fr
        simp only at l3 ⊢
        split_ifs
        · simp
        · have sp := classLoop_spec (r3.length + 1) first.reverse r3 (by omega)
          split
          · rename_i e he
            exact ⟨err_ne_fuel sp.1 he, fun _ _ h => by cases h⟩
          · rename_i items r4 hr
            refine ⟨by simp, fun a r h => ?_⟩
            simp only [Except.ok.injEq, Prod.mk.injEq] at h
            have := sp.2 items r4 hr
            rw [← h.2]
            simp only [List.length_cons] at l1 l2 l3 ⊢
            omega

/-! ### the main loop -/

theorem groupOpen_rest {r r' : Chars} (h : groupOpen r = .ok r') : r'.length ≤ r.length := by
  unfold groupOpen at h
  split at h
  all_goals (cases h)
  all_goals (first | exact Nat.le_refl _ | (simp only [List.length_cons]; omega))

theorem groupOpen_ne_fuel (r : Chars) : groupOpen r ≠ .error .fuel := by
  unfold groupOpen
  split <;> simp

theorem popGroup_ne_fuel (st : PState) : popGroup st ≠ .error .fuel := by
  unfold popGroup
  split <;> simp

theorem popGroupEnd_ne_fuel (st : PState) : popGroupEnd st ≠ .error .fuel := by
  unfold popGroupEnd
  split <;> simp

theorem loop_ne_fuel : ∀ (f : Nat) (st : PState) (s : Chars), s.length < f → loop f st s ≠ .error .fuel
  | 0, _, _, h => by omega
  | f + 1, st, [], _ => by simp only [loop]; exact popGroupEnd_ne_fuel st
  | f + 1, st, c :: r, hlen => by
    simp only [List.length_cons] at hlen
    simp only [loop]
    have hl := dropLazy_length r
    split_ifs
    all_goals first
      | (intro h; cases h)
      | exact loop_ne_fuel f _ r (by omega)
      | exact loop_ne_fuel f _ (dropLazy r) (by omega)
      | skip
    · split
      · rename_i e he; exact err_ne_fuel (groupOpen_ne_fuel r) he
      · rename_i r' hr
        have := groupOpen_rest hr
        exact loop_ne_fuel f _ r' (by omega)
    · split
      · rename_i e he; exact err_ne_fuel (popGroup_ne_fuel st) he
      · exact loop_ne_fuel f _ r (by omega)
    · have sp := parseClass_spec r
      split
      · rename_i e he; exact err_ne_fuel sp.1 he
      · rename_i a r' hr
        have := sp.2 a r' hr
        exact loop_ne_fuel f _ r' (by omega)
    · split
      · rename_i e he; exact err_ne_fuel (parseCounted_ne_fuel r) he
      · rename_i lo hi r' hr
        have := parseCounted_rest hr
        exact loop_ne_fuel f _ r' (by omega)
    · split
      · rename_i e he; exact err_ne_fuel (parseEscape_ne_fuel r) he
      · rename_i p r' hr
        have := parseEscape_rest hr
        exact loop_ne_fuel f _ r' (by omega)

theorem parseAst_ne_fuel (p : Chars) : parseAst p ≠ .error .fuel :=
  loop_ne_fuel (p.length + 1) {} p (Nat.lt_succ_self _)

/-- `Regex.parse` never answers `fuel` -/
theorem parse_ne_fuel (p : Chars) : parse p ≠ .error .fuel := by
  unfold parse
  split
  · rename_i e he; exact err_ne_fuel (parseAst_ne_fuel p) he
  · split_ifs <;> simp

end Grcov.Regex
