/-
Byte-level lemmas: each well-formed record, read from the dispatch state, has exactly the effect
`Spec.applyRec` on the accumulator and returns to the dispatch state.
-/
import GrcovModel.Spec.Lcov
namespace Grcov.Lcov
open Grcov AList Grcov.Lcov.Spec

theorem run_cons (branch : Bool) (s : St) (b : Nat) (bs : Bytes) :
    run branch s (b :: bs) = run branch (step branch s b) bs := rfl

theorem run_nil (branch : Bool) (s : St) : run branch s [] = s := rfl

theorem run_dispatch_LF (branch : Bool) (a : Acc) :
    run branch ⟨.dispatch, a⟩ [LF] = ⟨.dispatch, a⟩ := by
  simp [run, step, LF]

/-- `take_while(|c| c != '\n').last()` -/
theorem run_skip (branch : Bool) (a : Acc) (txt : Bytes) (h : noLF txt) :
    run branch ⟨.skip, a⟩ (txt ++ [LF]) = ⟨.dispatch, a⟩ := by
  induction txt with
  | nil => simp [run, step]
  | cons x txt ih =>
    have hx : x ≠ LF := h x (by simp)
    have := ih fun y hy => h y (List.mem_cons_of_mem _ hy)
    simp only [List.cons_append, run_cons]
    have hs : step branch ⟨.skip, a⟩ x = ⟨.skip, a⟩ := by simp [step, hx]
    rw [hs]; exact this

theorem eol_cases (eol : Bytes) (h : eol = [LF] ∨ eol = [CR, LF]) :
    ∃ d rest, eol = d :: rest ∧ (d = LF ∨ d = CR) ∧ (rest = [] ∨ rest = [LF]) := by
  rcases h with h | h <;> subst h
  · exact ⟨LF, [], rfl, Or.inl rfl, Or.inl rfl⟩
  · exact ⟨CR, [LF], rfl, Or.inr rfl, Or.inr rfl⟩

/-- after a record ended by `d ∈ {LF, CR}` the rest of the line end is absorbed -/
theorem run_eol_rest (branch : Bool) (a : Acc) (rest : Bytes) (h : rest = [] ∨ rest = [LF]) :
    run branch ⟨.dispatch, a⟩ rest = ⟨.dispatch, a⟩ := by
  rcases h with h | h <;> subst h
  · rfl
  · exact run_dispatch_LF branch a

/-! ### names -/

theorem run_sfName (branch : Bool) (a : Acc) (acc nm : Bytes) (d : Nat) (hnm : noEol nm)
    (hd : d = LF ∨ d = CR) :
    run branch ⟨.sfName acc, a⟩ (nm ++ [d])
      = ⟨.dispatch, { a with curFile := some (utf8Lossy (acc ++ nm)) }⟩ := by
  induction nm generalizing acc with
  | nil => simp [run, step, hd]
  | cons x nm ih =>
    obtain ⟨h1, h2⟩ := hnm x (by simp)
    have hs : step branch ⟨.sfName acc, a⟩ x = ⟨.sfName (acc ++ [x]), a⟩ := by simp [step, h1, h2]
    simp only [List.cons_append, run_cons, hs]
    rw [ih (acc ++ [x]) fun y hy => hnm y (List.mem_cons_of_mem _ hy)]
    simp

theorem run_fnName (branch : Bool) (a : Acc) (n : Nat) (acc nm : Bytes) (d : Nat) (hnm : noEol nm)
    (hd : d = LF ∨ d = CR) :
    run branch ⟨.fnName n acc, a⟩ (nm ++ [d]) = ⟨.dispatch, commitFn a n (acc ++ nm)⟩ := by
  induction nm generalizing acc with
  | nil => simp [run, step, hd]
  | cons x nm ih =>
    obtain ⟨h1, h2⟩ := hnm x (by simp)
    have hs : step branch ⟨.fnName n acc, a⟩ x = ⟨.fnName n (acc ++ [x]), a⟩ := by simp [step, h1, h2]
    simp only [List.cons_append, run_cons, hs]
    rw [ih (acc ++ [x]) fun y hy => hnm y (List.mem_cons_of_mem _ hy)]
    simp

theorem run_fnAfterStart (branch : Bool) (a : Acc) (n : Nat) (nm : Bytes) (d : Nat)
    (hnm : noEol nm) (hd : d = LF ∨ d = CR) :
    run branch ⟨.fnAfterStart n, a⟩ (nm ++ [d]) = ⟨.dispatch, commitFn a n nm⟩ := by
  cases nm with
  | nil => simp [run, step, hd]
  | cons x nm =>
    obtain ⟨h1, h2⟩ := hnm x (by simp)
    have hs : step branch ⟨.fnAfterStart n, a⟩ x = ⟨.fnName n [x], a⟩ := by simp [step, h1, h2]
    simp only [List.cons_append, run_cons, hs]
    rw [run_fnName branch a n [x] nm d (fun y hy => hnm y (List.mem_cons_of_mem _ hy)) hd]
    simp

theorem run_fndaName (branch : Bool) (a : Acc) (n : Nat) (acc nm : Bytes) (d : Nat)
    (hnm : noEol nm) (hd : d = LF ∨ d = CR) :
    run branch ⟨.fndaName n acc, a⟩ (nm ++ [d]) = ⟨.dispatch, commitFnda a n (acc ++ nm)⟩ := by
  induction nm generalizing acc with
  | nil => simp [run, step, hd]
  | cons x nm ih =>
    obtain ⟨h1, h2⟩ := hnm x (by simp)
    have hs : step branch ⟨.fndaName n acc, a⟩ x = ⟨.fndaName n (acc ++ [x]), a⟩ := by
      simp [step, h1, h2]
    simp only [List.cons_append, run_cons, hs]
    rw [ih (acc ++ [x]) fun y hy => hnm y (List.mem_cons_of_mem _ hy)]
    simp

theorem run_fndaAfter (branch : Bool) (a : Acc) (n : Nat) (nm : Bytes) (d : Nat)
    (hnm : noEol nm) (hd : d = LF ∨ d = CR) :
    run branch ⟨.fndaAfter n, a⟩ (nm ++ [d]) = ⟨.dispatch, commitFnda a n nm⟩ := by
  cases nm with
  | nil => simp [run, step, hd]
  | cons x nm =>
    obtain ⟨h1, h2⟩ := hnm x (by simp)
    have hs : step branch ⟨.fndaAfter n, a⟩ x = ⟨.fndaName n [x], a⟩ := by simp [step, h1, h2]
    simp only [List.cons_append, run_cons, hs]
    rw [run_fndaName branch a n [x] nm d (fun y hy => hnm y (List.mem_cons_of_mem _ hy)) hd]
    simp

theorem run_brTaken (a : Acc) (l n : Nat) (t : Bool) (tk : Bytes) (d : Nat) (htk : noEol tk)
    (hd : d = LF ∨ d = CR) :
    run true ⟨.brTaken l n t, a⟩ (tk ++ [d]) = ⟨.dispatch, commitBranch a l n (t || takenOf tk)⟩ := by
  induction tk generalizing t with
  | nil => simp [run, step, hd, takenOf]
  | cons x tk ih =>
    obtain ⟨h1, h2⟩ := htk x (by simp)
    have hs : step true ⟨.brTaken l n t, a⟩ x
        = ⟨.brTaken l n (t || decide (x ≠ 45 ∧ x ≠ 48)), a⟩ := by simp [step, h1, h2]
    simp only [List.cons_append, run_cons, hs]
    rw [ih _ fun y hy => htk y (List.mem_cons_of_mem _ hy)]
    simp [takenOf, Bool.or_assoc]

theorem run_brAfterBranch (a : Acc) (l n : Nat) (tk : Bytes) (d : Nat) (htk : noEol tk)
    (hd : d = LF ∨ d = CR) :
    run true ⟨.brAfterBranch l n, a⟩ (tk ++ [d]) = ⟨.dispatch, commitBranch a l n (takenOf tk)⟩ := by
  cases tk with
  | nil => simp [run, step, hd, takenOf]
  | cons x tk =>
    obtain ⟨h1, h2⟩ := htk x (by simp)
    have hs : step true ⟨.brAfterBranch l n, a⟩ x
        = ⟨.brTaken l n (decide (x ≠ 45 ∧ x ≠ 48)), a⟩ := by simp [step, h1, h2]
    simp only [List.cons_append, run_cons, hs]
    rw [run_brTaken a l n _ tk d (fun y hy => htk y (List.mem_cons_of_mem _ hy)) hd]
    simp [takenOf]

end Grcov.Lcov

namespace Grcov.Lcov
open Grcov AList Grcov.Lcov.Spec

/-! ### numeric fields -/

theorem isDigit_le (x : Nat) (h : isDigit x = true) : 48 ≤ x ∧ x ≤ 57 := by
  simpa [isDigit] using h

/-- a digit-string field read by a `First` state (which only checks the first byte) and its
`digitsStep` family -/
theorem run_field (branch : Bool) (bound : Nat) (first : Ctl) (mk done : Nat → Ctl) (a : Acc)
    (hfirst : ∀ b, isDigit b = true → step branch ⟨first, a⟩ b = ⟨digitsStep bound 0 b mk done, a⟩)
    (hstep : ∀ n b, step branch ⟨mk n, a⟩ b = ⟨digitsStep bound n b mk done, a⟩)
    (d : Digits) (hd : d.WF bound) (delim : Nat) (hdel : isDigit delim = false) :
    run branch ⟨first, a⟩ (d.bytes ++ [delim]) = ⟨done d.val, a⟩ := by
  obtain ⟨h1, h2, h3⟩ := hd
  have hv : d.val = valFrom (d.first - 48) d.rest := by simp [Digits.val, Digits.bytes, valFrom]
  rw [hv] at h3 ⊢
  have hx0 : d.first - 48 ≤ bound := Nat.le_trans (valFrom_ge _ _) h3
  have s1 : step branch ⟨first, a⟩ d.first = ⟨mk (d.first - 48), a⟩ := by
    rw [hfirst _ h1]; simp [digitsStep, h1, pushDigit, hx0]
  simp only [Digits.bytes, List.cons_append, run_cons, s1]
  exact run_digits branch bound mk done a hstep (d.first - 48) d.rest delim h2 hdel h3

theorem comma_not_digit : isDigit 44 = false := by decide

/-! ### whole records -/

theorem fn_record_bytes (branch : Bool) (a : Acc) (s : Digits) (name eol : Bytes)
    (hs : s.WF U32MAX) (hn : noEol name) (heol : eol = [LF] ∨ eol = [CR, LF]) :
    run branch ⟨.dispatch, a⟩ ([70, 78, 58] ++ s.bytes ++ [44] ++ name ++ eol)
      = ⟨.dispatch, commitFn a s.val name⟩ := by
  obtain ⟨d, rest, rfl, hd, hrest⟩ := eol_cases eol heol
  have e1 : [70, 78, 58] ++ s.bytes ++ [44] ++ name ++ d :: rest
      = [70, 78, 58] ++ ((s.bytes ++ [44]) ++ ((name ++ [d]) ++ rest)) := by simp
  have p : run branch ⟨.dispatch, a⟩ [70, 78, 58] = ⟨.fnFirst, a⟩ := by
    simp [run, step, isUpper, afterKey, kSF, kDA, kFN, LF, U32MAX]
  rw [e1, run_append, p, run_append,
    run_field branch U32MAX .fnFirst .fnStart .fnAfterStart a
      (fun b hb => by simp [step, hb]) (fun n b => rfl) s hs 44 comma_not_digit,
    run_append, run_fnAfterStart branch a s.val name d hn hd]
  exact run_eol_rest branch _ rest hrest

theorem fnda_record_bytes (branch : Bool) (a : Acc) (c : Digits) (name eol : Bytes)
    (hc : c.WF U64MAX) (hn : noEol name) (heol : eol = [LF] ∨ eol = [CR, LF]) :
    run branch ⟨.dispatch, a⟩ ([70, 78, 68, 65, 58] ++ c.bytes ++ [44] ++ name ++ eol)
      = ⟨.dispatch, commitFnda a c.val name⟩ := by
  obtain ⟨d, rest, rfl, hd, hrest⟩ := eol_cases eol heol
  have e1 : [70, 78, 68, 65, 58] ++ c.bytes ++ [44] ++ name ++ d :: rest
      = [70, 78, 68, 65, 58] ++ ((c.bytes ++ [44]) ++ ((name ++ [d]) ++ rest)) := by simp
  have p : run branch ⟨.dispatch, a⟩ [70, 78, 68, 65, 58] = ⟨.fndaFirst, a⟩ := by
    simp [run, step, isUpper, afterKey, kSF, kDA, kFN, kFNDA, LF, U32MAX]
  rw [e1, run_append, p, run_append,
    run_field branch U64MAX .fndaFirst .fndaCount .fndaAfter a
      (fun b hb => by simp [step, hb]) (fun n b => rfl) c hc 44 comma_not_digit,
    run_append, run_fndaAfter branch a c.val name d hn hd]
  exact run_eol_rest branch _ rest hrest

theorem brda_prefix_on (a : Acc) :
    run true ⟨.dispatch, a⟩ [66, 82, 68, 65, 58] = ⟨.brFirst, a⟩ := by
  simp [run, step, isUpper, afterKey, kSF, kDA, kFN, kFNDA, kBRDA, LF, U32MAX]

theorem brda_prefix_off (a : Acc) :
    run false ⟨.dispatch, a⟩ [66, 82, 68, 65, 58] = ⟨.skip, a⟩ := by
  simp [run, step, isUpper, afterKey, kSF, kDA, kFN, kFNDA, kBRDA, LF, U32MAX]

theorem brda_record_bytes_on (a : Acc) (l : Digits) (exc : Bool) (blk br : Digits) (taken eol : Bytes)
    (hl : l.WF U32MAX) (hb : blk.WF U64MAX) (hr : br.WF U32MAX) (ht : noEol taken)
    (heol : eol = [LF] ∨ eol = [CR, LF]) :
    run true ⟨.dispatch, a⟩
        ([66, 82, 68, 65, 58] ++ l.bytes ++ [44] ++ excBytes exc ++ blk.bytes ++ [44] ++ br.bytes ++ [44] ++ taken ++ eol)
      = ⟨.dispatch, commitBranch a l.val br.val (takenOf taken)⟩ := by
  obtain ⟨d, rest, rfl, hd, hrest⟩ := eol_cases eol heol
  have hne : ∀ b, isDigit b = true → b ≠ 101 := by
    intro b hb e; subst e; simp [isDigit] at hb
  cases exc with
  | false =>
    have e1 : [66, 82, 68, 65, 58] ++ l.bytes ++ [44] ++ excBytes false ++ blk.bytes ++ [44] ++ br.bytes ++ [44] ++ taken ++ d :: rest
        = [66, 82, 68, 65, 58] ++ ((l.bytes ++ [44]) ++ ((blk.bytes ++ [44]) ++ ((br.bytes ++ [44])
            ++ ((taken ++ [d]) ++ rest)))) := by simp [excBytes]
    rw [e1, run_append, brda_prefix_on, run_append,
      run_field true U32MAX .brFirst .brLine .brAfterLine a
        (fun b hb => by simp [step, hb]) (fun n b => rfl) l hl 44 comma_not_digit,
      run_append,
      run_field true U64MAX (.brAfterLine l.val) (.brBlock l.val) (fun _ => .brAfterBlock l.val) a
        (fun b hb => by simp [step, hne b hb]) (fun n b => rfl) blk hb 44 comma_not_digit,
      run_append,
      run_field true U32MAX (.brAfterBlock l.val) (.brBranch l.val) (.brAfterBranch l.val) a
        (fun b _ => rfl) (fun n b => rfl) br hr 44 comma_not_digit,
      run_append, run_brAfterBranch a l.val br.val taken d ht hd]
    exact run_eol_rest true _ rest hrest
  | true =>
    -- the `e` is skipped: the block digits start from `brBlock l 0`, which reads like `brAfterLine`
    have e1 : [66, 82, 68, 65, 58] ++ l.bytes ++ [44] ++ excBytes true ++ blk.bytes ++ [44] ++ br.bytes ++ [44] ++ taken ++ d :: rest
        = [66, 82, 68, 65, 58] ++ ((l.bytes ++ [44]) ++ (101 :: ((blk.bytes ++ [44]) ++ ((br.bytes ++ [44])
            ++ ((taken ++ [d]) ++ rest))))) := by simp [excBytes]
    have he : step true ⟨.brAfterLine l.val, a⟩ 101 = ⟨.brBlock l.val 0, a⟩ := by simp [step]
    rw [e1, run_append, brda_prefix_on, run_append,
      run_field true U32MAX .brFirst .brLine .brAfterLine a
        (fun b hb => by simp [step, hb]) (fun n b => rfl) l hl 44 comma_not_digit,
      run_cons, he, run_append,
      run_field true U64MAX (.brBlock l.val 0) (.brBlock l.val) (fun _ => .brAfterBlock l.val) a
        (fun b _ => rfl) (fun n b => rfl) blk hb 44 comma_not_digit,
      run_append,
      run_field true U32MAX (.brAfterBlock l.val) (.brBranch l.val) (.brAfterBranch l.val) a
        (fun b _ => rfl) (fun n b => rfl) br hr 44 comma_not_digit,
      run_append, run_brAfterBranch a l.val br.val taken d ht hd]
    exact run_eol_rest true _ rest hrest

theorem digits_noLF (d : Digits) (bound : Nat) (h : d.WF bound) : noLF d.bytes := by
  intro x hx
  simp only [Digits.bytes, List.mem_cons] at hx
  rcases hx with hx | hx
  · subst hx; have := isDigit_le _ h.1; simp [LF]; omega
  · have := isDigit_le _ (h.2.1 x hx); simp [LF]; omega

theorem noLF_append {xs ys : Bytes} (h1 : noLF xs) (h2 : noLF ys) : noLF (xs ++ ys) := by
  intro x hx
  simp only [List.mem_append] at hx
  rcases hx with hx | hx
  · exact h1 x hx
  · exact h2 x hx

theorem noLF_of_noEol {xs : Bytes} (h : noEol xs) : noLF xs := fun x hx => (h x hx).1

theorem brda_record_bytes_off (a : Acc) (l : Digits) (exc : Bool) (blk br : Digits) (taken eol : Bytes)
    (hl : l.WF U32MAX) (hb : blk.WF U64MAX) (hr : br.WF U32MAX) (ht : noEol taken)
    (heol : eol = [LF] ∨ eol = [CR, LF]) :
    run false ⟨.dispatch, a⟩
        ([66, 82, 68, 65, 58] ++ l.bytes ++ [44] ++ excBytes exc ++ blk.bytes ++ [44] ++ br.bytes ++ [44] ++ taken ++ eol)
      = ⟨.dispatch, a⟩ := by
  have h44 : noLF [44] := by intro x hx; simp at hx; subst hx; decide
  have hexc : noLF (excBytes exc) := by
    intro x hx; cases exc <;> simp [excBytes] at hx; subst hx; decide
  have hbody : noLF (l.bytes ++ [44] ++ excBytes exc ++ blk.bytes ++ [44] ++ br.bytes ++ [44] ++ taken) :=
    noLF_append (noLF_append (noLF_append (noLF_append (noLF_append (noLF_append (noLF_append
      (digits_noLF l _ hl) h44) hexc) (digits_noLF blk _ hb)) h44) (digits_noLF br _ hr)) h44)
      (noLF_of_noEol ht)
  rcases heol with h | h <;> subst h
  · have e1 : [66, 82, 68, 65, 58] ++ l.bytes ++ [44] ++ excBytes exc ++ blk.bytes ++ [44] ++ br.bytes ++ [44] ++ taken ++ [LF]
        = [66, 82, 68, 65, 58] ++ ((l.bytes ++ [44] ++ excBytes exc ++ blk.bytes ++ [44] ++ br.bytes ++ [44] ++ taken) ++ [LF]) := by
      simp
    rw [e1, run_append, brda_prefix_off, run_skip false a _ hbody]
  · have hcr : noLF [CR] := by intro x hx; simp at hx; subst hx; decide
    have e1 : [66, 82, 68, 65, 58] ++ l.bytes ++ [44] ++ excBytes exc ++ blk.bytes ++ [44] ++ br.bytes ++ [44] ++ taken ++ [CR, LF]
        = [66, 82, 68, 65, 58] ++ (((l.bytes ++ [44] ++ excBytes exc ++ blk.bytes ++ [44] ++ br.bytes ++ [44] ++ taken) ++ [CR]) ++ [LF]) := by
      simp
    rw [e1, run_append, brda_prefix_off, run_skip false a _ (noLF_append hbody hcr)]

theorem sf_record_bytes (branch : Bool) (a : Acc) (sf eol : Bytes) (hn : noEol sf)
    (heol : eol = [LF] ∨ eol = [CR, LF]) :
    run branch ⟨.dispatch, a⟩ ([83, 70, 58] ++ sf ++ eol)
      = ⟨.dispatch, { a with curFile := some (utf8Lossy sf) }⟩ := by
  obtain ⟨d, rest, rfl, hd, hrest⟩ := eol_cases eol heol
  have e1 : [83, 70, 58] ++ sf ++ d :: rest = [83, 70, 58] ++ ((sf ++ [d]) ++ rest) := by simp
  have p : run branch ⟨.dispatch, a⟩ [83, 70, 58] = ⟨.sfName [], a⟩ := by
    simp [run, step, isUpper, afterKey, kSF, LF, U32MAX]
  rw [e1, run_append, p, run_append, run_sfName branch a [] sf d hn hd]
  simpa using run_eol_rest branch _ rest hrest

/-- `DA:<line>,<count>` followed by the rest of its line: nothing, a CR, or a checksum field – the
count ends at the first non-digit and whatever follows up to the line feed is skipped -/
theorem da_tail_record_bytes (branch : Bool) (a : Acc) (l c : Digits) (tail : Bytes)
    (hl : l.WF U32MAX) (hc : c.WF U64MAX) (ht : noLF tail)
    (hh : ∀ d t, tail = d :: t → isDigit d = false) :
    run branch ⟨.dispatch, a⟩ ([68, 65, 58] ++ l.bytes ++ [44] ++ c.bytes ++ tail ++ [LF])
      = ⟨.dispatch, commitLine a l.val c.val⟩ := by
  obtain ⟨c1, c2, c3⟩ := hc
  have hvc : c.val = valFrom (c.first - 48) c.rest := by simp [Digits.val, Digits.bytes, valFrom]
  rw [hvc] at c3 ⊢
  have e1 : [68, 65, 58] ++ l.bytes ++ [44] ++ c.bytes ++ tail ++ [LF]
      = [68, 65, 58] ++ ((l.bytes ++ [44]) ++ ([c.first] ++ (c.rest ++ (tail ++ [LF])))) := by
    simp [Digits.bytes]
  rw [e1, run_append, run_da_prefix, run_append,
    run_field branch U32MAX .daFirst .daLine .daAfterLine a
      (fun b hb => by simp [step, hb]) (fun n b => rfl) l hl 44 comma_not_digit, run_append]
  have s3 : run branch ⟨.daAfterLine l.val, a⟩ [c.first] = ⟨.daCount l.val (c.first - 48), a⟩ := by
    have : c.first ≠ 45 := by
      intro h; rw [h] at c1; simp [isDigit] at c1
    simp [run, step, c1, this]
  rw [s3]
  cases tail with
  | nil =>
    rw [List.nil_append, run_daCount branch a _ _ c.rest LF c2 (by decide) c3]; simp
  | cons d t =>
    have hd : isDigit d = false := hh d t rfl
    have hne : d ≠ LF := ht d (by simp)
    have e2 : c.rest ++ (d :: t ++ [LF]) = (c.rest ++ [d]) ++ (t ++ [LF]) := by simp
    rw [e2, run_append, run_daCount branch a _ _ c.rest d c2 hd c3]
    simp only [hne, if_false]
    exact run_daSkip branch a _ _ t fun x hx => ht x (List.mem_cons_of_mem _ hx)

theorem da_ck_record_bytes (branch : Bool) (a : Acc) (l c : Digits) (ck : Option Bytes) (eol : Bytes)
    (hl : l.WF U32MAX) (hc : c.WF U64MAX) (hk : noLF (checksumBytes ck))
    (heol : eol = [LF] ∨ eol = [CR, LF]) :
    run branch ⟨.dispatch, a⟩ ([68, 65, 58] ++ l.bytes ++ [44] ++ c.bytes ++ checksumBytes ck ++ eol)
      = ⟨.dispatch, commitLine a l.val c.val⟩ := by
  have hcr : noLF [CR] := by intro x hx; simp at hx; subst hx; decide
  rcases heol with h | h <;> subst h
  · have := da_tail_record_bytes branch a l c (checksumBytes ck) hl hc hk (by
      intro d t e; cases ck with
      | none => simp [checksumBytes] at e
      | some x => simp only [checksumBytes, List.cons.injEq] at e; rw [← e.1]; decide)
    simpa using this
  · have := da_tail_record_bytes branch a l c (checksumBytes ck ++ [CR]) hl hc (noLF_append hk hcr) (by
      intro d t e; cases ck with
      | none => simp only [checksumBytes, List.nil_append, List.cons.injEq] at e; rw [← e.1]; decide
      | some x => simp only [checksumBytes, List.cons_append, List.cons.injEq] at e; rw [← e.1]; decide)
    simpa using this

theorem daNeg_record_bytes (branch : Bool) (a : Acc) (l : Digits) (txt : Bytes)
    (hl : l.WF U32MAX) (ht : noLF txt) :
    run branch ⟨.dispatch, a⟩ ([68, 65, 58] ++ l.bytes ++ [44, 45] ++ txt ++ [LF])
      = ⟨.dispatch, commitLine a l.val 0⟩ := by
  have e1 : [68, 65, 58] ++ l.bytes ++ [44, 45] ++ txt ++ [LF]
      = [68, 65, 58] ++ ((l.bytes ++ [44]) ++ ([45] ++ (txt ++ [LF]))) := by simp
  rw [e1, run_append, run_da_prefix, run_append,
    run_field branch U32MAX .daFirst .daLine .daAfterLine a
      (fun b hb => by simp [step, hb]) (fun n b => rfl) l hl 44 comma_not_digit, run_append]
  have s : run branch ⟨.daAfterLine l.val, a⟩ [45] = ⟨.skip, commitLine a l.val 0⟩ := by
    simp [run, step]
  rw [s, run_skip branch _ txt ht]

theorem other_record_bytes (branch : Bool) (a : Acc) (b : Nat) (txt : Bytes)
    (hb : b ≠ 83 ∧ b ≠ 68 ∧ b ≠ 70 ∧ b ≠ 66 ∧ b ≠ 101 ∧ b ≠ LF) (ht : noLF txt) :
    run branch ⟨.dispatch, a⟩ ((b :: txt) ++ [LF]) = ⟨.dispatch, a⟩ := by
  obtain ⟨h1, h2, h3, h4, h5, h6⟩ := hb
  have s : step branch ⟨.dispatch, a⟩ b = ⟨.skip, a⟩ := by simp [step, h1, h2, h3, h4, h5, h6]
  simp only [List.cons_append, run_cons, s]
  exact run_skip branch a txt ht

theorem eor_record_bytes (branch : Bool) (a : Acc) (f : Bytes) (eor : Bytes)
    (hf : a.curFile = some f) (hp : a.pending = []) (he : noLF eor) :
    run branch ⟨.dispatch, a⟩ ([101] ++ eor ++ [LF])
      = ⟨.dispatch, { results := a.results ++ [(f, a.cur)], curFile := none, cur := {}, pending := [] }⟩ := by
  have s : step branch ⟨.dispatch, a⟩ 101
      = ⟨.skip, { results := a.results ++ [(f, a.cur)], curFile := none, cur := {}, pending := [] }⟩ := by
    simp [step, hf, hp]
  simp only [List.cons_append, List.nil_append, run_cons, s]
  exact run_skip branch _ eor he

/-- `end_of_record` while an FNDA record is still waiting for its FN record: "FN record missing" -/
theorem eor_pending_bytes (branch : Bool) (a : Acc) (f : Bytes) (hf : a.curFile = some f)
    (hp : a.pending ≠ []) :
    step branch ⟨.dispatch, a⟩ 101 = ⟨.halt (.err "Parse"), a⟩ := by
  have : a.pending.isEmpty = false := by cases h : a.pending <;> simp_all
  simp [step, hf, this]

theorem run_halt (branch : Bool) (o : Out) (a : Acc) (bs : Bytes) :
    run branch ⟨.halt o, a⟩ bs = ⟨.halt o, a⟩ := by
  induction bs with
  | nil => rfl
  | cons b bs ih => simpa [run_cons, step] using ih

theorem isUpper_le (x : Nat) (h : isUpper x = true) : 65 ≤ x ∧ x ≤ 90 := by
  simpa [isUpper] using h

/-- a key of at most four letters never overflows the u32 accumulator; a non-letter ends it -/
theorem run_key (branch : Bool) (a : Acc) (b : Nat) (ks : Bytes) (d : Nat)
    (hb : b = 83 ∨ b = 68 ∨ b = 70 ∨ b = 66) (hks : ∀ x ∈ ks, isUpper x = true) (hlen : ks.length ≤ 3)
    (hd : isUpper d = false) :
    run branch ⟨.dispatch, a⟩ ((b :: ks) ++ [d]) = ⟨afterKey branch (keyVal (b :: ks)), a⟩ := by
  have s0 : step branch ⟨.dispatch, a⟩ b = ⟨.key b, a⟩ := by
    have h1 : b ≠ 101 := by omega
    have h2 : b ≠ LF := by unfold LF; omega
    simp only [step, h1, h2, if_false, hb, if_true]
  have hb' : b ≤ 90 := by rcases hb with h | h | h | h <;> omega
  simp only [List.cons_append, run_cons, s0]
  have stepU : ∀ k x, isUpper x = true → k * 256 + x ≤ U32MAX →
      step branch ⟨.key k, a⟩ x = ⟨.key (k * 256 + x), a⟩ := by
    intro k x hx hle
    have : k * 256 ≤ U32MAX := Nat.le_trans (Nat.le_add_right _ _) hle
    simp [step, hx, this, hle]
  have stepD : ∀ k, step branch ⟨.key k, a⟩ d = ⟨afterKey branch k, a⟩ := by
    intro k; simp [step, hd]
  match ks, hks, hlen with
  | [], _, _ => simp [run_cons, run_nil, stepD, keyVal]
  | [x], hks, _ =>
    have hx := isUpper_le x (hks x (by simp))
    rw [show [x] ++ [d] = x :: [d] from rfl, run_cons, stepU b x (hks x (by simp)) (by unfold U32MAX; omega),
      run_cons, stepD]
    simp [run_nil, keyVal]
  | [x, y], hks, _ =>
    have hx := isUpper_le x (hks x (by simp))
    have hy := isUpper_le y (hks y (by simp))
    rw [show [x, y] ++ [d] = x :: y :: [d] from rfl, run_cons, stepU b x (hks x (by simp)) (by unfold U32MAX; omega),
      run_cons, stepU _ y (hks y (by simp)) (by unfold U32MAX; omega), run_cons, stepD]
    simp [run_nil, keyVal]
  | [x, y, z], hks, _ =>
    have hx := isUpper_le x (hks x (by simp))
    have hy := isUpper_le y (hks y (by simp))
    have hz := isUpper_le z (hks z (by simp))
    rw [show [x, y, z] ++ [d] = x :: y :: z :: [d] from rfl, run_cons,
      stepU b x (hks x (by simp)) (by unfold U32MAX; omega),
      run_cons, stepU _ y (hks y (by simp)) (by unfold U32MAX; omega),
      run_cons, stepU _ z (hks z (by simp)) (by unfold U32MAX; omega), run_cons, stepD]
    simp [run_nil, keyVal]
  | _ :: _ :: _ :: _ :: _, _, hlen => simp at hlen

theorem otherKeyed_record_bytes (branch : Bool) (a : Acc) (key : Bytes) (d : Nat) (txt : Bytes)
    (h : (Rec.otherKeyed key d txt).WF) :
    run branch ⟨.dispatch, a⟩ (key ++ [d] ++ txt ++ [LF]) = ⟨.dispatch, a⟩ := by
  obtain ⟨htxt, hd, hdl, hkey, n1, n2, n3, n4, n5⟩ := h
  cases key with
  | nil => exact absurd hkey (by simp)
  | cons b ks =>
    obtain ⟨hb, hks, hlen⟩ := hkey
    have e1 : (b :: ks) ++ [d] ++ txt ++ [LF] = ((b :: ks) ++ [d]) ++ (txt ++ [LF]) := by simp
    rw [e1, run_append, run_key branch a b ks d hb hks hlen hd]
    have hk : afterKey branch (keyVal (b :: ks)) = .skip := by
      simp [afterKey, n1, n2, n3, n4, n5]
    rw [hk]
    exact run_skip branch a txt htxt

/-! ### every record, every section, every file -/

theorem rec_bytes (branch : Bool) (eol : Bytes) (heol : eol = [LF] ∨ eol = [CR, LF]) (a : Acc)
    (r : Rec) (hr : r.WF) :
    run branch ⟨.dispatch, a⟩ (renderRec eol r) = ⟨.dispatch, applyRec branch a r⟩ := by
  cases r with
  | da l c ck =>
    obtain ⟨hl, hc, hk⟩ := hr
    exact da_ck_record_bytes branch a l c ck eol hl hc hk heol
  | daNeg l txt => exact daNeg_record_bytes branch a l txt hr.1 hr.2
  | fn s name => exact fn_record_bytes branch a s name eol hr.1 hr.2 heol
  | fnda c name => exact fnda_record_bytes branch a c name eol hr.1 hr.2 heol
  | brda l exc blk br taken =>
    obtain ⟨hl, hb, hbr, ht⟩ := hr
    cases branch with
    | true => simpa [renderRec, applyRec] using brda_record_bytes_on a l exc blk br taken eol hl hb hbr ht heol
    | false => simpa [renderRec, applyRec] using brda_record_bytes_off a l exc blk br taken eol hl hb hbr ht heol
  | other txt =>
    obtain ⟨ht, hb⟩ := hr
    cases txt with
    | nil => exact absurd hb (by simp)
    | cons b txt =>
      exact other_record_bytes branch a b txt hb fun x hx => ht x (List.mem_cons_of_mem _ hx)
  | otherKeyed key d txt => exact otherKeyed_record_bytes branch a key d txt hr
  | blank => exact run_dispatch_LF branch a

theorem recs_bytes (branch : Bool) (eol : Bytes) (heol : eol = [LF] ∨ eol = [CR, LF]) (a : Acc)
    (rs : List Rec) (hr : ∀ r ∈ rs, r.WF) :
    run branch ⟨.dispatch, a⟩ (rs.flatMap (renderRec eol)) = ⟨.dispatch, applyRecs branch a rs⟩ := by
  induction rs generalizing a with
  | nil => rfl
  | cons r rs ih =>
    simp only [List.flatMap_cons, run_append]
    rw [rec_bytes branch eol heol a r (hr r (by simp))]
    exact ih _ (fun r' hr' => hr r' (List.mem_cons_of_mem _ hr'))

theorem applyRecs_cons (branch : Bool) (a : Acc) (r : Rec) (rs : List Rec) :
    applyRecs branch a (r :: rs) = applyRecs branch (applyRec branch a r) rs := rfl

theorem applyRecs_nil (branch : Bool) (a : Acc) : applyRecs branch a [] = a := rfl

theorem applyRecs_append (branch : Bool) (a : Acc) (xs ys : List Rec) :
    applyRecs branch a (xs ++ ys) = applyRecs branch (applyRecs branch a xs) ys := by
  simp [applyRecs, List.foldl_append]

/-- inert records leave the accumulator alone -/
theorem applyRecs_inert (branch : Bool) (a : Acc) (rs : List Rec) (h : ∀ r ∈ rs, r.isInert = true) :
    applyRecs branch a rs = a := by
  induction rs with
  | nil => rfl
  | cons r rs ih =>
    have hr := h r (by simp)
    have : applyRec branch a r = a := by cases r <;> simp [Rec.isInert] at hr <;> rfl
    rw [applyRecs_cons, this, ih fun r' hr' => h r' (List.mem_cons_of_mem _ hr')]

/-- records only ever change `cur` and `pending` -/
theorem applyRec_frame (branch : Bool) (a : Acc) (r : Rec) :
    (applyRec branch a r).results = a.results ∧ (applyRec branch a r).curFile = a.curFile := by
  cases r
  case fnda c name => simp only [applyRec, commitFnda]; split <;> exact ⟨rfl, rfl⟩
  case brda l exc blk br taken => cases branch <;> exact ⟨rfl, rfl⟩
  all_goals exact ⟨rfl, rfl⟩

theorem applyRecs_frame (branch : Bool) (a : Acc) (rs : List Rec) :
    (applyRecs branch a rs).results = a.results ∧ (applyRecs branch a rs).curFile = a.curFile := by
  induction rs generalizing a with
  | nil => exact ⟨rfl, rfl⟩
  | cons r rs ih =>
    rw [applyRecs_cons]
    have f1 := applyRec_frame branch a r
    have f2 := ih (applyRec branch a r)
    exact ⟨f2.1.trans f1.1, f2.2.trans f1.2⟩

/-- the bytes of a section up to (not including) its `end_of_record` line -/
theorem section_body_bytes (branch : Bool) (eol : Bytes) (heol : eol = [LF] ∨ eol = [CR, LF])
    (R : List (Bytes × Cov)) (cf : Option Bytes) (s : Section) (hs : s.WF) :
    run branch ⟨.dispatch, { results := R, curFile := cf, cur := {}, pending := [] }⟩
        ((s.pre.flatMap (renderRec eol)) ++ (([83, 70, 58] ++ s.sf ++ eol)
          ++ (s.recs.flatMap (renderRec eol))))
      = ⟨.dispatch, applyRecs branch
          { results := R, curFile := some (utf8Lossy s.sf), cur := {}, pending := [] } s.recs⟩ := by
  obtain ⟨hpre, hsf, hrecs, heor⟩ := hs
  rw [run_append, recs_bytes branch eol heol _ s.pre (fun r hr => (hpre r hr).1),
    applyRecs_inert branch _ s.pre (fun r hr => (hpre r hr).2),
    run_append, sf_record_bytes branch _ s.sf eol hsf heol,
    recs_bytes branch eol heol _ s.recs hrecs]

theorem renderSection_split (eol : Bytes) (s : Section) :
    renderSection eol s
      = ((s.pre.flatMap (renderRec eol)) ++ (([83, 70, 58] ++ s.sf ++ eol)
          ++ (s.recs.flatMap (renderRec eol)))) ++ ([101] ++ s.eor ++ [LF]) := by
  simp [renderSection]

/-- one whole section, from `SF:` to `end_of_record`, appends exactly one file record -/
theorem section_bytes (branch : Bool) (eol : Bytes) (heol : eol = [LF] ∨ eol = [CR, LF])
    (R : List (Bytes × Cov)) (cf : Option Bytes) (s : Section) (hs : s.WF)
    (hp : (applyRecs branch { results := R, curFile := some (utf8Lossy s.sf), cur := {}, pending := [] }
            s.recs).pending = []) :
    run branch ⟨.dispatch, { results := R, curFile := cf, cur := {}, pending := [] }⟩ (renderSection eol s)
      = ⟨.dispatch,
          { results := R ++ [(utf8Lossy s.sf, (applyRecs branch { results := R, curFile := some (utf8Lossy s.sf), cur := {}, pending := [] } s.recs).cur)],
            curFile := none, cur := {}, pending := [] }⟩ := by
  rw [renderSection_split, run_append, section_body_bytes branch eol heol R cf s hs]
  obtain ⟨f1, f2⟩ := applyRecs_frame branch
    { results := R, curFile := some (utf8Lossy s.sf), cur := {}, pending := [] } s.recs
  rw [eor_record_bytes branch _ (utf8Lossy s.sf) s.eor (by simpa using f2) hp hs.2.2.2]
  simp only [f1]

def withResults (R : List (Bytes × Cov)) (a : Acc) : Acc := { a with results := R }

theorem applyRec_withResults (branch : Bool) (R : List (Bytes × Cov)) (a : Acc) (r : Rec) :
    applyRec branch (withResults R a) r = withResults R (applyRec branch a r) := by
  cases r <;> simp only [applyRec]
  case fnda c name =>
    simp only [commitFnda, withResults]
    cases get? a.cur.functions (utf8Lossy name) <;> rfl
  case brda l exc blk br taken => cases branch <;> rfl
  all_goals rfl

theorem applyRecs_withResults (branch : Bool) (R : List (Bytes × Cov)) (a : Acc) (rs : List Rec) :
    applyRecs branch (withResults R a) rs = withResults R (applyRecs branch a rs) := by
  induction rs generalizing a with
  | nil => rfl
  | cons r rs ih => rw [applyRecs_cons, applyRecs_cons, applyRec_withResults, ih]

/-- the whole file: every section appends its record, in order -/
theorem file_bytes (branch : Bool) (eol : Bytes) (heol : eol = [LF] ∨ eol = [CR, LF])
    (secs : List Section) (hs : ∀ s ∈ secs, s.WF) (rs : List (Bytes × Cov))
    (hsem : semAll branch secs = some rs) (R : List (Bytes × Cov)) (cf : Option Bytes) :
    run branch ⟨.dispatch, { results := R, curFile := cf, cur := {}, pending := [] }⟩ (render eol secs)
      = ⟨.dispatch, { results := R ++ rs, curFile := (if secs = [] then cf else none), cur := {},
                      pending := [] }⟩ := by
  induction secs generalizing R cf rs with
  | nil => simp only [semAll, Option.some.injEq] at hsem; subst hsem; simp [render, run]
  | cons s ss ih =>
    simp only [semAll] at hsem
    cases h1 : semSection branch s with
    | none => rw [h1] at hsem; simp at hsem
    | some r1 =>
      rw [h1] at hsem
      cases h2 : semAll branch ss with
      | none => rw [h2] at hsem; simp at hsem
      | some rs2 =>
        rw [h2] at hsem
        simp only [Option.bind_eq_bind, Option.bind_some, Option.pure_def, Option.some.injEq] at hsem
        subst hsem
        -- the section's accumulator, computed with an empty result list
        simp only [semSection] at h1
        split at h1
        · rename_i hpend
          simp only [Option.some.injEq] at h1; subst h1
          have h4 := applyRecs_withResults branch R
            { results := [], curFile := some (utf8Lossy s.sf), cur := {}, pending := [] } s.recs
          have h4' : applyRecs branch { results := R, curFile := some (utf8Lossy s.sf), cur := {}, pending := [] } s.recs
              = withResults R (applyRecs branch
                  { results := [], curFile := some (utf8Lossy s.sf), cur := {}, pending := [] } s.recs) := h4
          have hp : (applyRecs branch { results := R, curFile := some (utf8Lossy s.sf), cur := {}, pending := [] }
              s.recs).pending = [] := by
            rw [h4']; simpa [withResults] using hpend
          have hsec := section_bytes branch eol heol R cf s (hs s (by simp)) hp
          have e : render eol (s :: ss) = renderSection eol s ++ render eol ss := by simp [render]
          rw [e, run_append, hsec, h4']
          rw [ih (fun s' hs' => hs s' (List.mem_cons_of_mem _ hs')) rs2 h2]
          cases ss <;> simp [withResults]
        · simp at h1

end Grcov.Lcov
