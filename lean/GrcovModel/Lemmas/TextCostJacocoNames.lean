/-
C14, part TextCost – names in the result of the JaCoCo reader: every name is made of at most two
attribute values (`parseCap_names`), hence no longer than twice the input; but the package name is
repeated in the name of every file of the package (and the class name in every method name), so the
names TOGETHER are quadratic in the input: the family `prefixReport` (`prefixReport_result`,
`prefixReport_sizes`).
-/
import GrcovModel.Lemmas.TextCostJacoco
namespace Grcov.Jacoco
open Grcov AList Grcov.TextCost Grcov.Size


theorem unescapeGo_plain (s : Name) (h : 38 ∉ s) : unescapeGo none s = some s := by
  induction s with
  | nil => rfl
  | cons c r ih =>
    have hc : c ≠ 38 := fun e => h (by simp [e])
    have hr : 38 ∉ r := fun e => h (List.mem_cons_of_mem _ e)
    simp [unescapeGo, hc, ih hr]

theorem getAttr_single (k : Name) (h : 38 ∉ k) : getAttr sName [(sName, k)] = .ok k := by
  have hne : ¬ sName = [] := by decide
  simp [getAttr, getAttrAux, unescape, unescapeGo_plain k h, hne]

theorem set_append_of_none {κ α : Type} [DecidableEq κ] (m : List (κ × α)) (x : κ) (v : α)
    (h : get? m x = none) : set m x v = m ++ [(x, v)] := by
  induction m with
  | nil => rfl
  | cons kv m ih =>
    obtain ⟨k, u⟩ := kv
    simp only [get?_cons] at h
    by_cases hk : k = x
    · simp [hk] at h
    · simp only [hk, if_false] at h
      simp [AList.set, hk, ih h]

theorem get?_append_none {κ α : Type} [DecidableEq κ] (m n : List (κ × α)) (x : κ)
    (h1 : get? m x = none) (h2 : get? n x = none) : get? (m ++ n) x = none := by
  induction m with
  | nil => simpa using h2
  | cons kv m ih =>
    obtain ⟨k, u⟩ := kv
    simp only [get?_cons] at h1
    by_cases hk : k = x
    · simp [hk] at h1
    · simp only [hk, if_false] at h1
      simp [hk, ih h1]

theorem localName_sSourcefile : localName sSourcefile = sSourcefile := by decide

/-- the package loop over a run of empty, distinctly named source files: one entry each -/
theorem packageLoop_sfEvents (cap : Nat) (pk : Name) (ks : List Name) (rest : List XmlEvent)
    (fuel : Nat) (m : List (Name × Cov)) (hnd : ks.Nodup) (hk : ∀ k ∈ ks, 38 ∉ k ∧ get? m k = none) :
    packageLoop cap pk (fuel + ks.length + 1) (sfEvents ks ++ rest) m
      = packageLoop cap pk (fuel + 1) rest (m ++ ks.map fun k => (k, ({} : Cov))) := by
  induction ks generalizing m with
  | nil => simp [sfEvents]
  | cons k ks ih =>
    have h1 := hk k (by simp)
    have hnd' := List.nodup_cons.mp hnd
    have e : fuel + (k :: ks).length + 1 = (fuel + ks.length + 1) + 1 := by simp; omega
    have hs : (sSourcefile = sClass) = False := by decide
    rw [e]
    simp only [sfEvents, List.flatMap_cons, List.cons_append, List.nil_append, packageLoop,
      localName_sSourcefile, hs, if_false, if_true, getAttr_single k h1.1, sourcefileLoop, addSource, h1.2]
    have := ih (m := set m k { lines := ([] : List (Nat × Nat)), branches := [] }) hnd'.2 (by
      intro k' hk'
      refine ⟨(hk k' (List.mem_cons_of_mem _ hk')).1, ?_⟩
      rw [set_append_of_none m k _ h1.2]
      apply get?_append_none _ _ _ (hk k' (List.mem_cons_of_mem _ hk')).2
      have : k ≠ k' := fun e => hnd'.1 (e ▸ hk')
      simp [this])
    simp only [sfEvents] at this
    rw [this, set_append_of_none m k _ h1.2]
    simp

theorem expand_sfEvents (ks : List Name) (rest : List XmlEvent) :
    expand (sfEvents ks ++ rest) = sfEvents ks ++ expand rest := by
  induction ks with
  | nil => simp [sfEvents]
  | cons k ks ih =>
    simp only [sfEvents, List.flatMap_cons, List.cons_append, List.nil_append, expand] at ih ⊢
    rw [ih]

theorem sfEvents_length (ks : List Name) : (sfEvents ks).length = 2 * ks.length := by
  induction ks with
  | nil => rfl
  | cons k ks ih => simp only [sfEvents, List.flatMap_cons, List.length_append, List.length_cons,
      List.length_nil] at ih ⊢; omega

theorem abKeys_no_amp {w : Nat} {k : Name} (h : k ∈ abKeys w) : 38 ∉ k := by
  intro e
  have := abKeys_bytes h 38 e
  omega

theorem replicate_no_amp (n : Nat) : 38 ∉ List.replicate n 112 := by
  intro e
  have := List.eq_of_mem_replicate e
  omega

theorem outPath_p (n : Nat) (k : Name) :
    outPath (List.replicate (n + 1) 112) k = List.replicate (n + 1) 112 ++ 47 :: k := by
  simp [outPath, List.replicate_succ, cSlash, List.dropWhile]

/-- the result of the family: 2^w files, each named `pp…p/k` -/
theorem prefixReport_result (cap L w : Nat) :
    parseCap cap (prefixReport L w) (enoughFuel (prefixReport L w))
      = .ok ((abKeys w).map fun k => (List.replicate (L + 1) 112 ++ 47 :: k, ({} : Cov))) := by
  have hlen : (prefixReport L w).length = 2 * 2 ^ w + 2 := by
    simp [prefixReport, sfEvents_length, abKeys_length]
  have hf : enoughFuel (prefixReport L w) = (3 * 2 ^ w + 3 + 2 ^ w + 1) + 1 := by
    simp only [enoughFuel, hlen]; omega
  have hexp : expand (prefixReport L w) = prefixReport L w := by
    simp [prefixReport, expand, expand_sfEvents]
  have hp : (sPackage = sPackage) = True := by simp
  rw [parseCap, hexp, hf]
  simp only [prefixReport, reportLoop, localName_sPackage, if_true,
    getAttr_single _ (replicate_no_amp (L + 1))]
  have hk : ∀ k ∈ abKeys w, 38 ∉ k ∧ get? ([] : List (Name × Cov)) k = none :=
    fun k hk => ⟨abKeys_no_amp hk, rfl⟩
  have hrun := packageLoop_sfEvents cap (List.replicate (L + 1) 112) (abKeys w) [.end_ sPackage]
    (3 * 2 ^ w + 3) [] (abKeys_nodup w) hk
  rw [abKeys_length] at hrun
  rw [hrun]
  simp only [packageLoop, localName_sPackage, if_true, List.nil_append, reportLoop, List.map_map]
  congr 1

theorem prefixReport_sizes (L w : Nat) :
    evsBytes (prefixReport L w) = L + 2 ^ w * (w + 30) + 25 ∧
    resNameBytes ((abKeys w).map fun k => (List.replicate (L + 1) 112 ++ 47 :: k, ({} : Cov)))
      = 2 ^ w * (L + w + 2) := by
  constructor
  · have aux : ∀ ks : List Name, (∀ k ∈ ks, k.length = w) → ∀ rest,
        evsBytes (sfEvents ks ++ rest) = ks.length * (w + 30) + evsBytes rest := by
      intro ks
      induction ks with
      | nil => intro _ rest; simp [sfEvents]
      | cons k ks ih =>
        intro h rest
        have := ih (fun k' hk' => h k' (List.mem_cons_of_mem _ hk')) rest
        simp only [sfEvents, evsBytes, List.flatMap_cons, List.cons_append, List.nil_append, List.map_cons,
          List.sum_cons, List.length_cons, evBytes, attrBytes, List.map_nil, List.sum_nil] at this ⊢
        rw [this, h k (by simp)]
        simp [sSourcefile, sName]
        ring
    simp only [prefixReport]
    have := aux (abKeys w) (fun k hk => abKeys_mem_length hk) [.end_ sPackage]
    simp only [evsBytes, List.map_cons, List.sum_cons] at this ⊢
    rw [this, abKeys_length]
    simp [evBytes, attrBytes, sPackage, sName]
    ring
  · have aux : ∀ ks : List Name, (∀ k ∈ ks, k.length = w) →
        resNameBytes (ks.map fun k => (List.replicate (L + 1) 112 ++ 47 :: k, ({} : Cov)))
          = ks.length * (L + w + 2) := by
      intro ks
      induction ks with
      | nil => intro _; simp [resNameBytes]
      | cons k ks ih =>
        intro h
        have := ih (fun k' hk' => h k' (List.mem_cons_of_mem _ hk'))
        simp only [resNameBytes, List.map_cons, List.sum_cons, List.length_cons] at this ⊢
        rw [this, ]
        simp [h k (by simp)]
        ring
    rw [aux (abKeys w) (fun k hk => abKeys_mem_length hk), abKeys_length]


/-! ### names: every name of the result is made of at most two attribute values -/

theorem encodeUtf8_length (c : Nat) : (encodeUtf8 c).length ≤ 4 := by
  unfold encodeUtf8
  repeat' split
  all_goals simp

theorem charRef_length {s bs : List Nat} (h : charRef s = some bs) : bs.length ≤ s.length + 3 := by
  have hne : s ≠ [] := by intro e; subst e; simp [charRef] at h
  have hl : 1 ≤ s.length := by cases s <;> simp_all
  unfold charRef at h
  simp only at h
  split at h
  · cases h
  · split at h
    · cases h
    · split at h
      · cases h
      · split at h
        · cases h
        · simp only [Option.some.injEq] at h
          subst h
          have := encodeUtf8_length ‹Nat›
          omega

theorem resolveEntity_length {e bs : List Nat} (h : resolveEntity e = some bs) : bs.length ≤ e.length + 2 := by
  unfold resolveEntity at h
  split at h
  · have := charRef_length h; simp; omega
  all_goals first | (simp only [Option.some.injEq] at h; subst h; simp) | cases h

theorem unescapeGo_length (ent : Option (List Nat)) (raw out : List Nat) (h : unescapeGo ent raw = some out) :
    out.length ≤ raw.length + (match ent with | some acc => acc.length + 1 | none => 0) := by
  induction raw generalizing ent out with
  | nil =>
    cases ent with
    | none => simp [unescapeGo] at h; subst h; simp
    | some acc => simp [unescapeGo] at h
  | cons c r ih =>
    cases ent with
    | none =>
      simp only [unescapeGo] at h
      split at h
      · have := ih (some []) out h
        simp at this ⊢; omega
      · cases hr : unescapeGo none r with
        | none => simp [hr] at h
        | some o =>
          simp only [hr, Option.map_some, Option.some.injEq] at h; subst h
          have := ih none o hr
          simp at this ⊢; omega
    | some acc =>
      simp only [unescapeGo] at h
      split at h
      · split at h
        · next bs hbs =>
          cases hr : unescapeGo none r with
          | none => simp [hr] at h
          | some o =>
            simp only [hr, Option.map_some, Option.some.injEq] at h; subst h
            have h1 := ih none o hr
            have h2 := resolveEntity_length hbs
            simp at h1 h2 ⊢; omega
        · cases h
      · split at h
        · cases h
        · have := ih (some (c :: acc)) out h
          simp at this ⊢; omega

theorem unescape_length {raw s : List Nat} (h : unescape raw = some s) : s.length ≤ raw.length := by
  have := unescapeGo_length none raw s h
  simpa using this

theorem getAttrAux_length (key : Name) (a : List Attr) (s : Name) (V : Nat)
    (hV : ∀ kv ∈ a, kv.2.length ≤ V) (h : getAttrAux key a = .ok s) : s.length ≤ V := by
  induction a with
  | nil => simp [getAttrAux] at h
  | cons kv rest ih =>
    obtain ⟨k, v⟩ := kv
    simp only [getAttrAux] at h
    split at h
    · cases h
    · split at h
      · split at h
        · next s' hs =>
          simp only [Except.ok.injEq] at h; subst h
          have := unescape_length hs
          have := hV (k, v) (by simp)
          simp at this; omega
        · cases h
      · exact ih (fun kv hkv => hV kv (List.mem_cons_of_mem _ hkv)) h

theorem getAttr_length {key : Name} {a : List Attr} {s : Name} {V : Nat}
    (hV : ∀ kv ∈ a, kv.2.length ≤ V) (h : getAttr key a = .ok s) : s.length ≤ V :=
  getAttrAux_length key a s V hV h

theorem afterLast_length_le (sep : Nat) (s : Name) : (afterLast sep s).length ≤ s.length := by
  have aux : ∀ (t acc : Name),
      (t.foldl (fun acc c => if c = sep then [] else acc ++ [c]) acc).length ≤ acc.length + t.length := by
    intro t
    induction t with
    | nil => simp
    | cons c t ih =>
      intro acc
      simp only [List.foldl_cons, List.length_cons]
      split
      · have := ih []; simp at this ⊢; omega
      · have := ih (acc ++ [c]); simp at this ⊢; omega
  have := aux s []
  simpa [afterLast] using this

theorem beforeFirst_length_le (sep : Nat) (s : Name) : (beforeFirst sep s).length ≤ s.length := by
  unfold beforeFirst
  exact (List.takeWhile_sublist _).length_le

theorem outPath_length_le (pk f : Name) : (outPath pk f).length ≤ pk.length + 1 + f.length := by
  unfold outPath
  have := (List.dropWhile_sublist (fun x => decide (x = cSlash)) (l := pk ++ cSlash :: f)).length_le
  simp at this ⊢; omega

theorem sourceFileOf_length_le (a : List Attr) (top file : Name) (V : Nat)
    (hV : ∀ kv ∈ a, kv.2.length ≤ V) (ht : top.length ≤ V) (h : sourceFileOf a top = .ok file) :
    file.length ≤ V + 5 := by
  unfold sourceFileOf at h
  split at h
  · next f hf =>
    simp only [Except.ok.injEq] at h; subst h
    have := getAttr_length hV hf; omega
  · simp only [Except.ok.injEq] at h; subst h
    simp [sDotJava]; omega
  · cases h

def AttrsLe (V : Nat) (e : XmlEvent) : Prop := ∀ kv ∈ evAttrs e, kv.2.length ≤ V
def AllLe (V : Nat) (evs : List XmlEvent) : Prop := ∀ e ∈ evs, AttrsLe V e

theorem allLe_tail {V : Nat} {e : XmlEvent} {r : List XmlEvent} (h : AllLe V (e :: r)) : AllLe V r :=
  fun e' he' => h e' (List.mem_cons_of_mem _ he')

theorem sourcefileLoop_rest (cap V fuel : Nat) (evs : List XmlEvent) (acc acc' : SrcAcc) (r' : List XmlEvent)
    (hV : AllLe V evs) (h : sourcefileLoop cap fuel evs acc = .ok (acc', r')) : AllLe V r' := by
  induction fuel generalizing evs acc with
  | zero => cases h
  | succ fuel ih =>
    cases evs with
    | nil => cases h
    | cons e r =>
      have hr := allLe_tail hV
      simp only [sourcefileLoop] at h
      cases e with
      | start n a =>
        simp only at h
        split at h
        · split at h
          · split at h
            · exact ih r _ hr h
            all_goals cases h
          · cases h
        · exact ih r _ hr h
      | end_ n =>
        simp only at h
        split at h
        · simp only [Outcome.ok.injEq, Prod.mk.injEq] at h; rw [← h.2]; exact hr
        · exact ih r _ hr h
      | bad => cases h
      | empty n a => exact ih r _ hr h
      | text => exact ih r _ hr h
      | other => exact ih r _ hr h

theorem methodLoop_rest (V fuel : Nat) (evs : List XmlEvent) (ex ex' : Bool) (r' : List XmlEvent)
    (hV : AllLe V evs) (h : methodLoop fuel evs ex = .ok (ex', r')) : AllLe V r' := by
  induction fuel generalizing evs ex with
  | zero => cases h
  | succ fuel ih =>
    cases evs with
    | nil => cases h
    | cons e r =>
      have hr := allLe_tail hV
      simp only [methodLoop] at h
      cases e with
      | start n a =>
        simp only at h
        split at h
        · split at h
          · split at h
            · split at h
              · split at h
                · exact ih r _ hr h
                · cases h
              · cases h
            · exact ih r _ hr h
          · cases h
        · exact ih r _ hr h
      | end_ n =>
        simp only at h
        split at h
        · simp only [Outcome.ok.injEq, Prod.mk.injEq] at h; rw [← h.2]; exact hr
        · exact ih r _ hr h
      | bad => cases h
      | empty n a => exact ih r _ hr h
      | text => exact ih r _ hr h
      | other => exact ih r _ hr h

theorem classLoop_names (cls : Name) (V fuel : Nat) (evs : List XmlEvent) (fns fns' : List (Name × Fn))
    (r' : List XmlEvent) (hV : AllLe V evs) (hf : ∀ f ∈ fns, f.1.length ≤ cls.length + 1 + V)
    (h : classLoop cls fuel evs fns = .ok (fns', r')) :
    AllLe V r' ∧ ∀ f ∈ fns', f.1.length ≤ cls.length + 1 + V := by
  induction fuel generalizing evs fns with
  | zero => cases h
  | succ fuel ih =>
    cases evs with
    | nil => cases h
    | cons e r =>
      have hr := allLe_tail hV
      simp only [classLoop] at h
      cases e with
      | start n a =>
        have ha : ∀ kv ∈ a, kv.2.length ≤ V := hV (.start n a) (by simp)
        simp only at h
        split at h
        · split at h
          · next name hname =>
            split at h
            · split at h
              · next startLine _ =>
                cases hm : methodLoop fuel r false with
                | ok xr =>
                  obtain ⟨ex, r1⟩ := xr
                  simp only [hm] at h
                  refine ih r1 _ (methodLoop_rest V fuel r false ex r1 hr hm) ?_ h
                  intro f hf'
                  rcases mem_set hf' with h1 | h1
                  · exact hf f h1
                  · subst h1
                    have := getAttr_length ha hname
                    simp; omega
                | err k => simp [hm] at h
                | alloc => simp [hm] at h
                | diverge => simp [hm] at h
              · cases h
            · cases h
          · cases h
        · exact ih r _ hr hf h
      | end_ n =>
        simp only at h
        split at h
        · simp only [Outcome.ok.injEq, Prod.mk.injEq] at h
          rw [← h.1, ← h.2]; exact ⟨hr, hf⟩
        · exact ih r _ hr hf h
      | bad => cases h
      | empty n a => exact ih r _ hr hf h
      | text => exact ih r _ hr hf h
      | other => exact ih r _ hr hf h

/-- names inside the package loop: file keys are one attribute value or `Top.java`; function names
are `Class#method` -/
def MapNamesLe (V : Nat) (m : List (Name × Cov)) : Prop :=
  ∀ r ∈ m, r.1.length ≤ V + 5 ∧ ∀ f ∈ r.2.functions, f.1.length ≤ 2 * V + 1

theorem mem_setAll {κ α : Type} [DecidableEq κ] {m kvs : List (κ × α)} {p : κ × α}
    (h : p ∈ setAll m kvs) : p ∈ m ∨ p ∈ kvs := by
  induction kvs generalizing m with
  | nil => exact Or.inl (by simpa [setAll] using h)
  | cons kv kvs ih =>
    simp only [setAll, List.foldl_cons] at h
    rcases ih h with h1 | h1
    · rcases mem_set h1 with h2 | h2
      · exact Or.inl h2
      · exact Or.inr (by simp [h2])
    · exact Or.inr (List.mem_cons_of_mem _ h1)

theorem addClass_names (V : Nat) (m : List (Name × Cov)) (file : Name) (fns : List (Name × Fn))
    (hm : MapNamesLe V m) (hfile : file.length ≤ V + 5) (hf : ∀ f ∈ fns, f.1.length ≤ 2 * V + 1) :
    MapNamesLe V (addClass m file fns) := by
  unfold addClass
  cases hg : get? m file with
  | some cov =>
    intro r hr
    rcases mem_set hr with h1 | h1
    · exact hm r h1
    · subst h1
      refine ⟨hfile, ?_⟩
      intro f hf'
      rcases mem_setAll hf' with h2 | h2
      · exact (hm (file, cov) (get?_mem hg)).2 f h2
      · exact hf f h2
  | none =>
    intro r hr
    rcases mem_set hr with h1 | h1
    · exact hm r h1
    · subst h1; exact ⟨hfile, hf⟩

theorem addSource_names (V : Nat) (m : List (Name × Cov)) (file : Name) (s : SrcAcc)
    (hm : MapNamesLe V m) (hfile : file.length ≤ V + 5) : MapNamesLe V (addSource m file s) := by
  unfold addSource
  cases hg : get? m file with
  | some cov =>
    intro r hr
    rcases mem_set hr with h1 | h1
    · exact hm r h1
    · subst h1; exact ⟨hfile, (hm (file, cov) (get?_mem hg)).2⟩
  | none =>
    intro r hr
    rcases mem_set hr with h1 | h1
    · exact hm r h1
    · subst h1; exact ⟨hfile, by intro f hf; cases hf⟩

/-- names of what a package hands over: `package/file`, `Class#method` -/
def OutNamesLe (V : Nat) (rs : List (Name × Cov)) : Prop :=
  ∀ r ∈ rs, r.1.length ≤ 2 * V + 6 ∧ ∀ f ∈ r.2.functions, f.1.length ≤ 2 * V + 1

theorem packageLoop_names (cap : Nat) (pk : Name) (V fuel : Nat) (evs : List XmlEvent)
    (m out : List (Name × Cov)) (r' : List XmlEvent) (hV : AllLe V evs) (hpk : pk.length ≤ V)
    (hm : MapNamesLe V m) (h : packageLoop cap pk fuel evs m = .ok (out, r')) :
    AllLe V r' ∧ OutNamesLe V out := by
  induction fuel generalizing evs m with
  | zero => cases h
  | succ fuel ih =>
    cases evs with
    | nil => cases h
    | cons e r =>
      have hr := allLe_tail hV
      simp only [packageLoop] at h
      cases e with
      | start n a =>
        have ha : ∀ kv ∈ a, kv.2.length ≤ V := hV (.start n a) (by simp)
        simp only at h
        split at h
        · split at h
          · next fq hfq =>
            have hq := getAttr_length ha hfq
            have hcls := afterLast_length_le cSlash fq
            have htop := beforeFirst_length_le cDollar (afterLast cSlash fq)
            cases hsf : sourceFileOf a (beforeFirst cDollar (afterLast cSlash fq)) with
            | error k => simp [hsf] at h
            | ok file =>
              simp only [hsf] at h
              cases hc : classLoop (afterLast cSlash fq) fuel r [] with
              | ok xr =>
                obtain ⟨fns, r1⟩ := xr
                simp only [hc] at h
                have h1 := classLoop_names (afterLast cSlash fq) V fuel r [] fns r1 hr (by intro f hf; cases hf) hc
                refine ih r1 _ h1.1 ?_ h
                apply addClass_names V m file fns hm
                · exact sourceFileOf_length_le a _ file V ha (by omega) hsf
                · intro f hf
                  have := h1.2 f hf
                  omega
              | err k => simp [hc] at h
              | alloc => simp [hc] at h
              | diverge => simp [hc] at h
          · cases h
        · split at h
          · split at h
            · next file hfile =>
              have hq := getAttr_length ha hfile
              cases hc : sourcefileLoop cap fuel r {} with
              | ok xr =>
                obtain ⟨sa, r1⟩ := xr
                simp only [hc] at h
                refine ih r1 _ (sourcefileLoop_rest cap V fuel r {} sa r1 hr hc) ?_ h
                exact addSource_names V m file sa hm (by omega)
              | err k => simp [hc] at h
              | alloc => simp [hc] at h
              | diverge => simp [hc] at h
            · cases h
          · exact ih r _ hr hm h
      | end_ n =>
        simp only at h
        split at h
        · simp only [Outcome.ok.injEq, Prod.mk.injEq] at h
          rw [← h.1, ← h.2]
          refine ⟨hr, ?_⟩
          intro x hx
          simp only [List.mem_map] at hx
          obtain ⟨⟨f, c⟩, hfc, rfl⟩ := hx
          have h1 := hm (f, c) hfc
          have h2 := outPath_length_le pk f
          simp only at h1 ⊢
          exact ⟨by omega, h1.2⟩
        · exact ih r _ hr hm h
      | bad => cases h
      | empty n a => exact ih r _ hr hm h
      | text => exact ih r _ hr hm h
      | other => exact ih r _ hr hm h

theorem reportLoop_names (cap V fuel : Nat) (evs : List XmlEvent) (res out : List (Name × Cov))
    (hV : AllLe V evs) (hres : OutNamesLe V res) (h : reportLoop cap fuel evs res = .ok out) :
    OutNamesLe V out := by
  induction fuel generalizing evs res with
  | zero => cases h
  | succ fuel ih =>
    cases evs with
    | nil => simp only [reportLoop, Outcome.ok.injEq] at h; rw [← h]; exact hres
    | cons e r =>
      have hr := allLe_tail hV
      simp only [reportLoop] at h
      cases e with
      | start n a =>
        have ha : ∀ kv ∈ a, kv.2.length ≤ V := hV (.start n a) (by simp)
        simp only at h
        split at h
        · split at h
          · next pk hpk =>
            have hq := getAttr_length ha hpk
            cases hc : packageLoop cap pk fuel r [] with
            | ok xr =>
              obtain ⟨pr, r1⟩ := xr
              simp only [hc] at h
              have h1 := packageLoop_names cap pk V fuel r [] pr r1 hr hq (by intro x hx; cases hx) hc
              refine ih r1 _ h1.1 ?_ h
              intro x hx
              simp only [List.mem_append] at hx
              rcases hx with hx | hx
              · exact hres x hx
              · exact h1.2 x hx
            | err k => simp [hc] at h
            | alloc => simp [hc] at h
            | diverge => simp [hc] at h
          · cases h
        · exact ih r _ hr hres h
      | bad => cases h
      | end_ n => exact ih r _ hr hres h
      | empty n a => exact ih r _ hr hres h
      | text => exact ih r _ hr hres h
      | other => exact ih r _ hr hres h

theorem allLe_expand {V : Nat} {evs : List XmlEvent} (h : AllLe V evs) : AllLe V (expand evs) := by
  induction evs with
  | nil => intro e he; cases he
  | cons e r ih =>
    have hr := ih (allLe_tail h)
    have he := h e (by simp)
    cases e <;> simp only [expand] <;> intro e' he' <;> simp only [List.mem_cons] at he'
    all_goals first
      | (rcases he' with he' | he'
         · subst he'; exact he
         · exact hr e' he')
      | (rcases he' with he' | he' | he'
         · subst he'; exact he
         · subst he'; intro kv hkv; cases hkv
         · exact hr e' he')

/-- every name of the result is at most two attribute values long (plus `/`, `#`, `.java`) -/
theorem parseCap_names {cap V : Nat} {evs : List XmlEvent} {fuel : Nat} {rs : List (Name × Cov)}
    (hV : AllLe V evs) (h : parseCap cap evs fuel = .ok rs) : OutNamesLe V rs :=
  reportLoop_names cap V fuel (expand evs) [] rs (allLe_expand hV) (by intro x hx; cases hx) h

theorem le_sum_of_mem {l : List Nat} {x : Nat} (h : x ∈ l) : x ≤ l.sum := by
  induction l with
  | nil => cases h
  | cons y l ih =>
    simp only [List.mem_cons] at h
    rcases h with h | h
    · subst h; simp
    · have := ih h; simp; omega

/-- an attribute value is part of the text: `AllLe (evsBytes evs) evs` -/
theorem allLe_evsBytes (evs : List XmlEvent) : AllLe (evsBytes evs) evs := by
  intro e he kv hkv
  have h1 : evBytes e ≤ evsBytes evs := by
    unfold evsBytes
    exact le_sum_of_mem (List.mem_map_of_mem he)
  have h2 : kv.2.length ≤ attrBytes (evAttrs e) := by
    unfold attrBytes
    have : kv.1.length + kv.2.length + 4 ≤ ((evAttrs e).map fun kv => kv.1.length + kv.2.length + 4).sum :=
      le_sum_of_mem (List.mem_map_of_mem (f := fun kv : Attr => kv.1.length + kv.2.length + 4) hkv)
    omega
  have h3 : attrBytes (evAttrs e) ≤ evBytes e := by
    cases e <;> simp [evBytes, evAttrs, attrBytes]
  omega

/-- with attribute values of at most `V` bytes the names are linear in the number of entries -/
theorem names_le_entries (V : Nat) (rs : List (Name × Cov)) (h : OutNamesLe V rs) :
    resNameBytes rs ≤ (2 * V + 6) * (rs.length + resEntries rs) := by
  induction rs with
  | nil => simp [resNameBytes]
  | cons r rs ih =>
    have h1 := h r (by simp)
    have h2 := ih (fun x hx => h x (List.mem_cons_of_mem _ hx))
    have h3 : (r.2.functions.map fun f => f.1.length).sum ≤ (2 * V + 1) * r.2.functions.length := by
      have hfs := h1.2
      generalize r.2.functions = fs at hfs
      induction fs with
      | nil => simp
      | cons f fs ihf =>
        have a1 := hfs f (by simp)
        have a2 := ihf (fun g hg => hfs g (List.mem_cons_of_mem _ hg))
        simp only [List.map_cons, List.sum_cons, List.length_cons, Nat.mul_succ]
        omega
    have h4 : r.2.functions.length ≤ covEntries r.2 := by simp [covEntries]; omega
    have h5 : (2 * V + 1) * r.2.functions.length ≤ (2 * V + 6) * covEntries r.2 :=
      Nat.mul_le_mul (by omega) h4
    have e1 : resNameBytes (r :: rs)
        = r.1.length + (r.2.functions.map fun f => f.1.length).sum + resNameBytes rs := by
      simp [resNameBytes]
    have e2 : resEntries (r :: rs) = covEntries r.2 + resEntries rs := by simp [resEntries]
    have e : (2 * V + 6) * ((r :: rs).length + (covEntries r.2 + resEntries rs))
        = (2 * V + 6) * (rs.length + resEntries rs) + (2 * V + 6) + (2 * V + 6) * covEntries r.2 := by
      simp only [List.length_cons]; ring
    rw [e1, e2, e]
    omega

end Grcov.Jacoco
