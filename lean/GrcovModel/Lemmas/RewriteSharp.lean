/-
Helper lemmas for `C05_rewrite_idempotent_sharp` (Props/C05Rewrite.lean): on a tree without
symbolic links a clean absolute path canonicalises to itself (or not at all), and a reported path
that the prefix removal, the `guess_abs_path` heuristic and the source-dir stripping leave alone is
resolved to itself.
-/
import GrcovModel.Lemmas.RewriteIdem
import GrcovModel.Lemmas.RewriteSymlink
namespace Grcov.Rewrite
open Grcov Grcov.UPath Grcov.Glob AList

/-- the link-free walk over real names appends them -/
theorem walk0_real_names (fs : FS) : ∀ (names cur : List Bytes) (k : Kind) (r : List Bytes × Kind),
    (∀ n ∈ names, RealName n) → walk0 fs cur k names = some r → r.1 = cur ++ names
  | [], cur, k, r, _, h => by simp [walk0] at h; subst h; simp
  | seg :: segs, cur, k, r, hn, h => by
    have hs := hn seg (by simp)
    cases k with
    | file => simp [walk0] at h
    | dir =>
      have h1 : (seg = [] || seg = [46]) = false := by simp [hs.1, hs.2.2.1]
      simp only [walk0, h1, Bool.false_eq_true, if_false, hs.2.2.2] at h
      cases hk : fs.kind (cur ++ [seg]) with
      | none => simp [hk] at h
      | some k' =>
        simp only [hk] at h
        have := walk0_real_names fs segs (cur ++ [seg]) k' r (fun n hn' => hn n (List.mem_cons_of_mem _ hn')) h
        rw [this]; simp

theorem split_render_root {names : List Bytes} (hn : ∀ n ∈ names, RealName n) :
    split (render ⟨true, names⟩) = [] :: (if names = [] then [[]] else names) := by
  simp only [render, if_true, List.cons_append, List.nil_append]
  rw [split]; simp only [if_true]
  split
  · rename_i h; rw [h]; simp [join, split]
  · rename_i h; rw [split_join h (fun s hs => (hn s hs).2.1)]

/-- no symbolic links: `canonicalize` of a clean absolute path, when it succeeds, is that path -/
theorem realpath_clean_abs_noLinks {fs : FS} (hl : fs.noLinks) {names : List Bytes}
    (hn : ∀ n ∈ names, RealName n) {c : Bytes} (h : fs.realpath (render ⟨true, names⟩) = some c) :
    c = render ⟨true, names⟩ := by
  unfold FS.realpath at h
  rw [resolve_noLinks fs hl] at h
  unfold FS.resolve0 at h
  have hne : render ⟨true, names⟩ ≠ [] := by simp [render]
  simp only [hne, if_false, hasRoot_render_true, if_true, split_render_root hn] at h
  have hw : walk0 fs [] Kind.dir ([] :: (if names = [] then [[]] else names))
      = walk0 fs [] Kind.dir (if names = [] then [[]] else names) := by simp [walk0]
  rw [hw] at h
  by_cases he : names = []
  · subst he
    simp [walk0] at h
    exact h.symm
  · rw [if_neg he] at h
    cases hq : walk0 fs [] Kind.dir names with
    | none => simp [hq] at h
    | some r =>
      simp only [hq, Option.map_some, Option.some.injEq] at h
      have := walk0_real_names fs names [] Kind.dir r hn hq
      rw [← h, this]; simp

/-- "Canonicalize, if possible; otherwise resolve '..' lexically" leaves a clean absolute path
alone when the tree has no links -/
theorem canonOrNorm_clean_abs {fs : FS} (hl : fs.noLinks) {names : List Bytes}
    (hn : ∀ n ∈ names, RealName n) :
    canonOrNorm fs (render ⟨true, names⟩) = some (render ⟨true, names⟩) := by
  unfold canonOrNorm
  cases hr : fs.realpath (render ⟨true, names⟩) with
  | some c => rw [realpath_clean_abs_noLinks hl hn hr]
  | none => simp [normalizePath_render (np := ⟨true, names⟩) hn]

theorem isRelative_join {names : List Bytes} (hn : ∀ n ∈ names, RealName n) :
    isRelative (join names) = true := by
  cases names with
  | nil => simp [isRelative, hasRoot, join]
  | cons x t =>
    unfold isRelative hasRoot
    simpa using head_join_ne_slash (hn x (by simp)).1 (hn x (by simp)).2.1

/-- **A reported path that the three re-stripping mechanisms leave alone is resolved to itself.**
No mapping, no symbolic links, clean current directory, the source dir absent or clean and
absolute; `p` a non-empty clean path without backslash (what `rewrite_paths` reports) such that
* `hrel`: the prefix dir is not a prefix of it (else it would be stripped AGAIN: findings
  C05-relative-prefix-restripped, C05-prefix-behind-dotdot-restripped),
* `hguess`: if relative, `guess_abs_path` puts it directly below the source dir – the file exists
  there, or no leading part of it repeats the tail of the source dir (else: finding
  C05-source-dir-name-restripped),
* `habs`: if absolute, it is not below the source dir (it was reported absolute because it is not). -/
theorem resolveKey_sharp {cfg : Cfg} {fs : FS} (hM : cfg.mapping = none) (hl : fs.noLinks)
    (hcwd : ∀ n ∈ fs.cwd, RealName n)
    (hSrc : ∀ S, cfg.sourceDir = some S → ∃ sn, S = render ⟨true, sn⟩ ∧ ∀ n ∈ sn, RealName n)
    {np : NPath} (hreal : ∀ n ∈ np.names, RealName n) (hbs : 92 ∉ render np) (hne : render np ≠ [])
    (hrel : removePrefix cfg.prefixDir (render np) = render np)
    (hguess : ∀ S, cfg.sourceDir = some S → isRelative (render np) = true →
      guessAbsPath fs S (render np) = some (push S (render np)))
    (habs : ∀ S, cfg.sourceDir = some S → isRelative (render np) = false →
      stripPrefix (render np) S = none) :
    ∃ a, resolveKey cfg fs (render np) = .ok (some (a, render np)) := by
  have hfin : finalRel (render np) = some (render np) := by
    unfold finalRel; rw [bsl_id hbs, normalizePath_render hreal]
  have hkp : keyPath cfg (render np) = render np := by
    unfold keyPath; rw [bsl_id hbs, hM]; exact hrel
  cases hS : cfg.sourceDir with
  | none =>
    have hguess0 : absGuess fs none (render np) = some (render np) := by
      unfold absGuess; split <;> rfl
    obtain ⟨ac, hac, npa, hra, ea⟩ : ∃ ac, canonOrNorm fs (render np) = some ac ∧
        ∃ npa : NPath, (∀ n ∈ npa.names, RealName n) ∧ ac = render npa := by
      unfold canonOrNorm
      cases hr : fs.realpath (render np) with
      | some c =>
        obtain ⟨names, hn, e⟩ := realpath_clean hcwd hr
        exact ⟨c, rfl, ⟨true, names⟩, hn, e⟩
      | none => exact ⟨render np, by simp [normalizePath_render hreal], np, hreal, rfl⟩
    refine ⟨ac, ?_⟩
    unfold resolveKey
    simp only [hM, Option.isSome_none, Bool.false_and, Bool.false_eq_true, if_false, hkp, hS]
    have : getAbsPath fs none (render np) = .ok (some (ac, render np)) := by
      rw [getAbsPath_some_iff]
      refine ⟨ac, by simp [absCanon, hguess0, hac], by rw [ea, normalizePath_render hra], ?_⟩
      simp [fixupRelPath, normalizePath_render hreal]
    rw [this]
    simp [finishPath, hfin]
  | some S =>
    obtain ⟨sn, eS, hsn⟩ := hSrc S hS
    subst eS
    obtain ⟨root, names⟩ := np
    replace hreal : ∀ n ∈ names, RealName n := hreal
    unfold resolveKey
    simp only [hM, Option.isSome_none, Bool.false_and, Bool.false_eq_true, if_false, hkp, hS]
    cases root with
    | true =>
      have hnr : isRelative (render ⟨true, names⟩) = false := by
        simp [isRelative, hasRoot_render_true]
      refine ⟨render ⟨true, names⟩, ?_⟩
      have : getAbsPath fs (some (render ⟨true, sn⟩)) (render ⟨true, names⟩)
          = .ok (some (render ⟨true, names⟩, render ⟨true, names⟩)) := by
        rw [getAbsPath_some_iff]
        refine ⟨render ⟨true, names⟩, ?_, normalizePath_render (np := ⟨true, names⟩) hreal, ?_⟩
        · simp [absCanon, absGuess, hnr, canonOrNorm_clean_abs hl hreal]
        · simp [fixupRelPath, habs _ hS hnr, hnr, normalizePath_render (np := ⟨true, names⟩) hreal]
      rw [this]
      simp [finishPath, hfin]
    | false =>
      have hnn : names ≠ [] := by
        intro e; subst e; exact hne (by simp [render, join])
      have ej : render ⟨false, names⟩ = join names := (join_eq_render names).symm
      have hrelj : isRelative (render ⟨false, names⟩) = true := by rw [ej]; exact isRelative_join hreal
      have hall : ∀ n ∈ sn ++ names, RealName n := by
        intro n h; rcases List.mem_append.1 h with h | h
        · exact hsn n h
        · exact hreal n h
      have hg := hguess _ hS hrelj
      rw [ej] at hg hrelj
      rw [push_render hsn hreal hnn] at hg
      refine ⟨render ⟨true, sn ++ names⟩, ?_⟩
      have : getAbsPath fs (some (render ⟨true, sn⟩)) (render ⟨false, names⟩)
          = .ok (some (render ⟨true, sn ++ names⟩, render ⟨false, names⟩)) := by
        rw [getAbsPath_some_iff]
        refine ⟨render ⟨true, sn ++ names⟩, ?_, normalizePath_render (np := ⟨true, sn ++ names⟩) hall, ?_⟩
        · rw [ej]
          simp [absCanon, absGuess, hrelj, hg, canonOrNorm_clean_abs hl hall]
        · simp only [fixupRelPath, stripPrefix_render hsn hreal]
          rw [join_eq_render, normalizePath_render (np := ⟨false, names⟩) hreal]
      rw [this]
      simp [finishPath, hfin]

end Grcov.Rewrite
