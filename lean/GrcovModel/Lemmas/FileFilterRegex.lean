/-
Lemmas that connect the regex model (GrcovModel/Regex) with the exclusion pass
(GrcovModel/FileFilter.lean) through GrcovModel/FileFilter/Regex.lean.
-/
import GrcovModel.Lemmas.FileFilter
import GrcovModel.Lemmas.RegexMatch
import GrcovModel.FileFilter.Regex
namespace Grcov.FileFilter
open Grcov Grcov.Regex

/-! ### the bit of an unconfigured option is never looked at -/

def maskBits (o : Opts) (m : Bits) : Bits :=
  ⟨o.line && m.line, o.start && m.start, o.stop && m.stop, o.brLine && m.brLine,
   o.brStart && m.brStart, o.brStop && m.brStop⟩

theorem stepFlags_mask (o : Opts) (fl : Flags) (m : Bits) :
    stepFlags o fl (maskBits o m) = stepFlags o fl m := by
  simp only [stepFlags, hit, maskBits, ← Bool.and_assoc, Bool.and_self]

theorem classify_mask (o : Opts) (fl : Flags) (m : Bits) :
    classify o fl (maskBits o m) = classify o fl m := by
  simp only [classify, hit, maskBits, ← Bool.and_assoc, Bool.and_self]

theorem scan_mask (o : Opts) : ∀ (fl : Flags) (ms : List Bits),
    scan o fl (ms.map (maskBits o)) = scan o fl ms
  | _, [] => rfl
  | fl, m :: ms => by
    simp only [List.map_cons, scan, stepFlags_mask, classify_mask, scan_mask o _ ms]

theorem create_mask (o : Opts) (r : Bool) (ms : List Bits) :
    create o r (ms.map (maskBits o)) = create o r ms := by
  simp only [create, scan_mask]

/-- two sets of six predicates that agree on the configured options give the same filter list -/
theorem createSrc_congr (o : Opts) (rx rx' : Rx) (src : Option (List Nat))
    (h : ∀ l, maskBits o (rx.bits l) = maskBits o (rx'.bits l)) :
    createSrc o rx src = createSrc o rx' src := by
  cases src with
  | none => rfl
  | some s =>
    simp only [createSrc]
    rw [← create_mask o true (sourceBits rx s), ← create_mask o true (sourceBits rx' s)]
    congr 1
    simp only [sourceBits, List.map_map]
    apply List.map_congr_left
    intro p _
    exact h (stripCR p)

/-- … it is enough that they agree on the lines of THIS source -/
theorem createSrc_congr_on (o : Opts) (rx rx' : Rx) (s : List Nat)
    (h : ∀ p ∈ splitSrc s, maskBits o (rx.bits (stripCR p)) = maskBits o (rx'.bits (stripCR p))) :
    createSrc o rx (some s) = createSrc o rx' (some s) := by
  simp only [createSrc]
  rw [← create_mask o true (sourceBits rx s), ← create_mask o true (sourceBits rx' s)]
  congr 1
  simp only [sourceBits, List.map_map]
  apply List.map_congr_left
  intro p hp
  exact h p hp

/-! ### source lines -/

theorem lineAt_sourceBits (rx : Rx) (src : List Nat) (n : Nat) :
    lineAt (sourceBits rx src) n = (srcLine src n).map rx.bits := by
  unfold lineAt srcLine sourceBits
  by_cases hn : n = 0
  · simp [hn]
  · simp only [hn, if_false, List.getElem?_map, Option.map_map]
    rfl

theorem srcLine_range {src : List Nat} {n : Nat} {l : List Nat} (h : srcLine src n = some l) :
    1 ≤ n ∧ n ≤ (splitSrc src).length := by
  unfold srcLine at h
  by_cases hn : n = 0
  · simp [hn] at h
  · simp only [hn, if_false, Option.map_eq_some_iff] at h
    obtain ⟨p, hp, _⟩ := h
    have := (List.getElem?_eq_some_iff.1 hp).1
    omega

theorem lineMatch_iff (a : Option Ast) (l : List Nat) :
    lineMatch a l = true ↔ ∃ pat cs, a = some pat ∧ decode l = some cs ∧ Matches pat cs := by
  unfold lineMatch
  cases a with
  | none => simp
  | some pat =>
    cases hd : decode l with
    | none => simp
    | some cs => simp [isMatch_iff]

/-- `Marks` on the bits of a source, for any one of the six dimensions -/
theorem Marks_sourceBits (conf : Bool) (f : Bits → Bool) (g : List Nat → Bool) (rx : Rx)
    (hfg : ∀ l, f (rx.bits l) = g l) (src : List Nat) (n : Nat) :
    Marks conf f (sourceBits rx src) n ↔ conf = true ∧ ∃ l, srcLine src n = some l ∧ g l = true := by
  unfold Marks
  rw [lineAt_sourceBits]
  constructor
  · rintro ⟨hc, m, hm, hf⟩
    obtain ⟨l, hl, rfl⟩ := Option.map_eq_some_iff.1 hm
    exact ⟨hc, l, hl, by rw [← hfg]; exact hf⟩
  · rintro ⟨hc, l, hl, hg⟩
    exact ⟨hc, rx.bits l, by rw [hl]; rfl, by rw [hfg]; exact hg⟩

theorem Marks_compiled (a : Option Ast) (f : Bits → Bool) (rx : Rx)
    (hfg : ∀ l, f (rx.bits l) = lineMatch a l) (src : List Nat) (n : Nat) :
    Marks a.isSome f (sourceBits rx src) n ↔ LineMatches a src n := by
  rw [Marks_sourceBits a.isSome f (lineMatch a) rx hfg]
  unfold LineMatches
  constructor
  · rintro ⟨_, l, hl, hm⟩
    obtain ⟨pat, cs, ha, hd, hM⟩ := (lineMatch_iff a l).1 hm
    exact ⟨pat, l, cs, ha, hl, hd, hM⟩
  · rintro ⟨pat, l, cs, ha, hl, hd, hM⟩
    exact ⟨by rw [ha]; rfl, l, hl, (lineMatch_iff a l).2 ⟨pat, cs, ha, hd, hM⟩⟩

/-- line data: removed iff `n` is a line of the text and the line pattern matches it or it lies in a
region opened by a line the start pattern matches and not closed by a later line the stop pattern
matches -/
theorem removesLine_compiled (c : Compiled6) (src : List Nat) (n : Nat)
    (hlen : (splitSrc src).length ≤ U32MAX) :
    removesLine (createSrc c.toOpts c.rx (some src)) n ↔
      1 ≤ n ∧ n ≤ (splitSrc src).length ∧
      (LineMatches c.line src n ∨ inRegion (LineMatches c.start src) (LineMatches c.stop src) n) := by
  have hl : (sourceBits c.rx src).length ≤ U32MAX := by rw [sourceBits_length]; exact hlen
  by_cases hn : 1 ≤ n ∧ n ≤ (sourceBits c.rx src).length
  · simp only [createSrc]
    rw [removesLine_iff c.toOpts _ hl n hn.1 hn.2]
    rw [sourceBits_length] at hn
    unfold lineMarker inLineRegion lineStart lineStop
    rw [show c.toOpts.line = c.line.isSome from rfl, show c.toOpts.start = c.start.isSome from rfl,
      show c.toOpts.stop = c.stop.isSome from rfl,
      Marks_compiled c.line (·.line) c.rx (fun _ => rfl)]
    have := inRegion_congr
      (fun k => Marks_compiled c.start (·.start) c.rx (fun _ => rfl) src k)
      (fun k => Marks_compiled c.stop (·.stop) c.rx (fun _ => rfl) src k) n
    rw [this]
    exact ⟨fun h => ⟨hn.1, hn.2, h⟩, fun h => h.2.2⟩
  · constructor
    · intro h
      exact absurd (removes_range c.toOpts _ hl true n (Or.inl h)) hn
    · rw [sourceBits_length] at hn
      rintro ⟨h1, h2, _⟩
      exact absurd ⟨h1, h2⟩ hn

/-- … and branch data, with the three branch patterns -/
theorem removesBranch_compiled (c : Compiled6) (src : List Nat) (n : Nat)
    (hlen : (splitSrc src).length ≤ U32MAX) :
    removesBranch (createSrc c.toOpts c.rx (some src)) n ↔
      1 ≤ n ∧ n ≤ (splitSrc src).length ∧
      (LineMatches c.brLine src n ∨ inRegion (LineMatches c.brStart src) (LineMatches c.brStop src) n) := by
  have hl : (sourceBits c.rx src).length ≤ U32MAX := by rw [sourceBits_length]; exact hlen
  by_cases hn : 1 ≤ n ∧ n ≤ (sourceBits c.rx src).length
  · simp only [createSrc]
    rw [removesBranch_iff c.toOpts _ hl n hn.1 hn.2]
    rw [sourceBits_length] at hn
    unfold brMarker inBrRegion brStart brStop
    rw [show c.toOpts.brLine = c.brLine.isSome from rfl, show c.toOpts.brStart = c.brStart.isSome from rfl,
      show c.toOpts.brStop = c.brStop.isSome from rfl,
      Marks_compiled c.brLine (·.brLine) c.rx (fun _ => rfl)]
    have := inRegion_congr
      (fun k => Marks_compiled c.brStart (·.brStart) c.rx (fun _ => rfl) src k)
      (fun k => Marks_compiled c.brStop (·.brStop) c.rx (fun _ => rfl) src k) n
    rw [this]
    exact ⟨fun h => ⟨hn.1, hn.2, h⟩, fun h => h.2.2⟩
  · constructor
    · intro h
      exact absurd (removes_range c.toOpts _ hl true n (Or.inr h)) hn
    · rw [sourceBits_length] at hn
      rintro ⟨h1, h2, _⟩
      exact absurd ⟨h1, h2⟩ hn

end Grcov.FileFilter
